import SameVerif.Lemmas.ChainOps
import SameVerif.Thm.C02
/-
  The digital chain (headline of C01 at model level): link model → receiver glue → assembler.
  If the DSP front end delivers what `Spec.BurstObserved` says for each of the three bursts of a
  header transmission, the receiver's events contain exactly one message event, and it is
  `StartOfMessage` with text exactly `H`.

  Layer 1: a receiver run in which the forced end-of-message timer does not fire is the assembler
           run over `opsOfTicks` (`receiver_asm`, `receiver_events`, `receiver_results`).
  Layer 2: the link model over a whole transmission (`segments_delivered'`, `three_segments'`).
  Layer 3: the composition (`decoded_of_link_output`, `transmission_decoded`,
           `transmission_decoded_clean`), and non-vacuity on a concrete stream.
-/
namespace SameVerif.Chain
open SameVerif SameVerif.Spec SameVerif.Asm

/-! ## Layer 1 — receiver run = assembler operations -/

/-- **Bridge, state.**  `SamplesWithin rate smax ticks`: every tick's sample is `≤ smax` and
    `smax ≤ sample + MAX_MESSAGE_DURATION_SECS * rate`; `NoFire smax s`: a timer already armed in
    `s` does not expire before `smax`.  Then the timer never fires during the run, and the
    assembler inside the receiver ends where `runOps` over `opsOfTicks ticks` ends. -/
theorem receiver_asm (rate smax : Nat) (s : RState) (ticks : List RTick)
    (hnf : NoFire smax s) (hsw : SamplesWithin rate smax ticks) :
    (rRun rate s ticks).1.asm = (runOps s.asm (opsOfTicks ticks)).1 :=
  (run_asm rate smax ticks s hnf hsw).1

/-- **Bridge, events.**  Additionally `RInv s` and no EndOfMessage among the assembler run's
    outputs: the message events of the receiver run are, in order and one for one, the outputs of
    the assembler run — same result, and the event's sample and the output's time belong to one
    tick (`Matches`).  The restriction to runs without EndOfMessage outputs is what makes this
    exact: an EndOfMessage answered while the reported transport state already is EndOfMessage
    yields no event. -/
theorem receiver_events (rate smax : Nat) (s : RState) (ticks : List RTick) (hinv : RInv s)
    (hnf : NoFire smax s) (hsw : SamplesWithin rate smax ticks)
    (hne : ∀ o ∈ (runOps s.asm (opsOfTicks ticks)).2, o.2 ≠ .ok .eom) :
    Forall₂ (Matches ticks) (msgEvents (rRun rate s ticks).2) (runOps s.asm (opsOfTicks ticks)).2 :=
  run_events rate smax ticks s hinv hnf hsw hne

/-- the results alone: the same list, in the same order -/
theorem receiver_results (rate smax : Nat) (s : RState) (ticks : List RTick) (hinv : RInv s)
    (hnf : NoFire smax s) (hsw : SamplesWithin rate smax ticks)
    (hne : ∀ o ∈ (runOps s.asm (opsOfTicks ticks)).2, o.2 ≠ .ok .eom) :
    (msgEvents (rRun rate s ticks).2).map (·.2) = ((runOps s.asm (opsOfTicks ticks)).2).map (·.2) :=
  forall2_matches_results ticks _ _ (run_events rate smax ticks s hinv hnf hsw hne)

/-! ## Layer 2 — the link model over a whole transmission -/

/-- **Any number of bursts.**  Segments, each an observed burst of its own payload, one after the
    other from a quiescent link state: the bursts reported are, in order and one for one,
    `payload_i ++ t_i` with `|t_i| ≤ ⌈rel_i / 8⌉`; the link is quiescent at the end. -/
theorem segments_delivered' (c : LCfg) (hE : c.maxErrors ≤ 6) (hP : c.fc.maxPrefixErr ≤ 7)
    (ps : List (List Byte × Seg)) (s : LState) (hs : Quiescent s)
    (hall : ∀ p ∈ ps, PayloadCond c p.1 ∧ Observed p.1 p.2) :
    Forall₂ (fun p b => ∃ t, b = p.1 ++ t ∧ t.length ≤ (p.2.rel + 7) / 8) ps
        (lrunBursts c s (ps.flatMap (fun p => p.2.ticks)))
      ∧ Quiescent (lrunState c s (ps.flatMap (fun p => p.2.ticks))) :=
  segments_delivered c hE hP ps s hs hall

/-- **Three bursts and silence, tick by tick**: three stretches `L_i` (as long as the segments),
    each with exactly one `.burst (payload ++ t_i)`, reported more than 31 ticks after the end of
    the body (`SegOut`), then `.noCarrier` throughout the silence. -/
theorem three_segments' (c : LCfg) (hE : c.maxErrors ≤ 6) (hP : c.fc.maxPrefixErr ≤ 7)
    (payload : List Byte) (hc : PayloadCond c payload) (g1 g2 g3 : Seg)
    (h1 : Observed payload g1) (h2 : Observed payload g2) (h3 : Observed payload g3)
    (quiet : List Tick) (hq : ∀ x ∈ quiet, x.1.openOk = false)
    (s : LState) (hs : Quiescent s) :
    ∃ t1 t2 t3 L1 L2 L3,
      lrun c s (transmission g1 g2 g3 quiet) = L1 ++ L2 ++ L3 ++ List.replicate quiet.length LinkSt.noCarrier
        ∧ SegOut g1 payload t1 L1 ∧ SegOut g2 payload t2 L2 ∧ SegOut g3 payload t3 L3
        ∧ lrunBursts c s (transmission g1 g2 g3 quiet) = [payload ++ t1, payload ++ t2, payload ++ t3]
        ∧ Quiescent (lrunState c s (transmission g1 g2 g3 quiet)) :=
  three_segments c hE hP payload hc g1 g2 g3 h1 h2 h3 quiet hq s hs

/-! ## Layer 3 — the chain -/

/-- the vote over the tails, wherever two or more of them have a byte, is never `-` — the
    conditions `hd2`, `hd3` of `C02.three_bursts_report_tails` (they can fail: F7,
    `C02.tail_extension_witness`) -/
def TailsNoDash (H t1 t2 t3 : List Byte) : Prop :=
  (∀ e ∈ estimateLoop (MAXLEN - H.length) [t1, t2], 2 ≤ e.nbursts → e.byte ≠ 45)
    ∧ (∀ e ∈ estimateLoop (MAXLEN - H.length) [t1, t2, t3], 2 ≤ e.nbursts → e.byte ≠ 45)

theorem tailsNoDash_nil (H : List Byte) : TailsNoDash H [] [] [] := by
  constructor
  · rw [estimateLoop_nils2]; intro e he; cases he
  · rw [estimateLoop_nils3]; intro e he; cases he

theorem forall2_singleton {α β : Type} {R : α → β → Prop} {es : List α} {o : β}
    (h : Forall₂ R es [o]) : ∃ e, es = [e] ∧ R e o := by
  cases h with
  | cons hr ht => cases ht; exact ⟨_, rfl, hr⟩

/-- the conclusion of the chain theorems: among the events there is exactly one message event;
    it carries the sample of tick `i` and is a StartOfMessage with text exactly `H` -/
def DecodedOnce (evs : List Event) (samples : Nat → Nat) (N : Nat) (H : List Byte) (off : Nat) : Prop :=
  ∃ i h, i < N ∧ msgEvents evs = [(samples i, .ok (.som h))]
    ∧ h.text = H ∧ h.offsetTime = off ∧ h.parity = 0 ∧ (h.voting = 0 ∨ h.voting = H.length)

/-- **The chain, from the link model's per-tick output** (the positions of the `.burst` ticks
    given as `SegOut` facts; `transmission_decoded` derives them).  The receiver starts in `{}`. -/
theorem decoded_of_link_output (rate sym0 smax : Nat) (samples : Nat → Nat) (H : List Byte) (off : Nat)
    (hcan : checkHeader H = some (off, H.length))
    (hall : ∀ b ∈ H, isAllowed b = true)
    (hfit : H.length ≤ MAXLEN)
    (g1 g2 g3 : Seg) (t1 t2 t3 : List Byte) (L1 L2 L3 : List LinkSt) (n : Nat)
    (o1 : SegOut g1 H t1 L1) (o2 : SegOut g2 H t2 L2) (o3 : SegOut g3 H t3 L3)
    (hn : HOLD ≤ n)
    (hspan : g1.tail.length + g2.ticks.length + g3.ticks.length ≤ HIST)
    (htd : TailsNoDash H t1 t2 t3)
    (hsamp : ∀ i, i < (L1 ++ L2 ++ L3 ++ List.replicate n LinkSt.noCarrier).length →
      samples i ≤ smax ∧ smax ≤ samples i + TIMEOUT rate) :
    DecodedOnce (rRun rate {} (mkTicks samples sym0 0 (L1 ++ L2 ++ L3 ++ List.replicate n LinkSt.noCarrier))).2
      samples (L1 ++ L2 ++ L3 ++ List.replicate n LinkSt.noCarrier).length H off := by
  have hHOLD := HOLD_pos
  obtain ⟨pa1, pb1, k1, e1, hk1, hk1'⟩ := opsAt_segOut samples sym0 0 g1 H t1 L1 o1
  obtain ⟨pa2, pb2, k2, e2, hk2, hk2'⟩ := opsAt_segOut samples sym0 (0 + L1.length) g2 H t2 L2 o2
  obtain ⟨pa3, pb3, k3, e3, hk3, hk3'⟩ := opsAt_segOut samples sym0 (0 + (L1 ++ L2).length) g3 H t3 L3 o3
  obtain ⟨pq, eq⟩ := opsAt_silence samples sym0 (0 + (L1 ++ L2 ++ L3).length) n (by omega)
  generalize hT1 : sym0 + 1 + 0 + k1 = T1 at e1
  generalize hT2 : sym0 + 1 + (0 + L1.length) + k2 = T2 at e2
  generalize hT3 : sym0 + 1 + (0 + (L1 ++ L2).length) + k3 = T3 at e3
  generalize hT : sym0 + (0 + (L1 ++ L2 ++ L3).length) + n = T at eq
  generalize hL : L1 ++ L2 ++ L3 ++ List.replicate n LinkSt.noCarrier = L at hsamp ⊢
  -- the operation list
  have hops : opsAt samples sym0 0 L
      = pa1.map .poll ++ (.burst (H ++ t1) T1 :: ((pb1 ++ pa2).map .poll ++ .burst (H ++ t2) T2 ::
          ((pb2 ++ pa3).map .poll ++ .burst (H ++ t3) T3 :: ((pb3 ++ pq).map .poll ++ [.poll T])))) := by
    rw [← hL, opsAt_append, opsAt_append, opsAt_append, e1, e2, e3, eq]
    simp only [List.map_append, List.append_assoc, List.cons_append]
  have hsorted := opsAt_sorted samples sym0 L 0
  rw [hops] at hsorted
  have hsorted' := (List.pairwise_append.1 hsorted).2.1
  -- leading polls do nothing
  obtain ⟨q1, q2, q3, q4⟩ := run_polls_init pa1
  -- the three bursts
  have hlen1 : g1.ticks.length = g1.lead.length + g1.body.length + g1.tail.length := by
    simp only [Seg.ticks, List.length_append]
  have hl1 := o1.len
  have hl2 := o2.len
  have hl3 := o3.len
  have hl12 : (L1 ++ L2).length = L1.length + L2.length := List.length_append
  have hl123 : (L1 ++ L2 ++ L3).length = L1.length + L2.length + L3.length := by
    simp only [List.length_append]
  obtain ⟨u, h, hres, hx1, hx2, hx3, hx4⟩ := C02.three_bursts_report (runOps {} (pa1.map .poll)).1
    H t1 t2 t3 off T1 T2 T3 T (pb1 ++ pa2) (pb2 ++ pa3) (pb3 ++ pq) hall hcan hfit htd.1 htd.2 q2 q3
    (by intro p hp; rw [q4] at hp; cases hp) hsorted' (by omega) (by omega)
  have hrun : (runOps ({} : RState).asm (opsOfTicks (mkTicks samples sym0 0 L))).2 = [(u, .ok (.som h))] := by
    show (runOps {} (opsAt samples sym0 0 L)).2 = _
    rw [hops, runOps_append_snd, q1, List.nil_append]
    exact hres
  -- the receiver run
  have hsw : SamplesWithin rate smax (mkTicks samples sym0 0 L) :=
    samplesWithin_mkTicks rate smax samples sym0 0 L (fun j _ hj => hsamp j (by omega))
  have hev := run_events rate smax (mkTicks samples sym0 0 L) {} rInv_init (noFire_init smax) hsw
    (by rw [hrun]; intro o ho; rw [List.mem_singleton.1 ho]; simp)
  rw [hrun] at hev
  obtain ⟨e, he, hm1, ls, hm2⟩ := forall2_singleton hev
  obtain ⟨j, _, hj2, hj3, _⟩ := mem_mkTicks samples sym0 L 0 _ hm2
  refine ⟨j, h, by omega, ?_, hx1, hx2, hx3, hx4⟩
  rw [he]
  simp only at hm1 hj3
  rw [← hj3, ← hm1]

/-- **C01, digital chain.**  `H`: a header text the parser accepts entirely, in the SAME character
    set, short enough for a burst.  Three observed bursts of `H` (`Spec.BurstObserved` each), then
    silence for at least the hold time; from the end of the first body to the end of the third
    segment no more than the history time.  Link state quiescent, receiver in its initial state.
    The tails that the link layer appends to the bursts (whatever they are — they are determined by
    the equalizer's decisions after the carrier stops) do not vote to a `-` (`htails`).  The sample
    counter stays within one forced-EOM timeout over the run (`hsamp`).

    Then the events of the composed run contain exactly one message event, a StartOfMessage whose
    text is exactly `H`, time offset `off`, no bit errors counted, and voting count `0` (released
    after two bursts) or `|H|` (after three). -/
theorem transmission_decoded (c : LCfg) (hE : c.maxErrors ≤ 6) (hP : c.fc.maxPrefixErr ≤ 7)
    (rate sym0 smax : Nat) (samples : Nat → Nat) (H : List Byte) (off : Nat)
    (hcan : checkHeader H = some (off, H.length))
    (hall : ∀ b ∈ H, isAllowed b = true)
    (hfits : H.length ≤ Gen.MAX_BURST_LENGTH)
    (g1 g2 g3 : Seg) (h1 : Observed H g1) (h2 : Observed H g2) (h3 : Observed H g3)
    (quiet : List Tick) (hq : ∀ x ∈ quiet, x.1.openOk = false) (hqlen : HOLD ≤ quiet.length)
    (hspan : g1.tail.length + g2.ticks.length + g3.ticks.length ≤ HIST)
    (ls0 : LState) (hls : Quiescent ls0)
    (htails : ∀ t1 t2 t3, t1.length ≤ (g1.rel + 7) / 8 → t2.length ≤ (g2.rel + 7) / 8 →
      t3.length ≤ (g3.rel + 7) / 8 →
      lrunBursts c ls0 (transmission g1 g2 g3 quiet) = [H ++ t1, H ++ t2, H ++ t3] →
      TailsNoDash H t1 t2 t3)
    (hsamp : ∀ i, i < (transmission g1 g2 g3 quiet).length →
      samples i ≤ smax ∧ smax ≤ samples i + TIMEOUT rate) :
    DecodedOnce (chain c rate ls0 {} sym0 samples (transmission g1 g2 g3 quiet))
      samples (transmission g1 g2 g3 quiet).length H off := by
  have hc := payloadCond_of_header c H _ hcan hall hfits
  obtain ⟨t1, t2, t3, L1, L2, L3, hrun, o1, o2, o3, hb, _⟩ :=
    three_segments c hE hP H hc g1 g2 g3 h1 h2 h3 quiet hq ls0 hls
  have htd := htails t1 t2 t3 o1.tail_len o2.tail_len o3.tail_len hb
  have hlen : (transmission g1 g2 g3 quiet).length
      = (L1 ++ L2 ++ L3 ++ List.replicate quiet.length LinkSt.noCarrier).length := by
    rw [← hrun, lrun_length]; rfl
  have hfit : H.length ≤ MAXLEN := by
    have : Gen.MAX_BURST_LENGTH ≤ MAXLEN := by decide
    omega
  have := decoded_of_link_output rate sym0 smax samples H off hcan hall hfit g1 g2 g3 t1 t2 t3 L1 L2 L3
    quiet.length o1 o2 o3 hqlen hspan htd (fun i hi => hsamp i (by rw [hlen]; exact hi))
  unfold chain chainTicks
  rw [hlen]
  exact hrun ▸ this

/-- the same when the close threshold fails as soon as the carrier stops (`rel = 0` for the three
    bursts): the link layer appends nothing, the condition on the tails is void -/
theorem transmission_decoded_clean (c : LCfg) (hE : c.maxErrors ≤ 6) (hP : c.fc.maxPrefixErr ≤ 7)
    (rate sym0 smax : Nat) (samples : Nat → Nat) (H : List Byte) (off : Nat)
    (hcan : checkHeader H = some (off, H.length))
    (hall : ∀ b ∈ H, isAllowed b = true)
    (hfits : H.length ≤ Gen.MAX_BURST_LENGTH)
    (g1 g2 g3 : Seg) (h1 : Observed H g1) (h2 : Observed H g2) (h3 : Observed H g3)
    (hr1 : g1.rel = 0) (hr2 : g2.rel = 0) (hr3 : g3.rel = 0)
    (quiet : List Tick) (hq : ∀ x ∈ quiet, x.1.openOk = false) (hqlen : HOLD ≤ quiet.length)
    (hspan : g1.tail.length + g2.ticks.length + g3.ticks.length ≤ HIST)
    (ls0 : LState) (hls : Quiescent ls0)
    (hsamp : ∀ i, i < (transmission g1 g2 g3 quiet).length →
      samples i ≤ smax ∧ smax ≤ samples i + TIMEOUT rate) :
    DecodedOnce (chain c rate ls0 {} sym0 samples (transmission g1 g2 g3 quiet))
      samples (transmission g1 g2 g3 quiet).length H off := by
  apply transmission_decoded c hE hP rate sym0 smax samples H off hcan hall hfits g1 g2 g3 h1 h2 h3
    quiet hq hqlen hspan ls0 hls ?_ hsamp
  intro t1 t2 t3 l1 l2 l3 _
  rw [hr1] at l1; rw [hr2] at l2; rw [hr3] at l3
  rw [List.eq_nil_of_length_eq_zero (by omega : t1.length = 0),
    List.eq_nil_of_length_eq_zero (by omega : t2.length = 0),
    List.eq_nil_of_length_eq_zero (by omega : t3.length = 0)]
  exact tailsNoDash_nil H

section Demo
open SameVerif.C01

/-! ## non-vacuity -/

/-- the demo burst of `Thm/C01.lean` as a segment: 40 quiet ticks, the header
    `ZCZC-WXR-RWT-012345+0030-1231200-KXYZ/NWS-` acquired at bit 5, carrier released after 10 ticks -/
def demoSeg : Seg := ⟨demoLead 40, demoBody demoHeader 5 0x41, demoTail demoHeader 10 0x41, 5, 10⟩

theorem demoSeg_observed : Observed demoHeader demoSeg := demoHeader_observed

theorem demoHeader_canonical :
    checkHeader demoHeader = some (19, demoHeader.length) ∧ (∀ b ∈ demoHeader, isAllowed b = true)
      ∧ demoHeader.length ≤ Gen.MAX_BURST_LENGTH := by
  decide +kernel

theorem demoSeg_lengths : demoSeg.tail.length = 50 ∧ demoSeg.ticks.length = 554
    ∧ (transmission demoSeg demoSeg demoSeg (demoLead 700)).length = 2362 := by
  decide +kernel

theorem demoQuiet_closed : ∀ x ∈ demoLead 700, x.1.openOk = false := by
  intro x hx
  rw [(List.mem_replicate.1 hx).2]

/-- **Layer 2 on a concrete three-burst stream**, by the general theorem (sync budget 6, prefix
    budget 7 — the extremes the theorem allows) -/
theorem demo_three_segments :
    ∃ t1 t2 t3 L1 L2 L3,
      lrun ⟨6, ⟨7, 5⟩⟩ { nsym := 32 } (transmission demoSeg demoSeg demoSeg (demoLead 700))
          = L1 ++ L2 ++ L3 ++ List.replicate 700 LinkSt.noCarrier
        ∧ SegOut demoSeg demoHeader t1 L1 ∧ SegOut demoSeg demoHeader t2 L2 ∧ SegOut demoSeg demoHeader t3 L3
        ∧ lrunBursts ⟨6, ⟨7, 5⟩⟩ { nsym := 32 } (transmission demoSeg demoSeg demoSeg (demoLead 700))
            = [demoHeader ++ t1, demoHeader ++ t2, demoHeader ++ t3]
        ∧ Quiescent (lrunState ⟨6, ⟨7, 5⟩⟩ { nsym := 32 } (transmission demoSeg demoSeg demoSeg (demoLead 700))) := by
  have hc := demoHeader_canonical
  have := three_segments' ⟨6, ⟨7, 5⟩⟩ (by decide) (by decide) demoHeader
    (payloadCond_of_header _ _ _ hc.1 hc.2.1 hc.2.2) demoSeg demoSeg demoSeg
    demoSeg_observed demoSeg_observed demoSeg_observed (demoLead 700) demoQuiet_closed
    { nsym := 32 } quiescent_fresh32
  rwa [show (demoLead 700).length = 700 from List.length_replicate] at this

set_option maxRecDepth 1000000 in
/-- the bursts of the demo transmission with the default budgets (2, 2, 5), evaluated: each is the
    header followed by two garbage bytes `AA` -/
theorem demo_bursts :
    lrunBursts ⟨2, ⟨2, 5⟩⟩ { nsym := 32 } (transmission demoSeg demoSeg demoSeg (demoLead 700))
      = [demoHeader ++ [0x41, 0x41], demoHeader ++ [0x41, 0x41], demoHeader ++ [0x41, 0x41]] := by
  decide +kernel

theorem demo_tails : TailsNoDash demoHeader [0x41, 0x41] [0x41, 0x41] [0x41, 0x41] := by
  unfold TailsNoDash
  decide +kernel

/-- **The chain on a concrete stream**: all hypotheses of `transmission_decoded` are satisfiable
    (default budgets, 22050 Hz, 42 samples per symbol).  By the general theorem; only the bursts'
    tails are evaluated, to discharge `htails`. -/
theorem demo_decoded :
    DecodedOnce (chain ⟨2, ⟨2, 5⟩⟩ 22050 { nsym := 32 } {} 0 (fun i => 42 * i)
        (transmission demoSeg demoSeg demoSeg (demoLead 700)))
      (fun i => 42 * i) 2362 demoHeader 19 := by
  have hc := demoHeader_canonical
  have hl := demoSeg_lengths
  have hT : TIMEOUT 22050 = 2976750 := by decide
  have := transmission_decoded ⟨2, ⟨2, 5⟩⟩ (by decide) (by decide) 22050 0 (42 * 2362) (fun i => 42 * i)
    demoHeader 19 hc.1 hc.2.1 hc.2.2 demoSeg demoSeg demoSeg demoSeg_observed demoSeg_observed
    demoSeg_observed (demoLead 700) demoQuiet_closed
    (by rw [show (demoLead 700).length = 700 from List.length_replicate]; decide)
    (by rw [hl.1, hl.2.1]; decide) { nsym := 32 } quiescent_fresh32
    (by
      intro t1 t2 t3 _ _ _ hb
      rw [demo_bursts] at hb
      simp only [List.cons.injEq, List.append_cancel_left_eq, and_true] at hb
      obtain ⟨e1, e2, e3⟩ := hb
      rw [← e1, ← e2, ← e3]
      exact demo_tails)
    (by
      intro i hi
      rw [hl.2.2] at hi
      rw [hT]
      omega)
  rwa [hl.2.2] at this

end Demo

end SameVerif.Chain
