import SameVerif.Lemmas.StreamLink2
import SameVerif.Spec.FrontEndCheck
/-
  C01 at the link layer on the GENERALISED realistic assumptions `Spec.StreamObserved2` (STEP 4):
  the first correlator hits of a burst may come early (window within the budget though not yet
  all-correct), at a wrong byte phase, or be dropped at once by the power history; what is
  assumed is that the LAST adjusting hit before the framer locks is at the correct phase — stated
  observationally, through the abstract squelch `preRun` (`Spec/PreSync.lean`) driven by
  `potHit` (open threshold ∧ window within budget) and `headAt` (close threshold 31 ticks back).
  `Lemmas/LinkPre.lean` proves that the link model follows that automaton.

  * `stream_segments2` : every burst is delivered (`Chain.Delivers`), each entered in the state the
    model is really in;
  * `stream_bursts2`   : the link model, from its initial state, reports over the whole stream
    exactly the bursts `payload_k ++ t_k`, in order;
  * `checked_stream_bursts2` : the same from a `true` verdict of `Spec.streamObserved2B`, the check
    the driver evaluates on tapped real runs (`fe2_all=sat`).
-/
namespace SameVerif.C01t
open SameVerif SameVerif.Spec SameVerif.Chain

theorem stream_segments2 (c : LCfg) (hE : c.maxErrors ≤ 6) (hP : c.fc.maxPrefixErr ≤ 7)
    (stream : List Tick) (segs : List BurstSpec2)
    (hobs : StreamObserved2 c.maxErrors stream segs) (hpc : ∀ g ∈ segs, PayloadCond c g.payload) :
    DeliversAll c {} (segsOf2 stream 0 segs)
      ∧ stream.take (lastStop2 0 segs) = (segsOf2 stream 0 segs).flatMap (fun p => p.2.ticks)
      ∧ lastStop2 0 segs ≤ stream.length
      ∧ QuietNoHit c (lrunState c {} (stream.take (lastStop2 0 segs))) (stream.drop (lastStop2 0 segs)) := by
  obtain ⟨s1, s2, _, s4, s5⟩ := deliversAll_of_stream2 c hE hP stream segs 0 (Or.inl rfl) (by omega)
    ready_init hpc hobs
  refine ⟨s1, ?_, s4, quiet_rest c stream _ s4 (fun t h1 h2 h3 => quietAt_of_potHit (s5 t h1 h2 h3))⟩
  rw [s2]; rfl

theorem forall2_segsOf2 {R : BurstSpec2 → List Byte → Prop} {R' : List Byte × Seg → List Byte → Prop}
    (stream : List Tick) (hR : ∀ a g b, R' (g.payload, segOf2 stream a g) b → R g b) :
    ∀ (segs : List BurstSpec2) (a : Nat) (bs : List (List Byte)),
      Forall₂ R' (segsOf2 stream a segs) bs → Forall₂ R segs bs := by
  intro segs
  induction segs with
  | nil => intro a bs h; cases h; exact .nil
  | cons g gs ih =>
    intro a bs h
    cases h with
    | cons hr ht => exact .cons (hR a g _ hr) (ih _ _ ht)

/-- **C01, link layer, whole stream, generalised synchronisation.** -/
theorem stream_bursts2 (c : LCfg) (hE : c.maxErrors ≤ 6) (hP : c.fc.maxPrefixErr ≤ 7)
    (stream : List Tick) (segs : List BurstSpec2)
    (hobs : StreamObserved2 c.maxErrors stream segs) (hpc : ∀ g ∈ segs, PayloadCond c g.payload) :
    Forall₂ (fun g b => ∃ t, b = g.payload ++ t ∧ t.length ≤ (g.rel + 7) / 8) segs
        (lrunBursts c {} stream)
      ∧ Ready (lrunState c {} stream) := by
  obtain ⟨s1, s2, _, s4⟩ := stream_segments2 c hE hP stream segs hobs hpc
  obtain ⟨d1, d2⟩ := segments_delivered_g c _ {} ready_init s1
  rw [s2] at s4
  obtain ⟨_, q2, q3⟩ := quiet_run c _ _ d2 s4
  have hsplit : stream = (segsOf2 stream 0 segs).flatMap (fun p => p.2.ticks)
      ++ stream.drop (lastStop2 0 segs) := by
    rw [← s2, List.take_append_drop]
  constructor
  · rw [hsplit, lrunBursts_append, q2, List.append_nil]
    exact forall2_segsOf2 stream (fun a g b h => h) segs 0 _ d1
  · rw [hsplit, lrunState_append]
    exact q3

/-- **a `sat` verdict of the driver's generalised check is the hypothesis** -/
theorem checked_stream_bursts2 (c : LCfg) (hE : c.maxErrors ≤ 6) (hP : c.fc.maxPrefixErr ≤ 7)
    (ticks : Array Tick) (segs : List BurstSpec2)
    (hchk : streamObserved2B c.maxErrors ticks segs = true)
    (hpc : ∀ g ∈ segs, PayloadCond c g.payload) :
    Forall₂ (fun g b => ∃ t, b = g.payload ++ t ∧ t.length ≤ (g.rel + 7) / 8) segs
        (lrunBursts c {} ticks.toList)
      ∧ Ready (lrunState c {} ticks.toList) :=
  stream_bursts2 c hE hP ticks.toList segs (streamObserved2B_sound _ _ _ hchk) hpc

end SameVerif.C01t
