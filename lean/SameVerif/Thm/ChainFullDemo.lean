import SameVerif.Thm.ChainFull
/-
  Non-vacuity of `Chain.stream_full2` (LAYER C of the whole-transmission chain theorem) on a
  concrete tick stream; kept apart from `Thm/ChainFull.lean` because of the kernel evaluations
  (`StreamObserved2` on 3252 ticks: about two minutes).
-/
namespace SameVerif.Chain
open SameVerif SameVerif.Spec SameVerif.Asm SameVerif.Full

section Demo
open SameVerif.C01

/-! ## non-vacuity: one stream with the header three times and the trailer three times -/

/-- tick `i`: the stream of `Thm/ChainT.lean` (three periods of 574 ticks with the header
    `demoHeader`, wrong-phase and early sync hits in the lead-ins, then noise) for 2422 ticks — the
    last 700 of them noise: the gap — and then the same construction with the payload `NNNN`
    (three periods of 270 ticks), then noise -/
def demo6Tk (i : Nat) : Tick :=
  if i < 3 * 574 + 700 then demo3Tk demoHeader 10 0x41 i
  else demo3Tk litNNNN 10 0x41 (i - (3 * 574 + 700))

def demo6Stream : List Tick := (List.range 3252).map demo6Tk

def demo6Segs : List BurstSpec2 :=
  [⟨60, demoHeader, 10, 39, 10⟩, ⟨574 + 60, demoHeader, 10, 39, 10⟩, ⟨2 * 574 + 60, demoHeader, 10, 39, 10⟩,
   ⟨2422 + 60, litNNNN, 10, 39, 10⟩, ⟨2422 + 270 + 60, litNNNN, 10, 39, 10⟩,
   ⟨2422 + 540 + 60, litNNNN, 10, 39, 10⟩]

set_option maxRecDepth 1000000 in
/-- it meets the generalised realistic assumptions (default sync budget 2) -/
theorem demo6_observed : StreamObserved2 2 demo6Stream demo6Segs := by
  unfold demo6Stream
  rw [streamObserved2_map_range]
  decide +kernel


theorem demo6_getD : (fun i => demo6Stream.getD i dfltTick)
    = (fun i => if i < 3252 then demo6Tk i else dfltTick) := by
  funext i
  unfold demo6Stream
  rw [List.getD_eq_getElem?_getD]
  by_cases h : i < 3252
  · simp [h]
  · simp [h]

set_option maxRecDepth 1000000 in
/-- the gap: no potential sync hit in the `HOLD` ticks after the third header burst's minimal tail -/
theorem demo6_gap : ∀ t, 1722 ≤ t → t < 1722 + HOLD →
    potHit 2 (fun i => demo6Stream.getD i dfltTick) t = false := by
  rw [demo6_getD]
  have : ∀ t, t < 1722 + HOLD → 1722 ≤ t →
      potHit 2 (fun i => if i < 3252 then demo6Tk i else dfltTick) t = false := by
    decide +kernel
  exact fun t h1 h2 => this t h2 h1

set_option maxRecDepth 1000000 in
/-- the bursts the link model reports over the stream (default budgets 2, 2, 5), evaluated: each
    payload followed by two garbage bytes `AA` -/
theorem demo6_bursts :
    lrunBursts ⟨2, ⟨2, 5⟩⟩ {} demo6Stream
      = [demoHeader ++ [0x41, 0x41], demoHeader ++ [0x41, 0x41], demoHeader ++ [0x41, 0x41],
         litNNNN ++ [0x41, 0x41], litNNNN ++ [0x41, 0x41], litNNNN ++ [0x41, 0x41]] := by
  decide +kernel

/-- **The whole-transmission chain on that stream**, by `stream_full2` (22050 Hz, 42 samples per
    symbol): StartOfMessage with text `demoHeader` at a tick `i ≥ 1811`, EndOfMessage at a tick
    `j > i`, `2673 ≤ j < 2962` — the second trailer burst (near zone). -/
theorem demo6_decoded :
    DecodedFull (chain ⟨2, ⟨2, 5⟩⟩ 22050 {} {} 0 (fun i => 42 * i) demo6Stream)
      (fun i => 42 * i) demoHeader 19 1811 2673 2962 := by
  have hc := demoHeader_canonical
  have hT : TIMEOUT 22050 = 2976750 := by decide
  have hlen : demo6Stream.length = 3252 := by
    unfold demo6Stream; rw [List.length_map, List.length_range]
  have := stream_full2 ⟨2, ⟨2, 5⟩⟩ (by decide) (by decide) 22050 0 (42 * 3252) (fun i => 42 * i)
    demoHeader 19 hc.1 hc.2.1 hc.2.2 demo6Stream ⟨60, demoHeader, 10, 39, 10⟩
    ⟨574 + 60, demoHeader, 10, 39, 10⟩ ⟨2 * 574 + 60, demoHeader, 10, 39, 10⟩
    ⟨2422 + 60, litNNNN, 10, 39, 10⟩ ⟨2422 + 270 + 60, litNNNN, 10, 39, 10⟩
    ⟨2422 + 540 + 60, litNNNN, 10, 39, 10⟩ rfl rfl rfl rfl rfl rfl demo6_observed
    demo6_gap (by decide) (by decide) (by decide) (by decide)
    (by
      intro t1 t2 t3 x1 x2 x3 _ _ _ hb
      rw [demo6_bursts] at hb
      simp only [List.cons.injEq, List.append_cancel_left_eq, and_true] at hb
      obtain ⟨e1, e2, e3, _⟩ := hb
      rw [← e1, ← e2, ← e3]
      exact demo_tails)
    (by
      intro i hi
      rw [hlen] at hi
      rw [hT]
      omega)
  exact this

set_option maxRecDepth 1000000 in
/-- the same run evaluated by the kernel (cross-check): the events' samples are those of ticks
    2395 (the first poll at or after `t3 + HOLD`) and 2953 (the second trailer burst) -/
theorem demo6_eval :
    msgEvents (chain ⟨2, ⟨2, 5⟩⟩ 22050 {} {} 0 (fun i => 42 * i) demo6Stream)
      = [(42 * 2395, .ok (.som ⟨demoHeader, 19, 0, 42⟩)), (42 * 2953, .ok .eom)] := by
  decide +kernel

end Demo

end SameVerif.Chain
