/-
  C18 for the whole-receiver model (`Model/FullRx.lean`): `SameReceiver::reset()`.

  "After reset(), whatever audio was processed before and at whatever point it was called, the
  receiver produces for any subsequent audio exactly the same events, with the same timestamps, as
  a freshly built receiver with the same configuration."

  R1  `Reach r0 r`: `r` is reachable from `r0` by samples and resets, in any order.
  R2  `reset_eq_new`: in every reachable state, `reset()` restores EXACTLY the freshly built state,
      field by field, except for the two fields the code leaves alone: the equalizer's `mode`
      (`Equalizer::reset` does not touch it) and its image `LState.train` in the link model.
  R3  the two surviving fields are dead while the byte clock is stopped: two states that differ only
      in them (`LiveEq`) produce the same events sample by sample, and stay `LiveEq`
      (the first byte tick is a synchronisation, which overwrites both without reading them).
  R4  `reset_behaves_as_new`: after `reset()` in any reachable state, any further audio produces
      exactly the events — timestamps included — of a freshly built receiver.
  R5  non-vacuity on a concrete receiver over `Rat`.

  Everything is generic in the number type `F`: NO law about its arithmetic is used, and R4 has no
  hypothesis about the configuration at all.  R2 as an exact state equality needs the matched
  filter to be non-empty (`cfg.mark ≠ []`; see the remark at `reset_eq_new`; `reset_eq_new'` is the
  form without it).  Helper definitions and lemmas: Lemmas/FullRxResetFacts.lean.
-/
import SameVerif.Lemmas.FullRxResetFacts
import SameVerif.Thm.FullRx

set_option linter.unusedSectionVars false

namespace SameVerif.FullRxResetThm

open SameVerif SameVerif.Dsp Arith

section Generic
variable {F : Type} [Arith F] [Hypot F]

/-! ## R1 reachable states -/

/-- the states a receiver can be in: start, then samples (that do not panic) and `reset()` calls,
    in any order — mid-preamble, mid-burst, message pending, … -/
inductive Reach (r0 : FullRx F) : FullRx F → Prop
  | init : Reach r0 r0
  | sample {r r' : FullRx F} {x : F} {evs : List Event} :
      Reach r0 r → r.sample x = some (r', evs) → Reach r0 r'
  | reset {r : FullRx F} : Reach r0 r → Reach r0 r.reset

/-- a run stays inside the reachable states -/
theorem reach_run {r0 : FullRx F} (xs : List F) : ∀ {r r' : FullRx F} {evs : List Event},
    Reach r0 r → r.run xs = some (r', evs) → Reach r0 r' := by
  induction xs with
  | nil =>
    intro r r' evs hr h
    simp only [FullRx.run, Option.some.injEq, Prod.mk.injEq] at h
    obtain ⟨rfl, _⟩ := h
    exact hr
  | cons x xs ih =>
    intro r r' evs hr h
    unfold FullRx.run at h
    cases h1 : r.sample x with
    | none => rw [h1] at h; cases h
    | some p =>
      obtain ⟨r1, ev⟩ := p
      rw [h1] at h
      dsimp only at h
      cases h2 : FullRx.run r1 xs with
      | none => rw [h2] at h; cases h
      | some p =>
        obtain ⟨r2, evs'⟩ := p
        rw [h2] at h
        simp only [Option.some.injEq, Prod.mk.injEq] at h
        obtain ⟨rfl, _⟩ := h
        exact ih (Reach.sample hr h1) h2

/-! ## R2 `reset()` restores the freshly built state -/

/-- the static part of the receiver (configuration, window lengths, limits, filter taps, NLMS
    parameters: `StaticInv`) is the same in every reachable state -/
theorem reach_static {cfg : RxCfg F} {r0 r : FullRx F} (hnew : FullRx.new cfg = some r0)
    (hr : Reach r0 r) : StaticInv r0 r := by
  induction hr with
  | init => exact StaticInv.new hnew
  | sample _ hs ih => exact ih.sample hs
  | reset _ ih => exact ih.reset

/-- **R2.**  In every reachable state `reset()` yields exactly the freshly built receiver, except
    for the equalizer's mode and the link model's `train`, which it leaves as they are.

    `cfg.mark ≠ []`: with an EMPTY matched filter the model's demodulator window has length 0 when
    built and length 1 after the first sample (`Demod.push` appends), so `reset()` yields the
    window `[0]` instead of `[]` (`reset_eq_new'`).  A degenerate case of the model, not of the
    code (the taps are never empty there), and without consequence: R4 holds regardless. -/
theorem reset_eq_new {cfg : RxCfg F} {r0 r : FullRx F} (hnew : FullRx.new cfg = some r0)
    (hm : cfg.mark ≠ []) (hr : Reach r0 r) :
    r.reset = { r0 with eq := { r0.eq with mode := r.eq.mode },
                        link := { r0.link with train := r.link.train } } := by
  have hp : 0 < r0.demod.window.length := by
    rw [FullRx.new_window hnew, List.length_replicate]
    exact List.length_pos_iff.2 hm
  have h := FullRx.reset_of_static (StaticInv.new hnew) (reach_static hnew hr) hp
  rw [FullRx.reset_new hnew] at h
  exact h

/-- R2 without the hypothesis: the cleared demodulator window has the length the window has, which
    is the built length `cfg.mark.length` up to `len - 1` (i.e. equal unless `cfg.mark = []`) -/
theorem reset_eq_new' {cfg : RxCfg F} {r0 r : FullRx F} (hnew : FullRx.new cfg = some r0)
    (hr : Reach r0 r) :
    r.reset = { r0 with eq := { r0.eq with mode := r.eq.mode },
                        link := { r0.link with train := r.link.train },
                        demod := { r0.demod with window := List.replicate r.demod.window.length zero } } ∧
    r.demod.window.length - 1 = cfg.mark.length - 1 := by
  have hs := reach_static hnew hr
  have h := FullRx.reset_of_static' (StaticInv.new hnew) hs
  rw [FullRx.reset_new hnew] at h
  refine ⟨h, ?_⟩
  have := hs.dm.len
  rw [FullRx.new_window hnew, List.length_replicate] at this
  exact this

/-- in particular, on a receiver that was just built `reset()` changes nothing at all -/
theorem reset_new {cfg : RxCfg F} {r0 : FullRx F} (hnew : FullRx.new cfg = some r0) : r0.reset = r0 :=
  FullRx.reset_new hnew

/-- `reset()` twice is `reset()` once -/
theorem reset_idem {cfg : RxCfg F} {r0 r : FullRx F} (hnew : FullRx.new cfg = some r0)
    (hr : Reach r0 r) : r.reset.reset = r.reset := by
  rw [(reset_eq_new' hnew (Reach.reset hr)).1, (reset_eq_new' hnew hr).1]
  simp only [List.length_replicate]

/-! ## R3 the two surviving fields are dead: a bisimulation -/

/-- equal, or equal except for `eq.mode` and `link.train` with the byte clock stopped -/
def LiveEq (a b : FullRx F) : Prop :=
  a = b ∨ (a.link.clock = none ∧ b.link.clock = none ∧
    a = { b with eq := { b.eq with mode := a.eq.mode }, link := { b.link with train := a.link.train } })

theorem LiveEq.refl (a : FullRx F) : LiveEq a a := Or.inl rfl

/-- the key fact about the link model: with the byte clock stopped `lstep` does not read `train` —
    either the tick is no byte tick (`train` carried along, clock still stopped) or it is a
    synchronisation (`adjusted = true`), which overwrites `train` -/
theorem lstep_train_dead (c : LCfg) (s : LState) (o : Obs) (hc : s.clock = none) (t : Nat) :
    (∀ b, (lstep c s o b).2.2 = none ∧ (lstep c s o b).1.clock = none ∧
        lstep c { s with train := t } o b = ({ (lstep c s o b).1 with train := t }, (lstep c s o b).2)) ∨
    (∀ b, (lstep c s o b).2.2 = some true ∧ lstep c { s with train := t } o b = lstep c s o b) :=
  SameVerif.lstep_train_dead c s o hc t

/-- **R3, one sample.**  `LiveEq` states produce the same events (and panic together), and their
    successors are `LiveEq` again. -/
theorem liveEq_sample {a b : FullRx F} (h : LiveEq a b) (x : F) :
    (a.sample x).map (·.2) = (b.sample x).map (·.2) ∧
    ∀ a' b' ea eb, a.sample x = some (a', ea) → b.sample x = some (b', eb) → LiveEq a' b' := by
  rcases h with rfl | ⟨_, hb, he⟩
  · refine ⟨rfl, ?_⟩
    intro a' b' ea eb h1 h2
    rw [h1] at h2
    simp only [Option.some.injEq, Prod.mk.injEq] at h2
    exact Or.inl h2.1
  · have he' : a = b.upd a.eq.mode a.link.train := he
    generalize a.eq.mode = m at he'
    generalize a.link.train = t at he'
    subst he'
    obtain ⟨e1, e2⟩ := FullRx.sample_upd b hb m t x
    refine ⟨e1, ?_⟩
    intro a' b' ea eb h1 h2
    rcases e2 a' b' ea eb h1 h2 with rfl | ⟨hc, rfl⟩
    · exact Or.inl rfl
    · exact Or.inr ⟨hc, hc, rfl⟩

/-- **R3, runs.**  `LiveEq` states produce the same events on every input (and panic together). -/
theorem liveEq_run (xs : List F) : ∀ {a b : FullRx F}, LiveEq a b →
    (a.run xs).map (·.2) = (b.run xs).map (·.2) := by
  induction xs with
  | nil => intro a b _; rfl
  | cons x xs ih =>
    intro a b h
    obtain ⟨e1, e2⟩ := liveEq_sample h x
    unfold FullRx.run
    cases ha : a.sample x with
    | none =>
      rw [ha] at e1
      cases hb : b.sample x with
      | none => rfl
      | some p => rw [hb] at e1; cases e1
    | some pa =>
      obtain ⟨a', ea⟩ := pa
      cases hb : b.sample x with
      | none => rw [ha, hb] at e1; cases e1
      | some pb =>
        obtain ⟨b', eb⟩ := pb
        rw [ha, hb] at e1
        simp only [Option.map_some, Option.some.injEq] at e1
        subst e1
        have := ih (e2 a' b' ea ea ha hb)
        dsimp only
        cases hra : FullRx.run a' xs with
        | none =>
          cases hrb : FullRx.run b' xs with
          | none => rfl
          | some q => rw [hra, hrb] at this; cases this
        | some qa =>
          cases hrb : FullRx.run b' xs with
          | none => rw [hra, hrb] at this; cases this
          | some qb =>
            rw [hra, hrb] at this
            simp only [Option.map_some, Option.some.injEq] at this
            simp only [Option.map_some, this]

/-! ## R4 after `reset()` the receiver behaves as a freshly built one -/

/-- a freshly built receiver with the two dead fields overwritten is `LiveEq` to the original -/
theorem upd_liveEq_new {cfg : RxCfg F} {r0 : FullRx F} (hnew : FullRx.new cfg = some r0)
    (m : EqMode) (t : Nat) : LiveEq (r0.upd m t) r0 := by
  obtain ⟨_, hl, _⟩ := FullRx.new_fields hnew
  have hc : r0.link.clock = none := by rw [hl]
  exact Or.inr ⟨hc, hc, rfl⟩

/-- after `reset()` in a reachable state the receiver is `LiveEq` to the freshly built one
    (matched filter not empty: `reset_eq_new`) -/
theorem reset_liveEq_new {cfg : RxCfg F} {r0 r : FullRx F} (hnew : FullRx.new cfg = some r0)
    (hm : cfg.mark ≠ []) (hr : Reach r0 r) : LiveEq r.reset r0 := by
  rw [reset_eq_new hnew hm hr]
  exact upd_liveEq_new hnew _ _

/-- **R4 (C18 for the whole-receiver model).**  Let `r0` be the receiver `new` builds from `cfg`, and
    `r` any state reachable from it by audio and resets.  Then for every further audio `ys` the
    receiver after `reset()` produces exactly the event list — timestamps included — that the
    freshly built receiver produces on `ys` (and it panics iff that one does).

    No hypothesis on `cfg` or on `F`.  (For an empty matched filter, where `reset()` leaves a
    one-entry window instead of the built empty one: the front end pushes the new sample and drops
    the oldest entry before anything reads the window, `FullRx.front_updW`.) -/
theorem reset_behaves_as_new {cfg : RxCfg F} {r0 r : FullRx F} (hnew : FullRx.new cfg = some r0)
    (hr : Reach r0 r) (ys : List F) :
    (r.reset.run ys).map (·.2) = (r0.run ys).map (·.2) := by
  have hs := reach_static hnew hr
  have h : r.reset = (r0.upd r.eq.mode r.link.train).updW (List.replicate r.demod.window.length zero) := by
    have h := FullRx.reset_of_static' (StaticInv.new hnew) hs
    rw [FullRx.reset_new hnew] at h
    exact h
  have hw : (List.replicate r.demod.window.length (zero : F)).drop 1
      = (r0.upd r.eq.mode r.link.train).demod.window.drop 1 :=
    FullRx.reset_window_drop (r0 := r0) hnew hs
  rw [h, FullRx.run_updW (r0.upd r.eq.mode r.link.train) _ hw]
  exact liveEq_run ys (upd_liveEq_new hnew _ _)

/-- audio, `reset()`, more audio: the second event list is that of a fresh receiver on the second
    piece of audio alone -/
theorem runResetRun_eq {cfg : RxCfg F} {r0 r1 : FullRx F} {xs : List F} {e1 : List Event}
    (hnew : FullRx.new cfg = some r0) (hrun : r0.run xs = some (r1, e1))
    (ys : List F) :
    r0.runResetRun xs ys = (r0.run ys).map fun p => (e1, p.2) := by
  have h := reset_behaves_as_new hnew (reach_run xs Reach.init hrun) ys
  unfold FullRx.runResetRun
  rw [hrun]
  dsimp only
  cases ha : r1.reset.run ys with
  | none =>
    cases hb : r0.run ys with
    | none => rfl
    | some q => rw [ha, hb] at h; cases h
  | some qa =>
    cases hb : r0.run ys with
    | none => rw [ha, hb] at h; cases h
    | some qb =>
      rw [ha, hb] at h
      simp only [Option.map_some, Option.some.injEq] at h
      simp only [Option.map_some, h]

end Generic

/-! ## R5 non-vacuity: the concrete receiver `demoCfg2` on the signal `demoSig` of Thm/FullRx.lean -/

section Demo
open FullRxThm

/-- for the examples only (the theorems hold for ANY `Hypot`) -/
local instance : Hypot Rat := FullRxThm.demoHypot

/-- by evaluation: after the 97 samples of `demoSig` (48 preamble bits) the receiver is
    synchronised — byte clock running, equalizer in training with 24 of 32 symbols done, one byte of
    training to come, input sample counter 97 — and has reported `Searching` at sample 65 -/
theorem demo_state :
    (((FullRx.new demoCfg2).bind fun r0 => FullRx.run r0 demoSig).map
      (fun p => ((p.1.link.clock, p.1.link.train, p.1.inputCounter), p.1.eq.mode))
      = some ((some 1, 1, 97), .training (SYNC_WORD >>> 24) 24)) ∧
    (((FullRx.new demoCfg2).bind fun r0 => FullRx.run r0 demoSig).map (fun p => p.2.map Event.linkView)
      = some [some (65, .searching)]) := by
  constructor <;> decide +kernel

/-- a reachable state in which `reset()` is NOT the identity, and R2, R4 applied to it: after the
    demo signal the byte clock runs and the sample counter is 97; `reset()` yields the freshly
    built receiver up to the two dead fields (which here do differ from the fresh ones: the
    equalizer is in training, `train = 1`), and from there every continuation produces the events
    of a fresh receiver -/
theorem demo_reset : ∃ r0 r1 e1, FullRx.new demoCfg2 = some r0 ∧ r0.run demoSig = some (r1, e1) ∧
    Reach r0 r1 ∧ r1.link.clock = some 1 ∧ r1.inputCounter = 97 ∧ r1.reset ≠ r1 ∧
    r1.reset ≠ r0 ∧
    r1.reset = { r0 with eq := { r0.eq with mode := .training (SYNC_WORD >>> 24) 24 },
                         link := { r0.link with train := 1 } } ∧
    ∀ ys, (r1.reset.run ys).map (·.2) = (r0.run ys).map (·.2) := by
  obtain ⟨r0, h⟩ := fullrx_new_rat (cfg := demoCfg2) (by decide)
  have hm : demoCfg2.mark ≠ [] := List.cons_ne_nil _ _
  obtain ⟨e, _⟩ := demo_state
  rw [h] at e
  cases hrun : FullRx.run r0 demoSig with
  | none => rw [Option.bind_some, hrun] at e; cases e
  | some p =>
    obtain ⟨r1, e1⟩ := p
    simp only [Option.bind_some, hrun, Option.map_some, Option.some.injEq, Prod.mk.injEq] at e
    obtain ⟨⟨c1, c2, c3⟩, c4⟩ := e
    have hr : Reach r0 r1 := reach_run demoSig Reach.init hrun
    have hreset := reset_eq_new h hm hr
    rw [c2, c4] at hreset
    refine ⟨r0, r1, e1, h, hrun, hr, c1, c3, ?_, ?_, hreset, reset_behaves_as_new h hr⟩
    · intro hh
      have : r1.reset.inputCounter = r1.inputCounter := by rw [hh]
      rw [c3] at this
      cases this
    · intro hh
      have : r1.reset.link.train = r0.link.train := by rw [hh]
      rw [(FullRx.new_fields h).2.1] at this
      have h1 : r1.reset.link.train = 1 := c2
      rw [h1] at this
      cases this

/-- by evaluation, independently of the theorems: audio (`demoSig`), `reset()`, the same audio again.
    The second pass reports `Searching` at sample 65 again — the event list and timestamps of the
    fresh receiver (`demo_state`) — whereas without the `reset()` the second pass reports nothing
    (the link state does not change any more): `reset()` is observable here. -/
theorem demo_eval :
    (((FullRx.new demoCfg2).bind fun r0 => r0.runResetRun demoSig demoSig).map
      (fun p => (p.1.map Event.linkView, p.2.map Event.linkView))
      = some ([some (65, .searching)], [some (65, .searching)])) ∧
    (((FullRx.new demoCfg2).bind fun r0 => r0.run (demoSig ++ demoSig)).map
      (fun p => p.2.map Event.linkView)
      = some [some (65, .searching)]) := by
  constructor <;> decide +kernel

/-- … and the same through the theorem: `runResetRun_eq` on the demo -/
example (r0 r1 : FullRx Rat) (e1 : List Event) (h : FullRx.new demoCfg2 = some r0)
    (hrun : r0.run demoSig = some (r1, e1)) (ys : List Rat) :
    r0.runResetRun demoSig ys = (r0.run ys).map fun p => (e1, p.2) :=
  runResetRun_eq h hrun ys

/-- why `reset_eq_new` asks for a non-empty matched filter: with `mark = []` the window is `[]` when
    built, one entry long after one sample, and `reset()` keeps that length (by evaluation);
    `reset_behaves_as_new` covers this configuration too -/
example : ((FullRx.new { demoCfg2 with mark := [] }).bind fun r0 =>
      (r0.run [1]).map fun p => (p.1.reset.demod.window.length, r0.demod.window.length))
    = some (1, 0) := by decide +kernel

end Demo

end SameVerif.FullRxResetThm
