import SameVerif.Thm.ChainLatency
import SameVerif.Thm.ChainFullDemo
/- Non-vacuity of Thm/ChainLatency on the concrete demo streams (kernel-evaluated; thorough tier). -/
namespace SameVerif.Chain
open SameVerif SameVerif.Spec SameVerif.Asm SameVerif.Full

/-! ## non-vacuity: the demo stream of `Thm/ChainFullDemo.lean` -/

section Demo
open SameVerif.C01

/-- **The latency theorem on the six-burst demo stream**, by `stream_full2_latency` (the hypotheses
    are those discharged for `demo6_decoded`).  Windows: second header burst `[1129, 1139]`, third
    `[1703, 1713]` (its adjusting sync hit at tick 1247), trailer bursts `[2673, 2683]`, `[2943, 2953]`. -/
theorem demo6_timed :
    TimedFull (chain ⟨2, ⟨2, 5⟩⟩ 22050 {} {} 0 (fun i => 42 * i) demo6Stream) (fun i => 42 * i)
      (lrun ⟨2, ⟨2, 5⟩⟩ {} demo6Stream) demoHeader 19
      1129 1139 1247 1703 1713 2673 2683 2943 2953 := by
  have hc := demoHeader_canonical
  have hT : TIMEOUT 22050 = 2976750 := by decide
  have hlen : demo6Stream.length = 3252 := by
    unfold demo6Stream; rw [List.length_map, List.length_range]
  have := stream_full2_latency ⟨2, ⟨2, 5⟩⟩ (by decide) (by decide) 22050 0 (42 * 3252) (fun i => 42 * i)
    demoHeader 19 hc.1 hc.2.1 hc.2.2 demo6Stream ⟨60, demoHeader, 10, 39, 10⟩
    ⟨574 + 60, demoHeader, 10, 39, 10⟩ ⟨2 * 574 + 60, demoHeader, 10, 39, 10⟩
    ⟨2422 + 60, litNNNN, 10, 39, 10⟩ ⟨2422 + 270 + 60, litNNNN, 10, 39, 10⟩
    ⟨2422 + 540 + 60, litNNNN, 10, 39, 10⟩ rfl rfl rfl rfl rfl rfl demo6_observed
    demo6_gap (by decide) (by decide) (by decide) (by decide)
    (by
      intro t1 t2 t3 x1 x2 x3 _ _ _ hb
      rw [demo6_bursts] at hb
      simp only [List.cons.injEq, List.append_cancel_left_eq, and_true] at hb
      obtain ⟨e1, e2, e3, _⟩ := hb
      rw [← e1, ← e2, ← e3]
      exact demo_tails)
    (by
      intro i hi
      rw [hlen] at hi
      rw [hT]
      omega)
  exact this

/-- **the bounds are attained on the demo stream** (with the kernel evaluation `demo6_eval`): the
    third header burst is reported at tick `b3 = g3.e + g3.rel + 31 = 1713` exactly, the
    StartOfMessage at `b3 + HOLD = 2395` exactly (three-burst release), the EndOfMessage at
    `e2.e + e2.rel + 31 = 2953` exactly -/
theorem demo6_tight :
    ∃ t3, (lrun ⟨2, ⟨2, 5⟩⟩ {} demo6Stream)[1672 + 10 + 31]? = some (.burst (demoHeader ++ t3))
      ∧ msgEvents (chain ⟨2, ⟨2, 5⟩⟩ 22050 {} {} 0 (fun i => 42 * i) demo6Stream)
        = [(42 * (1672 + 10 + 31 + HOLD), .ok (.som ⟨demoHeader, 19, 0, 42⟩)),
           (42 * (2912 + 10 + 31), .ok .eom)] := by
  obtain ⟨b2, b3, b4, b5, i, j, h, t2, t3, x1, x2, _, ⟨_, q2, q3⟩, _, _, _, hev, _, _, _, _, hi⟩ :=
    demo6_timed
  have hH : HOLD = 682 := by decide
  rw [demo6_eval] at hev
  simp only [List.cons.injEq, Prod.mk.injEq, and_true] at hev
  obtain ⟨⟨hi', hh⟩, hj'⟩ := hev
  cases hh
  rcases hi with ⟨hv, _⟩ | ⟨_, hib, _⟩
  · cases hv
  · have hb3 : b3 = 1672 + 10 + 31 := by omega
    subst hb3
    exact ⟨t3, q3, by rw [demo6_eval, hH]⟩

/-- **The header-only latency theorem on the three-burst demo stream of `Thm/ChainT.lean`** (wrong-
    phase and early sync hits, open threshold met at every tick), by `stream_decoded2_latency`; the
    adjusting sync hit of the third burst (tick 1247) precedes `1129 + HOLD`, so it is the closed
    form: StartOfMessage exactly `HOLD` ticks after the third burst's `.burst` tick
    `b3 ∈ [1703, 1713]`, fully voted. -/
theorem demo3_three :
    ∃ b3 t3 h, 1703 ≤ b3 ∧ b3 ≤ 1713
      ∧ (lrun ⟨2, ⟨2, 5⟩⟩ {} demo3Stream)[b3]? = some (.burst (demoHeader ++ t3))
      ∧ msgEvents (chain ⟨2, ⟨2, 5⟩⟩ 22050 {} {} 0 (fun i => 42 * i) demo3Stream)
          = [(42 * (b3 + HOLD), .ok (.som h))]
      ∧ h.text = demoHeader ∧ h.offsetTime = 19 ∧ h.parity = 0 ∧ h.voting = demoHeader.length := by
  have hc := demoHeader_canonical
  have hT : TIMEOUT 22050 = 2976750 := by decide
  have hlen : demo3Stream.length = 2422 := by
    unfold demo3Stream; rw [List.length_map, List.length_range]
  have : TimedOnce (chain ⟨2, ⟨2, 5⟩⟩ 22050 {} {} 0 (fun i => 42 * i) demo3Stream) (fun i => 42 * i)
      (lrun ⟨2, ⟨2, 5⟩⟩ {} demo3Stream) demoHeader 19 1129 1139 1247 1703 1713 :=
    stream_decoded2_latency ⟨2, ⟨2, 5⟩⟩ (by decide) (by decide) 22050 0 (42 * 2422) (fun i => 42 * i)
      demoHeader 19 hc.1 hc.2.1 hc.2.2 demo3Stream ⟨60, demoHeader, 10, 39, 10⟩
      ⟨574 + 60, demoHeader, 10, 39, 10⟩ ⟨2 * 574 + 60, demoHeader, 10, 39, 10⟩ rfl rfl rfl demo3_observed
      (by rw [hlen]; decide) (by decide)
      (by
        intro t1 t2 t3 _ _ _ hb
        rw [demo3_bursts] at hb
        simp only [List.cons.injEq, List.append_cancel_left_eq, and_true] at hb
        obtain ⟨e1, e2, e3⟩ := hb
        rw [← e1, ← e2, ← e3]
        exact demo_tails)
      (by
        intro i hi
        rw [hlen] at hi
        rw [hT]
        omega)
  exact this.three (by decide)

end Demo

end SameVerif.Chain
