import SameVerif.Lemmas.Bits
import SameVerif.Spec.Vote
import SameVerif.Lemmas.CombineTwo
/-
  C03 — Bit voting: one bad burst cannot change the decoded header.
  Property theorems only; helper lemmas live in Lemmas/.
-/
namespace SameVerif.C03
open SameVerif SameVerif.Spec

/-- every bit of the 2-of-3 vote is the majority of the three input bits — all 2^24 triples -/
theorem vote_correct_majority (b0 b1 b2 : Byte) (i : Nat) (hi : i < 8) :
    bitOf (voteCorrect b0 b1 b2).1 i = majorityBit b0 b1 b2 i := by
  simp only [voteCorrect, majorityBit, maj, bitOf_or, bitOf_and, bitOf_not _ _ hi, bitOf_xor]
  cases bitOf b0 i <;> cases bitOf b1 i <;> cases bitOf b2 i <;> rfl

/-- the error count of the 2-of-3 vote is the number of bit positions on which the three
    bytes are not unanimous -/
theorem vote_correct_errors (b0 b1 b2 : Byte) :
    (voteCorrect b0 b1 b2).2 = disputes3 b0 b1 b2 := by
  simp only [voteCorrect, countZeros8_eq, disputes3]
  apply countP_range8_congr
  intro i hi
  simp only [bitOf_and, bitOf_not _ _ hi, bitOf_xor, disputed3]
  cases bitOf b0 i <;> cases bitOf b1 i <;> cases bitOf b2 i <;> rfl

/-- the 2-of-2 "vote": the byte if both agree, zero otherwise; the count is the number of
    differing bit positions -/
theorem vote_detect_spec (b0 b1 : Byte) :
    voteDetect b0 b1 = (if b0 = b1 then b0 else 0, disputes2 b0 b1) := by
  simp only [voteDetect, popcount8, disputes2]
  congr 1
  · by_cases h : b0 = b1
    · subst h; simp
    · have hx : (b0 ^^^ b1) ≠ 0 := by
        intro hx
        apply h
        exact UInt8.xor_eq_zero_iff.mp hx
      have h255 : (~~~(255 : Byte)) = 0 := by decide
      simp [h, hx, h255]
  · apply countP_range8_congr
    intro i _
    simp [bitOf_xor]

/-- **Two of three.**  For every header text `H` that is in the SAME character set, is its own
    canonical parse and fits a burst buffer, for every third burst `X` (any bytes, any length) and
    each of the three arrival orders, `combine` returns exactly `H`, with
    `voting = min |H| |X|` and `parity` = the number of disagreeing bit positions (plus one per
    byte of `X` with its eighth bit set) inside the reported text. -/
theorem combine_two_of_three (maxLen pos : Nat) (H X : List Byte) (off : Nat)
    (hall : ∀ b ∈ H, isAllowed b = true)
    (hcan : checkHeader H = some (off, H.length))
    (hfit : H.length ≤ maxLen) :
    combine maxLen (arrange pos H X)
      = some (.ok (.som ⟨H, off, specParity H X, specVoting H X⟩)) := by
  have hne : H ≠ [] := ne_nil_of_checkHeader H _ hcan
  have hascii : ∀ b ∈ H, b < 128 := fun b hb => allowed_lt_128 b (hall b hb)
  have htake3 : (arrange pos H X).take 3 = arrange pos H X := by
    rcases pos with _ | _ | n <;> simp [arrange]
  -- the estimate: H byte for byte, then single-burst leftovers
  have hest : estimateMessage maxLen (arrange pos H X)
      = zipPart H X ++ estimateLoop (maxLen - H.length) (arrange pos [] (X.drop H.length)) := by
    unfold estimateMessage
    rw [htake3]
    exact estimateLoop_two_equal pos H X maxLen hall hfit
  generalize htl : estimateLoop (maxLen - H.length) (arrange pos [] (X.drop H.length)) = tl at hest
  have htl1 : ∀ e ∈ tl, e.nbursts = 1 := by
    intro e he; rw [← htl] at he; exact estimateLoop_tail_single pos _ _ e he
  have hzne : zipPart H X ≠ [] := by
    intro h; have := zipPart_length H X; rw [h] at this; simp at this; exact hne (List.length_eq_zero_iff.mp this.symm)
  unfold combine
  rw [hest]
  have hempty : (zipPart H X ++ tl).isEmpty = false := by
    cases hz : zipPart H X with
    | nil => exact absurd hz hzne
    | cons a l => simp
  simp only [hempty]
  -- truncation keeps exactly |H| bytes
  have htrunc : truncLen ((zipPart H X ++ tl).map (·.nbursts)) 2 = H.length := by
    unfold truncLen
    rw [List.map_append, takeWhile_append_stop]
    · simp [zipPart_length]
    · intro a ha
      obtain ⟨e, he, rfl⟩ := List.mem_map.mp ha
      have := zipPart_counts_ge H X e he
      simp; omega
    · intro a ha
      obtain ⟨e, he, rfl⟩ := List.mem_map.mp ha
      simp [htl1 e he]
  have hgood : ((zipPart H X ++ tl).map (·.byte)).take H.length = H := by
    rw [List.map_append, zipPart_bytes]
    simp
  rw [htrunc, hgood]
  -- parsing the truncated estimate
  have hvalid : validUtf8 H = true := validUtf8_of_ascii H hascii
  have hstart : startsWith H litZCZC = true := startsWith_of_checkHeader H _ hcan
  have hlenE : ((zipPart H X).map (·.errs)).length = H.length := by simp [zipPart_length]
  have hlenC : ((zipPart H X).map (·.nbursts)).length = H.length := by simp [zipPart_length]
  have hpar : ((((zipPart H X ++ tl).map (·.errs)).zip H).map (·.1)).sum = specParity H X := by
    rw [List.map_append, zip_append_left _ _ _ hlenE, ← zipPart_errs_sum H X]
    congr 1
    exact List.map_fst_zip (by omega)
  have hvot : ((((zipPart H X ++ tl).map (·.nbursts)).zip H).filter (fun p => !(p.1 < 3))).length
      = specVoting H X := by
    rw [List.map_append, zip_append_left _ _ _ hlenC]
    unfold specVoting
    rw [← zipPart_voting H X]
    have hz : (((zipPart H X).map (·.nbursts)).zip H).map (·.1) = (zipPart H X).map (·.nbursts) :=
      List.map_fst_zip (by omega)
    have : ∀ (l : List (Nat × Byte)),
        (l.filter (fun p => !(p.1 < 3))).length = ((l.map (·.1)).filter (fun n => !(n < 3))).length := by
      intro l; induction l with
      | nil => rfl
      | cons a l ih => simp [List.filter_cons]; split <;> simp_all
    rw [this, hz]
    have : ∀ (l : List EstByte),
        ((l.map (·.nbursts)).filter (fun n => !(n < 3))).length = (l.filter (fun e => !(e.nbursts < 3))).length := by
      intro l; induction l with
      | nil => rfl
      | cons a l ih => simp [List.filter_cons]; split <;> simp_all
    exact this _
  simp only [Msg.tryFromBytes, hvalid, hstart, newWithErrorInfo_canonical H off _ _ hascii hcan, hpar, hvot]
  simp

end SameVerif.C03
