import SameVerif.Thm.ChainR
import SameVerif.Thm.C01t
/-
  The digital chain on the GENERALISED realistic assumptions `Spec.StreamObserved2` (STEP 4: early,
  wrong-phase and dropped first sync hits allowed; the last adjusting hit at the correct phase).

  * `transmission_decoded_g` : Layer 3 from three `Chain.Delivers` facts, however obtained;
  * `stream_decoded2`        : one tick stream from the initial states that meets the decidable
    condition `Spec.StreamObserved2` for three bursts of one canonical header, followed by at
    least the hold time of ticks: exactly one message event, `StartOfMessage`, text exactly `H`;
  * non-vacuity on a stream with a wrong-phase first hit, an early (not yet all-correct) adjusting
    hit, dropped hits in the lead-in, the open threshold met at every tick, and the close
    threshold met again after the release.
-/
namespace SameVerif.Chain
open SameVerif SameVerif.Spec SameVerif.Asm

/-- **the chain from three delivered bursts** -/
theorem transmission_decoded_g (c : LCfg)
    (rate sym0 smax : Nat) (samples : Nat → Nat) (H : List Byte) (off : Nat)
    (hcan : checkHeader H = some (off, H.length))
    (hall : ∀ b ∈ H, isAllowed b = true)
    (hfits : H.length ≤ Gen.MAX_BURST_LENGTH)
    (g1 g2 g3 : Seg) (quiet : List Tick) (ls0 : LState)
    (d1 : Delivers c ls0 g1 H) (d2 : Delivers c (lrunState c ls0 g1.ticks) g2 H)
    (d3 : Delivers c (lrunState c (lrunState c ls0 g1.ticks) g2.ticks) g3 H)
    (hq : QuietNoHit c (lrunState c (lrunState c (lrunState c ls0 g1.ticks) g2.ticks) g3.ticks) quiet)
    (hqlen : HOLD ≤ quiet.length)
    (hspan : g1.tail.length + g2.ticks.length + g3.ticks.length ≤ HIST)
    (htails : ∀ t1 t2 t3, t1.length ≤ (g1.rel + 7) / 8 → t2.length ≤ (g2.rel + 7) / 8 →
      t3.length ≤ (g3.rel + 7) / 8 →
      lrunBursts c ls0 (transmission g1 g2 g3 quiet) = [H ++ t1, H ++ t2, H ++ t3] →
      TailsNoDash H t1 t2 t3)
    (hsamp : ∀ i, i < (transmission g1 g2 g3 quiet).length →
      samples i ≤ smax ∧ smax ≤ samples i + TIMEOUT rate) :
    DecodedOnce (chain c rate ls0 {} sym0 samples (transmission g1 g2 g3 quiet))
      samples (transmission g1 g2 g3 quiet).length H off := by
  obtain ⟨t1, t2, t3, L1, L2, L3, hrun, o1, o2, o3, hb, _⟩ :=
    three_delivered c H g1 g2 g3 quiet ls0 d1 d2 d3 hq
  have htd := htails t1 t2 t3 o1.tail_len o2.tail_len o3.tail_len hb
  have hlen : (transmission g1 g2 g3 quiet).length
      = (L1 ++ L2 ++ L3 ++ List.replicate quiet.length LinkSt.noCarrier).length := by
    rw [← hrun, lrun_length]; rfl
  have hfit : H.length ≤ MAXLEN := by
    have : Gen.MAX_BURST_LENGTH ≤ MAXLEN := by decide
    omega
  have := decoded_of_link_output rate sym0 smax samples H off hcan hall hfit g1 g2 g3 t1 t2 t3 L1 L2 L3
    quiet.length o1 o2 o3 hqlen hspan htd (fun i hi => hsamp i (by rw [hlen]; exact hi))
  unfold chain chainTicks
  rw [hlen]
  exact hrun ▸ this

/-- **C01, digital chain, generalised realistic assumptions, observational form.** -/
theorem stream_decoded2 (c : LCfg) (hE : c.maxErrors ≤ 6) (hP : c.fc.maxPrefixErr ≤ 7)
    (rate sym0 smax : Nat) (samples : Nat → Nat) (H : List Byte) (off : Nat)
    (hcan : checkHeader H = some (off, H.length))
    (hall : ∀ b ∈ H, isAllowed b = true)
    (hfits : H.length ≤ Gen.MAX_BURST_LENGTH)
    (stream : List Tick) (g1 g2 g3 : BurstSpec2)
    (hp1 : g1.payload = H) (hp2 : g2.payload = H) (hp3 : g3.payload = H)
    (hobs : StreamObserved2 c.maxErrors stream [g1, g2, g3])
    (hqlen : g3.stop + HOLD ≤ stream.length)
    (hspan : g3.stop ≤ g1.e + HIST)
    (htails : ∀ t1 t2 t3, t1.length ≤ (g1.rel + 7) / 8 → t2.length ≤ (g2.rel + 7) / 8 →
      t3.length ≤ (g3.rel + 7) / 8 →
      lrunBursts c {} stream = [H ++ t1, H ++ t2, H ++ t3] → TailsNoDash H t1 t2 t3)
    (hsamp : ∀ i, i < stream.length → samples i ≤ smax ∧ smax ≤ samples i + TIMEOUT rate) :
    DecodedOnce (chain c rate {} {} sym0 samples stream) samples stream.length H off := by
  have hc := payloadCond_of_header c H _ hcan hall hfits
  have hpc : ∀ g ∈ [g1, g2, g3], PayloadCond c g.payload := by
    intro g hg
    simp only [List.mem_cons, List.not_mem_nil, or_false] at hg
    rcases hg with rfl | rfl | rfl
    · rw [hp1]; exact hc
    · rw [hp2]; exact hc
    · rw [hp3]; exact hc
  obtain ⟨s1, s2, s3, s4⟩ := C01t.stream_segments2 c hE hP stream [g1, g2, g3] hobs hpc
  have hL : lastStop2 0 [g1, g2, g3] = g3.stop := rfl
  rw [hL] at s2 s3 s4
  obtain ⟨d1, d2, d3, _⟩ := s1
  simp only [segsOf2, List.flatMap_cons, List.flatMap_nil, List.append_nil] at s2
  change Delivers c {} (segOf2 stream 0 g1) g1.payload at d1
  change Delivers c (lrunState c {} (segOf2 stream 0 g1).ticks) (segOf2 stream g1.stop g2) g2.payload at d2
  change Delivers c (lrunState c (lrunState c {} (segOf2 stream 0 g1).ticks) (segOf2 stream g1.stop g2).ticks)
    (segOf2 stream g2.stop g3) g3.payload at d3
  rw [hp1] at d1; rw [hp2] at d2; rw [hp3] at d3
  have hstream : transmission (segOf2 stream 0 g1) (segOf2 stream g1.stop g2) (segOf2 stream g2.stop g3)
      (stream.drop g3.stop) = stream := by
    unfold transmission
    rw [List.append_assoc (segOf2 stream 0 g1).ticks, ← s2, List.take_append_drop]
  -- ordering facts for the lengths
  obtain ⟨_, tr1, _, _, ⟨ho2, _⟩, tr2, _, _, ⟨ho3, _⟩, tr3, _, _, _⟩ := hobs
  have hs1 : g1.stop ≤ stream.length := tr1.1
  have hs2 : g2.stop ≤ stream.length := tr2.1
  have hle1 : g1.e ≤ g1.stop := by unfold BurstSpec2.e BurstSpec2.stop; omega
  have hle2 : g2.o ≤ g2.stop := by unfold BurstSpec2.stop; omega
  have hle3 : g3.o ≤ g3.stop := by unfold BurstSpec2.stop; omega
  have hq' : QuietNoHit c (lrunState c (lrunState c (lrunState c {} (segOf2 stream 0 g1).ticks)
      (segOf2 stream g1.stop g2).ticks) (segOf2 stream g2.stop g3).ticks) (stream.drop g3.stop) := by
    rw [← lrunState_append, ← lrunState_append, ← s2]
    exact s4
  have hlq : (stream.drop g3.stop).length = stream.length - g3.stop := List.length_drop
  have := transmission_decoded_g c rate sym0 smax samples H off hcan hall hfits
    (segOf2 stream 0 g1) (segOf2 stream g1.stop g2) (segOf2 stream g2.stop g3) (stream.drop g3.stop)
    {} d1 d2 d3 hq' (by rw [hlq]; omega)
    (by
      rw [segOf2_ticks _ _ _ ho2, segOf2_ticks _ _ _ ho3, slice_length _ _ _ hs2, slice_length _ _ _ s3]
      show (slice stream g1.e g1.stop).length + _ + _ ≤ _
      rw [slice_length _ _ _ hs1]
      omega)
    (by rw [hstream]; exact htails)
    (by rw [hstream]; exact hsamp)
  rw [hstream] at this
  exact this

section Demo
open SameVerif.C01

/-! ## non-vacuity: a stream with the phenomena of real front ends -/

/-- bit `i` of the endless preamble `AB AB …` (LSb first) -/
def abBit (i : Nat) : Bool := bitOf 0xAB (i % 8)

/-- tick `i`: three periods of 60 lead-in ticks, the body, `rel + 40` tail ticks; then noise.
    * lead-in: a preamble-like stretch at a wrong phase (while the close threshold is not yet met:
      hits it causes are dropped), noise, and a second wrong-phase stretch that runs 10 ticks into
      the body — the first hit of the burst, at body tick 8, is at a WRONG phase;
    * the bits are right from body tick 10 (`acq = 10`); the hit that adjusts the byte clock comes
      at body tick 39, two ticks BEFORE the window is all-correct;
    * the open threshold is met at EVERY tick; the close threshold is met again 5 ticks after the
      release. -/
def demo3Tk (H : List Byte) (rel : Nat) (garb : Byte) (i : Nat) : Tick :=
  let n := 8 * (frameOf H).length
  let P := 60 + n + (rel + 40)
  let k := i % P
  if i / P < 3 then
    if k < 60 then
      (⟨if k < 32 then abBit (k + 5) else if k < 38 then k % 3 = 0 else abBit (k + 3), true, decide (20 ≤ k)⟩, garb)
    else if k < 60 + n then
      let j := k - 60
      (⟨if j < 10 then abBit (60 + j + 3) else frameBit (frameOf H) j, true, true⟩,
        if j % 8 = 7 ∧ 3 ≤ j / 8 then (frameOf H).getD (j / 8 - 3) 0 else garb)
    else
      let t := k - 60 - n
      (⟨t % 3 = 0, true, decide (t < rel) || decide (rel + 5 ≤ t)⟩,
        if t % 8 = 7 ∧ t / 8 < 3 then (frameOf H).getD ((frameOf H).length - 3 + t / 8) 0 else garb)
  else (⟨i % 3 = 0, true, i % 5 = 0⟩, garb)

def demo3Stream : List Tick := (List.range (3 * 574 + 700)).map (demo3Tk demoHeader 10 0x41)

def demo3Segs : List BurstSpec2 :=
  [⟨60, demoHeader, 10, 39, 10⟩, ⟨574 + 60, demoHeader, 10, 39, 10⟩, ⟨2 * 574 + 60, demoHeader, 10, 39, 10⟩]

theorem streamObserved2_map_range (m : Nat) (f : Nat → Tick) (N : Nat) (segs : List BurstSpec2) :
    StreamObserved2 m ((List.range N).map f) segs
      ↔ StreamObserved2F m (fun i => if i < N then f i else dfltTick) N segs := by
  have hf : (fun i => ((List.range N).map f).getD i dfltTick)
      = (fun i => if i < N then f i else dfltTick) := by
    funext i
    rw [List.getD_eq_getElem?_getD]
    by_cases h : i < N
    · simp [h]
    · simp [h]
  unfold StreamObserved2
  rw [hf, List.length_map, List.length_range]

set_option maxRecDepth 1000000 in
/-- the phenomena are there: potential hits (open threshold met, window within 2 of the sync word)
    at global ticks 68 (body tick 8: phase 0, wrong) and 99 (body tick 39: phase 7, before
    `acq + 31 = 41`), and in the second lead-in at tick 600, dropped 5 ticks later -/
theorem demo3_hits :
    (List.range 700).filter (fun t => decide (31 ≤ t) &&
        potHit 2 (fun i => if i < 2422 then demo3Tk demoHeader 10 0x41 i else dfltTick) t)
      = [68, 99, 107, 115, 123, 131, 139, 147, 155, 163, 171, 179, 187, 600, 642, 673, 681, 689, 697] := by
  decide +kernel

set_option maxRecDepth 1000000 in
/-- it meets the generalised assumptions (default sync budget 2) -/
theorem demo3_observed : StreamObserved2 2 demo3Stream demo3Segs := by
  unfold demo3Stream
  rw [streamObserved2_map_range]
  decide +kernel

/-- the link layer, by the general theorem -/
theorem demo3_link :
    Forall₂ (fun g b => ∃ t, b = g.payload ++ t ∧ t.length ≤ (g.rel + 7) / 8) demo3Segs
      (lrunBursts ⟨2, ⟨2, 5⟩⟩ {} demo3Stream) := by
  have hc := demoHeader_canonical
  have hpc := payloadCond_of_header ⟨2, ⟨2, 5⟩⟩ demoHeader _ hc.1 hc.2.1 hc.2.2
  refine (C01t.stream_bursts2 ⟨2, ⟨2, 5⟩⟩ (by decide) (by decide) demo3Stream demo3Segs demo3_observed ?_).1
  intro g hg
  simp only [demo3Segs, List.mem_cons, List.not_mem_nil, or_false] at hg
  rcases hg with rfl | rfl | rfl <;> exact hpc

set_option maxRecDepth 1000000 in
theorem demo3_bursts :
    lrunBursts ⟨2, ⟨2, 5⟩⟩ {} demo3Stream
      = [demoHeader ++ [0x41, 0x41], demoHeader ++ [0x41, 0x41], demoHeader ++ [0x41, 0x41]] := by
  decide +kernel

/-- **the chain on that stream**, by `stream_decoded2` -/
theorem demo3_decoded :
    DecodedOnce (chain ⟨2, ⟨2, 5⟩⟩ 22050 {} {} 0 (fun i => 42 * i) demo3Stream)
      (fun i => 42 * i) 2422 demoHeader 19 := by
  have hc := demoHeader_canonical
  have hT : TIMEOUT 22050 = 2976750 := by decide
  have hlen : demo3Stream.length = 2422 := by
    unfold demo3Stream; rw [List.length_map, List.length_range]
  have := stream_decoded2 ⟨2, ⟨2, 5⟩⟩ (by decide) (by decide) 22050 0 (42 * 2422) (fun i => 42 * i)
    demoHeader 19 hc.1 hc.2.1 hc.2.2 demo3Stream ⟨60, demoHeader, 10, 39, 10⟩
    ⟨574 + 60, demoHeader, 10, 39, 10⟩ ⟨2 * 574 + 60, demoHeader, 10, 39, 10⟩ rfl rfl rfl demo3_observed
    (by rw [hlen]; decide) (by decide)
    (by
      intro t1 t2 t3 _ _ _ hb
      rw [demo3_bursts] at hb
      simp only [List.cons.injEq, List.append_cancel_left_eq, and_true] at hb
      obtain ⟨e1, e2, e3⟩ := hb
      rw [← e1, ← e2, ← e3]
      exact demo_tails)
    (by
      intro i hi
      rw [hlen] at hi
      rw [hT]
      omega)
  rwa [hlen] at this

end Demo

end SameVerif.Chain
