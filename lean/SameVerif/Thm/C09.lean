import SameVerif.Lemmas.ReceiverFacts
import SameVerif.Model.FramerRun
/-
  C09 — Every StartOfMessage is eventually closed: the forced end-of-message timer of the
  receiver glue (`process_transportlayer` / `process()`), model `SameVerif/Model/Receiver.lean`.
-/
namespace SameVerif.C09
open SameVerif SameVerif.C08

abbrev TIMEOUT (rate : Nat) : Nat := Gen.MAX_MESSAGE_DURATION_SECS * rate

/-! ### B1 — the timer is armed by StartOfMessage, cleared by EndOfMessage, otherwise untouched -/

/-- **B1 (armed).** -/
theorem timer_armed (rate : Nat) (s : RState) (sample sym : Nat) (ls : LinkSt) (h : Header)
    (hout : (transportLayer rate s sample sym ls).2 = some (.message (.ok (.som h)))) :
    (transportLayer rate s sample sym ls).1.forceEomAt
      = some (sample + Gen.MAX_MESSAGE_DURATION_SECS * rate) := by
  rw [transportLayer_eq] at hout ⊢
  simp only at hout ⊢
  rw [hout]; rfl

/-- **B1 (cleared).** -/
theorem timer_cleared (rate : Nat) (s : RState) (sample sym : Nat) (ls : LinkSt)
    (hout : (transportLayer rate s sample sym ls).2 = some (.message (.ok .eom))) :
    (transportLayer rate s sample sym ls).1.forceEomAt = none := by
  rw [transportLayer_eq] at hout ⊢
  simp only at hout ⊢
  rw [hout]; rfl

/-- **B1 (unchanged).**  Any other answer — none, `idle`, `assembling`, a decode error — leaves
    the timer as it was. -/
theorem timer_unchanged (rate : Nat) (s : RState) (sample sym : Nat) (ls : LinkSt)
    (hsom : ∀ h, (transportLayer rate s sample sym ls).2 ≠ some (.message (.ok (.som h))))
    (heom : (transportLayer rate s sample sym ls).2 ≠ some (.message (.ok .eom))) :
    (transportLayer rate s sample sym ls).1.forceEomAt = s.forceEomAt := by
  rw [transportLayer_eq] at hsom heom ⊢
  simp only at hsom heom ⊢
  generalize (tlCore s sample sym ls).2 = out at hsom heom
  unfold forceAfter
  split
  · rename_i h; exact absurd rfl (hsom h)
  · exact absurd rfl heom
  · rfl

/-- the transport layer never touches the link state or the reported transport state -/
theorem transportLayer_frame (rate : Nat) (s : RState) (sample sym : Nat) (ls : LinkSt) :
    (transportLayer rate s sample sym ls).1.linkState = s.linkState
      ∧ (transportLayer rate s sample sym ls).1.transportState = s.transportState := by
  rw [transportLayer_eq]; exact ⟨rfl, rfl⟩

/-! ### B2 — the forced EndOfMessage -/

/-- **B2.**  Timer armed, link reports `NoCarrier`, sample counter beyond the timeout: the answer
    is EndOfMessage, the timer is cleared, the assembler is not consulted. -/
theorem forced_eom (rate : Nat) (s : RState) (sample sym T : Nat)
    (hT : s.forceEomAt = some T) (hlate : sample > T) :
    (transportLayer rate s sample sym .noCarrier).2 = some (.message (.ok .eom))
      ∧ (transportLayer rate s sample sym .noCarrier).1.forceEomAt = none
      ∧ (transportLayer rate s sample sym .noCarrier).1.asm = s.asm := by
  have hcore : tlCore s sample sym .noCarrier = (s.asm, some (.message (.ok .eom))) := by
    simp [tlCore, hT, hlate]
  rw [transportLayer_eq, hcore]
  exact ⟨rfl, rfl, rfl⟩

/-! ### B3 — the change filter does not swallow the forced EndOfMessage -/

theorem forceInv_init : ForceInv {} := rInv_init.1

/-- **B3 (invariant).** -/
theorem forceInv_tick (rate : Nat) (s : RState) (sample sym : Nat) (ls : LinkSt) (h : ForceInv s) :
    ForceInv (rTick rate s sample sym ls).1 := by
  rw [rTick_eq]; exact forceInv_next rate s sample sym ls h

/-- the `Transport.beq'` reading of `ForceInv` -/
theorem forceInv_beq (s : RState) (h : ForceInv s) (hf : s.forceEomAt.isSome) :
    Transport.beq' s.transportState (.message (.ok .eom)) = false :=
  (Transport.beq'_false_iff _ _).2 (h hf)

/-- which transport events a tick emits: exactly the assembler's / timer's answer, stamped with
    the tick's sample counter, when it differs from the state reported so far -/
theorem mem_tick_transport (rate : Nat) (s : RState) (sample sym : Nat) (ls : LinkSt) (smp : Nat) (t : Transport) :
    Event.transport smp t ∈ (rTick rate s sample sym ls).2
      ↔ smp = sample ∧ (transportLayer rate s sample sym ls).2 = some t ∧ t ≠ s.transportState := by
  rw [rTick_eq, transportLayer_eq]
  simp only [List.mem_append]
  have hl : Event.transport smp t ∉ linkEv s sample ls := by
    unfold linkEv; split <;> simp
  cases hout : (tlCore s sample sym ls).2 with
  | none => simp [trEv, hl]
  | some t' =>
    simp only [trEv, hl, false_or, Option.some.injEq]
    by_cases hb : t'.beq' s.transportState = true
    · have := (Transport.beq'_iff _ _).1 hb
      simp only [hb, ↓reduceIte, List.not_mem_nil, false_iff]
      rintro ⟨_, rfl, h⟩
      exact h this
    · have hne : t' ≠ s.transportState := fun h => hb ((Transport.beq'_iff _ _).2 h)
      simp only [hb]
      simp only [Bool.false_eq_true, ↓reduceIte, List.mem_singleton, Event.transport.injEq]
      constructor
      · rintro ⟨rfl, rfl⟩; exact ⟨rfl, rfl, hne⟩
      · rintro ⟨rfl, rfl, _⟩; exact ⟨rfl, rfl⟩

/-- **B3 (event).**  Under B2's hypotheses and `ForceInv`, `rTick` emits the EndOfMessage event
    (last of the tick's events), reports EndOfMessage and clears the timer. -/
theorem forced_eom_event (rate : Nat) (s : RState) (sample sym T : Nat) (hinv : ForceInv s)
    (hT : s.forceEomAt = some T) (hlate : sample > T) :
    Event.transport sample (.message (.ok .eom)) ∈ (rTick rate s sample sym .noCarrier).2
      ∧ (rTick rate s sample sym .noCarrier).2
          = linkEv s sample .noCarrier ++ [Event.transport sample (.message (.ok .eom))]
      ∧ (rTick rate s sample sym .noCarrier).1.forceEomAt = none
      ∧ (rTick rate s sample sym .noCarrier).1.transportState = .message (.ok .eom)
      ∧ (rTick rate s sample sym .noCarrier).1.asm = s.asm := by
  have hne : s.transportState ≠ .message (.ok .eom) := hinv (by simp [hT])
  have hcore : tlCore s sample sym .noCarrier = (s.asm, some (.message (.ok .eom))) := by
    simp [tlCore, hT, hlate]
  have hb : Transport.beq' (.message (.ok .eom)) s.transportState = false :=
    (Transport.beq'_false_iff _ _).2 (fun h => hne h.symm)
  refine ⟨?_, ?_, ?_, ?_, ?_⟩
  · rw [mem_tick_transport]
    exact ⟨rfl, (forced_eom rate s sample sym T hT hlate).1, fun h => hne h.symm⟩
  · rw [rTick_eq, hcore]; simp [trEv, hb]
  · rw [rTick_eq]; simp only [rNext, hcore]; rfl
  · rw [rTick_eq]; simp only [rNext, hcore]
  · rw [rTick_eq]; simp only [rNext, hcore]

/-! ### B4 — a reported StartOfMessage always arms the timer -/

/-- **B4.** -/
theorem som_event_arms (rate : Nat) (s : RState) (sample sym : Nat) (ls : LinkSt) (smp : Nat) (h : Header)
    (hev : Event.transport smp (.message (.ok (.som h))) ∈ (rTick rate s sample sym ls).2) :
    smp = sample
      ∧ (rTick rate s sample sym ls).1.forceEomAt = some (sample + Gen.MAX_MESSAGE_DURATION_SECS * rate)
      ∧ (rTick rate s sample sym ls).1.transportState = .message (.ok (.som h)) := by
  rw [mem_tick_transport, transportLayer_eq] at hev
  obtain ⟨h1, h2, _⟩ := hev
  simp only at h2
  refine ⟨h1, ?_, ?_⟩
  · rw [rTick_eq]; simp only [rNext, h2]; rfl
  · rw [rTick_eq]; simp only [rNext, h2]

/-! ### B5 — every StartOfMessage is closed by the first NoCarrier tick after the timeout -/

/-- an event that closes (or supersedes) an open StartOfMessage -/
def Closes (e : Event) : Prop :=
  ∃ smp, e = .transport smp (.message (.ok .eom)) ∨ ∃ h, e = .transport smp (.message (.ok (.som h)))

/-- one tick with the timer armed: either a closing event is emitted, or the timer stays
    exactly as it is (it can neither be cleared nor re-armed silently) -/
theorem timer_step (rate : Nat) (s : RState) (sample sym : Nat) (ls : LinkSt) (T : Nat)
    (hinv : RInv s) (hT : s.forceEomAt = some T) :
    (∃ e ∈ (rTick rate s sample sym ls).2, Closes e)
      ∨ (rTick rate s sample sym ls).1.forceEomAt = some T := by
  obtain ⟨hF, hP, hN⟩ := hinv
  cases hout : (tlCore s sample sym ls).2 with
  | none =>
    right; rw [rTick_eq]; simp only [rNext, hout, forceAfter]; exact hT
  | some t =>
    have hemit : t ≠ s.transportState →
        Event.transport sample t ∈ (rTick rate s sample sym ls).2 := by
      intro hne
      rw [mem_tick_transport, transportLayer_eq]
      exact ⟨rfl, hout, hne⟩
    have hkeep : (∀ h, t ≠ .message (.ok (.som h))) → t ≠ .message (.ok .eom) →
        (rTick rate s sample sym ls).1.forceEomAt = some T := by
      intro h1 h2
      rw [rTick_eq]; simp only [rNext, hout]
      unfold forceAfter
      split
      · rename_i h heq; cases heq; exact absurd rfl (h1 h)
      · rename_i heq; cases heq; exact absurd rfl h2
      · exact hT
    cases t with
    | idle => right; exact hkeep (fun _ => by simp) (by simp)
    | assembling => right; exact hkeep (fun _ => by simp) (by simp)
    | message r =>
      cases r with
      | error e => right; exact hkeep (fun _ => by simp) (by simp)
      | ok m =>
        cases m with
        | eom =>
          left
          refine ⟨_, hemit (fun h => hF (by simp [hT]) h.symm), sample, Or.inl rfl⟩
        | som h =>
          left
          refine ⟨_, hemit ?_, sample, Or.inr ⟨h, rfl⟩⟩
          intro heq
          obtain ⟨t, hp, _⟩ := som_out_needs_pending s sample sym ls h hout
          rcases hP (by simp [hp]) with h' | h' | h' <;> rw [h'] at heq <;> cases heq

/-- with the timer armed at `T`: whatever happens in between, by the first `NoCarrier` tick whose
    sample counter exceeds `T` a closing event has been emitted -/
theorem closed_by_timeout (rate : Nat) (s : RState) (T : Nat) (mid : List RTick) (sample sym : Nat)
    (hinv : RInv s) (hT : s.forceEomAt = some T) (hlate : sample > T) :
    ∃ e ∈ (rRun rate s (mid ++ [(sample, sym, .noCarrier)])).2, Closes e := by
  induction mid generalizing s with
  | nil =>
    refine ⟨_, ?_, sample, Or.inl rfl⟩
    rw [List.nil_append, rRun_cons, rRun_nil, List.append_nil]
    exact (forced_eom_event rate s sample sym T hinv.1 hT hlate).1
  | cons x xs ih =>
    obtain ⟨smp, sy, ls⟩ := x
    rw [List.cons_append, rRun_cons]
    rcases timer_step rate s smp sy ls T hinv hT with ⟨e, he, hc⟩ | hkeep
    · exact ⟨e, List.mem_append_left _ he, hc⟩
    · obtain ⟨e, he, hc⟩ := ih _ (rInv_tick rate s smp sy ls hinv) hkeep
      exact ⟨e, List.mem_append_right _ he, hc⟩

/-- the state right after a StartOfMessage event satisfies the invariant, whatever came before:
    the header has just left the pending slot, and the reported state is that header -/
theorem rInv_after_som (rate : Nat) (s : RState) (sample sym : Nat) (ls : LinkSt) (smp : Nat) (h : Header)
    (hev : Event.transport smp (.message (.ok (.som h))) ∈ (rTick rate s sample sym ls).2) :
    RInv (rTick rate s sample sym ls).1 := by
  obtain ⟨_, _, hts⟩ := som_event_arms rate s sample sym ls smp h hev
  rw [mem_tick_transport, transportLayer_eq] at hev
  obtain ⟨_, hout, _⟩ := hev
  simp only at hout
  have hnf : ¬ Forced s sample ls := by
    intro hf
    rcases tlCore_cases s sample sym ls with ⟨h1, _⟩ | ⟨_, h1⟩ | ⟨hnf, _⟩
    · rw [h1] at hout; cases hout
    · rw [h1] at hout; cases hout
    · exact hnf hf
  have hnone := message_out_empties s sample sym ls _ hnf hout
  have hasm : (rTick rate s sample sym ls).1.asm.pending = none := by
    rw [rTick_eq]; exact hnone
  refine ⟨?_, ?_, ?_⟩
  · intro _; rw [hts]; simp
  · intro hp; rw [hasm] at hp; cases hp
  · intro t ht; rw [hasm] at ht; cases ht

/-- **B5.**  From ANY state `s0`, after any ticks `pre`: if the tick `(p, symp, lsp)` emits a
    StartOfMessage event, then for any later ticks `mid` followed by a `NoCarrier` tick with
    `sample > p + 135·rate`, the events of `mid ++ [that tick]` contain an EndOfMessage or a
    newer StartOfMessage.  (No assumption on sample or symbol counters being monotone.) -/
theorem closed_within (rate : Nat) (s0 : RState) (pre mid : List RTick)
    (p symp : Nat) (lsp : LinkSt) (h : Header) (sample sym : Nat)
    (hsom : Event.transport p (.message (.ok (.som h)))
              ∈ (rTick rate (rRun rate s0 pre).1 p symp lsp).2)
    (hlate : sample > p + Gen.MAX_MESSAGE_DURATION_SECS * rate) :
    ∃ e ∈ (rRun rate (rTick rate (rRun rate s0 pre).1 p symp lsp).1
              (mid ++ [(sample, sym, .noCarrier)])).2, Closes e := by
  have h2 := rInv_after_som rate _ p symp lsp p h hsom
  obtain ⟨_, harm, _⟩ := som_event_arms rate _ p symp lsp p h hsom
  exact closed_by_timeout rate _ _ mid sample sym h2 harm hlate

/-- **B5, whole run.**  The event list of the complete run is the concatenation of the four
    segments; the StartOfMessage lies in the second, a closing event in the third. -/
theorem closed_within_run (rate : Nat) (s0 : RState) (pre mid post : List RTick)
    (p symp : Nat) (lsp : LinkSt) (h : Header) (sample sym : Nat)
    (hsom : Event.transport p (.message (.ok (.som h)))
              ∈ (rTick rate (rRun rate s0 pre).1 p symp lsp).2)
    (hlate : sample > p + Gen.MAX_MESSAGE_DURATION_SECS * rate) :
    ∃ Epre Ep Emid Epost,
      (rRun rate s0 (pre ++ (p, symp, lsp) :: (mid ++ [(sample, sym, .noCarrier)]) ++ post)).2
          = Epre ++ Ep ++ Emid ++ Epost
        ∧ Epre = (rRun rate s0 pre).2
        ∧ Ep = (rTick rate (rRun rate s0 pre).1 p symp lsp).2
        ∧ Emid = (rRun rate (rTick rate (rRun rate s0 pre).1 p symp lsp).1
                    (mid ++ [(sample, sym, .noCarrier)])).2
        ∧ Event.transport p (.message (.ok (.som h))) ∈ Ep
        ∧ ∃ e ∈ Emid, Closes e := by
  refine ⟨_, _, _,
    (rRun rate (rRun rate (rTick rate (rRun rate s0 pre).1 p symp lsp).1
      (mid ++ [(sample, sym, .noCarrier)])).1 post).2, ?_, rfl, rfl, rfl, hsom,
    closed_within rate s0 pre mid p symp lsp h sample sym hsom hlate⟩
  rw [rRun_append, rRun_append, rRun_cons]
  simp only [List.append_assoc]

/-! ### Non-vacuity: a header is due at symbol 5; rate 1 sample/s, so the timeout is 135 samples -/

def hdr0 : Header := ⟨[90, 67], 0, 0, 0⟩
def st0 : RState := { asm := { pending := some ⟨.ok (.som hdr0), 5⟩ } }

example : RInv st0 := by
  refine ⟨fun h => (by cases h), fun _ => Or.inl rfl, ?_⟩
  intro t ht
  cases ht
  simp

/-- tick 1 releases the StartOfMessage at sample 10 (timer: 145); tick 2 reports `idle`;
    tick 3 (`sample = 146 > 145`) is the forced EndOfMessage -/
example : (rRun 1 st0 [(10, 5, .noCarrier), (100, 6, .noCarrier), (146, 7, .noCarrier)]).2
    = [Event.transport 10 (.message (.ok (.som hdr0))), Event.transport 100 .idle,
       Event.transport 146 (.message (.ok .eom))] := by
  rfl

example : (rRun 1 st0 [(10, 5, .noCarrier)]).1.forceEomAt = some 145 := by rfl

/-- `ForceInv` is needed in B3: with the timer armed while EndOfMessage is already the reported
    state (unreachable, by `forceInv_tick`), the forced EndOfMessage would be swallowed -/
example : (rTick 1 { transportState := .message (.ok .eom), forceEomAt := some 0 } 1 0 .noCarrier).2 = [] := by
  rfl

end SameVerif.C09

namespace SameVerif.C09
open SameVerif

/-! ### F9 — the prefix search can be prolonged for ever by re-synchronisations (model witness) -/

/-- feed `(byte, restart)` pairs -/
def feedR (c : FCfg) : FState → List (Byte × Bool) → List LinkSt
  | _, [] => []
  | s, (b, r) :: bs => (finput c s b r).2 :: feedR c (finput c s b r).1 bs

/-- a preamble byte stream that is re-synchronised at every `k`-th byte -/
def slipping (k n : Nat) : List (Byte × Bool) := (List.range n).map (fun i => (0xAB, i % k == 0))

/-- the four words a search started on preamble bytes can hold are far from both prefixes -/
theorem preamble_words_far :
    7 < prefixErrors 0x000000AB ∧ 7 < prefixErrors 0x0000ABAB ∧ 7 < prefixErrors 0x00ABABAB
      ∧ 7 < prefixErrors 0xABABABAB := by decide

/-- the words reachable from a restart on preamble bytes -/
def PreWord (w : UInt32) : Prop := w = 0x000000AB ∨ w = 0x0000ABAB ∨ w = 0x00ABABAB ∨ w = 0xABABABAB

theorem preWord_step (w : UInt32) (h : PreWord w ∨ w = 0) : PreWord ((w <<< 8) ||| (0xAB : Byte).toUInt32) := by
  rcases h with (h | h | h | h) | h <;> subst h <;> unfold PreWord <;> decide

theorem preWord_far (c : FCfg) (hP : c.maxPrefixErr ≤ 7) (w : UInt32) (h : PreWord w) :
    ¬ prefixErrors w ≤ c.maxPrefixErr := by
  obtain ⟨h1, h2, h3, h4⟩ := preamble_words_far
  rcases h with h | h | h | h <;> subst h <;> omega

/-- one byte of the slipping stream from a searching state whose counter is small enough keeps searching -/
theorem search_step (c : FCfg) (hP : c.maxPrefixErr ≤ 7) (w : UInt32) (cnt : Nat) (r : Bool)
    (hw : PreWord w ∨ w = 0) (hc : r = true ∨ cnt + 1 ≤ Gen.PREFIX_SEARCH_LEN) :
    ∃ w' cnt', finput c (.search w cnt) 0xAB r = (.search w' cnt', .searching) ∧ PreWord w'
      ∧ cnt' = (if r then 1 else cnt + 1) := by
  cases r with
  | true =>
    have hw' := preWord_step 0 (Or.inr rfl)
    have hf := preWord_far c hP _ hw'
    refine ⟨_, 1, ?_, hw', rfl⟩
    simp only [finput, fend, finputNR, ↓reduceIte]
    rw [if_neg hf, if_neg (by decide)]
  | false =>
    have hw' := preWord_step w hw
    have hf := preWord_far c hP _ hw'
    have hc' : cnt + 1 ≤ Gen.PREFIX_SEARCH_LEN := by rcases hc with h | h; cases h; exact h
    refine ⟨_, cnt + 1, ?_, hw', rfl⟩
    simp only [finput, finputNR, Bool.false_eq_true, ↓reduceIte]
    rw [if_neg hf, if_neg (by omega)]

/-- **F9 (model witness).**  Preamble bytes re-synchronised at every `k`-th byte, `1 ≤ k ≤ 21`: from a
    searching state the framer reports `searching` at EVERY byte, for streams of ANY length — the
    21-byte give-up never happens, the link layer never reports `noCarrier`. -/
theorem search_restart_unbounded (c : FCfg) (hP : c.maxPrefixErr ≤ 7) (k : Nat) (hk1 : 1 ≤ k)
    (hk : k ≤ Gen.PREFIX_SEARCH_LEN) (n : Nat) :
    ∀ ls ∈ feedR c (.search 0 0) (slipping k n), ls = .searching := by
  -- generalise over the offset `j` into the stream; invariant: off a restart position the counter is at most
  -- the number of bytes since the last restart
  suffices h : ∀ (m j : Nat) (w : UInt32) (cnt : Nat), (PreWord w ∨ w = 0) →
      (j % k ≠ 0 → cnt ≤ j % k) →
      ∀ ls ∈ feedR c (.search w cnt) ((List.range m).map (fun i => ((0xAB : Byte), (j + i) % k == 0))),
        ls = .searching by
    have := h n 0 0 0 (Or.inr rfl) (fun _ => Nat.zero_le _)
    simpa [slipping] using this
  intro m
  induction m with
  | zero => intro j w cnt _ _ ls hls; simp [feedR] at hls
  | succ m ih =>
    intro j w cnt hw hcnt ls hls
    rw [List.range_succ_eq_map, List.map_cons, List.map_map] at hls
    simp only [Nat.add_zero] at hls
    have hmod : j % k < k := Nat.mod_lt _ (by omega)
    have hc : (j % k == 0) = true ∨ cnt + 1 ≤ Gen.PREFIX_SEARCH_LEN := by
      by_cases h0 : j % k = 0
      · left; simp [h0]
      · right; have := hcnt h0; omega
    obtain ⟨w', cnt', hstep, hw', hcnt'⟩ := search_step c hP w cnt (j % k == 0) hw hc
    simp only [feedR, hstep, List.mem_cons] at hls
    rcases hls with rfl | hls
    · rfl
    · have hfun : ((fun i => ((0xAB : Byte), (j + i) % k == 0)) ∘ Nat.succ)
          = (fun i => ((0xAB : Byte), (j + 1 + i) % k == 0)) := by
        funext i
        have : j + Nat.succ i = j + 1 + i := by omega
        simp only [Function.comp, this]
      rw [hfun] at hls
      have hnext : (j + 1) % k ≠ 0 → cnt' ≤ (j + 1) % k := by
        intro hne
        have hsucc : (j + 1) % k = (j % k + 1) % k := by
          conv => lhs; rw [Nat.add_mod]
          conv => rhs; rw [Nat.add_mod, Nat.mod_mod]
        by_cases hwrap : j % k + 1 = k
        · exfalso; apply hne; rw [hsucc, hwrap, Nat.mod_self]
        · have hlt : j % k + 1 < k := by omega
          rw [hsucc, Nat.mod_eq_of_lt hlt]
          rw [hcnt']
          by_cases h0 : j % k = 0
          · simp [h0]
          · have hb : (j % k == 0) = false := by simp [h0]
            simp only [hb, Bool.false_eq_true, ↓reduceIte]
            have := hcnt h0; omega
      exact ih (j + 1) w' cnt' (Or.inl hw') hnext ls hls
end SameVerif.C09
