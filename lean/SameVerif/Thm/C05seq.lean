import SameVerif.Thm.C02
import SameVerif.Thm.C05
import SameVerif.Thm.C04
import SameVerif.Lemmas.AssemblerSeq
/-
  C05 (continued) — sequences of transmissions: two different headers are each reported once and in
  the order transmitted; a repeat of the same header inside the window is suppressed, after the
  window it is reported again; reports follow the burst log.
  Helper lemmas live in Lemmas/AssemblerSeq.lean.
-/
namespace SameVerif.C05seq
open SameVerif SameVerif.Spec SameVerif.Asm

/-! ### 0. vocabulary -/

/-- `H` is a canonical header text in the SAME character set that fits the burst buffer -/
structure Canon (H : List Byte) (off : Nat) : Prop where
  allowed : ∀ b ∈ H, isAllowed b = true
  parse : checkHeader H = some (off, H.length)
  fit : H.length ≤ MAXLEN

/-- one transmission heard as three bursts `H` ending at `t1`, `t2`, `t3`; polls `p1` between the
    first two bursts, `p2` between the last two, `p3` afterwards, and a last poll at `t` -/
def tx3 (H : List Byte) (t1 t2 t3 t : Nat) (p1 p2 p3 : List Nat) : List AOp :=
  .burst H t1 :: (p1.map .poll ++ .burst H t2 :: (p2.map .poll ++ .burst H t3 ::
    (p3.map .poll ++ [.poll t])))

/-- one transmission heard as two bursts `H` ending at `t1`, `t2` (one burst was lost) -/
def tx2 (H : List Byte) (t1 t2 t : Nat) (p1 p2 : List Nat) : List AOp :=
  .burst H t1 :: (p1.map .poll ++ .burst H t2 :: (p2.map .poll ++ [.poll t]))

theorem Canon.nonempty {H : List Byte} {off : Nat} (c : Canon H off) : H.isEmpty = false := by
  have := ne_nil_of_checkHeader H _ c.parse
  cases H with
  | nil => exact absurd rfl this
  | cons _ _ => rfl

theorem Canon.one {H : List Byte} {off : Nat} (c : Canon H off) : combine MAXLEN [H] = none :=
  combine_single_header _ _ _ c.parse

theorem Canon.two {H : List Byte} {off : Nat} (c : Canon H off) :
    combine MAXLEN [H, H] = some (.ok (.som ⟨H, off, 0, 0⟩)) :=
  C02.combine_pair_equal MAXLEN H off c.allowed c.parse c.fit

theorem Canon.three {H : List Byte} {off : Nat} (c : Canon H off) :
    combine MAXLEN [H, H, H] = some (.ok (.som ⟨H, off, 0, H.length⟩)) := by
  have := C02.combine_with_tails' MAXLEN H [] [] [] off c.allowed c.parse c.fit
    (by rw [estimateLoop_nils3]; intro e he; cases he)
  simpa using this

/-- two bursts `H` and one burst `X`, in either of the orders met below -/
theorem Canon.hhx {H : List Byte} {off : Nat} (c : Canon H off) (X : List Byte) :
    combine MAXLEN [H, H, X] = some (.ok (.som ⟨H, off, specParity H X, specVoting H X⟩)) :=
  C03.combine_two_of_three MAXLEN 2 H X off c.allowed c.parse c.fit

theorem Canon.xhh {H : List Byte} {off : Nat} (c : Canon H off) (X : List Byte) :
    combine MAXLEN [X, H, H] = some (.ok (.som ⟨H, off, specParity H X, specVoting H X⟩)) :=
  C03.combine_two_of_three MAXLEN 0 H X off c.allowed c.parse c.fit

/-! ### 1. what `Sorted` says about these schedules -/

theorem sorted_append (a b : List AOp) (h : Sorted (a ++ b)) :
    Sorted a ∧ Sorted b ∧ ∀ x ∈ a, ∀ y ∈ b, x.time ≤ y.time := by
  unfold Sorted at h ⊢
  exact List.pairwise_append.mp h

theorem sorted_tx3 (H : List Byte) (t1 t2 t3 t : Nat) (p1 p2 p3 : List Nat)
    (h : Sorted (tx3 H t1 t2 t3 t p1 p2 p3)) :
    t1 ≤ t2 ∧ t2 ≤ t3 ∧ (∀ u ∈ p1, u ≤ t2) ∧ (∀ u ∈ p2, u ≤ t3) ∧ (∀ u ∈ p3, u ≤ t) := by
  obtain ⟨h1, h2, h3, h4⟩ := C02.three_bursts_sorted _ _ _ _ _ _ _ _ _ _ h
  refine ⟨h1, h2, h3, h4, ?_⟩
  intro u hu
  unfold Sorted tx3 at h
  have h := (List.pairwise_cons.mp h).2
  have h := (List.pairwise_cons.mp (List.pairwise_append.mp h).2.1).2
  have h := (List.pairwise_cons.mp (List.pairwise_append.mp h).2.1).2
  exact (List.pairwise_append.mp h).2.2 (.poll u) (List.mem_map.mpr ⟨u, hu, rfl⟩) (.poll t) (by simp)

theorem sorted_tx2 (H : List Byte) (t1 t2 t : Nat) (p1 p2 : List Nat)
    (h : Sorted (tx2 H t1 t2 t p1 p2)) :
    t1 ≤ t2 ∧ (∀ u ∈ p1, u ≤ t2) ∧ (∀ u ∈ p2, u ≤ t) := by
  unfold Sorted tx2 at h
  obtain ⟨ha, hrest⟩ := List.pairwise_cons.mp h
  obtain ⟨_, hr2, hx1⟩ := List.pairwise_append.mp hrest
  have h3 := (List.pairwise_cons.mp hr2).2
  refine ⟨ha (.burst H t2) (by simp), ?_, ?_⟩
  · intro u hu
    exact hx1 (.poll u) (List.mem_map.mpr ⟨u, hu, rfl⟩) (.burst H t2) (by simp)
  · intro u hu
    exact (List.pairwise_append.mp h3).2.2 (.poll u) (List.mem_map.mpr ⟨u, hu, rfl⟩) (.poll t) (by simp)

/-! ### 2. the first transmission, with what it leaves behind -/

/-- three bursts from the initial state -/
theorem first3 (A : List Byte) (offA a1 a2 a3 t T : Nat) (p1 p2 p3 : List Nat) (cA : Canon A offA)
    (hsort : Sorted (tx3 A a1 a2 a3 t p1 p2 p3)) (h31 : a3 < a1 + HIST) (ht : a3 + HOLD ≤ t)
    (htT : t ≤ T) :
    ∃ u hA, hA.text = A ∧ hA.offsetTime = offA ∧ hA.parity = 0 ∧ a2 + HOLD ≤ u ∧ u ≤ T
      ∧ (runOps {} (tx3 A a1 a2 a3 t p1 p2 p3)).2 = [(u, .ok (.som hA))]
      ∧ LeftBy (runOps {} (tx3 A a1 a2 a3 t p1 p2 p3)).1 (.som hA) (u + HIST)
          [⟨A, a2 + HIST⟩, ⟨A, a3 + HIST⟩] T := by
  obtain ⟨h12, h23, hp1, hp2, hp3⟩ := sorted_tx3 _ _ _ _ _ _ _ _ hsort
  obtain ⟨u, h, hh, hu1, hu2, hout, hL⟩ := transmission3_st {} A a1 a2 a3 t T ⟨A, offA, 0, 0⟩
    ⟨A, offA, 0, A.length⟩ p1 p2 p3 cA.nonempty cA.fit cA.one cA.two cA.three (Nat.zero_le _) rfl
    rfl rfl (by intro p hp; cases hp) h12 h23 h31 hp1 hp2
    (fun v hv => Nat.le_trans (hp3 v hv) htT) htT ht
  refine ⟨u, h, ?_, ?_, ?_, hu1, hu2, hout, hL⟩ <;> rcases hh with rfl | rfl <;> rfl

/-- two bursts from the initial state -/
theorem first2 (A : List Byte) (offA a1 a2 t T : Nat) (p1 p2 : List Nat) (cA : Canon A offA)
    (hsort : Sorted (tx2 A a1 a2 t p1 p2)) (h21 : a2 < a1 + HIST) (ht : a2 + HOLD ≤ t)
    (htT : t ≤ T) :
    ∃ u, a2 + HOLD ≤ u ∧ u ≤ T
      ∧ (runOps {} (tx2 A a1 a2 t p1 p2)).2 = [(u, .ok (.som ⟨A, offA, 0, 0⟩))]
      ∧ LeftBy (runOps {} (tx2 A a1 a2 t p1 p2)).1 (.som ⟨A, offA, 0, 0⟩) (u + HIST)
          [⟨A, a1 + HIST⟩, ⟨A, a2 + HIST⟩] T := by
  obtain ⟨_, hp1, hp2⟩ := sorted_tx2 _ _ _ _ _ _ hsort
  exact transmission2_st {} A a1 a2 t T ⟨A, offA, 0, 0⟩ p1 p2 cA.nonempty cA.fit cA.one cA.two rfl
    rfl (by intro p hp; cases hp) h21 hp1 (fun v hv => Nat.le_trans (hp2 v hv) htT) htT ht

/-! ### 3. the second transmission: its first two bursts -/

/-- **The first two bursts of the next, different, transmission.**  The previous transmission left
    two bursts `A` (due at `d2 ≤ d3`) and its report, remembered until `d ≥ d2`.  If the first burst
    `B` ends while both `A` bursts are alive (`b1 < d2`) or when both have expired (`d3 ≤ b1`), the
    run up to the second burst `B` is silent and ends with both `B` bursts stored and a header with
    text `B` held until `b2 + HOLD`. -/
theorem second_held (S : AState) (A B : List Byte) (offA offB : Nat) (hA : Header)
    (d d2 d3 b1 b2 : Nat) (pb1 : List Nat)
    (cA : Canon A offA) (cB : Canon B offB) (hAB : A ≠ B) (hAt : hA.text = A)
    (hL : LeftBy S (.som hA) d [⟨A, d2⟩, ⟨A, d3⟩] b1)
    (hd23 : d2 ≤ d3) (hdd : d2 ≤ d) (hgap : b1 < d2 ∨ d3 ≤ b1)
    (h21 : b2 < b1 + HIST) (hp1 : ∀ u ∈ pb1, u ≤ b2) :
    ∃ (S2 : AState) (hB : Header), hB.text = B ∧ hB.offsetTime = offB ∧ hB.voting ≤ B.length ∧
      (∀ rest, runOps S (.burst B b1 :: (pb1.map .poll ++ .burst B b2 :: rest)) = runOps S2 rest)
      ∧ S2.history = [⟨B, b1 + HIST⟩, ⟨B, b2 + HIST⟩]
      ∧ S2.pending = some ⟨.ok (.som hB), b2 + HOLD⟩
      ∧ (∀ p, S2.previous = some p → p.data.text ≠ B) := by
  have hmt : (Msg.som hA).text = A := hAt
  rcases hgap with hnear | hfar
  · obtain ⟨S2, hB, hBc, hrun, hh, hpend, hprev⟩ := second_near_held S A B (.som hA) d d2 d3 b1 b1 b2
      ⟨A, offA, specParity A B, specVoting A B⟩ ⟨B, offB, specParity B A, specVoting B A⟩
      ⟨B, offB, 0, 0⟩ pb1 cB.nonempty cB.fit hL (Nat.le_refl _) (by omega) hnear hd23
      (cA.hhx B) hmt (cB.xhh A) cB.two (by rw [hmt]; exact hAB) (by rw [hmt]; exact hAB) h21 hp1
    refine ⟨S2, hB, ?_, ?_, ?_, hrun, hh, hpend, ?_⟩
    · rcases hBc with rfl | rfl <;> rfl
    · rcases hBc with rfl | rfl <;> rfl
    · rcases hBc with rfl | rfl
      · simp only [specVoting]; omega
      · exact Nat.zero_le _
    · intro p hp
      rw [hprev p hp, hmt]; exact hAB
  · have hx : pruneHistory S.history b1 = [] := by
      rw [hL.hist b1 (Nat.le_refl _)]
      apply pruneHistory_expired
      intro e he
      simp only [List.mem_cons, List.not_mem_nil, or_false] at he
      rcases he with rfl | rfl <;> simp only <;> omega
    obtain ⟨S2, hrun, hh, hpend, hprev⟩ := two_bursts_held
      { history := [], pending := S.pending, previous := prunePrevious S.previous b1 } B b1 b2
      ⟨B, offB, 0, 0⟩ pb1 cB.nonempty cB.fit cB.one cB.two rfl hL.pending
      (by
        intro p hp
        simp only at hp
        rcases prunePrevious_cases S.previous b1 with ⟨hn, _⟩ | ⟨hk, _⟩
        · rw [hn] at hp; cases hp
        · rw [hk, hL.previous] at hp; cases hp
          simp only [hmt]; exact hAB) h21 hp1
    refine ⟨S2, ⟨B, offB, 0, 0⟩, rfl, rfl, Nat.zero_le _, ?_, hh, hpend, ?_⟩
    · intro rest
      rw [runOps_burst_expired S B b1 _ cB.nonempty hx]
      exact hrun rest
    · intro p hp
      have := hprev p hp
      simp only at this
      rcases prunePrevious_cases S.previous b1 with ⟨hn, _⟩ | ⟨hk, _⟩
      · rw [hn] at this; cases this
      · rw [hk, hL.previous] at this; cases this
        simp only [hmt]; exact hAB

/-! ### 4. the second transmission: the rest of it -/

/-- two bursts `B` stored, a header with text `B` held: polls, the third burst, polls, a poll at or
    after `b3 + HOLD` — exactly one report, text `B`, not before `b2 + HOLD` -/
theorem finish3 (S2 : AState) (B : List Byte) (offB : Nat) (hB2 : Header) (b1 b2 b3 t' : Nat)
    (pb2 pb3 : List Nat) (cB : Canon B offB)
    (hBt : hB2.text = B) (hBo : hB2.offsetTime = offB) (hBv : hB2.voting ≤ B.length)
    (hh : S2.history = [⟨B, b1 + HIST⟩, ⟨B, b2 + HIST⟩])
    (hpend : S2.pending = some ⟨.ok (.som hB2), b2 + HOLD⟩)
    (hprev : ∀ p, S2.previous = some p → p.data.text ≠ B)
    (h12 : b1 ≤ b2) (h23 : b2 ≤ b3) (h31 : b3 < b1 + HIST) (hp2 : ∀ u ∈ pb2, u ≤ b3)
    (ht : b3 + HOLD ≤ t') :
    ∃ v hB, hB.text = B ∧ hB.offsetTime = offB ∧ b2 + HOLD ≤ v
      ∧ (runOps S2 (pb2.map .poll ++ .burst B b3 :: (pb3.map .poll ++ [.poll t']))).2
          = [(v, .ok (.som hB))] := by
  have htake : B.take MAXLEN = B := List.take_of_length_le cB.fit
  have hops : pb3.map AOp.poll ++ [.poll t'] = (pb3 ++ [t']).map AOp.poll := by simp
  rw [hops]
  rcases held_then_third S2 B ⟨B, b1 + HIST⟩ ⟨B, b2 + HIST⟩ b2 b3 hB2 ⟨B, offB, 0, B.length⟩ pb2
    (pb3 ++ [t']) cB.nonempty hh (by simp only; omega) (by simp only; omega) hp2 hpend
    (by rw [htake]; exact cB.three) hBv hBt hprev (by omega) ⟨t', by simp, ht⟩
    with ⟨v, _, hv, ho⟩ | ⟨_, v, _, hv, ho⟩
  · exact ⟨v, hB2, hBt, hBo, hv, ho⟩
  · exact ⟨v, _, rfl, rfl, by omega, ho⟩

/-- two bursts `B` stored, a header with text `B` held: polls, one of them at or after
    `b2 + HOLD` — exactly one report -/
theorem finish2 (S2 : AState) (hB2 : Header) (b2 t' : Nat) (pb2 : List Nat)
    (hpend : S2.pending = some ⟨.ok (.som hB2), b2 + HOLD⟩) (ht : b2 + HOLD ≤ t') :
    ∃ v, b2 + HOLD ≤ v ∧ (runOps S2 (pb2.map .poll ++ [.poll t'])).2 = [(v, .ok (.som hB2))] := by
  have hops : pb2.map AOp.poll ++ [.poll t'] = (pb2 ++ [t']).map AOp.poll := by simp
  rw [hops]
  obtain ⟨v, _, hv, ho, _⟩ := run_polls_release (pb2 ++ [t']) ⟨.ok (.som hB2), b2 + HOLD⟩ (.som hB2)
    rfl S2 hpend ⟨t', by simp, ht⟩
  exact ⟨v, hv, ho⟩


/-! ### 5. G1/G2: two different transmissions are each reported once, in the order transmitted -/

theorem tx3_mem_last (H : List Byte) (t1 t2 t3 t : Nat) (p1 p2 p3 : List Nat) :
    AOp.poll t ∈ tx3 H t1 t2 t3 t p1 p2 p3 := by simp [tx3]

theorem tx2_mem_last (H : List Byte) (t1 t2 t : Nat) (p1 p2 : List Nat) :
    AOp.poll t ∈ tx2 H t1 t2 t p1 p2 := by simp [tx2]

theorem tx3_mem_first (H : List Byte) (t1 t2 t3 t : Nat) (p1 p2 p3 : List Nat) :
    AOp.burst H t1 ∈ tx3 H t1 t2 t3 t p1 p2 p3 := by simp [tx3]

theorem tx2_mem_first (H : List Byte) (t1 t2 t : Nat) (p1 p2 : List Nat) :
    AOp.burst H t1 ∈ tx2 H t1 t2 t p1 p2 := by simp [tx2]

/-- **G1 — two transmissions, three bursts each.**  Canonical header texts `A ≠ B`.  From the
    initial state: three bursts `A` (`a3 < a1 + HIST`), any polls in time order, the last of them at
    `t ≥ a3 + HOLD` (so `A` has been released before `B` starts); then three bursts `B`
    (`b3 < b1 + HIST`), any polls, a last poll at `t' ≥ b3 + HOLD`.  Gap condition: the first burst
    `B` ends while the last two bursts `A` are both still stored (`b1 < a2 + HIST`: it is voted
    `A A B`, which reads `A` again and is suppressed as a duplicate) or after both have expired
    (`a3 + HIST ≤ b1`).  Then the run outputs exactly two messages, `A` then `B`, each once. -/
theorem two_transmissions_in_order (A B : List Byte) (offA offB a1 a2 a3 t b1 b2 b3 t' : Nat)
    (pa1 pa2 pa3 pb1 pb2 pb3 : List Nat)
    (cA : Canon A offA) (cB : Canon B offB) (hAB : A ≠ B)
    (hsort : Sorted (tx3 A a1 a2 a3 t pa1 pa2 pa3 ++ tx3 B b1 b2 b3 t' pb1 pb2 pb3))
    (ha31 : a3 < a1 + HIST) (hta : a3 + HOLD ≤ t)
    (hb31 : b3 < b1 + HIST) (htb : b3 + HOLD ≤ t')
    (hgap : b1 < a2 + HIST ∨ a3 + HIST ≤ b1) :
    ∃ u v hA hB,
      (runOps {} (tx3 A a1 a2 a3 t pa1 pa2 pa3 ++ tx3 B b1 b2 b3 t' pb1 pb2 pb3)).2
        = [(u, .ok (.som hA)), (v, .ok (.som hB))]
      ∧ hA.text = A ∧ hA.offsetTime = offA ∧ hB.text = B ∧ hB.offsetTime = offB
      ∧ u < v ∧ a2 + HOLD ≤ u ∧ u ≤ b1 ∧ b2 + HOLD ≤ v := by
  obtain ⟨hsA, hsB, hx⟩ := sorted_append _ _ hsort
  have htb1 : t ≤ b1 := hx _ (tx3_mem_last ..) _ (tx3_mem_first ..)
  obtain ⟨ha12, ha23, _, _, _⟩ := sorted_tx3 _ _ _ _ _ _ _ _ hsA
  obtain ⟨hb12, hb23, hpb1, hpb2, _⟩ := sorted_tx3 _ _ _ _ _ _ _ _ hsB
  obtain ⟨u, hA, hAt, hAo, _, hu1, hu2, houtA, hL⟩ :=
    first3 A offA a1 a2 a3 t b1 pa1 pa2 pa3 cA hsA ha31 hta htb1
  obtain ⟨S2, hB2, hBt, hBo, hBv, hrun, hh, hpend, hprev⟩ := second_held _ A B offA offB hA
    (u + HIST) (a2 + HIST) (a3 + HIST) b1 b2 pb1 cA cB hAB hAt hL (by omega) (by omega) hgap
    (by omega) hpb1
  obtain ⟨v, hB, hBt', hBo', hv, houtB⟩ := finish3 S2 B offB hB2 b1 b2 b3 t' pb2 pb3 cB hBt hBo hBv
    hh hpend hprev hb12 hb23 hb31 hpb2 htb
  refine ⟨u, v, hA, hB, ?_, hAt, hAo, hBt', hBo', ?_, hu1, hu2, hv⟩
  · rw [runOps_append_snd, houtA]
    have : (runOps (runOps {} (tx3 A a1 a2 a3 t pa1 pa2 pa3)).1 (tx3 B b1 b2 b3 t' pb1 pb2 pb3)).2
        = [(v, .ok (.som hB))] := by
      unfold tx3 at hrun ⊢
      rw [hrun]; exact houtB
    rw [this]; rfl
  · have := HOLD_pos; omega

/-- **G2 — one burst of each transmission lost** (whichever: the model sees two bursts, at
    `a1 ≤ a2 < a1 + HIST`).  Gap condition: `b1 < a1 + HIST` or `a2 + HIST ≤ b1`. -/
theorem two_transmissions_two_bursts_each (A B : List Byte) (offA offB a1 a2 t b1 b2 t' : Nat)
    (pa1 pa2 pb1 pb2 : List Nat)
    (cA : Canon A offA) (cB : Canon B offB) (hAB : A ≠ B)
    (hsort : Sorted (tx2 A a1 a2 t pa1 pa2 ++ tx2 B b1 b2 t' pb1 pb2))
    (ha21 : a2 < a1 + HIST) (hta : a2 + HOLD ≤ t)
    (hb21 : b2 < b1 + HIST) (htb : b2 + HOLD ≤ t')
    (hgap : b1 < a1 + HIST ∨ a2 + HIST ≤ b1) :
    ∃ u v hB,
      (runOps {} (tx2 A a1 a2 t pa1 pa2 ++ tx2 B b1 b2 t' pb1 pb2)).2
        = [(u, .ok (.som ⟨A, offA, 0, 0⟩)), (v, .ok (.som hB))]
      ∧ hB.text = B ∧ hB.offsetTime = offB
      ∧ u < v ∧ a2 + HOLD ≤ u ∧ u ≤ b1 ∧ b2 + HOLD ≤ v := by
  obtain ⟨hsA, hsB, hx⟩ := sorted_append _ _ hsort
  have htb1 : t ≤ b1 := hx _ (tx2_mem_last ..) _ (tx2_mem_first ..)
  obtain ⟨ha12, _, _⟩ := sorted_tx2 _ _ _ _ _ _ hsA
  obtain ⟨hb12, hpb1, _⟩ := sorted_tx2 _ _ _ _ _ _ hsB
  obtain ⟨u, hu1, hu2, houtA, hL⟩ := first2 A offA a1 a2 t b1 pa1 pa2 cA hsA ha21 hta htb1
  obtain ⟨S2, hB2, hBt, hBo, _, hrun, _, hpend, _⟩ := second_held _ A B offA offB ⟨A, offA, 0, 0⟩
    (u + HIST) (a1 + HIST) (a2 + HIST) b1 b2 pb1 cA cB hAB rfl hL (by omega) (by omega) hgap
    hb21 hpb1
  obtain ⟨v, hv, houtB⟩ := finish2 S2 hB2 b2 t' pb2 hpend htb
  refine ⟨u, v, hB2, ?_, hBt, hBo, ?_, hu1, hu2, hv⟩
  · rw [runOps_append_snd, houtA]
    have : (runOps (runOps {} (tx2 A a1 a2 t pa1 pa2)).1 (tx2 B b1 b2 t' pb1 pb2)).2
        = [(v, .ok (.som hB2))] := by
      unfold tx2 at hrun ⊢
      rw [hrun]; exact houtB
    rw [this]; rfl
  · have := HOLD_pos; omega

/-- G2, mixed: the first transmission complete, one burst of the second lost -/
theorem two_transmissions_three_two (A B : List Byte) (offA offB a1 a2 a3 t b1 b2 t' : Nat)
    (pa1 pa2 pa3 pb1 pb2 : List Nat)
    (cA : Canon A offA) (cB : Canon B offB) (hAB : A ≠ B)
    (hsort : Sorted (tx3 A a1 a2 a3 t pa1 pa2 pa3 ++ tx2 B b1 b2 t' pb1 pb2))
    (ha31 : a3 < a1 + HIST) (hta : a3 + HOLD ≤ t)
    (hb21 : b2 < b1 + HIST) (htb : b2 + HOLD ≤ t')
    (hgap : b1 < a2 + HIST ∨ a3 + HIST ≤ b1) :
    ∃ u v hA hB,
      (runOps {} (tx3 A a1 a2 a3 t pa1 pa2 pa3 ++ tx2 B b1 b2 t' pb1 pb2)).2
        = [(u, .ok (.som hA)), (v, .ok (.som hB))]
      ∧ hA.text = A ∧ hA.offsetTime = offA ∧ hB.text = B ∧ hB.offsetTime = offB
      ∧ u < v ∧ a2 + HOLD ≤ u ∧ u ≤ b1 ∧ b2 + HOLD ≤ v := by
  obtain ⟨hsA, hsB, hx⟩ := sorted_append _ _ hsort
  have htb1 : t ≤ b1 := hx _ (tx3_mem_last ..) _ (tx2_mem_first ..)
  obtain ⟨ha12, ha23, _, _, _⟩ := sorted_tx3 _ _ _ _ _ _ _ _ hsA
  obtain ⟨hb12, hpb1, _⟩ := sorted_tx2 _ _ _ _ _ _ hsB
  obtain ⟨u, hA, hAt, hAo, _, hu1, hu2, houtA, hL⟩ :=
    first3 A offA a1 a2 a3 t b1 pa1 pa2 pa3 cA hsA ha31 hta htb1
  obtain ⟨S2, hB2, hBt, hBo, _, hrun, _, hpend, _⟩ := second_held _ A B offA offB hA
    (u + HIST) (a2 + HIST) (a3 + HIST) b1 b2 pb1 cA cB hAB hAt hL (by omega) (by omega) hgap
    hb21 hpb1
  obtain ⟨v, hv, houtB⟩ := finish2 S2 hB2 b2 t' pb2 hpend htb
  refine ⟨u, v, hA, hB2, ?_, hAt, hAo, hBt, hBo, ?_, hu1, hu2, hv⟩
  · rw [runOps_append_snd, houtA]
    have : (runOps (runOps {} (tx3 A a1 a2 a3 t pa1 pa2 pa3)).1 (tx2 B b1 b2 t' pb1 pb2)).2
        = [(v, .ok (.som hB2))] := by
      unfold tx2
      rw [hrun]; exact houtB
    rw [this]; rfl
  · have := HOLD_pos; omega

/-- G2, mixed: one burst of the first transmission lost, the second complete -/
theorem two_transmissions_two_three (A B : List Byte) (offA offB a1 a2 t b1 b2 b3 t' : Nat)
    (pa1 pa2 pb1 pb2 pb3 : List Nat)
    (cA : Canon A offA) (cB : Canon B offB) (hAB : A ≠ B)
    (hsort : Sorted (tx2 A a1 a2 t pa1 pa2 ++ tx3 B b1 b2 b3 t' pb1 pb2 pb3))
    (ha21 : a2 < a1 + HIST) (hta : a2 + HOLD ≤ t)
    (hb31 : b3 < b1 + HIST) (htb : b3 + HOLD ≤ t')
    (hgap : b1 < a1 + HIST ∨ a2 + HIST ≤ b1) :
    ∃ u v hB,
      (runOps {} (tx2 A a1 a2 t pa1 pa2 ++ tx3 B b1 b2 b3 t' pb1 pb2 pb3)).2
        = [(u, .ok (.som ⟨A, offA, 0, 0⟩)), (v, .ok (.som hB))]
      ∧ hB.text = B ∧ hB.offsetTime = offB
      ∧ u < v ∧ a2 + HOLD ≤ u ∧ u ≤ b1 ∧ b2 + HOLD ≤ v := by
  obtain ⟨hsA, hsB, hx⟩ := sorted_append _ _ hsort
  have htb1 : t ≤ b1 := hx _ (tx2_mem_last ..) _ (tx3_mem_first ..)
  obtain ⟨ha12, _, _⟩ := sorted_tx2 _ _ _ _ _ _ hsA
  obtain ⟨hb12, hb23, hpb1, hpb2, _⟩ := sorted_tx3 _ _ _ _ _ _ _ _ hsB
  obtain ⟨u, hu1, hu2, houtA, hL⟩ := first2 A offA a1 a2 t b1 pa1 pa2 cA hsA ha21 hta htb1
  obtain ⟨S2, hB2, hBt, hBo, hBv, hrun, hh, hpend, hprev⟩ := second_held _ A B offA offB
    ⟨A, offA, 0, 0⟩ (u + HIST) (a1 + HIST) (a2 + HIST) b1 b2 pb1 cA cB hAB rfl hL (by omega)
    (by omega) hgap (by omega) hpb1
  obtain ⟨v, hB, hBt', hBo', hv, houtB⟩ := finish3 S2 B offB hB2 b1 b2 b3 t' pb2 pb3 cB hBt hBo hBv
    hh hpend hprev hb12 hb23 hb31 hpb2 htb
  refine ⟨u, v, hB, ?_, hBt', hBo', ?_, hu1, hu2, hv⟩
  · rw [runOps_append_snd, houtA]
    have : (runOps (runOps {} (tx2 A a1 a2 t pa1 pa2)).1 (tx3 B b1 b2 b3 t' pb1 pb2 pb3)).2
        = [(v, .ok (.som hB))] := by
      unfold tx3
      rw [hrun]; exact houtB
    rw [this]; rfl
  · have := HOLD_pos; omega

/-! ### 5b. the gap zone: exactly one burst of the first transmission still stored -/

/-- **G1 in the gap zone — the closest true statement.**  As `two_transmissions_in_order`, but the
    first burst `B` ends in `[a2 + HIST, a3 + HIST)`: exactly one burst `A` is still stored, and the
    two-burst vote over `A B` is an error (`hE`; for headers that differ before the end of the
    shorter one this is the usual case, see `gap_error_counterexample`).  The two messages are
    still each reported once and in order, but an *error* report comes between them if (and only
    if) a poll between the first two bursts `B` reaches `b1 + HOLD`. -/
theorem two_transmissions_gap_zone (A B : List Byte) (offA offB a1 a2 a3 t b1 b2 b3 t' : Nat)
    (pa1 pa2 pa3 pb1 pb2 pb3 : List Nat) (err : DecodeErr)
    (cA : Canon A offA) (cB : Canon B offB) (hAB : A ≠ B)
    (hE : combine MAXLEN [A, B] = some (.error err))
    (hsort : Sorted (tx3 A a1 a2 a3 t pa1 pa2 pa3 ++ tx3 B b1 b2 b3 t' pb1 pb2 pb3))
    (ha31 : a3 < a1 + HIST) (hta : a3 + HOLD ≤ t)
    (hb31 : b3 < b1 + HIST) (htb : b3 + HOLD ≤ t')
    (hz1 : a2 + HIST ≤ b1) (hz2 : b1 < a3 + HIST) :
    ∃ u v hA hB errs,
      (runOps {} (tx3 A a1 a2 a3 t pa1 pa2 pa3 ++ tx3 B b1 b2 b3 t' pb1 pb2 pb3)).2
        = (u, .ok (.som hA)) :: (errs ++ [(v, .ok (.som hB))])
      ∧ ((errs = [] ∧ ∀ p ∈ pb1, p < b1 + HOLD)
          ∨ ∃ p ∈ pb1, b1 + HOLD ≤ p ∧ errs = [(p, .error err)])
      ∧ hA.text = A ∧ hA.offsetTime = offA ∧ hB.text = B ∧ hB.offsetTime = offB
      ∧ u < v ∧ a2 + HOLD ≤ u ∧ u ≤ b1 ∧ b2 + HOLD ≤ v := by
  obtain ⟨hsA, hsB, hx⟩ := sorted_append _ _ hsort
  have htb1 : t ≤ b1 := hx _ (tx3_mem_last ..) _ (tx3_mem_first ..)
  obtain ⟨ha12, ha23, _, _, _⟩ := sorted_tx3 _ _ _ _ _ _ _ _ hsA
  obtain ⟨hb12, hb23, hpb1, hpb2, _⟩ := sorted_tx3 _ _ _ _ _ _ _ _ hsB
  obtain ⟨u, hA, hAt, hAo, _, hu1, hu2, houtA, hL⟩ :=
    first3 A offA a1 a2 a3 t b1 pa1 pa2 pa3 cA hsA ha31 hta htb1
  have hmt : (Msg.som hA).text = A := hAt
  obtain ⟨S2, hB2, errs, hBc, herrs, hrun, hh, hpend, hprev⟩ := second_mid_held _ A B (.som hA)
    (u + HIST) (a2 + HIST) (a3 + HIST) b1 b1 b2 err ⟨B, offB, specParity B A, specVoting B A⟩
    ⟨B, offB, 0, 0⟩ pb1 cB.nonempty cB.fit hL (Nat.le_refl _) hz1 hz2 hE (cB.xhh A) cB.two
    (by rw [hmt]; exact hAB) (by rw [hmt]; exact hAB) (by omega) hpb1
  have hBt : hB2.text = B := by rcases hBc with rfl | rfl <;> rfl
  have hBo : hB2.offsetTime = offB := by rcases hBc with rfl | rfl <;> rfl
  have hBv : hB2.voting ≤ B.length := by
    rcases hBc with rfl | rfl
    · simp only [specVoting]; omega
    · exact Nat.zero_le _
  obtain ⟨v, hB, hBt', hBo', hv, houtB⟩ := finish3 S2 B offB hB2 b1 b2 b3 t' pb2 pb3 cB hBt hBo hBv
    hh hpend (by intro p hp; rw [hprev p hp, hmt]; exact hAB) hb12 hb23 hb31 hpb2 htb
  refine ⟨u, v, hA, hB, errs, ?_, herrs, hAt, hAo, hBt', hBo', ?_, hu1, hu2, hv⟩
  · rw [runOps_append_snd, houtA]
    have : (runOps (runOps {} (tx3 A a1 a2 a3 t pa1 pa2 pa3)).1 (tx3 B b1 b2 b3 t' pb1 pb2 pb3)).2
        = errs ++ [(v, .ok (.som hB))] := by
      unfold tx3 at hrun ⊢
      rw [hrun]
      simp only
      rw [houtB]
    rw [this]; rfl
  · have := HOLD_pos; omega

/-- in the gap zone the *decoded* outputs are still exactly `A` then `B` -/
theorem two_transmissions_gap_zone_decoded (A B : List Byte) (offA offB a1 a2 a3 t b1 b2 b3 t' : Nat)
    (pa1 pa2 pa3 pb1 pb2 pb3 : List Nat) (err : DecodeErr)
    (cA : Canon A offA) (cB : Canon B offB) (hAB : A ≠ B)
    (hE : combine MAXLEN [A, B] = some (.error err))
    (hsort : Sorted (tx3 A a1 a2 a3 t pa1 pa2 pa3 ++ tx3 B b1 b2 b3 t' pb1 pb2 pb3))
    (ha31 : a3 < a1 + HIST) (hta : a3 + HOLD ≤ t)
    (hb31 : b3 < b1 + HIST) (htb : b3 + HOLD ≤ t')
    (hz1 : a2 + HIST ≤ b1) (hz2 : b1 < a3 + HIST) :
    ∃ u v hA hB,
      okOutputs (runOps {} (tx3 A a1 a2 a3 t pa1 pa2 pa3 ++ tx3 B b1 b2 b3 t' pb1 pb2 pb3)).2
        = [(u, .som hA), (v, .som hB)]
      ∧ hA.text = A ∧ hB.text = B ∧ u < v := by
  obtain ⟨u, v, hA, hB, errs, hout, herrs, hAt, _, hBt, _, huv, _⟩ :=
    two_transmissions_gap_zone A B offA offB a1 a2 a3 t b1 b2 b3 t' pa1 pa2 pa3 pb1 pb2 pb3 err
      cA cB hAB hE hsort ha31 hta hb31 htb hz1 hz2
  refine ⟨u, v, hA, hB, ?_, hAt, hBt, huv⟩
  rw [hout]
  rcases herrs with ⟨rfl, _⟩ | ⟨p, _, _, rfl⟩ <;> rfl

/-! ### 6. G3: the same header again — inside the window, after the window -/

theorem tx3_bursts (H : List Byte) (t1 t2 t3 t : Nat) (p1 p2 p3 : List Nat) (op : AOp)
    (hop : op ∈ tx3 H t1 t2 t3 t p1 p2 p3) (b : List Byte) (τ : Nat) (hb : op = .burst b τ) :
    b = H ∧ (τ = t1 ∨ τ = t2 ∨ τ = t3) := by
  subst hb
  simp only [tx3, List.mem_cons, List.mem_append, List.mem_map, AOp.burst.injEq, reduceCtorEq,
    and_false, exists_false, false_or, List.not_mem_nil, or_false] at hop
  rcases hop with ⟨rfl, rfl⟩ | ⟨rfl, rfl⟩ | ⟨rfl, rfl⟩ <;> simp

/-- **G3(a), general form — repeats inside the window are suppressed.**  Three bursts `A` from the
    initial state are reported once, at some tick `u`.  Whatever follows — polls at any times and
    any number of further bursts `A`, each ending before `u + HIST`, in any order — adds nothing:
    the run still outputs exactly that one StartOfMessage. -/
theorem repeats_in_window_suppressed (A : List Byte) (offA a1 a2 a3 t : Nat) (pa1 pa2 pa3 : List Nat)
    (cA : Canon A offA) (hsort : Sorted (tx3 A a1 a2 a3 t pa1 pa2 pa3))
    (ha31 : a3 < a1 + HIST) (hta : a3 + HOLD ≤ t) :
    ∃ u hA, hA.text = A ∧ hA.offsetTime = offA ∧ a2 + HOLD ≤ u ∧ u ≤ t
      ∧ (runOps {} (tx3 A a1 a2 a3 t pa1 pa2 pa3)).2 = [(u, .ok (.som hA))]
      ∧ ∀ ops : List AOp, (∀ op ∈ ops, ∀ b τ, op = .burst b τ → b = A ∧ τ < u + HIST) →
          (runOps {} (tx3 A a1 a2 a3 t pa1 pa2 pa3 ++ ops)).2 = [(u, .ok (.som hA))] := by
  obtain ⟨u, hA, hAt, hAo, _, hu1, hu2, houtA, hL⟩ :=
    first3 A offA a1 a2 a3 t t pa1 pa2 pa3 cA hsort ha31 hta (Nat.le_refl _)
  refine ⟨u, hA, hAt, hAo, hu1, hu2, houtA, ?_⟩
  intro ops hops
  have hmt : (Msg.som hA).text = A := hAt
  obtain ⟨hq, _⟩ := run_all_suppressed A (.som hA) (u + HIST) ⟨A, offA, 0, 0⟩ ⟨A, offA, 0, A.length⟩
    cA.nonempty cA.fit cA.one cA.two cA.three hmt hmt ops _ hops hL.pending hL.previous
    (by
      intro e he
      have := hL.sub e he
      simp only [List.mem_cons, List.not_mem_nil, or_false] at this
      rcases this with rfl | rfl <;> rfl)
  rw [runOps_append_snd, houtA, hq]
  rfl

/-- **G3 — the same header transmitted twice, three bursts each.**  `u` is the tick of the first
    report (`a2 + HOLD ≤ u ≤ t ≤ b1`); the duplicate record lives until `u + HIST`.
    (a) If the last burst of the second transmission ends before the record expires
        (`b3 < u + HIST`), the run outputs exactly one StartOfMessage.
    (b) If the first burst of the second transmission ends after the record has expired
        (`u + HIST ≤ b1`) and after the stored bursts of the first transmission have
        (`a3 + HIST ≤ b1`), the run outputs exactly two StartOfMessages with text `A`. -/
theorem same_header_twice (A : List Byte) (offA a1 a2 a3 t b1 b2 b3 t' : Nat)
    (pa1 pa2 pa3 pb1 pb2 pb3 : List Nat) (cA : Canon A offA)
    (hsort : Sorted (tx3 A a1 a2 a3 t pa1 pa2 pa3 ++ tx3 A b1 b2 b3 t' pb1 pb2 pb3))
    (ha31 : a3 < a1 + HIST) (hta : a3 + HOLD ≤ t)
    (hb31 : b3 < b1 + HIST) (htb : b3 + HOLD ≤ t') :
    ∃ u hA, hA.text = A ∧ hA.offsetTime = offA ∧ a2 + HOLD ≤ u ∧ u ≤ b1
      ∧ (runOps {} (tx3 A a1 a2 a3 t pa1 pa2 pa3)).2 = [(u, .ok (.som hA))]
      ∧ (b3 < u + HIST →
          (runOps {} (tx3 A a1 a2 a3 t pa1 pa2 pa3 ++ tx3 A b1 b2 b3 t' pb1 pb2 pb3)).2
            = [(u, .ok (.som hA))])
      ∧ (u + HIST ≤ b1 → a3 + HIST ≤ b1 → ∃ v hA',
          (runOps {} (tx3 A a1 a2 a3 t pa1 pa2 pa3 ++ tx3 A b1 b2 b3 t' pb1 pb2 pb3)).2
            = [(u, .ok (.som hA)), (v, .ok (.som hA'))]
          ∧ hA'.text = A ∧ hA'.offsetTime = offA ∧ b2 + HOLD ≤ v) := by
  obtain ⟨hsA, hsB, hx⟩ := sorted_append _ _ hsort
  have htb1 : t ≤ b1 := hx _ (tx3_mem_last ..) _ (tx3_mem_first ..)
  obtain ⟨hb12, hb23, hpb1, hpb2, _⟩ := sorted_tx3 _ _ _ _ _ _ _ _ hsB
  obtain ⟨u, hA, hAt, hAo, _, hu1, hu2, houtA, hL⟩ :=
    first3 A offA a1 a2 a3 t b1 pa1 pa2 pa3 cA hsA ha31 hta htb1
  have hmt : (Msg.som hA).text = A := hAt
  refine ⟨u, hA, hAt, hAo, hu1, hu2, houtA, ?_, ?_⟩
  · intro hin
    obtain ⟨hq, _⟩ := run_all_suppressed A (.som hA) (u + HIST) ⟨A, offA, 0, 0⟩
      ⟨A, offA, 0, A.length⟩ cA.nonempty cA.fit cA.one cA.two cA.three hmt hmt
      (tx3 A b1 b2 b3 t' pb1 pb2 pb3) _
      (by
        intro op hop b τ hb
        obtain ⟨h1, h2⟩ := tx3_bursts _ _ _ _ _ _ _ _ op hop b τ hb
        refine ⟨h1, ?_⟩
        rcases h2 with rfl | rfl | rfl <;> omega)
      hL.pending hL.previous
      (by
        intro e he
        have := hL.sub e he
        simp only [List.mem_cons, List.not_mem_nil, or_false] at this
        rcases this with rfl | rfl <;> rfl)
    rw [runOps_append_snd, houtA, hq]
    rfl
  · intro hrec hbur
    obtain ⟨ha12, ha23, _⟩ := sorted_tx3 _ _ _ _ _ _ _ _ hsA
    rw [runOps_append_snd, houtA]
    generalize (runOps {} (tx3 A a1 a2 a3 t pa1 pa2 pa3)).1 = S at hL
    have hexp : pruneHistory S.history b1 = [] := by
      rw [hL.hist b1 (Nat.le_refl _)]
      apply pruneHistory_expired
      intro e he
      simp only [List.mem_cons, List.not_mem_nil, or_false] at he
      rcases he with rfl | rfl <;> simp only <;> omega
    have hpp : prunePrevious S.previous b1 = none := by
      rw [hL.previous]
      simp [prunePrevious, Timed.expiredAt, hrec]
    have hB := C02.three_bursts_report_exact (AState.mk [] S.pending (prunePrevious S.previous b1))
      A offA b1 b2 b3 t' pb1 pb2 pb3 cA.allowed cA.parse cA.fit rfl hL.pending
      (by intro p hp; rw [hpp] at hp; cases hp) hb12 hb23 hb31 hpb1 hpb2 htb
    have hrun : ∀ ops, runOps S (.burst A b1 :: ops)
        = runOps (AState.mk [] S.pending (prunePrevious S.previous b1)) (.burst A b1 :: ops) :=
      fun ops => runOps_burst_expired S A b1 ops cA.nonempty hexp
    unfold tx3
    rw [hrun]
    rcases hB with ⟨v, _, hv, ho⟩ | ⟨_, v, _, hv, ho⟩
    · refine ⟨v, ⟨A, offA, 0, 0⟩, ?_, rfl, rfl, hv⟩
      rw [ho]; rfl
    · refine ⟨v, ⟨A, offA, 0, A.length⟩, ?_, rfl, rfl, by omega⟩
      rw [ho]; rfl

/-! ### 7. G4: reports follow the burst log -/

section FollowLog
open SameVerif.AsmPos

/-- **The output ticks never decrease.** -/
theorem output_times_nondecreasing (ops : List AOp) (hsort : Sorted ops) :
    ((runOps {} ops).2.map (·.1)).Pairwise (· ≤ ·) := by
  have h : (ops.map AOp.time).Pairwise (· ≤ ·) := List.pairwise_map.mpr hsort
  exact h.sublist (out_times_sublist ops {})

/-- **G4 — reports follow the burst log.**  Run any operations in time order from the initial state;
    `burstLog ops` lists the non-empty bursts received (clipped to the burst buffer).  The outputs
    can be matched, one by one and in order, with positions `e₁ < e₂ < …` of the burst log such that
    the `i`-th output is `combine` of a run of at most three consecutive bursts ending with burst
    number `eᵢ`.  The positions are *strictly* increasing: no two reports rest on runs with the same
    last burst, and a later report never rests on an earlier-ending run. -/
theorem reports_follow_burst_log (ops : List AOp) (hsort : Sorted ops) :
    ∃ ends : List Nat, Matches (burstLog ops) (runOps {} ops).2 ends ∧ ends.Pairwise (· < ·) := by
  obtain ⟨ends, hm, hpw, _⟩ := run_matches ops {} [] 0 0 hsort (fun _ _ => Nat.zero_le _) inv_init
    (pendPos_of_none _ _ _ rfl) (Nat.le_refl _)
  rw [List.nil_append] at hm
  exact ⟨ends, hm, hpw⟩

/-- the number of outputs never exceeds the number of bursts received -/
theorem outputs_le_bursts (ops : List AOp) (hsort : Sorted ops) :
    (runOps {} ops).2.length ≤ (burstLog ops).length := by
  obtain ⟨ends, hm, hpw, hpos⟩ := run_matches ops {} [] 0 0 hsort (fun _ _ => Nat.zero_le _) inv_init
    (pendPos_of_none _ _ _ rfl) (Nat.le_refl _)
  rw [List.nil_append] at hm
  -- strictly increasing positive positions, each at most the log length
  have hlen : ∀ (outs : List (Nat × MsgResult)) (ends : List Nat),
      Matches (burstLog ops) outs ends → outs.length = ends.length ∧ ∀ e ∈ ends, e ≤ (burstLog ops).length := by
    intro outs ends h
    induction h with
    | nil => exact ⟨rfl, by simp⟩
    | cons h1 _ ih =>
      obtain ⟨r, hr, _⟩ := h1
      refine ⟨by simp [ih.1], ?_⟩
      intro e he
      rcases List.mem_cons.mp he with rfl | he
      · exact hr.le
      · exact ih.2 e he
  have hinc : ∀ (ends : List Nat) (k : Nat), ends.Pairwise (· < ·) → (∀ e ∈ ends, k < e) →
      ∀ n, (∀ e ∈ ends, e ≤ n) → ends.length ≤ n - k := by
    intro ends
    induction ends with
    | nil => intro k _ _ n _; simp
    | cons a l ih =>
      intro k hp hk n hn
      have hp' := List.pairwise_cons.mp hp
      have := ih a hp'.2 hp'.1 n (fun e he => hn e (by simp [he]))
      have := hk a (by simp)
      have := hn a (by simp)
      simp only [List.length_cons]
      omega
  obtain ⟨h1, h2⟩ := hlen _ _ hm
  have := hinc ends 0 hpw hpos _ h2
  omega

/-- **G4 for two reports.**  If the output `(v, oB)` comes after the output `(u, oA)`, then
    `u ≤ v`, and there are runs `rA`, `rB` of at most three consecutive bursts of the burst log with
    `combine rA = oA`, `combine rB = oB` such that `rB` ends strictly later in the log than `rA`. -/
theorem reports_in_log_order (ops : List AOp) (hsort : Sorted ops)
    (pre mid post : List (Nat × MsgResult)) (u v : Nat) (oA oB : MsgResult)
    (hout : (runOps {} ops).2 = pre ++ (u, oA) :: (mid ++ (v, oB) :: post)) :
    u ≤ v ∧ ∃ rA rB eA eB, RunEndsAt rA (burstLog ops) eA ∧ RunEndsAt rB (burstLog ops) eB
      ∧ combine MAXLEN rA = some oA ∧ combine MAXLEN rB = some oB ∧ eA < eB := by
  constructor
  · have h := output_times_nondecreasing ops hsort
    rw [hout] at h
    simp only [List.map_append, List.map_cons] at h
    have h2 := (List.pairwise_cons.mp (List.pairwise_append.mp h).2.1).1
    exact h2 v (by simp)
  · obtain ⟨ends, hm, hpw⟩ := reports_follow_burst_log ops hsort
    rw [hout] at hm
    obtain ⟨e1, eA, e2, rfl, _, hm2, rA, hrA, hcA⟩ := matches_split _ _ _ _ _ hm
    obtain ⟨e3, eB, e4, rfl, _, _, rB, hrB, hcB⟩ := matches_split _ _ _ _ _ hm2
    refine ⟨rA, rB, eA, eB, hrA, hrB, hcA, hcB, ?_⟩
    have h2 := (List.pairwise_cons.mp (List.pairwise_append.mp hpw).2.1).1
    exact h2 eB (by simp)

/-- **G4 for two StartOfMessages**, with the evidence of C04: each run holds two or three bursts
    and supports every byte of its header; the run supporting the later report ends strictly later
    in the burst log. -/
theorem som_reports_in_log_order (ops : List AOp) (hsort : Sorted ops)
    (pre mid post : List (Nat × MsgResult)) (u v : Nat) (hA hB : Header)
    (hout : (runOps {} ops).2 = pre ++ (u, .ok (.som hA)) :: (mid ++ (v, .ok (.som hB)) :: post)) :
    u ≤ v ∧ ∃ rA rB eA eB, RunEndsAt rA (burstLog ops) eA ∧ RunEndsAt rB (burstLog ops) eB
      ∧ IsRun rA (burstLog ops) ∧ IsRun rB (burstLog ops)
      ∧ combine MAXLEN rA = some (.ok (.som hA)) ∧ combine MAXLEN rB = some (.ok (.som hB))
      ∧ 2 ≤ rA.length ∧ 2 ≤ rB.length
      ∧ (∀ (i : Nat) (hi : i < hA.text.length), SupportsByte rA i hA.text[i])
      ∧ (∀ (i : Nat) (hi : i < hB.text.length), SupportsByte rB i hB.text[i])
      ∧ eA < eB := by
  obtain ⟨huv, rA, rB, eA, eB, hrA, hrB, hcA, hcB, hlt⟩ :=
    reports_in_log_order ops hsort pre mid post u v _ _ hout
  obtain ⟨a1, a2⟩ := C04.run_supports rA hA hrA.1 hcA
  obtain ⟨b1, b2⟩ := C04.run_supports rB hB hrB.1 hcB
  exact ⟨huv, rA, rB, eA, eB, hrA, hrB, hrA.isRun, hrB.isRun, hcA, hcB, a1, b1, a2, b2, hlt⟩

end FollowLog

/-! ### 8. what is false: the gap hypotheses matter -/

/-- "ZCZC-WXR-RWE-012345+0030-1231200-sz2-": `C02.shortCallHeader` with the event code `RWE` -/
def shortCallHeaderE : List Byte :=
  [90, 67, 90, 67, 45, 87, 88, 82, 45, 82, 87, 69, 45, 48, 49, 50, 51, 52, 53, 43, 48, 48, 51, 48, 45,
   49, 50, 51, 49, 50, 48, 48, 45, 115, 122, 50, 45]

theorem shortCallHeaderE_canonical :
    checkHeader shortCallHeaderE = some (19, shortCallHeaderE.length)
      ∧ shortCallHeaderE.all isAllowed = true ∧ shortCallHeaderE.length = 37
      ∧ C02.shortCallHeader ≠ shortCallHeaderE := by
  decide +kernel

theorem canon_short : Canon C02.shortCallHeader 19 := by
  have hc := C02.shortCallHeader_canonical
  exact ⟨fun b hb => List.all_eq_true.mp hc.2.1 b hb, hc.1, by rw [hc.2.2]; decide⟩

theorem canon_shortE : Canon shortCallHeaderE 19 := by
  have hc := shortCallHeaderE_canonical
  exact ⟨fun b hb => List.all_eq_true.mp hc.2.1 b hb, hc.1, by rw [hc.2.2.1]; decide⟩

/-- **Counterexample (gap zone): an error report between the two messages.**  Transmission `A`
    (bursts ending at 1000, 1950, 2900) is released at 3600.  The first burst of `B` ends at 8000:
    `a2 + HIST = 7602 ≤ 8000 < 8552 = a3 + HIST`, so exactly one burst `A` is still stored.  The
    vote over `A B` stops at the first differing byte and the remaining prefix does not parse: an
    *error* is held, and a poll at `8700 ≥ b1 + HOLD` — before the second burst `B` — outputs it.
    Outputs: `A`, `Err(malformed)`, `B`. -/
theorem gap_error_counterexample :
    (runOps {} (tx3 C02.shortCallHeader 1000 1950 2900 3600 [] [] []
        ++ tx3 shortCallHeaderE 8000 8950 9900 10600 [8700] [] [])).2
      = [(3600, .ok (.som ⟨C02.shortCallHeader, 19, 0, 37⟩)), (8700, .error .malformed),
         (10600, .ok (.som ⟨shortCallHeaderE, 19, 0, 37⟩))]
    ∧ Sorted (tx3 C02.shortCallHeader 1000 1950 2900 3600 [] [] []
        ++ tx3 shortCallHeaderE 8000 8950 9900 10600 [8700] [] [])
    ∧ 2900 + HOLD ≤ 3600 ∧ 1950 + HIST ≤ 8000 ∧ 8000 < 2900 + HIST := by
  unfold Sorted
  decide +kernel

/-- `shortCallHeader` followed by `?` `-` and by a slash and `-`: two canonical headers whose common
    prefix (callsign `sz2`) is itself a canonical header (the callsign field is matched greedily,
    cf. F7) -/
def phantomA : List Byte := C02.shortCallHeader ++ [63, 45]
def phantomB : List Byte := C02.shortCallHeader ++ [47, 45]

/-- **Counterexample (gap zone): a header that was never transmitted.**  Same schedule; the vote
    over `A B` is the common prefix, which parses: the 37-byte header "…-sz2-" is reported between
    `A` and `B` although no transmission carried it. -/
theorem gap_phantom_counterexample :
    (checkHeader phantomA = some (19, phantomA.length) ∧ phantomA.all isAllowed = true)
    ∧ (checkHeader phantomB = some (19, phantomB.length) ∧ phantomB.all isAllowed = true)
    ∧ (runOps {} (tx3 phantomA 1000 1950 2900 3600 [] [] []
        ++ tx3 phantomB 8000 8950 9900 10600 [8700] [] [])).2
      = [(3600, .ok (.som ⟨phantomA, 19, 0, 39⟩)), (8700, .ok (.som ⟨C02.shortCallHeader, 19, 0, 0⟩)),
         (10600, .ok (.som ⟨phantomB, 19, 0, 39⟩))] := by
  decide +kernel

/-- **Counterexample (no poll before the next transmission): the first message is lost.**
    `a3 + HOLD = 3582 ≤ 3700 = b1`, but no call polls the assembler in between.  The vote `A A B`
    reads `A` with as many voted bytes as the held `A` and *replaces* it (new deadline
    `b1 + HOLD`); the vote `A B B` then replaces that by `B` (F8).  Only `B` is ever output. -/
theorem no_poll_first_lost_counterexample :
    (runOps {} [.burst C02.shortCallHeader 1000, .burst C02.shortCallHeader 1950,
                .burst C02.shortCallHeader 2900,
                .burst shortCallHeaderE 3700, .poll 3800, .burst shortCallHeaderE 4650,
                .burst shortCallHeaderE 5600, .poll 6400]).2
      = [(6400, .ok (.som ⟨shortCallHeaderE, 19, 0, 37⟩))]
    ∧ 2900 + HOLD ≤ 3700 := by
  decide +kernel

/-- **The window condition of G3(a) is sharp.**  `A` is reported at `u = 3600`; the record lives
    until `u + HIST = 9252`.  The repeat's first two bursts (7400, 8350) are suppressed, its third
    ends at `9300 ≥ 9252`: the record is gone, the vote over the three new bursts passes, and `A`
    is reported again. -/
theorem repeat_straddling_window_reported :
    (runOps {} (tx3 C02.shortCallHeader 1000 1950 2900 3600 [] [] []
        ++ tx3 C02.shortCallHeader 7400 8350 9300 10000 [] [] [])).2
      = [(3600, .ok (.som ⟨C02.shortCallHeader, 19, 0, 37⟩)),
         (10000, .ok (.som ⟨C02.shortCallHeader, 19, 0, 37⟩))]
    ∧ 3600 + HIST ≤ 9300 ∧ 8350 < 3600 + HIST := by
  decide +kernel

/-! ### 9. the hypotheses are satisfiable -/

/-- G1 on two concrete headers, the second transmission one second after the first was released
    (`b1 = 3700 < a2 + HIST`): by the general theorem -/
theorem two_transmissions_example_near :
    ∃ u v hA hB,
      (runOps {} (tx3 C02.shortCallHeader 1000 1950 2900 3600 [1500] [2000] [3000]
        ++ tx3 shortCallHeaderE 3700 4650 5600 6400 [3800] [4700, 5400] [5700])).2
        = [(u, .ok (.som hA)), (v, .ok (.som hB))]
      ∧ hA.text = C02.shortCallHeader ∧ hA.offsetTime = 19
      ∧ hB.text = shortCallHeaderE ∧ hB.offsetTime = 19
      ∧ u < v ∧ 1950 + HOLD ≤ u ∧ u ≤ 3700 ∧ 4650 + HOLD ≤ v :=
  two_transmissions_in_order C02.shortCallHeader shortCallHeaderE 19 19 1000 1950 2900 3600
    3700 4650 5600 6400 [1500] [2000] [3000] [3800] [4700, 5400] [5700] canon_short canon_shortE
    shortCallHeaderE_canonical.2.2.2 (by unfold Sorted; decide +kernel) (by decide) (by decide)
    (by decide) (by decide) (Or.inl (by decide))

/-- the same run evaluated: `A` at 3600 (fully voted), `B` at 5400 — the poll at
    `5400 ≥ b2 + HOLD` releases the two-of-three vote `A B B` (two disputed bits) before the third
    burst `B` arrives, which is then suppressed -/
theorem two_transmissions_example_near_eval :
    (runOps {} (tx3 C02.shortCallHeader 1000 1950 2900 3600 [1500] [2000] [3000]
        ++ tx3 shortCallHeaderE 3700 4650 5600 6400 [3800] [4700, 5400] [5700])).2
      = [(3600, .ok (.som ⟨C02.shortCallHeader, 19, 0, 37⟩)),
         (5400, .ok (.som ⟨shortCallHeaderE, 19, 2, 37⟩))] := by
  decide +kernel

/-- G1 with the second transmission after the stored bursts have expired (`a3 + HIST ≤ b1`) -/
theorem two_transmissions_example_far :
    ∃ u v hA hB,
      (runOps {} (tx3 C02.shortCallHeader 1000 1950 2900 3600 [] [] []
        ++ tx3 shortCallHeaderE 9000 9950 10900 11600 [] [] [])).2
        = [(u, .ok (.som hA)), (v, .ok (.som hB))]
      ∧ hA.text = C02.shortCallHeader ∧ hA.offsetTime = 19
      ∧ hB.text = shortCallHeaderE ∧ hB.offsetTime = 19
      ∧ u < v ∧ 1950 + HOLD ≤ u ∧ u ≤ 9000 ∧ 9950 + HOLD ≤ v :=
  two_transmissions_in_order C02.shortCallHeader shortCallHeaderE 19 19 1000 1950 2900 3600
    9000 9950 10900 11600 [] [] [] [] [] [] canon_short canon_shortE
    shortCallHeaderE_canonical.2.2.2 (by unfold Sorted; decide +kernel) (by decide) (by decide)
    (by decide) (by decide) (Or.inr (by decide))

/-- G3 instantiated: the hypotheses of `same_header_twice` are satisfiable -/
theorem same_header_twice_instance :
    ∃ u hA, hA.text = C02.shortCallHeader ∧ hA.offsetTime = 19 ∧ 1950 + HOLD ≤ u ∧ u ≤ 9300
      ∧ (runOps {} (tx3 C02.shortCallHeader 1000 1950 2900 3600 [] [] [])).2 = [(u, .ok (.som hA))]
      ∧ (11200 < u + HIST →
          (runOps {} (tx3 C02.shortCallHeader 1000 1950 2900 3600 [] [] []
            ++ tx3 C02.shortCallHeader 9300 10250 11200 11900 [] [] [])).2 = [(u, .ok (.som hA))])
      ∧ (u + HIST ≤ 9300 → 2900 + HIST ≤ 9300 → ∃ v hA',
          (runOps {} (tx3 C02.shortCallHeader 1000 1950 2900 3600 [] [] []
            ++ tx3 C02.shortCallHeader 9300 10250 11200 11900 [] [] [])).2
            = [(u, .ok (.som hA)), (v, .ok (.som hA'))]
          ∧ hA'.text = C02.shortCallHeader ∧ hA'.offsetTime = 19 ∧ 10250 + HOLD ≤ v) :=
  same_header_twice C02.shortCallHeader 19 1000 1950 2900 3600 9300 10250 11200 11900
    [] [] [] [] [] [] canon_short (by unfold Sorted; decide +kernel) (by decide) (by decide)
    (by decide) (by decide)

/-- the gap-zone theorem on the schedule of `gap_error_counterexample`, by the general theorem -/
theorem two_transmissions_gap_zone_example :
    ∃ u v hA hB errs,
      (runOps {} (tx3 C02.shortCallHeader 1000 1950 2900 3600 [] [] []
        ++ tx3 shortCallHeaderE 8000 8950 9900 10600 [8700] [] [])).2
        = (u, .ok (.som hA)) :: (errs ++ [(v, .ok (.som hB))])
      ∧ ((errs = [] ∧ ∀ p ∈ [8700], p < 8000 + HOLD)
          ∨ ∃ p ∈ [8700], 8000 + HOLD ≤ p ∧ errs = [(p, .error .malformed)])
      ∧ hA.text = C02.shortCallHeader ∧ hA.offsetTime = 19
      ∧ hB.text = shortCallHeaderE ∧ hB.offsetTime = 19
      ∧ u < v ∧ 1950 + HOLD ≤ u ∧ u ≤ 8000 ∧ 8950 + HOLD ≤ v :=
  two_transmissions_gap_zone C02.shortCallHeader shortCallHeaderE 19 19 1000 1950 2900 3600
    8000 8950 9900 10600 [] [] [] [8700] [] [] .malformed canon_short canon_shortE
    shortCallHeaderE_canonical.2.2.2 (by decide +kernel) (by unfold Sorted; decide +kernel)
    (by decide) (by decide) (by decide) (by decide) (by decide) (by decide)

/-- G3 on a concrete header: both branches are reachable -/
theorem same_header_twice_example :
    (runOps {} (tx3 C02.shortCallHeader 1000 1950 2900 3600 [] [] []
        ++ tx3 C02.shortCallHeader 5000 5950 6900 7600 [] [] [])).2
      = [(3600, .ok (.som ⟨C02.shortCallHeader, 19, 0, 37⟩))]
    ∧ (runOps {} (tx3 C02.shortCallHeader 1000 1950 2900 3600 [] [] []
        ++ tx3 C02.shortCallHeader 9300 10250 11200 11900 [] [] [])).2
      = [(3600, .ok (.som ⟨C02.shortCallHeader, 19, 0, 37⟩)),
         (11900, .ok (.som ⟨C02.shortCallHeader, 19, 0, 37⟩))]
    ∧ 6900 < 3600 + HIST ∧ 3600 + HIST ≤ 9300 ∧ 2900 + HIST ≤ 9300 := by
  decide +kernel

end SameVerif.C05seq
