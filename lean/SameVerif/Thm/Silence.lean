/-
  Silence returns the receiver to idle, and `flush()` releases a pending message — with the DSP
  INSIDE the model (`Model/FullRx.lean`), over the rationals.

  Until now the theorems about `flush()` (Thm/C14.lean) and about silence (Thm/C10.lean) ASSUMED what
  the float front end does on zero samples ("ticks keep coming at the nominal rate", "the power falls
  below the thresholds").  Here these are PROVED for the whole-receiver model with `F = Rat`
  (exact real-number semantics; nothing is claimed about `Float32` rounding), for an ARBITRARY
  `hypot` (only `x - x = 0` is used).

  Z1  `dc_zeros`            the DC blocker forgets: after `2 * len` zeros its state is all-zero, output `0`
  Z2  `front_zeros`         after `2 * dcLen + max 1 mark.length` zeros the front end is empty: AGC output
                            `0`, low-rate samples `0`, soft symbols `0`, estimates `⟨0, 0, 0⟩`
  Z3  `tick_spacing`        ANY input: every `G ≥ 2·periodMax + 2·A + 5/2` consecutive samples contain a
                            symbol tick (`zeros_tick_spacing`: the instance for zeros)
  Z4  `power_decays`, `power_le_one`, `power_below_close`, `default_decay`
  Z5  `zeros_link_idle`, `idle_stays_idle`
  Z6  `flush_from_idle'`, `flush_releases_pending` (what is pending once the receiver has drained),
      `flush_releases_pending_of_no_burst` (what is pending at the START, if the drain reports no burst),
      `flush_budget`; `FlushReleasesPending` (NOT claimed: the case of a frame in progress)

  The invariant `SilInv` (Lemmas/SilenceFacts.lean) holds of every receiver `FullRx.new` builds with
  `0 ≤ sps`, `agcMin ≤ agcMax` (`silInv_new`) and is kept by every sample of any input (`sample_keeps_inv`):
  it is the "reachable" of the statements.

  Finding: Thm/C10.lean cannot be imported here (Lemmas/LinkInv.lean and Lemmas/LinkRun.lean both declare
  `SameVerif.lrunState_append`, `quiet_run`, …); `no_wedge` and its invariant are ported in
  Lemmas/SilenceFacts.lean (`SilenceAux.no_wedge`, `SilenceAux.LinkInv`, same statements).
-/
import SameVerif.Lemmas.SilenceFacts

namespace SameVerif.SilenceThm

open SameVerif SameVerif.Dsp Arith

/-! ## Z1 the DC blocker on zeros -/

/-- the invariant behind `movavg_exact` ("both running sums are the window sums, both windows have
    length `len`") holds of every DC blocker reachable from `new` by inputs and resets -/
theorem dc_good_reachable {len : Nat} {d0 : DcBlock Rat} (h : DcBlock.new len = some d0)
    (xs : List (Option Rat)) :
    ∃ d outs, dcRun d0 xs = some (d, outs) ∧ MovGood len d.ff ∧ MovGood len d.fb := by
  have hl : 0 < len := (dcInv_new h).1
  rw [dc_new_some hl] at h; cases h
  have hg : MovGood len (⟨List.replicate len zero, div one (ofNat len), zero⟩ : MovAvg Rat) :=
    ⟨by simp, by simp [sum_replicate_rat, Rat.mul_zero], rfl⟩
  suffices hs : ∀ (xs : List (Option Rat)) (d : DcBlock Rat), MovGood len d.ff → MovGood len d.fb →
      ∃ d' outs, dcRun d xs = some (d', outs) ∧ MovGood len d'.ff ∧ MovGood len d'.fb from
    hs xs _ hg hg
  intro xs
  induction xs with
  | nil => intro d h1 h2; exact ⟨d, [], rfl, h1, h2⟩
  | cons x xs ih =>
    intro d h1 h2
    cases x with
    | none =>
      have hr : d.reset = ⟨⟨List.replicate len zero, div one (ofNat len), zero⟩,
          ⟨List.replicate len zero, div one (ofNat len), zero⟩⟩ :=
        dcInv_reset_eq ⟨h1.length, h2.length, h1.inv, h2.inv⟩
      obtain ⟨d', outs, e, g⟩ := ih d.reset (by rw [hr]; exact hg) (by rw [hr]; exact hg)
      exact ⟨d', outs, by simpa [dcRun] using e, g⟩
    | some x =>
      obtain ⟨d1, y, e1, g1, g2⟩ := dcGood_filter h1 h2 hl x
      obtain ⟨d', outs, e2, g⟩ := ih d1 g1 g2
      exact ⟨d', y :: outs, by simp [dcRun, e1, e2], g⟩

/-- **Z1.**  From ANY state with exact running sums and windows of length `len ≥ 1`: `k ≥ 2 * len` zero
    samples never panic, every output from the `2 * len`-th on is `0`, and the final state is the
    all-zero state (windows zero, sums zero). -/
theorem dc_zeros {len : Nat} {d : DcBlock Rat} (hl : 0 < len) (h1 : MovGood len d.ff)
    (h2 : MovGood len d.fb) (k : Nat) (hk : 2 * len ≤ k) :
    ∃ d' outs, dcRun d (List.replicate k (some 0)) = some (d', outs) ∧ outs.length = k ∧
      (∀ i, 2 * len - 1 ≤ i → i < k → outs[i]? = some 0) ∧ DcZero len d' := by
  suffices hs : ∀ (k j : Nat) (d : DcBlock Rat), DcZ len j d →
      ∃ d' outs, dcRun d (List.replicate k (some 0)) = some (d', outs) ∧ DcZ len (j + k) d' ∧
        outs.length = k ∧ ∀ i, i < k → 2 * len ≤ j + i + 1 → outs[i]? = some 0 by
    obtain ⟨d', outs, e, hd, l, o⟩ := hs k 0 d (dcZ_start h1 h2)
    exact ⟨d', outs, e, l, fun i a b => o i b (by omega), dcZero_of_dcZ hd (by omega)⟩
  intro k
  induction k with
  | zero => intro j d h; exact ⟨d, [], rfl, h, rfl, by simp⟩
  | succ k ih =>
    intro j d h
    obtain ⟨d1, y, e1, g1, hy⟩ := dcZ_filter h hl
    obtain ⟨d', outs, e2, g2, l2, o2⟩ := ih (j + 1) d1 g1
    refine ⟨d', y :: outs, by simp [List.replicate_succ, dcRun, e1, e2],
      by rw [show j + (k + 1) = j + 1 + k by omega]; exact g2, by simp [l2], ?_⟩
    intro i hi hji
    cases i with
    | zero => simp [hy (by omega)]
    | succ i => simpa using o2 i (by omega) (by omega)

/-- the all-zero state is a fixed point: every further zero sample yields `0` -/
theorem dc_zero_fixed {len : Nat} {d : DcBlock Rat} (hl : 0 < len) (h : DcZero len d) :
    ∃ d', d.filter 0 = some (d', 0) ∧ DcZero len d' :=
  dcZero_filter h hl

/-- the all-zero state, spelled out -/
theorem dcZero_spelled {len : Nat} {d : DcBlock Rat} (h : DcZero len d) :
    d.ff.window = List.replicate len 0 ∧ d.ff.sum = 0 ∧ d.fb.window = List.replicate len 0 ∧ d.fb.sum = 0 :=
  ⟨h.ff.window, h.ff.sum, h.fb.window, h.fb.sum⟩

section Whole
variable [Hypot Rat]

/-! ## the invariant: what "reachable" means below -/

omit [Hypot Rat] in
/-- a receiver built by `new` with `0 ≤ sps`, `agc_min ≤ agc_max` and both proportional loop gains
    bounded by `A` satisfies the invariant, with the period limits `new` computed -/
theorem inv_new {c : RxCfg Rat} {r0 : FullRx Rat} {A : Rat} (hnew : FullRx.new c = some r0)
    (hsps : 0 ≤ c.sps) (hagc : c.agcMin ≤ c.agcMax) (hU : c.alphaU.abs ≤ A) (hL : c.alphaL.abs ≤ A) :
    SilCfg c (c.sps / 2) r0.tl.periodMin r0.tl.periodMax A ∧
      SilInv c (c.sps / 2) r0.tl.periodMin r0.tl.periodMax A r0 ∧ r0.tl.periodMax ≤ c.sps :=
  silInv_new hnew hsps hagc hU hL

/-- every sample of ANY input keeps it (and never panics) -/
theorem sample_keeps_inv {c : RxCfg Rat} {spt pmin pmax A : Rat} {r : FullRx Rat}
    (hc : SilCfg c spt pmin pmax A) (h : SilInv c spt pmin pmax A r) (x : Rat) :
    ∃ r' evs, r.sample x = some (r', evs) ∧ SilInv c spt pmin pmax A r' := by
  obtain ⟨q, sym, _, _, _, e, hinv, _⟩ := sample_R hc h x
  exact ⟨_, _, e, hinv⟩

/-- … so does every run -/
theorem run_keeps_inv {c : RxCfg Rat} {spt pmin pmax A : Rat} {r : FullRx Rat}
    (hc : SilCfg c spt pmin pmax A) (h : SilInv c spt pmin pmax A r) (xs : List Rat) :
    ∃ r' evs, FullRx.run r xs = some (r', evs) ∧ SilInv c spt pmin pmax A r' := by
  obtain ⟨r', tr, e, h'⟩ := trace_total hc xs r h
  obtain ⟨evs, er, _⟩ := trace_run e
  exact ⟨r', evs, er, h'⟩

omit [Hypot Rat] in
/-- the invariant, spelled out -/
theorem inv_spelled {c : RxCfg Rat} {spt pmin pmax A : Rat} {r : FullRx Rat} :
    SilInv c spt pmin pmax A r ↔
      (r.cfg = c ∧ MovGood c.dcLen r.dc.ff ∧ MovGood c.dcLen r.dc.fb ∧ r.agc.minGain ≤ r.agc.maxGain ∧
       TlRInv spt pmin pmax A r.tl ∧ tickPot pmax A r ≤ 2 * pmax + 2 * A + 5 / 2 ∧
       (0 ≤ r.pt.bandwidth ∧ r.pt.bandwidth ≤ 1 ∧ 0 ≤ r.pt.power ∧ r.pt.power ≤ 1) ∧
       SilenceAux.LinkInv r.link ∧ r.demod.window.length ≤ max 1 c.mark.length) :=
  ⟨fun h => ⟨h.cfg, h.ffGood, h.fbGood, h.agc, h.tl, h.pot, ⟨h.pt.bw0, h.pt.bw1, h.pt.pw0, h.pt.pw1⟩, h.link, h.win⟩,
   fun ⟨a, b, c', d, e, f, ⟨g1, g2, g3, g4⟩, i, j⟩ => ⟨a, b, c', d, e, f, ⟨g1, g2, g3, g4⟩, i, j⟩⟩

/-! ## Z2 the front end on zeros -/

/-- **Z2 (a).**  After `N0 = 2 * dcLen + max 1 mark.length` (or more) zero samples the front end is
    empty: DC blocker in its all-zero state, demodulator window all zero. -/
theorem front_zeros {c : RxCfg Rat} {spt pmin pmax A : Rat} {r : FullRx Rat} (hc : SilCfg c spt pmin pmax A)
    (h : SilInv c spt pmin pmax A r) {n : Nat} (hn : 2 * c.dcLen + max 1 c.mark.length ≤ n) :
    ∃ r' tr, FullRx.trace r (zeros n) = some (r', tr) ∧ SilInv c spt pmin pmax A r' ∧
      DcZero c.dcLen r'.dc ∧ (∀ x ∈ r'.demod.window, x = 0) := by
  obtain ⟨r', tr, e, h', hz, _⟩ := zeros_to_quiet hc h hn
  exact ⟨r', tr, e, h', hz.dc, hz.win⟩

/-- **Z2 (b).**  In that state every further zero sample: leaves the state empty; the DC blocker's
    output is `0`, so the AGC's output `y * gain` is `0`; `demod_now()` on the new window is `0`; the
    soft symbol of a symbol estimate is `0`; the TED's newest entry is `0` after the first low-rate
    sample, and from then on every estimate is `⟨0, 0, 0⟩`.  (The timing loop's error input is then
    `clamp (0 - offset / samples_per_ted)`, not `0`: nothing is claimed about the period.) -/
theorem front_zeros_step {c : RxCfg Rat} {spt pmin pmax A : Rat} {r : FullRx Rat}
    (hc : SilCfg c spt pmin pmax A) (h : SilInv c spt pmin pmax A r)
    (hdc : DcZero c.dcLen r.dc) (hwin : ∀ x ∈ r.demod.window, x = 0) :
    ∃ q sym, r.front 0 = some (q, sym) ∧ r.sample 0 = some (FullRx.finish (q, sym)) ∧
      r.dc.filter 0 = some (q.dc, 0) ∧ r.agc.input 0 = some (q.agc, 0) ∧ q.demod.demod = some 0 ∧
      DcZero c.dcLen (FullRx.finish (q, sym)).1.dc ∧
      (∀ x ∈ (FullRx.finish (q, sym)).1.demod.window, x = 0) ∧
      (∀ s, sym = some s → s.sym = 0) ∧
      ((sym ≠ none ∨ r.tl.ted.h2 = 0) → (FullRx.finish (q, sym)).1.tl.ted.h2 = 0) ∧
      (r.tl.ted.h2 = 0 → ∀ s, sym = some s → s = ⟨0, 0, 0⟩) := by
  obtain ⟨q, sym, y, e, hf, es, _⟩ := sample_R hc h 0
  obtain ⟨z1, rfl, z3, z4, z5⟩ := zquiet_step hc h ⟨hdc, hwin⟩ hf
  have hagc := hf.agcEq
  rw [Rat.zero_mul] at hagc
  have hdem : q.demod.demod = some 0 := by
    apply demod_zero
    rw [hf.demod, Rat.zero_mul]
    exact push_all_zero _ hwin
  exact ⟨q, sym, e, es, hf.dcEq, hagc, hdem, z1.dc, z1.win, z3, z4, z5⟩

/-! ## Z3 symbol ticks are never far apart (ANY input) -/

/-- **Z3.**  From any state satisfying the invariant and for ANY input: if `G` (a number of samples)
    is at least `2 * period_max + 2 * A + 5/2`, every `G` consecutive input samples contain a symbol
    tick (a call of `FullRx.symbol`).  `end()` only resets the TED counter, which brings the next tick
    closer. -/
theorem tick_spacing {c : RxCfg Rat} {spt pmin pmax A : Rat} {r : FullRx Rat} (hc : SilCfg c spt pmin pmax A)
    (h : SilInv c spt pmin pmax A r) {G : Nat} (hG : 2 * pmax + 2 * A + 5 / 2 ≤ (G : Rat))
    (xs : List Rat) (hlen : G ≤ xs.length) :
    ∃ r' tr, FullRx.trace r xs = some (r', tr) ∧ 1 ≤ tr.length := by
  obtain ⟨r', tr, e, _⟩ := trace_total hc xs r h
  exact ⟨r', tr, e, ticks_ge hc hG 1 xs r h (by omega) r' tr e⟩

/-- … hence `m * G` samples contain at least `m` ticks -/
theorem tick_count {c : RxCfg Rat} {spt pmin pmax A : Rat} {r : FullRx Rat} (hc : SilCfg c spt pmin pmax A)
    (h : SilInv c spt pmin pmax A r) {G : Nat} (hG : 2 * pmax + 2 * A + 5 / 2 ≤ (G : Rat))
    (xs : List Rat) (m : Nat) (hlen : m * G ≤ xs.length) :
    ∃ r' tr, FullRx.trace r xs = some (r', tr) ∧ m ≤ tr.length := by
  obtain ⟨r', tr, e, _⟩ := trace_total hc xs r h
  exact ⟨r', tr, e, ticks_ge hc hG m xs r h hlen r' tr e⟩

/-- the sharper, state-dependent form: the tick potential bounds the wait for the next tick -/
theorem next_tick_within {c : RxCfg Rat} {spt pmin pmax A : Rat} {r : FullRx Rat}
    (hc : SilCfg c spt pmin pmax A) (h : SilInv c spt pmin pmax A r) (k : Nat)
    (hk : tickPot pmax A r ≤ (k : Rat)) (xs : List Rat) (hlen : k ≤ xs.length) :
    ∃ r' tr, FullRx.trace r xs = some (r', tr) ∧ 1 ≤ tr.length := by
  obtain ⟨r', tr, e, _⟩ := trace_total hc xs r h
  exact ⟨r', tr, e, tick_within hc xs r k h hk hlen r' tr e⟩

/-- Z3 on zeros -/
theorem zeros_tick_spacing {c : RxCfg Rat} {spt pmin pmax A : Rat} {r : FullRx Rat}
    (hc : SilCfg c spt pmin pmax A) (h : SilInv c spt pmin pmax A r) {G : Nat}
    (hG : 2 * pmax + 2 * A + 5 / 2 ≤ (G : Rat)) (m : Nat) :
    ∃ r' tr, FullRx.trace r (zeros (m * G)) = some (r', tr) ∧ m ≤ tr.length :=
  tick_count hc h hG _ m (by simp [zeros])

end Whole

/-! ## Z4 the squelch power on zero symbols -/

/-- a zero symbol multiplies the power by `1 - bandwidth` -/
theorem power_decays {p : PowerTracker Rat} (h : PtInv p) (k : Nat) :
    (p.trackZeros k).power = p.power * (1 - p.bandwidth) ^ k ∧
      (p.trackZeros k).power ≤ (1 - p.bandwidth) ^ k := by
  obtain ⟨_, _, e⟩ := pt_trackZeros h k
  refine ⟨e, ?_⟩
  rw [e]
  exact decay_le h.pw1 (by have := h.bw1; grind) k

/-- soft symbols in `[-1, 1]` (what the demodulator's `clamp` guarantees) keep the power in `[0, 1]` -/
theorem power_le_one {p : PowerTracker Rat} (h : PtInv p) {s : Rat} (h1 : -1 ≤ s) (h2 : s ≤ 1) :
    0 ≤ (p.track s).power ∧ (p.track s).power ≤ 1 :=
  ⟨(pt_track_inv h h1 h2).1.pw0, (pt_track_inv h h1 h2).1.pw1⟩

/-- after `k ≥ K` zero symbols both threshold tests fail, when `(1 - bandwidth) ^ K < power_close ≤ power_open`
    (`ge a b` is `b ≤ a`: strictness is needed) -/
theorem power_below_close {p : PowerTracker Rat} (h : PtInv p) {K k : Nat} {pclose popen : Rat}
    (hK : (1 - p.bandwidth) ^ K < pclose) (hco : pclose ≤ popen) (hk : K ≤ k) :
    ge (p.trackZeros k).power popen = false ∧ ge (p.trackZeros k).power pclose = false := by
  obtain ⟨_, hle⟩ := power_decays h k
  have hm := pow_le_pow_rat (q := 1 - p.bandwidth) (by have := h.bw1; grind) (by have := h.bw0; grind) hk
  simp only [ge, rat_le, decide_eq_false_iff_not]
  constructor <;> grind

/-- the defaults: bandwidth `1/8`, `power_close = 1/20`, `power_open = 1/10`: `K = 23` -/
theorem default_decay : ((1 : Rat) - 1 / 8) ^ 23 < 1 / 20 ∧ (1 : Rat) / 20 ≤ 1 / 10 ∧
    ¬ ((1 : Rat) - 1 / 8) ^ 22 < 1 / 20 := by
  refine ⟨by decide +kernel, by decide +kernel, by decide +kernel⟩

section Whole2
variable [Hypot Rat]

/-! ## Z5 silence returns the receiver to idle -/

theorem trace_zeros_add {r r1 r2 : FullRx Rat} {a b : Nat} {t1 t2 : List (Nat × Tick)}
    (e1 : FullRx.trace r (zeros a) = some (r1, t1)) (e2 : FullRx.trace r1 (zeros b) = some (r2, t2)) :
    FullRx.trace r (zeros (a + b)) = some (r2, t1 ++ t2) := by
  rw [zeros_add, trace_append, e1]; dsimp only; rw [e2]

/-- **Z5.**  From any state satisfying the invariant, `n ≥ N0 + (K + 32) * G` zero samples
    (`N0 = 2 * dcLen + max 1 mark.length`; `K` with `(1 - squelch bandwidth) ^ K < power_close ≤ power_open`;
    `G ≥ 2 * period_max + 2 * A + 5/2`) leave the receiver idle: front end empty, tracked power below
    the closing threshold, link unsynchronised (`clock = none`), unlocked, framer idle. -/
theorem zeros_link_idle {c : RxCfg Rat} {spt pmin pmax A : Rat} {r : FullRx Rat}
    (hc : SilCfg c spt pmin pmax A) (h : SilInv c spt pmin pmax A r) (hco : c.powerClose ≤ c.powerOpen)
    {G K : Nat} (hG : 2 * pmax + 2 * A + 5 / 2 ≤ (G : Rat)) (hK : (1 - r.pt.bandwidth) ^ K < c.powerClose)
    {n : Nat} (hn : 2 * c.dcLen + max 1 c.mark.length + (K + 32) * G ≤ n) :
    ∃ r' tr, FullRx.trace r (zeros n) = some (r', tr) ∧ SilInv c spt pmin pmax A r' ∧ Idle c r' ∧
      r'.link.clock = none ∧ r'.link.lock = false ∧ r'.link.fr = .idle := by
  obtain ⟨r1, t1, e1, h1, z1, b1⟩ := zeros_to_quiet hc h (Nat.le_refl (2 * c.dcLen + max 1 c.mark.length))
  obtain ⟨r2, t2, e2, h2, z2, p2⟩ := zeros_to_lowpower hc h1 z1 hG (b1 ▸ hK) (Nat.le_refl (K * G))
  obtain ⟨r3, t3, e3, h3, i3⟩ := zeros_to_idle hc h2 z2 p2 hco hG (Nat.le_refl (32 * G))
  obtain ⟨r4, t4, e4, h4, i4, _⟩ := idle_run hc h3 i3 hco
    (n - (2 * c.dcLen + max 1 c.mark.length + K * G + 32 * G))
  have e := trace_zeros_add (trace_zeros_add (trace_zeros_add e1 e2) e3) e4
  rw [show 2 * c.dcLen + max 1 c.mark.length + K * G + 32 * G +
      (n - (2 * c.dcLen + max 1 c.mark.length + K * G + 32 * G)) = n by
    rw [Nat.add_mul] at hn; omega] at e
  exact ⟨r4, _, e, h4, i4, i4.link.1, i4.link.2.1, i4.link.2.2⟩

/-- **Z5, continued.**  Idle stays idle on zeros, and every further symbol tick reports `NoCarrier`. -/
theorem idle_stays_idle {c : RxCfg Rat} {spt pmin pmax A : Rat} {r : FullRx Rat}
    (hc : SilCfg c spt pmin pmax A) (h : SilInv c spt pmin pmax A r) (hi : Idle c r)
    (hco : c.powerClose ≤ c.powerOpen) (n : Nat) :
    ∃ r' tr, FullRx.trace r (zeros n) = some (r', tr) ∧ SilInv c spt pmin pmax A r' ∧ Idle c r' ∧
      (∀ tk ∈ stampedTicks c.lcfg r.link tr, tk.2.2 = .noCarrier) ∧
      (∀ t ∈ tr, t.2.1 = ⟨true, false, false⟩) := by
  obtain ⟨r', tr, e, h', hi', hnc⟩ := idle_run hc h hi hco n
  obtain ⟨_, _, _, z4, z5⟩ := zquiet_run hc n r h hi.quiet r' tr e
  refine ⟨r', tr, e, h', hi', ?_, ?_⟩
  · intro tk htk
    apply hnc
    rw [← (stampedTicks_spec c.lcfg tr r.link).2.1]
    exact List.mem_map.2 ⟨tk, htk, rfl⟩
  · intro t ht
    have a := z4 t ht
    have b := z5 hi.power hco t ht
    cases ho : t.2.1 with
    | mk bit o cl => rw [ho] at a b; simp only at a b; rw [a, b.1, b.2]

/-! ## Z6 `flush()` releases a pending message -/

/-- **Z6 from the idle state** (`flush_from_idle`, Lemmas/SilenceFacts.lean): nothing about the front end
    is assumed any more — ticks keep coming (`tick_spacing`) and report `NoCarrier` (`idle_stays_idle`)
    with consecutive symbol counts, so `C14.flush_releases_consecutive` applies. -/
theorem flush_from_idle' {c : RxCfg Rat} {spt pmin pmax A : Rat} {r : FullRx Rat}
    (hc : SilCfg c spt pmin pmax A) (h : SilInv c spt pmin pmax A r) (hi : Idle c r)
    (hco : c.powerClose ≤ c.powerOpen) {G : Nat} (hG : 2 * pmax + 2 * A + 5 / 2 ≤ (G : Rat))
    (t : Timed MsgResult) (hh : C14.Holding r.rx t) (n : Nat)
    (hforce : ∀ T, r.rx.forceEomAt = some T → r.inputCounter + n ≤ T)
    (hn : max 1 (t.deadline - r.link.nsym) * G ≤ n) :
    ∃ r' evs smp, FullRx.run r (zeros n) = some (r', evs) ∧ SilInv c spt pmin pmax A r' ∧ Idle c r' ∧
      Event.transport smp (.message t.data) ∈ evs :=
  flush_from_idle hc h hi hco hG t hh n hforce hn

/-- **Z6.**  From ANY state satisfying the invariant: the first `n1 = N0 + (K + 32) * G` zero samples
    of the flush leave the receiver idle (Z5), in state `r1` having emitted `ev1`; whatever result `t`
    is pending THEN is emitted by the remaining samples, provided there are `G` of them for every symbol
    count still missing to its deadline (at least `G`) and the forced end-of-message timer does not
    fire within the flush. -/
theorem flush_releases_pending {c : RxCfg Rat} {spt pmin pmax A : Rat} {r : FullRx Rat}
    (hc : SilCfg c spt pmin pmax A) (h : SilInv c spt pmin pmax A r) (hco : c.powerClose ≤ c.powerOpen)
    {G K : Nat} (hG : 2 * pmax + 2 * A + 5 / 2 ≤ (G : Rat)) (hK : (1 - r.pt.bandwidth) ^ K < c.powerClose) :
    ∃ r1 ev1, FullRx.run r (zeros (2 * c.dcLen + max 1 c.mark.length + (K + 32) * G)) = some (r1, ev1) ∧
      SilInv c spt pmin pmax A r1 ∧ Idle c r1 ∧
      r1.inputCounter = r.inputCounter + (2 * c.dcLen + max 1 c.mark.length + (K + 32) * G) ∧
      ∀ (t : Timed MsgResult), C14.Holding r1.rx t → ∀ n2 : Nat,
        (∀ T, r1.rx.forceEomAt = some T →
          r.inputCounter + (2 * c.dcLen + max 1 c.mark.length + (K + 32) * G) + n2 ≤ T) →
        max 1 (t.deadline - r1.link.nsym) * G ≤ n2 →
        ∃ r' ev2 smp,
          FullRx.run r (zeros (2 * c.dcLen + max 1 c.mark.length + (K + 32) * G + n2)) = some (r', ev1 ++ ev2) ∧
          Idle c r' ∧ Event.transport smp (.message t.data) ∈ ev1 ++ ev2 := by
  obtain ⟨r1, t1, e1, h1, i1, _⟩ := zeros_link_idle hc h hco hG hK
    (Nat.le_refl (2 * c.dcLen + max 1 c.mark.length + (K + 32) * G))
  obtain ⟨ev1, er1, _⟩ := trace_run e1
  have hcnt := (FullRx.run_timestamps _ r r1 ev1 er1).1
  simp only [zeros, List.length_replicate] at hcnt
  refine ⟨r1, ev1, er1, h1, i1, hcnt, ?_⟩
  intro t hh n2 hforce hn2
  obtain ⟨r', ev2, smp, er2, _, i2, hm⟩ := flush_from_idle hc h1 i1 hco hG t hh n2
    (by intro T hT; rw [hcnt]; exact hforce T hT) hn2
  refine ⟨r', ev2, smp, ?_, i2, List.mem_append_right _ hm⟩
  rw [zeros_add, run_append]
  simp only [zeros] at er1 er2 ⊢
  rw [er1]; dsimp only; rw [er2]

/-- **Z6, the result pending at the START of the flush.**  From ANY state satisfying the invariant,
    result `t` pending, the timer not firing within the flush.  If the link reports no `Burst` during the
    first `n1 = N0 + (K + 32) * G` samples (no frame was in progress when the flush began, and the
    silence is not taken for one; `Searching`/`Reading`/`NoCarrier` reports are all allowed), then
    `n1 + n2` zero samples emit `.message t.data`, as soon as `n2 ≥ max 1 (deadline - nsym) * G`. -/
theorem flush_releases_pending_of_no_burst {c : RxCfg Rat} {spt pmin pmax A : Rat} {r : FullRx Rat}
    (hc : SilCfg c spt pmin pmax A) (h : SilInv c spt pmin pmax A r) (hco : c.powerClose ≤ c.powerOpen)
    {G K : Nat} (hG : 2 * pmax + 2 * A + 5 / 2 ≤ (G : Rat)) (hK : (1 - r.pt.bandwidth) ^ K < c.powerClose)
    (t : Timed MsgResult) (hh : C14.Holding r.rx t) (n2 : Nat)
    (hforce : ∀ T, r.rx.forceEomAt = some T →
      r.inputCounter + (2 * c.dcLen + max 1 c.mark.length + (K + 32) * G + n2) ≤ T)
    (hn2 : max 1 (t.deadline - r.link.nsym) * G ≤ n2)
    (hnb : ∀ rA trA, FullRx.trace r (zeros (2 * c.dcLen + max 1 c.mark.length + (K + 32) * G)) = some (rA, trA) →
      ∀ tk ∈ stampedTicks c.lcfg r.link trA, ∀ b, tk.2.2 ≠ .burst b) :
    ∃ r' evs smp,
      FullRx.run r (zeros (2 * c.dcLen + max 1 c.mark.length + (K + 32) * G + n2)) = some (r', evs) ∧
      Idle c r' ∧ Event.transport smp (.message t.data) ∈ evs := by
  obtain ⟨rA, trA, eA, hA, iA, _⟩ := zeros_link_idle hc h hco hG hK
    (Nat.le_refl (2 * c.dcLen + max 1 c.mark.length + (K + 32) * G))
  exact flush_no_burst hc h hco hG eA hA iA (hnb rA trA eA) t hh n2 hforce hn2

end Whole2

/-- the sample budget of `flush()` (`4 * rate` samples): if symbol ticks are at most `G` samples apart with
    `G * 1000 ≤ rate * 1000 / 260` (so `4 * rate ≥ 1040 * G`: `C14.flush_ticks`), the front end empties
    within `200 * G` samples, `K ≤ 23` and at most `740` symbol counts are missing to the deadline, then
    the flush is long enough for `flush_releases_pending` -/
theorem flush_budget (rate G N0 K D : Nat) (hg : 0 < G) (hgap : G * 1000 ≤ rate * 1000 / 260)
    (hN0 : N0 ≤ 200 * G) (hK : K ≤ 23) (hD : D ≤ 740) :
    N0 + (K + 32) * G + max 1 D * G ≤ 4 * rate := by
  have h1 := (C14.flush_ticks rate G 0 hg hgap (by omega)).1
  have h2 : 1040 * G ≤ 4 * rate := (Nat.le_div_iff_mul_le hg).1 h1
  have h3 : (K + 32) * G ≤ 55 * G := Nat.mul_le_mul_right G (by omega)
  have h4 : max 1 D * G ≤ 740 * G := Nat.mul_le_mul_right G (by omega)
  omega

/-- NOT claimed: the statement with the pending result held at the START of the flush and NO hypothesis
    on what the link reports while it drains.  `flush_releases_pending_of_no_burst` proves it when no
    `Burst` is reported during the drain.  What is missing is the other case: if a frame was in progress
    the drain reports one `Burst` (`C10.no_wedge_burst_emitted`); that tick goes through `aAssemble`
    and may replace `t` by a better estimate, so the event then carries that estimate's data, not
    `t.data`: with a frame in progress the statement below is not expected to hold as it stands (the
    right conclusion there is "some message whose bursts include those of `t`"). -/
def FlushReleasesPending [Hypot Rat] : Prop :=
  ∀ (c : RxCfg Rat) (spt pmin pmax A : Rat) (r : FullRx Rat) (G K : Nat) (t : Timed MsgResult),
    SilCfg c spt pmin pmax A → SilInv c spt pmin pmax A r → c.powerClose ≤ c.powerOpen →
    2 * pmax + 2 * A + 5 / 2 ≤ (G : Rat) → (1 - r.pt.bandwidth) ^ K < c.powerClose →
    C14.Holding r.rx t → (∀ T, r.rx.forceEomAt = some T → r.inputCounter + 4 * c.rate ≤ T) →
    2 * c.dcLen + max 1 c.mark.length + (K + 32) * G + max 1 (t.deadline - r.link.nsym) * G ≤ 4 * c.rate →
    ∃ r' evs smp, FullRx.run r (zeros (4 * c.rate)) = some (r', evs) ∧
      Event.transport smp (.message t.data) ∈ evs

/-! ## non-vacuity -/

section Demo
open SameVerif.FullRxThm

/-- Z1 by evaluation: a DC blocker of length 3 that heard `7, 7, 7, -2`, then six zeros: the outputs on
    the zeros are `25/9, -11/3, -1/3, 2/9, 0, 0` (zero from the `2 * len - 1`-th zero sample on; `dc_zeros`
    claims it from the `2 * len`-th) and the state is the all-zero one -/
example : ((DcBlock.new 3 : Option (DcBlock Rat)).bind fun d0 =>
      dcRun d0 ([some 7, some 7, some 7, some (-2)] ++ List.replicate 6 (some 0))).map
        (fun p => (p.2.drop 4, p.1.ff.window, p.1.ff.sum, p.1.fb.window, p.1.fb.sum))
      = some ([25 / 9, -11 / 3, -1 / 3, 2 / 9, 0, 0], [0, 0, 0], 0, [0, 0, 0], 0) := by
  decide +kernel

/-- for the examples only: `|a| + |b|` in place of `hypot` (the theorems hold for ANY `Hypot Rat`) -/
local instance demoHypot' : Hypot Rat := ⟨fun a b => a.abs + b.abs⟩

/-- `demoCfg2` (Thm/FullRx.lean: 8000 Hz, 2 samples per symbol, DC blocker of length 1, loop gains 0,
    squelch bandwidth 1/10, thresholds 1/10 and 1/20) meets every hypothesis: `period_max = 5/4`, so
    `G = 5`; `(9/10)^29 < 1/20`, so `K = 29`; `N0 = 4`; `N0 + (K + 32) * G = 309` -/
theorem demo_hyps : ∃ r0, FullRx.new demoCfg2 = some r0 ∧
    SilCfg demoCfg2 (2 / 2) r0.tl.periodMin r0.tl.periodMax 0 ∧
    SilInv demoCfg2 (2 / 2) r0.tl.periodMin r0.tl.periodMax 0 r0 ∧
    2 * r0.tl.periodMax + 2 * 0 + 5 / 2 ≤ ((5 : Nat) : Rat) ∧ r0.pt.bandwidth = 1 / 10 := by
  obtain ⟨r0, h⟩ := fullrx_new_rat (cfg := demoCfg2) (by decide)
  obtain ⟨hc, hi, _⟩ := inv_new (A := 0) h (by decide +kernel) (by decide +kernel) (by decide +kernel)
    (by decide +kernel)
  have e : ((FullRx.new demoCfg2).map fun r0 => (r0.tl.periodMax, r0.pt.bandwidth)) = some (5 / 4, 1 / 10) := by
    decide +kernel
  rw [h] at e
  simp only [Option.map_some, Option.some.injEq, Prod.mk.injEq] at e
  exact ⟨r0, h, hc, hi, by rw [e.1]; decide +kernel, e.2⟩

/-- Z5 by the general theorem: the demo signal (which synchronises the link: `demo2_eval`), then 309
    zeros: the receiver is idle again -/
example : ∃ r0 r1 ev r2 tr, FullRx.new demoCfg2 = some r0 ∧ FullRx.run r0 demoSig = some (r1, ev) ∧
    FullRx.trace r1 (zeros 309) = some (r2, tr) ∧ Idle demoCfg2 r2 ∧
    r2.link.clock = none ∧ r2.link.lock = false ∧ r2.link.fr = .idle ∧ 61 ≤ tr.length := by
  obtain ⟨r0, h0, hc, hi, hG, hb⟩ := demo_hyps
  obtain ⟨r1, tr1, e1, h1⟩ := trace_total hc demoSig r0 hi
  obtain ⟨ev, er, _⟩ := trace_run e1
  have hb1 := trace_bw hc _ r0 hi r1 tr1 e1
  obtain ⟨r2, tr, e2, h2, i2, l1, l2, l3⟩ := zeros_link_idle (K := 29) (n := 309) hc h1 (by decide +kernel) hG
    (by rw [hb1, hb]; decide +kernel) (by decide)
  have hlen := ticks_ge hc hG 61 (zeros 309) r1 h1 (by simp only [zeros, List.length_replicate]; omega) r2 tr e2
  exact ⟨r0, r1, ev, r2, tr, h0, er, e2, i2, l1, l2, l3, hlen⟩

/-- … and by evaluation: after the demo signal the byte clock runs; 309 zeros later it is stopped, the
    lock released and the power below the closing threshold — while 60 zeros are not enough -/
example :
    (((FullRx.new demoCfg2).bind fun r0 => FullRx.run r0 demoSig).map fun p =>
      (p.1.link.clock.isSome, decide (p.1.pt.power < 1 / 20))) = some (true, false) ∧
    (((FullRx.new demoCfg2).bind fun r0 => FullRx.run r0 (demoSig ++ zeros 309)).map fun p =>
      (p.1.link.clock, p.1.link.lock, decide (p.1.pt.power < 1 / 20), p.1.demod.window, p.1.dc.ff.window))
        = some (none, false, true, [0, 0], [0]) ∧
    (((FullRx.new demoCfg2).bind fun r0 => FullRx.run r0 (demoSig ++ zeros 60)).map fun p =>
      p.1.link.clock.isSome) = some true := by
  refine ⟨by decide +kernel, by decide +kernel, by decide +kernel⟩

end Demo

end SameVerif.SilenceThm
