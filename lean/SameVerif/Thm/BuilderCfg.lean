/-
  C17 for the model, from the raw setter arguments (`Model/BuilderCfg.lean`): every receiver
  configuration expressible through the builder builds without panicking at any sample rate and
  processes audio without panicking.

  B1  the setters are total — NO range assumption on any argument: every out-of-range argument is
      clamped, none panics (generic in `F` under `OrderLaws F`, given `0 ≤ f32::MAX`) — and the
      ranges of what they store (`SetterRanges`).  Observation `squelch_close_can_exceed_open`:
      `with_squelch_power` takes `min(close, open)` with the RAW `open`, so the stored close
      threshold can exceed the stored (clamped) open threshold when the raw open exceeds 1.
  B2  the derived constructor arguments (`rxCfgOf`): DC-blocker length ≥ 1 (fix F1: `max 1`),
      samples per symbol ≥ 0, equalizer orders ≥ 1, gain limits unchanged.
  B3  `built_receiver_never_panics`: from ANY setter arguments with `agc_min ≤ agc_max`, at any
      rate, the setters, `FullRx.new` and every `FullRx.run` succeed; `built_samedec_never_panics`;
      the converse witness `reversed_limits_panic`.
  B4  non-vacuity: concrete arguments where the clamps bite.
-/
import SameVerif.Lemmas.BuilderCfgFacts
import SameVerif.Thm.Program
import SameVerif.Thm.Silence

namespace SameVerif.BuilderCfgThm

open SameVerif SameVerif.Dsp Arith

-- for the evaluations below (`decide +kernel` on `applySetters … = some …`)
deriving instance DecidableEq for SameVerif.Dsp.BuilderState

/-! ## B1 the setters are total; the ranges of what they store -/

section Setters
variable {F : Type} [Arith F] [OrderLaws F]

/-- **The setters never panic**, whatever they are given: no hypothesis on `a` at all.  (The only
    `clamp` whose limits are not constants is `clamp(timing_bw_locked, 0, timing_bw_unlocked)`, and
    `0 ≤ timing_bw_unlocked` after ITS clamp.) -/
theorem applySetters_total {fmaxVal : F} (hmax : le zero fmaxVal = true) (a : BuilderArgs F) :
    ∃ b, applySetters fmaxVal a = some b := by
  obtain ⟨_, _, _, _, _, _, _, _, _, _, _, _, e⟩ := applySetters_spec hmax a
  exact ⟨_, e⟩

theorem applySetters_ne_none {fmaxVal : F} (hmax : le zero fmaxVal = true) (a : BuilderArgs F) :
    applySetters fmaxVal a ≠ none := by
  obtain ⟨b, e⟩ := applySetters_total hmax a
  rw [e]; exact Option.some_ne_none _

/-- the equalizer's setters never panic either -/
theorem eqSetters_total {fmaxVal : F} (hmax : le zero fmaxVal = true) (e : Nat × Nat × F × F) :
    ∃ q, eqSetters fmaxVal e = some q := by
  obtain ⟨_, _, _, _, h⟩ := eqSetters_spec hmax e
  exact ⟨_, h⟩

omit [OrderLaws F] in
/-- the hypothesis `0 ≤ f32::MAX` of the totality theorems is needed (and is all that is needed):
    without it `with_regularization`'s `clamp(0, f32::MAX)` asserts -/
theorem eqSetters_none_iff (fmaxVal : F) (e : Nat × Nat × F × F) (h01 : le (zero : F) one = true) :
    eqSetters fmaxVal e = none ↔ le zero fmaxVal = false := by
  unfold eqSetters
  obtain ⟨r, hr⟩ := clamp_isSome_of_le (x := e.2.2.1) h01
  rw [hr]
  cases h : le zero fmaxVal with
  | false => rw [(clamp_none_iff _ _ _).2 h]; simp
  | true => obtain ⟨q, hq⟩ := clamp_isSome_of_le (x := e.2.2.2) h; rw [hq]; simp

/-- what the equalizer's setters store: `1 ≤ nfb ≤ nff`, `0 ≤ relaxation ≤ 1`,
    `0 ≤ regularization ≤ f32::MAX`; orders that are in range are kept -/
theorem eqSetters_ranges {fmaxVal : F} {e : Nat × Nat × F × F} {nff nfb : Nat} {relax reg : F}
    (h : eqSetters fmaxVal e = some (nff, nfb, relax, reg)) :
    1 ≤ nfb ∧ nfb ≤ nff ∧ nff = max e.1 1 ∧ nfb = min (max e.2.1 1) nff ∧
    le zero relax = true ∧ le relax one = true ∧ le zero reg = true ∧ le reg fmaxVal = true := by
  unfold eqSetters at h
  cases h1 : clamp e.2.2.1 zero one with
  | none => simp [h1] at h
  | some r1 =>
    cases h2 : clamp e.2.2.2 zero fmaxVal with
    | none => simp [h1, h2] at h
    | some r2 =>
      simp only [h1, h2, Option.some.injEq, Prod.mk.injEq] at h
      obtain ⟨rfl, rfl, rfl, rfl⟩ := h
      obtain ⟨_, a1, a2⟩ := clamp_bounds' h1
      obtain ⟨_, b1, b2⟩ := clamp_bounds' h2
      exact ⟨by omega, by omega, rfl, rfl, a1, a2, b1, b2⟩

omit [OrderLaws F] in
/-- `with_agc_gain_limits` stores its arguments as they are (no law about `F` needed) -/
theorem applySetters_agcLimits {fmaxVal : F} {a : BuilderArgs F} {b : BuilderState F}
    (h : applySetters fmaxVal a = some b) : b.agcMin = a.agcMin ∧ b.agcMax = a.agcMax := by
  unfold applySetters at h
  split at h
  · split at h
    · split at h
      · cases h; exact ⟨rfl, rfl⟩
      · rename_i e _
        cases hq : eqSetters fmaxVal e with
        | none => rw [hq] at h; cases h
        | some q => rw [hq] at h; cases h; exact ⟨rfl, rfl⟩
    · cases h
  · cases h

/-- the ranges of the builder's fields after the setters ran, relative to the raw arguments -/
structure SetterRanges (fmaxVal : F) (a : BuilderArgs F) (b : BuilderState F) : Prop where
  rate : b.rate = a.rate
  /-- `with_dc_blocker_length`: `f32::max(0.0, len)` -/
  dcLen : le zero b.dcLen = true
  agcBw : le zero b.agcBw = true ∧ le b.agcBw one = true
  /-- `with_agc_gain_limits` stores its arguments as they are -/
  agcLimits : b.agcMin = a.agcMin ∧ b.agcMax = a.agcMax
  /-- `0 ≤ locked ≤ unlocked ≤ 1` -/
  timingBw : le zero b.timingBwLocked = true ∧ le b.timingBwLocked b.timingBwUnlocked = true ∧
    le b.timingBwUnlocked one = true
  timingMaxDev : le zero b.timingMaxDev = true ∧ le b.timingMaxDev half = true
  squelchOpen : le zero b.squelchOpen = true ∧ le b.squelchOpen one = true
  /-- `f32::min(close, open)` with the RAW `open` -/
  squelchClose : le b.squelchClose a.squelchOpen = true ∧ le b.squelchClose a.squelchClose = true
  squelchBw : b.squelchBw = a.squelchBw
  preambleMaxErrors : b.preambleMaxErrors = a.preambleMaxErrors
  framePrefixMaxErrors : b.framePrefixMaxErrors = min a.framePrefixMaxErrors 7 ∧ b.framePrefixMaxErrors ≤ 7
  frameMaxInvalid : b.frameMaxInvalid = a.frameMaxInvalid
  /-- the equalizer is disabled exactly when the caller disabled it -/
  eqNone : b.eq = none ↔ a.eq = none
  /-- … and otherwise holds what `eqSetters` stored -/
  eqSome : ∀ q, b.eq = some q → ∃ e, a.eq = some e ∧ eqSetters fmaxVal e = some q
  eqRanges : ∀ nff nfb relax reg, b.eq = some (nff, nfb, relax, reg) →
    1 ≤ nfb ∧ nfb ≤ nff ∧ le zero relax = true ∧ le relax one = true ∧
    le zero reg = true ∧ le reg fmaxVal = true

/-- **The ranges of the stored parameters**, for every argument list -/
theorem applySetters_ranges {fmaxVal : F} (hmax : le zero fmaxVal = true) {a : BuilderArgs F}
    {b : BuilderState F} (h : applySetters fmaxVal a = some b) : SetterRanges fmaxVal a b := by
  obtain ⟨agcBw, tbu, tbl, dev, sqo, eq, h1, h2, h3, h4, h5, hq, e⟩ := applySetters_spec hmax a
  rw [e] at h
  cases h
  obtain ⟨_, a1, a2⟩ := clamp_bounds' h1
  obtain ⟨_, _, b2⟩ := clamp_bounds' h2
  obtain ⟨_, c1, c2⟩ := clamp_bounds' h3
  obtain ⟨_, d1, d2⟩ := clamp_bounds' h4
  obtain ⟨_, e1, e2⟩ := clamp_bounds' h5
  have hsome : ∀ q, eq = some q → ∃ e, a.eq = some e ∧ eqSetters fmaxVal e = some q := by
    intro q hqq
    cases ha : a.eq with
    | none => rw [ha] at hq; dsimp only at hq; rw [hq] at hqq; cases hqq
    | some e0 =>
      rw [ha] at hq; dsimp only at hq
      obtain ⟨relax, reg, _, _, rfl⟩ := hq
      obtain ⟨relax', reg', q1, q2, q3⟩ := eqSetters_spec hmax e0
      cases hqq
      refine ⟨e0, rfl, ?_⟩
      rw [q3]
      rename_i r1 r2
      rw [q1] at r1; rw [q2] at r2
      cases r1; cases r2; rfl
  refine ⟨rfl, le_fmax_left _ _, ⟨a1, a2⟩, ⟨rfl, rfl⟩, ⟨c1, c2, b2⟩, ⟨d1, d2⟩, ⟨e1, e2⟩,
    ⟨fmin_le_right _ _, fmin_le_left _ _⟩, rfl, rfl, ⟨rfl, Nat.min_le_right _ _⟩, rfl, ?_, hsome, ?_⟩
  · dsimp only
    cases ha : a.eq with
    | none => rw [ha] at hq; dsimp only at hq; simp [hq]
    | some e0 =>
      rw [ha] at hq; dsimp only at hq
      obtain ⟨_, _, _, _, rfl⟩ := hq
      simp
  · intro nff nfb relax reg hb
    obtain ⟨e0, _, he⟩ := hsome _ hb
    obtain ⟨r1, r2, _, _, r5, r6, r7, r8⟩ := eqSetters_ranges he
    exact ⟨r1, r2, r5, r6, r7, r8⟩

/-- arguments inside the documented ranges are stored as they are -/
theorem applySetters_inrange {fmaxVal : F} {a : BuilderArgs F}
    (hdc : lt zero a.dcLen = true)
    (h1 : le zero a.agcBw = true ∧ le a.agcBw one = true)
    (h2 : le zero a.timingBwUnlocked = true ∧ le a.timingBwUnlocked one = true)
    (h3 : le zero a.timingBwLocked = true ∧ le a.timingBwLocked a.timingBwUnlocked = true)
    (h4 : le zero a.timingMaxDev = true ∧ le a.timingMaxDev half = true)
    (h5 : le zero a.squelchOpen = true ∧ le a.squelchOpen one = true)
    (h6 : le a.squelchClose a.squelchOpen = true) (h7 : a.framePrefixMaxErrors ≤ 7)
    (h8 : a.eq = none) :
    applySetters fmaxVal a = some
      { rate := a.rate, dcLen := a.dcLen, agcBw := a.agcBw, agcMin := a.agcMin, agcMax := a.agcMax,
        timingBwUnlocked := a.timingBwUnlocked, timingBwLocked := a.timingBwLocked,
        timingMaxDev := a.timingMaxDev, squelchOpen := a.squelchOpen, squelchClose := a.squelchClose,
        squelchBw := a.squelchBw, preambleMaxErrors := a.preambleMaxErrors, eq := none,
        framePrefixMaxErrors := a.framePrefixMaxErrors, frameMaxInvalid := a.frameMaxInvalid } := by
  have h01 := OrderLaws.zero_le_one (F := F)
  unfold applySetters
  rw [clamp_of_mem h1.1 h1.2 h01, clamp_of_mem h2.1 h2.2 h01]
  dsimp only
  rw [clamp_of_mem h3.1 h3.2 h2.1, clamp_of_mem h4.1 h4.2 OrderLaws.zero_le_half,
    clamp_of_mem h5.1 h5.2 h01]
  simp only [h8, fmax, fmin, hdc, not_lt_of_le h6, if_true, Nat.min_eq_left h7]
  rfl

end Setters

/-! ### an observation about `with_squelch_power` (not a panic) -/

/-- `with_squelch_power(open, close)` stores `open.clamp(0, 1)` and `close.min(open)` — with the RAW
    `open`.  With `open = 2`, `close = 3/2` the stored close threshold `3/2` exceeds the stored open
    threshold `1`: `squelchClose ≤ squelchOpen` does NOT hold for the stored values in general. -/
theorem squelch_close_can_exceed_open :
    ∃ (a : BuilderArgs Rat) (b : BuilderState Rat), applySetters (1000 : Rat) a = some b ∧
      a.squelchOpen = 2 ∧ a.squelchClose = 3 / 2 ∧ b.squelchOpen = 1 ∧ b.squelchClose = 3 / 2 ∧
      b.squelchOpen < b.squelchClose :=
  ⟨⟨8000, 0, 0, 0, 1, 0, 0, 0, 2, 3 / 2, 0, 0, none, 0, 0⟩,
   ⟨8000, 0, 0, 0, 1, 0, 0, 0, 1, 3 / 2, 0, 0, none, 0, 0⟩,
   by decide +kernel, rfl, rfl, rfl, rfl, by decide +kernel⟩

/-- … while it does whenever the raw open threshold is at most 1 -/
theorem squelch_close_le_open {fmaxVal : Rat} {a : BuilderArgs Rat} {b : BuilderState Rat}
    (hmax : 0 ≤ fmaxVal) (h : applySetters fmaxVal a = some b) (ho : a.squelchOpen ≤ 1) :
    b.squelchClose ≤ b.squelchOpen ∨ b.squelchClose ≤ 0 := by
  obtain ⟨agcBw, tbu, tbl, dev, sqo, eq, _, _, _, _, h5, _, e⟩ :=
    applySetters_spec ((rat_le_iff _ _).2 hmax) a
  rw [e] at h; cases h
  dsimp only
  have hm : fmin a.squelchClose a.squelchOpen ≤ a.squelchOpen := (rat_le_iff _ _).1 (fmin_le_right _ _)
  obtain ⟨y, e5, y0, _, yid⟩ := clamp_rat (x := a.squelchOpen) (lo := 0) (hi := 1) (by decide)
  have : clamp a.squelchOpen zero one = some y := e5
  rw [this] at h5; cases h5
  by_cases h0 : 0 ≤ a.squelchOpen
  · left; rw [yid h0 ho]; exact hm
  · right; grind

/-! ## B2 the derived constructor arguments -/

section Derived
variable {F : Type} [Arith F]

/-- the DC blocker's window length is at least one sample (fix F1: `usize::max(1, …)`), whatever
    `as usize` returns — no hypothesis -/
theorem rxCfgOf_dcLen_pos (d : Derive F) (b : BuilderState F) : 0 < (rxCfgOf d b).dcLen := by
  have : (rxCfgOf d b).dcLen = max 1 (d.toUsize (mul b.dcLen (div (ofNat b.rate) d.baud))) := rfl
  rw [this]; omega

theorem rxCfgOf_dcLen_ne_zero (d : Derive F) (b : BuilderState F) : (rxCfgOf d b).dcLen ≠ 0 :=
  Nat.pos_iff_ne_zero.1 (rxCfgOf_dcLen_pos d b)

/-- the gain limits, the sampling rate, the squelch thresholds, the timing limit and the
    link-layer budgets reach the constructor unchanged -/
theorem rxCfgOf_passthrough (d : Derive F) (b : BuilderState F) :
    (rxCfgOf d b).agcMin = b.agcMin ∧ (rxCfgOf d b).agcMax = b.agcMax ∧
    (rxCfgOf d b).rate = b.rate ∧ (rxCfgOf d b).sps = div (ofNat b.rate) d.baud ∧
    (rxCfgOf d b).maxDev = b.timingMaxDev ∧ (rxCfgOf d b).powerOpen = b.squelchOpen ∧
    (rxCfgOf d b).powerClose = b.squelchClose ∧ (rxCfgOf d b).squelchBw = b.squelchBw ∧
    (rxCfgOf d b).lcfg = ⟨b.preambleMaxErrors, ⟨b.framePrefixMaxErrors, b.frameMaxInvalid⟩⟩ :=
  ⟨rfl, rfl, rfl, rfl, rfl, rfl, rfl, rfl, rfl⟩

/-- the equalizer's parameters: the stored ones, or `disabled_equalizer()` -/
theorem rxCfgOf_eq (d : Derive F) (b : BuilderState F) :
    ((rxCfgOf d b).nff, (rxCfgOf d b).nfb, (rxCfgOf d b).relax, (rxCfgOf d b).reg) =
      match b.eq with
      | some e => e
      | none => (1, 1, zero, d.defaultReg) := rfl

/-- the equalizer's orders are at least 1, feedback ≤ feedforward, for every builder state the
    setters can produce -/
theorem rxCfgOf_orders [OrderLaws F] {fmaxVal : F} (hmax : le zero fmaxVal = true) (d : Derive F)
    {a : BuilderArgs F} {b : BuilderState F} (h : applySetters fmaxVal a = some b) :
    1 ≤ (rxCfgOf d b).nfb ∧ (rxCfgOf d b).nfb ≤ (rxCfgOf d b).nff := by
  have hr := applySetters_ranges hmax h
  have he := rxCfgOf_eq d b
  cases hb : b.eq with
  | none =>
    rw [hb] at he
    simp only [Prod.mk.injEq] at he
    rw [he.1, he.2.1]; omega
  | some q =>
    obtain ⟨nff, nfb, relax, reg⟩ := q
    rw [hb] at he
    simp only [Prod.mk.injEq] at he
    obtain ⟨r1, r2, _⟩ := hr.eqRanges _ _ _ _ hb
    rw [he.1, he.2.1]; exact ⟨r1, r2⟩

end Derived

/-- samples per symbol: `rate / BAUD ≥ 0` at every rate, 0 included -/
theorem rxCfgOf_sps_nonneg {d : Derive Rat} (hbaud : 0 < d.baud) (b : BuilderState Rat) :
    0 ≤ (rxCfgOf d b).sps :=
  rat_div_nonneg (a := (b.rate : Rat)) Rat.natCast_nonneg hbaud

/-- the AGC bandwidth per sample the constructor receives is non-negative (and then clamped to
    `[0, 1]` by `Agc::new`) -/
theorem rxCfgOf_agcBw_nonneg {fmaxVal : Rat} (hmax : 0 ≤ fmaxVal) {d : Derive Rat} (hbaud : 0 < d.baud)
    {a : BuilderArgs Rat} {b : BuilderState Rat} (h : applySetters fmaxVal a = some b) :
    0 ≤ (rxCfgOf d b).agcBw := by
  have hr := applySetters_ranges ((rat_le_iff _ _).2 hmax) h
  have h0 : 0 ≤ b.agcBw := (rat_le_iff _ _).1 hr.agcBw.1
  have hs := rxCfgOf_sps_nonneg hbaud b
  have : (rxCfgOf d b).agcBw = b.agcBw * (rxCfgOf d b).sps / (b.rate : Rat) := rfl
  rw [this, Rat.div_def]
  refine Rat.mul_nonneg (Rat.mul_nonneg h0 hs) ?_
  by_cases hz : b.rate = 0
  · rw [hz]; decide +kernel
  · exact Rat.le_of_lt (Rat.inv_pos.2 (Rat.natCast_pos.2 (Nat.pos_of_ne_zero hz)))

/-! ## B3 the built receiver never panics -/

section NeverPanics
variable [Hypot Rat]

/-- **C17 for the model.**  Whatever is passed to the setters — any sampling rate (0 included), any
    DC-blocker length (0.0 and negatives included), any bandwidths, deviations, squelch powers,
    the equalizer disabled or with any orders and parameters, any error budgets — provided only the
    documented precondition `agc_min ≤ agc_max` of `with_agc_gain_limits`:
    the setters do not panic, `SameReceiver::from(&builder)` does not panic, and the receiver
    processes every sample list without panicking. -/
theorem built_receiver_never_panics {fmaxVal : Rat} (hmax : 0 ≤ fmaxVal) (a : BuilderArgs Rat)
    (hagc : a.agcMin ≤ a.agcMax) {d : Derive Rat} (hbaud : 0 < d.baud) :
    ∃ b r0, applySetters fmaxVal a = some b ∧ SetterRanges fmaxVal a b ∧
      FullRx.new (rxCfgOf d b) = some r0 ∧ ∀ xs : List Rat, FullRx.run r0 xs ≠ none := by
  have hmax' := (rat_le_iff 0 fmaxVal).2 hmax
  obtain ⟨b, hb⟩ := applySetters_total hmax' a
  have hr := applySetters_ranges hmax' hb
  obtain ⟨r0, hnew⟩ := FullRxThm.fullrx_new_rat (rxCfgOf_dcLen_ne_zero d b)
  refine ⟨b, r0, hb, hr, hnew, fun xs => ?_⟩
  refine FullRxThm.fullrx_never_panics_rat hnew (rxCfgOf_sps_nonneg hbaud b) ?_ xs
  have : (rxCfgOf d b).agcMin = a.agcMin ∧ (rxCfgOf d b).agcMax = a.agcMax := hr.agcLimits
  rw [this.1, this.2]; exact hagc

/-- the same in the form "for every `b`, `r0` the two constructors return" -/
theorem built_receiver_never_panics' {fmaxVal : Rat} {a : BuilderArgs Rat}
    (hagc : a.agcMin ≤ a.agcMax) {d : Derive Rat} (hbaud : 0 < d.baud)
    {b : BuilderState Rat} {r0 : FullRx Rat} (hb : applySetters fmaxVal a = some b)
    (hnew : FullRx.new (rxCfgOf d b) = some r0) (xs : List Rat) : FullRx.run r0 xs ≠ none := by
  refine FullRxThm.fullrx_never_panics_rat hnew (rxCfgOf_sps_nonneg hbaud b) ?_ xs
  have e1 : (rxCfgOf d b).agcMin = b.agcMin := rfl
  have e2 : (rxCfgOf d b).agcMax = b.agcMax := rfl
  have := applySetters_agcLimits hb
  rw [e1, e2, this.1, this.2]; exact hagc

/-- **Corollary, whole program.**  `samedec` with a receiver built from any setter arguments with
    `agc_min ≤ agc_max` does not panic on any input byte string, for any application options and
    any child-spawning behaviour. -/
theorem built_samedec_never_panics {fmaxVal : Rat} (hmax : 0 ≤ fmaxVal) (a : BuilderArgs Rat)
    (hagc : a.agcMin ≤ a.agcMax) {d : Derive Rat} (hbaud : 0 < d.baud) :
    ∃ b, applySetters fmaxVal a = some b ∧
      ∀ (app : AppCfg) (spawnOk : Nat → Bool) (bytes : List UInt8),
        samedec (rxCfgOf d b) app spawnOk bytes ≠ none := by
  have hmax' := (rat_le_iff 0 fmaxVal).2 hmax
  obtain ⟨b, hb⟩ := applySetters_total hmax' a
  have hr := applySetters_ranges hmax' hb
  refine ⟨b, hb, fun app spawnOk bytes => ?_⟩
  refine ProgramThm.samedec_never_panics_rat (rxCfgOf_dcLen_ne_zero d b) (rxCfgOf_sps_nonneg hbaud b) ?_
    app spawnOk bytes
  have : (rxCfgOf d b).agcMin = a.agcMin ∧ (rxCfgOf d b).agcMax = a.agcMax := hr.agcLimits
  rw [this.1, this.2]; exact hagc

/-- **The built receiver is "reachable" in the sense of Thm/Silence.lean.**  With
    `A = max |alpha_unlocked| |alpha_locked|` (whatever gains the derivation computed), the receiver
    built from any setter arguments with `agc_min ≤ agc_max` satisfies `SilCfg` and the invariant
    `SilInv`, which every sample of any input keeps: the theorems about silence, tick spacing and
    `flush()` (Z2–Z6) apply to every receiver the builder can produce. -/
theorem built_receiver_inv {fmaxVal : Rat} (hmax : 0 ≤ fmaxVal) (a : BuilderArgs Rat)
    (hagc : a.agcMin ≤ a.agcMax) {d : Derive Rat} (hbaud : 0 < d.baud) :
    ∃ b r0 A, applySetters fmaxVal a = some b ∧ FullRx.new (rxCfgOf d b) = some r0 ∧
      SilCfg (rxCfgOf d b) ((rxCfgOf d b).sps / 2) r0.tl.periodMin r0.tl.periodMax A ∧
      SilInv (rxCfgOf d b) ((rxCfgOf d b).sps / 2) r0.tl.periodMin r0.tl.periodMax A r0 ∧
      r0.tl.periodMax ≤ (rxCfgOf d b).sps ∧
      ∀ xs : List Rat, ∃ r evs, FullRx.run r0 xs = some (r, evs) ∧
        SilInv (rxCfgOf d b) ((rxCfgOf d b).sps / 2) r0.tl.periodMin r0.tl.periodMax A r := by
  have hmax' := (rat_le_iff 0 fmaxVal).2 hmax
  obtain ⟨b, hb⟩ := applySetters_total hmax' a
  have hr := applySetters_ranges hmax' hb
  obtain ⟨r0, hnew⟩ := FullRxThm.fullrx_new_rat (rxCfgOf_dcLen_ne_zero d b)
  have hlim : (rxCfgOf d b).agcMin ≤ (rxCfgOf d b).agcMax := by
    have : (rxCfgOf d b).agcMin = a.agcMin ∧ (rxCfgOf d b).agcMax = a.agcMax := hr.agcLimits
    rw [this.1, this.2]; exact hagc
  obtain ⟨hc, hi, hp⟩ := SilenceThm.inv_new (A := max (rxCfgOf d b).alphaU.abs (rxCfgOf d b).alphaL.abs)
    hnew (rxCfgOf_sps_nonneg hbaud b) hlim (by grind) (by grind)
  exact ⟨b, r0, _, hb, hnew, hc, hi, hp, fun xs => SilenceThm.run_keeps_inv hc hi xs⟩

/-- **The precondition cannot be dropped.**  With `agc_max < agc_min` the setters and the constructor
    still succeed (the setter does not check), and the first sample processed panics
    (`f32::clamp` in `Agc::input`). -/
theorem reversed_limits_panic {fmaxVal : Rat} (hmax : 0 ≤ fmaxVal) (a : BuilderArgs Rat)
    (hagc : a.agcMax < a.agcMin) (d : Derive Rat) :
    ∃ b r0, applySetters fmaxVal a = some b ∧ FullRx.new (rxCfgOf d b) = some r0 ∧
      ∀ (x : Rat) (xs : List Rat), FullRx.run r0 (x :: xs) = none := by
  have hmax' := (rat_le_iff 0 fmaxVal).2 hmax
  obtain ⟨b, hb⟩ := applySetters_total hmax' a
  have hr := applySetters_ranges hmax' hb
  obtain ⟨r0, hnew⟩ := FullRxThm.fullrx_new_rat (rxCfgOf_dcLen_ne_zero d b)
  refine ⟨b, r0, hb, hnew, fun x xs => ?_⟩
  refine FullRxThm.fullrx_panics_when_agc_reversed hnew ?_ x xs
  have : (rxCfgOf d b).agcMin = a.agcMin ∧ (rxCfgOf d b).agcMax = a.agcMax := hr.agcLimits
  rw [this.1, this.2]
  simp only [rat_le, decide_eq_false_iff_not, Rat.not_le]
  exact hagc

end NeverPanics

/-! ## B4 non-vacuity -/

section Demo

/-- for the examples only (the theorems hold for ANY `Hypot Rat`) -/
local instance : Hypot Rat := FullRxThm.demoHypot

/-- arguments far outside the documented ranges: negative DC-blocker length, AGC bandwidth 2,
    locked timing bandwidth above the unlocked one, maximum deviation 3/4, squelch open power 2,
    equalizer orders 0 / 100 with relaxation −1 and regularization 10⁹, prefix budget 100 -/
def wildArgs : BuilderArgs Rat :=
  { rate := 22050, dcLen := -3, agcBw := 2, agcMin := 1 / 32767, agcMax := 1 / 200,
    timingBwUnlocked := 1 / 8, timingBwLocked := 5, timingMaxDev := 3 / 4,
    squelchOpen := 2, squelchClose := 3 / 2, squelchBw := -1, preambleMaxErrors := 40,
    eq := some (0, 100, -1, 1000000000), framePrefixMaxErrors := 100, frameMaxInvalid := 0 }

/-- a tiny derivation: 520.83 baud, `as usize` = floor (saturating at 0), constant loop gains,
    two-tap matched filters -/
def tinyDerive : Derive Rat :=
  { baud := 52083 / 100, toUsize := fun x => x.floor.toNat, gains := fun bw => (bw, bw / 10),
    taps := fun _ => ([(1, 0), (0, 1)], [(1, 0), (0, -1)]), defaultReg := 1 / 100000 }

/-- by evaluation: every clamp bites, nothing panics -/
theorem wild_setters : applySetters (1000000 : Rat) wildArgs = some
    { rate := 22050, dcLen := 0, agcBw := 1, agcMin := 1 / 32767, agcMax := 1 / 200,
      timingBwUnlocked := 1 / 8, timingBwLocked := 1 / 8, timingMaxDev := 1 / 2,
      squelchOpen := 1, squelchClose := 3 / 2, squelchBw := -1, preambleMaxErrors := 40,
      eq := some (1, 1, 0, 1000000), framePrefixMaxErrors := 7, frameMaxInvalid := 0 } := by
  decide +kernel

/-- by evaluation: a DC-blocker length of 0.0 becomes a window of one sample; the rest of the derived
    constructor arguments -/
theorem wild_cfg :
    (applySetters (1000000 : Rat) wildArgs).map (fun b =>
      let c := rxCfgOf tinyDerive b; (c.dcLen, c.sps, c.agcBw, c.maxDev)) =
      some (1, 735000 / 17361, 100 / 52083, 1 / 2) ∧
    (applySetters (1000000 : Rat) wildArgs).map (fun b =>
      let c := rxCfgOf tinyDerive b; (c.nff, c.nfb, c.relax, c.reg, c.lcfg.fc.maxPrefixErr)) =
      some (1, 1, 0, 1000000, 7) := by
  constructor <;> decide +kernel

/-- a positive DC-blocker length goes through `as usize`: 0.38 symbols at 42.3 samples per symbol
    is a window of 16 samples -/
example : (applySetters (1000000 : Rat) { wildArgs with dcLen := 38 / 100 }).map (fun b =>
    (rxCfgOf tinyDerive b).dcLen) = some 16 := by decide +kernel

/-- by the general theorem: the wild arguments build a receiver that never panics -/
example : ∃ b r0, applySetters (1000000 : Rat) wildArgs = some b ∧
    FullRx.new (rxCfgOf tinyDerive b) = some r0 ∧ ∀ xs : List Rat, FullRx.run r0 xs ≠ none := by
  obtain ⟨b, r0, h1, _, h2, h3⟩ := built_receiver_never_panics (fmaxVal := 1000000) (by decide +kernel)
    wildArgs (by decide +kernel) (d := tinyDerive) (by decide +kernel)
  exact ⟨b, r0, h1, h2, h3⟩

/-- … at a sampling rate of 0 too (`sps = 0`, the timing loop's limits collapse to `[0, 0]`) -/
example : ∃ b r0, applySetters (1000000 : Rat) { wildArgs with rate := 0 } = some b ∧
    FullRx.new (rxCfgOf tinyDerive b) = some r0 ∧ ∀ xs : List Rat, FullRx.run r0 xs ≠ none := by
  obtain ⟨b, r0, h1, _, h2, h3⟩ := built_receiver_never_panics (fmaxVal := 1000000) (by decide +kernel)
    { wildArgs with rate := 0 } (by decide +kernel) (d := tinyDerive) (by decide +kernel)
  exact ⟨b, r0, h1, h2, h3⟩

/-- … and by evaluation on four samples at a small rate (1042 Hz: two samples per symbol, so that
    the run reaches `symbol`): the constructor and the run return -/
example : ((applySetters (1000000 : Rat) { wildArgs with rate := 1042 }).bind fun b =>
    (FullRx.new (rxCfgOf tinyDerive b)).bind fun r0 =>
      (FullRx.trace r0 [1000, -2000, 1500, 300, -700, 50]).map fun p => p.2.length).isSome = true := by
  decide +kernel

/-- … and satisfies the invariant of Thm/Silence.lean, so that e.g. `SilenceThm.tick_spacing` applies -/
example : ∃ b r0 A, applySetters (1000000 : Rat) wildArgs = some b ∧
    FullRx.new (rxCfgOf tinyDerive b) = some r0 ∧
    SilInv (rxCfgOf tinyDerive b) ((rxCfgOf tinyDerive b).sps / 2) r0.tl.periodMin r0.tl.periodMax A r0 := by
  obtain ⟨b, r0, A, h1, h2, _, h3, _⟩ := built_receiver_inv (fmaxVal := 1000000) (by decide +kernel)
    wildArgs (by decide +kernel) (d := tinyDerive) (by decide +kernel)
  exact ⟨b, r0, A, h1, h2, h3⟩

/-- the whole program on the wild configuration, any bytes: by the general theorem -/
example (app : AppCfg) (spawnOk : Nat → Bool) (bytes : List UInt8) :
    ∃ b, applySetters (1000000 : Rat) wildArgs = some b ∧
      samedec (rxCfgOf tinyDerive b) app spawnOk bytes ≠ none := by
  obtain ⟨b, h1, h2⟩ := built_samedec_never_panics (fmaxVal := 1000000) (by decide +kernel)
    wildArgs (by decide +kernel) (d := tinyDerive) (by decide +kernel)
  exact ⟨b, h1, h2 app spawnOk bytes⟩

/-- with the gain limits swapped, the first sample panics: by `reversed_limits_panic` and by
    evaluation -/
example : ∃ b r0, applySetters (1000000 : Rat) { wildArgs with agcMin := 1 / 200, agcMax := 1 / 32767 } = some b ∧
    FullRx.new (rxCfgOf tinyDerive b) = some r0 ∧ FullRx.run r0 [1000] = none := by
  obtain ⟨b, r0, h1, h2, h3⟩ := reversed_limits_panic (fmaxVal := 1000000) (by decide +kernel)
    { wildArgs with agcMin := 1 / 200, agcMax := 1 / 32767 } (by decide +kernel) tinyDerive
  exact ⟨b, r0, h1, h2, h3 _ _⟩

example : ((applySetters (1000000 : Rat) { wildArgs with agcMin := 1 / 200, agcMax := 1 / 32767 }).bind fun b =>
    (FullRx.new (rxCfgOf tinyDerive b)).bind fun r0 => FullRx.run r0 [1000]) = none := by
  decide +kernel

/-- in-range arguments are stored unchanged: by `applySetters_inrange` -/
example : (applySetters (1000000 : Rat)
    { wildArgs with dcLen := 38 / 100, agcBw := 1 / 100, timingBwLocked := 1 / 20, timingMaxDev := 1 / 100,
                    squelchOpen := 1 / 10, squelchClose := 1 / 20, eq := none, framePrefixMaxErrors := 2 }).map
      (fun b => (b.dcLen, b.agcBw, b.timingBwLocked, b.timingMaxDev, b.squelchOpen, b.squelchClose,
        b.framePrefixMaxErrors)) = some (38 / 100, 1 / 100, 1 / 20, 1 / 100, 1 / 10, 1 / 20, 2) := by
  rw [applySetters_inrange (by decide +kernel) (by decide +kernel) (by decide +kernel) (by decide +kernel)
    (by decide +kernel) (by decide +kernel) (by decide +kernel) (by decide) rfl]
  rfl

end Demo

end SameVerif.BuilderCfgThm
