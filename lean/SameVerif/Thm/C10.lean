import SameVerif.Lemmas.LinkForget
import SameVerif.Lemmas.LinkGrowth
/-
  C10 — Arbitrary audio never wedges the receiver: the discrete part.

  The link model (`Model/Link.lean`) is a total function, so "never crashes" is, for the discrete
  chain, the statement that the one partial operation of the Rust code on this path
  (`power_history.front().expect(..)`) always finds an element (`sync_implies_history`).
  "Never left deaf" is `no_wedge`: whatever state a hostile history left the link in, 32 symbol
  ticks below both power thresholds return it to the unsynchronised, unlocked, idle state — with
  a frame in progress reported, not lost (`no_wedge_burst_emitted`).  "Same as from a cold start"
  is `converge` + `same_future` + `hostile_history_forgotten`: after 32 further quiet ticks the
  two shift registers hold nothing older than those ticks, and from then on no input whatsoever
  can tell the receiver from a newly built one that heard the same last 32 ticks.

  Definitions used (all in `Lemmas/LinkInv.lean` / `Lemmas/LinkForget.lean`):
  * `LinkInv s`     — `s.pwr.length = min s.nsym 32`, `s.nsym < 32 → s.clock = none`,
                      `s.lock = true → s.clock.isSome`, `∀ k, s.clock = some k → k < 8`
  * `FrInv s`       — `s.fr ≠ .idle → s.clock.isSome`, `s.fr = .read _ _ → s.lock = true`
                      (an invariant only for `c.fc.maxPrefixErr < 15`; the builder clamps to ≤ 7)
  * `QuietState s`  — `s.clock = none ∧ s.lock = false ∧ s.fr = .idle`
  * `LEquiv s1 s2`  — equal `corr`, `pwr`, `clock`, `lock`, `fr`; both `32 ≤ nsym`;
                      `s1.clock.isSome → s1.train = s2.train`
-/
namespace SameVerif.C10
open SameVerif

/-! ### 1. the structural invariant -/

/-- a new receiver satisfies the invariant -/
theorem inv_init : LinkInv {} := linkInv_init

/-- **Invariant.**  Every tick preserves `LinkInv`, for every configuration, observation and
    equalizer byte. -/
theorem inv_step (c : LCfg) (s : LState) (o : Obs) (b : Byte) (h : LinkInv s) :
    LinkInv (lstep c s o b).1 := linkInv_step c s o b h

/-- every state reachable from a cold start, by any input whatsoever, satisfies the invariant -/
theorem inv_reachable (c : LCfg) (hist : List Tick) : LinkInv (lrunState c {} hist) :=
  linkInv_run c hist _ linkInv_init

/-- the fields of the invariant, spelled out -/
theorem inv_spelled (s : LState) :
    LinkInv s ↔ (s.pwr.length = min s.nsym 32 ∧ (s.nsym < 32 → s.clock = none)
      ∧ (s.lock = true → s.clock.isSome = true) ∧ ∀ k, s.clock = some k → k < 8) :=
  ⟨fun h => ⟨h.pwr_len, h.warm, h.lock_sync, h.clock_lt⟩, fun h => ⟨h.1, h.2.1, h.2.2.1, h.2.2.2⟩⟩

/-- **Framer/squelch coupling.**  With a prefix error budget below 15 (the builder clamps it to
    at most 7) the framer is busy only while the squelch is synchronised, and reads only under
    sync lock; this too is preserved by every tick. -/
theorem fr_inv_step (c : LCfg) (s : LState) (o : Obs) (b : Byte) (hc : c.fc.maxPrefixErr < 15)
    (h : FrInv s) : FrInv (lstep c s o b).1 := frInv_step c s o b hc h

theorem fr_inv_reachable (c : LCfg) (hc : c.fc.maxPrefixErr < 15) (hist : List Tick) :
    FrInv (lrunState c {} hist) := by
  suffices h : ∀ s, FrInv s → FrInv (lrunState c s hist) from h _ frInv_init
  induction hist with
  | nil => intro s h; exact h
  | cons x xs ih => intro s h; exact ih _ (frInv_step c s x.1 x.2 hc h)

theorem fr_inv_spelled (s : LState) :
    FrInv s ↔ ((s.fr ≠ .idle → s.clock.isSome = true)
      ∧ ∀ msg inv, s.fr = .read msg inv → s.lock = true) :=
  ⟨fun h => ⟨h.fr_sync, h.read_lock⟩, fun h => ⟨h.1, h.2⟩⟩

/-! ### 2. silence un-wedges -/

/-- **No wedge.**  From any state satisfying the invariant — mid-burst, locked, framer reading,
    whatever — 32 symbol ticks with the power below both thresholds (bits and equalizer bytes
    arbitrary) leave the link unsynchronised, unlocked and idle, with a full sample history.
    No assumption on burst length or configuration. -/
theorem no_wedge (c : LCfg) (s : LState) (xs : List Tick) (hinv : LinkInv s)
    (hlen : 32 ≤ xs.length) (hq : ∀ x ∈ xs, x.1.openOk = false ∧ x.1.closeOk = false) :
    (lrunState c s xs).clock = none ∧ (lrunState c s xs).lock = false
      ∧ (lrunState c s xs).fr = .idle ∧ 32 ≤ (lrunState c s xs).nsym
      ∧ LinkInv (lrunState c s xs) := by
  have hd := draining_run c xs 0 s hinv (draining_zero s) hq
  obtain ⟨h1, h2, h3⟩ := draining_done _ _ (by omega) hd
  refine ⟨h1, h2, h3, ?_, linkInv_run c xs s hinv⟩
  rw [lrunState_nsym]; omega

/-- **A frame in progress is emitted, not lost.**  If the framer was reading `msg` when the
    silence began, exactly one burst is reported during it, and `msg` is a prefix of that burst
    (byte ticks before the carrier drop may still have appended to it). -/
theorem no_wedge_burst_emitted (c : LCfg) (s : LState) (xs : List Tick) (msg : List Byte)
    (inv : Nat) (hinv : LinkInv s) (hlen : 32 ≤ xs.length)
    (hq : ∀ x ∈ xs, x.1.openOk = false ∧ x.1.closeOk = false) (hf : s.fr = .read msg inv) :
    ∃ msg', msg <+: msg' ∧ lrunBursts c s xs = [msg'] := by
  have hidle := (no_wedge c s xs hinv hlen hq).2.2.1
  rcases read_run c xs s msg inv hf (AllSilent.closed hq) with ⟨m, i, h1, _, _⟩ | ⟨m, h1, h2, _⟩
  · rw [hidle] at h1; cases h1
  · exact ⟨m, h1, h2⟩

/-- **…and it grows by at most 4 bytes.**  Byte ticks come every 8 symbols and the carrier drops
    at the 32nd silent tick at the latest, so the reported burst is `msg` followed by at most 4
    further bytes. -/
theorem no_wedge_burst_growth (c : LCfg) (s : LState) (xs : List Tick) (msg : List Byte)
    (inv : Nat) (hinv : LinkInv s) (hlen : 32 ≤ xs.length)
    (hq : ∀ x ∈ xs, x.1.openOk = false ∧ x.1.closeOk = false) (hf : s.fr = .read msg inv) :
    ∃ msg', msg <+: msg' ∧ msg'.length ≤ msg.length + 4 ∧ lrunBursts c s xs = [msg'] := by
  obtain ⟨m, h1, h2⟩ := no_wedge_burst_emitted c s xs msg inv hinv hlen hq hf
  rcases read_run_budget c xs s 0 msg inv hinv (by omega) (tailFalse_zero _) hf hq with
    ⟨_, _, _, g⟩ | ⟨m2, g1, g2⟩
  · rw [g] at h2; cases h2
  · rw [g1] at h2
    injection h2 with h2
    subst h2
    have := byteBudget_le s.clock
    exact ⟨m2, h1, by omega, g1⟩

/-- with an idle framer nothing is reported during the silence -/
theorem no_wedge_idle_silent (c : LCfg) (s : LState) (xs : List Tick)
    (hx : ∀ x ∈ xs, x.1.openOk = false) (hf : s.fr = .idle) : lrunBursts c s xs = [] :=
  (idle_run c xs s hf hx).1

/-! ### 3. quiet stays quiet -/

/-- **Quiet stays quiet.**  An unsynchronised, unlocked, idle link that never sees the power
    reach the opening threshold reports `noCarrier` at every tick and stays that way. -/
theorem quiet_stays_quiet (c : LCfg) (s : LState) (xs : List Tick)
    (hs : s.clock = none ∧ s.lock = false ∧ s.fr = .idle) (hx : ∀ x ∈ xs, x.1.openOk = false) :
    (∀ ls ∈ lrun c s xs, ls = .noCarrier)
      ∧ (lrunState c s xs).clock = none ∧ (lrunState c s xs).lock = false
      ∧ (lrunState c s xs).fr = .idle :=
  ⟨(quiet_run c xs s hs hx).2, (quiet_run c xs s hs hx).1⟩

/-! ### 5. panic freedom of the discrete chain -/

/-- `power_history.front()` is evaluated after `push_back`: it always finds an element -/
theorem history_nonempty_after_push (h : List Bool) (x : Bool) : push32 h x ≠ [] :=
  push32_ne_nil h x

/-- after every tick the power history is non-empty — in particular whenever the squelch is
    synchronised -/
theorem sync_implies_history (c : LCfg) (s : LState) (o : Obs) (b : Byte) :
    (lstep c s o b).1.pwr ≠ [] := by
  rw [(lstep_base c s o b).2.1]; exact push32_ne_nil _ _

/-- in every state satisfying the invariant, a synchronised squelch has a full power history -/
theorem sync_implies_full_history (s : LState) (h : LinkInv s) (hs : s.clock.isSome = true) :
    s.pwr.length = 32 := by
  have hn : ¬ s.nsym < 32 := by
    intro hn
    rw [h.warm hn] at hs; cases hs
  rw [h.pwr_len]; omega

/-! ### 4. same as from a cold start -/

/-- **The shift registers forget.**  After 32 ticks — any 32 ticks — the correlator and the power
    history hold nothing that depends on the state before them. -/
theorem registers_forget (c : LCfg) (s1 s2 : LState) (xs : List Tick) (hlen : 32 ≤ xs.length) :
    (lrunState c s1 xs).corr = (lrunState c s2 xs).corr
      ∧ (lrunState c s1 xs).pwr = (lrunState c s2 xs).pwr := by
  refine ⟨lrunState_corr_forget c xs s1 s2 hlen, ?_⟩
  rw [lrunState_pwr_forget c xs s1 hlen, lrunState_pwr_forget c xs s2 hlen]

/-- **Convergence.**  Two unsynchronised, unlocked, idle links that hear the same 32 or more
    ticks, none reaching the opening threshold, end up in states that agree in everything except
    `nsym` (both ≥ 32) and the dead training counter. -/
theorem converge (c : LCfg) (s1 s2 : LState) (xs : List Tick)
    (h1 : s1.clock = none ∧ s1.lock = false ∧ s1.fr = .idle)
    (h2 : s2.clock = none ∧ s2.lock = false ∧ s2.fr = .idle)
    (hlen : 32 ≤ xs.length) (hx : ∀ x ∈ xs, x.1.openOk = false) :
    (lrunState c s1 xs).corr = (lrunState c s2 xs).corr
      ∧ (lrunState c s1 xs).pwr = (lrunState c s2 xs).pwr
      ∧ (lrunState c s1 xs).clock = (lrunState c s2 xs).clock
      ∧ (lrunState c s1 xs).lock = (lrunState c s2 xs).lock
      ∧ (lrunState c s1 xs).fr = (lrunState c s2 xs).fr
      ∧ 32 ≤ (lrunState c s1 xs).nsym ∧ 32 ≤ (lrunState c s2 xs).nsym := by
  obtain ⟨a1, a2, a3⟩ := (quiet_run c xs s1 h1 hx).1
  obtain ⟨b1, b2, b3⟩ := (quiet_run c xs s2 h2 hx).1
  obtain ⟨r1, r2⟩ := registers_forget c s1 s2 xs hlen
  refine ⟨r1, r2, by rw [a1, b1], by rw [a2, b2], by rw [a3, b3], ?_, ?_⟩ <;>
    (rw [lrunState_nsym]; omega)

/-- the converged states are equivalent in the sense of `LEquiv` -/
theorem converge_equiv (c : LCfg) (s1 s2 : LState) (xs : List Tick)
    (h1 : s1.clock = none ∧ s1.lock = false ∧ s1.fr = .idle)
    (h2 : s2.clock = none ∧ s2.lock = false ∧ s2.fr = .idle)
    (hlen : 32 ≤ xs.length) (hx : ∀ x ∈ xs, x.1.openOk = false) :
    LEquiv (lrunState c s1 xs) (lrunState c s2 xs) := by
  obtain ⟨g1, g2, g3, g4, g5, g6, g7⟩ := converge c s1 s2 xs h1 h2 hlen hx
  refine ⟨g1, g2, g3, g4, g5, g6, g7, ?_⟩
  intro hs
  rw [(quiet_run c xs s1 h1 hx).1.1] at hs; cases hs

/-- the definition of `LEquiv`, spelled out -/
theorem equiv_spelled (s1 s2 : LState) :
    LEquiv s1 s2 ↔ (s1.corr = s2.corr ∧ s1.pwr = s2.pwr ∧ s1.clock = s2.clock ∧ s1.lock = s2.lock
      ∧ s1.fr = s2.fr ∧ 32 ≤ s1.nsym ∧ 32 ≤ s2.nsym
      ∧ (s1.clock.isSome = true → s1.train = s2.train)) :=
  ⟨fun h => ⟨h.corr, h.pwr, h.clock, h.lock, h.fr, h.full1, h.full2, h.train⟩,
   fun ⟨a, b, c, d, e, f, g, h⟩ => ⟨a, b, c, d, e, f, g, h⟩⟩

/-- **Bisimulation.**  Equivalent states report the same link state and byte-tick marker for
    every input, and step to equivalent states. -/
theorem equiv_step (c : LCfg) (s1 s2 : LState) (o : Obs) (b : Byte) (h : LEquiv s1 s2) :
    (lstep c s1 o b).2 = (lstep c s2 o b).2 ∧ LEquiv (lstep c s1 o b).1 (lstep c s2 o b).1 :=
  lequiv_step c s1 s2 o b h

/-- **Same future.**  Equivalent states cannot be told apart by any later stream. -/
theorem same_future (c : LCfg) (s1 s2 : LState) (ys : List Tick) (h : LEquiv s1 s2) :
    lrun c s1 ys = lrun c s2 ys ∧ lrunBursts c s1 ys = lrunBursts c s2 ys := by
  have := (lequiv_run c ys s1 s2 h).1
  exact ⟨this, by simp only [lrunBursts, this]⟩

/-- **A hostile history is forgotten.**  Take any state satisfying the invariant (so: any state
    reachable by any input at all), then 64 or more ticks below both power thresholds (bits and
    equalizer bytes arbitrary).  From then on the link reports, for ALL future inputs, exactly
    what a newly built receiver reports that heard only the last 32 of those ticks. -/
theorem hostile_history_forgotten (c : LCfg) (s : LState) (hinv : LinkInv s) (xs ys : List Tick)
    (hlen : 64 ≤ xs.length) (hq : ∀ x ∈ xs, x.1.openOk = false ∧ x.1.closeOk = false) :
    lrun c (lrunState c s xs) ys = lrun c (lrunState c {} (xs.drop (xs.length - 32))) ys := by
  have hsplit : xs = xs.take (xs.length - 32) ++ xs.drop (xs.length - 32) :=
    (List.take_append_drop _ _).symm
  have hq1 : ∀ x ∈ xs.take (xs.length - 32), x.1.openOk = false ∧ x.1.closeOk = false :=
    fun x hx => hq x (List.mem_of_mem_take hx)
  have hq2 : ∀ x ∈ xs.drop (xs.length - 32), x.1.openOk = false :=
    fun x hx => (hq x (List.mem_of_mem_drop hx)).1
  have hl1 : 32 ≤ (xs.take (xs.length - 32)).length := by rw [List.length_take]; omega
  have hl2 : 32 ≤ (xs.drop (xs.length - 32)).length := by rw [List.length_drop]; omega
  obtain ⟨w1, w2, w3, _⟩ := no_wedge c s _ hinv hl1 hq1
  have he := converge_equiv c (lrunState c s (xs.take (xs.length - 32))) {} _ ⟨w1, w2, w3⟩
    ⟨rfl, rfl, rfl⟩ hl2 hq2
  rw [← lrunState_append, ← hsplit] at he
  exact (same_future c _ _ ys he).1

/-- the same, for a receiver that went through an arbitrary history `hist` from a cold start;
    the cold-started reference receiver may equally well have heard all of the silence -/
theorem hostile_history_forgotten' (c : LCfg) (hist xs ys : List Tick)
    (hlen : 64 ≤ xs.length) (hq : ∀ x ∈ xs, x.1.openOk = false ∧ x.1.closeOk = false) :
    lrun c (lrunState c {} (hist ++ xs)) ys = lrun c (lrunState c {} (xs.drop (xs.length - 32))) ys
      ∧ lrun c (lrunState c {} (hist ++ xs)) ys = lrun c (lrunState c {} xs) ys := by
  rw [lrunState_append]
  have h1 := hostile_history_forgotten c _ (inv_reachable c hist) xs ys hlen hq
  have h2 := hostile_history_forgotten c _ inv_init xs ys hlen hq
  exact ⟨h1, by rw [h1, h2]⟩

/-! ### 6. non-vacuity, tightness, and why `FrInv` needs the configuration bound -/

/-- default-like configuration: 2 sync-word errors, 2 prefix errors, 5 invalid bytes -/
def demoCfg : LCfg := ⟨2, ⟨2, 5⟩⟩

/-- 32 ticks carrying the sync word, then (8 ticks each) three more training bytes and the
    equalizer decisions `ZCZC-W`, all with the power above both thresholds -/
def demoHist : List Tick :=
  (List.range 32).map (fun i => (⟨SYNC_WORD.toBitVec.getLsbD i, true, true⟩, (0 : Byte)))
    ++ ([0, 0, 0, 0x5A, 0x43, 0x5A, 0x43, 0x2D, 0x57] : List Byte).flatMap
        (fun b => List.replicate 8 (⟨false, true, true⟩, b))

/-- `n` ticks below both thresholds (bits set, equalizer deciding `A`) -/
def demoSilence (n : Nat) : List Tick := List.replicate n (⟨true, false, false⟩, 0x41)

/-- non-vacuity: a cold-started link that synchronised, locked and is reading `ZCZC-W`; 32 silent
    ticks report the burst (grown by the three bytes decided before the carrier drop) exactly
    once and leave the link unsynchronised, unlocked and idle.  Tightness: after 31 silent ticks
    the lock is still held, so the bound 32 of `no_wedge` cannot be lowered. -/
example :
    let s := lrunState demoCfg {} demoHist
    (s.clock, s.lock, s.fr) = (some 1, true, .read [0x5A, 0x43, 0x5A, 0x43, 0x2D, 0x57] 0)
      ∧ lrunBursts demoCfg s (demoSilence 32)
          = [[0x5A, 0x43, 0x5A, 0x43, 0x2D, 0x57, 0x41, 0x41, 0x41]]
      ∧ ((lrunState demoCfg s (demoSilence 32)).clock, (lrunState demoCfg s (demoSilence 32)).lock,
          (lrunState demoCfg s (demoSilence 32)).fr) = (none, false, .idle)
      ∧ (lrunState demoCfg s (demoSilence 31)).lock = true := by
  decide +kernel

/-- non-vacuity of `hostile_history_forgotten`: after the history above and 64 silent ticks, a
    fresh sync word is answered exactly as by a new receiver that heard 32 silent ticks -/
example :
    lrun demoCfg (lrunState demoCfg {} (demoHist ++ demoSilence 64)) demoHist
      = lrun demoCfg (lrunState demoCfg {} (demoSilence 32)) demoHist
      ∧ .reading ∈ lrun demoCfg (lrunState demoCfg {} (demoSilence 32)) demoHist := by
  decide +kernel

/-- why `FrInv` needs `maxPrefixErr < 15`: with a prefix budget of 15 the forced preamble byte
    of a restart is itself accepted as a "prefix", the framer reads without the sync lock, and
    (with a sync-word budget that lets the very next tick re-synchronise) the link ends up
    unsynchronised with the framer still reading.  Both budgets are far outside what the builder
    hands to the framer (`frame_prefix_max_errors` is clamped to ≤ 7). -/
example :
    let s := lrunState ⟨32, ⟨15, 5⟩⟩ {} (List.replicate 33 (⟨true, true, true⟩, 0))
    (s.clock, s.lock, s.fr) = (none, false, .read [0, 0, 0, 0xAB] 0) := by
  decide +kernel

end SameVerif.C10
