import SameVerif.Lemmas.HeaderFields
import SameVerif.Lemmas.HeaderAccessors
import SameVerif.Model.Message
import SameVerif.Lemmas.HeaderSem
/-
  C06 — Header parsing accepts exactly the SAME grammar and exposes fields faithfully.
  Property theorems only.
-/
namespace SameVerif.C06
open SameVerif

theorem render_length (f : Fields) (hw : f.WF) :
    f.render.length = 12 + 7 * f.locs.length + 14 + f.call.length + 1 := by
  obtain ⟨⟨l1, _⟩, ⟨l3, _⟩, _, a4, ⟨l6, _⟩, ⟨l8, _⟩, _⟩ := hw
  have := renderLocs_length f.locs a4
  simp [Fields.render, litZCZC, l1, l3, l6, l8, this]
  omega

/-- the matcher's result, as seen through `check_header`'s two offsets -/
theorem checkHeader_fields (s : List Byte) (off len : Nat) (h : checkHeader s = some (off, len)) :
    ∃ f, parseFields s = some f ∧ f.WF ∧ s = f.render ++ f.rest ∧ off = 12 + 7 * f.locs.length
      ∧ len = f.render.length := by
  unfold checkHeader at h
  cases hp : parseFields s with
  | none => simp [hp] at h
  | some f =>
    simp [hp] at h
    obtain ⟨hw, hs⟩ := parseFields_sound s f hp
    refine ⟨f, rfl, hw, hs, h.1.symm, ?_⟩
    rw [render_length f hw]; omega

/-- **Accepted exactly the SAME grammar.**  A text is accepted iff it is ASCII and begins with
    `ZCZC-ORG-EEE(-PSSCCC)+ +TTTT-JJJHHMM-CALLSIGN-` (3 letters, 3 letters, 6-digit locations,
    4 and 7 digits, 3..8 characters other than LF). -/
theorem accepts_iff (s : List Byte) :
    (∃ h, Header.new s = .ok h) ↔
      (s.all isAsciiByte = true ∧ ∃ f rest, Fields.WF f ∧ s = f.render ++ rest) := by
  constructor
  · rintro ⟨h, hn⟩
    unfold Header.new at hn
    by_cases ha : s.all isAsciiByte = true
    · refine ⟨ha, ?_⟩
      simp only [ha, Bool.not_true, Bool.false_eq_true, ↓reduceIte] at hn
      cases hc : checkHeader s with
      | none => simp [hc] at hn
      | some p =>
        obtain ⟨off, len⟩ := p
        obtain ⟨f, _, hw, hs, _, _⟩ := checkHeader_fields s off len hc
        exact ⟨f, f.rest, hw, hs⟩
    · simp [ha] at hn
  · rintro ⟨ha, f, rest, hw, hs⟩
    obtain ⟨call', rest', hp⟩ := parseFields_complete f rest hw
    rw [← hs] at hp
    simp [Header.new, ha, checkHeader, hp]

/-- error kinds, in the code's order: non-ASCII first, then Malformed; never anything else -/
theorem rejects (s : List Byte) :
    (Header.new s = .error .notAscii ↔ s.all isAsciiByte = false) ∧
    (Header.new s = .error .malformed ↔
      (s.all isAsciiByte = true ∧ ¬ ∃ f rest, Fields.WF f ∧ s = f.render ++ rest)) ∧
    Header.new s ≠ .error .unrecognizedPrefix := by
  have hacc := accepts_iff s
  unfold Header.new at hacc ⊢
  by_cases ha : s.all isAsciiByte = true
  · simp only [ha, Bool.not_true, Bool.false_eq_true, ↓reduceIte, true_and] at hacc ⊢
    cases hc : checkHeader s with
    | none =>
      simp only [hc] at hacc ⊢
      refine ⟨by simp, ?_, by simp⟩
      constructor
      · intro _ hex; have := hacc.mpr hex; simp at this
      · intro _; trivial
    | some p =>
      simp only [hc] at hacc ⊢
      refine ⟨by simp, ?_, by simp⟩
      constructor
      · intro h; simp at h
      · intro h; exact absurd (hacc.mp ⟨_, rfl⟩) h
  · have ha' : s.all isAsciiByte = false := by simpa using ha
    simp [ha']

/-- **The stored text is exactly the matched prefix**, its time offset is the position of `+`,
    and the counters start at zero. -/
theorem text_canonical (s : List Byte) (h : Header) (hn : Header.new s = .ok h) :
    ∃ f, Fields.WF f ∧ parseFields s = some f ∧ h.text = f.render ∧ s = h.text ++ f.rest
      ∧ h.offsetTime = 12 + 7 * f.locs.length ∧ h.parity = 0 ∧ h.voting = 0 := by
  unfold Header.new at hn
  by_cases ha : s.all isAsciiByte = true
  · simp only [ha, Bool.not_true, Bool.false_eq_true, ↓reduceIte] at hn
    cases hc : checkHeader s with
    | none => simp [hc] at hn
    | some p =>
      obtain ⟨off, len⟩ := p
      obtain ⟨f, hp, hw, hs, hoff, hlen⟩ := checkHeader_fields s off len hc
      simp only [hc, Except.ok.injEq] at hn
      subst hn
      have htake : s.take len = f.render := by
        rw [hlen]; conv => lhs; rw [hs]
        simp
      refine ⟨f, hw, hp, htake, ?_, hoff, rfl, rfl⟩
      simp only [htake]; exact hs
  · simp [ha] at hn

/-- **Longest match.**  No header-shaped prefix of the input is longer than the stored text. -/
theorem text_longest (s : List Byte) (h : Header) (hn : Header.new s = .ok h)
    (g : Fields) (r : List Byte) (hg : Fields.WF g) (hs : s = g.render ++ r) :
    g.render.length ≤ h.text.length := by
  obtain ⟨f, hw, hp, ht, hsf, _, _, _⟩ := text_canonical s h hn
  obtain ⟨call', rest', hp'⟩ := parseFields_complete g r hg
  rw [← hs, hp] at hp'
  simp only [Option.some.injEq] at hp'
  -- f agrees with g on everything before the callsign; f.call is the greedy choice
  rw [ht, render_length f hw, render_length g hg]
  have hlocs : f.locs = g.locs := by rw [hp']
  have hcall : g.call.length ≤ f.call.length := by
    -- both callsigns split the same remainder
    have key : ∀ (pre sfx1 sfx2 : List Byte), pre ++ sfx1 = pre ++ sfx2 → sfx1 = sfx2 :=
      fun pre _ _ h => List.append_cancel_left h
    have hs1 : s = f.render ++ f.rest := by rw [← ht]; exact hsf
    have e : f.render ++ f.rest = g.render ++ r := by rw [← hs1, ← hs]
    have hf : f.org = g.org ∧ f.evt = g.evt ∧ f.purge = g.purge ∧ f.issue = g.issue := by
      rw [hp']; simp
    obtain ⟨ho, he, hpu, hi⟩ := hf
    simp only [Fields.render, ho, he, hlocs, hpu, hi, List.append_assoc, List.cons_append] at e
    have e' : f.call ++ 45 :: f.rest = g.call ++ 45 :: r := by
      simpa using e
    -- the matcher's callsign came from `callsignOf` on that remainder
    have hcs : callsignOf (f.call ++ 45 :: f.rest) = some (f.call, f.rest) := (parseFields_sound' s f hp).2.2
    exact callsignOf_greedy _ f.call f.rest g.call r hcs e' hg.call
  have := congrArg List.length hlocs
  omega

end SameVerif.C06

namespace SameVerif.C06
open SameVerif

/-! ## Accessors, re-parsing, line feeds, dispatch -/

/-- the facts of `text_canonical`, for the fields `f` the matcher found -/
theorem canonical_of_parse (s : List Byte) (h : Header) (hn : Header.new s = .ok h)
    (f : Fields) (hp : parseFields s = some f) :
    Fields.WF f ∧ h.text = f.render ∧ s = h.text ++ f.rest
      ∧ h.offsetTime = 12 + 7 * f.locs.length ∧ h.parity = 0 ∧ h.voting = 0 := by
  obtain ⟨f', hw, hp', ht, hs, ho, hpa, hv⟩ := text_canonical s h hn
  rw [hp] at hp'
  simp only [Option.some.injEq] at hp'
  subst hp'
  exact ⟨hw, ht, hs, ho, hpa, hv⟩

section accessors
variable (s : List Byte) (h : Header) (hn : Header.new s = .ok h)
  (f : Fields) (hp : parseFields s = some f)
include hn hp

/-- `originator_str` is the matched originator code -/
theorem accessor_org : h.originatorStr = .ok f.org := by
  obtain ⟨hw, ht, _, _, _, _⟩ := canonical_of_parse s h hn f hp
  exact originatorStr_render h f hw ht

/-- `event_str` is the matched event code -/
theorem accessor_evt : h.eventStr = .ok f.evt := by
  obtain ⟨hw, ht, _, _, _, _⟩ := canonical_of_parse s h hn f hp
  exact eventStr_render h f hw ht

/-- `callsign` is the matched callsign -/
theorem accessor_callsign : h.callsign = .ok f.call := by
  obtain ⟨hw, ht, _, ho, _, _⟩ := canonical_of_parse s h hn f hp
  exact callsign_render h f hw ht ho

/-- `location_str` is the matched locations joined by `-` -/
theorem accessor_locationStr : h.locationStr = .ok ([45].intercalate f.locs) := by
  obtain ⟨hw, ht, _, ho, _, _⟩ := canonical_of_parse s h hn f hp
  rw [← locText_eq_intercalate]
  exact locationStr_render h f hw ht ho

/-- `location_str_iter` yields the matched locations, all of them, in order -/
theorem accessor_locations : h.locations = .ok f.locs := by
  obtain ⟨hw, ht, _, ho, _, _⟩ := canonical_of_parse s h hn f hp
  exact locations_render h f hw ht ho

/-- `valid_duration_fields` is (hours, minutes) of the matched `TTTT` -/
theorem accessor_duration :
    h.validDurationFields = .ok (digitsVal (f.purge.take 2), digitsVal (f.purge.drop 2)) := by
  obtain ⟨hw, ht, _, ho, _, _⟩ := canonical_of_parse s h hn f hp
  exact validDurationFields_render h f hw ht ho

/-- `issue_daytime_fields` is (day of year, hour, minute) of the matched `JJJHHMM` -/
theorem accessor_issue :
    h.issueDaytimeFields = .ok (digitsVal (f.issue.take 3), digitsVal ((f.issue.drop 3).take 2),
      digitsVal (f.issue.drop 5)) := by
  obtain ⟨hw, ht, _, ho, _, _⟩ := canonical_of_parse s h hn f hp
  exact issueDaytimeFields_render h f hw ht ho

/-- **Accessors are faithful.**  Every accessor of an accepted header returns exactly the field the
    matcher found. -/
theorem accessors :
    h.originatorStr = .ok f.org ∧ h.eventStr = .ok f.evt ∧ h.callsign = .ok f.call
    ∧ h.locationStr = .ok ([45].intercalate f.locs) ∧ h.locations = .ok f.locs
    ∧ h.validDurationFields = .ok (digitsVal (f.purge.take 2), digitsVal (f.purge.drop 2))
    ∧ h.issueDaytimeFields = .ok (digitsVal (f.issue.take 3), digitsVal ((f.issue.drop 3).take 2),
        digitsVal (f.issue.drop 5)) :=
  ⟨accessor_org s h hn f hp, accessor_evt s h hn f hp, accessor_callsign s h hn f hp,
   accessor_locationStr s h hn f hp, accessor_locations s h hn f hp, accessor_duration s h hn f hp,
   accessor_issue s h hn f hp⟩

end accessors

/-- **No accessor can panic** on an accepted header: no slice is out of bounds, every numeric parse
    succeeds. -/
theorem accessors_total (s : List Byte) (h : Header) (hn : Header.new s = .ok h) :
    (∃ v, h.originatorStr = .ok v) ∧ (∃ v, h.eventStr = .ok v) ∧ (∃ v, h.callsign = .ok v)
    ∧ (∃ v, h.locationStr = .ok v) ∧ (∃ v, h.locations = .ok v)
    ∧ (∃ v, h.validDurationFields = .ok v) ∧ (∃ v, h.issueDaytimeFields = .ok v) := by
  obtain ⟨f, _, hp, _⟩ := text_canonical s h hn
  obtain ⟨h1, h2, h3, h4, h5, h6, h7⟩ := accessors s h hn f hp
  exact ⟨⟨_, h1⟩, ⟨_, h2⟩, ⟨_, h3⟩, ⟨_, h4⟩, ⟨_, h5⟩, ⟨_, h6⟩, ⟨_, h7⟩⟩

/-- **Re-parsing is the identity.**  The stored text of an accepted header is itself accepted and
    yields an equal header (same text, same time offset, zero counters). -/
theorem reparse (s : List Byte) (h : Header) (hn : Header.new s = .ok h) :
    Header.new h.text = .ok h := by
  obtain ⟨f, hw, hp, ht, hs, ho, hpa, hv⟩ := text_canonical s h hn
  have hascii : s.all isAsciiByte = true := ((accepts_iff s).mp ⟨h, hn⟩).1
  have ha : h.text.all isAsciiByte = true := by
    rw [hs, List.all_append, Bool.and_eq_true] at hascii
    exact hascii.1
  have hpr := parseFields_render f hw
  have hlen := render_length f hw
  obtain ⟨text, off, par, vot⟩ := h
  simp only at ht ho hpa hv ha
  subst ht ho hpa hv
  simp only [Header.new, ha, Bool.not_true, Bool.false_eq_true, ↓reduceIte, checkHeader, hpr]
  rw [← hlen, List.take_length]

/-- **No line feed.**  The stored text of an accepted header contains no LF byte. -/
theorem text_no_lf (s : List Byte) (h : Header) (hn : Header.new s = .ok h) : (10 : Byte) ∉ h.text := by
  obtain ⟨f, hw, _, ht, _⟩ := text_canonical s h hn
  rw [ht]
  exact render_no_lf f hw

/-- `new_with_error_info` accepts exactly what `new` accepts; it changes the two counters only -/
theorem newWithErrorInfo_ok (s : List Byte) (errs counts : List Nat) (h : Header) :
    Header.newWithErrorInfo s errs counts = .ok h ↔
      ∃ h0, Header.new s = .ok h0 ∧ h.text = h0.text ∧ h.offsetTime = h0.offsetTime
        ∧ h.parity = ((errs.zip h0.text).map (·.1)).sum
        ∧ h.voting = ((counts.zip h0.text).filter (fun p => !(p.1 < 3))).length := by
  unfold Header.newWithErrorInfo Header.newWithErrors
  cases hn : Header.new s with
  | error e => simp
  | ok h0 =>
    simp only [Except.ok.injEq]
    constructor
    · rintro rfl; exact ⟨h0, rfl, rfl, rfl, rfl, rfl⟩
    · rintro ⟨h1, he, h2, h3, h4, h5⟩
      cases he
      obtain ⟨t, o, p, v⟩ := h
      simp only at h2 h3 h4 h5
      subst h2 h3 h4 h5
      rfl

theorem newWithErrorInfo_error (s : List Byte) (errs counts : List Nat) (e : DecodeErr) :
    Header.newWithErrorInfo s errs counts = .error e ↔ Header.new s = .error e := by
  unfold Header.newWithErrorInfo Header.newWithErrors
  cases hn : Header.new s <;> simp

/-- **Dispatch of `TryFrom<(&[u8], &[u8], &[u8])>`.**  Invalid UTF-8 is `notAscii`; otherwise a
    `ZCZC-` prefix defers to `new_with_error_info` (same header, same error); otherwise an `NN`
    prefix is the end-of-message; otherwise the prefix is unrecognised. -/
theorem dispatch (inp : List Byte) (errs counts : List Nat) :
    (validUtf8 inp = false → Msg.tryFromBytes inp errs counts = .error .notAscii) ∧
    (validUtf8 inp = true → startsWith inp litZCZC = true →
      (∀ h, Msg.tryFromBytes inp errs counts = .ok (.som h)
              ↔ Header.newWithErrorInfo inp errs counts = .ok h) ∧
      (∀ e, Msg.tryFromBytes inp errs counts = .error e
              ↔ Header.newWithErrorInfo inp errs counts = .error e) ∧
      Msg.tryFromBytes inp errs counts ≠ .ok .eom) ∧
    (validUtf8 inp = true → startsWith inp litZCZC = false → startsWith inp litNN = true →
      Msg.tryFromBytes inp errs counts = .ok .eom) ∧
    (validUtf8 inp = true → startsWith inp litZCZC = false → startsWith inp litNN = false →
      Msg.tryFromBytes inp errs counts = .error .unrecognizedPrefix) := by
  refine ⟨?_, ?_, ?_, ?_⟩
  · intro hu; simp [Msg.tryFromBytes, hu]
  · intro hu hz
    simp only [Msg.tryFromBytes, hu, hz, Bool.not_true, Bool.false_eq_true, ↓reduceIte]
    cases Header.newWithErrorInfo inp errs counts <;> simp
  · intro hu hz hnn; simp [Msg.tryFromBytes, hu, hz, hnn]
  · intro hu hz hnn; simp [Msg.tryFromBytes, hu, hz, hnn]

/-- **Dispatch of `TryFrom<String>`**: as `dispatch`, without the UTF-8 test and with `new`. -/
theorem dispatch_string (inp : List Byte) :
    (startsWith inp litZCZC = true →
      (∀ h, Msg.tryFromString inp = .ok (.som h) ↔ Header.new inp = .ok h) ∧
      (∀ e, Msg.tryFromString inp = .error e ↔ Header.new inp = .error e) ∧
      Msg.tryFromString inp ≠ .ok .eom) ∧
    (startsWith inp litZCZC = false → startsWith inp litNN = true →
      Msg.tryFromString inp = .ok .eom) ∧
    (startsWith inp litZCZC = false → startsWith inp litNN = false →
      Msg.tryFromString inp = .error .unrecognizedPrefix) := by
  refine ⟨?_, ?_, ?_⟩
  · intro hz
    simp only [Msg.tryFromString, hz, ↓reduceIte]
    cases Header.new inp <;> simp
  · intro hz hnn; simp [Msg.tryFromString, hz, hnn]
  · intro hz hnn; simp [Msg.tryFromString, hz, hnn]

/-- the prefix tests of the dispatch, spelled out -/
theorem dispatch_prefix (inp : List Byte) :
    (startsWith inp litZCZC = true ↔ ∃ r, inp = [90, 67, 90, 67, 45] ++ r) ∧
    (startsWith inp litNN = true ↔ ∃ r, inp = [78, 78] ++ r) :=
  ⟨startsWith_iff inp litZCZC, startsWith_iff inp litNN⟩

/-! ### Non-vacuity: "ZCZC-WXR-RWT-012345-567890+0030-1231200-KLOX/NWS-" followed by junk -/

/-- "ZCZC-WXR-RWT-012345-567890+0030-1231200-KLOX/NWS-" -/
def exText : List Byte :=
  [90, 67, 90, 67, 45, 87, 88, 82, 45, 82, 87, 84, 45, 48, 49, 50, 51, 52, 53, 45, 53, 54, 55, 56, 57, 48,
   43, 48, 48, 51, 48, 45, 49, 50, 51, 49, 50, 48, 48, 45, 75, 76, 79, 88, 47, 78, 87, 83, 45]

/-- trailing bytes after the header: NUL, LF, "B-" -/
def exTrail : List Byte := [0, 10, 66, 45]

def exHeader : Header := ⟨exText, 26, 0, 0⟩

/-- the fields the matcher finds in the example -/
def exFields : Fields :=
  { org := [87, 88, 82], evt := [82, 87, 84]
    locs := [[48, 49, 50, 51, 52, 53], [53, 54, 55, 56, 57, 48]]
    purge := [48, 48, 51, 48], issue := [49, 50, 51, 49, 50, 48, 48]
    call := [75, 76, 79, 88, 47, 78, 87, 83], rest := exTrail }

example : parseFields (exText ++ exTrail) = some exFields := by rfl
example : Header.new (exText ++ exTrail) = .ok exHeader := by rfl
example : exHeader.originatorStr = .ok [87, 88, 82] := by rfl                     -- "WXR"
example : exHeader.eventStr = .ok [82, 87, 84] := by rfl                          -- "RWT"
example : exHeader.locations = .ok [[48, 49, 50, 51, 52, 53], [53, 54, 55, 56, 57, 48]] := by
  rfl                                                                             -- "012345", "567890"
example : exHeader.callsign = .ok [75, 76, 79, 88, 47, 78, 87, 83] := by rfl      -- "KLOX/NWS"
example : exHeader.validDurationFields = .ok (0, 30) := by rfl
example : exHeader.issueDaytimeFields = .ok (123, 12, 0) := by rfl
example : Header.new exHeader.text = .ok exHeader := by rfl
example : Msg.tryFromString (exText ++ exTrail) = .ok (.som exHeader) := by rfl
example : Msg.tryFromBytes (exText ++ exTrail) [] [] = .ok (.som exHeader) := by rfl

end SameVerif.C06

namespace SameVerif.C06
open SameVerif SameVerif.Gen

/-! ## The interpreting accessors: `originator()`, `event()`, `is_national()` -/

section sem
variable (s : List Byte) (h : Header) (hn : Header.new s = .ok h)
  (f : Fields) (hp : parseFields s = some f)
include hn hp

/-- `originator()` classifies exactly the matched originator code and callsign -/
theorem accessor_originator : h.originator = .ok (originatorOf (natStr f.org) (natStr f.call)) := by
  simp [Header.originator, accessor_org s h hn f hp, accessor_callsign s h hn f hp]

/-- `event()` decodes exactly the matched event code -/
theorem accessor_event : h.event = .ok (eventCode (natStr f.evt)) := by
  simp [Header.event, accessor_evt s h hn f hp]

/-- `is_national()`: the only location is `000000` and the matched event code decodes to a
    national phenomenon -/
theorem accessor_national :
    h.isNational = .ok (decide (f.locs = [[48, 48, 48, 48, 48, 48]]) && (eventCode (natStr f.evt)).1.info.national) := by
  obtain ⟨hw, _, _, _, _, _⟩ := canonical_of_parse s h hn f hp
  have hl := locs_national_iff f.locs hw.locs_ne hw.locs
  simp only [Header.isNational, accessor_locationStr s h hn f hp, accessor_event s h hn f hp, hl]
  by_cases hg : f.locs = [[48, 48, 48, 48, 48, 48]] <;> simp [hg]

end sem

/-- the originator class is a function of the ORG code and the first three callsign bytes only:
    the four assigned codes map to their class, `WXR` is Environment Canada exactly when the
    callsign *begins* `EC/`, every other three-letter code is `Unknown` -/
theorem originator_class (org call : List Byte) (hlen : org.length = 3) :
    originatorOf (natStr org) (natStr call) =
      if org = [80, 69, 80] then .PrimaryEntryPoint
      else if org = [67, 73, 86] then .CivilAuthority
      else if org = [69, 65, 83] then .BroadcastStation
      else if org = [87, 88, 82] then
        (if call.take 3 = [69, 67, 47] then .EnvironmentCanada else .NationalWeatherService)
      else .Unknown := by
  match org, hlen with
  | [a, b, c], _ =>
    by_cases h1 : [a, b, c] = [80, 69, 80]
    · simp only [List.cons.injEq, and_true] at h1; obtain ⟨rfl, rfl, rfl⟩ := h1; rfl
    by_cases h2 : [a, b, c] = [67, 73, 86]
    · simp only [List.cons.injEq, and_true] at h2; obtain ⟨rfl, rfl, rfl⟩ := h2; rfl
    by_cases h3 : [a, b, c] = [69, 65, 83]
    · simp only [List.cons.injEq, and_true] at h3; obtain ⟨rfl, rfl, rfl⟩ := h3; rfl
    by_cases h4 : [a, b, c] = [87, 88, 82]
    · simp only [List.cons.injEq, and_true] at h4; obtain ⟨rfl, rfl, rfl⟩ := h4
      have hc : startsWithN (natStr call) [69, 67, 47] = decide (call.take 3 = [69, 67, 47]) := by
        have e : startsWithN (natStr call) [69, 67, 47] = (natStr (call.take 3) == [69, 67, 47]) := by
          simp [startsWithN, natStr, List.map_take]
        rw [e]
        by_cases hh : call.take 3 = [69, 67, 47]
        · rw [hh]; decide
        · have : natStr (call.take 3) ≠ [69, 67, 47] := fun e => hh (natStr_inj _ [69, 67, 47] e)
          rw [beq_eq_false_iff_ne.mpr this]; simp [hh]
      have hp : originatorParse (natStr [87, 88, 82]) = .NationalWeatherService := by decide
      unfold originatorOf
      rw [hp, hc]
      by_cases hh : call.take 3 = [69, 67, 47] <;> simp [hh]
    · have n1 : natStr [a, b, c] ≠ [80, 69, 80] := fun e => h1 (natStr_inj _ [80, 69, 80] e)
      have n2 : natStr [a, b, c] ≠ [67, 73, 86] := fun e => h2 (natStr_inj _ [67, 73, 86] e)
      have n3 : natStr [a, b, c] ≠ [69, 65, 83] := fun e => h3 (natStr_inj _ [69, 65, 83] e)
      have n4 : natStr [a, b, c] ≠ [87, 88, 82] := fun e => h4 (natStr_inj _ [87, 88, 82] e)
      have n0 : natStr [a, b, c] ≠ [] := by simp [natStr]
      have n5 : natStr [a, b, c] ≠ [69,110,118,105,114,111,110,109,101,110,116,67,97,110,97,100,97] := by
        simp [natStr]
      simp only [originatorOf, originatorParse, h1, h2, h3, h4, if_false]
      simp [n0, n1, n2, n3, n4, n5]


/-- **The national flag reflects the text.**  `is_national()` is true exactly when the header's
    only location is `000000` and its event code is one of EAN, NIC, NAT, NPT, NST. -/
theorem national_flag (s : List Byte) (h : Header) (hn : Header.new s = .ok h)
    (f : Fields) (hp : parseFields s = some f) :
    h.isNational = .ok true ↔ (f.locs = [[48, 48, 48, 48, 48, 48]] ∧ natStr f.evt ∈ nationalCodes) := by
  rw [accessor_national s h hn f hp, ← national_iff]
  by_cases hg : f.locs = [[48, 48, 48, 48, 48, 48]] <;> simp [hg]

/-- the interpreting accessors cannot panic either -/
theorem sem_accessors_total (s : List Byte) (h : Header) (hn : Header.new s = .ok h) :
    (∃ v, h.originator = .ok v) ∧ (∃ v, h.event = .ok v) ∧ (∃ v, h.isNational = .ok v) := by
  obtain ⟨f, _, hp, _⟩ := text_canonical s h hn
  exact ⟨⟨_, accessor_originator s h hn f hp⟩, ⟨_, accessor_event s h hn f hp⟩,
    ⟨_, accessor_national s h hn f hp⟩⟩

-- the hypotheses are met and the conclusions are not trivial: an Environment Canada header, a
-- National Weather Service header whose callsign merely *contains* `EC/`, and a national test
def exEC : List Byte := [90, 67, 90, 67, 45, 87, 88, 82, 45, 83, 86, 82, 45, 48, 49, 50, 51, 52, 53, 43, 48, 48, 51, 48, 45, 49, 50, 51, 49, 50, 48, 48, 45, 69, 67, 47, 71, 67, 47, 67, 65, 45]
def exKEC : List Byte := [90, 67, 90, 67, 45, 87, 88, 82, 45, 83, 86, 82, 45, 48, 49, 50, 51, 52, 53, 43, 48, 48, 51, 48, 45, 49, 50, 51, 49, 50, 48, 48, 45, 75, 69, 67, 47, 78, 87, 83, 32, 45]
def exNPT : List Byte := [90, 67, 90, 67, 45, 80, 69, 80, 45, 78, 80, 84, 45, 48, 48, 48, 48, 48, 48, 43, 48, 48, 51, 48, 45, 49, 50, 51, 49, 50, 48, 48, 45, 87, 72, 73, 84, 69, 72, 83, 69, 45]
def exNPT2 : List Byte := [90, 67, 90, 67, 45, 80, 69, 80, 45, 78, 80, 84, 45, 48, 48, 48, 48, 48, 48, 45, 48, 49, 50, 51, 52, 53, 43, 48, 48, 51, 48, 45, 49, 50, 51, 49, 50, 48, 48, 45, 87, 72, 73, 84, 69, 72, 83, 69, 45]
example : Header.new exEC = .ok ⟨exEC, 19, 0, 0⟩ := by rfl
example : (⟨exEC, 19, 0, 0⟩ : Header).originator = .ok .EnvironmentCanada := by rfl
example : Header.new exKEC = .ok ⟨exKEC, 19, 0, 0⟩ := by rfl
example : (⟨exKEC, 19, 0, 0⟩ : Header).originator = .ok .NationalWeatherService := by rfl
example : Header.new exNPT = .ok ⟨exNPT, 19, 0, 0⟩ := by rfl
example : (⟨exNPT, 19, 0, 0⟩ : Header).isNational = .ok true := by rfl
example : Header.new exNPT2 = .ok ⟨exNPT2, 26, 0, 0⟩ := by rfl
example : (⟨exNPT2, 26, 0, 0⟩ : Header).isNational = .ok false := by rfl

end SameVerif.C06
