import SameVerif.Lemmas.HeaderFields
/-
  C06 — Header parsing accepts exactly the SAME grammar and exposes fields faithfully.
  Property theorems only.
-/
namespace SameVerif.C06
open SameVerif

theorem render_length (f : Fields) (hw : f.WF) :
    f.render.length = 12 + 7 * f.locs.length + 14 + f.call.length + 1 := by
  obtain ⟨⟨l1, _⟩, ⟨l3, _⟩, _, a4, ⟨l6, _⟩, ⟨l8, _⟩, _⟩ := hw
  have := renderLocs_length f.locs a4
  simp [Fields.render, litZCZC, l1, l3, l6, l8, this]
  omega

/-- the matcher's result, as seen through `check_header`'s two offsets -/
theorem checkHeader_fields (s : List Byte) (off len : Nat) (h : checkHeader s = some (off, len)) :
    ∃ f, parseFields s = some f ∧ f.WF ∧ s = f.render ++ f.rest ∧ off = 12 + 7 * f.locs.length
      ∧ len = f.render.length := by
  unfold checkHeader at h
  cases hp : parseFields s with
  | none => simp [hp] at h
  | some f =>
    simp [hp] at h
    obtain ⟨hw, hs⟩ := parseFields_sound s f hp
    refine ⟨f, rfl, hw, hs, h.1.symm, ?_⟩
    rw [render_length f hw]; omega

/-- **Accepted exactly the SAME grammar.**  A text is accepted iff it is ASCII and begins with
    `ZCZC-ORG-EEE(-PSSCCC)+ +TTTT-JJJHHMM-CALLSIGN-` (3 letters, 3 letters, 6-digit locations,
    4 and 7 digits, 3..8 characters other than LF). -/
theorem accepts_iff (s : List Byte) :
    (∃ h, Header.new s = .ok h) ↔
      (s.all isAsciiByte = true ∧ ∃ f rest, Fields.WF f ∧ s = f.render ++ rest) := by
  constructor
  · rintro ⟨h, hn⟩
    unfold Header.new at hn
    by_cases ha : s.all isAsciiByte = true
    · refine ⟨ha, ?_⟩
      simp only [ha, Bool.not_true, Bool.false_eq_true, ↓reduceIte] at hn
      cases hc : checkHeader s with
      | none => simp [hc] at hn
      | some p =>
        obtain ⟨off, len⟩ := p
        obtain ⟨f, _, hw, hs, _, _⟩ := checkHeader_fields s off len hc
        exact ⟨f, f.rest, hw, hs⟩
    · simp [ha] at hn
  · rintro ⟨ha, f, rest, hw, hs⟩
    obtain ⟨call', rest', hp⟩ := parseFields_complete f rest hw
    rw [← hs] at hp
    simp [Header.new, ha, checkHeader, hp]

/-- error kinds, in the code's order: non-ASCII first, then Malformed; never anything else -/
theorem rejects (s : List Byte) :
    (Header.new s = .error .notAscii ↔ s.all isAsciiByte = false) ∧
    (Header.new s = .error .malformed ↔
      (s.all isAsciiByte = true ∧ ¬ ∃ f rest, Fields.WF f ∧ s = f.render ++ rest)) ∧
    Header.new s ≠ .error .unrecognizedPrefix := by
  have hacc := accepts_iff s
  unfold Header.new at hacc ⊢
  by_cases ha : s.all isAsciiByte = true
  · simp only [ha, Bool.not_true, Bool.false_eq_true, ↓reduceIte, true_and] at hacc ⊢
    cases hc : checkHeader s with
    | none =>
      simp only [hc] at hacc ⊢
      refine ⟨by simp, ?_, by simp⟩
      constructor
      · intro _ hex; have := hacc.mpr hex; simp at this
      · intro _; trivial
    | some p =>
      simp only [hc] at hacc ⊢
      refine ⟨by simp, ?_, by simp⟩
      constructor
      · intro h; simp at h
      · intro h; exact absurd (hacc.mp ⟨_, rfl⟩) h
  · have ha' : s.all isAsciiByte = false := by simpa using ha
    simp [ha']

/-- **The stored text is exactly the matched prefix**, its time offset is the position of `+`,
    and the counters start at zero. -/
theorem text_canonical (s : List Byte) (h : Header) (hn : Header.new s = .ok h) :
    ∃ f, Fields.WF f ∧ parseFields s = some f ∧ h.text = f.render ∧ s = h.text ++ f.rest
      ∧ h.offsetTime = 12 + 7 * f.locs.length ∧ h.parity = 0 ∧ h.voting = 0 := by
  unfold Header.new at hn
  by_cases ha : s.all isAsciiByte = true
  · simp only [ha, Bool.not_true, Bool.false_eq_true, ↓reduceIte] at hn
    cases hc : checkHeader s with
    | none => simp [hc] at hn
    | some p =>
      obtain ⟨off, len⟩ := p
      obtain ⟨f, hp, hw, hs, hoff, hlen⟩ := checkHeader_fields s off len hc
      simp only [hc, Except.ok.injEq] at hn
      subst hn
      have htake : s.take len = f.render := by
        rw [hlen]; conv => lhs; rw [hs]
        simp
      refine ⟨f, hw, hp, htake, ?_, hoff, rfl, rfl⟩
      simp only [htake]; exact hs
  · simp [ha] at hn

/-- **Longest match.**  No header-shaped prefix of the input is longer than the stored text. -/
theorem text_longest (s : List Byte) (h : Header) (hn : Header.new s = .ok h)
    (g : Fields) (r : List Byte) (hg : Fields.WF g) (hs : s = g.render ++ r) :
    g.render.length ≤ h.text.length := by
  obtain ⟨f, hw, hp, ht, hsf, _, _, _⟩ := text_canonical s h hn
  obtain ⟨call', rest', hp'⟩ := parseFields_complete g r hg
  rw [← hs, hp] at hp'
  simp only [Option.some.injEq] at hp'
  -- f agrees with g on everything before the callsign; f.call is the greedy choice
  rw [ht, render_length f hw, render_length g hg]
  have hlocs : f.locs = g.locs := by rw [hp']
  have hcall : g.call.length ≤ f.call.length := by
    -- both callsigns split the same remainder
    have key : ∀ (pre sfx1 sfx2 : List Byte), pre ++ sfx1 = pre ++ sfx2 → sfx1 = sfx2 :=
      fun pre _ _ h => List.append_cancel_left h
    have hs1 : s = f.render ++ f.rest := by rw [← ht]; exact hsf
    have e : f.render ++ f.rest = g.render ++ r := by rw [← hs1, ← hs]
    have hf : f.org = g.org ∧ f.evt = g.evt ∧ f.purge = g.purge ∧ f.issue = g.issue := by
      rw [hp']; simp
    obtain ⟨ho, he, hpu, hi⟩ := hf
    simp only [Fields.render, ho, he, hlocs, hpu, hi, List.append_assoc, List.cons_append] at e
    have e' : f.call ++ 45 :: f.rest = g.call ++ 45 :: r := by
      simpa using e
    -- the matcher's callsign came from `callsignOf` on that remainder
    have hcs : callsignOf (f.call ++ 45 :: f.rest) = some (f.call, f.rest) := (parseFields_sound' s f hp).2.2
    exact callsignOf_greedy _ f.call f.rest g.call r hcs e' hg.call
  have := congrArg List.length hlocs
  omega

end SameVerif.C06
