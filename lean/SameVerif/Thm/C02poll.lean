import SameVerif.Thm.C05seq
import SameVerif.Lemmas.AssemblerPoll
/-
  C02poll — Two of three bursts suffice AT THE TRANSPORT, whichever burst is the corrupted one and
  whatever the poll schedule.

  `C03.combine_two_of_three` is about one call of `combine`; `C02.three_bursts_report` is about
  three bursts that all carry the header.  Here the odd burst `X` is arbitrary (any bytes, any
  length, empty, `NN…`, a truncated or extended copy of the header) and sits in any of the three
  positions, polls are interleaved arbitrarily, and the claim is about everything the assembler
  outputs: exactly one StartOfMessage, with the text `H`.

  For the odd burst in the first or second position the TWO-burst vote `[X, H]` / `[H, X]` is
  taken before the third burst arrives, and it can be output if a poll reaches its hold deadline in
  between.  It reads the common prefix of `H` and `X`; if a proper prefix of `H` is itself a
  complete header (a callsign with `-` inside), that prefix is reported, and `H` is reported after
  it: `prefix_header_reported_twice`.  Hence the hypothesis `NoHeaderPrefix H` for those positions
  (not needed when the odd burst comes last).
  Helper lemmas live in Lemmas/AssemblerPoll.lean.
-/
namespace SameVerif.C02poll
open SameVerif SameVerif.Spec SameVerif.Asm

/-- three bursts ending at `t1`, `t2`, `t3`; polls `p1` between the first two, `p2` between the
    last two, `p3` afterwards, and a last poll at `t` -/
def sched (b1 b2 b3 : List Byte) (t1 t2 t3 t : Nat) (p1 p2 p3 : List Nat) : List AOp :=
  .burst b1 t1 :: (p1.map .poll ++ .burst b2 t2 :: (p2.map .poll ++ .burst b3 t3 ::
    (p3.map .poll ++ [.poll t])))

/-! ### 1. the two-burst vote with one header burst -/

/-- **A header and any other burst.**  `H` is a canonical header text in the SAME character set,
    no proper prefix of which is itself a complete header.  Whatever the other burst is, and in
    either order, the two-burst vote yields no StartOfMessage other than `H` itself (exactly: it
    yields nothing, an error, or `H` with no byte voted by three). -/
theorem pair_with_header (maxLen : Nat) (H X : List Byte) (off : Nat)
    (hall : ∀ b ∈ H, isAllowed b = true)
    (hcan : checkHeader H = some (off, H.length))
    (hnp : NoHeaderPrefix H) (h : Header)
    (hc : combine maxLen [H, X] = some (.ok (.som h)) ∨ combine maxLen [X, H] = some (.ok (.som h))) :
    h.text = H ∧ h.offsetTime = off ∧ h.voting = 0 := by
  have hpre : ∀ (i : Nat) (hi : i < h.text.length), ∃ (hH : i < H.length), H[i] = h.text[i] := by
    intro i hi
    rcases hc with hc | hc
    · obtain ⟨ha, _, h1, _⟩ := C04.pair_agrees maxLen H X h hc i hi
      refine ⟨ha, ?_⟩
      rw [← h1]
      exact (allowed_mask _ (hall _ (List.getElem_mem ha))).symm
    · obtain ⟨_, hb, _, h2⟩ := C04.pair_agrees maxLen X H h hc i hi
      refine ⟨hb, ?_⟩
      rw [← h2]
      exact (allowed_mask _ (hall _ (List.getElem_mem hb))).symm
  have hv : h.voting = 0 := by
    rcases hc with hc | hc <;> exact combine_pair_voting maxLen _ _ h hc
  have hcanh : checkHeader h.text = some (h.offsetTime, h.text.length) := by
    rcases hc with hc | hc <;> exact combine_som_canonical maxLen _ h hc
  have hlen : h.text.length ≤ H.length := by
    apply Nat.le_of_not_lt
    intro hlt
    obtain ⟨hH, _⟩ := hpre H.length hlt
    omega
  have htake : h.text = H.take h.text.length := by
    apply List.ext_getElem
    · rw [List.length_take]; omega
    · intro i h1 h2
      obtain ⟨hH, e⟩ := hpre i h1
      rw [List.getElem_take, e]
  by_cases hlt : h.text.length < H.length
  · exfalso
    apply hnp _ hlt h.offsetTime
    rw [← htake]
    exact hcanh
  · have hle : h.text.length = H.length := by omega
    have hH : h.text = H := by rw [htake, hle, List.take_length]
    refine ⟨hH, ?_, hv⟩
    rw [hH, hcan] at hcanh
    simp only [Option.some.injEq, Prod.mk.injEq] at hcanh
    exact hcanh.1.symm

/-! ### 2. the odd burst in each of the three positions -/

/-- **The odd burst comes last** (`H`, `H`, `X`).  Any `X`, any polls in time order, a last poll at
    or after `t3 + HOLD`: exactly one StartOfMessage is output in the whole run, with the text `H`.
    (`NoHeaderPrefix` is not needed: the two-burst vote is over two copies of `H`.) -/
theorem two_of_three_polls_last (H X : List Byte) (off t1 t2 t3 t : Nat)
    (polls1 polls2 polls3 : List Nat) (cH : C05seq.Canon H off)
    (hsort : Sorted (sched H H X t1 t2 t3 t polls1 polls2 polls3))
    (h31 : t3 < t1 + HIST) (ht : t3 + HOLD ≤ t) :
    ∃ u h, soms (runOps {} (sched H H X t1 t2 t3 t polls1 polls2 polls3)).2 = [(u, h)]
      ∧ h.text = H ∧ h.offsetTime = off := by
  obtain ⟨h12, h23, hp1, hp2⟩ := C02.three_bursts_sorted _ _ _ _ _ _ _ _ _ _ hsort
  have hne := cH.nonempty
  have htake : H.take MAXLEN = H := List.take_of_length_le cH.fit
  have hHN := header_ne_trailer H _ cH.parse
  have hHIST := HIST_pos
  unfold sched
  by_cases hX : X.isEmpty = true
  · -- an empty burst is a poll: two header bursts and polls
    have e : AOp.burst H t1 :: (polls1.map .poll ++ .burst H t2 :: (polls2.map .poll ++ .burst X t3 ::
          (polls3.map .poll ++ [.poll t])))
        = (AOp.burst H t1 :: (polls1.map .poll ++ .burst H t2 :: polls2.map .poll)) ++ .burst X t3 ::
          (polls3.map .poll ++ [.poll t]) := by simp
    have e' : (AOp.burst H t1 :: (polls1.map .poll ++ .burst H t2 :: polls2.map .poll)) ++ .poll t3 ::
          (polls3.map .poll ++ [.poll t])
        = AOp.burst H t1 :: (polls1.map .poll ++ .burst H t2 ::
          ((polls2 ++ t3 :: polls3).map .poll ++ [.poll t])) := by simp
    rw [e, runOps_burst_empty _ _ _ _ _ hX, e']
    obtain ⟨u, hu⟩ := two_equal_polls H off t1 t2 t polls1 (polls2 ++ t3 :: polls3) cH.parse cH.fit
      cH.two (by omega) hp1 (by omega)
    exact ⟨u, _, by rw [hu]; rfl, rfl, rfl⟩
  · have hX' : X.isEmpty = false := by simpa using hX
    have hgood : GoodEst H off (combine MAXLEN [H.take MAXLEN, H.take MAXLEN]) := by
      intro h hc
      rw [htake, cH.two] at hc
      simp only [Option.some.injEq, Except.ok.injEq, Msg.som.injEq] at hc
      subst hc
      exact ⟨rfl, rfl, rfl⟩
    obtain ⟨S2, out, hrun, hso, hO, hh⟩ := first_two H off H H t1 t2 polls1 hne hne hHN h12 (by omega)
      hp1 hgood
    rw [htake] at hh
    have hops : polls3.map AOp.poll ++ [.poll t] = (polls3 ++ [t]).map AOp.poll := by simp
    obtain ⟨u, h, hs, ht', ho⟩ := finish_third H off t1 S2 X t3 polls2 (polls3 ++ [t])
      [⟨H, t1 + HIST⟩, ⟨H, t2 + HIST⟩] ⟨H, off, specParity H (X.take MAXLEN), specVoting H (X.take MAXLEN)⟩
      hO hX' hp2
      (by rw [hh]; exact prune_two_fresh _ _ _ (by simp only; omega) (by simp only; omega))
      (cH.hhx _) rfl rfl h31 ⟨t, by simp, ht⟩
    refine ⟨u, h, ?_, ht', ho⟩
    rw [hrun, soms_append, hso, hops, hs]
    rfl

/-- **The odd burst comes first** (`X`, `H`, `H`).  Any `X` — if it begins `NN` it is output as an
    EndOfMessage, which is not a StartOfMessage —, any polls in time order, a last poll at or after
    `t3 + HOLD`; no proper prefix of `H` is itself a header.  Exactly one StartOfMessage is output in
    the whole run, with the text `H`. -/
theorem two_of_three_polls_first (H X : List Byte) (off t1 t2 t3 t : Nat)
    (polls1 polls2 polls3 : List Nat) (cH : C05seq.Canon H off) (hnp : NoHeaderPrefix H)
    (hsort : Sorted (sched X H H t1 t2 t3 t polls1 polls2 polls3))
    (h31 : t3 < t1 + HIST) (ht : t3 + HOLD ≤ t) :
    ∃ u h, soms (runOps {} (sched X H H t1 t2 t3 t polls1 polls2 polls3)).2 = [(u, h)]
      ∧ h.text = H ∧ h.offsetTime = off := by
  obtain ⟨h12, h23, hp1, hp2⟩ := C02.three_bursts_sorted _ _ _ _ _ _ _ _ _ _ hsort
  have hne := cH.nonempty
  have htake : H.take MAXLEN = H := List.take_of_length_le cH.fit
  have hHN := header_ne_trailer H _ cH.parse
  have hHIST := HIST_pos
  unfold sched
  by_cases hX : X.isEmpty = true
  · -- an empty burst is a poll, and polls do nothing to the initial state
    have e := runOps_burst_empty {} [] (polls1.map .poll ++ .burst H t2 :: (polls2.map .poll ++ .burst H t3 ::
          (polls3.map .poll ++ [.poll t]))) X t1 hX
    simp only [List.nil_append] at e
    have e' : AOp.poll t1 :: (polls1.map .poll ++ .burst H t2 :: (polls2.map .poll ++ .burst H t3 ::
          (polls3.map .poll ++ [.poll t])))
        = (t1 :: polls1).map AOp.poll ++ .burst H t2 :: (polls2.map .poll ++ .burst H t3 ::
          (polls3.map .poll ++ [.poll t])) := by simp
    have hstill : runOps {} ((t1 :: polls1).map AOp.poll) = ({}, []) :=
      run_polls_still _ {} rfl (by simp) (by intro _ _ e he; cases he)
    rw [e, e', runOps_append_snd, hstill]
    obtain ⟨u, hu⟩ := two_equal_polls H off t2 t3 t polls2 polls3 cH.parse cH.fit
      cH.two (by omega) hp2 ht
    exact ⟨u, _, by rw [hu]; rfl, rfl, rfl⟩
  · have hX' : X.isEmpty = false := by simpa using hX
    have hgood : GoodEst H off (combine MAXLEN [X.take MAXLEN, H.take MAXLEN]) := by
      intro h hc
      rw [htake] at hc
      exact pair_with_header MAXLEN H _ off cH.allowed cH.parse hnp h (Or.inr hc)
    obtain ⟨S2, out, hrun, hso, hO, hh⟩ := first_two H off X H t1 t2 polls1 hX' hne hHN h12 (by omega)
      hp1 hgood
    rw [htake] at hh
    have hops : polls3.map AOp.poll ++ [.poll t] = (polls3 ++ [t]).map AOp.poll := by simp
    obtain ⟨u, h, hs, ht', ho⟩ := finish_third H off t1 S2 H t3 polls2 (polls3 ++ [t])
      [⟨X.take MAXLEN, t1 + HIST⟩, ⟨H, t2 + HIST⟩]
      ⟨H, off, specParity H (X.take MAXLEN), specVoting H (X.take MAXLEN)⟩
      hO hne hp2
      (by rw [hh]; exact prune_two_fresh _ _ _ (by simp only; omega) (by simp only; omega))
      (by rw [htake]; exact cH.xhh _) rfl rfl h31 ⟨t, by simp, ht⟩
    refine ⟨u, h, ?_, ht', ho⟩
    rw [hrun, soms_append, hso, hops, hs]
    rfl

/-- **The odd burst comes second** (`H`, `X`, `H`).  Any `X`, any polls in time order, a last poll
    at or after `t3 + HOLD`; no proper prefix of `H` is itself a header.  Exactly one StartOfMessage
    is output in the whole run, with the text `H`. -/
theorem two_of_three_polls_middle (H X : List Byte) (off t1 t2 t3 t : Nat)
    (polls1 polls2 polls3 : List Nat) (cH : C05seq.Canon H off) (hnp : NoHeaderPrefix H)
    (hsort : Sorted (sched H X H t1 t2 t3 t polls1 polls2 polls3))
    (h31 : t3 < t1 + HIST) (ht : t3 + HOLD ≤ t) :
    ∃ u h, soms (runOps {} (sched H X H t1 t2 t3 t polls1 polls2 polls3)).2 = [(u, h)]
      ∧ h.text = H ∧ h.offsetTime = off := by
  obtain ⟨h12, h23, hp1, hp2⟩ := C02.three_bursts_sorted _ _ _ _ _ _ _ _ _ _ hsort
  have hne := cH.nonempty
  have htake : H.take MAXLEN = H := List.take_of_length_le cH.fit
  have hHN := header_ne_trailer H _ cH.parse
  have hHIST := HIST_pos
  unfold sched
  by_cases hX : X.isEmpty = true
  · have e := runOps_burst_empty {} (.burst H t1 :: polls1.map .poll) (polls2.map .poll ++ .burst H t3 ::
          (polls3.map .poll ++ [.poll t])) X t2 hX
    simp only [List.cons_append] at e
    have e' : AOp.burst H t1 :: (polls1.map .poll ++ .poll t2 :: (polls2.map .poll ++ .burst H t3 ::
          (polls3.map .poll ++ [.poll t])))
        = AOp.burst H t1 :: ((polls1 ++ t2 :: polls2).map .poll ++ .burst H t3 ::
          (polls3.map .poll ++ [.poll t])) := by simp
    rw [e, e']
    obtain ⟨u, hu⟩ := two_equal_polls H off t1 t3 t (polls1 ++ t2 :: polls2) polls3 cH.parse cH.fit
      cH.two h31 (by
        intro v hv
        rcases List.mem_append.mp hv with hv | hv
        · exact Nat.le_trans (hp1 v hv) h23
        · rcases List.mem_cons.mp hv with rfl | hv
          · exact h23
          · exact hp2 v hv) ht
    exact ⟨u, _, by rw [hu]; rfl, rfl, rfl⟩
  · have hX' : X.isEmpty = false := by simpa using hX
    have hgood : GoodEst H off (combine MAXLEN [H.take MAXLEN, X.take MAXLEN]) := by
      intro h hc
      rw [htake] at hc
      exact pair_with_header MAXLEN H _ off cH.allowed cH.parse hnp h (Or.inl hc)
    obtain ⟨S2, out, hrun, hso, hO, hh⟩ := first_two H off H X t1 t2 polls1 hne hX' hHN h12 (by omega)
      hp1 hgood
    rw [htake] at hh
    have hops : polls3.map AOp.poll ++ [.poll t] = (polls3 ++ [t]).map AOp.poll := by simp
    obtain ⟨u, h, hs, ht', ho⟩ := finish_third H off t1 S2 H t3 polls2 (polls3 ++ [t])
      [⟨H, t1 + HIST⟩, ⟨X.take MAXLEN, t2 + HIST⟩]
      ⟨H, off, specParity H (X.take MAXLEN), specVoting H (X.take MAXLEN)⟩
      hO hne hp2
      (by rw [hh]; exact prune_two_fresh _ _ _ (by simp only; omega) (by simp only; omega))
      (by rw [htake]
          exact C03.combine_two_of_three MAXLEN 1 H (X.take MAXLEN) off cH.allowed cH.parse cH.fit)
      rfl rfl h31 ⟨t, by simp, ht⟩
    refine ⟨u, h, ?_, ht', ho⟩
    rw [hrun, soms_append, hso, hops, hs]
    rfl

/-! ### 3. all positions at once -/

/-- **Two of three bursts suffice at the transport, under arbitrary interleaved polls.**
    `H` is a canonical header text that fits the burst buffer; `X` is anything (any bytes, any
    length, empty, `NN…`, a truncated or extended copy of `H`); the three bursts are `H`, `H` and
    `X` with `X` in position `pos` (0, 1, or last), ending at `t1 ≤ t2 ≤ t3 < t1 + HIST`; polls — any
    number, anywhere, in time order — and a last poll at or after `t3 + HOLD`.  If `X` is not the
    last burst, no proper prefix of `H` may itself be a complete header.  Then, from the initial
    state, exactly one StartOfMessage is output in the whole run, and its text is exactly `H`. -/
theorem two_of_three_polls' (pos : Nat) (H X : List Byte) (off t1 t2 t3 t : Nat)
    (polls1 polls2 polls3 : List Nat)
    (cH : C05seq.Canon H off)
    (hnp : pos < 2 → NoHeaderPrefix H)
    (b1 b2 b3 : List Byte) (harr : arrange pos H X = [b1, b2, b3])
    (hsort : Sorted (.burst b1 t1 :: (polls1.map .poll ++ .burst b2 t2 ::
      (polls2.map .poll ++ .burst b3 t3 :: (polls3.map .poll ++ [.poll t])))))
    (h31 : t3 < t1 + HIST) (ht : t3 + HOLD ≤ t) :
    ∃ u h, soms (runOps {} (.burst b1 t1 :: (polls1.map .poll ++ .burst b2 t2 ::
      (polls2.map .poll ++ .burst b3 t3 :: (polls3.map .poll ++ [.poll t]))))).2 = [(u, h)]
      ∧ h.text = H ∧ h.offsetTime = off := by
  rcases pos with _ | _ | n
  · simp only [arrange, List.cons.injEq, and_true] at harr
    obtain ⟨rfl, rfl, rfl⟩ := harr
    exact two_of_three_polls_first H X off t1 t2 t3 t polls1 polls2 polls3 cH (hnp (by omega)) hsort h31 ht
  · simp only [arrange, List.cons.injEq, and_true] at harr
    obtain ⟨rfl, rfl, rfl⟩ := harr
    exact two_of_three_polls_middle H X off t1 t2 t3 t polls1 polls2 polls3 cH (hnp (by omega)) hsort h31 ht
  · simp only [arrange, List.cons.injEq, and_true] at harr
    obtain ⟨rfl, rfl, rfl⟩ := harr
    exact two_of_three_polls_last H X off t1 t2 t3 t polls1 polls2 polls3 cH hsort h31 ht

/-- the same with `NoHeaderPrefix H` assumed outright -/
theorem two_of_three_polls (pos : Nat) (H X : List Byte) (off t1 t2 t3 t : Nat)
    (polls1 polls2 polls3 : List Nat)
    (cH : C05seq.Canon H off)
    (hnp : NoHeaderPrefix H)
    (b1 b2 b3 : List Byte) (harr : arrange pos H X = [b1, b2, b3])
    (hsort : Sorted (.burst b1 t1 :: (polls1.map .poll ++ .burst b2 t2 ::
      (polls2.map .poll ++ .burst b3 t3 :: (polls3.map .poll ++ [.poll t])))))
    (h31 : t3 < t1 + HIST) (ht : t3 + HOLD ≤ t) :
    ∃ u h, soms (runOps {} (.burst b1 t1 :: (polls1.map .poll ++ .burst b2 t2 ::
      (polls2.map .poll ++ .burst b3 t3 :: (polls3.map .poll ++ [.poll t]))))).2 = [(u, h)]
      ∧ h.text = H ∧ h.offsetTime = off :=
  two_of_three_polls' pos H X off t1 t2 t3 t polls1 polls2 polls3 cH (fun _ => hnp) b1 b2 b3 harr
    hsort h31 ht

/-- the three positions written out: `[X, H, H]`, `[H, X, H]`, `[H, H, X]` -/
theorem two_of_three_polls_each (H X : List Byte) (off t1 t2 t3 t : Nat)
    (polls1 polls2 polls3 : List Nat) (cH : C05seq.Canon H off) (hnp : NoHeaderPrefix H)
    (h31 : t3 < t1 + HIST) (ht : t3 + HOLD ≤ t) :
    (Sorted (sched X H H t1 t2 t3 t polls1 polls2 polls3) →
      ∃ u h, soms (runOps {} (sched X H H t1 t2 t3 t polls1 polls2 polls3)).2 = [(u, h)]
        ∧ h.text = H ∧ h.offsetTime = off)
    ∧ (Sorted (sched H X H t1 t2 t3 t polls1 polls2 polls3) →
      ∃ u h, soms (runOps {} (sched H X H t1 t2 t3 t polls1 polls2 polls3)).2 = [(u, h)]
        ∧ h.text = H ∧ h.offsetTime = off)
    ∧ (Sorted (sched H H X t1 t2 t3 t polls1 polls2 polls3) →
      ∃ u h, soms (runOps {} (sched H H X t1 t2 t3 t polls1 polls2 polls3)).2 = [(u, h)]
        ∧ h.text = H ∧ h.offsetTime = off) :=
  ⟨fun hs => two_of_three_polls 0 H X off t1 t2 t3 t polls1 polls2 polls3 cH hnp X H H rfl hs h31 ht,
   fun hs => two_of_three_polls 1 H X off t1 t2 t3 t polls1 polls2 polls3 cH hnp H X H rfl hs h31 ht,
   fun hs => two_of_three_polls 2 H X off t1 t2 t3 t polls1 polls2 polls3 cH hnp H H X rfl hs h31 ht⟩

/-! ### 4. why `NoHeaderPrefix` is needed: a header whose callsign holds a `-` -/

/-- "ZCZC-WXR-RWT-012345+0030-1231200-KLO-XYZ-" (41 bytes; the callsign is `KLO-XYZ`) -/
def dashCallHeader : List Byte :=
  [90, 67, 90, 67, 45, 87, 88, 82, 45, 82, 87, 84, 45, 48, 49, 50, 51, 52, 53, 43, 48, 48, 51, 48, 45,
   49, 50, 51, 49, 50, 48, 48, 45, 75, 76, 79, 45, 88, 89, 90, 45]

/-- "ZCZC-WXR-RWT-012345+0030-1231200-KLO-": the first 37 bytes of `dashCallHeader` — that header cut
    short after the `-` inside its callsign; itself a complete header (callsign `KLO`) -/
def dashCallPrefix : List Byte :=
  [90, 67, 90, 67, 45, 87, 88, 82, 45, 82, 87, 84, 45, 48, 49, 50, 51, 52, 53, 43, 48, 48, 51, 48, 45,
   49, 50, 51, 49, 50, 48, 48, 45, 75, 76, 79, 45]

theorem dashCallHeader_canonical :
    checkHeader dashCallHeader = some (19, dashCallHeader.length)
      ∧ dashCallHeader.all isAllowed = true ∧ dashCallHeader.length = 41 := by
  decide +kernel

theorem canon_dashCall : C05seq.Canon dashCallHeader 19 := by
  have hc := dashCallHeader_canonical
  exact ⟨fun b hb => List.all_eq_true.mp hc.2.1 b hb, hc.1, by rw [hc.2.2]; decide⟩

/-- the burst cut short is a proper prefix of the header, and is itself a complete header -/
theorem dashCallPrefix_is_header :
    dashCallPrefix = dashCallHeader.take 37
      ∧ checkHeader dashCallPrefix = some (19, dashCallPrefix.length) := by
  decide +kernel

theorem dashCallHeader_has_header_prefix : ¬ NoHeaderPrefix dashCallHeader := by
  intro h
  exact h 37 (by decide) 19 (by decide +kernel)

/-- **Counterexample: without `NoHeaderPrefix`, one transmission is reported twice.**  The header
    `…-KLO-XYZ-` is received intact in the first and third burst; the second burst is the same
    header cut short after `…-KLO-` (nothing else is wrong with it).  The two-burst vote reads the
    common prefix, which is a complete header with the callsign `KLO`; a poll between the second
    and third burst at or after `t2 + HOLD` outputs it; the three-burst vote then gives the full
    header, a different text, so not a duplicate: a second StartOfMessage.  Every hypothesis of
    `two_of_three_polls` other than `NoHeaderPrefix` holds (`prefix_header_run_hypotheses`). -/
theorem prefix_header_reported_twice :
    (runOps {} (sched dashCallHeader dashCallPrefix dashCallHeader 1000 1700 2400 3100 [] [2390] [])).2
      = [(2390, .ok (.som ⟨dashCallPrefix, 19, 0, 0⟩)),
         (3100, .ok (.som ⟨dashCallHeader, 19, 0, 37⟩))] := by
  decide +kernel

/-- the same with the truncated burst first (`X`, `H`, `H`) -/
theorem prefix_header_reported_twice_first :
    (runOps {} (sched dashCallPrefix dashCallHeader dashCallHeader 1000 1700 2400 3100 [] [2390] [])).2
      = [(2390, .ok (.som ⟨dashCallPrefix, 19, 0, 0⟩)),
         (3100, .ok (.som ⟨dashCallHeader, 19, 0, 37⟩))] := by
  decide +kernel

/-- in terms of the conclusion of `two_of_three_polls`: two StartOfMessage outputs, not one -/
theorem prefix_header_two_soms :
    soms (runOps {} (sched dashCallHeader dashCallPrefix dashCallHeader 1000 1700 2400 3100 [] [2390] [])).2
      = [(2390, ⟨dashCallPrefix, 19, 0, 0⟩), (3100, ⟨dashCallHeader, 19, 0, 37⟩)] := by
  rw [prefix_header_reported_twice]
  rfl

/-- the run of the counterexample satisfies every other hypothesis of `two_of_three_polls` -/
theorem prefix_header_run_hypotheses :
    C05seq.Canon dashCallHeader 19
      ∧ arrange 1 dashCallHeader dashCallPrefix = [dashCallHeader, dashCallPrefix, dashCallHeader]
      ∧ Sorted (sched dashCallHeader dashCallPrefix dashCallHeader 1000 1700 2400 3100 [] [2390] [])
      ∧ Sorted (sched dashCallPrefix dashCallHeader dashCallHeader 1000 1700 2400 3100 [] [2390] [])
      ∧ 2400 < 1000 + HIST ∧ 2400 + HOLD ≤ 3100 := by
  refine ⟨canon_dashCall, rfl, ?_, ?_, by decide, by decide⟩ <;> (unfold Sorted sched; decide)

/-- with the truncated burst LAST the theorem applies (no `NoHeaderPrefix` needed): one report -/
theorem prefix_header_last_once :
    ∃ u h, soms (runOps {} (sched dashCallHeader dashCallHeader dashCallPrefix 1000 1700 2400 3100
        [] [2390] [])).2 = [(u, h)] ∧ h.text = dashCallHeader ∧ h.offsetTime = 19 :=
  two_of_three_polls_last dashCallHeader dashCallPrefix 19 1000 1700 2400 3100 [] [2390] []
    canon_dashCall (by unfold Sorted sched; decide) (by decide) (by decide)

/-! ### 5. `NoHeaderPrefix` in practice, and non-vacuity -/

/-- **A callsign without `-` is enough.**  The closing `-` of a proper prefix that is a header
    would have to lie inside the callsign of `H`. -/
theorem noHeaderPrefix_of_dashfree_callsign (H : List Byte) (off : Nat) (cH : C05seq.Canon H off)
    (hd : ∀ b ∈ (H.drop (off + 14)).dropLast, b ≠ 45) : NoHeaderPrefix H :=
  noHeaderPrefix_of_dashfree_call H off cH.parse hd

theorem canon_example : C05seq.Canon C02.exampleHeader 19 := by
  have hc := C02.exampleHeader_canonical
  exact ⟨fun b hb => List.all_eq_true.mp hc.2.1 b hb, hc.1, by rw [hc.2.2]; decide⟩

/-- the example header `…-KLOX-` has no header prefix: by the callsign criterion … -/
theorem exampleHeader_noHeaderPrefix : NoHeaderPrefix C02.exampleHeader :=
  noHeaderPrefix_of_dashfree_callsign _ 19 canon_example (by decide)

/-- … and by running the checker -/
theorem exampleHeader_noHeaderPrefix' : NoHeaderPrefix C02.exampleHeader :=
  noHeaderPrefix_of_check _ (by decide +kernel)

/-- a corrupted copy of the example header: `RWT` received as `RWC`, the callsign as `KLOY`, an
    eighth bit set in the originator, and two bytes of garbage appended -/
def corruptedExample : List Byte :=
  [90, 67, 90, 67, 45, 87, 0xd8, 82, 45, 82, 87, 67, 45, 48, 49, 50, 51, 52, 53, 43, 48, 48, 51, 48, 45,
   49, 50, 51, 49, 50, 48, 48, 45, 75, 76, 79, 89, 45, 0x0a, 0xff]

/-- **Non-vacuity.**  The hypotheses of `two_of_three_polls` are satisfiable — the example header,
    the corrupted copy in the middle, bursts 700 ticks apart, polls before, between (one of them
    after the two-burst hold deadline `1700 + HOLD = 2382`) and after the bursts; by the general
    theorem, not by evaluation. -/
theorem two_of_three_polls_example :
    ∃ u h, soms (runOps {} (.burst C02.exampleHeader 1000 :: ([1200, 1650].map .poll ++
        .burst corruptedExample 1700 :: ([1800, 2390].map .poll ++
        .burst C02.exampleHeader 2400 :: ([2500, 3000].map .poll ++ [.poll 3100]))))).2 = [(u, h)]
      ∧ h.text = C02.exampleHeader ∧ h.offsetTime = 19 :=
  two_of_three_polls 1 C02.exampleHeader corruptedExample 19 1000 1700 2400 3100 [1200, 1650]
    [1800, 2390] [2500, 3000] canon_example exampleHeader_noHeaderPrefix _ _ _ rfl
    (by unfold Sorted; decide) (by decide) (by decide)

/-- the same with the corrupted burst first, and with an empty burst, and with a burst `NNNN` -/
theorem two_of_three_polls_example_first :
    ∃ u h, soms (runOps {} (sched corruptedExample C02.exampleHeader C02.exampleHeader
        1000 1700 2400 3100 [1200, 1650] [1800, 2390] [2500, 3000])).2 = [(u, h)]
      ∧ h.text = C02.exampleHeader ∧ h.offsetTime = 19 :=
  (two_of_three_polls_each C02.exampleHeader corruptedExample 19 1000 1700 2400 3100 [1200, 1650]
    [1800, 2390] [2500, 3000] canon_example exampleHeader_noHeaderPrefix (by decide) (by decide)).1
    (by unfold Sorted sched; decide)

theorem two_of_three_polls_example_empty :
    ∃ u h, soms (runOps {} (sched C02.exampleHeader [] C02.exampleHeader
        1000 1700 2400 3100 [1200, 1650] [1800, 2390] [2500, 3000])).2 = [(u, h)]
      ∧ h.text = C02.exampleHeader ∧ h.offsetTime = 19 :=
  (two_of_three_polls_each C02.exampleHeader [] 19 1000 1700 2400 3100 [1200, 1650]
    [1800, 2390] [2500, 3000] canon_example exampleHeader_noHeaderPrefix (by decide) (by decide)).2.1
    (by unfold Sorted sched; decide)

theorem two_of_three_polls_example_trailer :
    ∃ u h, soms (runOps {} (sched litNNNN C02.exampleHeader C02.exampleHeader
        1000 1700 2400 3100 [1200, 1650] [1800, 2390] [2500, 3000])).2 = [(u, h)]
      ∧ h.text = C02.exampleHeader ∧ h.offsetTime = 19 :=
  (two_of_three_polls_each C02.exampleHeader litNNNN 19 1000 1700 2400 3100 [1200, 1650]
    [1800, 2390] [2500, 3000] canon_example exampleHeader_noHeaderPrefix (by decide) (by decide)).1
    (by unfold Sorted sched; decide)

/-- the odd burst may also be the header itself followed by garbage (then the two-burst vote already
    yields `H`, which the poll at 2390 outputs; the third burst is suppressed as a duplicate) -/
theorem two_of_three_polls_example_extended :
    ∃ u h, soms (runOps {} (sched C02.exampleHeader (C02.exampleHeader ++ [0x35, 45, 0xff])
        C02.exampleHeader 1000 1700 2400 3100 [1200, 1650] [1800, 2390] [2500, 3000])).2 = [(u, h)]
      ∧ h.text = C02.exampleHeader ∧ h.offsetTime = 19 :=
  (two_of_three_polls_each C02.exampleHeader (C02.exampleHeader ++ [0x35, 45, 0xff]) 19 1000 1700 2400
    3100 [1200, 1650] [1800, 2390] [2500, 3000] canon_example exampleHeader_noHeaderPrefix (by decide)
    (by decide)).2.1 (by unfold Sorted sched; decide)

/-- what those runs output, by evaluation: the corrupted burst in the middle makes the two-burst
    vote an error, which the poll at 2390 outputs (not a StartOfMessage); the header follows once.
    A leading `NNNN` is output as EndOfMessage at its own tick. -/
theorem two_of_three_polls_example_eval :
    (runOps {} (sched C02.exampleHeader corruptedExample C02.exampleHeader
        1000 1700 2400 3100 [1200, 1650] [1800, 2390] [2500, 3000])).2
      = [(2390, .error .malformed), (3100, .ok (.som ⟨C02.exampleHeader, 19, 6, 38⟩))]
    ∧ (runOps {} (sched litNNNN C02.exampleHeader C02.exampleHeader
        1000 1700 2400 3100 [1200, 1650] [1800, 2390] [2500, 3000])).2
      = [(1000, .ok .eom), (3100, .ok (.som ⟨C02.exampleHeader, 19, 10, 4⟩))] := by
  decide +kernel

end SameVerif.C02poll
