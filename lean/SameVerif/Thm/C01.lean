import SameVerif.Model.Link
import SameVerif.Model.Receiver
import SameVerif.Lemmas.LinkBurst
/-
  C01 — Complete SAME transmissions decode exactly, at any supported rate.
  First instalment: facts about the link model's synchronisation logic.  The digital chain
  theorem (front-end assumptions FE1–FE4 ⇒ [SOM H, EOM]) follows in a later instalment.
-/
namespace SameVerif.C01
open SameVerif

/-- the sync word is the preamble byte four times -/
theorem sync_word_is_preamble :
    SYNC_WORD = 0xABABABAB ∧ PREAMBLE_BYTE = 0xAB ∧ beBytes SYNC_WORD = [0xAB, 0xAB, 0xAB, 0xAB] := by
  decide

/-- **0xAB ambiguity.**  A 32-bit window over a run of preamble bytes that is misaligned by
    1…7 bits is at distance 24 or 8 from the sync word — never within the default budget of 2,
    nor within any budget up to 7; only the aligned window matches. -/
theorem preamble_ambiguity :
    (List.range 8).map (fun sh =>
      popcount32 (SYNC_WORD ^^^ (((0xABABABAB : UInt32) >>> (UInt32.ofNat sh)) ||| ((0xABABABAB : UInt32) <<< (UInt32.ofNat (32 - sh))))))
      = [0, 24, 8, 24, 8, 24, 8, 24] := by
  decide +kernel

/-- until 32 symbols have been seen the link reports no carrier and stays unsynchronised -/
theorem warmup (c : LCfg) (s : LState) (o : Obs) (b : Byte) (h : s.nsym + 1 < 32) (hf : s.fr = .idle) :
    (lstep c s o b).2.1 = .noCarrier ∧ (lstep c s o b).1.clock = s.clock ∧ (lstep c s o b).1.fr = .idle := by
  simp [lstep, h, hf, fend]

/-! ## Second instalment: one burst through the link model

  Front-end assumptions `Spec.BurstObserved` (FE1–FE3 for one burst) ⇒ the link model reports
  exactly one burst, `payload ++ g`, and is quiescent again.  Hypotheses that the proof forced,
  beyond `Spec.PayloadOk`:
  * `c.maxErrors ≤ 6` (with 7 every burst is mis-synchronised, `budget7_false_resync`);
  * a fifth payload byte, if there is one, is `-` (true of every header `ZCZC-…`; for other
    allowed characters in bytes 4…6 a misaligned window ending at bits 176…181 can be within 4…6
    errors of the sync word, see `no_false_resync_min`);
  * `c.fc.maxPrefixErr ≤ 7`, and `≤ 4` for `NNNN` bursts: the window `AB 4E 4E 4E` is 5 bit errors
    from `NNNN`, so with a prefix budget of 5…7 an `NNNN` burst is framed one byte early
    (`nnnn_prefix_budget5`).
-/
open SameVerif.Spec

/-- (a) over the lead-in (power below the open threshold) the receiver reports only `noCarrier`,
    no burst, and stays quiescent -/
theorem lead_quiet (c : LCfg) (s : LState) (hs : Quiescent s) (lead : List Tick)
    (hl : ∀ x ∈ lead, x.1.openOk = false) :
    (∀ ls ∈ lrun c s lead, ls = .noCarrier) ∧ lrunBursts c s lead = []
      ∧ Quiescent (lrunState c s lead) :=
  quiet_run_closed c lead hl s hs

/-- (b) the first synchronisation happens at body tick `syncTick acq` — the end of the first
    byte-aligned window at or after `acq + 31` — and not before: right after that tick the byte
    clock has just started, four training bytes are pending (one consumed), the framer has been
    restarted with one preamble byte, and no burst has been reported -/
theorem first_sync (c : LCfg) (hE : c.maxErrors ≤ 6) (hP : c.fc.maxPrefixErr < 15)
    (s : LState) (hs : Quiescent s) (payload : List Byte) (hok : PayloadOk payload)
    (lead body tail : List Tick) (acq rel : Nat) (H : BurstObserved payload lead body tail acq rel) :
    acq + 31 ≤ syncTick acq ∧ syncTick acq < acq + 39 ∧ syncTick acq % 8 = 7 ∧ syncTick acq ≤ 127
      ∧ (∀ t, t ≤ syncTick acq → (lrunState c s ((body ++ tail).take t)).clock = none
            ∧ lrunBursts c s ((body ++ tail).take t) = [])
      ∧ (lrunState c s ((body ++ tail).take (syncTick acq + 1))).clock = some 1
      ∧ (lrunState c s ((body ++ tail).take (syncTick acq + 1))).fr = .search 0xAB 1
      ∧ (lrunState c s ((body ++ tail).take (syncTick acq + 1))).train = 3
      ∧ lrunBursts c s ((body ++ tail).take (syncTick acq + 1)) = [] := by
  have hacq := H.acq_le
  obtain ⟨f1, _, f3, f4, f5⟩ := first_sync_state H.weaken hok c hE hP s hs (H.btNoHit c s)
  refine ⟨by unfold syncTick; omega, by unfold syncTick; omega, by unfold syncTick; omega,
    by unfold syncTick; omega, ?_, f1, f3, f4, f5⟩
  intro t ht
  obtain ⟨q1, _, _, q4⟩ := phase_quiet H.weaken hok c hE s hs (H.btNoHit c s) (syncTick acq) (by unfold syncTick; omega)
    (by unfold syncTick; intro t h1 h2; omega) t ht
  exact ⟨q1, q4⟩

/-- (c) **no false resynchronisation**, at the level of windows: every 32-bit window over the
    transmitted bits that ends misaligned (`j % 8 ≠ 7`) at a bit `j ≤ 182` — the squelch locks at
    bit 183, when the framer receives the fourth prefix byte — is at least 7 errors away from the
    sync word (all-preamble windows: at least 8).  The model's correlator error at body tick
    `j ≥ acq + 31` is exactly `werr (frameOf payload) j` (`err_body`). -/
theorem no_false_resync (payload : List Byte) (hok : PayloadOk payload)
    (hdash : ∀ h : 4 < payload.length, payload[4] = 45) (j : Nat) (h31 : 31 ≤ j) (h182 : j ≤ 182)
    (hn : j < 8 * (frameOf payload).length) (ha : j % 8 ≠ 7) : 7 ≤ werr (frameOf payload) j := by
  by_cases h : j ≤ 126
  · have := werr_preamble_misaligned payload j h31 h ha; omega
  · exact werr_payload_misaligned payload hok hdash j (by omega) h182 hn ha

/-- the bound 7 is attained two bits into the first prefix byte, whatever the payload -/
theorem no_false_resync_min (payload : List Byte) (hok : PayloadOk payload) :
    werr (frameOf payload) 129 = 7 := by
  rw [werr_eq_W5 _ _ (by omega), frame_getD_lt payload _ (by omega), frame_getD_lt payload _ (by omega),
    frame_getD_lt payload _ (by omega), frame_getD_lt payload _ (by omega),
    frame_getD_ge payload _ (by omega)]
  rcases hok.starts with hs | hs
  · rw [(getD_of_take4 hs).1]; decide +kernel
  · rw [(getD_of_take4 hs).1]; decide +kernel

/-- the evaluated table for one header (`ZCZC-WXR-RWT-012345+0030-1231200-KXYZ/NWS-`): errors of the
    windows ending at bits 128…182; the entries ≤ 6 (5 at bit 135) are byte-aligned, where a hit
    only re-affirms the clock -/
theorem no_false_resync_table :
    (List.range 55).map (fun d => werr (frameOf [90, 67, 90, 67, 45, 87, 88, 82, 45, 82, 87, 84, 45,
        48, 49, 50, 51, 52, 53, 43, 48, 48, 51, 48, 45, 49, 50, 51, 49, 50, 48, 48, 45, 75, 88, 89, 90,
        47, 78, 87, 83, 45]) (128 + d))
      = [25, 7, 25, 7, 24, 9, 22, 5, 21, 11, 21, 10, 22, 11, 20, 9, 18, 14, 20, 12, 21, 12, 19, 14, 14,
         18, 16, 15, 19, 14, 17, 18, 9, 24, 11, 21, 16, 15, 18, 16, 12, 20, 13, 21, 14, 18, 16, 18, 10,
         21, 11, 21, 13, 19, 15] := by
  decide +kernel

/-- (d) what the framer has seen when the last payload byte has been delivered (tail tick 30
    done, tail tick 31 is the next byte tick): restarted once, fed `0xAB × (19 - q0) ++ payload`
    (`phase_synced`), it holds exactly the payload with no invalid byte counted; the squelch is
    locked, training is over, and nothing has been reported yet -/
theorem framer_sees (c : LCfg) (hE : c.maxErrors ≤ 6) (hP : c.fc.maxPrefixErr ≤ 7)
    (s : LState) (hs : Quiescent s) (payload : List Byte) (hok : PayloadOk payload)
    (hdash : ∀ h : 4 < payload.length, payload[4] = 45)
    (hP4 : payload.take 4 = [78, 78, 78, 78] → c.fc.maxPrefixErr ≤ 4)
    (lead body tail : List Tick) (acq rel : Nat) (H : BurstObserved payload lead body tail acq rel) :
    (lrunState c s ((body ++ tail).take (body.length + 31))).fr = .read payload 0
      ∧ (lrunState c s ((body ++ tail).take (body.length + 31))).lock = true
      ∧ (lrunState c s ((body ++ tail).take (body.length + 31))).clock = some 0
      ∧ (lrunState c s ((body ++ tail).take (body.length + 31))).train = 0
      ∧ lrunBursts c s ((body ++ tail).take (body.length + 31)) = [] := by
  obtain ⟨e1, e2, e3, e4, e5⟩ :=
    synced_end H.weaken hok hdash c hE (prefixFacts_of c.fc payload hok hP hP4) s hs (H.btNoHit c s)
  exact ⟨e4, e2, e1, e3, e5⟩

/-- **C01, one burst.**  Under the front-end assumptions for one burst, from any quiescent state,
    the link model reports exactly one burst: the payload followed by at most `⌈rel / 8⌉` bytes of
    whatever the equalizer decided after the carrier stopped; and it is quiescent again. -/
theorem burst_delivered (c : LCfg) (hE : c.maxErrors ≤ 6) (hP : c.fc.maxPrefixErr ≤ 7)
    (s : LState) (hs : Quiescent s) (payload : List Byte) (hok : PayloadOk payload)
    (hdash : ∀ h : 4 < payload.length, payload[4] = 45)
    (hP4 : payload.take 4 = [78, 78, 78, 78] → c.fc.maxPrefixErr ≤ 4)
    (lead body tail : List Tick) (acq rel : Nat) (H : BurstObserved payload lead body tail acq rel) :
    ∃ g, lrunBursts c s (lead ++ body ++ tail) = [payload ++ g] ∧ g.length ≤ (rel + 7) / 8
      ∧ Quiescent (lrunState c s (lead ++ body ++ tail)) :=
  burst_whole H.weaken hok hdash c hE (prefixFacts_of c.fc payload hok hP hP4) s hs.ready
    (by have := hs.warm; omega) (H.noFalseHits c s)

/-- the same with the bound in the form `rel / 8 + 2` -/
theorem burst_delivered' (c : LCfg) (hE : c.maxErrors ≤ 6) (hP : c.fc.maxPrefixErr ≤ 7)
    (s : LState) (hs : Quiescent s) (payload : List Byte) (hok : PayloadOk payload)
    (hdash : ∀ h : 4 < payload.length, payload[4] = 45)
    (hP4 : payload.take 4 = [78, 78, 78, 78] → c.fc.maxPrefixErr ≤ 4)
    (lead body tail : List Tick) (acq rel : Nat) (H : BurstObserved payload lead body tail acq rel) :
    ∃ g, lrunBursts c s (lead ++ body ++ tail) = [payload ++ g] ∧ g.length ≤ rel / 8 + 2
      ∧ Quiescent (lrunState c s (lead ++ body ++ tail)) := by
  obtain ⟨g, h1, h2, h3⟩ := burst_delivered c hE hP s hs payload hok hdash hP4 lead body tail acq rel H
  exact ⟨g, h1, by omega, h3⟩

/-! ### non-vacuity and the two budget findings, on a concrete stream -/

/-- a stream built from the front-end assumptions: quiet lead-in; body with correct bits, open
    threshold and equalizer bytes exactly as `BurstObserved` asks and `garb` elsewhere; tail with
    some bit pattern and `garb` as equalizer decisions -/
def demoLead (n : Nat) : List Tick := List.replicate n (⟨false, false, false⟩, 0)
def demoBody (payload : List Byte) (acq : Nat) (garb : Byte) : List Tick :=
  (List.range (8 * (frameOf payload).length)).map (fun j =>
    (⟨decide (acq ≤ j) && (bitsOf (frameOf payload)).getD j false, decide (acq + 31 ≤ j), decide (acq ≤ j)⟩,
     if j % 8 = 7 ∧ 3 ≤ j / 8 then (frameOf payload).getD (j / 8 - 3) 0 else garb))
def demoTail (payload : List Byte) (rel : Nat) (garb : Byte) : List Tick :=
  (List.range (rel + 40)).map (fun k =>
    (⟨k % 3 = 0, false, decide (k < rel)⟩,
     if k % 8 = 7 ∧ k / 8 < 3 then (frameOf payload).getD ((frameOf payload).length - 3 + k / 8) 0
     else garb))

/-- `ZCZC-WXR-RWT-012345+0030-1231200-KXYZ/NWS-` -/
def demoHeader : List Byte := [90, 67, 90, 67, 45, 87, 88, 82, 45, 82, 87, 84, 45, 48, 49, 50, 51, 52,
  53, 43, 48, 48, 51, 48, 45, 49, 50, 51, 49, 50, 48, 48, 45, 75, 88, 89, 90, 47, 78, 87, 83, 45]
def demoEom : List Byte := [78, 78, 78, 78]

theorem demoHeader_ok : PayloadOk demoHeader ∧ ∀ h : 4 < demoHeader.length, demoHeader[4] = 45 :=
  ⟨⟨by decide, by decide, by decide⟩, by decide⟩

theorem demoEom_ok : PayloadOk demoEom ∧ ∀ h : 4 < demoEom.length, demoEom[4] = 45 :=
  ⟨⟨by decide, by decide, by decide⟩, by decide⟩

theorem demoHeader_frame_len : (frameOf demoHeader).length = 58 := by decide
theorem demoEom_frame_len : (frameOf demoEom).length = 20 := by decide

set_option maxRecDepth 100000 in
theorem demoHeader_eq_ok : ∀ m, m < 55 →
    ∀ (hj : 8 * (m + 3) + 7 < (demoBody demoHeader 5 0x41).length),
      ((demoBody demoHeader 5 0x41)[8 * (m + 3) + 7]).2 = (frameOf demoHeader).getD m 0 := by
  decide +kernel

set_option maxRecDepth 100000 in
theorem demoEom_eq_ok : ∀ m, m < 17 →
    ∀ (hj : 8 * (m + 3) + 7 < (demoBody demoEom 5 0).length),
      ((demoBody demoEom 5 0)[8 * (m + 3) + 7]).2 = (frameOf demoEom).getD m 0 := by
  decide +kernel

set_option maxRecDepth 100000 in
/-- the demo stream satisfies the front-end assumptions (acquisition at bit 5, release after 10) -/
theorem demoHeader_observed :
    BurstObserved demoHeader (demoLead 40) (demoBody demoHeader 5 0x41) (demoTail demoHeader 10 0x41) 5 10 where
  lead_closed := by decide +kernel
  body_len := by decide +kernel
  acq_le := by decide
  bits_ok := by decide +kernel
  open_late := by decide +kernel
  open_ok := by decide +kernel
  close_ok := by decide +kernel
  eq_ok := by
    intro m hm
    rw [demoHeader_frame_len] at hm
    exact demoHeader_eq_ok m (by omega)
  eq_tail := by decide +kernel
  tail_closed := by decide +kernel
  rel_hold := by decide +kernel
  rel_drop := by decide +kernel
  tail_len := by decide +kernel

set_option maxRecDepth 100000 in
theorem demoEom_observed :
    BurstObserved demoEom (demoLead 40) (demoBody demoEom 5 0) (demoTail demoEom 10 0) 5 10 where
  lead_closed := by decide +kernel
  body_len := by decide +kernel
  acq_le := by decide
  bits_ok := by decide +kernel
  open_late := by decide +kernel
  open_ok := by decide +kernel
  close_ok := by decide +kernel
  eq_ok := by
    intro m hm
    rw [demoEom_frame_len] at hm
    exact demoEom_eq_ok m (by omega)
  eq_tail := by decide +kernel
  tail_closed := by decide +kernel
  rel_hold := by decide +kernel
  rel_drop := by decide +kernel
  tail_len := by decide +kernel

theorem quiescent_fresh32 : Quiescent { nsym := 32 } := ⟨by decide, rfl, rfl, rfl⟩

/-- non-vacuity: the hypotheses of `burst_delivered` are satisfiable, and on this stream the model
    (default budgets 2, 2, 5) gives the header followed by `⌈10 / 8⌉ = 2` garbage bytes -/
example :
    lrunBursts ⟨2, ⟨2, 5⟩⟩ { nsym := 32 }
        (demoLead 40 ++ demoBody demoHeader 5 0x41 ++ demoTail demoHeader 10 0x41)
      = [demoHeader ++ [0x41, 0x41]] := by
  decide +kernel

example : ∃ g, lrunBursts ⟨6, ⟨7, 5⟩⟩ { nsym := 32 }
        (demoLead 40 ++ demoBody demoHeader 5 0x41 ++ demoTail demoHeader 10 0x41)
      = [demoHeader ++ g] ∧ g.length ≤ (10 + 7) / 8
      ∧ Quiescent (lrunState ⟨6, ⟨7, 5⟩⟩ { nsym := 32 }
          (demoLead 40 ++ demoBody demoHeader 5 0x41 ++ demoTail demoHeader 10 0x41)) :=
  burst_delivered ⟨6, ⟨7, 5⟩⟩ (by decide) (by decide) _ quiescent_fresh32 demoHeader demoHeader_ok.1
    demoHeader_ok.2 (by decide) _ _ _ 5 10 demoHeader_observed

/-- **Budget 7 mis-synchronises.**  With `preamble_max_errors = 7` the same stream, which meets all
    front-end assumptions, is not delivered: the misaligned window two bits into the first `Z`
    (7 errors, `no_false_resync_min`) restarts the byte clock and the training bytes overwrite
    the prefix; with the default prefix budget nothing is reported at all. -/
theorem budget7_false_resync :
    ∃ payload lead body tail acq rel, PayloadOk payload
      ∧ (∀ h : 4 < payload.length, payload[4] = 45)
      ∧ BurstObserved payload lead body tail acq rel
      ∧ lrunBursts ⟨7, ⟨2, 5⟩⟩ { nsym := 32 } (lead ++ body ++ tail) = [] :=
  ⟨demoHeader, demoLead 40, demoBody demoHeader 5 0x41, demoTail demoHeader 10 0x41, 5, 10,
    demoHeader_ok.1, demoHeader_ok.2, demoHeader_observed, by decide +kernel⟩

/-- **Prefix budget 5 mis-frames `NNNN`.**  With `frame_prefix_max_errors = 5` (the builder allows up
    to 7) an end-of-message burst that meets all front-end assumptions is framed one byte early:
    the burst reported is `AB 4E 4E 4E 4E …`, not `NNNN …`; with budget 4 it is right. -/
theorem nnnn_prefix_budget5 :
    BurstObserved demoEom (demoLead 40) (demoBody demoEom 5 0) (demoTail demoEom 10 0) 5 10
      ∧ lrunBursts ⟨2, ⟨5, 5⟩⟩ { nsym := 32 } (demoLead 40 ++ demoBody demoEom 5 0 ++ demoTail demoEom 10 0)
          = [[0xAB, 78, 78, 78, 78, 0, 0]]
      ∧ lrunBursts ⟨2, ⟨4, 5⟩⟩ { nsym := 32 } (demoLead 40 ++ demoBody demoEom 5 0 ++ demoTail demoEom 10 0)
          = [[78, 78, 78, 78, 0, 0]] :=
  ⟨demoEom_observed, by decide +kernel, by decide +kernel⟩

/-- `ZCZCWWAAAAAA`: SAME characters only, begins `ZCZC`, but no `-` in fifth place -/
def demoNoDash : List Byte := [90, 67, 90, 67, 87, 87, 65, 65, 65, 65, 65, 65]

theorem demoNoDash_frame_len : (frameOf demoNoDash).length = 28 := by decide

set_option maxRecDepth 100000 in
theorem demoNoDash_eq_ok : ∀ m, m < 25 →
    ∀ (hj : 8 * (m + 3) + 7 < (demoBody demoNoDash 5 0x41).length),
      ((demoBody demoNoDash 5 0x41)[8 * (m + 3) + 7]).2 = (frameOf demoNoDash).getD m 0 := by
  decide +kernel

set_option maxRecDepth 100000 in
theorem demoNoDash_observed :
    BurstObserved demoNoDash (demoLead 40) (demoBody demoNoDash 5 0x41) (demoTail demoNoDash 10 0x41) 5 10 where
  lead_closed := by decide +kernel
  body_len := by decide +kernel
  acq_le := by decide
  bits_ok := by decide +kernel
  open_late := by decide +kernel
  open_ok := by decide +kernel
  close_ok := by decide +kernel
  eq_ok := by
    intro m hm
    rw [demoNoDash_frame_len] at hm
    exact demoNoDash_eq_ok m (by omega)
  eq_tail := by decide +kernel
  tail_closed := by decide +kernel
  rel_hold := by decide +kernel
  rel_drop := by decide +kernel
  tail_len := by decide +kernel

/-- **`PayloadOk` alone is not enough** (why `burst_delivered` asks for the `-`): for the payload
    `ZCZCWWAAAAAA` the misaligned window ending at bit 176 (one bit into payload byte 6, while the
    squelch is still unlocked) is only 4 errors from the sync word; with sync budgets 4…6 the byte
    clock is restarted there and the burst is lost, with budget 3 it is delivered. -/
theorem dash_needed :
    PayloadOk demoNoDash
      ∧ BurstObserved demoNoDash (demoLead 40) (demoBody demoNoDash 5 0x41) (demoTail demoNoDash 10 0x41) 5 10
      ∧ werr (frameOf demoNoDash) 176 = 4
      ∧ lrunBursts ⟨4, ⟨2, 5⟩⟩ { nsym := 32 }
          (demoLead 40 ++ demoBody demoNoDash 5 0x41 ++ demoTail demoNoDash 10 0x41) = []
      ∧ lrunBursts ⟨6, ⟨2, 5⟩⟩ { nsym := 32 }
          (demoLead 40 ++ demoBody demoNoDash 5 0x41 ++ demoTail demoNoDash 10 0x41) = []
      ∧ lrunBursts ⟨3, ⟨2, 5⟩⟩ { nsym := 32 }
          (demoLead 40 ++ demoBody demoNoDash 5 0x41 ++ demoTail demoNoDash 10 0x41)
          = [demoNoDash ++ [0x41, 0x41]] :=
  ⟨⟨by decide, by decide, by decide⟩, demoNoDash_observed, by decide +kernel, by decide +kernel,
    by decide +kernel, by decide +kernel⟩

end SameVerif.C01
