import SameVerif.Model.Link
import SameVerif.Model.Receiver
/-
  C01 — Complete SAME transmissions decode exactly, at any supported rate.
  First instalment: facts about the link model's synchronisation logic.  The digital chain
  theorem (front-end assumptions FE1–FE4 ⇒ [SOM H, EOM]) follows in a later instalment.
-/
namespace SameVerif.C01
open SameVerif

/-- the sync word is the preamble byte four times -/
theorem sync_word_is_preamble :
    SYNC_WORD = 0xABABABAB ∧ PREAMBLE_BYTE = 0xAB ∧ beBytes SYNC_WORD = [0xAB, 0xAB, 0xAB, 0xAB] := by
  decide

/-- **0xAB ambiguity.**  A 32-bit window over a run of preamble bytes that is misaligned by
    1…7 bits is at distance 24 or 8 from the sync word — never within the default budget of 2,
    nor within any budget up to 7; only the aligned window matches. -/
theorem preamble_ambiguity :
    (List.range 8).map (fun sh =>
      popcount32 (SYNC_WORD ^^^ (((0xABABABAB : UInt32) >>> (UInt32.ofNat sh)) ||| ((0xABABABAB : UInt32) <<< (UInt32.ofNat (32 - sh))))))
      = [0, 24, 8, 24, 8, 24, 8, 24] := by
  decide +kernel

/-- until 32 symbols have been seen the link reports no carrier and stays unsynchronised -/
theorem warmup (c : LCfg) (s : LState) (o : Obs) (b : Byte) (h : s.nsym + 1 < 32) (hf : s.fr = .idle) :
    (lstep c s o b).2.1 = .noCarrier ∧ (lstep c s o b).1.clock = s.clock ∧ (lstep c s o b).1.fr = .idle := by
  simp [lstep, h, hf, fend]

end SameVerif.C01
