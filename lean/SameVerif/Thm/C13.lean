import SameVerif.Lemmas.IteratorFacts
/-
  C13 — Streaming: results independent of chunking; nothing is read ahead.
  All theorems hold for EVERY per-sample step function `step : σ → α → σ × List ε`.
-/
namespace SameVerif.C13
open SameVerif

variable {σ α ε : Type}

/-! ### A4 — `None` means exhausted -/

/-- **A4.**  `next()` returns `None` only when the queue was empty and the whole source has been
    read without any sample generating an event. -/
theorem none_means_exhausted (step : σ → α → σ × List ε) (r r' : Rx σ ε) (src src' : List α)
    (h : next step r src = (none, r', src')) :
    src' = [] ∧ r'.queue = [] ∧ r.queue = [] ∧ r'.consumed = r.consumed + src.length
      ∧ r'.st = (foldEvents step r.st src).2 ∧ Silent step r.st src := by
  cases hq : r.queue with
  | cons e q =>
    rw [next_queue step r src e q hq] at h
    simp at h
  | nil =>
    rw [next_empty step r src hq] at h
    obtain ⟨h1, h2, rfl⟩ := pull_none step r r' src src' h
    exact ⟨h1, hq, rfl, rfl, rfl, h2⟩

/-- `Silent`, sample by sample: no sample of `src` generated an event -/
theorem none_means_no_event (step : σ → α → σ × List ε) (r r' : Rx σ ε) (src src' : List α)
    (h : next step r src = (none, r', src')) :
    ∀ pre x post, src = pre ++ x :: post → (step (foldEvents step r.st pre).2 x).2 = [] :=
  (silent_iff_forall step r.st src).1 (none_means_exhausted step r r' src src' h).2.2.2.2.2

/-! ### A1 — a binding consumed to the end delivers exactly the reference fold -/

theorem drainNeed_eq (step : σ → α → σ × List ε) (r : Rx σ ε) (src : List α) :
    drainNeed step r src = (owed step r src).length + 1 := by
  simp [drainNeed, owed]

/-- **A1.**  With at least `drainNeed` fuel (queued events + events the samples generate + 1),
    `drainFuel` returns the queued events followed by the reference fold's events; the receiver
    ends with an empty queue, the fold's final state and every sample counted. -/
theorem drainFuel_eq (step : σ → α → σ × List ε) (fuel : Nat) (r : Rx σ ε) (src : List α)
    (hf : drainNeed step r src ≤ fuel) :
    drainFuel step fuel r src
      = (r.queue ++ (foldEvents step r.st src).1,
         { st := (foldEvents step r.st src).2, queue := [], consumed := r.consumed + src.length }) := by
  induction fuel generalizing r src with
  | zero => simp [drainNeed] at hf
  | succ n ih =>
    rw [drainFuel]
    cases hn : next step r src with
    | mk o rest =>
      obtain ⟨r', src'⟩ := rest
      obtain ⟨hc1, hc2, hc3⟩ := next_conserves step r r' src src' o hn
      cases o with
      | none =>
        obtain ⟨rfl, h2, h3, h4, h5, h6⟩ := none_means_exhausted step r r' src src' hn
        have hs := (silent_iff_fold step r.st src).1 h6
        simp only [h3, hs, List.append_nil]
        cases r' with
        | mk st q c =>
          simp only at h2 h4 h5
          subst h2 h4 h5
          rfl
      | some e =>
        simp only
        have hneed : drainNeed step r' src' ≤ n := by
          rw [drainNeed_eq] at hf ⊢
          rw [hc1] at hf
          simp at hf
          omega
        rw [ih r' src' hneed]
        simp only [owed, Option.toList_some, List.singleton_append] at hc1
        simp only [hc1, hc2, hc3]

/-- **A1** for `drain` (which supplies exactly the fuel needed) -/
theorem drain_eq (step : σ → α → σ × List ε) (r : Rx σ ε) (src : List α) :
    drain step r src
      = (r.queue ++ (foldEvents step r.st src).1,
         { st := (foldEvents step r.st src).2, queue := [], consumed := r.consumed + src.length }) :=
  drainFuel_eq step _ r src (Nat.le_refl _)

/-- more fuel than needed changes nothing -/
theorem drainFuel_eq_drain (step : σ → α → σ × List ε) (fuel : Nat) (r : Rx σ ε) (src : List α)
    (hf : drainNeed step r src ≤ fuel) : drainFuel step fuel r src = drain step r src := by
  rw [drainFuel_eq step fuel r src hf, drain_eq]

theorem fold_length_le (step : σ → α → σ × List ε) (k : Nat) (hk : ∀ s x, (step s x).2.length ≤ k)
    (s : σ) (src : List α) : (foldEvents step s src).1.length ≤ k * src.length := by
  induction src generalizing s with
  | nil => simp [foldEvents_nil]
  | cons x xs ih =>
    rw [foldEvents_cons]
    simp only [List.length_append, List.length_cons]
    have h1 := hk s x
    have h2 := ih (step s x).1
    rw [Nat.mul_succ]
    omega

/-- **A1, explicit fuel.**  If no sample generates more than `k` events (the real receiver:
    `k = 2`), `queue.length + k * src.length + 1` calls of `next()` are enough. -/
theorem drainFuel_eq_of_bounded (step : σ → α → σ × List ε) (k : Nat) (hk : ∀ s x, (step s x).2.length ≤ k)
    (fuel : Nat) (r : Rx σ ε) (src : List α) (hf : r.queue.length + k * src.length + 1 ≤ fuel) :
    drainFuel step fuel r src
      = (r.queue ++ (foldEvents step r.st src).1,
         { st := (foldEvents step r.st src).2, queue := [], consumed := r.consumed + src.length }) := by
  apply drainFuel_eq
  have := fold_length_le step k hk r.st src
  unfold drainNeed
  omega

/-- the bound `queue.length + src.length + 1` is NOT enough for an arbitrary `step`:
    one sample generating three events, fuel 2 = 0 + 1 + 1 -/
example :
    (drainFuel (fun (s : Nat) (x : Nat) => (s, [x, x, x])) (0 + [7].length + 1) { st := 0 } [7]).1
      ≠ (foldEvents (fun (s : Nat) (x : Nat) => (s, [x, x, x])) 0 [7]).1 := by decide

/-! ### A2 — the schedule does not matter -/

/-- **A2 (two bindings).**  Draining `xs` in one binding and `ys` in a second one (same
    receiver) gives the same events, final state, queue and counter as one binding over `xs ++ ys`. -/
theorem schedule_independent (step : σ → α → σ × List ε) (r : Rx σ ε) (xs ys : List α) :
    (drain step r xs).1 ++ (drain step (drain step r xs).2 ys).1 = (drain step r (xs ++ ys)).1
      ∧ (drain step (drain step r xs).2 ys).2 = (drain step r (xs ++ ys)).2 := by
  simp only [drain_eq, foldEvents_append, List.nil_append, List.append_assoc, List.length_append,
    Nat.add_assoc, and_self]

/-- **A2 (any partition into chunks).**  One binding per chunk, in order, is one binding over
    the concatenation.  (With no chunk at all nothing is called, so the queue is not served:
    hence the side condition.) -/
theorem drainChunks_cons (step : σ → α → σ × List ε) (r : Rx σ ε) (c : List α) (cs : List (List α)) :
    drainChunks step r (c :: cs)
      = ((drain step r c).1 ++ (drainChunks step (drain step r c).2 cs).1,
         (drainChunks step (drain step r c).2 cs).2) := rfl

theorem schedule_independent_chunks (step : σ → α → σ × List ε) (r : Rx σ ε) (chunks : List (List α))
    (h : chunks ≠ [] ∨ r.queue = []) :
    drainChunks step r chunks = drain step r chunks.flatten := by
  induction chunks generalizing r with
  | nil =>
    rcases h with h | h
    · exact absurd rfl h
    · cases r
      simp_all [drainChunks, drain_eq, foldEvents_nil]
  | cons c cs ih =>
    rw [drainChunks_cons, ih (drain step r c).2 (Or.inr (by rw [drain_eq]))]
    have := schedule_independent step r c cs.flatten
    simp only [List.flatten_cons]
    exact Prod.ext this.1 this.2

/-- the side condition is needed: no chunk, no call, the queued event stays queued -/
example : (drainChunks (fun (s x : Nat) => (s, [x])) { st := 0, queue := [9] } []).1 = []
    ∧ (drain (fun (s x : Nat) => (s, [x])) { st := 0, queue := [9] } ([] : List (List Nat)).flatten).1 = [9] := by
  decide

/-- in terms of the source: any `chunks` with `chunks.flatten = src` -/
theorem schedule_independent_partition (step : σ → α → σ × List ε) (r : Rx σ ε) (src : List α)
    (chunks : List (List α)) (hsrc : chunks.flatten = src) (h : chunks ≠ [] ∨ r.queue = []) :
    drainChunks step r chunks = drain step r src := by
  rw [← hsrc]; exact schedule_independent_chunks step r chunks h

/-- **A2 (a binding dropped early loses nothing).**  Call `next()` any number `k` of times on a
    by-reference source, drop the binding, drain the rest of the source in a fresh binding:
    the events of the two phases together, the final state, queue and counter are those of a
    single drain. -/
theorem drop_binding_loses_nothing (step : σ → α → σ × List ε) (k : Nat) (r : Rx σ ε) (src : List α) :
    (nextN step k r src).1 ++ (drain step (nextN step k r src).2.1 (nextN step k r src).2.2).1
        = (drain step r src).1
      ∧ (drain step (nextN step k r src).2.1 (nextN step k r src).2.2).2 = (drain step r src).2 := by
  induction k generalizing r src with
  | zero => simp [nextN]
  | succ k ih =>
    rw [nextN]
    cases hn : next step r src with
    | mk o rest =>
      obtain ⟨r', src'⟩ := rest
      obtain ⟨hc1, hc2, hc3⟩ := next_conserves step r r' src src' o hn
      obtain ⟨ih1, ih2⟩ := ih r' src'
      simp only [List.append_assoc, ih1, ih2]
      simp only [owed] at hc1
      simp only [drain_eq, hc1, hc2, hc3, and_self]

/-- one event at a time: the events `k` calls of `next()` return are a prefix of the drain -/
theorem nextN_prefix (step : σ → α → σ × List ε) (k : Nat) (r : Rx σ ε) (src : List α) :
    (nextN step k r src).1 <+: (drain step r src).1 :=
  ⟨_, (drop_binding_loses_nothing step k r src).1⟩

/-! ### A3 — nothing is read ahead -/

/-- **A3.**  An event returned by `next()` either was queued (no sample is read), or was
    generated by the LAST sample read: everything read before it was silent, it is the first
    event of that sample, and the source is left exactly behind that sample. -/
theorem no_read_ahead (step : σ → α → σ × List ε) (r r' : Rx σ ε) (src src' : List α) (e : ε)
    (h : next step r src = (some e, r', src')) :
    (∃ q, r.queue = e :: q ∧ r'.queue = q ∧ src' = src ∧ r'.consumed = r.consumed ∧ r'.st = r.st)
    ∨ (r.queue = [] ∧ ∃ pre x q, src = pre ++ x :: src' ∧ Silent step r.st pre
        ∧ step (foldEvents step r.st pre).2 x = (r'.st, e :: q)
        ∧ r'.queue = q ∧ r'.consumed = r.consumed + pre.length + 1) := by
  cases hq : r.queue with
  | cons e' q =>
    rw [next_queue step r src e' q hq] at h
    simp only [Prod.mk.injEq, Option.some.injEq] at h
    obtain ⟨rfl, rfl, rfl⟩ := h
    exact Or.inl ⟨q, rfl, rfl, rfl, rfl, rfl⟩
  | nil =>
    rw [next_empty step r src hq] at h
    obtain ⟨pre, x, q, h1, h2, h3, h4, h5⟩ := pull_some step r r' src src' e h
    rw [hq, List.nil_append] at h4
    exact Or.inr ⟨rfl, pre, x, q, h1, h2, h3, h4, h5⟩

/-- nothing is skipped, and the sample counter never decreases (whatever `next()` returns) -/
theorem next_counts (step : σ → α → σ × List ε) (r r' : Rx σ ε) (src src' : List α) (o : Option ε)
    (h : next step r src = (o, r', src')) :
    r'.consumed + src'.length = r.consumed + src.length ∧ r.consumed ≤ r'.consumed
      ∧ ∃ used, src = used ++ src' ∧ r'.consumed = r.consumed + used.length := by
  cases o with
  | none =>
    obtain ⟨rfl, _, _, h4, _, _⟩ := none_means_exhausted step r r' src src' h
    exact ⟨by simp [h4], by omega, src, by simp, h4⟩
  | some e =>
    rcases no_read_ahead step r r' src src' e h with ⟨q, _, _, rfl, h4, _⟩ | ⟨_, pre, x, q, rfl, _, _, _, h5⟩
    · exact ⟨by omega, by omega, [], rfl, by simp [h4]⟩
    · refine ⟨by simp; omega, by omega, pre ++ [x], by simp, by simp; omega⟩

/-! ### A3, timestamps: events stamped with the sample counter at generation time -/

section Stamps
variable {π : Type}

/-- the stamping state agrees with the receiver's counter and nothing queued is from the future -/
def Stamped (r : Rx (σ × Nat) (Nat × π)) : Prop :=
  r.st.2 = r.consumed ∧ ∀ p ∈ r.queue, p.1 ≤ r.consumed

theorem stamp_apply (step : σ → α → σ × List π) (s : σ) (n : Nat) (x : α) :
    stamp step (s, n) x = (((step s x).1, n + 1), (step s x).2.map (fun p => (n + 1, p))) := rfl

theorem stamp_fold_snd (step : σ → α → σ × List π) (s : σ × Nat) (xs : List α) :
    (foldEvents (stamp step) s xs).2.2 = s.2 + xs.length := by
  induction xs generalizing s with
  | nil => simp [foldEvents_nil]
  | cons x xs ih =>
    obtain ⟨s, n⟩ := s
    rw [foldEvents_cons, ih, stamp_apply]
    simp only [List.length_cons]
    omega

/-- **A3 (timestamps, one call).**  Under `Stamped`, an event returned by `next()` never carries
    a stamp beyond the samples read so far; a freshly generated one (empty queue) carries
    exactly the number of samples read, i.e. the index of the sample that generated it; and
    `Stamped` is preserved. -/
theorem stamp_next (step : σ → α → σ × List π) (r r' : Rx (σ × Nat) (Nat × π)) (src src' : List α)
    (t : Nat) (p : π) (hinv : Stamped r) (h : next (stamp step) r src = (some (t, p), r', src')) :
    Stamped r' ∧ t ≤ r'.consumed ∧ (r.queue = [] → t = r'.consumed) := by
  obtain ⟨hst, hq⟩ := hinv
  rcases no_read_ahead (stamp step) r r' src src' (t, p) h with
    ⟨q, h1, h2, _, h4, h5⟩ | ⟨h0, pre, x, q, _, _, h3, h4, h5⟩
  · refine ⟨⟨by rw [h5, h4]; exact hst, ?_⟩, ?_, ?_⟩
    · intro p' hp'
      rw [h4]; exact hq p' (by rw [h1]; exact List.mem_cons_of_mem _ (h2 ▸ hp'))
    · rw [h4]; exact hq (t, p) (by rw [h1]; exact List.mem_cons_self)
    · intro hnil; rw [hnil] at h1; cases h1
  · have hcnt : (foldEvents (stamp step) r.st pre).2.2 = r.consumed + pre.length := by
      rw [stamp_fold_snd, hst]
    generalize hfs : (foldEvents (stamp step) r.st pre).2 = fs at h3 hcnt
    obtain ⟨s, n⟩ := fs
    rw [stamp_apply] at h3
    simp only [Prod.mk.injEq] at h3
    obtain ⟨h3a, h3b⟩ := h3
    simp only at hcnt
    have hmem : ∀ p' ∈ (t, p) :: q, p'.1 = n + 1 := by
      intro p' hp'
      rw [← h3b] at hp'
      simp only [List.mem_map] at hp'
      obtain ⟨_, _, rfl⟩ := hp'
      rfl
    have ht : t = n + 1 := hmem (t, p) List.mem_cons_self
    refine ⟨⟨?_, ?_⟩, ?_, ?_⟩
    · rw [← h3a, h5]; simp only; omega
    · intro p' hp'
      rw [h4] at hp'
      rw [hmem p' (List.mem_cons_of_mem _ hp'), h5]; omega
    · omega
    · intro _; omega

theorem stamp_fold_events (step : σ → α → σ × List π) (s : σ × Nat) (xs : List α) :
    (∀ p ∈ (foldEvents (stamp step) s xs).1, s.2 < p.1 ∧ p.1 ≤ s.2 + xs.length)
      ∧ ((foldEvents (stamp step) s xs).1).Pairwise (fun a b => a.1 ≤ b.1) := by
  induction xs generalizing s with
  | nil => simp [foldEvents_nil]
  | cons x xs ih =>
    obtain ⟨s, n⟩ := s
    rw [foldEvents_cons, stamp_apply]
    obtain ⟨ih1, ih2⟩ := ih ((step s x).1, n + 1)
    simp only at ih1
    refine ⟨?_, ?_⟩
    · intro p hp
      simp only [List.mem_append, List.mem_map] at hp
      rcases hp with ⟨_, _, rfl⟩ | hp
      · simp
      · have := ih1 p hp
        simp only [List.length_cons]
        omega
    · rw [List.pairwise_append]
      refine ⟨?_, ih2, ?_⟩
      · rw [List.pairwise_map]
        exact List.pairwise_of_forall (fun _ _ => Nat.le_refl _)
      · intro a ha b hb
        simp only [List.mem_map] at ha
        obtain ⟨_, _, rfl⟩ := ha
        have := ih1 b hb
        simp only
        omega

/-- **A3 (timestamps, whole run).**  If the queued stamps are in order and not from the future,
    the stamps of everything a drain delivers are non-decreasing, and every generated event's
    stamp is the 1-based index (counted from `r.consumed`) of a sample of `src`. -/
theorem timestamps_monotone (step : σ → α → σ × List π) (r : Rx (σ × Nat) (Nat × π)) (src : List α)
    (hinv : Stamped r) (hsorted : r.queue.Pairwise (fun a b => a.1 ≤ b.1)) :
    ((drain (stamp step) r src).1).Pairwise (fun a b => a.1 ≤ b.1)
      ∧ ∀ p ∈ (foldEvents (stamp step) r.st src).1, r.consumed < p.1 ∧ p.1 ≤ r.consumed + src.length := by
  obtain ⟨hst, hq⟩ := hinv
  obtain ⟨h1, h2⟩ := stamp_fold_events step r.st src
  rw [hst] at h1
  refine ⟨?_, h1⟩
  rw [drain_eq, List.pairwise_append]
  refine ⟨hsorted, h2, ?_⟩
  intro a ha b hb
  have := hq a ha
  have := h1 b hb
  omega

end Stamps

/-! ### Non-vacuity: Nat samples, running sum as state, even samples are reported -/

def evStep (s x : Nat) : Nat × List Nat := (s + x, if x % 2 = 0 then [x] else [])

example : (drain evStep { st := 0 } [1, 2, 3, 4, 5]).1 = [2, 4]
    ∧ (drain evStep { st := 0 } [1, 2, 3, 4, 5]).2.st = 15
    ∧ (drain evStep { st := 0 } [1, 2, 3, 4, 5]).2.consumed = 5 := by decide

example : (drainChunks evStep { st := 0 } [[1], [], [2, 3, 4], [5]]).1 = [2, 4] := by decide

/-- the first `next()` reads `1, 2` and stops there: `3, 4, 5` are left in the source -/
example : (next evStep { st := 0 } [1, 2, 3, 4, 5]).1 = some 2
    ∧ (next evStep { st := 0 } [1, 2, 3, 4, 5]).2.2 = [3, 4, 5]
    ∧ (next evStep { st := 0 } [1, 2, 3, 4, 5]).2.1.consumed = 2 := by decide

example : (drain (stamp evStep) { st := (0, 0) } [1, 2, 3, 4, 5]).1 = [(2, 2), (4, 4)] := by decide

example : (next evStep { st := 0 } [1, 3, 5]).1 = none := by decide

end SameVerif.C13
