import SameVerif.Model.Assembler
/-
  C08 — Bounded reporting delay: trailers at once, headers within the hold time.
  Theorems about the assembler model (ticks = symbol-synchronizer outputs).
-/
namespace SameVerif.C08
open SameVerif

/-- no EndOfMessage is ever left waiting in the pending slot -/
def NoEomPending (s : AState) : Prop := ∀ t, s.pending = some t → t.data ≠ .ok .eom

/-- every pending result is due no later than `T + HOLD` -/
def PendingDueBy (s : AState) (T : Nat) : Prop := ∀ t, s.pending = some t → t.deadline ≤ T + HOLD

theorem idle_pending (s : AState) (now : Nat) :
    (aIdle s now).1.pending = (poll s.pending now).1 := by
  unfold aIdle
  cases h : poll s.pending now with
  | mk p o =>
    cases o with
    | none => simp
    | some r => cases r <;> simp

theorem poll_pending (p : Option (Timed MsgResult)) (now : Nat) :
    (poll p now).1 = none ∨ ((poll p now).1 = p ∧ ∃ t, p = some t ∧ now < t.deadline) := by
  unfold poll
  cases p with
  | none => simp
  | some t =>
    by_cases h : t.expiredAt now = true
    · simp [h]
    · right
      simp only [h]
      refine ⟨rfl, t, rfl, ?_⟩
      simp [Timed.expiredAt] at h
      omega

/-- **Trailers at once (1).**  The invariant holds initially and is preserved by every call. -/
theorem noEomPending_init : NoEomPending {} := by
  intro t h; simp at h

theorem noEomPending_idle (s : AState) (now : Nat) (h : NoEomPending s) : NoEomPending (aIdle s now).1 := by
  intro t ht
  rw [idle_pending] at ht
  rcases poll_pending s.pending now with hp | ⟨hp, _⟩
  · rw [hp] at ht; cases ht
  · rw [hp] at ht; exact h t ht

/-- what `accept` can leave in the slot: the old entry, or the new result with its own deadline -/
theorem accept_cases (p : Option (Timed MsgResult)) (msg : MsgResult) (now : Nat) :
    accept p msg now = p ∨ accept p msg now = some (acceptNew msg now) := by
  unfold accept
  cases p with
  | none => right; rfl
  | some old =>
    simp only
    cases acceptReplaces old.data msg
    · left; rfl
    · right; rfl

theorem acceptNew_data (msg : MsgResult) (now : Nat) : (acceptNew msg now).data = msg := by
  unfold acceptNew; split <;> rfl

theorem acceptNew_deadline_le (msg : MsgResult) (now : Nat) : (acceptNew msg now).deadline ≤ now + HOLD := by
  unfold acceptNew; split <;> simp

theorem acceptNew_eom (now : Nat) : acceptNew (.ok .eom) now = ⟨.ok .eom, now⟩ := rfl

theorem noEomPending_assemble (s : AState) (burst : List Byte) (now : Nat) (h : NoEomPending s) :
    NoEomPending (aAssemble s burst now).1 := by
  unfold aAssemble
  split
  · exact noEomPending_idle s now h
  · intro t ht
    rw [idle_pending] at ht
    simp only at ht
    have hkeep : ∀ t, (poll s.pending now).1 = some t → t.data ≠ .ok .eom := by
      intro t ht
      rcases poll_pending s.pending now with hp | ⟨hp, _⟩
      · rw [hp] at ht; cases ht
      · rw [hp] at ht; exact h t ht
    unfold pendingAfter at ht
    cases hres : estimateOf s burst now with
    | none => rw [hres] at ht; exact hkeep t ht
    | some r =>
      rw [hres] at ht
      simp only at ht
      rcases accept_cases s.pending r now with ha | ha
      · rw [ha] at ht; exact hkeep t ht
      · rw [ha] at ht
        intro heom
        -- a freshly accepted EOM is due `now`, so `poll now` has already released it
        unfold poll at ht
        simp only at ht
        split at ht
        · cases ht
        · rename_i hne
          cases ht
          rw [acceptNew_data] at heom
          subst heom
          simp [acceptNew_eom, Timed.expiredAt] at hne

/-- **Trailers at once (2).**  Whenever the estimate after a burst is an EndOfMessage and the slot
    takes it (it is empty, or holds an error), that same call outputs it. -/
theorem eom_same_call (s : AState) (burst : List Byte) (now : Nat) (hb : burst.isEmpty = false)
    (hres : estimateOf s burst now = some (.ok .eom))
    (hacc : accept s.pending (.ok .eom) now = some (acceptNew (.ok .eom) now)) :
    (aAssemble s burst now).2 = .message (.ok .eom) := by
  unfold aAssemble
  simp only [hb, Bool.false_eq_true, ↓reduceIte]
  unfold aIdle pendingAfter
  simp only [hres, hacc]
  unfold poll
  simp [acceptNew_eom, Timed.expiredAt]

/-- the slot takes an EndOfMessage exactly when it is empty or holds a decode error
    (a pending StartOfMessage is never displaced by a trailer) -/
theorem eom_accepted_iff (p : Option (Timed MsgResult)) (now : Nat) :
    accept p (.ok .eom) now = some (acceptNew (.ok .eom) now) ↔
      (p = none ∨ ∃ t e, p = some t ∧ t.data = .error e) ∨ p = some (acceptNew (.ok .eom) now) := by
  unfold accept
  cases p with
  | none => simp
  | some old =>
    cases hd : old.data with
    | error e => simp [acceptReplaces, hd]
    | ok m =>
      cases m with
      | eom =>
        simp [acceptReplaces, hd]
      | som hh =>
        simp [acceptReplaces, hd]

/-- **Headers within the hold time (1).**  `accept` never sets a deadline later than `now + HOLD`. -/
theorem pendingDueBy_accept (p : Option (Timed MsgResult)) (msg : MsgResult) (now T : Nat)
    (hT : T ≤ now) (h : ∀ t, p = some t → t.deadline ≤ T + HOLD) :
    ∀ t, accept p msg now = some t → t.deadline ≤ now + HOLD := by
  intro t ht
  rcases accept_cases p msg now with ha | ha
  · rw [ha] at ht; have := h t ht; omega
  · rw [ha] at ht
    cases ht
    exact acceptNew_deadline_le msg now

/-- **Headers within the hold time (2).**  A poll at or after the deadline outputs the pending
    result and empties the slot: nothing is held for ever. -/
theorem due_is_released (s : AState) (t : Timed MsgResult) (now : Nat)
    (hp : s.pending = some t) (hdue : t.deadline ≤ now) :
    (aIdle s now).2 = .message t.data ∧ (aIdle s now).1.pending = none := by
  unfold aIdle poll
  simp only [hp, Timed.expiredAt, decide_eq_true_eq.mpr hdue, ↓reduceIte]
  cases h : t.data with
  | error e => simp
  | ok m => simp

/-- a poll before the deadline keeps the slot and reports no message -/
theorem not_due_is_kept (s : AState) (t : Timed MsgResult) (now : Nat)
    (hp : s.pending = some t) (hdue : now < t.deadline) :
    (aIdle s now).1.pending = some t ∧ ∀ r, (aIdle s now).2 ≠ .message r := by
  have hne : ¬ t.deadline ≤ now := by omega
  unfold aIdle poll
  simp only [hp, Timed.expiredAt, decide_eq_true_eq, hne, ↓reduceIte]
  refine ⟨trivial, ?_⟩
  intro r
  split <;> simp

/-- the hold is the documented one: 1.05 s of symbols plus 17 bytes, i.e. at most 1.311 s -/
theorem hold_le_documented :
    HOLD * 100 ≤ (105 * Gen.BAUD_CENTIHZ + 17 * 8 * 10000) / 100 ∧ HOLD * 100000 ≤ 1311 * Gen.BAUD_CENTIHZ + 100000 := by
  decide

end SameVerif.C08
