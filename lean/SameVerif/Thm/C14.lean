import SameVerif.Lemmas.ReceiverFacts
import SameVerif.Thm.C09
/-
  C14 — No message is lost at end of input: a pending result is released by the `NoCarrier`
  ticks that `flush()` generates, and `flush()` generates enough of them.
-/
namespace SameVerif.C14
open SameVerif SameVerif.C08 SameVerif.C09

/-- no message of any kind among the events -/
def NoMessage (evs : List Event) : Prop :=
  ∀ e ∈ evs, ∀ smp r, e ≠ Event.transport smp (.message r)

/-- the situation `flush()` has to deal with: result `t` is pending, and the two invariants
    that make the pending result differ from the reported transport state hold
    (both hold initially and are preserved by every tick: `rInv_init`, `rInv_tick`) -/
structure Holding (s : RState) (t : Timed MsgResult) : Prop where
  pend : s.asm.pending = some t
  pinv : PendInv s
  noeom : NoEomPending s.asm

theorem holding_of_rInv (s : RState) (t : Timed MsgResult) (h : RInv s) (hp : s.asm.pending = some t) :
    Holding s t := ⟨hp, h.2.1, h.2.2⟩

theorem noMessage_append (a b : List Event) (ha : NoMessage a) (hb : NoMessage b) : NoMessage (a ++ b) := by
  intro e he
  rcases List.mem_append.1 he with h | h
  · exact ha e h
  · exact hb e h

/-! ### one tick -/

/-- a `NoCarrier` tick before the deadline (timer firing or not) keeps the situation -/
theorem early_tick_holding (rate : Nat) (s : RState) (t : Timed MsgResult) (h : Holding s t)
    (sample sym : Nat) (hearly : sym < t.deadline) :
    Holding (rTick rate s sample sym .noCarrier).1 t := by
  rw [rTick_eq]
  exact ⟨(nc_tick_early s sample sym t h.pend hearly).1, pendInv_next rate s sample sym _ h.pinv,
    tlCore_noEom s sample sym _ h.noeom⟩

/-- … and, when the timer does not fire, leaves the timer alone and emits no message -/
theorem early_tick (rate : Nat) (s : RState) (t : Timed MsgResult) (h : Holding s t)
    (sample sym : Nat) (hearly : sym < t.deadline) (hnf : ¬ Forced s sample .noCarrier) :
    (rTick rate s sample sym .noCarrier).1.forceEomAt = s.forceEomAt
      ∧ NoMessage (rTick rate s sample sym .noCarrier).2 := by
  have hout : (tlCore s sample sym .noCarrier).2 = some .idle
      ∨ (tlCore s sample sym .noCarrier).2 = some .assembling := by
    rcases (nc_tick_early s sample sym t h.pend hearly).2 with hf | ho
    · exact absurd hf hnf
    · exact ho
  rw [rTick_eq]
  refine ⟨?_, ?_⟩
  · rcases hout with ho | ho <;> simp only [rNext, ho, forceAfter]
  · intro e he smp r heq
    subst heq
    rcases List.mem_append.1 he with hl | ht
    · unfold linkEv at hl; split at hl <;> simp at hl
    · rcases hout with ho | ho <;> rw [ho] at ht <;> unfold trEv at ht <;> simp only at ht <;>
        split at ht <;> simp at ht

/-- a forced tick does not consult the assembler: the result stays pending, the timer is spent -/
theorem forced_tick (rate : Nat) (s : RState) (t : Timed MsgResult) (h : Holding s t)
    (sample sym : Nat) (hf : Forced s sample .noCarrier) :
    Holding (rTick rate s sample sym .noCarrier).1 t
      ∧ (rTick rate s sample sym .noCarrier).1.forceEomAt = none := by
  have hcore : tlCore s sample sym .noCarrier = (s.asm, some (.message (.ok .eom))) := by
    rcases tlCore_cases s sample sym .noCarrier with ⟨_, h1⟩ | ⟨_, h1⟩ | ⟨hnf, _⟩
    · exact absurd rfl h1
    · exact h1
    · exact absurd hf hnf
  rw [rTick_eq]
  refine ⟨⟨?_, pendInv_next rate s sample sym _ h.pinv, tlCore_noEom s sample sym _ h.noeom⟩, ?_⟩
  · simp only [rNext, hcore]; exact h.pend
  · simp only [rNext, hcore]; rfl

/-- a `NoCarrier` tick at or after the deadline, timer not firing: the pending result is
    reported as an event (the change filter cannot swallow it) and the slot is emptied -/
theorem due_tick (rate : Nat) (s : RState) (t : Timed MsgResult) (h : Holding s t)
    (sample sym : Nat) (hdue : t.deadline ≤ sym) (hnf : ¬ Forced s sample .noCarrier) :
    Event.transport sample (.message t.data) ∈ (rTick rate s sample sym .noCarrier).2
      ∧ (rTick rate s sample sym .noCarrier).1.asm.pending = none
      ∧ (rTick rate s sample sym .noCarrier).1.transportState = .message t.data := by
  obtain ⟨hcore, hnone⟩ := nc_tick_due s sample sym t h.pend hdue hnf
  refine ⟨?_, ?_, ?_⟩
  · rw [mem_tick_transport, transportLayer_eq]
    exact ⟨rfl, by simp only [hcore], pending_ne_state s t h.pend h.pinv h.noeom⟩
  · rw [rTick_eq]; simp only [rNext, hcore]; exact hnone
  · rw [rTick_eq]; simp only [rNext, hcore]

theorem not_forced_of (s : RState) (sample : Nat) (ls : LinkSt)
    (h : ∀ T, s.forceEomAt = some T → sample ≤ T) : ¬ Forced s sample ls := by
  rintro ⟨_, T, hT, hgt⟩
  have := h T hT
  omega

/-! ### C1 — the pending result is released at the first tick at or after its deadline -/

/-- **C1.**  `t` pending; `pre` are `NoCarrier` ticks with `sym` below the deadline; the next
    tick is `NoCarrier` with `sym` at or beyond it; the end-of-message timer, if armed, does not
    fire on any of these ticks.  Then no message event is emitted during `pre`, and the tick
    emits the event `.message t.data` and empties the slot. -/
theorem flush_releases (rate : Nat) (s : RState) (t : Timed MsgResult) (h : Holding s t)
    (pre : List RTick) (sample sym : Nat)
    (hpre : ∀ tk ∈ pre, tk.2.2 = .noCarrier ∧ tk.2.1 < t.deadline)
    (hforce : ∀ T, s.forceEomAt = some T → (∀ tk ∈ pre, tk.1 ≤ T) ∧ sample ≤ T)
    (hdue : t.deadline ≤ sym) :
    NoMessage (rRun rate s pre).2
      ∧ (rRun rate s pre).1.forceEomAt = s.forceEomAt
      ∧ Event.transport sample (.message t.data)
          ∈ (rTick rate (rRun rate s pre).1 sample sym .noCarrier).2
      ∧ (rTick rate (rRun rate s pre).1 sample sym .noCarrier).1.asm.pending = none := by
  induction pre generalizing s with
  | nil =>
    have hnf := not_forced_of s sample .noCarrier (fun T hT => (hforce T hT).2)
    obtain ⟨h1, h2, _⟩ := due_tick rate s t h sample sym hdue hnf
    exact ⟨fun e he => (by cases he), rfl, h1, h2⟩
  | cons x xs ih =>
    obtain ⟨smp, sy, ls⟩ := x
    have hx := hpre (smp, sy, ls) List.mem_cons_self
    simp only at hx
    obtain ⟨rfl, hsy⟩ := hx
    have hnf := not_forced_of s smp .noCarrier
      (fun T hT => (hforce T hT).1 (smp, sy, .noCarrier) List.mem_cons_self)
    have hh := early_tick_holding rate s t h smp sy hsy
    obtain ⟨hfo, hnm⟩ := early_tick rate s t h smp sy hsy hnf
    rw [rRun_cons]
    obtain ⟨i1, i2, i3, i4⟩ := ih _ hh (fun tk htk => hpre tk (List.mem_cons_of_mem _ htk))
      (by
        rw [hfo]; intro T hT
        exact ⟨fun tk htk => (hforce T hT).1 tk (List.mem_cons_of_mem _ htk), (hforce T hT).2⟩)
    exact ⟨noMessage_append _ _ hnm i1, by rw [i2, hfo], i3, i4⟩

theorem holding_run (rate : Nat) (s : RState) (t : Timed MsgResult) (h : Holding s t) (pre : List RTick)
    (hpre : ∀ tk ∈ pre, tk.2.2 = .noCarrier ∧ tk.2.1 < t.deadline) :
    Holding (rRun rate s pre).1 t := by
  induction pre generalizing s with
  | nil => exact h
  | cons x xs ih =>
    obtain ⟨smp, sy, ls⟩ := x
    have hx := hpre (smp, sy, ls) List.mem_cons_self
    simp only at hx
    obtain ⟨rfl, hsy⟩ := hx
    rw [rRun_cons]
    exact ih _ (early_tick_holding rate s t h smp sy hsy) (fun tk htk => hpre tk (List.mem_cons_of_mem _ htk))

/-- **C1 without any assumption on the timer.**  The timer can pre-empt the assembler on at most
    one tick: of the first two `NoCarrier` ticks at or after the deadline, one emits the event. -/
theorem flush_releases_unconditional (rate : Nat) (s : RState) (t : Timed MsgResult) (h : Holding s t)
    (pre : List RTick) (sample1 sym1 sample2 sym2 : Nat)
    (hpre : ∀ tk ∈ pre, tk.2.2 = .noCarrier ∧ tk.2.1 < t.deadline)
    (hdue1 : t.deadline ≤ sym1) (hdue2 : t.deadline ≤ sym2) :
    Event.transport sample1 (.message t.data)
        ∈ (rTick rate (rRun rate s pre).1 sample1 sym1 .noCarrier).2
    ∨ Event.transport sample2 (.message t.data)
        ∈ (rTick rate (rTick rate (rRun rate s pre).1 sample1 sym1 .noCarrier).1 sample2 sym2 .noCarrier).2 := by
  have h1 := holding_run rate s t h pre hpre
  by_cases hf : Forced (rRun rate s pre).1 sample1 .noCarrier
  · right
    obtain ⟨h2, hnone⟩ := forced_tick rate _ t h1 sample1 sym1 hf
    have hnf := not_forced_of (rTick rate (rRun rate s pre).1 sample1 sym1 .noCarrier).1 sample2 .noCarrier
      (fun T hT => by rw [hnone] at hT; cases hT)
    exact (due_tick rate _ t h2 sample2 sym2 hdue2 hnf).1
  · left
    exact (due_tick rate _ t h1 sample1 sym1 hdue1 hf).1

/-! ### C1, run level -/

theorem exists_first_due (d : Nat) (ticks : List RTick) (hex : ∃ tk ∈ ticks, d ≤ tk.2.1) :
    ∃ pre tk post, ticks = pre ++ tk :: post ∧ (∀ x ∈ pre, x.2.1 < d) ∧ d ≤ tk.2.1 := by
  induction ticks with
  | nil => obtain ⟨_, h, _⟩ := hex; cases h
  | cons x xs ih =>
    by_cases hx : d ≤ x.2.1
    · exact ⟨[], x, xs, rfl, fun _ h => (by cases h), hx⟩
    · obtain ⟨tk, htk, hd⟩ := hex
      have : tk ∈ xs := by
        rcases List.mem_cons.1 htk with rfl | h
        · exact absurd hd hx
        · exact h
      obtain ⟨pre, tk', post, rfl, h1, h2⟩ := ih ⟨tk, this, hd⟩
      refine ⟨x :: pre, tk', post, rfl, ?_, h2⟩
      intro y hy
      rcases List.mem_cons.1 hy with rfl | hy
      · omega
      · exact h1 y hy

/-- **C1 (run).**  Any run of `NoCarrier` ticks that reaches the deadline, the timer not firing:
    the event `.message t.data` is emitted exactly at the first tick with `sym ≥ t.deadline`;
    no message event precedes it. -/
theorem flush_releases_run (rate : Nat) (s : RState) (t : Timed MsgResult) (h : Holding s t)
    (ticks : List RTick) (hnc : ∀ tk ∈ ticks, tk.2.2 = .noCarrier)
    (hforce : ∀ T, s.forceEomAt = some T → ∀ tk ∈ ticks, tk.1 ≤ T)
    (hex : ∃ tk ∈ ticks, t.deadline ≤ tk.2.1) :
    ∃ pre sample sym post, ticks = pre ++ (sample, sym, .noCarrier) :: post
      ∧ (∀ x ∈ pre, x.2.1 < t.deadline) ∧ t.deadline ≤ sym
      ∧ NoMessage (rRun rate s pre).2
      ∧ Event.transport sample (.message t.data)
          ∈ (rTick rate (rRun rate s pre).1 sample sym .noCarrier).2
      ∧ (rRun rate s ticks).2
          = (rRun rate s pre).2 ++ (rTick rate (rRun rate s pre).1 sample sym .noCarrier).2
              ++ (rRun rate (rTick rate (rRun rate s pre).1 sample sym .noCarrier).1 post).2
      ∧ Event.transport sample (.message t.data) ∈ (rRun rate s ticks).2 := by
  obtain ⟨pre, tk, post, rfl, h1, h2⟩ := exists_first_due t.deadline ticks hex
  obtain ⟨sample, sym, ls⟩ := tk
  have hls : ls = .noCarrier := hnc (sample, sym, ls) (by simp)
  subst hls
  simp only at h2
  obtain ⟨r1, _, r3, _⟩ := flush_releases rate s t h pre sample sym
    (fun tk htk => ⟨hnc tk (by simp [htk]), h1 tk htk⟩)
    (fun T hT => ⟨fun tk htk => hforce T hT tk (by simp [htk]), hforce T hT (sample, sym, .noCarrier) (by simp)⟩)
    h2
  have hsplit : (rRun rate s (pre ++ (sample, sym, .noCarrier) :: post)).2
      = (rRun rate s pre).2 ++ (rTick rate (rRun rate s pre).1 sample sym .noCarrier).2
          ++ (rRun rate (rTick rate (rRun rate s pre).1 sample sym .noCarrier).1 post).2 := by
    rw [rRun_append, rRun_cons]; simp only [List.append_assoc]
  refine ⟨pre, sample, sym, post, rfl, h1, h2, r1, r3, hsplit, ?_⟩
  rw [hsplit]
  exact List.mem_append_left _ (List.mem_append_right _ r3)

/-- **C1 (consecutive symbol counts).**  Ticks numbered `sym0 + 1, sym0 + 2, …`, all `NoCarrier`,
    at least one of them, the last one at or beyond the deadline: the message comes out. -/
theorem flush_releases_consecutive (rate : Nat) (s : RState) (t : Timed MsgResult) (h : Holding s t)
    (ticks : List RTick) (sym0 : Nat) (hnc : ∀ tk ∈ ticks, tk.2.2 = .noCarrier)
    (hsym : ∀ i (hi : i < ticks.length), (ticks[i]).2.1 = sym0 + 1 + i)
    (hforce : ∀ T, s.forceEomAt = some T → ∀ tk ∈ ticks, tk.1 ≤ T)
    (hpos : 0 < ticks.length) (hlen : t.deadline ≤ sym0 + ticks.length) :
    ∃ sample, Event.transport sample (.message t.data) ∈ (rRun rate s ticks).2 := by
  have hlast : ticks.length - 1 < ticks.length := by omega
  obtain ⟨_, sample, _, _, _, _, _, _, _, _, hmem⟩ := flush_releases_run rate s t h ticks hnc hforce
    ⟨ticks[ticks.length - 1], List.getElem_mem hlast, by rw [hsym _ hlast]; omega⟩
  exact ⟨sample, hmem⟩

/-! ### C2 — `flush()` generates enough ticks -/

/-- ticks at most `gapMax` samples apart (the first no later than sample `gapMax`): tick number
    `k` (from 0) happens no later than sample `(k + 1) * gapMax` -/
theorem tick_position (gapMax : Nat) (pos : Nat → Nat) (h0 : pos 0 ≤ gapMax)
    (hstep : ∀ i, pos (i + 1) ≤ pos i + gapMax) (k : Nat) : pos k ≤ (k + 1) * gapMax := by
  induction k with
  | zero => simpa using h0
  | succ k ih =>
    have := hstep k
    rw [Nat.succ_mul]
    omega

/-- hence `N` samples contain at least `N / gapMax` ticks: ticks `0 … N / gapMax - 1` all
    happen within the first `N` samples -/
theorem ticks_within (gapMax N : Nat) (hg : 0 < gapMax) (pos : Nat → Nat) (h0 : pos 0 ≤ gapMax)
    (hstep : ∀ i, pos (i + 1) ≤ pos i + gapMax) (k : Nat) (hk : k < N / gapMax) : pos k ≤ N := by
  have h1 := tick_position gapMax pos h0 hstep k
  have h2 : (k + 1) * gapMax ≤ N := (Nat.le_div_iff_mul_le hg).1 hk
  omega

/-- **C2.**  `flush()` feeds `4 * rate` samples.  If symbol ticks are never more than `gapMax`
    samples apart, where `gapMax` is at most twice the nominal symbol period
    (`gapMax * 1000 ≤ rate * 1000 / 260`, nominal rate 520.83 Hz), these contain at least 1040
    ticks — more than `L + MAX_INTERBURST_SYMBOLS + 1` for every latency `L ≤ 300`. -/
theorem flush_ticks (rate gapMax L : Nat) (hg : 0 < gapMax)
    (hgap : gapMax * 1000 ≤ rate * 1000 / 260) (hL : L ≤ 300) :
    1040 ≤ 4 * rate / gapMax ∧ L + Gen.MAX_INTERBURST_SYMBOLS + 1 < 4 * rate / gapMax := by
  have h1 : 1040 ≤ 4 * rate / gapMax := by
    rw [Nat.le_div_iff_mul_le hg]
    omega
  refine ⟨h1, ?_⟩
  simp only [Gen.MAX_INTERBURST_SYMBOLS]
  omega

/-- the hypothesis of C2 is satisfiable at every supported rate: `gapMax = ⌊rate / 260⌋ ≥ 30` -/
theorem flush_ticks_gap_exists (rate : Nat) (hrate : 8000 ≤ rate) :
    0 < rate / 260 ∧ rate / 260 * 1000 ≤ rate * 1000 / 260 := by
  omega

/-- C2 with the canonical `gapMax` -/
theorem flush_ticks_canonical (rate L : Nat) (hrate : 8000 ≤ rate) (hL : L ≤ 300) :
    L + Gen.MAX_INTERBURST_SYMBOLS + 1 < 4 * rate / (rate / 260) :=
  (flush_ticks rate (rate / 260) L (flush_ticks_gap_exists rate hrate).1
    (flush_ticks_gap_exists rate hrate).2 hL).2

/-! ### Non-vacuity: a header is due at symbol 5; three NoCarrier ticks with sym 3, 4, 5 -/

example : Holding C09.st0 ⟨.ok (.som C09.hdr0), 5⟩ :=
  ⟨rfl, fun _ => Or.inl rfl, (by intro t ht; cases ht; simp)⟩

example : (rRun 8000 C09.st0 [(16, 3, .noCarrier), (32, 4, .noCarrier), (48, 5, .noCarrier)]).2
    = [Event.transport 48 (.message (.ok (.som C09.hdr0)))] := by
  rfl

example : 983 < 4 * 8000 / (8000 / 260) ∧ 4 * 8000 / (8000 / 260) = 1066 := by decide

end SameVerif.C14
