import SameVerif.Thm.C03
import SameVerif.Lemmas.CombineFew
import SameVerif.Lemmas.AssemblerRuns
/-
  C02 — Two of three bursts suffice (and one does not).
  Property theorems about `combine` on one/two bursts and about the assembler model run over
  operation lists; helper lemmas live in Lemmas/CombineFew.lean and Lemmas/AssemblerRuns.lean.
-/
namespace SameVerif.C02
open SameVerif SameVerif.Spec SameVerif.Asm

/-! ### 5. `combine` on two equal bursts, and on one -/

/-- **Two intact bursts.**  For a canonical header text `H` in the SAME character set that fits the
    burst buffer, two copies (no third burst) combine to exactly `H`, with no bit errors and no
    byte voted on by three bursts. -/
theorem combine_pair_equal (maxLen : Nat) (H : List Byte) (off : Nat)
    (hall : ∀ b ∈ H, isAllowed b = true)
    (hcan : checkHeader H = some (off, H.length))
    (hfit : H.length ≤ maxLen) :
    combine maxLen [H, H] = some (.ok (.som ⟨H, off, 0, 0⟩)) := by
  rw [combine_congr _ _ _ (estimateMessage_pair maxLen H)]
  have := C03.combine_two_of_three maxLen 0 H [] off hall hcan hfit
  simpa [specParity, specVoting] using this

/-- **One header burst** combines to nothing (neither a message nor an error). -/
theorem combine_single_none (maxLen : Nat) (H : List Byte) (r : Nat × Nat)
    (hcan : checkHeader H = some r) : combine maxLen [H] = none :=
  combine_single_header maxLen H r hcan

/-- **Any one burst** combines to nothing or to an EndOfMessage — never to a StartOfMessage, never
    to an error.  (A lone burst beginning `NN` *is* reported as EndOfMessage: the trailer test
    looks at the raw estimate, not at the part backed by two bursts.) -/
theorem combine_single_cases (maxLen : Nat) (b : List Byte) :
    combine maxLen [b] = none ∨ combine maxLen [b] = some (.ok .eom) :=
  combine_single maxLen b

/-! ### 6. two intact bursts are reported, whatever the poll schedule -/

/-- **Two bursts suffice.**  Start with an empty history, nothing pending, and a previous report
    (if any) of a different text.  Header `H` arrives at `t1` and again at `t2 < t1 + HIST`; polls
    (any number, any order) come at times `≤ t2` between the bursts and at times `< t2 + HOLD`
    after them; then a poll at `t ≥ t2 + HOLD`.  The only message output in the whole run is
    `H`, exactly, at that last poll.  (`t1 ≤ t2` and lower bounds on the poll times are not needed.) -/
theorem two_bursts_report (s : AState) (H : List Byte) (off t1 t2 t : Nat) (polls1 polls2 : List Nat)
    (hall : ∀ b ∈ H, isAllowed b = true)
    (hcan : checkHeader H = some (off, H.length))
    (hfit : H.length ≤ MAXLEN)
    (hh : s.history = []) (hp : s.pending = none)
    (hprev : ∀ p, s.previous = some p → p.data.text ≠ H)
    (h21 : t2 < t1 + HIST)
    (hp1 : ∀ u ∈ polls1, u ≤ t2)
    (hp2 : ∀ u ∈ polls2, u < t2 + HOLD)
    (ht : t2 + HOLD ≤ t) :
    (runOps s (.burst H t1 :: (polls1.map .poll ++ .burst H t2 :: (polls2.map .poll ++ [.poll t])))).2
      = [(t, .ok (.som ⟨H, off, 0, 0⟩))] := by
  have hne : H.isEmpty = false := by
    have := ne_nil_of_checkHeader H _ hcan
    cases H with
    | nil => exact absurd rfl this
    | cons _ _ => rfl
  have htake : H.take MAXLEN = H := List.take_of_length_le hfit
  -- first burst: stored
  have hc1 : combine MAXLEN [H.take MAXLEN] = none := by
    rw [htake]; exact combine_single_header _ _ _ hcan
  obtain ⟨hs1, hq1⟩ := burst_stored s H t1 hne hh hp hc1
  rw [htake] at hs1
  -- polls between the bursts: nothing moves
  have hstill : runOps (stepOp s (.burst H t1)).1 (polls1.map .poll) = ((stepOp s (.burst H t1)).1, []) := by
    apply run_polls_still
    · rw [hs1]
    · rw [hs1]; simp
    · intro u hu e he
      rw [hs1] at he
      simp only [List.mem_singleton] at he
      subst he
      have := hp1 u hu
      simp only; omega
  -- second burst: accepted, held
  have hprune : pruneHistory [(⟨H, t1 + HIST⟩ : Timed (List Byte))] t2 = [⟨H, t1 + HIST⟩] := by
    apply pruneHistory_fresh
    · simp
    · intro e he
      simp only [List.mem_singleton] at he
      subst he; exact h21
  have hc2 : combine MAXLEN ((historyAfter (stepOp s (.burst H t1)).1 H t2).map (·.data))
      = some (.ok (.som ⟨H, off, 0, 0⟩)) := by
    rw [hs1]
    simp only [historyAfter, hprune, htake, List.cons_append, List.nil_append, List.map_cons, List.map_nil]
    exact combine_pair_equal MAXLEN H off hall hcan hfit
  have hprev1 : ∀ p, (stepOp s (.burst H t1)).1.previous = some p → p.data.text ≠ H := by
    intro p hpp
    rw [hs1] at hpp
    simp only at hpp
    rcases prunePrevious_cases s.previous t1 with ⟨hn, _⟩ | ⟨hk, _⟩
    · rw [hn] at hpp; cases hpp
    · rw [hk] at hpp; exact hprev p hpp
  obtain ⟨hpend2, _, hq2⟩ := burst_accepted (stepOp s (.burst H t1)).1 H t2 ⟨H, off, 0, 0⟩ hne
    (by rw [hs1]) hc2 hprev1
  -- polls while the message is held
  obtain ⟨hw1, hw2, _⟩ := run_polls_waiting polls2 ⟨.ok (.som ⟨H, off, 0, 0⟩), t2 + HOLD⟩
    (stepOp (stepOp s (.burst H t1)).1 (.burst H t2)).1 hpend2 hp2
  -- the poll at or after the deadline
  have hfin := idle_of_due_ok _ _ (.som ⟨H, off, 0, 0⟩) t hw2 rfl ht
  simp only [runOps_cons, runOps_append, runOps_nil, AOp.time, List.append_nil]
  rw [outOf_quiet _ _ hq1, hstill]
  simp only [List.nil_append]
  rw [outOf_quiet _ _ hq2, hw1]
  simp only [List.nil_append]
  show outOf t (aIdle _ t).2 = _
  rw [hfin]
  rfl

/-- the same from the initial state -/
theorem two_bursts_report_init (H : List Byte) (off t1 t2 t : Nat) (polls1 polls2 : List Nat)
    (hall : ∀ b ∈ H, isAllowed b = true)
    (hcan : checkHeader H = some (off, H.length))
    (hfit : H.length ≤ MAXLEN)
    (h21 : t2 < t1 + HIST)
    (hp1 : ∀ u ∈ polls1, u ≤ t2)
    (hp2 : ∀ u ∈ polls2, u < t2 + HOLD)
    (ht : t2 + HOLD ≤ t) :
    (runOps {} (.burst H t1 :: (polls1.map .poll ++ .burst H t2 :: (polls2.map .poll ++ [.poll t])))).2
      = [(t, .ok (.som ⟨H, off, 0, 0⟩))] :=
  two_bursts_report {} H off t1 t2 t polls1 polls2 hall hcan hfit rfl rfl (by intro p hp; cases hp)
    h21 hp1 hp2 ht

/-! ### 7. one burst is never reported as a header -/

/-- **One burst, then any polls.**  From the initial state the run outputs nothing, or a single
    EndOfMessage at the burst's own tick. -/
theorem single_burst_outputs (b : List Byte) (t0 : Nat) (polls : List Nat) :
    (runOps {} (.burst b t0 :: polls.map .poll)).2 = []
      ∨ (runOps {} (.burst b t0 :: polls.map .poll)).2 = [(t0, .ok .eom)] := by
  have key : (stepOp {} (.burst b t0)).1.pending = none ∧
      (outOf t0 (stepOp {} (.burst b t0)).2 = [] ∨ outOf t0 (stepOp {} (.burst b t0)).2 = [(t0, .ok .eom)]) := by
    by_cases hb : b.isEmpty = true
    · rw [stepOp_eq, preIdle_burst_empty _ _ _ hb]
      have hi := idle_of_pending_none {} t0 rfl
      simp only [AOp.time]
      rw [hi.1]
      exact ⟨rfl, Or.inl (outOf_quiet _ _ hi.2)⟩
    · have hb' : b.isEmpty = false := by simpa using hb
      rcases combine_single MAXLEN (b.take MAXLEN) with hc | hc
      · obtain ⟨hs, hq⟩ := burst_stored {} b t0 hb' rfl rfl hc
        rw [hs]
        exact ⟨rfl, Or.inl (outOf_quiet _ _ hq)⟩
      · have hist : historyAfter {} b t0 = [⟨b.take MAXLEN, t0 + HIST⟩] := by
          simp [historyAfter, pruneHistory_nil]
        have hest : estimateOf {} b t0 = some (.ok .eom) := by
          unfold estimateOf
          rw [hist]
          simp only [List.map_cons, List.map_nil, hc]
          rfl
        have hpa : pendingAfter {} b t0 = some ⟨.ok .eom, t0⟩ := by
          unfold pendingAfter; rw [hest]; rfl
        rw [stepOp_eq, preIdle_burst _ _ _ hb', hpa]
        simp only [AOp.time]
        rw [idle_of_due_ok _ ⟨.ok .eom, t0⟩ .eom t0 rfl rfl (Nat.le_refl _)]
        exact ⟨rfl, Or.inr rfl⟩
  obtain ⟨hq, _, _⟩ := run_polls_quiet polls (stepOp {} (.burst b t0)).1 key.1
  simp only [runOps_cons, hq, List.append_nil, AOp.time]
  exact key.2

/-- **A single burst never reaches the transport as a header.** -/
theorem single_never_transport (b : List Byte) (t0 : Nat) (polls : List Nat) :
    ∀ x ∈ (runOps {} (.burst b t0 :: polls.map .poll)).2, ∀ h, x.2 ≠ .ok (.som h) := by
  intro x hx h
  rcases single_burst_outputs b t0 polls with ho | ho
  · rw [ho] at hx; cases hx
  · rw [ho] at hx
    simp only [List.mem_singleton] at hx
    subst hx
    simp

/-! ### 8. the scenario is satisfiable at the extremes -/

/-- With the longest legal pause (1.05 s at −1 % baud, 560 ticks) and maximum-length bursts, the
    second burst — and even the third — ends before the first one leaves the history. -/
theorem max_header_fits :
    2 * (560 + 8 * MAXLEN) < HIST ∧ 8 * MAXLEN + 560 < HIST := by
  decide

/-! ### 9. F4: a trailer can be lost -/

/-- "ZCZC-WXR-RWT-012345+0030-1231200-KLOX-" -/
def exampleHeader : List Byte :=
  [90, 67, 90, 67, 45, 87, 88, 82, 45, 82, 87, 84, 45, 48, 49, 50, 51, 52, 53, 43, 48, 48, 51, 48, 45,
   49, 50, 51, 49, 50, 48, 48, 45, 75, 76, 79, 88, 45]

theorem exampleHeader_canonical :
    checkHeader exampleHeader = some (19, exampleHeader.length)
      ∧ exampleHeader.all isAllowed = true ∧ exampleHeader.length = 38 := by
  decide +kernel

/-- **Counterexample (F4).**  Header bursts 1 and 3 (ends 1900 ticks apart), then trailer bursts 1
    and 2 following at the one-second pause (681 ticks between burst ends), no polls while the
    link is busy, polls afterwards.  The only message ever output is the StartOfMessage: the first
    trailer burst re-votes the pending header (pushing its deadline to 3581 + HOLD), the second
    trailer burst's EndOfMessage is dropped because a StartOfMessage is still pending. -/
theorem eom_lost_counterexample :
    (runOps {} [.burst exampleHeader 1000, .burst exampleHeader 2900, .burst litNNNN 3581,
                .burst litNNNN 4262, .poll 4263, .poll 11000]).2
      = [(4263, .ok (.som ⟨exampleHeader, 19, 10, 4⟩))] := by
  decide +kernel

/-- the operations of the counterexample are in time order -/
theorem eom_lost_counterexample_sorted :
    Sorted [.burst exampleHeader 1000, .burst exampleHeader 2900, .burst litNNNN 3581,
            .burst litNNNN 4262, .poll 4263, .poll 11000] := by
  unfold Sorted
  decide

/-- the hypotheses of `two_bursts_report` are satisfiable: the example header, bursts 1 and 3 of a
    transmission, some polls, by the general theorem (not by evaluation) -/
theorem two_bursts_report_example :
    (runOps {} (.burst exampleHeader 1000 :: ([1500, 2000].map .poll ++
        .burst exampleHeader 2900 :: ([2901, 3500].map .poll ++ [.poll 3582])))).2
      = [(3582, .ok (.som ⟨exampleHeader, 19, 0, 0⟩))] := by
  have hc := exampleHeader_canonical
  refine two_bursts_report_init exampleHeader 19 1000 2900 3582 [1500, 2000] [2901, 3500]
    (fun b hb => List.all_eq_true.mp hc.2.1 b hb) hc.1 (by rw [hc.2.2]; decide) (by decide)
    (by decide) (by decide) (by decide)

end SameVerif.C02
