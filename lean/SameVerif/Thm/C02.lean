import SameVerif.Thm.C03
import SameVerif.Lemmas.CombineFew
import SameVerif.Lemmas.AssemblerRuns
import SameVerif.Lemmas.CombineTails
import SameVerif.Lemmas.AssemblerThree
/-
  C02 — Two of three bursts suffice (and one does not).
  Property theorems about `combine` on one/two bursts and about the assembler model run over
  operation lists; helper lemmas live in Lemmas/CombineFew.lean and Lemmas/AssemblerRuns.lean.
-/
namespace SameVerif.C02
open SameVerif SameVerif.Spec SameVerif.Asm

/-! ### 5. `combine` on two equal bursts, and on one -/

/-- **Two intact bursts.**  For a canonical header text `H` in the SAME character set that fits the
    burst buffer, two copies (no third burst) combine to exactly `H`, with no bit errors and no
    byte voted on by three bursts. -/
theorem combine_pair_equal (maxLen : Nat) (H : List Byte) (off : Nat)
    (hall : ∀ b ∈ H, isAllowed b = true)
    (hcan : checkHeader H = some (off, H.length))
    (hfit : H.length ≤ maxLen) :
    combine maxLen [H, H] = some (.ok (.som ⟨H, off, 0, 0⟩)) := by
  rw [combine_congr _ _ _ (estimateMessage_pair maxLen H)]
  have := C03.combine_two_of_three maxLen 0 H [] off hall hcan hfit
  simpa [specParity, specVoting] using this

/-- **One header burst** combines to nothing (neither a message nor an error). -/
theorem combine_single_none (maxLen : Nat) (H : List Byte) (r : Nat × Nat)
    (hcan : checkHeader H = some r) : combine maxLen [H] = none :=
  combine_single_header maxLen H r hcan

/-- **Any one burst** combines to nothing or to an EndOfMessage — never to a StartOfMessage, never
    to an error.  (A lone burst beginning `NN` *is* reported as EndOfMessage: the trailer test
    looks at the raw estimate, not at the part backed by two bursts.) -/
theorem combine_single_cases (maxLen : Nat) (b : List Byte) :
    combine maxLen [b] = none ∨ combine maxLen [b] = some (.ok .eom) :=
  combine_single maxLen b

/-! ### 6. two intact bursts are reported, whatever the poll schedule -/

/-- **Two bursts suffice.**  Start with an empty history, nothing pending, and a previous report
    (if any) of a different text.  Header `H` arrives at `t1` and again at `t2 < t1 + HIST`; polls
    (any number, any order) come at times `≤ t2` between the bursts and at times `< t2 + HOLD`
    after them; then a poll at `t ≥ t2 + HOLD`.  The only message output in the whole run is
    `H`, exactly, at that last poll.  (`t1 ≤ t2` and lower bounds on the poll times are not needed.) -/
theorem two_bursts_report (s : AState) (H : List Byte) (off t1 t2 t : Nat) (polls1 polls2 : List Nat)
    (hall : ∀ b ∈ H, isAllowed b = true)
    (hcan : checkHeader H = some (off, H.length))
    (hfit : H.length ≤ MAXLEN)
    (hh : s.history = []) (hp : s.pending = none)
    (hprev : ∀ p, s.previous = some p → p.data.text ≠ H)
    (h21 : t2 < t1 + HIST)
    (hp1 : ∀ u ∈ polls1, u ≤ t2)
    (hp2 : ∀ u ∈ polls2, u < t2 + HOLD)
    (ht : t2 + HOLD ≤ t) :
    (runOps s (.burst H t1 :: (polls1.map .poll ++ .burst H t2 :: (polls2.map .poll ++ [.poll t])))).2
      = [(t, .ok (.som ⟨H, off, 0, 0⟩))] := by
  have hne : H.isEmpty = false := by
    have := ne_nil_of_checkHeader H _ hcan
    cases H with
    | nil => exact absurd rfl this
    | cons _ _ => rfl
  have htake : H.take MAXLEN = H := List.take_of_length_le hfit
  -- first burst: stored
  have hc1 : combine MAXLEN [H.take MAXLEN] = none := by
    rw [htake]; exact combine_single_header _ _ _ hcan
  obtain ⟨hs1, hq1⟩ := burst_stored s H t1 hne hh hp hc1
  rw [htake] at hs1
  -- polls between the bursts: nothing moves
  have hstill : runOps (stepOp s (.burst H t1)).1 (polls1.map .poll) = ((stepOp s (.burst H t1)).1, []) := by
    apply run_polls_still
    · rw [hs1]
    · rw [hs1]; simp
    · intro u hu e he
      rw [hs1] at he
      simp only [List.mem_singleton] at he
      subst he
      have := hp1 u hu
      simp only; omega
  -- second burst: accepted, held
  have hprune : pruneHistory [(⟨H, t1 + HIST⟩ : Timed (List Byte))] t2 = [⟨H, t1 + HIST⟩] := by
    apply pruneHistory_fresh
    · simp
    · intro e he
      simp only [List.mem_singleton] at he
      subst he; exact h21
  have hc2 : combine MAXLEN ((historyAfter (stepOp s (.burst H t1)).1 H t2).map (·.data))
      = some (.ok (.som ⟨H, off, 0, 0⟩)) := by
    rw [hs1]
    simp only [historyAfter, hprune, htake, List.cons_append, List.nil_append, List.map_cons, List.map_nil]
    exact combine_pair_equal MAXLEN H off hall hcan hfit
  have hprev1 : ∀ p, (stepOp s (.burst H t1)).1.previous = some p → p.data.text ≠ H := by
    intro p hpp
    rw [hs1] at hpp
    simp only at hpp
    rcases prunePrevious_cases s.previous t1 with ⟨hn, _⟩ | ⟨hk, _⟩
    · rw [hn] at hpp; cases hpp
    · rw [hk] at hpp; exact hprev p hpp
  obtain ⟨hpend2, _, hq2⟩ := burst_accepted (stepOp s (.burst H t1)).1 H t2 ⟨H, off, 0, 0⟩ hne
    (by rw [hs1]) hc2 hprev1
  -- polls while the message is held
  obtain ⟨hw1, hw2, _⟩ := run_polls_waiting polls2 ⟨.ok (.som ⟨H, off, 0, 0⟩), t2 + HOLD⟩
    (stepOp (stepOp s (.burst H t1)).1 (.burst H t2)).1 hpend2 hp2
  -- the poll at or after the deadline
  have hfin := idle_of_due_ok _ _ (.som ⟨H, off, 0, 0⟩) t hw2 rfl ht
  simp only [runOps_cons, runOps_append, runOps_nil, AOp.time, List.append_nil]
  rw [outOf_quiet _ _ hq1, hstill]
  simp only [List.nil_append]
  rw [outOf_quiet _ _ hq2, hw1]
  simp only [List.nil_append]
  show outOf t (aIdle _ t).2 = _
  rw [hfin]
  rfl

/-- the same from the initial state -/
theorem two_bursts_report_init (H : List Byte) (off t1 t2 t : Nat) (polls1 polls2 : List Nat)
    (hall : ∀ b ∈ H, isAllowed b = true)
    (hcan : checkHeader H = some (off, H.length))
    (hfit : H.length ≤ MAXLEN)
    (h21 : t2 < t1 + HIST)
    (hp1 : ∀ u ∈ polls1, u ≤ t2)
    (hp2 : ∀ u ∈ polls2, u < t2 + HOLD)
    (ht : t2 + HOLD ≤ t) :
    (runOps {} (.burst H t1 :: (polls1.map .poll ++ .burst H t2 :: (polls2.map .poll ++ [.poll t])))).2
      = [(t, .ok (.som ⟨H, off, 0, 0⟩))] :=
  two_bursts_report {} H off t1 t2 t polls1 polls2 hall hcan hfit rfl rfl (by intro p hp; cases hp)
    h21 hp1 hp2 ht

/-! ### 7. one burst is never reported as a header -/

/-- **One burst, then any polls.**  From the initial state the run outputs nothing, or a single
    EndOfMessage at the burst's own tick. -/
theorem single_burst_outputs (b : List Byte) (t0 : Nat) (polls : List Nat) :
    (runOps {} (.burst b t0 :: polls.map .poll)).2 = []
      ∨ (runOps {} (.burst b t0 :: polls.map .poll)).2 = [(t0, .ok .eom)] := by
  have key : (stepOp {} (.burst b t0)).1.pending = none ∧
      (outOf t0 (stepOp {} (.burst b t0)).2 = [] ∨ outOf t0 (stepOp {} (.burst b t0)).2 = [(t0, .ok .eom)]) := by
    by_cases hb : b.isEmpty = true
    · rw [stepOp_eq, preIdle_burst_empty _ _ _ hb]
      have hi := idle_of_pending_none {} t0 rfl
      simp only [AOp.time]
      rw [hi.1]
      exact ⟨rfl, Or.inl (outOf_quiet _ _ hi.2)⟩
    · have hb' : b.isEmpty = false := by simpa using hb
      rcases combine_single MAXLEN (b.take MAXLEN) with hc | hc
      · obtain ⟨hs, hq⟩ := burst_stored {} b t0 hb' rfl rfl hc
        rw [hs]
        exact ⟨rfl, Or.inl (outOf_quiet _ _ hq)⟩
      · have hist : historyAfter {} b t0 = [⟨b.take MAXLEN, t0 + HIST⟩] := by
          simp [historyAfter, pruneHistory_nil]
        have hest : estimateOf {} b t0 = some (.ok .eom) := by
          unfold estimateOf
          rw [hist]
          simp only [List.map_cons, List.map_nil, hc]
          rfl
        have hpa : pendingAfter {} b t0 = some ⟨.ok .eom, t0⟩ := by
          unfold pendingAfter; rw [hest]; rfl
        rw [stepOp_eq, preIdle_burst _ _ _ hb', hpa]
        simp only [AOp.time]
        rw [idle_of_due_ok _ ⟨.ok .eom, t0⟩ .eom t0 rfl rfl (Nat.le_refl _)]
        exact ⟨rfl, Or.inr rfl⟩
  obtain ⟨hq, _, _⟩ := run_polls_quiet polls (stepOp {} (.burst b t0)).1 key.1
  simp only [runOps_cons, hq, List.append_nil, AOp.time]
  exact key.2

/-- **A single burst never reaches the transport as a header.** -/
theorem single_never_transport (b : List Byte) (t0 : Nat) (polls : List Nat) :
    ∀ x ∈ (runOps {} (.burst b t0 :: polls.map .poll)).2, ∀ h, x.2 ≠ .ok (.som h) := by
  intro x hx h
  rcases single_burst_outputs b t0 polls with ho | ho
  · rw [ho] at hx; cases hx
  · rw [ho] at hx
    simp only [List.mem_singleton] at hx
    subst hx
    simp

/-! ### 8. the scenario is satisfiable at the extremes -/

/-- With the longest legal pause (1.05 s at −1 % baud, 560 ticks) and maximum-length bursts, the
    second burst — and even the third — ends before the first one leaves the history. -/
theorem max_header_fits :
    2 * (560 + 8 * MAXLEN) < HIST ∧ 8 * MAXLEN + 560 < HIST := by
  decide

/-! ### 9. F4: a trailer can be lost -/

/-- "ZCZC-WXR-RWT-012345+0030-1231200-KLOX-" -/
def exampleHeader : List Byte :=
  [90, 67, 90, 67, 45, 87, 88, 82, 45, 82, 87, 84, 45, 48, 49, 50, 51, 52, 53, 43, 48, 48, 51, 48, 45,
   49, 50, 51, 49, 50, 48, 48, 45, 75, 76, 79, 88, 45]

theorem exampleHeader_canonical :
    checkHeader exampleHeader = some (19, exampleHeader.length)
      ∧ exampleHeader.all isAllowed = true ∧ exampleHeader.length = 38 := by
  decide +kernel

/-- **Counterexample (F4).**  Header bursts 1 and 3 (ends 1900 ticks apart), then trailer bursts 1
    and 2 following at the one-second pause (681 ticks between burst ends), no polls while the
    link is busy, polls afterwards.  The only message ever output is the StartOfMessage: the first
    trailer burst re-votes the pending header (pushing its deadline to 3581 + HOLD), the second
    trailer burst's EndOfMessage is dropped because a StartOfMessage is still pending. -/
theorem eom_lost_counterexample :
    (runOps {} [.burst exampleHeader 1000, .burst exampleHeader 2900, .burst litNNNN 3581,
                .burst litNNNN 4262, .poll 4263, .poll 11000]).2
      = [(4263, .ok (.som ⟨exampleHeader, 19, 10, 4⟩))] := by
  decide +kernel

/-- the operations of the counterexample are in time order -/
theorem eom_lost_counterexample_sorted :
    Sorted [.burst exampleHeader 1000, .burst exampleHeader 2900, .burst litNNNN 3581,
            .burst litNNNN 4262, .poll 4263, .poll 11000] := by
  unfold Sorted
  decide

/-- the hypotheses of `two_bursts_report` are satisfiable: the example header, bursts 1 and 3 of a
    transmission, some polls, by the general theorem (not by evaluation) -/
theorem two_bursts_report_example :
    (runOps {} (.burst exampleHeader 1000 :: ([1500, 2000].map .poll ++
        .burst exampleHeader 2900 :: ([2901, 3500].map .poll ++ [.poll 3582])))).2
      = [(3582, .ok (.som ⟨exampleHeader, 19, 0, 0⟩))] := by
  have hc := exampleHeader_canonical
  refine two_bursts_report_init exampleHeader 19 1000 2900 3582 [1500, 2000] [2901, 3500]
    (fun b hb => List.all_eq_true.mp hc.2.1 b hb) hc.1 (by rw [hc.2.2]; decide) (by decide)
    (by decide) (by decide) (by decide)

end SameVerif.C02

/-
  C02 (continued) — bursts that carry bytes after the header (`H ++ g_i`): the positive theorem
  under the hypothesis that the voted tail holds no `-`, the F7 witness when it does, and the
  transport-level statements for three bursts and for the trailer.
-/
namespace SameVerif.C02
open SameVerif SameVerif.Spec SameVerif.Asm

/-! ### 10. text after the header: the parser -/

/-- **Appended dash-free text cannot extend the match.**  `H` is canonical (its match covers it
    entirely); `t` is any byte string without `-`.  The match on `H ++ t` is the match on `H`. -/
theorem parse_with_dashfree_tail (H t : List Byte) (off : Nat)
    (hcan : checkHeader H = some (off, H.length)) (ht : ∀ b ∈ t, b ≠ 45) :
    checkHeader (H ++ t) = some (off, H.length) :=
  checkHeader_dashfree_tail H off t hcan ht

/-- the header built from `H ++ t` (ASCII, `t` dash-free) stores exactly `H` -/
theorem header_new_dashfree_tail (H t : List Byte) (off : Nat)
    (hcan : checkHeader H = some (off, H.length)) (ht : ∀ b ∈ t, b ≠ 45)
    (hascii : ∀ b ∈ H ++ t, b < 128) :
    Header.new (H ++ t) = .ok ⟨H, off, 0, 0⟩ := by
  have hall : (H ++ t).all isAsciiByte = true := by
    rw [List.all_eq_true]
    intro b hb
    simpa [isAsciiByte] using hascii b hb
  simp [Header.new, hall, checkHeader_dashfree_tail H off t hcan ht]

/-! ### 11. text after the header: the combiner -/

/-- the estimate over three bursts `H ++ g_i` is `H` (three bursts, no errors) followed by the
    estimate over the tails alone with the remaining capacity -/
theorem estimate_with_tails (maxLen : Nat) (H g1 g2 g3 : List Byte)
    (hall : ∀ b ∈ H, isAllowed b = true) (hfit : H.length ≤ maxLen) :
    estimateMessage maxLen [H ++ g1, H ++ g2, H ++ g3]
      = agreePart 3 H ++ estimateLoop (maxLen - H.length) [g1, g2, g3] := by
  simp only [estimateMessage, List.take]
  exact estimateLoop_prefix3 H g1 g2 g3 maxLen hall hfit

theorem estimate_with_tails_pair (maxLen : Nat) (H g1 g2 : List Byte)
    (hall : ∀ b ∈ H, isAllowed b = true) (hfit : H.length ≤ maxLen) :
    estimateMessage maxLen [H ++ g1, H ++ g2]
      = agreePart 2 H ++ estimateLoop (maxLen - H.length) [g1, g2] := by
  simp only [estimateMessage, List.take]
  exact estimateLoop_prefix2 H g1 g2 maxLen hall hfit

/-- **Three bursts with tails, condition on the tails' own estimate.**  If no byte of the estimate
    over `[g1, g2, g3]` (capacity `maxLen - |H|`) that is backed by two or more bursts is `-`, the
    three bursts combine to exactly `H`: no errors, every byte voted. -/
theorem combine_with_tails' (maxLen : Nat) (H g1 g2 g3 : List Byte) (off : Nat)
    (hall : ∀ b ∈ H, isAllowed b = true)
    (hcan : checkHeader H = some (off, H.length))
    (hfit : H.length ≤ maxLen)
    (hdash : ∀ e ∈ estimateLoop (maxLen - H.length) [g1, g2, g3], 2 ≤ e.nbursts → e.byte ≠ 45) :
    combine maxLen [H ++ g1, H ++ g2, H ++ g3] = some (.ok (.som ⟨H, off, 0, H.length⟩)) := by
  have := combine_of_agree maxLen _ H off 3 _ (by omega)
    (estimate_with_tails maxLen H g1 g2 g3 hall hfit) hall hcan
    (estimateLoop_allowed _ _)
    (by
      intro e he
      have hm := (List.takeWhile_sublist _).subset he
      have hp := mem_takeWhile_holds _ _ _ he
      exact hdash e hm (by simp at hp; omega))
  simpa using this

/-- **Three bursts with tails.**  The same with the condition read off the estimate of the bursts
    themselves: beyond `|H|`, no estimated byte backed by two or more bursts is `-`. -/
theorem combine_with_tails (maxLen : Nat) (H g1 g2 g3 : List Byte) (off : Nat)
    (hall : ∀ b ∈ H, isAllowed b = true)
    (hcan : checkHeader H = some (off, H.length))
    (hfit : H.length ≤ maxLen)
    (hdash : ∀ e ∈ (estimateMessage maxLen [H ++ g1, H ++ g2, H ++ g3]).drop H.length,
      2 ≤ e.nbursts → e.byte ≠ 45) :
    combine maxLen [H ++ g1, H ++ g2, H ++ g3] = some (.ok (.som ⟨H, off, 0, H.length⟩)) := by
  apply combine_with_tails' maxLen H g1 g2 g3 off hall hcan hfit
  rw [estimate_with_tails maxLen H g1 g2 g3 hall hfit] at hdash
  have hd : (agreePart 3 H ++ estimateLoop (maxLen - H.length) [g1, g2, g3]).drop H.length
      = estimateLoop (maxLen - H.length) [g1, g2, g3] := by
    rw [← agreePart_length 3 H]; exact List.drop_left
  rwa [hd] at hdash

/-- **Two bursts with tails**, condition on the tails' own estimate: exactly `H`, no errors, no
    byte voted by three. -/
theorem combine_with_tails_pair' (maxLen : Nat) (H g1 g2 : List Byte) (off : Nat)
    (hall : ∀ b ∈ H, isAllowed b = true)
    (hcan : checkHeader H = some (off, H.length))
    (hfit : H.length ≤ maxLen)
    (hdash : ∀ e ∈ estimateLoop (maxLen - H.length) [g1, g2], 2 ≤ e.nbursts → e.byte ≠ 45) :
    combine maxLen [H ++ g1, H ++ g2] = some (.ok (.som ⟨H, off, 0, 0⟩)) := by
  have := combine_of_agree maxLen _ H off 2 _ (by omega)
    (estimate_with_tails_pair maxLen H g1 g2 hall hfit) hall hcan
    (estimateLoop_allowed _ _)
    (by
      intro e he
      have hm := (List.takeWhile_sublist _).subset he
      have hp := mem_takeWhile_holds _ _ _ he
      exact hdash e hm (by simp at hp; omega))
  simpa using this

theorem combine_with_tails_pair (maxLen : Nat) (H g1 g2 : List Byte) (off : Nat)
    (hall : ∀ b ∈ H, isAllowed b = true)
    (hcan : checkHeader H = some (off, H.length))
    (hfit : H.length ≤ maxLen)
    (hdash : ∀ e ∈ (estimateMessage maxLen [H ++ g1, H ++ g2]).drop H.length,
      2 ≤ e.nbursts → e.byte ≠ 45) :
    combine maxLen [H ++ g1, H ++ g2] = some (.ok (.som ⟨H, off, 0, 0⟩)) := by
  apply combine_with_tails_pair' maxLen H g1 g2 off hall hcan hfit
  rw [estimate_with_tails_pair maxLen H g1 g2 hall hfit] at hdash
  have hd : (agreePart 2 H ++ estimateLoop (maxLen - H.length) [g1, g2]).drop H.length
      = estimateLoop (maxLen - H.length) [g1, g2] := by
    rw [← agreePart_length 2 H]; exact List.drop_left
  rwa [hd] at hdash

/-- **The tail condition, position by position.**  Wherever two or more of the tails have a byte,
    the vote over those bytes (eighth bit cleared; in burst order) is not `-`. -/
def TailsVoteNoDash (gs : List (List Byte)) : Prop :=
  ∀ j v, 2 ≤ (columnAt gs j).length → voteAt (columnAt gs j) ≠ some (45, v)

theorem tails_cond_of_pointwise (cap : Nat) (gs : List (List Byte)) (h : TailsVoteNoDash gs) :
    ∀ e ∈ estimateLoop cap gs, 2 ≤ e.nbursts → e.byte ≠ 45 := by
  intro e he hn hb
  obtain ⟨j, v, h1, h2⟩ := estimateLoop_mem_vote cap gs e he
  rw [hb] at h1
  exact h j v (by omega) h1

/-- three bursts with tails, pointwise condition -/
theorem combine_with_tails_pointwise (maxLen : Nat) (H g1 g2 g3 : List Byte) (off : Nat)
    (hall : ∀ b ∈ H, isAllowed b = true)
    (hcan : checkHeader H = some (off, H.length))
    (hfit : H.length ≤ maxLen)
    (hdash : TailsVoteNoDash [g1, g2, g3]) :
    combine maxLen [H ++ g1, H ++ g2, H ++ g3] = some (.ok (.som ⟨H, off, 0, H.length⟩)) :=
  combine_with_tails' maxLen H g1 g2 g3 off hall hcan hfit (tails_cond_of_pointwise _ _ hdash)

/-- two bursts with tails, pointwise condition -/
theorem combine_with_tails_pair_pointwise (maxLen : Nat) (H g1 g2 : List Byte) (off : Nat)
    (hall : ∀ b ∈ H, isAllowed b = true)
    (hcan : checkHeader H = some (off, H.length))
    (hfit : H.length ≤ maxLen)
    (hdash : TailsVoteNoDash [g1, g2]) :
    combine maxLen [H ++ g1, H ++ g2] = some (.ok (.som ⟨H, off, 0, 0⟩)) :=
  combine_with_tails_pair' maxLen H g1 g2 off hall hcan hfit (tails_cond_of_pointwise _ _ hdash)

/-- for two bursts it is enough that one tail holds no `-` (eighth bit aside): the two-burst
    "vote" only passes bytes on which both bursts agree -/
theorem pair_pointwise_of_first (g1 g2 : List Byte) (h : ∀ b ∈ g1, mask7 b ≠ 45) :
    TailsVoteNoDash [g1, g2] := by
  intro j v hl hv
  unfold columnAt at hl hv
  cases h1 : g1[j]? with
  | none => cases h2 : g2[j]? <;> simp [h1, h2] at hl
  | some a =>
    cases h2 : g2[j]? with
    | none => simp [h1, h2] at hl
    | some b =>
      have ha := h a (List.mem_of_getElem? h1)
      simp only [List.filterMap_cons, h1, h2, List.filterMap_nil, List.map_cons, List.map_nil, voteAt,
        C03.vote_detect_spec, Option.some.injEq, Prod.mk.injEq] at hv
      obtain ⟨hv, _⟩ := hv
      split at hv
      · exact ha hv
      · exact absurd hv (by decide)

theorem combine_with_tails_pair_simple (maxLen : Nat) (H g1 g2 : List Byte) (off : Nat)
    (hall : ∀ b ∈ H, isAllowed b = true)
    (hcan : checkHeader H = some (off, H.length))
    (hfit : H.length ≤ maxLen)
    (hdash : ∀ b ∈ g1, mask7 b ≠ 45) :
    combine maxLen [H ++ g1, H ++ g2] = some (.ok (.som ⟨H, off, 0, 0⟩)) :=
  combine_with_tails_pair_pointwise maxLen H g1 g2 off hall hcan hfit (pair_pointwise_of_first g1 g2 hdash)

/-! ### 12. F7: the voted tail can extend the callsign -/

/-- "ZCZC-WXR-RWT-012345+0030-1231200-sz2-" (37 bytes, a three-character callsign) -/
def shortCallHeader : List Byte :=
  [90, 67, 90, 67, 45, 87, 88, 82, 45, 82, 87, 84, 45, 48, 49, 50, 51, 52, 53, 43, 48, 48, 51, 48, 45,
   49, 50, 51, 49, 50, 48, 48, 45, 115, 122, 50, 45]

theorem shortCallHeader_canonical :
    checkHeader shortCallHeader = some (19, shortCallHeader.length)
      ∧ shortCallHeader.all isAllowed = true ∧ shortCallHeader.length = 37 := by
  decide +kernel

/-- **Counterexample (F7).**  Three bursts carry the same canonical 37-byte header; each is followed
    by link-layer garbage: `5-`, `LF ff ff`, `ff 80 LF`.  None of the garbage strings is text, two of
    them are not even in the character set.  The per-position vote over the tails is `?-` (3f 2d),
    both bytes backed by three bursts; the third position votes to NUL and ends the estimate.  The
    greedy callsign match swallows `?-`: the reported header is `H ++ "?-"` (callsign `sz2-?`), with
    `voting = 39`, `parity = 16` — not `H`. -/
theorem tail_extension_witness :
    combine MAXLEN [shortCallHeader ++ [0x35, 45], shortCallHeader ++ [0x0a, 0xff, 0xff],
                    shortCallHeader ++ [0xff, 0x80, 0x0a]]
      = some (.ok (.som ⟨shortCallHeader ++ [63, 45], 19, 16, 39⟩))
    ∧ (estimateMessage MAXLEN [shortCallHeader ++ [0x35, 45], shortCallHeader ++ [0x0a, 0xff, 0xff],
                    shortCallHeader ++ [0xff, 0x80, 0x0a]]).drop shortCallHeader.length
      = [⟨63, 3, 8⟩, ⟨45, 3, 8⟩] := by
  decide +kernel

/-- the hypothesis of `combine_with_tails` is satisfiable with non-trivial tails: the same header
    and the same two garbage tails, the first tail `5+` instead of `5-`; by the general theorem -/
theorem combine_with_tails_example :
    combine MAXLEN [shortCallHeader ++ [0x35, 43], shortCallHeader ++ [0x0a, 0xff, 0xff],
                    shortCallHeader ++ [0xff, 0x80, 0x0a]]
      = some (.ok (.som ⟨shortCallHeader, 19, 0, 37⟩)) := by
  have hc := shortCallHeader_canonical
  have := combine_with_tails' MAXLEN shortCallHeader [0x35, 43] [0x0a, 0xff, 0xff] [0xff, 0x80, 0x0a] 19
    (fun b hb => List.all_eq_true.mp hc.2.1 b hb) hc.1 (by rw [hc.2.2]; decide)
    (by rw [hc.2.2]; decide +kernel)
  rw [hc.2.2] at this
  exact this

/-! ### 13. the trailer heard twice is reported once -/

theorem combine_trailer_one : combine MAXLEN [litNNNN] = some (.ok .eom) := by decide +kernel

theorem combine_trailer_two : combine MAXLEN [litNNNN, litNNNN] = some (.ok .eom) := by decide +kernel

/-- **One trailer transmission, bursts 1 and 2.**  From the initial state: `NNNN` at `t1` is output
    as EndOfMessage by that very call; a second `NNNN` at `t2 < t1 + HIST` adds nothing, and no poll
    (any number, any times, before, between or after) outputs anything.  Exactly one EndOfMessage. -/
theorem trailer_two_bursts (t1 t2 : Nat) (polls1 polls2 : List Nat) (h21 : t2 < t1 + HIST) :
    (runOps {} (.burst litNNNN t1 :: (polls1.map .poll ++ .burst litNNNN t2 :: polls2.map .poll))).2
      = [(t1, .ok .eom)] := by
  have hne : litNNNN.isEmpty = false := rfl
  have htake : litNNNN.take MAXLEN = litNNNN := by decide
  -- first burst: EndOfMessage at once
  have hpa1 : pendingAfter {} litNNNN t1 = some ⟨.ok .eom, t1⟩ := by
    have hest : estimateOf {} litNNNN t1 = some (.ok .eom) := by
      unfold estimateOf
      simp only [historyAfter, pruneHistory_nil, htake, List.nil_append, List.map_cons, List.map_nil,
        combine_trailer_one]
      rfl
    unfold pendingAfter; rw [hest]; rfl
  have hs1 := step_burst_due {} litNNNN t1 ⟨.ok .eom, t1⟩ .eom hne hpa1 rfl (Nat.le_refl _)
  have hh1 : pruneHistory (historyAfter {} litNNNN t1) t1 = [⟨litNNNN, t1 + HIST⟩] := by
    simp only [historyAfter, pruneHistory_nil, htake, List.nil_append]
    exact prune_one_fresh _ _ (by have := HIST_pos; simp only; omega)
  rw [hh1] at hs1
  -- polls: nothing pending
  obtain ⟨hq1, hpn1, hpv1⟩ := run_polls_quiet polls1 (stepOp {} (.burst litNNNN t1)).1 (by rw [hs1])
  have hsub := run_polls_history_sublist polls1 (stepOp {} (.burst litNNNN t1)).1
  generalize hS : (runOps (stepOp {} (.burst litNNNN t1)).1 (polls1.map .poll)).1 = S at hpn1 hpv1 hsub
  rw [hs1] at hpv1 hsub
  simp only at hpv1 hsub
  -- second burst: a duplicate
  have hc2 : combine MAXLEN ((historyAfter S litNNNN t2).map (·.data)) = some (.ok .eom) := by
    rcases sublist_singleton _ _ hsub with h0 | h1
    · simp only [historyAfter, h0, pruneHistory_nil, htake, List.nil_append, List.map_cons, List.map_nil]
      exact combine_trailer_one
    · rw [historyAfter, h1, prune_one_fresh _ _ (by simpa using h21), htake]
      exact combine_trailer_two
  have hest2 : estimateOf S litNNNN t2 = none := by
    unfold estimateOf
    have hpp : prunePrevious S.previous t2 = some ⟨.eom, t1 + HIST⟩ := by
      have : ¬ (t1 + HIST ≤ t2) := by omega
      simp [hpv1, prunePrevious, Timed.expiredAt, this]
    rw [hc2, hpp]
    rfl
  have hpa2 : pendingAfter S litNNNN t2 = none := by
    unfold pendingAfter; rw [hest2]; exact hpn1
  obtain ⟨hs2, hq2⟩ := step_burst_none S litNNNN t2 hne hpa2
  obtain ⟨hq3, _, _⟩ := run_polls_quiet polls2 (stepOp S (.burst litNNNN t2)).1 (by rw [hs2])
  rw [runOps_cons_snd, runOps_append_snd, hq1, hS, runOps_cons_snd, outOf_quiet _ _ hq2, hq3, hs1]
  rfl

/-! ### 14. three bursts are reported exactly once, whatever the poll schedule -/

/-- **Three bursts with tails, any polls.**  Start with an empty history, nothing pending, and a
    previous report (if any) of a different text.  Bursts `H ++ g1`, `H ++ g2`, `H ++ g3` end at
    `t1 ≤ t2 ≤ t3 < t1 + HIST`; polls at times `≤ t2` between the first two, at times `≤ t3` between
    the last two, at any times afterwards, and finally one at `t ≥ t3 + HOLD`.  The voted tails hold
    no `-` (pair `g1 g2`, triple `g1 g2 g3`).  Then exactly one message is output and its text is `H`:
    * if some poll between bursts 2 and 3 comes at or after `t2 + HOLD`, the two-burst header
      (`voting = 0`) is output by the first such poll, and the third burst is suppressed;
    * otherwise the fully voted header (`voting = |H|`) is output by the first poll at or after
      `t3 + HOLD`. -/
theorem three_bursts_report_tails (s : AState) (H g1 g2 g3 : List Byte) (off t1 t2 t3 t : Nat)
    (polls1 polls2 polls3 : List Nat)
    (hall : ∀ b ∈ H, isAllowed b = true)
    (hcan : checkHeader H = some (off, H.length))
    (hfit : H.length ≤ MAXLEN)
    (hd2 : ∀ e ∈ estimateLoop (MAXLEN - H.length) [g1, g2], 2 ≤ e.nbursts → e.byte ≠ 45)
    (hd3 : ∀ e ∈ estimateLoop (MAXLEN - H.length) [g1, g2, g3], 2 ≤ e.nbursts → e.byte ≠ 45)
    (hh : s.history = []) (hp : s.pending = none)
    (hprev : ∀ p, s.previous = some p → p.data.text ≠ H)
    (h12 : t1 ≤ t2) (h23 : t2 ≤ t3) (h31 : t3 < t1 + HIST)
    (hp1 : ∀ u ∈ polls1, u ≤ t2)
    (hp2 : ∀ u ∈ polls2, u ≤ t3)
    (ht : t3 + HOLD ≤ t) :
    (∃ u ∈ polls2, t2 + HOLD ≤ u ∧
        (runOps s (.burst (H ++ g1) t1 :: (polls1.map .poll ++ .burst (H ++ g2) t2 ::
          (polls2.map .poll ++ .burst (H ++ g3) t3 :: (polls3.map .poll ++ [.poll t]))))).2
          = [(u, .ok (.som ⟨H, off, 0, 0⟩))])
    ∨ ((∀ u ∈ polls2, u < t2 + HOLD) ∧ ∃ u ∈ polls3 ++ [t], t3 + HOLD ≤ u ∧
        (runOps s (.burst (H ++ g1) t1 :: (polls1.map .poll ++ .burst (H ++ g2) t2 ::
          (polls2.map .poll ++ .burst (H ++ g3) t3 :: (polls3.map .poll ++ [.poll t]))))).2
          = [(u, .ok (.som ⟨H, off, 0, H.length⟩))]) := by
  have hHne : H ≠ [] := ne_nil_of_checkHeader H _ hcan
  have hne : ∀ g : List Byte, (H ++ g).isEmpty = false := by
    intro g
    cases H with
    | nil => exact absurd rfl hHne
    | cons _ _ => rfl
  -- bursts are clipped to the buffer; the estimator would not look further anyway
  have htake1 := take_header_tail H g1 MAXLEN hfit
  have htake2 := take_header_tail H g2 MAXLEN hfit
  have htake3 := take_header_tail H g3 MAXLEN hfit
  have hd2' : ∀ e ∈ estimateLoop (MAXLEN - H.length)
      [g1.take (MAXLEN - H.length), g2.take (MAXLEN - H.length)], 2 ≤ e.nbursts → e.byte ≠ 45 := by
    have := estimateLoop_take (MAXLEN - H.length) [g1, g2]
    simp only [List.map_cons, List.map_nil] at this
    rw [this]; exact hd2
  have hd3' : ∀ e ∈ estimateLoop (MAXLEN - H.length)
      [g1.take (MAXLEN - H.length), g2.take (MAXLEN - H.length), g3.take (MAXLEN - H.length)],
      2 ≤ e.nbursts → e.byte ≠ 45 := by
    have := estimateLoop_take (MAXLEN - H.length) [g1, g2, g3]
    simp only [List.map_cons, List.map_nil] at this
    rw [this]; exact hd3
  -- first burst: stored
  have hc1 : combine MAXLEN [(H ++ g1).take MAXLEN] = none := by
    rw [htake1]; exact combine_single_prefixed _ _ _ _ hcan
  obtain ⟨hs1, hq1⟩ := burst_stored s (H ++ g1) t1 (hne g1) hh hp hc1
  rw [htake1] at hs1
  generalize hS1 : (stepOp s (.burst (H ++ g1) t1)).1 = S1 at hs1
  -- polls between the first two bursts: nothing moves
  have hstill : runOps S1 (polls1.map .poll) = (S1, []) := by
    apply run_polls_still
    · rw [hs1]
    · rw [hs1]; simp
    · intro u hu e he
      rw [hs1] at he
      simp only [List.mem_singleton] at he
      subst he
      have := hp1 u hu
      simp only; omega
  -- second burst: accepted, held
  have hhist2 : historyAfter S1 (H ++ g2) t2
      = [⟨H ++ g1.take (MAXLEN - H.length), t1 + HIST⟩, ⟨H ++ g2.take (MAXLEN - H.length), t2 + HIST⟩] := by
    rw [historyAfter, hs1, htake2]
    simp only
    rw [prune_one_fresh _ _ (by simp only; omega)]
    rfl
  have hc2 : combine MAXLEN ((historyAfter S1 (H ++ g2) t2).map (·.data))
      = some (.ok (.som ⟨H, off, 0, 0⟩)) := by
    rw [hhist2]
    exact combine_with_tails_pair' MAXLEN H _ _ off hall hcan hfit hd2'
  have hprev1 : ∀ p, S1.previous = some p → p.data.text ≠ H := by
    intro p hpp
    rw [hs1] at hpp
    simp only at hpp
    rcases prunePrevious_cases s.previous t1 with ⟨hn, _⟩ | ⟨hk, _⟩
    · rw [hn] at hpp; cases hpp
    · rw [hk] at hpp; exact hprev p hpp
  obtain ⟨hpend2, hpv2, hq2⟩ := burst_accepted S1 (H ++ g2) t2 ⟨H, off, 0, 0⟩ (hne g2)
    (by rw [hs1]) hc2 hprev1
  have hh2 := step_burst_history S1 (H ++ g2) t2 (hne g2)
  rw [hhist2, prune_two_fresh _ _ _ (by simp only; omega) (by simp only; have := HIST_pos; omega)] at hh2
  generalize hS2 : (stepOp S1 (.burst (H ++ g2) t2)).1 = S2 at hpend2 hpv2 hh2
  have hprev2 : ∀ p, S2.previous = some p → p.data.text ≠ H := by
    intro p hpp
    rw [hpv2] at hpp
    rcases prunePrevious_cases S1.previous t2 with ⟨hn, _⟩ | ⟨hk, _⟩
    · rw [hn] at hpp; cases hpp
    · rw [hk] at hpp; exact hprev1 p hpp
  -- the rest of the run
  have hc3 : combine MAXLEN [H ++ g1.take (MAXLEN - H.length), H ++ g2.take (MAXLEN - H.length),
        (H ++ g3).take MAXLEN]
      = some (.ok (.som ⟨H, off, 0, H.length⟩)) := by
    rw [htake3]
    exact combine_with_tails' MAXLEN H _ _ _ off hall hcan hfit hd3'
  have key := held_then_third S2 (H ++ g3) ⟨H ++ g1.take (MAXLEN - H.length), t1 + HIST⟩
    ⟨H ++ g2.take (MAXLEN - H.length), t2 + HIST⟩ t2 t3
    ⟨H, off, 0, 0⟩ ⟨H, off, 0, H.length⟩ polls2 (polls3 ++ [t]) (hne g3) hh2
    (by simp only; omega) (by simp only; omega) hp2 hpend2 hc3 (Nat.zero_le _) rfl hprev2
    (by omega) ⟨t, by simp, ht⟩
  have hrun : (runOps s (.burst (H ++ g1) t1 :: (polls1.map .poll ++ .burst (H ++ g2) t2 ::
          (polls2.map .poll ++ .burst (H ++ g3) t3 :: (polls3.map .poll ++ [.poll t]))))).2
      = (runOps S2 (polls2.map .poll ++ .burst (H ++ g3) t3 :: (polls3 ++ [t]).map .poll)).2 := by
    rw [runOps_cons_snd, outOf_quiet _ _ hq1, List.nil_append, hS1, runOps_append_snd, hstill]
    simp only [List.nil_append]
    rw [runOps_cons_snd, outOf_quiet _ _ hq2, hS2, List.nil_append, List.map_append]
    rfl
  rw [hrun]
  exact key

/-- what `Sorted` says about the three-burst schedule -/
theorem three_bursts_sorted (b1 b2 b3 : List Byte) (t1 t2 t3 t : Nat) (polls1 polls2 polls3 : List Nat)
    (hsort : Sorted (.burst b1 t1 :: (polls1.map .poll ++ .burst b2 t2 ::
      (polls2.map .poll ++ .burst b3 t3 :: (polls3.map .poll ++ [.poll t]))))) :
    t1 ≤ t2 ∧ t2 ≤ t3 ∧ (∀ u ∈ polls1, u ≤ t2) ∧ (∀ u ∈ polls2, u ≤ t3) := by
  unfold Sorted at hsort
  obtain ⟨ha, hrest⟩ := List.pairwise_cons.mp hsort
  obtain ⟨_, hr2, hx1⟩ := List.pairwise_append.mp hrest
  obtain ⟨hb, hrest2⟩ := List.pairwise_cons.mp hr2
  obtain ⟨_, _, hx2⟩ := List.pairwise_append.mp hrest2
  refine ⟨?_, ?_, ?_, ?_⟩
  · exact ha (.burst b2 t2) (by simp)
  · exact hb (.burst b3 t3) (by simp)
  · intro u hu
    exact hx1 (.poll u) (List.mem_map.mpr ⟨u, hu, rfl⟩) (.burst b2 t2) (by simp)
  · intro u hu
    exact hx2 (.poll u) (List.mem_map.mpr ⟨u, hu, rfl⟩) (.burst b3 t3) (by simp)

/-- **Three bursts with tails are reported exactly once** — any poll schedule in time order. -/
theorem three_bursts_report (s : AState) (H g1 g2 g3 : List Byte) (off t1 t2 t3 t : Nat)
    (polls1 polls2 polls3 : List Nat)
    (hall : ∀ b ∈ H, isAllowed b = true)
    (hcan : checkHeader H = some (off, H.length))
    (hfit : H.length ≤ MAXLEN)
    (hd2 : ∀ e ∈ estimateLoop (MAXLEN - H.length) [g1, g2], 2 ≤ e.nbursts → e.byte ≠ 45)
    (hd3 : ∀ e ∈ estimateLoop (MAXLEN - H.length) [g1, g2, g3], 2 ≤ e.nbursts → e.byte ≠ 45)
    (hh : s.history = []) (hp : s.pending = none)
    (hprev : ∀ p, s.previous = some p → p.data.text ≠ H)
    (hsort : Sorted (.burst (H ++ g1) t1 :: (polls1.map .poll ++ .burst (H ++ g2) t2 ::
      (polls2.map .poll ++ .burst (H ++ g3) t3 :: (polls3.map .poll ++ [.poll t])))))
    (h31 : t3 < t1 + HIST)
    (ht : t3 + HOLD ≤ t) :
    ∃ u h, (runOps s (.burst (H ++ g1) t1 :: (polls1.map .poll ++ .burst (H ++ g2) t2 ::
          (polls2.map .poll ++ .burst (H ++ g3) t3 :: (polls3.map .poll ++ [.poll t]))))).2
        = [(u, .ok (.som h))]
      ∧ h.text = H ∧ h.offsetTime = off ∧ h.parity = 0 ∧ (h.voting = 0 ∨ h.voting = H.length) := by
  obtain ⟨h12, h23, hp1, hp2⟩ := three_bursts_sorted _ _ _ _ _ _ _ _ _ _ hsort
  rcases three_bursts_report_tails s H g1 g2 g3 off t1 t2 t3 t polls1 polls2 polls3 hall hcan
    hfit hd2 hd3 hh hp hprev h12 h23 h31 hp1 hp2 ht with ⟨u, _, _, ho⟩ | ⟨_, u, _, _, ho⟩
  · exact ⟨u, _, ho, rfl, rfl, rfl, Or.inl rfl⟩
  · exact ⟨u, _, ho, rfl, rfl, rfl, Or.inr rfl⟩

/-- **Three intact bursts, any polls** (no tails): the detailed form. -/
theorem three_bursts_report_exact (s : AState) (H : List Byte) (off t1 t2 t3 t : Nat)
    (polls1 polls2 polls3 : List Nat)
    (hall : ∀ b ∈ H, isAllowed b = true)
    (hcan : checkHeader H = some (off, H.length))
    (hfit : H.length ≤ MAXLEN)
    (hh : s.history = []) (hp : s.pending = none)
    (hprev : ∀ p, s.previous = some p → p.data.text ≠ H)
    (h12 : t1 ≤ t2) (h23 : t2 ≤ t3) (h31 : t3 < t1 + HIST)
    (hp1 : ∀ u ∈ polls1, u ≤ t2)
    (hp2 : ∀ u ∈ polls2, u ≤ t3)
    (ht : t3 + HOLD ≤ t) :
    (∃ u ∈ polls2, t2 + HOLD ≤ u ∧
        (runOps s (.burst H t1 :: (polls1.map .poll ++ .burst H t2 ::
          (polls2.map .poll ++ .burst H t3 :: (polls3.map .poll ++ [.poll t]))))).2
          = [(u, .ok (.som ⟨H, off, 0, 0⟩))])
    ∨ ((∀ u ∈ polls2, u < t2 + HOLD) ∧ ∃ u ∈ polls3 ++ [t], t3 + HOLD ≤ u ∧
        (runOps s (.burst H t1 :: (polls1.map .poll ++ .burst H t2 ::
          (polls2.map .poll ++ .burst H t3 :: (polls3.map .poll ++ [.poll t]))))).2
          = [(u, .ok (.som ⟨H, off, 0, H.length⟩))]) := by
  have := three_bursts_report_tails s H [] [] [] off t1 t2 t3 t polls1 polls2 polls3 hall hcan
    hfit (by rw [estimateLoop_nils2]; intro e he; cases he)
    (by rw [estimateLoop_nils3]; intro e he; cases he) hh hp hprev h12 h23 h31 hp1 hp2 ht
  simp only [List.append_nil] at this
  exact this

/-- **Three intact bursts are reported exactly once**, from the initial state, any poll schedule in
    time order. -/
theorem three_bursts_report_init (H : List Byte) (off t1 t2 t3 t : Nat)
    (polls1 polls2 polls3 : List Nat)
    (hall : ∀ b ∈ H, isAllowed b = true)
    (hcan : checkHeader H = some (off, H.length))
    (hfit : H.length ≤ MAXLEN)
    (hsort : Sorted (.burst H t1 :: (polls1.map .poll ++ .burst H t2 ::
      (polls2.map .poll ++ .burst H t3 :: (polls3.map .poll ++ [.poll t])))))
    (h31 : t3 < t1 + HIST)
    (ht : t3 + HOLD ≤ t) :
    ∃ u h, (runOps {} (.burst H t1 :: (polls1.map .poll ++ .burst H t2 ::
          (polls2.map .poll ++ .burst H t3 :: (polls3.map .poll ++ [.poll t]))))).2
        = [(u, .ok (.som h))]
      ∧ h.text = H ∧ h.offsetTime = off ∧ h.parity = 0 ∧ (h.voting = 0 ∨ h.voting = H.length) := by
  obtain ⟨h12, h23, hp1, hp2⟩ := three_bursts_sorted _ _ _ _ _ _ _ _ _ _ hsort
  rcases three_bursts_report_exact {} H off t1 t2 t3 t polls1 polls2 polls3 hall hcan hfit rfl rfl
    (by intro p hp; cases hp) h12 h23 h31 hp1 hp2 ht with ⟨u, _, _, ho⟩ | ⟨_, u, _, _, ho⟩
  · exact ⟨u, _, ho, rfl, rfl, rfl, Or.inl rfl⟩
  · exact ⟨u, _, ho, rfl, rfl, rfl, Or.inr rfl⟩

/-! ### 15. the three-burst scenario at the extremes, and F7 at the transport -/

/-- the hypotheses of `three_bursts_report_tails` are satisfiable with garbage tails, early-release
    branch (a poll in `[t2 + HOLD, t3]`); by the general theorem, not by evaluation -/
theorem three_bursts_report_example_early :
    ∃ u ∈ [2000, 2700], 1950 + HOLD ≤ u ∧
      (runOps {} (.burst (shortCallHeader ++ [0x35, 43]) 1000 :: ([1500].map .poll ++
        .burst (shortCallHeader ++ [0x0a, 0xff, 0xff]) 1950 :: ([2000, 2700].map .poll ++
        .burst (shortCallHeader ++ [0xff, 0x80, 0x0a]) 2900 :: ([3000].map .poll ++ [.poll 3600]))))).2
        = [(u, .ok (.som ⟨shortCallHeader, 19, 0, 0⟩))] := by
  have hc := shortCallHeader_canonical
  rcases three_bursts_report_tails {} shortCallHeader [0x35, 43] [0x0a, 0xff, 0xff] [0xff, 0x80, 0x0a]
    19 1000 1950 2900 3600 [1500] [2000, 2700] [3000]
    (fun b hb => List.all_eq_true.mp hc.2.1 b hb) hc.1 (by rw [hc.2.2]; decide)
    (by rw [hc.2.2]; decide +kernel) (by rw [hc.2.2]; decide +kernel) rfl rfl (by intro p hp; cases hp)
    (by decide) (by decide) (by decide) (by decide) (by decide) (by decide) with h | ⟨h, _⟩
  · exact h
  · exact absurd (h 2700 (by simp)) (by decide)

/-- the same with no poll in `[t2 + HOLD, t3]`: the fully voted header -/
theorem three_bursts_report_example_late :
    ∃ u ∈ [3000] ++ [3600], 2900 + HOLD ≤ u ∧
      (runOps {} (.burst (shortCallHeader ++ [0x35, 43]) 1000 :: ([1500].map .poll ++
        .burst (shortCallHeader ++ [0x0a, 0xff, 0xff]) 1950 :: ([2000, 2500].map .poll ++
        .burst (shortCallHeader ++ [0xff, 0x80, 0x0a]) 2900 :: ([3000].map .poll ++ [.poll 3600]))))).2
        = [(u, .ok (.som ⟨shortCallHeader, 19, 0, shortCallHeader.length⟩))] := by
  have hc := shortCallHeader_canonical
  rcases three_bursts_report_tails {} shortCallHeader [0x35, 43] [0x0a, 0xff, 0xff] [0xff, 0x80, 0x0a]
    19 1000 1950 2900 3600 [1500] [2000, 2500] [3000]
    (fun b hb => List.all_eq_true.mp hc.2.1 b hb) hc.1 (by rw [hc.2.2]; decide)
    (by rw [hc.2.2]; decide +kernel) (by rw [hc.2.2]; decide +kernel) rfl rfl (by intro p hp; cases hp)
    (by decide) (by decide) (by decide) (by decide) (by decide) (by decide) with ⟨u, hu, hd, _⟩ | ⟨_, h⟩
  · exfalso
    simp only [List.mem_cons, List.not_mem_nil, or_false] at hu
    rcases hu with rfl | rfl <;> exact absurd hd (by decide)
  · exact h

/-- **F7 at the transport, no early poll.**  The tails of `tail_extension_witness`; bursts one
    second apart, no poll between `t2 + HOLD` and `t3`.  One message is output and its text is
    `H ++ "?-"`, not `H`. -/
theorem tail_extension_reported_wrong :
    (runOps {} [.burst (shortCallHeader ++ [0x35, 45]) 1000,
                .burst (shortCallHeader ++ [0x0a, 0xff, 0xff]) 1950, .poll 2000,
                .burst (shortCallHeader ++ [0xff, 0x80, 0x0a]) 2900, .poll 3600]).2
      = [(3600, .ok (.som ⟨shortCallHeader ++ [63, 45], 19, 16, 39⟩))] := by
  decide +kernel

/-- **F7 at the transport, early poll.**  The same bursts with a poll in `[t2 + HOLD, t3]`: the
    two-burst header `H` is output at that poll, and the three-burst estimate `H ++ "?-"` — a
    different text, so not a duplicate — is output as a second StartOfMessage.  One transmission,
    two reports. -/
theorem tail_extension_reported_twice :
    (runOps {} [.burst (shortCallHeader ++ [0x35, 45]) 1000,
                .burst (shortCallHeader ++ [0x0a, 0xff, 0xff]) 1950, .poll 2700,
                .burst (shortCallHeader ++ [0xff, 0x80, 0x0a]) 2900, .poll 3600]).2
      = [(2700, .ok (.som ⟨shortCallHeader, 19, 0, 0⟩)),
         (3600, .ok (.som ⟨shortCallHeader ++ [63, 45], 19, 16, 39⟩))] := by
  decide +kernel

theorem tail_extension_runs_sorted :
    Sorted [.burst (shortCallHeader ++ [0x35, 45]) 1000,
            .burst (shortCallHeader ++ [0x0a, 0xff, 0xff]) 1950, .poll 2700,
            .burst (shortCallHeader ++ [0xff, 0x80, 0x0a]) 2900, .poll 3600]
    ∧ Sorted [.burst (shortCallHeader ++ [0x35, 45]) 1000,
            .burst (shortCallHeader ++ [0x0a, 0xff, 0xff]) 1950, .poll 2000,
            .burst (shortCallHeader ++ [0xff, 0x80, 0x0a]) 2900, .poll 3600] := by
  unfold Sorted
  decide

end SameVerif.C02
