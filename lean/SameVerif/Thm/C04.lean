import SameVerif.Lemmas.Evidence
import SameVerif.Lemmas.AsmEvidence
/-
  C04 — Every reported message is justified by the bursts received just before it.
  Property theorems only; helper lemmas live in Lemmas/Evidence.lean and Lemmas/AsmEvidence.lean,
  the declarative vocabulary (`m7`, `column`, `SupportsByte`, `IsRun`) in Spec/Evidence.lean.
-/
namespace SameVerif.C04
open SameVerif SameVerif.Spec

/-! ## 1. A StartOfMessage is backed, byte for byte, by two bursts or a majority of three -/

/-- **Every reported byte is supported.**  If `combine` yields a StartOfMessage then it looked at
    two or three bursts, and at every position of the reported text either exactly two of them
    reach that position and both hold the reported byte (eighth bit ignored), or all three do and
    the reported byte is their bit-by-bit majority. -/
theorem combine_supported (maxLen : Nat) (bursts : List (List Byte)) (h : Header)
    (hc : combine maxLen bursts = some (.ok (.som h))) :
    2 ≤ (bursts.take 3).length ∧
      ∀ (i : Nat) (hi : i < h.text.length), SupportsByte (bursts.take 3) i h.text[i] := by
  have hall : ∀ (i : Nat) (hi : i < h.text.length), SupportsByte (bursts.take 3) i h.text[i] := by
    intro i hi
    obtain ⟨e, he, hb, h2⟩ := combine_som_entries maxLen bursts h hc i hi
    rw [← hb]
    exact estimateLoop_supported maxLen _ i e he h2
  refine ⟨?_, hall⟩
  have h0 := hall 0 (combine_som_text_pos maxLen bursts h hc)
  have hle := column_length_le (bursts.take 3) 0
  have := supportsByte_length _ _ _ h0
  omega

/-- the same, with `getD` instead of a bounds proof -/
theorem combine_supported_getD (maxLen : Nat) (bursts : List (List Byte)) (h : Header)
    (hc : combine maxLen bursts = some (.ok (.som h))) (i : Nat) (hi : i < h.text.length) :
    SupportsByte (bursts.take 3) i (h.text.getD i 0) := by
  have := (combine_supported maxLen bursts h hc).2 i hi
  simpa [List.getD, hi] using this

/-! ## 2. One burst is never enough -/

theorem combine_nil (maxLen : Nat) : combine maxLen [] = none := by
  cases maxLen <;> simp [combine, estimateMessage, estimateLoop, voteAt]

/-- **A header heard in a single burst is never decoded.** -/
theorem single_never (maxLen : Nat) (b : List Byte) (h : Header) :
    combine maxLen [b] ≠ some (.ok (.som h)) := by
  intro hc
  have := (combine_supported maxLen [b] h hc).1
  simp at this

/-- **Every reported position is covered twice.**  At least two of the first three bursts are at
    least as long as the reported text. -/
theorem combine_needs_two (maxLen : Nat) (bursts : List (List Byte)) (h : Header)
    (hc : combine maxLen bursts = some (.ok (.som h))) :
    2 ≤ ((bursts.take 3).filter (fun b => h.text.length ≤ b.length)).length := by
  have hpos := combine_som_text_pos maxLen bursts h hc
  have hs := (combine_supported maxLen bursts h hc).2 (h.text.length - 1) (by omega)
  have hlen := column_length (bursts.take 3) (h.text.length - 1)
  have hf : (bursts.take 3).filter (fun b => h.text.length - 1 < b.length)
      = (bursts.take 3).filter (fun b => h.text.length ≤ b.length) := by
    apply List.filter_congr
    intro b _
    simp only [decide_eq_decide]
    omega
  rw [hf] at hlen
  rw [← hlen]
  exact supportsByte_length _ _ _ hs

/-! ## 3. Two bursts must agree -/

/-- **With two bursts, a header is made only of bytes on which both agree.** -/
theorem pair_agrees (maxLen : Nat) (a b : List Byte) (h : Header)
    (hc : combine maxLen [a, b] = some (.ok (.som h))) (i : Nat) (hi : i < h.text.length) :
    ∃ (ha : i < a.length) (hb : i < b.length), m7 a[i] = h.text[i] ∧ m7 b[i] = h.text[i] := by
  have hs := (combine_supported maxLen [a, b] h hc).2 i hi
  obtain ⟨h1, h2⟩ := supportsByte_pair a b i _ hs
  have ha : i < a.length := by
    cases hx : a[i]? with
    | none => simp [hx] at h1
    | some x => exact (List.getElem?_eq_some_iff.mp hx).1
  have hb : i < b.length := by
    cases hx : b[i]? with
    | none => simp [hx] at h2
    | some x => exact (List.getElem?_eq_some_iff.mp hx).1
  refine ⟨ha, hb, ?_, ?_⟩
  · simpa [ha] using h1
  · simpa [hb] using h2

/-- the reported text stops before the first position on which the two bursts differ -/
theorem pair_agree_prefix (maxLen : Nat) (a b : List Byte) (h : Header)
    (hc : combine maxLen [a, b] = some (.ok (.som h))) (i : Nat)
    (hd : (a[i]?).map m7 ≠ (b[i]?).map m7) : h.text.length ≤ i := by
  apply Nat.le_of_not_lt
  intro hi
  obtain ⟨ha, hb, h1, h2⟩ := pair_agrees maxLen a b h hc i hi
  apply hd
  simp [ha, hb, h1, h2]

/-- **Two bursts that disagree on their first byte produce no StartOfMessage.** -/
theorem disagreeing_pair (maxLen : Nat) (a b : List Byte) (h : Header)
    (hd : (a[0]?).map m7 ≠ (b[0]?).map m7) :
    combine maxLen [a, b] ≠ some (.ok (.som h)) := by
  intro hc
  have := pair_agree_prefix maxLen a b h hc 0 hd
  have := combine_som_text_pos maxLen [a, b] h hc
  omega

/-! ## 4. An EndOfMessage is backed by a vote that reads `NN` -/

/-- **Every EndOfMessage rests on `NN`.**  The estimate over the first three bursts starts with
    two entries reading `N` (78), and each of them is the lone byte of a single burst, the common
    byte of two, or the bitwise majority of three. -/
theorem eom_supported (maxLen : Nat) (bursts : List (List Byte))
    (hc : combine maxLen bursts = some (.ok .eom)) :
    (∃ e0 e1 rest, estimateMessage maxLen bursts = e0 :: e1 :: rest ∧ e0.byte = 78 ∧ e1.byte = 78) ∧
      WeaklySupportsByte (bursts.take 3) 0 78 ∧ WeaklySupportsByte (bursts.take 3) 1 78 := by
  obtain ⟨rest, hr⟩ := combine_eom_parse maxLen bursts hc
  match hest : estimateMessage maxLen bursts, hr with
  | e0 :: e1 :: tl, hr =>
    simp only [List.map_cons, List.cons.injEq] at hr
    obtain ⟨h0, h1, _⟩ := hr
    refine ⟨⟨e0, e1, tl, rfl, h0, h1⟩, ?_, ?_⟩
    · have := estimateLoop_weakly_supported maxLen (bursts.take 3) 0 e0 (by
        have : estimateLoop maxLen (bursts.take 3) = e0 :: e1 :: tl := hest
        rw [this]; rfl)
      rwa [h0] at this
    · have := estimateLoop_weakly_supported maxLen (bursts.take 3) 1 e1 (by
        have : estimateLoop maxLen (bursts.take 3) = e0 :: e1 :: tl := hest
        rw [this]; rfl)
      rwa [h1] at this
  | [], hr => simp at hr
  | [_], hr => simp at hr

/-- a trailer decoded from a single burst: that burst begins with `NN` (eighth bits ignored) -/
theorem eom_single (maxLen : Nat) (b : List Byte) (hc : combine maxLen [b] = some (.ok .eom)) :
    (b[0]?).map m7 = some 78 ∧ (b[1]?).map m7 = some 78 := by
  obtain ⟨_, h0, h1⟩ := eom_supported maxLen [b] hc
  have key : ∀ i, WeaklySupportsByte [b] i 78 → (b[i]?).map m7 = some 78 := by
    intro i hw
    unfold WeaklySupportsByte SupportsByte column at hw
    cases hb : b[i]? <;> simp [hb] at hw ⊢
    exact hw
  exact ⟨key 0 h0, key 1 h1⟩

/-! ## 5. The assembler reports only such combinations -/

/-- the two entry points of the assembler, with the tick count of the call -/
inductive Call where
  | idle (now : Nat)
  | assemble (burst : List Byte) (now : Nat)

/-- states reachable from the initial one by calls with non-decreasing tick counts, together with
    the log of non-empty bursts received (clipped to the burst buffer, oldest first) and the tick
    count of the latest call -/
inductive Reach : List (List Byte) → Nat → AState → Prop where
  | init : Reach [] 0 {}
  | idle {log T s} (now : Nat) : Reach log T s → T ≤ now → Reach log now (aIdle s now).1
  | assemble {log T s} (burst : List Byte) (now : Nat) : Reach log T s → T ≤ now →
      burst.isEmpty = false → Reach (log ++ [burst.take MAXLEN]) now (aAssemble s burst now).1

/-- an empty burst is not a burst: `assemble` then is `idle`, and the log does not grow -/
theorem assemble_empty (s : AState) (now : Nat) : aAssemble s [] now = aIdle s now := by
  simp [aAssemble]

/-- a message comes out of `idle` only from a pending entry that is due -/
theorem message_from_pending (s : AState) (now : Nat) (r : MsgResult)
    (h : (aIdle s now).2 = .message r) :
    ∃ t, s.pending = some t ∧ t.data = r ∧ t.deadline ≤ now :=
  SameVerif.message_from_pending s now r h

/-- the pending entry after a burst is the old one, or the fresh estimate -/
theorem pending_from_estimate (s : AState) (burst : List Byte) (now : Nat) :
    pendingAfter s burst now = s.pending ∨
      ∃ r, estimateOf s burst now = some r ∧ pendingAfter s burst now = some (acceptNew r now) :=
  SameVerif.pending_from_estimate s burst now

/-- the fresh estimate is `combine` of the (at most three) bursts of the history -/
theorem estimate_from_history (s : AState) (burst : List Byte) (now : Nat) (r : MsgResult)
    (h : estimateOf s burst now = some r) :
    combine MAXLEN ((historyAfter s burst now).map (·.data)) = some r ∧
      (historyAfter s burst now).length ≤ 3 :=
  ⟨SameVerif.estimate_from_history s burst now r h, historyAfter_length_le s burst now⟩

theorem pruneHistory_length_le (h : List (Timed (List Byte))) (now : Nat) :
    (pruneHistory h now).length ≤ 2 := SameVerif.pruneHistory_length_le h now

/-- **The invariant holds in every reachable state.** -/
theorem reach_inv (log : List (List Byte)) (T : Nat) (s : AState) (h : Reach log T s) :
    Inv log T s := by
  induction h with
  | init => exact inv_init
  | idle now _ hT ih => exact inv_idle _ _ now _ hT ih
  | assemble burst now _ hT hb ih => exact inv_assemble _ _ now _ burst hT hb ih

/-- **Whatever `idle` reports is `combine` of a run of at most three consecutive bursts.** -/
theorem idle_reports_combine (log : List (List Byte)) (T now : Nat) (s : AState) (res : MsgResult)
    (h : Reach log T s) (hm : (aIdle s now).2 = .message res) :
    ∃ r, IsRun r log ∧ combine MAXLEN r = some res :=
  idle_message_evidence log T now s res (reach_inv log T s h) hm

/-- **Whatever `assemble` reports is `combine` of such a run** (the new burst included). -/
theorem assemble_reports_combine (log : List (List Byte)) (T now : Nat) (s : AState)
    (burst : List Byte) (res : MsgResult) (h : Reach log T s) (hT : T ≤ now)
    (hb : burst.isEmpty = false) (hm : (aAssemble s burst now).2 = .message res) :
    ∃ r, IsRun r (log ++ [burst.take MAXLEN]) ∧ combine MAXLEN r = some res :=
  assemble_message_evidence log T now s burst res hT hb (reach_inv log T s h) hm

/-- a run that combines to a StartOfMessage supports every byte of it -/
theorem run_supports (r : List (List Byte)) (h : Header) (hlen : r.length ≤ 3)
    (hc : combine MAXLEN r = some (.ok (.som h))) :
    2 ≤ r.length ∧ ∀ (i : Nat) (hi : i < h.text.length), SupportsByte r i h.text[i] := by
  have := combine_supported MAXLEN r h hc
  rwa [List.take_of_length_le hlen] at this

/-- **Every StartOfMessage is justified (idle).**  In any reachable state, a StartOfMessage
    reported by `idle` comes with a run of two or three consecutive received bursts that supports
    every byte of the reported header. -/
theorem som_has_evidence_idle (log : List (List Byte)) (T now : Nat) (s : AState) (h : Header)
    (hr : Reach log T s) (hm : (aIdle s now).2 = .message (.ok (.som h))) :
    ∃ r, IsRun r log ∧ 2 ≤ r.length ∧ combine MAXLEN r = some (.ok (.som h)) ∧
      ∀ (i : Nat) (hi : i < h.text.length), SupportsByte r i h.text[i] := by
  obtain ⟨r, hrun, hc⟩ := idle_reports_combine log T now s _ hr hm
  obtain ⟨h2, hs⟩ := run_supports r h hrun.2 hc
  exact ⟨r, hrun, h2, hc, hs⟩

/-- **Every StartOfMessage is justified (assemble).** -/
theorem som_has_evidence (log : List (List Byte)) (T now : Nat) (s : AState)
    (burst : List Byte) (h : Header) (hr : Reach log T s) (hT : T ≤ now)
    (hb : burst.isEmpty = false) (hm : (aAssemble s burst now).2 = .message (.ok (.som h))) :
    ∃ r, IsRun r (log ++ [burst.take MAXLEN]) ∧ 2 ≤ r.length ∧
      combine MAXLEN r = some (.ok (.som h)) ∧
      ∀ (i : Nat) (hi : i < h.text.length), SupportsByte r i h.text[i] := by
  obtain ⟨r, hrun, hc⟩ := assemble_reports_combine log T now s burst _ hr hT hb hm
  obtain ⟨h2, hs⟩ := run_supports r h hrun.2 hc
  exact ⟨r, hrun, h2, hc, hs⟩

/-- **Every EndOfMessage is justified.**  An EndOfMessage reported by `assemble` comes with a run
    of at most three consecutive received bursts whose vote reads `NN`. -/
theorem eom_has_evidence (log : List (List Byte)) (T now : Nat) (s : AState)
    (burst : List Byte) (hr : Reach log T s) (hT : T ≤ now)
    (hb : burst.isEmpty = false) (hm : (aAssemble s burst now).2 = .message (.ok .eom)) :
    ∃ r, IsRun r (log ++ [burst.take MAXLEN]) ∧ combine MAXLEN r = some (.ok .eom) ∧
      WeaklySupportsByte r 0 78 ∧ WeaklySupportsByte r 1 78 := by
  obtain ⟨r, hrun, hc⟩ := assemble_reports_combine log T now s burst _ hr hT hb hm
  have := (eom_supported MAXLEN r hc).2
  rw [List.take_of_length_le hrun.2] at this
  exact ⟨r, hrun, hc, this⟩

theorem eom_has_evidence_idle (log : List (List Byte)) (T now : Nat) (s : AState)
    (hr : Reach log T s) (hm : (aIdle s now).2 = .message (.ok .eom)) :
    ∃ r, IsRun r log ∧ combine MAXLEN r = some (.ok .eom) ∧
      WeaklySupportsByte r 0 78 ∧ WeaklySupportsByte r 1 78 := by
  obtain ⟨r, hrun, hc⟩ := idle_reports_combine log T now s _ hr hm
  have := (eom_supported MAXLEN r hc).2
  rw [List.take_of_length_le hrun.2] at this
  exact ⟨r, hrun, hc, this⟩

/-- after either call the history holds at most two bursts, so the next estimate sees at most three -/
theorem history_length_le_two (s : AState) (burst : List Byte) (now : Nat) :
    (aIdle s now).1.history.length ≤ 2 ∧ (aAssemble s burst now).1.history.length ≤ 2 := by
  refine ⟨by rw [idle_history]; exact SameVerif.pruneHistory_length_le _ _, ?_⟩
  unfold aAssemble
  split <;> (rw [idle_history]; exact SameVerif.pruneHistory_length_le _ _)

/-- in every reachable state the history is the last (at most two) bursts of the log -/
theorem reach_history (log : List (List Byte)) (T : Nat) (s : AState) (h : Reach log T s) :
    s.history.map (·.data) <:+ log ∧ s.history.length ≤ 2 := by
  refine ⟨(reach_inv log T s h).hist_suffix, ?_⟩
  induction h with
  | init => simp
  | idle now _ _ _ => exact (history_length_le_two _ [] now).1
  | assemble burst now _ _ _ _ => exact (history_length_le_two _ burst now).2

/-! ## 6. Non-vacuity -/
section NonVacuity

local instance decEqExcept {ε α} [DecidableEq ε] [DecidableEq α] : DecidableEq (Except ε α)
  | .ok a, .ok b => if h : a = b then isTrue (by rw [h]) else isFalse (by intro e; cases e; exact h rfl)
  | .error a, .error b => if h : a = b then isTrue (by rw [h]) else isFalse (by intro e; cases e; exact h rfl)
  | .ok _, .error _ => isFalse (by intro e; cases e)
  | .error _, .ok _ => isFalse (by intro e; cases e)

/-- `ZCZC-WXR-RWT-012345+0030-1231200-KLOX-` -/
private def hdr : List Byte :=
  [90, 67, 90, 67, 45, 87, 88, 82, 45, 82, 87, 84, 45, 48, 49, 50, 51, 52, 53, 43, 48, 48, 51, 48,
   45, 49, 50, 51, 49, 50, 48, 48, 45, 75, 76, 79, 88, 45]
/-- the same with the event code `RWC`, `RWE`, `RWF`, `RWG` -/
private def hdrC : List Byte := hdr.set 11 67
private def hdrE : List Byte := hdr.set 11 69
private def hdrF : List Byte := hdr.set 11 70
private def hdrG : List Byte := hdr.set 11 71

/-- two equal bursts give the header, and both hold `T` at position 11 -/
example : combine MAXLEN [hdr, hdr] = some (.ok (.som ⟨hdr, 19, 0, 0⟩)) := by decide +kernel
example : SupportsByte [hdr, hdr] 11 84 := Or.inl ⟨84, 84, by decide +kernel, rfl, rfl⟩

/-- three bursts reading `RWC`, `RWE`, `RWF` are reported as `RWG`: the byte `G` is in none of the
    three bursts, it is only their bit-by-bit majority — which is all `SupportsByte` promises -/
example : combine MAXLEN [hdrC, hdrE, hdrF] = some (.ok (.som ⟨hdrG, 19, 3, 38⟩)) := by decide +kernel
example : SupportsByte [hdrC, hdrE, hdrF] 11 71 := Or.inr ⟨67, 69, 70, by decide +kernel, by decide⟩

/-- two bursts that differ in one byte give no header; one burst gives nothing at all -/
example : combine MAXLEN [hdrC, hdrE] = some (.error .malformed) := by decide +kernel
example : combine MAXLEN [hdr] = none := by decide +kernel

/-- a lone `NNNN` burst is an EndOfMessage -/
example : combine MAXLEN [[78, 78, 78, 78]] = some (.ok .eom) := by decide +kernel
example : WeaklySupportsByte [[78, 78, 78, 78]] 1 78 := Or.inl (by decide +kernel)

/-- the assembler: two header bursts one second apart, then the hold time runs out -/
private def reported : Transport → Option MsgResult
  | .message r => some r
  | _ => none
private def s2 : AState := (aAssemble (aAssemble {} hdr 0).1 hdr 521).1

example : Reach [hdr, hdr] 521 s2 :=
  Reach.assemble hdr 521 (Reach.assemble hdr 0 Reach.init (Nat.le_refl _) rfl) (by decide) rfl
example : reported (aIdle s2 (521 + HOLD)).2 = some (.ok (.som ⟨hdr, 19, 0, 0⟩)) := by decide +kernel

end NonVacuity

end SameVerif.C04
