import SameVerif.Model.Time
/-
  C15 — Issue time is reconstructed exactly from day-of-year and a rough receive time.
-/
namespace SameVerif.C15
open SameVerif

/-- day number of (year, day of year) -/
def dayNumber (y : Int) (d : Nat) : Int := daysBeforeYear y + (d : Int) - 1

/-- consecutive years are `daysInYear` apart — the calendar model is self-consistent for every year -/
theorem daysBeforeYear_succ (y : Int) : daysBeforeYear (y + 1) = daysBeforeYear y + daysInYear y := by
  unfold daysBeforeYear daysInYear isLeap
  by_cases h4 : y % 4 = 0 <;> by_cases h100 : y % 100 = 0 <;> by_cases h400 : y % 400 = 0 <;>
    simp [h4, h100, h400] <;> omega

theorem daysInYear_bounds (y : Int) : daysInYear y = 365 ∨ daysInYear y = 366 := by
  unfold daysInYear; split <;> simp

theorem daysBeforeYear_mono_two (y : Int) : daysBeforeYear (y + 2) ≥ daysBeforeYear y + 730 := by
  have h1 := daysBeforeYear_succ y
  have h2 := daysBeforeYear_succ (y + 1)
  have b1 := daysInYear_bounds y
  have b2 := daysInYear_bounds (y + 1)
  have : y + 1 + 1 = y + 2 := by omega
  rw [this] at h2
  omega

/-- years further apart are further apart in days (monotonicity, by induction on the gap) -/
theorem daysBeforeYear_gap (y : Int) (k : Nat) : daysBeforeYear (y + k) ≥ daysBeforeYear y + 365 * k := by
  induction k with
  | zero => simp
  | succ k ih =>
    have h := daysBeforeYear_succ (y + k)
    have b := daysInYear_bounds (y + k)
    have : y + ((k + 1 : Nat) : Int) = y + k + 1 := by omega
    rw [this]
    omega

/-- **Year inference is exact.**  For every true issue instant (year `Y` in chrono's range, valid
    day `d`, `h < 24`, `m < 60`) and every receive date whose day number is within 179 days of the
    issue date (in particular within ±90), the reconstructed issue time is the true one. -/
theorem year_correct (Y : Int) (d h m : Nat) (ry : Int) (rd : Nat)
    (hY : MIN_YEAR < Y ∧ Y < MAX_YEAR)
    (hd : 1 ≤ d ∧ d ≤ daysInYear Y) (hh : h < 24) (hm : m < 60)
    (hrd : 1 ≤ rd ∧ rd ≤ daysInYear ry)
    (hnear : dayNumber ry rd - dayNumber Y d ≤ 179 ∧ dayNumber Y d - dayNumber ry rd ≤ 179) :
    calcIssue d h m ry rd = some ⟨Y, d, h, m⟩ := by
  unfold dayNumber at hnear
  have bY := daysInYear_bounds Y
  have bR := daysInYear_bounds ry
  -- the receive year is Y-1, Y or Y+1
  have hyr : ry = Y - 1 ∨ ry = Y ∨ ry = Y + 1 := by
    by_cases hgt : ry ≥ Y + 2
    · exfalso
      obtain ⟨k, hk⟩ : ∃ k : Nat, ry = Y + 2 + k := ⟨(ry - (Y + 2)).toNat, by omega⟩
      have g := daysBeforeYear_gap (Y + 2) k
      have t := daysBeforeYear_mono_two Y
      rw [← hk] at g
      omega
    · by_cases hlt : ry ≤ Y - 2
      · exfalso
        obtain ⟨k, hk⟩ : ∃ k : Nat, Y = ry + 2 + k := ⟨(Y - (ry + 2)).toNat, by omega⟩
        have g := daysBeforeYear_gap (ry + 2) k
        have t := daysBeforeYear_mono_two ry
        rw [← hk] at g
        omega
      · omega
  have i32 : i32Min < ry - 1 ∧ ry + 1 < i32Max := by
    unfold MIN_YEAR MAX_YEAR at hY; unfold i32Min i32Max; omega
  rcases hyr with rfl | rfl | rfl
  · -- received in the previous year: the day difference is at least 180, so the year is bumped
    have hs := daysBeforeYear_succ (Y - 1)
    have : Y - 1 + 1 = Y := by omega
    rw [this] at hs
    have hdiff : (rd : Int) - d ≥ 180 := by omega
    have hmin : min (Y - 1 + 1) i32Max = Y := by
      rw [this]; unfold i32Max at *; unfold MAX_YEAR at hY; omega
    simp only [calcIssue, inferYear, hdiff, ↓reduceIte, hmin, yoHm]
    simp only [MIN_YEAR, MAX_YEAR] at hY ⊢
    have : (-262143 ≤ Y ∧ Y ≤ 262142 ∧ 1 ≤ d ∧ d ≤ daysInYear Y ∧ h < 24 ∧ m < 60) := by omega
    simp [this]
  · have hdiff1 : ¬ ((rd : Int) - d ≥ 180) := by omega
    have hdiff2 : ¬ ((rd : Int) - d ≤ -180) := by omega
    simp only [calcIssue, inferYear, hdiff1, hdiff2, ↓reduceIte, yoHm]
    simp only [MIN_YEAR, MAX_YEAR] at hY ⊢
    have : (-262143 ≤ ry ∧ ry ≤ 262142 ∧ 1 ≤ d ∧ d ≤ daysInYear ry ∧ h < 24 ∧ m < 60) := by omega
    simp [this]
  · have hs := daysBeforeYear_succ Y
    have hdiff1 : ¬ ((rd : Int) - d ≥ 180) := by omega
    have hdiff2 : (rd : Int) - d ≤ -180 := by omega
    have hmax : max (Y + 1 - 1) i32Min = Y := by
      have : Y + 1 - 1 = Y := by omega
      rw [this]; unfold i32Min; unfold MIN_YEAR at hY; omega
    simp only [calcIssue, inferYear, hdiff1, hdiff2, ↓reduceIte, hmax, yoHm]
    simp only [MIN_YEAR, MAX_YEAR] at hY ⊢
    have : (-262143 ≤ Y ∧ Y ≤ 262142 ∧ 1 ≤ d ∧ d ≤ daysInYear Y ∧ h < 24 ∧ m < 60) := by omega
    simp [this]

/-- the ±90-day form stated in the property -/
theorem year_correct_90 (Y : Int) (d h m : Nat) (ry : Int) (rd : Nat)
    (hY : MIN_YEAR < Y ∧ Y < MAX_YEAR)
    (hd : 1 ≤ d ∧ d ≤ daysInYear Y) (hh : h < 24) (hm : m < 60)
    (hrd : 1 ≤ rd ∧ rd ≤ daysInYear ry)
    (hnear : dayNumber ry rd - dayNumber Y d ≤ 90 ∧ dayNumber Y d - dayNumber ry rd ≤ 90) :
    calcIssue d h m ry rd = some ⟨Y, d, h, m⟩ :=
  year_correct Y d h m ry rd hY hd hh hm hrd ⟨by omega, by omega⟩

/-- the bound is tight: at 180 days the inferred year is wrong -/
theorem year_tight : calcIssue 1 0 0 2021 181 = some ⟨2022, 1, 0, 0⟩
    ∧ dayNumber 2021 181 - dayNumber 2021 1 = 180 := by
  decide

theorem yoHm_some (y : Int) (d h m : Nat) (t : IssueTime) (hres : yoHm y d h m = some t) :
    t = ⟨y, d, h, m⟩ ∧ MIN_YEAR ≤ y ∧ y ≤ MAX_YEAR ∧ 1 ≤ d ∧ d ≤ daysInYear y ∧ h < 24 ∧ m < 60 := by
  unfold yoHm at hres
  split at hres
  · rename_i hc
    cases hres
    exact ⟨rfl, hc⟩
  · cases hres

/-- impossible dates and times are errors -/
theorem invalid_rejected (d h m : Nat) (ry : Int) (rd : Nat) :
    (d = 0 → calcIssue d h m ry rd = none) ∧
    (h ≥ 24 → calcIssue d h m ry rd = none) ∧
    (m ≥ 60 → calcIssue d h m ry rd = none) ∧
    (d > 366 → calcIssue d h m ry rd = none) := by
  have key : ∀ (P : Prop), (∀ t, calcIssue d h m ry rd = some t → P → False) → P → calcIssue d h m ry rd = none := by
    intro P hP hp
    cases hc : calcIssue d h m ry rd with
    | none => rfl
    | some t => exact absurd hp (fun hp => hP t hc hp)
  refine ⟨key _ ?_, key _ ?_, key _ ?_, key _ ?_⟩ <;> intro t hres hbad <;>
    obtain ⟨_, _, _, h3, h4, h5, h6⟩ := yoHm_some _ _ _ _ _ hres
  · omega
  · omega
  · omega
  · rcases daysInYear_bounds (inferYear d ry rd) with hb | hb <;> omega

/-- day 366 projected into a non-leap year is an error -/
theorem day366_nonleap (h m : Nat) (ry : Int) (rd : Nat) (t : IssueTime)
    (hres : calcIssue 366 h m ry rd = some t) : isLeap t.year = true := by
  obtain ⟨rfl, _, _, _, h4, _, _⟩ := yoHm_some _ _ _ _ _ hres
  simp only
  unfold daysInYear at h4
  split at h4
  · assumption
  · omega

/-- a successful result always carries the message's own day, hour and minute, a valid date,
    and a year within one of the receive year -/
theorem never_wrong (d h m : Nat) (ry : Int) (rd : Nat) (t : IssueTime)
    (hres : calcIssue d h m ry rd = some t) :
    t.doy = d ∧ t.hour = h ∧ t.minute = m ∧ 1 ≤ d ∧ d ≤ daysInYear t.year ∧ h < 24 ∧ m < 60
      ∧ (t.year = ry ∨ t.year = ry + 1 ∨ t.year = ry - 1 ∨ t.year = i32Max ∨ t.year = i32Min) := by
  obtain ⟨rfl, _, _, h3, h4, h5, h6⟩ := yoHm_some _ _ _ _ _ hres
  refine ⟨rfl, rfl, rfl, h3, h4, h5, h6, ?_⟩
  simp only [inferYear]
  split
  · omega
  · split <;> omega

/-- **Expiry.**  A message is expired exactly when its issue time is computable and
    issue + validity duration is strictly before `now` (to the nanosecond). -/
theorem expired_iff (d h m durH durM : Nat) (ny : Int) (nd : Nat) (nowSecs : Int) (nowNanos : Nat) :
    isExpiredAt d h m durH durM ny nd nowSecs nowNanos = true ↔
      ∃ t, calcIssue d h m ny nd = some t ∧
        (t.epochSecs + durationSecs durH durM < nowSecs
          ∨ (t.epochSecs + durationSecs durH durM = nowSecs ∧ 0 < nowNanos)) := by
  unfold isExpiredAt
  cases hc : calcIssue d h m ny nd with
  | none => simp
  | some t => simp

/-- the epoch-second conversion advances by exactly one day per day of year and by one year's days
    per year: it is the calendar, not a table -/
theorem epochSecs_step (y : Int) (d h m : Nat) :
    (IssueTime.mk y (d + 1) h m).epochSecs = (IssueTime.mk y d h m).epochSecs + 86400
      ∧ (IssueTime.mk (y + 1) 1 h m).epochSecs = (IssueTime.mk y (daysInYear y) h m).epochSecs + 86400 := by
  constructor
  · simp only [IssueTime.epochSecs]; omega
  · have := daysBeforeYear_succ y
    simp only [IssueTime.epochSecs]; omega

theorem epoch_anchor : (IssueTime.mk 1970 1 0 0).epochSecs = 0 := by decide

end SameVerif.C15
