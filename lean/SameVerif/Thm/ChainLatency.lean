import SameVerif.Lemmas.ChainLatency
import SameVerif.Thm.ChainT
/-
  C08 ("bounded reporting delay") at model level, in symbol ticks: UPPER bounds for the ticks at
  which the composed run (link model → receiver glue → assembler) reports.

  L1  burst-termination latency: the `.burst` tick `b` of a segment satisfies
        `e + 31 ≤ b ≤ e + rel + 31`   (`e` = first tick after the last transmitted bit)
      — `seg_out_timed`, `seg_out_r_timed`, `delivers_timed_of_stream2`.
  L2/L3  the whole transmission (`stream_full2_latency`, conclusion `TimedFull`):
      * StartOfMessage at tick `i`: EITHER a `.noCarrier` tick with `b2 + HOLD ≤ i < b3` (release
        after two bursts, `voting = 0`) OR no such tick exists and `i = b3 + HOLD` EXACTLY;
        in both cases `i ≤ g3.e + g3.rel + 31 + HOLD`;
      * EndOfMessage at tick `j`, EXACTLY the `.burst` tick of the second trailer burst (a header
        burst still stored: `b4 < b3 + HIST`) or of the first: `j ≤ e_k.e + e_k.rel + 31`.
  L4  in samples and seconds (`som_samples_le`, `hold_plus_latency_lt`).
-/
namespace SameVerif.Chain
open SameVerif SameVerif.Spec SameVerif.Asm SameVerif.Full

/-! ## L1 — burst-termination latency in the link model -/

/-- **One segment, original assumptions (`Spec.BurstObserved`), with the timing.**  The link model
    reports exactly one `.burst`, at a tick `k` with
    `|lead| + |body| + 31 ≤ k ≤ |lead| + |body| + rel + 31`, and `.noCarrier` afterwards. -/
theorem seg_out_timed (c : LCfg) (hE : c.maxErrors ≤ 6) (hP : c.fc.maxPrefixErr ≤ 7)
    (payload : List Byte) (hc : PayloadCond c payload) (g : Seg) (hg : Observed payload g)
    (s : LState) (hs : Quiescent s) :
    ∃ t, SegOutT g payload t (lrun c s g.ticks) ∧ lrunBursts c s g.ticks = [payload ++ t]
      ∧ Quiescent (lrunState c s g.ticks) := by
  obtain ⟨t, o, hb, hq⟩ := seg_out c hE hP payload hc g hg s hs
  exact ⟨t, segOutT_of c s g payload t o (segTiming_of_observed c hE hP payload hc g hg s hs), hb, hq⟩

/-- **One segment, realistic assumptions (`Spec.BurstObserved'` + `Spec.NoFalseHits`), with the
    timing.** -/
theorem seg_out_r_timed (c : LCfg) (hE : c.maxErrors ≤ 6) (hP : c.fc.maxPrefixErr ≤ 7)
    (payload : List Byte) (hc : PayloadCond c payload) (g : Seg) (hg : Observed' payload g)
    (s : LState) (hs : Ready s) (hw : 32 ≤ s.nsym + g.lead.length) (hn : NoFalse c s g) :
    ∃ t, SegOutT g payload t (lrun c s g.ticks) ∧ lrunBursts c s g.ticks = [payload ++ t]
      ∧ Quiescent (lrunState c s g.ticks) := by
  obtain ⟨t, o, hb, hq⟩ := seg_out_r c hE hP payload hc g hg s hs hw hn
  exact ⟨t, segOutT_of c s g payload t o (segTiming_of_observed_r c hE hP payload hc g hg s hs hw hn),
    hb, hq⟩

/-- **One burst of a stream, generalised synchronisation (`Spec.StreamObserved2` clauses), with the
    timing.**  Hypotheses of `delivers_of_stream2`. -/
theorem delivers_timed_of_stream2 (c : LCfg) (hE : c.maxErrors ≤ 6) (hP : c.fc.maxPrefixErr ≤ 7)
    (stream : List Tick) (a : Nat) (g : BurstSpec2)
    (ha : a = 0 ∨ 31 ≤ a) (hready : Ready (lrunState c {} (stream.take a)))
    (hpc : PayloadCond c g.payload) (hao : a ≤ g.o) (h32 : 32 ≤ g.o)
    (htrack : TrackAt2F (fun i => stream.getD i dfltTick) stream.length g)
    (hsync : SyncAt2F c.maxErrors (fun i => stream.getD i dfltTick) (max a 31) g)
    (htail : ∀ t, t < g.stop → g.e ≤ t → potHit c.maxErrors (fun i => stream.getD i dfltTick) t = false) :
    ∃ t, SegOutT (segOf2 stream a g) g.payload t
        (lrun c (lrunState c {} (stream.take a)) (segOf2 stream a g).ticks)
      ∧ lrunBursts c (lrunState c {} (stream.take a)) (segOf2 stream a g).ticks = [g.payload ++ t]
      ∧ Quiescent (lrunState c (lrunState c {} (stream.take a)) (segOf2 stream a g).ticks) := by
  obtain ⟨t, o, hb, hq⟩ := delivers_of_stream2 c hE hP stream a g ha hready hpc hao h32 htrack hsync htail
  exact ⟨t, segOutT_of c _ _ g.payload t o
    (segTiming_of_stream2 c hE hP stream a g ha hready hpc hao h32 htrack hsync htail), hb, hq⟩

/-- the bound is attained: the demo segment of `Thm/Chain.lean` (`rel = 10`, garbage bytes that
    are valid SAME characters) reports its burst at tick `|lead| + |body| + rel + 31` exactly -/
theorem demoSeg_burst_tick :
    (lrun ⟨2, ⟨2, 5⟩⟩ { nsym := 32 } demoSeg.ticks)[demoSeg.lead.length + demoSeg.body.length
        + demoSeg.rel + 31]? = some (.burst (C01.demoHeader ++ [0x41, 0x41])) := by
  decide +kernel

/-- the framer may end the burst EARLIER (too many invalid bytes): the same segment with the
    invalid garbage byte `0x00` and `rel = 60`; with `maxInvalid = 5` the sixth invalid byte, at
    tail tick `31 + 8·5 = 71 < rel + 31 = 91`, ends the burst -/
theorem early_end_witness :
    (lrun ⟨2, ⟨2, 5⟩⟩ { nsym := 32 }
      (C01.demoLead 40 ++ C01.demoBody C01.demoHeader 5 0x00 ++ C01.demoTail C01.demoHeader 60 0x00))[40
        + (C01.demoBody C01.demoHeader 5 0x00).length + 71]?
      = some (.burst (C01.demoHeader ++ [0, 0, 0, 0, 0])) := by
  decide +kernel

/-! ## L2, L3 — the whole transmission -/

/-- the conclusion of the latency theorems.  `L`: the link model's per-tick output.  The second
    and third header burst and the first and second trailer burst are reported at ticks `b2 b3 b4
    b5` within the given windows; from tick `c3` (the adjusting sync hit of the third header burst)
    to `b3` the link is busy (no `.noCarrier`); exactly two message events:
    * StartOfMessage (text exactly `H`) carrying the sample of tick `i`, where EITHER `i` is a
      `.noCarrier` tick with `b2 + HOLD ≤ i < b3` (`voting = 0`), OR there is no such tick and
      `i = b3 + HOLD` (`voting = |H|`);
    * EndOfMessage carrying the sample of tick `j`, the tick of the second trailer burst if the
      first comes less than a history time after the third header burst, else of the first. -/
def TimedFull (evs : List Event) (samples : Nat → Nat) (L : List LinkSt) (H : List Byte) (off : Nat)
    (lo2 hi2 c3 lo3 hi3 lo4 hi4 lo5 hi5 : Nat) : Prop :=
  ∃ b2 b3 b4 b5 i j h t2 t3 x1 x2,
    (lo2 ≤ b2 ∧ b2 ≤ hi2 ∧ L[b2]? = some (.burst (H ++ t2)))
    ∧ (lo3 ≤ b3 ∧ b3 ≤ hi3 ∧ L[b3]? = some (.burst (H ++ t3)))
    ∧ (∀ k, c3 ≤ k → k < b3 → L[k]? ≠ some .noCarrier)
    ∧ (lo4 ≤ b4 ∧ b4 ≤ hi4 ∧ L[b4]? = some (.burst (litNNNN ++ x1)))
    ∧ (lo5 ≤ b5 ∧ b5 ≤ hi5 ∧ L[b5]? = some (.burst (litNNNN ++ x2)))
    ∧ msgEvents evs = [(samples i, .ok (.som h)), (samples j, .ok .eom)]
    ∧ h.text = H ∧ h.offsetTime = off ∧ h.parity = 0
    ∧ j = (if b4 < b3 + HIST then b5 else b4)
    ∧ ((h.voting = 0 ∧ b2 + HOLD ≤ i ∧ i < b3 ∧ L[i]? = some .noCarrier)
      ∨ (h.voting = H.length ∧ i = b3 + HOLD
          ∧ ∀ k, b2 + HOLD ≤ k → k < b3 → L[k]? ≠ some .noCarrier))

/-- the windows of `TimedFull` may be widened -/
theorem TimedFull.mono {evs : List Event} {samples : Nat → Nat} {L : List LinkSt} {H : List Byte}
    {off lo2 hi2 c3 lo3 hi3 lo4 hi4 lo5 hi5 lo2' hi2' c3' lo3' hi3' lo4' hi4' lo5' hi5' : Nat}
    (h : TimedFull evs samples L H off lo2 hi2 c3 lo3 hi3 lo4 hi4 lo5 hi5)
    (a2 : lo2' ≤ lo2) (c2 : hi2 ≤ hi2') (cc : c3 ≤ c3') (a3 : lo3' ≤ lo3) (c3 : hi3 ≤ hi3')
    (a4 : lo4' ≤ lo4) (c4 : hi4 ≤ hi4') (a5 : lo5' ≤ lo5) (c5 : hi5 ≤ hi5') :
    TimedFull evs samples L H off lo2' hi2' c3' lo3' hi3' lo4' hi4' lo5' hi5' := by
  obtain ⟨b2, b3, b4, b5, i, j, hh, t2, t3, x1, x2, ⟨p1, p2, p3⟩, ⟨q1, q2, q3⟩, hbusy, ⟨r1, r2, r3⟩,
    ⟨s1, s2, s3⟩, rest⟩ := h
  exact ⟨b2, b3, b4, b5, i, j, hh, t2, t3, x1, x2, ⟨by omega, by omega, p3⟩, ⟨by omega, by omega, q3⟩,
    fun k hk1 hk2 => hbusy k (by omega) hk2,
    ⟨by omega, by omega, r3⟩, ⟨by omega, by omega, s3⟩, rest⟩

/-- **The chain with the timing, from the link model's per-tick output.**  Six stretches with the
    timed output `SegOutT` (three of `H`, three of `NNNN`), then `n` `.noCarrier` ticks; the first
    `HOLD` ticks of the fourth stretch — part of its lead-in — are `.noCarrier`; in the third
    stretch the link is busy from its tick `q3` to its burst (`BusyFrom`; void for
    `q3 = |L3|`).  The receiver starts in `{}`. -/
theorem full_of_link_outputT (rate sym0 smax : Nat) (samples : Nat → Nat) (H : List Byte) (off : Nat)
    (hcan : checkHeader H = some (off, H.length))
    (hall : ∀ b ∈ H, isAllowed b = true)
    (hfit : H.length ≤ MAXLEN)
    (g1 g2 g3 g4 g5 g6 : Seg) (t1 t2 t3 e1 e2 e3 : List Byte) (L1 L2 L3 L4 L5 L6 : List LinkSt)
    (n : Nat)
    (o1 : SegOutT g1 H t1 L1) (o2 : SegOutT g2 H t2 L2) (o3 : SegOutT g3 H t3 L3)
    (o4 : SegOutT g4 litNNNN e1 L4) (o5 : SegOutT g5 litNNNN e2 L5) (o6 : SegOutT g6 litNNNN e3 L6)
    (hlead : HOLD ≤ g4.lead.length) (hnc : ∀ j, j < HOLD → L4[j]? = some .noCarrier)
    (q3 : Nat) (hbusy : BusyFrom L3 q3)
    (hspanH : g1.tail.length + g2.ticks.length + g3.ticks.length ≤ HIST)
    (hspanT : g4.tail.length + g5.ticks.length + g6.ticks.length ≤ HIST)
    (htd : TailsNoDash H t1 t2 t3) (hshort : e1.length + 4 ≤ H.length)
    (hsamp : ∀ i, i < (L1 ++ L2 ++ L3 ++ L4 ++ L5 ++ L6 ++ List.replicate n LinkSt.noCarrier).length →
      samples i ≤ smax ∧ smax ≤ samples i + TIMEOUT rate) :
    TimedFull (rRun rate {} (mkTicks samples sym0 0
        (L1 ++ L2 ++ L3 ++ L4 ++ L5 ++ L6 ++ List.replicate n LinkSt.noCarrier))).2 samples
      (L1 ++ L2 ++ L3 ++ L4 ++ L5 ++ L6 ++ List.replicate n LinkSt.noCarrier) H off
      (L1.length + (g2.lead.length + g2.body.length + 31))
      (L1.length + (g2.lead.length + g2.body.length + g2.rel + 31))
      ((L1 ++ L2).length + q3)
      ((L1 ++ L2).length + (g3.lead.length + g3.body.length + 31))
      ((L1 ++ L2).length + (g3.lead.length + g3.body.length + g3.rel + 31))
      ((L1 ++ L2 ++ L3).length + (g4.lead.length + g4.body.length + 31))
      ((L1 ++ L2 ++ L3).length + (g4.lead.length + g4.body.length + g4.rel + 31))
      ((L1 ++ L2 ++ L3 ++ L4).length + (g5.lead.length + g5.body.length + 31))
      ((L1 ++ L2 ++ L3 ++ L4).length + (g5.lead.length + g5.body.length + g5.rel + 31)) := by
  have hHOLD := HOLD_pos
  obtain ⟨pre1, m1, h1, np1, lo1, hi1⟩ := o1.split
  obtain ⟨pre2, m2, h2, np2, lo2, hi2⟩ := o2.split
  obtain ⟨pre3, m3, h3, np3, lo3, hi3⟩ := o3.split
  obtain ⟨pre4, m4, h4, np4, lo4, hi4⟩ := o4.split
  obtain ⟨pre5, m5, h5, np5, lo5, hi5⟩ := o5.split
  obtain ⟨pre6, m6, h6, np6, lo6, hi6⟩ := o6.split
  -- lengths
  have l1 : L1.length = pre1.length + 1 + m1 := by
    rw [h1, List.length_append, List.length_cons, List.length_replicate]; omega
  have l2 : L2.length = pre2.length + 1 + m2 := by
    rw [h2, List.length_append, List.length_cons, List.length_replicate]; omega
  have l3 : L3.length = pre3.length + 1 + m3 := by
    rw [h3, List.length_append, List.length_cons, List.length_replicate]; omega
  have l4 : L4.length = pre4.length + 1 + m4 := by
    rw [h4, List.length_append, List.length_cons, List.length_replicate]; omega
  have l5 : L5.length = pre5.length + 1 + m5 := by
    rw [h5, List.length_append, List.length_cons, List.length_replicate]; omega
  have l6 : L6.length = pre6.length + 1 + m6 := by
    rw [h6, List.length_append, List.length_cons, List.length_replicate]; omega
  have k1 := o1.len
  have k2 := o2.len
  have k3 := o3.len
  have k4 := o4.len
  have k5 := o5.len
  have k6 := o6.len
  have ht1 : g1.ticks.length = g1.lead.length + g1.body.length + g1.tail.length := by
    simp only [Seg.ticks, List.length_append]
  have ht4 : g4.ticks.length = g4.lead.length + g4.body.length + g4.tail.length := by
    simp only [Seg.ticks, List.length_append]
  -- the burst-free stretches
  obtain ⟨P1, hP1⟩ : ∃ P, P = List.replicate m1 LinkSt.noCarrier ++ pre2 := ⟨_, rfl⟩
  obtain ⟨P2, hP2⟩ : ∃ P, P = List.replicate m2 LinkSt.noCarrier ++ pre3 := ⟨_, rfl⟩
  obtain ⟨P3, hP3⟩ : ∃ P, P = List.replicate m3 LinkSt.noCarrier ++ pre4 := ⟨_, rfl⟩
  obtain ⟨P4, hP4⟩ : ∃ P, P = List.replicate m4 LinkSt.noCarrier ++ pre5 := ⟨_, rfl⟩
  obtain ⟨P5, hP5⟩ : ∃ P, P = List.replicate m5 LinkSt.noCarrier ++ pre6 := ⟨_, rfl⟩
  obtain ⟨P6, hP6⟩ : ∃ P, P = List.replicate m6 LinkSt.noCarrier ++ List.replicate n LinkSt.noCarrier :=
    ⟨_, rfl⟩
  have nP1 : NoBurst P1 := by rw [hP1]; exact noBurst_append _ _ (noBurst_replicate _) np2
  have nP2 : NoBurst P2 := by rw [hP2]; exact noBurst_append _ _ (noBurst_replicate _) np3
  have nP3 : NoBurst P3 := by rw [hP3]; exact noBurst_append _ _ (noBurst_replicate _) np4
  have nP4 : NoBurst P4 := by rw [hP4]; exact noBurst_append _ _ (noBurst_replicate _) np5
  have nP5 : NoBurst P5 := by rw [hP5]; exact noBurst_append _ _ (noBurst_replicate _) np6
  have nP6 : NoBurst P6 := by
    rw [hP6]; exact noBurst_append _ _ (noBurst_replicate _) (noBurst_replicate _)
  have lP1 : P1.length = m1 + pre2.length := by rw [hP1, List.length_append, List.length_replicate]
  have lP2 : P2.length = m2 + pre3.length := by rw [hP2, List.length_append, List.length_replicate]
  have lP3 : P3.length = m3 + pre4.length := by rw [hP3, List.length_append, List.length_replicate]
  have lP4 : P4.length = m4 + pre5.length := by rw [hP4, List.length_append, List.length_replicate]
  have lP5 : P5.length = m5 + pre6.length := by rw [hP5, List.length_append, List.length_replicate]
  have lP6 : P6.length = m6 + n := by rw [hP6, List.length_append, List.length_replicate, List.length_replicate]
  -- the release poll: tick `HOLD - 1` of the stretch between the third header burst and the first
  -- trailer burst
  have hP3nc : P3[HOLD - 1]? = some .noCarrier := by
    rw [hP3]
    by_cases hlt : HOLD - 1 < m3
    · rw [List.getElem?_append_left (by rw [List.length_replicate]; exact hlt),
        List.getElem?_replicate, if_pos hlt]
    · rw [List.getElem?_append_right (by rw [List.length_replicate]; omega), List.length_replicate]
      have := hnc (HOLD - 1 - m3) (by omega)
      rwa [h4, List.getElem?_append_left (by omega)] at this
  obtain ⟨A, B, hAB, hA⟩ := split_at_getElem? P3 (HOLD - 1) _ hP3nc
  have lAB : P3.length = A.length + 1 + B.length := by
    rw [hAB, List.length_append, List.length_cons]; omega
  have nA : NoBurst A := fun ls hls => nP3 ls (by rw [hAB]; exact List.mem_append_left _ hls)
  have nB : NoBurst B := fun ls hls =>
    nP3 ls (by rw [hAB]; exact List.mem_append_right _ (List.mem_cons_of_mem _ hls))
  -- the whole list, cut
  have hL : L1 ++ L2 ++ L3 ++ L4 ++ L5 ++ L6 ++ List.replicate n LinkSt.noCarrier
      = pre1 ++ .burst (H ++ t1) :: (P1 ++ .burst (H ++ t2) :: (P2 ++ .burst (H ++ t3) ::
        (A ++ .noCarrier :: (B ++ .burst (litNNNN ++ e1) :: (P4 ++ .burst (litNNNN ++ e2) ::
        (P5 ++ .burst (litNNNN ++ e3) :: P6)))))) := by
    have : A ++ LinkSt.noCarrier :: (B ++ LinkSt.burst (litNNNN ++ e1) :: (P4 ++ .burst (litNNNN ++ e2) ::
        (P5 ++ .burst (litNNNN ++ e3) :: P6)))
        = P3 ++ LinkSt.burst (litNNNN ++ e1) :: (P4 ++ .burst (litNNNN ++ e2) ::
        (P5 ++ .burst (litNNNN ++ e3) :: P6)) := by
      rw [hAB]; simp only [List.append_assoc, List.cons_append]
    rw [this, h1, h2, h3, h4, h5, h6, hP1, hP2, hP3, hP4, hP5, hP6]
    simp only [List.append_assoc, List.cons_append]
  generalize hLL : L1 ++ L2 ++ L3 ++ L4 ++ L5 ++ L6 ++ List.replicate n LinkSt.noCarrier = L at hL hsamp ⊢
  have lL12 : (L1 ++ L2).length = L1.length + L2.length := List.length_append
  have lL123 : (L1 ++ L2 ++ L3).length = L1.length + L2.length + L3.length := by
    simp only [List.length_append]
  have lL1234 : (L1 ++ L2 ++ L3 ++ L4).length = L1.length + L2.length + L3.length + L4.length := by
    simp only [List.length_append]
  obtain ⟨i, j, h, hev, hx1, hx2, hx3, hj, hi⟩ := full_of_split rate sym0 smax samples H off hcan hall hfit
    t1 t2 t3 e1 e2 e3 pre1 P1 P2 A B P4 P5 P6 np1 nP1 nP2 nA nB nP4 nP5 nP6
    pre1.length (pre1.length + 1 + P1.length) (pre1.length + 1 + P1.length + 1 + P2.length)
    (pre1.length + 1 + P1.length + 1 + P2.length + 1 + A.length)
    (pre1.length + 1 + P1.length + 1 + P2.length + 1 + A.length + 1 + B.length)
    (pre1.length + 1 + P1.length + 1 + P2.length + 1 + A.length + 1 + B.length + 1 + P4.length)
    (pre1.length + 1 + P1.length + 1 + P2.length + 1 + A.length + 1 + B.length + 1 + P4.length + 1
      + P5.length)
    rfl rfl rfl rfl rfl rfl rfl L hL (by omega)
    (by
      intro j hj hc
      have := (List.getElem?_eq_some_iff.1 hc).1
      omega)
    (by omega) (by omega) htd hshort hsamp
  obtain ⟨s2, s3, s4, s5⟩ := split_bursts pre1 P1 P2 A B P4 P5 P6 L hL
  refine ⟨pre1.length + 1 + P1.length, pre1.length + 1 + P1.length + 1 + P2.length,
    pre1.length + 1 + P1.length + 1 + P2.length + 1 + A.length + 1 + B.length,
    pre1.length + 1 + P1.length + 1 + P2.length + 1 + A.length + 1 + B.length + 1 + P4.length,
    i, j, h, t2, t3, e1, e2, ⟨by omega, by omega, s2⟩, ⟨by omega, by omega, ?_⟩, ?_,
    ⟨by omega, by omega, ?_⟩, ⟨by omega, by omega, ?_⟩, hev, hx1, hx2, hx3, hj, ?_⟩
  · rw [← s3]; congr 1; omega
  · -- the link is busy from the sync tick of the third header burst to its burst tick
    intro k hk1 hk2 hk
    obtain ⟨t, rfl⟩ : ∃ t, k = pre1.length + 1 + (P1.length + 1 + (m2 + t)) :=
      ⟨k - (L1 ++ L2).length, by omega⟩
    have htl : t < pre3.length := by omega
    have hpre : ∀ j, j < pre3.length → L3[j]? = pre3[j]? := by
      intro j hj; rw [h3, List.getElem?_append_left hj]
    rw [hL, getElem?_skip, getElem?_skip, List.getElem?_append_left (by omega), hP2,
      List.getElem?_append_right (by rw [List.length_replicate]; omega), List.length_replicate,
      show m2 + t - m2 = t by omega, ← hpre t htl] at hk
    refine hbusy t (by omega) ?_ hk
    intro j hj b hb
    rw [hpre j (by omega)] at hb
    exact np3 _ (List.mem_of_getElem? hb) b rfl
  · rw [← s4]; congr 1; omega
  · rw [← s5]; congr 1; omega
  · rcases hi with hi | ⟨hv, hi, hno⟩
    · exact Or.inl hi
    · exact Or.inr ⟨hv, by omega, hno⟩

/-- **The chain with the timing, from six delivered bursts** (`transmission_full_g` with the
    timing facts `TimingAll`, and `SegBusy` for the third header burst — void for
    `q3 = |body| + |tail|`). -/
theorem transmission_full_timed (c : LCfg)
    (rate sym0 smax : Nat) (samples : Nat → Nat) (H : List Byte) (off : Nat)
    (hcan : checkHeader H = some (off, H.length))
    (hall : ∀ b ∈ H, isAllowed b = true)
    (hfits : H.length ≤ Gen.MAX_BURST_LENGTH)
    (g1 g2 g3 g4 g5 g6 : Seg) (quiet : List Tick) (ls0 : LState)
    (hd : DeliversAll c ls0 [(H, g1), (H, g2), (H, g3), (litNNNN, g4), (litNNNN, g5), (litNNNN, g6)])
    (ht : TimingAll c ls0 [(H, g1), (H, g2), (H, g3), (litNNNN, g4), (litNNNN, g5), (litNNNN, g6)])
    (hq : QuietNoHit c (lrunState c ls0 (g1.ticks ++ g2.ticks ++ g3.ticks ++ g4.ticks ++ g5.ticks
      ++ g6.ticks)) quiet)
    (hlead : HOLD ≤ g4.lead.length)
    (hgap : QuietNoHit c (lrunState c ls0 (g1.ticks ++ g2.ticks ++ g3.ticks)) (g4.ticks.take HOLD))
    (q3 : Nat) (hb3 : SegBusy c (lrunState c (lrunState c ls0 g1.ticks) g2.ticks) g3 q3)
    (hspanH : g1.tail.length + g2.ticks.length + g3.ticks.length ≤ HIST)
    (hspanT : g4.tail.length + g5.ticks.length + g6.ticks.length ≤ HIST)
    (hshort : (g4.rel + 7) / 8 + 4 ≤ H.length)
    (htails : ∀ t1 t2 t3 x1 x2 x3, t1.length ≤ (g1.rel + 7) / 8 → t2.length ≤ (g2.rel + 7) / 8 →
      t3.length ≤ (g3.rel + 7) / 8 →
      lrunBursts c ls0 (g1.ticks ++ g2.ticks ++ g3.ticks ++ g4.ticks ++ g5.ticks ++ g6.ticks ++ quiet)
        = [H ++ t1, H ++ t2, H ++ t3, litNNNN ++ x1, litNNNN ++ x2, litNNNN ++ x3] →
      TailsNoDash H t1 t2 t3)
    (hsamp : ∀ i, i < (g1.ticks ++ g2.ticks ++ g3.ticks ++ g4.ticks ++ g5.ticks ++ g6.ticks
      ++ quiet).length → samples i ≤ smax ∧ smax ≤ samples i + TIMEOUT rate) :
    TimedFull (chain c rate ls0 {} sym0 samples
        (g1.ticks ++ g2.ticks ++ g3.ticks ++ g4.ticks ++ g5.ticks ++ g6.ticks ++ quiet)) samples
      (lrun c ls0 (g1.ticks ++ g2.ticks ++ g3.ticks ++ g4.ticks ++ g5.ticks ++ g6.ticks ++ quiet)) H off
      (g1.ticks.length + (g2.lead.length + g2.body.length + 31))
      (g1.ticks.length + (g2.lead.length + g2.body.length + g2.rel + 31))
      (g1.ticks.length + g2.ticks.length + (g3.lead.length + q3))
      (g1.ticks.length + g2.ticks.length + (g3.lead.length + g3.body.length + 31))
      (g1.ticks.length + g2.ticks.length + (g3.lead.length + g3.body.length + g3.rel + 31))
      (g1.ticks.length + g2.ticks.length + g3.ticks.length + (g4.lead.length + g4.body.length + 31))
      (g1.ticks.length + g2.ticks.length + g3.ticks.length
        + (g4.lead.length + g4.body.length + g4.rel + 31))
      (g1.ticks.length + g2.ticks.length + g3.ticks.length + g4.ticks.length
        + (g5.lead.length + g5.body.length + 31))
      (g1.ticks.length + g2.ticks.length + g3.ticks.length + g4.ticks.length
        + (g5.lead.length + g5.body.length + g5.rel + 31)) := by
  have hHOLD := HOLD_pos
  have hH1 : HOLD - 1 + 1 = HOLD := by omega
  have ht4 : g4.ticks.length = g4.lead.length + g4.body.length + g4.tail.length := by
    simp only [Seg.ticks, List.length_append]
  obtain ⟨t1, t2, t3, x1, x2, x3, L1, L2, L3, L4, L5, L6, hrun, o1, o2, o3, o4, o5, o6, hnc, hb, hL3⟩ :=
    six_deliveredT c H g1 g2 g3 g4 g5 g6 quiet ls0 hd ht hq (HOLD - 1) (by omega)
      (by rw [hH1]; exact hgap)
  have htd := htails t1 t2 t3 x1 x2 x3 o1.tail_len o2.tail_len o3.tail_len hb
  have hlen : (g1.ticks ++ g2.ticks ++ g3.ticks ++ g4.ticks ++ g5.ticks ++ g6.ticks ++ quiet).length
      = (L1 ++ L2 ++ L3 ++ L4 ++ L5 ++ L6 ++ List.replicate quiet.length LinkSt.noCarrier).length := by
    rw [← hrun, lrun_length]
  have hfit : H.length ≤ MAXLEN := by
    have : Gen.MAX_BURST_LENGTH ≤ MAXLEN := by decide
    omega
  have hx1 := o4.tail_len
  have := full_of_link_outputT rate sym0 smax samples H off hcan hall hfit g1 g2 g3 g4 g5 g6
    t1 t2 t3 x1 x2 x3 L1 L2 L3 L4 L5 L6 quiet.length o1 o2 o3 o4 o5 o6 hlead
    (fun j hj => hnc j (by omega)) (g3.lead.length + q3)
    (by rw [hL3]; exact busyFrom_of_segBusy c _ g3 q3 hb3) hspanH hspanT htd (by omega)
    (fun i hi => hsamp i (by rw [hlen]; exact hi))
  unfold chain chainTicks
  rw [hrun]
  have k1 := o1.len
  have k2 := o2.len
  have k3 := o3.len
  have k4 := o4.len
  refine this.mono ?_ ?_ ?_ ?_ ?_ ?_ ?_ ?_ ?_
  all_goals (try simp only [List.length_append])
  all_goals omega

/-- **C08 at model level: reporting latency of the whole transmission, in symbol ticks.**
    Hypotheses: exactly those of `stream_full2` (six bursts on one tick stream meeting
    `Spec.StreamObserved2`, the `HOLD` ticks after the third header burst's minimal tail without a
    potential sync hit and before the first trailer burst, each group of three bursts within one
    history time, header tails not voting to `-`, …).  `L = lrun c {} stream`, the link model's
    per-tick output; `g.e` = first tick after the last transmitted bit of burst `g`.

    * L1: the `.burst` ticks `b2 b3 b4 b5` of the second and third header burst and the first and
      second trailer burst satisfy `g.e + 31 ≤ b ≤ g.e + g.rel + 31`.
      From the adjusting sync hit of the third header burst (`g3.c = g3.o + g3.sync`) to `b3`
      the link reports no `.noCarrier`.
    * L2: StartOfMessage (text exactly `H`) carries the sample of tick `i`; EITHER `i` is a
      `.noCarrier` tick with `b2 + HOLD ≤ i < b3` (released after two bursts, `voting = 0`) OR no
      such tick exists and `i = b3 + HOLD` exactly (`voting = |H|`).
    * L3: EndOfMessage carries the sample of tick `j = b5` (if `b4 < b3 + HIST`) or `j = b4`. -/
theorem stream_full2_latency (c : LCfg) (hE : c.maxErrors ≤ 6) (hP4 : c.fc.maxPrefixErr ≤ 4)
    (rate sym0 smax : Nat) (samples : Nat → Nat) (H : List Byte) (off : Nat)
    (hcan : checkHeader H = some (off, H.length))
    (hall : ∀ b ∈ H, isAllowed b = true)
    (hfits : H.length ≤ Gen.MAX_BURST_LENGTH)
    (stream : List Tick) (g1 g2 g3 e1 e2 e3 : BurstSpec2)
    (hp1 : g1.payload = H) (hp2 : g2.payload = H) (hp3 : g3.payload = H)
    (hp4 : e1.payload = litNNNN) (hp5 : e2.payload = litNNNN) (hp6 : e3.payload = litNNNN)
    (hobs : StreamObserved2 c.maxErrors stream [g1, g2, g3, e1, e2, e3])
    (hgapq : ∀ t, g3.stop ≤ t → t < g3.stop + HOLD →
      potHit c.maxErrors (fun i => stream.getD i dfltTick) t = false)
    (hgaplen : g3.stop + HOLD ≤ e1.o)
    (hspanH : g3.stop ≤ g1.e + HIST) (hspanT : e3.stop ≤ e1.e + HIST)
    (hshort : (e1.rel + 7) / 8 + 4 ≤ H.length)
    (htails : ∀ t1 t2 t3 x1 x2 x3, t1.length ≤ (g1.rel + 7) / 8 → t2.length ≤ (g2.rel + 7) / 8 →
      t3.length ≤ (g3.rel + 7) / 8 →
      lrunBursts c {} stream
        = [H ++ t1, H ++ t2, H ++ t3, litNNNN ++ x1, litNNNN ++ x2, litNNNN ++ x3] →
      TailsNoDash H t1 t2 t3)
    (hsamp : ∀ i, i < stream.length → samples i ≤ smax ∧ smax ≤ samples i + TIMEOUT rate) :
    TimedFull (chain c rate {} {} sym0 samples stream) samples (lrun c {} stream) H off
      (g2.e + 31) (g2.e + g2.rel + 31) g3.c (g3.e + 31) (g3.e + g3.rel + 31)
      (e1.e + 31) (e1.e + e1.rel + 31) (e2.e + 31) (e2.e + e2.rel + 31) := by
  have hP : c.fc.maxPrefixErr ≤ 7 := by omega
  have hc := payloadCond_of_header c H _ hcan hall hfits
  have hcN := payloadCond_trailer c hP4
  have hpc : ∀ g ∈ [g1, g2, g3, e1, e2, e3], PayloadCond c g.payload := by
    intro g hg
    simp only [List.mem_cons, List.not_mem_nil, or_false] at hg
    rcases hg with rfl | rfl | rfl | rfl | rfl | rfl
    · rw [hp1]; exact hc
    · rw [hp2]; exact hc
    · rw [hp3]; exact hc
    · rw [hp4]; exact hcN
    · rw [hp5]; exact hcN
    · rw [hp6]; exact hcN
  obtain ⟨s1, s2, s3, s4⟩ := C01t.stream_segments2 c hE hP stream [g1, g2, g3, e1, e2, e3] hobs hpc
  have sT := stream_timing2 c hE hP stream [g1, g2, g3, e1, e2, e3] hobs hpc
  have hLs : lastStop2 0 [g1, g2, g3, e1, e2, e3] = e3.stop := rfl
  rw [hLs] at s2 s3 s4
  simp only [segsOf2, List.flatMap_cons, List.flatMap_nil, List.append_nil] at s2
  simp only [segsOf2, hp1, hp2, hp3, hp4, hp5, hp6] at s1 sT
  -- ordering facts
  obtain ⟨_, tr1, _, _, ⟨ho2, _⟩, tr2, _, _, ⟨ho3, h323⟩, tr3, sy3, tl3, ⟨ho4, _⟩, tr4, _, _, ⟨ho5, _⟩, tr5,
    _, _, ⟨ho6, _⟩, tr6, _, _, _⟩ := hobs
  have hs1 : g1.stop ≤ stream.length := tr1.1
  have hs2 : g2.stop ≤ stream.length := tr2.1
  have hs3 : g3.stop ≤ stream.length := tr3.1
  have hs4 : e1.stop ≤ stream.length := tr4.1
  have hs5 : e2.stop ≤ stream.length := tr5.1
  have hle1 : g1.o ≤ g1.e ∧ g1.e ≤ g1.stop := by unfold BurstSpec2.e BurstSpec2.stop; omega
  have hle2 : g2.o ≤ g2.e ∧ g2.e ≤ g2.stop := by unfold BurstSpec2.e BurstSpec2.stop; omega
  have hle3 : g3.o ≤ g3.e ∧ g3.e ≤ g3.stop := by unfold BurstSpec2.e BurstSpec2.stop; omega
  have hle4 : e1.o ≤ e1.e ∧ e1.e ≤ e1.stop := by unfold BurstSpec2.e BurstSpec2.stop; omega
  have hle5 : e2.o ≤ e2.e ∧ e2.e ≤ e2.stop := by unfold BurstSpec2.e BurstSpec2.stop; omega
  have hle6 : e3.o ≤ e3.e ∧ e3.e ≤ e3.stop := by unfold BurstSpec2.e BurstSpec2.stop; omega
  -- the segments tile the stream
  have hk1 := segOf2_ticks stream 0 g1 (Nat.zero_le _)
  have hk2 := segOf2_ticks stream g1.stop g2 ho2
  have hk3 := segOf2_ticks stream g2.stop g3 ho3
  have hk4 := segOf2_ticks stream g3.stop e1 ho4
  have hk5 := segOf2_ticks stream e1.stop e2 ho5
  have hk6 := segOf2_ticks stream e2.stop e3 ho6
  have hstream : (segOf2 stream 0 g1).ticks ++ (segOf2 stream g1.stop g2).ticks
      ++ (segOf2 stream g2.stop g3).ticks ++ (segOf2 stream g3.stop e1).ticks
      ++ (segOf2 stream e1.stop e2).ticks ++ (segOf2 stream e2.stop e3).ticks
      ++ stream.drop e3.stop = stream := by
    rw [show (segOf2 stream 0 g1).ticks ++ (segOf2 stream g1.stop g2).ticks
        ++ (segOf2 stream g2.stop g3).ticks ++ (segOf2 stream g3.stop e1).ticks
        ++ (segOf2 stream e1.stop e2).ticks ++ (segOf2 stream e2.stop e3).ticks
      = (segOf2 stream 0 g1).ticks ++ ((segOf2 stream g1.stop g2).ticks ++
        ((segOf2 stream g2.stop g3).ticks ++ ((segOf2 stream g3.stop e1).ticks ++
        ((segOf2 stream e1.stop e2).ticks ++ (segOf2 stream e2.stop e3).ticks))))
      by simp only [List.append_assoc], ← s2, List.take_append_drop]
  have htake3 : (segOf2 stream 0 g1).ticks ++ (segOf2 stream g1.stop g2).ticks
      ++ (segOf2 stream g2.stop g3).ticks = stream.take g3.stop := by
    rw [hk1, hk2, hk3]
    have h0 := take_append_slice stream 0 g1.stop (Nat.zero_le _)
    rw [List.take_zero, List.nil_append] at h0
    rw [h0, take_append_slice _ _ _ (by omega), take_append_slice _ _ _ (by omega)]
  have hq' : QuietNoHit c (lrunState c {} ((segOf2 stream 0 g1).ticks ++ (segOf2 stream g1.stop g2).ticks
      ++ (segOf2 stream g2.stop g3).ticks ++ (segOf2 stream g3.stop e1).ticks
      ++ (segOf2 stream e1.stop e2).ticks ++ (segOf2 stream e2.stop e3).ticks)) (stream.drop e3.stop) := by
    have : (segOf2 stream 0 g1).ticks ++ (segOf2 stream g1.stop g2).ticks
        ++ (segOf2 stream g2.stop g3).ticks ++ (segOf2 stream g3.stop e1).ticks
        ++ (segOf2 stream e1.stop e2).ticks ++ (segOf2 stream e2.stop e3).ticks = stream.take e3.stop := by
      rw [s2]; simp only [List.append_assoc]
    rw [this]; exact s4
  have hgap : QuietNoHit c (lrunState c {} ((segOf2 stream 0 g1).ticks ++ (segOf2 stream g1.stop g2).ticks
      ++ (segOf2 stream g2.stop g3).ticks)) ((segOf2 stream g3.stop e1).ticks.take HOLD) := by
    rw [htake3, hk4]
    have : (slice stream g3.stop e1.stop).take HOLD = (stream.drop g3.stop).take HOLD := by
      unfold slice
      rw [List.take_take, show min HOLD (e1.stop - g3.stop) = HOLD by omega]
    rw [this]
    exact quiet_gap c stream g3.stop HOLD (by omega) (by omega) hgapq
  -- the link is busy from the adjusting sync hit of the third header burst
  have hst2 : lrunState c (lrunState c {} (segOf2 stream 0 g1).ticks) (segOf2 stream g1.stop g2).ticks
      = lrunState c {} (stream.take g2.stop) := by
    have h0 := take_append_slice stream 0 g1.stop (Nat.zero_le _)
    rw [List.take_zero, List.nil_append] at h0
    rw [← lrunState_append, hk1, hk2, h0, take_append_slice _ _ _ (by omega)]
  have hready2 : Ready (lrunState c {} (stream.take g2.stop)) := by
    rw [← hst2]
    obtain ⟨_, d2, _⟩ := s1
    obtain ⟨_, _, _, hq2⟩ := d2
    exact hq2.ready
  have hbusy3 : SegBusy c (lrunState c (lrunState c {} (segOf2 stream 0 g1).ticks)
      (segOf2 stream g1.stop g2).ticks) (segOf2 stream g2.stop g3) g3.sync := by
    rw [hst2]
    refine (segFacts_of_stream2 c hE hP stream g2.stop g3 (Or.inr ?_) hready2
      (hpc g3 (by simp)) ho3 h323 tr3 sy3 tl3).2
    unfold BurstSpec2.stop; omega
  have := transmission_full_timed c rate sym0 smax samples H off hcan hall hfits
    (segOf2 stream 0 g1) (segOf2 stream g1.stop g2) (segOf2 stream g2.stop g3)
    (segOf2 stream g3.stop e1) (segOf2 stream e1.stop e2) (segOf2 stream e2.stop e3)
    (stream.drop e3.stop) {} s1 sT hq'
    (by
      show HOLD ≤ (slice stream g3.stop e1.o).length
      rw [slice_length _ _ _ (by omega)]; omega)
    hgap g3.sync hbusy3
    (by
      rw [hk2, hk3, slice_length _ _ _ hs2, slice_length _ _ _ hs3]
      show (slice stream g1.e g1.stop).length + _ + _ ≤ _
      rw [slice_length _ _ _ hs1]
      omega)
    (by
      rw [hk5, hk6, slice_length _ _ _ hs5, slice_length _ _ _ s3]
      show (slice stream e1.e e1.stop).length + _ + _ ≤ _
      rw [slice_length _ _ _ hs4]
      omega)
    hshort
    (by rw [hstream]; exact htails)
    (by rw [hstream]; exact hsamp)
  rw [hstream] at this
  have q1 : (segOf2 stream 0 g1).ticks.length = g1.stop := by rw [hk1, slice_length _ _ _ hs1]; omega
  have q2 : (segOf2 stream g1.stop g2).ticks.length = g2.stop - g1.stop := by
    rw [hk2, slice_length _ _ _ hs2]
  have q3 : (segOf2 stream g2.stop g3).ticks.length = g3.stop - g2.stop := by
    rw [hk3, slice_length _ _ _ hs3]
  have q4 : (segOf2 stream g3.stop e1).ticks.length = e1.stop - g3.stop := by
    rw [hk4, slice_length _ _ _ hs4]
  have r2 : (segOf2 stream g1.stop g2).lead.length = g2.o - g1.stop
      ∧ (segOf2 stream g1.stop g2).body.length = g2.e - g2.o ∧ (segOf2 stream g1.stop g2).rel = g2.rel :=
    ⟨slice_length _ _ _ (by omega), slice_length _ _ _ (by omega), rfl⟩
  have r3 : (segOf2 stream g2.stop g3).lead.length = g3.o - g2.stop
      ∧ (segOf2 stream g2.stop g3).body.length = g3.e - g3.o ∧ (segOf2 stream g2.stop g3).rel = g3.rel :=
    ⟨slice_length _ _ _ (by omega), slice_length _ _ _ (by omega), rfl⟩
  have r4 : (segOf2 stream g3.stop e1).lead.length = e1.o - g3.stop
      ∧ (segOf2 stream g3.stop e1).body.length = e1.e - e1.o ∧ (segOf2 stream g3.stop e1).rel = e1.rel :=
    ⟨slice_length _ _ _ (by omega), slice_length _ _ _ (by omega), rfl⟩
  have r5 : (segOf2 stream e1.stop e2).lead.length = e2.o - e1.stop
      ∧ (segOf2 stream e1.stop e2).body.length = e2.e - e2.o ∧ (segOf2 stream e1.stop e2).rel = e2.rel :=
    ⟨slice_length _ _ _ (by omega), slice_length _ _ _ (by omega), rfl⟩
  have hc3 : g3.c = g3.o + g3.sync := rfl
  refine this.mono ?_ ?_ ?_ ?_ ?_ ?_ ?_ ?_ ?_ <;> omega

/-! ## the bounds alone -/

/-- what `TimedFull` says about the event ticks in bounds alone (`lo2 ≤ lo3`, `hi4 < lo5`: the windows
    are in order):
    * StartOfMessage: `lo2 + HOLD ≤ i ≤ hi3 + HOLD`; if the link is already busy with the third
      burst when the hold of the second could first expire (`c3 ≤ lo2 + HOLD`) it is the
      three-burst release, `lo3 + HOLD ≤ i`;
    * EndOfMessage: `lo4 ≤ j ≤ hi5`; in the far zone `j ≤ hi4`, in the near and mid zone `lo5 ≤ j`. -/
theorem TimedFull.bounds {evs : List Event} {samples : Nat → Nat} {L : List LinkSt} {H : List Byte}
    {off lo2 hi2 c3 lo3 hi3 lo4 hi4 lo5 hi5 : Nat}
    (h : TimedFull evs samples L H off lo2 hi2 c3 lo3 hi3 lo4 hi4 lo5 hi5) (h23 : lo2 ≤ lo3)
    (h45 : hi4 < lo5) :
    ∃ i j hd, msgEvents evs = [(samples i, .ok (.som hd)), (samples j, .ok .eom)]
      ∧ hd.text = H ∧ hd.offsetTime = off ∧ hd.parity = 0 ∧ (hd.voting = 0 ∨ hd.voting = H.length)
      ∧ lo2 + HOLD ≤ i ∧ i ≤ hi3 + HOLD
      ∧ lo4 ≤ j ∧ j ≤ hi5
      ∧ (hi3 + HIST ≤ lo4 → j ≤ hi4)
      ∧ (hi4 < lo3 + HIST → lo5 ≤ j)
      ∧ (c3 ≤ lo2 + HOLD → lo3 + HOLD ≤ i ∧ hd.voting = H.length) := by
  obtain ⟨b2, b3, b4, b5, i, j, hd, t2, t3, x1, x2, ⟨p1, p2, _⟩, ⟨q1, q2, _⟩, hbusy, ⟨r1, r2, _⟩,
    ⟨s1, s2, _⟩, hev, hx1, hx2, hx3, hj, hi⟩ := h
  have hj1 : lo4 ≤ j ∧ j ≤ hi5 := by rw [hj]; split <;> omega
  have hj2 : hi3 + HIST ≤ lo4 → j ≤ hi4 := by
    intro hz; rw [hj, if_neg (by omega)]; exact r2
  have hj3 : hi4 < lo3 + HIST → lo5 ≤ j := by
    intro hz; rw [hj, if_pos (by omega)]; exact s1
  rcases hi with ⟨hv, i1, i2, i3⟩ | ⟨hv, i1, _⟩
  · refine ⟨i, j, hd, hev, hx1, hx2, hx3, Or.inl hv, by omega, by omega, hj1.1, hj1.2, hj2, hj3, ?_⟩
    intro hc
    exact absurd i3 (hbusy i (by omega) i2)
  · exact ⟨i, j, hd, hev, hx1, hx2, hx3, Or.inr hv, by omega, by omega, hj1.1, hj1.2, hj2, hj3,
      fun _ => ⟨by omega, hv⟩⟩

/-- **C08 at model level, the bounds.**  Hypotheses of `stream_full2`.  In symbol ticks, `g.e` the
    first tick after the last transmitted bit of burst `g`, `g.rel` the number of ticks the power
    stays above the close threshold afterwards:
    * StartOfMessage at a tick `i ≤ g3.e + g3.rel + 31 + HOLD` ("the hold plus burst-termination
      latency"); when the adjusting sync hit of the third burst comes no later than `HOLD` ticks
      after the earliest possible end of the second (`g3.c ≤ g2.e + 31 + HOLD`; always so with the
      standard one-second pause, `g3.c - g2.e ≤ 521 + 127`) also `g3.e + 31 + HOLD ≤ i`;
    * EndOfMessage at a tick `j ≤ e2.e + e2.rel + 31`, and `j ≤ e1.e + e1.rel + 31` in the far
      zone: as soon as the burst that establishes it has ended. -/
theorem stream_full2_bounds (c : LCfg) (hE : c.maxErrors ≤ 6) (hP4 : c.fc.maxPrefixErr ≤ 4)
    (rate sym0 smax : Nat) (samples : Nat → Nat) (H : List Byte) (off : Nat)
    (hcan : checkHeader H = some (off, H.length))
    (hall : ∀ b ∈ H, isAllowed b = true)
    (hfits : H.length ≤ Gen.MAX_BURST_LENGTH)
    (stream : List Tick) (g1 g2 g3 e1 e2 e3 : BurstSpec2)
    (hp1 : g1.payload = H) (hp2 : g2.payload = H) (hp3 : g3.payload = H)
    (hp4 : e1.payload = litNNNN) (hp5 : e2.payload = litNNNN) (hp6 : e3.payload = litNNNN)
    (hobs : StreamObserved2 c.maxErrors stream [g1, g2, g3, e1, e2, e3])
    (hgapq : ∀ t, g3.stop ≤ t → t < g3.stop + HOLD →
      potHit c.maxErrors (fun i => stream.getD i dfltTick) t = false)
    (hgaplen : g3.stop + HOLD ≤ e1.o)
    (hspanH : g3.stop ≤ g1.e + HIST) (hspanT : e3.stop ≤ e1.e + HIST)
    (hshort : (e1.rel + 7) / 8 + 4 ≤ H.length)
    (htails : ∀ t1 t2 t3 x1 x2 x3, t1.length ≤ (g1.rel + 7) / 8 → t2.length ≤ (g2.rel + 7) / 8 →
      t3.length ≤ (g3.rel + 7) / 8 →
      lrunBursts c {} stream
        = [H ++ t1, H ++ t2, H ++ t3, litNNNN ++ x1, litNNNN ++ x2, litNNNN ++ x3] →
      TailsNoDash H t1 t2 t3)
    (hsamp : ∀ i, i < stream.length → samples i ≤ smax ∧ smax ≤ samples i + TIMEOUT rate) :
    ∃ i j h, msgEvents (chain c rate {} {} sym0 samples stream)
          = [(samples i, .ok (.som h)), (samples j, .ok .eom)]
      ∧ h.text = H ∧ h.offsetTime = off ∧ h.parity = 0 ∧ (h.voting = 0 ∨ h.voting = H.length)
      ∧ g2.e + 31 + HOLD ≤ i ∧ i ≤ g3.e + g3.rel + 31 + HOLD
      ∧ e1.e + 31 ≤ j ∧ j ≤ e2.e + e2.rel + 31
      ∧ (g3.e + g3.rel + 31 + HIST ≤ e1.e + 31 → j ≤ e1.e + e1.rel + 31)
      ∧ (e1.e + e1.rel + 31 < g3.e + 31 + HIST → e2.e + 31 ≤ j)
      ∧ (g3.c ≤ g2.e + 31 + HOLD → g3.e + 31 + HOLD ≤ i ∧ h.voting = H.length) := by
  have ho : g2.stop ≤ g3.o ∧ e1.stop ≤ e2.o := by
    obtain ⟨_, _, _, _, _, _, _, _, ⟨ho3, _⟩, _, _, _, _, _, _, _, ⟨ho5, _⟩, _⟩ := hobs
    exact ⟨ho3, ho5⟩
  have h23 : g2.e + 31 ≤ g3.e + 31 := by
    have : g2.stop = g2.e + (g2.rel + 40) := rfl
    have : g3.o ≤ g3.e := by unfold BurstSpec2.e; omega
    omega
  have h45 : e1.e + e1.rel + 31 < e2.e + 31 := by
    have : e1.stop = e1.e + (e1.rel + 40) := rfl
    have : e2.o ≤ e2.e := by unfold BurstSpec2.e; omega
    omega
  exact (stream_full2_latency c hE hP4 rate sym0 smax samples H off hcan hall hfits stream g1 g2 g3
    e1 e2 e3 hp1 hp2 hp3 hp4 hp5 hp6 hobs hgapq hgaplen hspanH hspanT hshort htails hsamp).bounds h23
    h45

/-- when the link is already busy with the third burst when the hold of the second could first
    expire (`c3 ≤ lo2 + HOLD`), the closed form: StartOfMessage exactly `HOLD` ticks after the
    `.burst` tick of the third header burst -/
theorem TimedFull.three {evs : List Event} {samples : Nat → Nat} {L : List LinkSt} {H : List Byte}
    {off lo2 hi2 c3 lo3 hi3 lo4 hi4 lo5 hi5 : Nat}
    (h : TimedFull evs samples L H off lo2 hi2 c3 lo3 hi3 lo4 hi4 lo5 hi5) (hc : c3 ≤ lo2 + HOLD) :
    ∃ b3 t3 j hd, lo3 ≤ b3 ∧ b3 ≤ hi3 ∧ L[b3]? = some (.burst (H ++ t3))
      ∧ msgEvents evs = [(samples (b3 + HOLD), .ok (.som hd)), (samples j, .ok .eom)]
      ∧ hd.text = H ∧ hd.offsetTime = off ∧ hd.parity = 0 ∧ hd.voting = H.length := by
  obtain ⟨b2, b3, b4, b5, i, j, hd, t2, t3, x1, x2, ⟨p1, _, _⟩, ⟨q1, q2, q3⟩, hbusy, _, _, hev, hx1,
    hx2, hx3, _, hi⟩ := h
  rcases hi with ⟨_, i1, i2, i3⟩ | ⟨hv, rfl, _⟩
  · exact absurd i3 (hbusy i (by omega) i2)
  · exact ⟨b3, t3, j, hd, q1, q2, q3, hev, hx1, hx2, hx3, hv⟩

/-- **C08 at model level, the closed form.**  Hypotheses of `stream_full2`, and the adjusting sync
    hit of the third header burst no later than `HOLD` ticks after the earliest possible report of
    the second (`g3.c ≤ g2.e + 31 + HOLD`; with the standard one-second pause `g3.c - g2.e ≤ 521 +
    127 < 713`).  Then the StartOfMessage event carries the sample of tick `b3 + HOLD` EXACTLY,
    where `b3 ∈ [g3.e + 31, g3.e + g3.rel + 31]` is the tick at which the link model reports the
    third header burst — the documented hold plus the burst-termination latency — and it is the
    fully voted header. -/
theorem stream_full2_three (c : LCfg) (hE : c.maxErrors ≤ 6) (hP4 : c.fc.maxPrefixErr ≤ 4)
    (rate sym0 smax : Nat) (samples : Nat → Nat) (H : List Byte) (off : Nat)
    (hcan : checkHeader H = some (off, H.length))
    (hall : ∀ b ∈ H, isAllowed b = true)
    (hfits : H.length ≤ Gen.MAX_BURST_LENGTH)
    (stream : List Tick) (g1 g2 g3 e1 e2 e3 : BurstSpec2)
    (hp1 : g1.payload = H) (hp2 : g2.payload = H) (hp3 : g3.payload = H)
    (hp4 : e1.payload = litNNNN) (hp5 : e2.payload = litNNNN) (hp6 : e3.payload = litNNNN)
    (hobs : StreamObserved2 c.maxErrors stream [g1, g2, g3, e1, e2, e3])
    (hgapq : ∀ t, g3.stop ≤ t → t < g3.stop + HOLD →
      potHit c.maxErrors (fun i => stream.getD i dfltTick) t = false)
    (hgaplen : g3.stop + HOLD ≤ e1.o)
    (hspanH : g3.stop ≤ g1.e + HIST) (hspanT : e3.stop ≤ e1.e + HIST)
    (hshort : (e1.rel + 7) / 8 + 4 ≤ H.length)
    (htails : ∀ t1 t2 t3 x1 x2 x3, t1.length ≤ (g1.rel + 7) / 8 → t2.length ≤ (g2.rel + 7) / 8 →
      t3.length ≤ (g3.rel + 7) / 8 →
      lrunBursts c {} stream
        = [H ++ t1, H ++ t2, H ++ t3, litNNNN ++ x1, litNNNN ++ x2, litNNNN ++ x3] →
      TailsNoDash H t1 t2 t3)
    (hsamp : ∀ i, i < stream.length → samples i ≤ smax ∧ smax ≤ samples i + TIMEOUT rate)
    (hbusy : g3.c ≤ g2.e + 31 + HOLD) :
    ∃ b3 t3 j h, g3.e + 31 ≤ b3 ∧ b3 ≤ g3.e + g3.rel + 31
      ∧ (lrun c {} stream)[b3]? = some (.burst (H ++ t3))
      ∧ msgEvents (chain c rate {} {} sym0 samples stream)
          = [(samples (b3 + HOLD), .ok (.som h)), (samples j, .ok .eom)]
      ∧ h.text = H ∧ h.offsetTime = off ∧ h.parity = 0 ∧ h.voting = H.length :=
  (stream_full2_latency c hE hP4 rate sym0 smax samples H off hcan hall hfits stream g1 g2 g3
    e1 e2 e3 hp1 hp2 hp3 hp4 hp5 hp6 hobs hgapq hgaplen hspanH hspanT hshort htails hsamp).three hbusy

/-! ## the header alone: three bursts, then a quiet channel -/

/-- the conclusion of the header-only latency theorems: exactly one message event, the
    StartOfMessage (clauses as in `TimedFull`) -/
def TimedOnce (evs : List Event) (samples : Nat → Nat) (L : List LinkSt) (H : List Byte) (off : Nat)
    (lo2 hi2 c3 lo3 hi3 : Nat) : Prop :=
  ∃ b2 b3 i h t2 t3,
    (lo2 ≤ b2 ∧ b2 ≤ hi2 ∧ L[b2]? = some (.burst (H ++ t2)))
    ∧ (lo3 ≤ b3 ∧ b3 ≤ hi3 ∧ L[b3]? = some (.burst (H ++ t3)))
    ∧ (∀ k, c3 ≤ k → k < b3 → L[k]? ≠ some .noCarrier)
    ∧ msgEvents evs = [(samples i, .ok (.som h))]
    ∧ h.text = H ∧ h.offsetTime = off ∧ h.parity = 0
    ∧ ((h.voting = 0 ∧ b2 + HOLD ≤ i ∧ i < b3 ∧ L[i]? = some .noCarrier)
      ∨ (h.voting = H.length ∧ i = b3 + HOLD
          ∧ ∀ k, b2 + HOLD ≤ k → k < b3 → L[k]? ≠ some .noCarrier))

theorem TimedOnce.mono {evs : List Event} {samples : Nat → Nat} {L : List LinkSt} {H : List Byte}
    {off lo2 hi2 c3 lo3 hi3 lo2' hi2' c3' lo3' hi3' : Nat}
    (h : TimedOnce evs samples L H off lo2 hi2 c3 lo3 hi3)
    (a2 : lo2' ≤ lo2) (c2 : hi2 ≤ hi2') (cc : c3 ≤ c3') (a3 : lo3' ≤ lo3) (c3 : hi3 ≤ hi3') :
    TimedOnce evs samples L H off lo2' hi2' c3' lo3' hi3' := by
  obtain ⟨b2, b3, i, hh, t2, t3, ⟨p1, p2, p3⟩, ⟨q1, q2, q3⟩, hbusy, rest⟩ := h
  exact ⟨b2, b3, i, hh, t2, t3, ⟨by omega, by omega, p3⟩, ⟨by omega, by omega, q3⟩,
    fun k hk1 hk2 => hbusy k (by omega) hk2, rest⟩

/-- in bounds alone -/
theorem TimedOnce.bounds {evs : List Event} {samples : Nat → Nat} {L : List LinkSt} {H : List Byte}
    {off lo2 hi2 c3 lo3 hi3 : Nat}
    (h : TimedOnce evs samples L H off lo2 hi2 c3 lo3 hi3) (h23 : lo2 ≤ lo3) :
    ∃ i hd, msgEvents evs = [(samples i, .ok (.som hd))]
      ∧ hd.text = H ∧ hd.offsetTime = off ∧ hd.parity = 0 ∧ (hd.voting = 0 ∨ hd.voting = H.length)
      ∧ lo2 + HOLD ≤ i ∧ i ≤ hi3 + HOLD
      ∧ (c3 ≤ lo2 + HOLD → lo3 + HOLD ≤ i ∧ hd.voting = H.length) := by
  obtain ⟨b2, b3, i, hd, t2, t3, ⟨p1, p2, _⟩, ⟨q1, q2, _⟩, hbusy, hev, hx1, hx2, hx3, hi⟩ := h
  rcases hi with ⟨hv, i1, i2, i3⟩ | ⟨hv, i1, _⟩
  · refine ⟨i, hd, hev, hx1, hx2, hx3, Or.inl hv, by omega, by omega, ?_⟩
    intro hc
    exact absurd i3 (hbusy i (by omega) i2)
  · exact ⟨i, hd, hev, hx1, hx2, hx3, Or.inr hv, by omega, by omega, fun _ => ⟨by omega, hv⟩⟩

/-- the closed form, when the link is already busy with the third burst when the hold of the
    second could first expire -/
theorem TimedOnce.three {evs : List Event} {samples : Nat → Nat} {L : List LinkSt} {H : List Byte}
    {off lo2 hi2 c3 lo3 hi3 : Nat}
    (h : TimedOnce evs samples L H off lo2 hi2 c3 lo3 hi3) (hc : c3 ≤ lo2 + HOLD) :
    ∃ b3 t3 hd, lo3 ≤ b3 ∧ b3 ≤ hi3 ∧ L[b3]? = some (.burst (H ++ t3))
      ∧ msgEvents evs = [(samples (b3 + HOLD), .ok (.som hd))]
      ∧ hd.text = H ∧ hd.offsetTime = off ∧ hd.parity = 0 ∧ hd.voting = H.length := by
  obtain ⟨b2, b3, i, hd, t2, t3, ⟨p1, _, _⟩, ⟨q1, q2, q3⟩, hbusy, hev, hx1, hx2, hx3, hi⟩ := h
  rcases hi with ⟨_, i1, i2, i3⟩ | ⟨hv, rfl, _⟩
  · exact absurd i3 (hbusy i (by omega) i2)
  · exact ⟨b3, t3, hd, q1, q2, q3, hev, hx1, hx2, hx3, hv⟩

/-- **The header chain with the timing, from the link model's per-tick output**: three stretches
    with the timed output `SegOutT`, then `n ≥ HOLD` `.noCarrier` ticks. -/
theorem decoded_of_link_outputT (rate sym0 smax : Nat) (samples : Nat → Nat) (H : List Byte) (off : Nat)
    (hcan : checkHeader H = some (off, H.length))
    (hall : ∀ b ∈ H, isAllowed b = true)
    (hfit : H.length ≤ MAXLEN)
    (g1 g2 g3 : Seg) (t1 t2 t3 : List Byte) (L1 L2 L3 : List LinkSt) (n : Nat)
    (o1 : SegOutT g1 H t1 L1) (o2 : SegOutT g2 H t2 L2) (o3 : SegOutT g3 H t3 L3)
    (hn : HOLD ≤ n)
    (q3 : Nat) (hbusy : BusyFrom L3 q3)
    (hspan : g1.tail.length + g2.ticks.length + g3.ticks.length ≤ HIST)
    (htd : TailsNoDash H t1 t2 t3)
    (hsamp : ∀ i, i < (L1 ++ L2 ++ L3 ++ List.replicate n LinkSt.noCarrier).length →
      samples i ≤ smax ∧ smax ≤ samples i + TIMEOUT rate) :
    TimedOnce (rRun rate {} (mkTicks samples sym0 0
        (L1 ++ L2 ++ L3 ++ List.replicate n LinkSt.noCarrier))).2 samples
      (L1 ++ L2 ++ L3 ++ List.replicate n LinkSt.noCarrier) H off
      (L1.length + (g2.lead.length + g2.body.length + 31))
      (L1.length + (g2.lead.length + g2.body.length + g2.rel + 31))
      ((L1 ++ L2).length + q3)
      ((L1 ++ L2).length + (g3.lead.length + g3.body.length + 31))
      ((L1 ++ L2).length + (g3.lead.length + g3.body.length + g3.rel + 31)) := by
  have hHOLD := HOLD_pos
  obtain ⟨pre1, m1, h1, np1, lo1, hi1⟩ := o1.split
  obtain ⟨pre2, m2, h2, np2, lo2, hi2⟩ := o2.split
  obtain ⟨pre3, m3, h3, np3, lo3, hi3⟩ := o3.split
  have l1 : L1.length = pre1.length + 1 + m1 := by
    rw [h1, List.length_append, List.length_cons, List.length_replicate]; omega
  have l2 : L2.length = pre2.length + 1 + m2 := by
    rw [h2, List.length_append, List.length_cons, List.length_replicate]; omega
  have l3 : L3.length = pre3.length + 1 + m3 := by
    rw [h3, List.length_append, List.length_cons, List.length_replicate]; omega
  have k1 := o1.len
  have k2 := o2.len
  have k3 := o3.len
  have ht1 : g1.ticks.length = g1.lead.length + g1.body.length + g1.tail.length := by
    simp only [Seg.ticks, List.length_append]
  obtain ⟨P1, hP1⟩ : ∃ P, P = List.replicate m1 LinkSt.noCarrier ++ pre2 := ⟨_, rfl⟩
  obtain ⟨P2, hP2⟩ : ∃ P, P = List.replicate m2 LinkSt.noCarrier ++ pre3 := ⟨_, rfl⟩
  obtain ⟨P3, hP3⟩ : ∃ P, P = List.replicate m3 LinkSt.noCarrier ++ List.replicate n LinkSt.noCarrier :=
    ⟨_, rfl⟩
  have nP1 : NoBurst P1 := by rw [hP1]; exact noBurst_append _ _ (noBurst_replicate _) np2
  have nP2 : NoBurst P2 := by rw [hP2]; exact noBurst_append _ _ (noBurst_replicate _) np3
  have nP3 : NoBurst P3 := by
    rw [hP3]; exact noBurst_append _ _ (noBurst_replicate _) (noBurst_replicate _)
  have lP1 : P1.length = m1 + pre2.length := by rw [hP1, List.length_append, List.length_replicate]
  have lP2 : P2.length = m2 + pre3.length := by rw [hP2, List.length_append, List.length_replicate]
  have lP3 : P3.length = m3 + n := by
    rw [hP3, List.length_append, List.length_replicate, List.length_replicate]
  have hP3all : ∀ x ∈ P3, x = LinkSt.noCarrier := by
    intro x hx
    rw [hP3] at hx
    rcases List.mem_append.1 hx with hx | hx <;> exact (List.mem_replicate.1 hx).2
  have hP3nc : P3[HOLD - 1]? = some .noCarrier := by
    rw [List.getElem?_eq_getElem (by omega)]
    exact congrArg some (hP3all _ (List.getElem_mem _))
  obtain ⟨A, B, hAB, hA⟩ := split_at_getElem? P3 (HOLD - 1) _ hP3nc
  have nA : NoBurst A := fun ls hls => nP3 ls (by rw [hAB]; exact List.mem_append_left _ hls)
  have nB : NoBurst B := fun ls hls =>
    nP3 ls (by rw [hAB]; exact List.mem_append_right _ (List.mem_cons_of_mem _ hls))
  have hL : L1 ++ L2 ++ L3 ++ List.replicate n LinkSt.noCarrier
      = pre1 ++ .burst (H ++ t1) :: (P1 ++ .burst (H ++ t2) :: (P2 ++ .burst (H ++ t3) ::
        (A ++ .noCarrier :: B))) := by
    rw [← hAB, h1, h2, h3, hP1, hP2, hP3]
    simp only [List.append_assoc, List.cons_append]
  generalize hLL : L1 ++ L2 ++ L3 ++ List.replicate n LinkSt.noCarrier = L at hL hsamp ⊢
  have lL12 : (L1 ++ L2).length = L1.length + L2.length := List.length_append
  obtain ⟨i, h, hev, hx1, hx2, hx3, hi⟩ := decoded_of_split rate sym0 smax samples H off hcan hall hfit
    t1 t2 t3 pre1 P1 P2 A B np1 nP1 nP2 nA nB
    pre1.length (pre1.length + 1 + P1.length) (pre1.length + 1 + P1.length + 1 + P2.length)
    (pre1.length + 1 + P1.length + 1 + P2.length + 1 + A.length)
    rfl rfl rfl rfl L hL (by omega)
    (by
      intro j hj hc
      have := (List.getElem?_eq_some_iff.1 hc).1
      omega)
    (by omega) htd hsamp
  have s2 : L[pre1.length + 1 + P1.length]? = some (.burst (H ++ t2)) := by
    rw [hL, getElem?_skip, getElem?_at]
  have s3 : L[pre1.length + 1 + (P1.length + 1 + P2.length)]? = some (.burst (H ++ t3)) := by
    rw [hL, getElem?_skip, getElem?_skip, getElem?_at]
  refine ⟨pre1.length + 1 + P1.length, pre1.length + 1 + P1.length + 1 + P2.length,
    i, h, t2, t3, ⟨by omega, by omega, s2⟩, ⟨by omega, by omega, ?_⟩, ?_, hev, hx1, hx2, hx3, ?_⟩
  · rw [← s3]; congr 1; omega
  · intro k hk1 hk2 hk
    obtain ⟨t, rfl⟩ : ∃ t, k = pre1.length + 1 + (P1.length + 1 + (m2 + t)) :=
      ⟨k - (L1 ++ L2).length, by omega⟩
    have htl : t < pre3.length := by omega
    have hpre : ∀ j, j < pre3.length → L3[j]? = pre3[j]? := by
      intro j hj; rw [h3, List.getElem?_append_left hj]
    rw [hL, getElem?_skip, getElem?_skip, List.getElem?_append_left (by omega), hP2,
      List.getElem?_append_right (by rw [List.length_replicate]; omega), List.length_replicate,
      show m2 + t - m2 = t by omega, ← hpre t htl] at hk
    refine hbusy t (by omega) ?_ hk
    intro j hj b hb
    rw [hpre j (by omega)] at hb
    exact np3 _ (List.mem_of_getElem? hb) b rfl
  · rcases hi with hi | ⟨hv, hi, hno⟩
    · exact Or.inl hi
    · exact Or.inr ⟨hv, by omega, hno⟩

/-- **The header chain with the timing, from three delivered bursts** (`transmission_decoded_g`
    with the timing facts). -/
theorem transmission_decoded_timed (c : LCfg)
    (rate sym0 smax : Nat) (samples : Nat → Nat) (H : List Byte) (off : Nat)
    (hcan : checkHeader H = some (off, H.length))
    (hall : ∀ b ∈ H, isAllowed b = true)
    (hfits : H.length ≤ Gen.MAX_BURST_LENGTH)
    (g1 g2 g3 : Seg) (quiet : List Tick) (ls0 : LState)
    (d1 : Delivers c ls0 g1 H) (d2 : Delivers c (lrunState c ls0 g1.ticks) g2 H)
    (d3 : Delivers c (lrunState c (lrunState c ls0 g1.ticks) g2.ticks) g3 H)
    (u1 : SegTiming c ls0 g1) (u2 : SegTiming c (lrunState c ls0 g1.ticks) g2)
    (u3 : SegTiming c (lrunState c (lrunState c ls0 g1.ticks) g2.ticks) g3)
    (q3 : Nat) (hb3 : SegBusy c (lrunState c (lrunState c ls0 g1.ticks) g2.ticks) g3 q3)
    (hq : QuietNoHit c (lrunState c (lrunState c (lrunState c ls0 g1.ticks) g2.ticks) g3.ticks) quiet)
    (hqlen : HOLD ≤ quiet.length)
    (hspan : g1.tail.length + g2.ticks.length + g3.ticks.length ≤ HIST)
    (htails : ∀ t1 t2 t3, t1.length ≤ (g1.rel + 7) / 8 → t2.length ≤ (g2.rel + 7) / 8 →
      t3.length ≤ (g3.rel + 7) / 8 →
      lrunBursts c ls0 (transmission g1 g2 g3 quiet) = [H ++ t1, H ++ t2, H ++ t3] →
      TailsNoDash H t1 t2 t3)
    (hsamp : ∀ i, i < (transmission g1 g2 g3 quiet).length →
      samples i ≤ smax ∧ smax ≤ samples i + TIMEOUT rate) :
    TimedOnce (chain c rate ls0 {} sym0 samples (transmission g1 g2 g3 quiet)) samples
      (lrun c ls0 (transmission g1 g2 g3 quiet)) H off
      (g1.ticks.length + (g2.lead.length + g2.body.length + 31))
      (g1.ticks.length + (g2.lead.length + g2.body.length + g2.rel + 31))
      (g1.ticks.length + g2.ticks.length + (g3.lead.length + q3))
      (g1.ticks.length + g2.ticks.length + (g3.lead.length + g3.body.length + 31))
      (g1.ticks.length + g2.ticks.length + (g3.lead.length + g3.body.length + g3.rel + 31)) := by
  obtain ⟨t1, t2, t3, L1, L2, L3, hrun, o1, o2, o3, hb, hL3⟩ :=
    three_deliveredT c H g1 g2 g3 quiet ls0 d1 d2 d3 u1 u2 u3 hq
  have htd := htails t1 t2 t3 o1.tail_len o2.tail_len o3.tail_len hb
  have hlen : (transmission g1 g2 g3 quiet).length
      = (L1 ++ L2 ++ L3 ++ List.replicate quiet.length LinkSt.noCarrier).length := by
    rw [← hrun, lrun_length]; rfl
  have hfit : H.length ≤ MAXLEN := by
    have : Gen.MAX_BURST_LENGTH ≤ MAXLEN := by decide
    omega
  have := decoded_of_link_outputT rate sym0 smax samples H off hcan hall hfit g1 g2 g3 t1 t2 t3 L1 L2 L3
    quiet.length o1 o2 o3 hqlen (g3.lead.length + q3)
    (by rw [hL3]; exact busyFrom_of_segBusy c _ g3 q3 hb3) hspan htd
    (fun i hi => hsamp i (by rw [hlen]; exact hi))
  unfold chain chainTicks
  have hrun' : lrun c ls0 (transmission g1 g2 g3 quiet)
      = L1 ++ L2 ++ L3 ++ List.replicate quiet.length LinkSt.noCarrier := hrun
  rw [hrun']
  have k1 := o1.len
  have k2 := o2.len
  refine this.mono ?_ ?_ ?_ ?_ ?_
  all_goals (try simp only [List.length_append])
  all_goals omega

/-- **C08 at model level, the header alone: reporting latency in symbol ticks.**  Hypotheses:
    exactly those of `stream_decoded2` (three bursts of one canonical header on one tick stream
    meeting `Spec.StreamObserved2`, at least `HOLD` more ticks, …).  `L = lrun c {} stream`.
    * the `.burst` ticks `b2 b3` of the second and third burst: `g.e + 31 ≤ b ≤ g.e + g.rel + 31`;
      from the adjusting sync hit of the third burst (`g3.c`) to `b3` no `.noCarrier`;
    * exactly one message event, StartOfMessage with text exactly `H`, carrying the sample of tick
      `i`: EITHER a `.noCarrier` tick with `b2 + HOLD ≤ i < b3` (`voting = 0`) OR no such tick
      exists and `i = b3 + HOLD` exactly (`voting = |H|`). -/
theorem stream_decoded2_latency (c : LCfg) (hE : c.maxErrors ≤ 6) (hP : c.fc.maxPrefixErr ≤ 7)
    (rate sym0 smax : Nat) (samples : Nat → Nat) (H : List Byte) (off : Nat)
    (hcan : checkHeader H = some (off, H.length))
    (hall : ∀ b ∈ H, isAllowed b = true)
    (hfits : H.length ≤ Gen.MAX_BURST_LENGTH)
    (stream : List Tick) (g1 g2 g3 : BurstSpec2)
    (hp1 : g1.payload = H) (hp2 : g2.payload = H) (hp3 : g3.payload = H)
    (hobs : StreamObserved2 c.maxErrors stream [g1, g2, g3])
    (hqlen : g3.stop + HOLD ≤ stream.length)
    (hspan : g3.stop ≤ g1.e + HIST)
    (htails : ∀ t1 t2 t3, t1.length ≤ (g1.rel + 7) / 8 → t2.length ≤ (g2.rel + 7) / 8 →
      t3.length ≤ (g3.rel + 7) / 8 →
      lrunBursts c {} stream = [H ++ t1, H ++ t2, H ++ t3] → TailsNoDash H t1 t2 t3)
    (hsamp : ∀ i, i < stream.length → samples i ≤ smax ∧ smax ≤ samples i + TIMEOUT rate) :
    TimedOnce (chain c rate {} {} sym0 samples stream) samples (lrun c {} stream) H off
      (g2.e + 31) (g2.e + g2.rel + 31) g3.c (g3.e + 31) (g3.e + g3.rel + 31) := by
  have hc := payloadCond_of_header c H _ hcan hall hfits
  have hpc : ∀ g ∈ [g1, g2, g3], PayloadCond c g.payload := by
    intro g hg
    simp only [List.mem_cons, List.not_mem_nil, or_false] at hg
    rcases hg with rfl | rfl | rfl
    · rw [hp1]; exact hc
    · rw [hp2]; exact hc
    · rw [hp3]; exact hc
  obtain ⟨s1, s2, s3, s4⟩ := C01t.stream_segments2 c hE hP stream [g1, g2, g3] hobs hpc
  have sT := stream_timing2 c hE hP stream [g1, g2, g3] hobs hpc
  have hL : lastStop2 0 [g1, g2, g3] = g3.stop := rfl
  rw [hL] at s2 s3 s4
  obtain ⟨d1, d2, d3, _⟩ := s1
  obtain ⟨u1, u2, u3, _⟩ := sT
  simp only [segsOf2, List.flatMap_cons, List.flatMap_nil, List.append_nil] at s2
  change Delivers c {} (segOf2 stream 0 g1) g1.payload at d1
  change Delivers c (lrunState c {} (segOf2 stream 0 g1).ticks) (segOf2 stream g1.stop g2) g2.payload at d2
  change Delivers c (lrunState c (lrunState c {} (segOf2 stream 0 g1).ticks) (segOf2 stream g1.stop g2).ticks)
    (segOf2 stream g2.stop g3) g3.payload at d3
  change SegTiming c {} (segOf2 stream 0 g1) at u1
  change SegTiming c (lrunState c {} (segOf2 stream 0 g1).ticks) (segOf2 stream g1.stop g2) at u2
  change SegTiming c (lrunState c (lrunState c {} (segOf2 stream 0 g1).ticks) (segOf2 stream g1.stop g2).ticks)
    (segOf2 stream g2.stop g3) at u3
  rw [hp1] at d1; rw [hp2] at d2; rw [hp3] at d3
  have hstream : transmission (segOf2 stream 0 g1) (segOf2 stream g1.stop g2) (segOf2 stream g2.stop g3)
      (stream.drop g3.stop) = stream := by
    unfold transmission
    rw [List.append_assoc (segOf2 stream 0 g1).ticks, ← s2, List.take_append_drop]
  obtain ⟨_, tr1, _, _, ⟨ho2, _⟩, tr2, _, _, ⟨ho3, h323⟩, tr3, sy3, tl3, _⟩ := hobs
  have hs1 : g1.stop ≤ stream.length := tr1.1
  have hs2 : g2.stop ≤ stream.length := tr2.1
  have hle1 : g1.o ≤ g1.e ∧ g1.e ≤ g1.stop := by unfold BurstSpec2.e BurstSpec2.stop; omega
  have hle2 : g2.o ≤ g2.e ∧ g2.e ≤ g2.stop := by unfold BurstSpec2.e BurstSpec2.stop; omega
  have hle3 : g3.o ≤ g3.e ∧ g3.e ≤ g3.stop := by unfold BurstSpec2.e BurstSpec2.stop; omega
  have hk1 := segOf2_ticks stream 0 g1 (Nat.zero_le _)
  have hk2 := segOf2_ticks stream g1.stop g2 ho2
  have hk3 := segOf2_ticks stream g2.stop g3 ho3
  have hq' : QuietNoHit c (lrunState c (lrunState c (lrunState c {} (segOf2 stream 0 g1).ticks)
      (segOf2 stream g1.stop g2).ticks) (segOf2 stream g2.stop g3).ticks) (stream.drop g3.stop) := by
    rw [← lrunState_append, ← lrunState_append, ← s2]
    exact s4
  have hlq : (stream.drop g3.stop).length = stream.length - g3.stop := List.length_drop
  -- the link is busy from the adjusting sync hit of the third burst
  have hst2 : lrunState c (lrunState c {} (segOf2 stream 0 g1).ticks) (segOf2 stream g1.stop g2).ticks
      = lrunState c {} (stream.take g2.stop) := by
    have h0 := take_append_slice stream 0 g1.stop (Nat.zero_le _)
    rw [List.take_zero, List.nil_append] at h0
    rw [← lrunState_append, hk1, hk2, h0, take_append_slice _ _ _ (by omega)]
  have hready2 : Ready (lrunState c {} (stream.take g2.stop)) := by
    rw [← hst2]
    obtain ⟨_, _, _, hq2⟩ := d2
    exact hq2.ready
  have hbusy3 : SegBusy c (lrunState c (lrunState c {} (segOf2 stream 0 g1).ticks)
      (segOf2 stream g1.stop g2).ticks) (segOf2 stream g2.stop g3) g3.sync := by
    rw [hst2]
    refine (segFacts_of_stream2 c hE hP stream g2.stop g3 (Or.inr ?_) hready2
      (hpc g3 (by simp)) ho3 h323 tr3 sy3 tl3).2
    unfold BurstSpec2.stop; omega
  have := transmission_decoded_timed c rate sym0 smax samples H off hcan hall hfits
    (segOf2 stream 0 g1) (segOf2 stream g1.stop g2) (segOf2 stream g2.stop g3) (stream.drop g3.stop)
    {} d1 d2 d3 u1 u2 u3 g3.sync hbusy3 hq' (by rw [hlq]; omega)
    (by
      rw [hk2, hk3, slice_length _ _ _ hs2, slice_length _ _ _ s3]
      show (slice stream g1.e g1.stop).length + _ + _ ≤ _
      rw [slice_length _ _ _ hs1]
      omega)
    (by rw [hstream]; exact htails)
    (by rw [hstream]; exact hsamp)
  rw [hstream] at this
  have q1 : (segOf2 stream 0 g1).ticks.length = g1.stop := by rw [hk1, slice_length _ _ _ hs1]; omega
  have q2 : (segOf2 stream g1.stop g2).ticks.length = g2.stop - g1.stop := by
    rw [hk2, slice_length _ _ _ hs2]
  have r2 : (segOf2 stream g1.stop g2).lead.length = g2.o - g1.stop
      ∧ (segOf2 stream g1.stop g2).body.length = g2.e - g2.o ∧ (segOf2 stream g1.stop g2).rel = g2.rel :=
    ⟨slice_length _ _ _ (by omega), slice_length _ _ _ (by omega), rfl⟩
  have r3 : (segOf2 stream g2.stop g3).lead.length = g3.o - g2.stop
      ∧ (segOf2 stream g2.stop g3).body.length = g3.e - g3.o ∧ (segOf2 stream g2.stop g3).rel = g3.rel :=
    ⟨slice_length _ _ _ (by omega), slice_length _ _ _ (by omega), rfl⟩
  have hc3 : g3.c = g3.o + g3.sync := rfl
  refine this.mono ?_ ?_ ?_ ?_ ?_ <;> omega

/-- **C08 at model level, the header alone, the bounds**: the StartOfMessage comes at a tick
    `i ≤ g3.e + g3.rel + 31 + HOLD`; when `g3.c ≤ g2.e + 31 + HOLD` also `g3.e + 31 + HOLD ≤ i`, and
    it is the fully voted header. -/
theorem stream_decoded2_bounds (c : LCfg) (hE : c.maxErrors ≤ 6) (hP : c.fc.maxPrefixErr ≤ 7)
    (rate sym0 smax : Nat) (samples : Nat → Nat) (H : List Byte) (off : Nat)
    (hcan : checkHeader H = some (off, H.length))
    (hall : ∀ b ∈ H, isAllowed b = true)
    (hfits : H.length ≤ Gen.MAX_BURST_LENGTH)
    (stream : List Tick) (g1 g2 g3 : BurstSpec2)
    (hp1 : g1.payload = H) (hp2 : g2.payload = H) (hp3 : g3.payload = H)
    (hobs : StreamObserved2 c.maxErrors stream [g1, g2, g3])
    (hqlen : g3.stop + HOLD ≤ stream.length)
    (hspan : g3.stop ≤ g1.e + HIST)
    (htails : ∀ t1 t2 t3, t1.length ≤ (g1.rel + 7) / 8 → t2.length ≤ (g2.rel + 7) / 8 →
      t3.length ≤ (g3.rel + 7) / 8 →
      lrunBursts c {} stream = [H ++ t1, H ++ t2, H ++ t3] → TailsNoDash H t1 t2 t3)
    (hsamp : ∀ i, i < stream.length → samples i ≤ smax ∧ smax ≤ samples i + TIMEOUT rate) :
    ∃ i h, msgEvents (chain c rate {} {} sym0 samples stream) = [(samples i, .ok (.som h))]
      ∧ h.text = H ∧ h.offsetTime = off ∧ h.parity = 0 ∧ (h.voting = 0 ∨ h.voting = H.length)
      ∧ g2.e + 31 + HOLD ≤ i ∧ i ≤ g3.e + g3.rel + 31 + HOLD
      ∧ (g3.c ≤ g2.e + 31 + HOLD → g3.e + 31 + HOLD ≤ i ∧ h.voting = H.length) := by
  have ho3 : g2.stop ≤ g3.o := by
    obtain ⟨_, _, _, _, _, _, _, _, ⟨ho3, _⟩, _⟩ := hobs
    exact ho3
  have h23 : g2.e + 31 ≤ g3.e + 31 := by
    have : g2.stop = g2.e + (g2.rel + 40) := rfl
    have : g3.o ≤ g3.e := by unfold BurstSpec2.e; omega
    omega
  exact (stream_decoded2_latency c hE hP rate sym0 smax samples H off hcan hall hfits stream g1 g2 g3
    hp1 hp2 hp3 hobs hqlen hspan htails hsamp).bounds h23

/-! ## L4 — in samples and in seconds -/

/-- when consecutive ticks are at most `τ` samples apart, `d` ticks are at most `τ · d` samples -/
theorem samples_add_le (samples : Nat → Nat) (τ : Nat) (hτ : ∀ k, samples (k + 1) ≤ samples k + τ)
    (a d : Nat) : samples (a + d) ≤ samples a + τ * d := by
  induction d with
  | zero => simp
  | succ d ih =>
    have := hτ (a + d)
    rw [Nat.mul_succ, ← Nat.add_assoc]
    omega

theorem samples_le_of_le (samples : Nat → Nat) (τ : Nat) (hτ : ∀ k, samples (k + 1) ≤ samples k + τ)
    (a i D : Nat) (h : i ≤ a + D) (hmono : ∀ k, samples k ≤ samples (k + 1)) :
    samples i ≤ samples a + τ * D := by
  have hm : ∀ x d, samples x ≤ samples (x + d) := by
    intro x d
    induction d with
    | zero => exact Nat.le_refl _
    | succ d ih => exact Nat.le_trans ih (by rw [← Nat.add_assoc]; exact hmono _)
  obtain ⟨d, hd⟩ : ∃ d, a + D = i + d := ⟨a + D - i, by omega⟩
  have h1 := samples_add_le samples τ hτ a D
  rw [hd] at h1
  exact Nat.le_trans (hm i d) h1

/-- **C08 in samples.**  The sample counter non-decreasing and advancing by at most `τ` per symbol
    tick: the StartOfMessage event carries a sample at most `τ · (g3.rel + 31 + HOLD)` after the
    sample of the first tick after the last bit of the third header burst; the EndOfMessage event
    one at most `τ · (e2.rel + 31)` after that of the second trailer burst. -/
theorem stream_full2_samples (c : LCfg) (hE : c.maxErrors ≤ 6) (hP4 : c.fc.maxPrefixErr ≤ 4)
    (rate sym0 smax : Nat) (samples : Nat → Nat) (H : List Byte) (off : Nat)
    (hcan : checkHeader H = some (off, H.length))
    (hall : ∀ b ∈ H, isAllowed b = true)
    (hfits : H.length ≤ Gen.MAX_BURST_LENGTH)
    (stream : List Tick) (g1 g2 g3 e1 e2 e3 : BurstSpec2)
    (hp1 : g1.payload = H) (hp2 : g2.payload = H) (hp3 : g3.payload = H)
    (hp4 : e1.payload = litNNNN) (hp5 : e2.payload = litNNNN) (hp6 : e3.payload = litNNNN)
    (hobs : StreamObserved2 c.maxErrors stream [g1, g2, g3, e1, e2, e3])
    (hgapq : ∀ t, g3.stop ≤ t → t < g3.stop + HOLD →
      potHit c.maxErrors (fun i => stream.getD i dfltTick) t = false)
    (hgaplen : g3.stop + HOLD ≤ e1.o)
    (hspanH : g3.stop ≤ g1.e + HIST) (hspanT : e3.stop ≤ e1.e + HIST)
    (hshort : (e1.rel + 7) / 8 + 4 ≤ H.length)
    (htails : ∀ t1 t2 t3 x1 x2 x3, t1.length ≤ (g1.rel + 7) / 8 → t2.length ≤ (g2.rel + 7) / 8 →
      t3.length ≤ (g3.rel + 7) / 8 →
      lrunBursts c {} stream
        = [H ++ t1, H ++ t2, H ++ t3, litNNNN ++ x1, litNNNN ++ x2, litNNNN ++ x3] →
      TailsNoDash H t1 t2 t3)
    (hsamp : ∀ i, i < stream.length → samples i ≤ smax ∧ smax ≤ samples i + TIMEOUT rate)
    (τ : Nat) (hmono : ∀ k, samples k ≤ samples (k + 1)) (hτ : ∀ k, samples (k + 1) ≤ samples k + τ) :
    ∃ sS sE h, msgEvents (chain c rate {} {} sym0 samples stream)
          = [(sS, .ok (.som h)), (sE, .ok .eom)]
      ∧ h.text = H
      ∧ sS ≤ samples g3.e + τ * (g3.rel + 31 + HOLD)
      ∧ sE ≤ samples e2.e + τ * (e2.rel + 31) := by
  obtain ⟨i, j, h, hev, hx, _, _, _, _, hi, _, hj, _⟩ := stream_full2_bounds c hE hP4 rate sym0 smax
    samples H off hcan hall hfits stream g1 g2 g3 e1 e2 e3 hp1 hp2 hp3 hp4 hp5 hp6 hobs hgapq hgaplen
    hspanH hspanT hshort htails hsamp
  exact ⟨samples i, samples j, h, hev, hx,
    samples_le_of_le samples τ hτ g3.e i _ (by omega) hmono,
    samples_le_of_le samples τ hτ e2.e j _ (by omega) hmono⟩

/-- **in seconds, at the nominal symbol rate** (520.83 symbols per second): `rel + 31 + HOLD` ticks
    last at most 1.5 s exactly when `rel ≤ 68` (0.13 s).  `HOLD + 31 = 713` ticks are 1.369 s. -/
theorem latency_nominal (rel : Nat) : (rel + 31 + HOLD) * 200 ≤ 3 * 52083 ↔ rel ≤ 68 := by
  have : HOLD = 682 := by decide
  omega

/-- **in samples, ticks at most `τ = ⌈rate / 520.83⌉` apart**: `τ · (rel + 31 + HOLD) ≤ 1.5 · rate`
    for every `rate ≥ 8000` when `rel ≤ 22`, for every `rate ≥ 13554` when `rel ≤ 40` -/
theorem latency_tau0 (rate rel : Nat) (h : (8000 ≤ rate ∧ rel ≤ 22) ∨ (13554 ≤ rate ∧ rel ≤ 40)) :
    ((rate * 100 + 52082) / 52083) * (rel + 31 + HOLD) ≤ 3 * rate / 2 := by
  have hH : HOLD = 682 := by decide
  rw [hH]
  rcases h with ⟨h1, h2⟩ | ⟨h1, h2⟩
  · have := Nat.mul_le_mul_left ((rate * 100 + 52082) / 52083) (show rel + 31 + 682 ≤ 735 by omega)
    omega
  · have := Nat.mul_le_mul_left ((rate * 100 + 52082) / 52083) (show rel + 31 + 682 ≤ 753 by omega)
    omega

/-- **in samples, ticks at most `τ = ⌈rate / 520.83⌉ + 1` apart** and `rel ≤ 40`:
    `τ · (rel + 31 + HOLD) ≤ 1.5 · rate` for every `rate ≥ 27610` -/
theorem latency_tau1 (rate rel : Nat) (h1 : 27610 ≤ rate) (h2 : rel ≤ 40) :
    ((rate * 100 + 52082) / 52083 + 1) * (rel + 31 + HOLD) ≤ 3 * rate / 2 := by
  have hH : HOLD = 682 := by decide
  rw [hH]
  have := Nat.mul_le_mul_left ((rate * 100 + 52082) / 52083 + 1) (show rel + 31 + 682 ≤ 753 by omega)
  omega

/-- … and NOT for every `rate ≥ 8000`: with `τ = ⌈rate / 520.83⌉ + 1` the bound fails at 8000 Hz even
    for `rel = 0` (17 · 713 = 12121 > 12000), at 22050 Hz for `rel = 40` (44 · 753 = 33132 > 33075;
    `rel ≤ 38` is what holds there), at 27609 Hz for `rel = 40`; with `τ = ⌈rate / 520.83⌉` it fails
    at 13553 Hz for `rel = 40` -/
theorem latency_tau_counterexamples :
    ¬ ((8000 * 100 + 52082) / 52083 + 1) * (0 + 31 + HOLD) ≤ 3 * 8000 / 2
    ∧ ¬ ((22050 * 100 + 52082) / 52083 + 1) * (40 + 31 + HOLD) ≤ 3 * 22050 / 2
    ∧ ((22050 * 100 + 52082) / 52083 + 1) * (38 + 31 + HOLD) ≤ 3 * 22050 / 2
    ∧ ¬ ((27609 * 100 + 52082) / 52083 + 1) * (40 + 31 + HOLD) ≤ 3 * 27609 / 2
    ∧ ¬ ((13553 * 100 + 52082) / 52083) * (40 + 31 + HOLD) ≤ 3 * 13553 / 2
    ∧ ¬ ((8000 * 100 + 52082) / 52083) * (38 + 31 + HOLD) ≤ 3 * 8000 / 2 := by
  decide

end SameVerif.Chain
