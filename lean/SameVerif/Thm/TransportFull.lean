import SameVerif.Thm.C02
import SameVerif.Thm.C05seq
import SameVerif.Lemmas.ChainOps
import SameVerif.Lemmas.AssemblerFull
/-
  LAYER A of the whole-transmission chain theorem — the transport (assembler model, `runOps`).

  A header `H` heard as three bursts `H ++ g_i` (link-layer tails `g_i`), a poll at or after
  `t3 + HOLD` (the StartOfMessage is out), then the trailer heard as three bursts `NNNN ++ e_j`:
  exactly two outputs, `StartOfMessage` with text exactly `H`, then `EndOfMessage`.

  What the model does with the trailer (proved below, all three zones are clean):
  * near  (`n1 < t2 + HIST`): the first trailer burst is voted with the two remembered header
    bursts, the vote reads `H` again and is suppressed as a duplicate;
  * mid   (`t2 + HIST ≤ n1 < t3 + HIST`): the first trailer burst is voted with ONE remembered
    header burst; the two-burst vote disagrees in the very first byte (`Z` / `N`), the estimate
    is empty, nothing happens (no error output — unlike two different HEADERS, which share `ZCZC-`:
    `C05seq.gap_error_counterexample`);
  * in both, the EndOfMessage is output by the call that assembles the SECOND trailer burst;
  * far   (`t3 + HIST ≤ n1`): the first trailer burst alone is output as EndOfMessage at once.
  The third trailer burst (and the second, in the far zone) is a duplicate as long as it comes
  before the EndOfMessage record expires; `n3 < n1 + HIST` is assumed (cf. F5,
  `C05.eom_twice_counterexample`; `third_burst_revives_eom` below).
  Trailer tails `e_j`: no condition in the mid and far zones; in the near zone the vote over
  `g2`, `g3` and whatever the first trailer burst has beyond `|H|` bytes must hold no `-` (`hdT`),
  the same phenomenon as `hd2`, `hd3` (F7; `trailer_tail_second_som` below).
-/
namespace SameVerif.Full
open SameVerif SameVerif.Spec SameVerif.Asm

/-! ### 0. the schedules -/

/-- header part: three bursts with tails, polls between and after, a last poll at `t` -/
def headerOps (H g1 g2 g3 : List Byte) (t1 t2 t3 t : Nat) (p1 p2 p3 : List Nat) : List AOp :=
  .burst (H ++ g1) t1 :: (p1.map .poll ++ .burst (H ++ g2) t2 ::
    (p2.map .poll ++ .burst (H ++ g3) t3 :: (p3.map .poll ++ [.poll t])))

/-- trailer part: more polls, then three bursts `NNNN` with tails, polls between and after -/
def trailerOps (e1 e2 e3 : List Byte) (n1 n2 n3 : Nat) (q0 q1 q2 q3 : List Nat) : List AOp :=
  q0.map .poll ++ .burst (litNNNN ++ e1) n1 :: (q1.map .poll ++ .burst (litNNNN ++ e2) n2 ::
    (q2.map .poll ++ .burst (litNNNN ++ e3) n3 :: q3.map .poll))

/-- the tick at which the EndOfMessage comes out -/
def eomTick (t3 n1 n2 : Nat) : Nat := if n1 < t3 + HIST then n2 else n1

/-! ### 1. the header part, with the state it leaves -/

/-- **Three header bursts with tails, any polls** — `C02.three_bursts_report_tails` with the state
    left behind: nothing held, the report remembered until `u + HIST`, the last two bursts
    (clipped) stored. -/
theorem header_st (s : AState) (H g1 g2 g3 : List Byte) (off t1 t2 t3 t : Nat)
    (p1 p2 p3 : List Nat)
    (hall : ∀ b ∈ H, isAllowed b = true)
    (hcan : checkHeader H = some (off, H.length))
    (hfit : H.length ≤ MAXLEN)
    (hd2 : ∀ e ∈ estimateLoop (MAXLEN - H.length) [g1, g2], 2 ≤ e.nbursts → e.byte ≠ 45)
    (hd3 : ∀ e ∈ estimateLoop (MAXLEN - H.length) [g1, g2, g3], 2 ≤ e.nbursts → e.byte ≠ 45)
    (hh : s.history = []) (hp : s.pending = none)
    (hprev : ∀ p, s.previous = some p → p.data.text ≠ H)
    (h12 : t1 ≤ t2) (h23 : t2 ≤ t3) (h31 : t3 < t1 + HIST)
    (hp1 : ∀ u ∈ p1, u ≤ t2) (hp2 : ∀ u ∈ p2, u ≤ t3) (hp3 : ∀ u ∈ p3, u ≤ t)
    (ht : t3 + HOLD ≤ t) :
    ∃ u h, (h = ⟨H, off, 0, 0⟩ ∨ h = ⟨H, off, 0, H.length⟩) ∧ t2 + HOLD ≤ u ∧ u ≤ t
      ∧ (runOps s (headerOps H g1 g2 g3 t1 t2 t3 t p1 p2 p3)).2 = [(u, .ok (.som h))]
      ∧ LeftBy (runOps s (headerOps H g1 g2 g3 t1 t2 t3 t p1 p2 p3)).1 (.som h) (u + HIST)
          [⟨H ++ g2.take (MAXLEN - H.length), t2 + HIST⟩,
           ⟨H ++ g3.take (MAXLEN - H.length), t3 + HIST⟩] t := by
  have hHne : H ≠ [] := ne_nil_of_checkHeader H _ hcan
  have hne : ∀ g : List Byte, (H ++ g).isEmpty = false := by
    intro g
    cases H with
    | nil => exact absurd rfl hHne
    | cons _ _ => rfl
  have htake1 := take_header_tail H g1 MAXLEN hfit
  have htake2 := take_header_tail H g2 MAXLEN hfit
  have htake3 := take_header_tail H g3 MAXLEN hfit
  have hd2' : ∀ e ∈ estimateLoop (MAXLEN - H.length)
      [g1.take (MAXLEN - H.length), g2.take (MAXLEN - H.length)], 2 ≤ e.nbursts → e.byte ≠ 45 := by
    have := estimateLoop_take (MAXLEN - H.length) [g1, g2]
    simp only [List.map_cons, List.map_nil] at this
    rw [this]; exact hd2
  have hd3' : ∀ e ∈ estimateLoop (MAXLEN - H.length)
      [g1.take (MAXLEN - H.length), g2.take (MAXLEN - H.length), g3.take (MAXLEN - H.length)],
      2 ≤ e.nbursts → e.byte ≠ 45 := by
    have := estimateLoop_take (MAXLEN - H.length) [g1, g2, g3]
    simp only [List.map_cons, List.map_nil] at this
    rw [this]; exact hd3
  -- first burst: stored
  have hc1 : combine MAXLEN [(H ++ g1).take MAXLEN] = none := by
    rw [htake1]; exact combine_single_prefixed _ _ _ _ hcan
  obtain ⟨hs1, hq1⟩ := burst_stored s (H ++ g1) t1 (hne g1) hh hp hc1
  rw [htake1] at hs1
  generalize hS1 : (stepOp s (.burst (H ++ g1) t1)).1 = S1 at hs1
  have hstill : runOps S1 (p1.map .poll) = (S1, []) := by
    apply run_polls_still
    · rw [hs1]
    · rw [hs1]; simp
    · intro u hu e he
      rw [hs1] at he
      simp only [List.mem_singleton] at he
      subst he
      have := hp1 u hu
      simp only; omega
  -- second burst: accepted, held
  have hhist2 : historyAfter S1 (H ++ g2) t2
      = [⟨H ++ g1.take (MAXLEN - H.length), t1 + HIST⟩, ⟨H ++ g2.take (MAXLEN - H.length), t2 + HIST⟩] := by
    rw [historyAfter, hs1, htake2]
    simp only
    rw [prune_one_fresh _ _ (by simp only; omega)]
    rfl
  have hc2 : combine MAXLEN ((historyAfter S1 (H ++ g2) t2).map (·.data))
      = some (.ok (.som ⟨H, off, 0, 0⟩)) := by
    rw [hhist2]
    exact C02.combine_with_tails_pair' MAXLEN H _ _ off hall hcan hfit hd2'
  have hprev1 : ∀ p, S1.previous = some p → p.data.text ≠ H := by
    intro p hpp
    rw [hs1] at hpp
    simp only at hpp
    rcases prunePrevious_cases s.previous t1 with ⟨hn, _⟩ | ⟨hk, _⟩
    · rw [hn] at hpp; cases hpp
    · rw [hk] at hpp; exact hprev p hpp
  obtain ⟨hpend2, hpv2, hq2⟩ := burst_accepted S1 (H ++ g2) t2 ⟨H, off, 0, 0⟩ (hne g2)
    (by rw [hs1]) hc2 hprev1
  have hh2 := step_burst_history S1 (H ++ g2) t2 (hne g2)
  rw [hhist2, prune_two_fresh _ _ _ (by simp only; omega) (by simp only; have := HIST_pos; omega)] at hh2
  generalize hS2 : (stepOp S1 (.burst (H ++ g2) t2)).1 = S2 at hpend2 hpv2 hh2
  have hprev2 : ∀ p, S2.previous = some p → p.data.text ≠ H := by
    intro p hpp
    rw [hpv2] at hpp
    rcases prunePrevious_cases S1.previous t2 with ⟨hn, _⟩ | ⟨hk, _⟩
    · rw [hn] at hpp; cases hpp
    · rw [hk] at hpp; exact hprev1 p hpp
  -- the rest of the run
  have hc3 : combine MAXLEN [H ++ g1.take (MAXLEN - H.length), H ++ g2.take (MAXLEN - H.length),
        (H ++ g3).take MAXLEN]
      = some (.ok (.som ⟨H, off, 0, H.length⟩)) := by
    rw [htake3]
    exact C02.combine_with_tails' MAXLEN H _ _ _ off hall hcan hfit hd3'
  have hpT : ∀ u ∈ p3 ++ [t], u ≤ t := by
    intro u hu
    rcases List.mem_append.mp hu with hu | hu
    · exact hp3 u hu
    · simp only [List.mem_singleton] at hu; omega
  obtain ⟨u, h, hh', hu1, hu2, hout, hL⟩ := held_then_third_st S2 (H ++ g3)
    ⟨H ++ g1.take (MAXLEN - H.length), t1 + HIST⟩
    ⟨H ++ g2.take (MAXLEN - H.length), t2 + HIST⟩ t2 t3 t
    ⟨H, off, 0, 0⟩ ⟨H, off, 0, H.length⟩ p2 (p3 ++ [t]) (hne g3) hh2
    (by simp only; omega) (by simp only; omega) hp2 hpend2 hc3 (Nat.zero_le _) rfl hprev2
    h23 (by omega) hpT ⟨t, by simp, ht⟩
  rw [htake3] at hL
  have hrun : runOps s (headerOps H g1 g2 g3 t1 t2 t3 t p1 p2 p3)
      = runOps S2 (p2.map .poll ++ .burst (H ++ g3) t3 :: (p3 ++ [t]).map .poll) := by
    unfold headerOps
    rw [runOps_cons, outOf_quiet _ _ hq1, hS1, runOps_append, hstill]
    simp only [List.nil_append]
    rw [runOps_cons, outOf_quiet _ _ hq2, hS2, List.map_append]
    rfl
  refine ⟨u, h, hh', hu1, ?_, ?_, ?_⟩
  · rcases hu2 with hu2 | hu2
    · omega
    · exact hpT u hu2
  · rw [hrun]; exact hout
  · rw [hrun]; exact hL

/-! ### 2. the whole transmission -/

/-- **Header ×3, release poll, trailer ×3 — the general form.**  Start with an empty history,
    nothing pending, a previous report (if any) of a different text.  Exactly two outputs: the
    StartOfMessage (text exactly `H`; `voting = 0` if released after two bursts, `|H|` after three)
    at a poll `u ∈ [t2 + HOLD, t]`, and the EndOfMessage at `eomTick t3 n1 n2`: the SECOND trailer
    burst while a header burst is still stored (`n1 < t3 + HIST`), else the FIRST. -/
theorem full_transmission_tails (s : AState) (H g1 g2 g3 e1 e2 e3 : List Byte)
    (off t1 t2 t3 t n1 n2 n3 : Nat) (p1 p2 p3 q0 q1 q2 q3 : List Nat)
    (hall : ∀ b ∈ H, isAllowed b = true)
    (hcan : checkHeader H = some (off, H.length))
    (hfit : H.length ≤ MAXLEN)
    (hd2 : ∀ e ∈ estimateLoop (MAXLEN - H.length) [g1, g2], 2 ≤ e.nbursts → e.byte ≠ 45)
    (hd3 : ∀ e ∈ estimateLoop (MAXLEN - H.length) [g1, g2, g3], 2 ≤ e.nbursts → e.byte ≠ 45)
    (hdT : n1 < t2 + HIST → ∀ e ∈ estimateLoop (MAXLEN - H.length)
      [g2, g3, (litNNNN ++ e1).drop H.length], 2 ≤ e.nbursts → e.byte ≠ 45)
    (hh : s.history = []) (hp : s.pending = none)
    (hprev : ∀ p, s.previous = some p → p.data.text ≠ H)
    (h12 : t1 ≤ t2) (h23 : t2 ≤ t3) (h31 : t3 < t1 + HIST)
    (hp1 : ∀ u ∈ p1, u ≤ t2) (hp2 : ∀ u ∈ p2, u ≤ t3) (hp3 : ∀ u ∈ p3, u ≤ t)
    (ht : t3 + HOLD ≤ t) (htn : t ≤ n1)
    (hn12 : n1 ≤ n2) (hn23 : n2 ≤ n3) (hn31 : n3 < n1 + HIST)
    (hq0 : ∀ u ∈ q0, u ≤ n1) (hq1 : ∀ u ∈ q1, u ≤ n2) (hq2 : ∀ u ∈ q2, u ≤ n3) :
    ∃ u h, (h = ⟨H, off, 0, 0⟩ ∨ h = ⟨H, off, 0, H.length⟩) ∧ t2 + HOLD ≤ u ∧ u ≤ t
      ∧ (runOps s (headerOps H g1 g2 g3 t1 t2 t3 t p1 p2 p3
            ++ trailerOps e1 e2 e3 n1 n2 n3 q0 q1 q2 q3)).2
          = [(u, .ok (.som h)), (eomTick t3 n1 n2, .ok .eom)] := by
  have hH := HIST_pos
  obtain ⟨u, h, hh', hu1, hu2, hout, hL⟩ := header_st s H g1 g2 g3 off t1 t2 t3 t p1 p2 p3 hall hcan
    hfit hd2 hd3 hh hp hprev h12 h23 h31 hp1 hp2 hp3 ht
  have htext : h.text = H := by rcases hh' with rfl | rfl <;> rfl
  obtain ⟨hrest, hHeq⟩ := Chain.header_prefix H _ hcan
  have hHN : H ≠ litNNNN := by
    rw [hHeq]; intro hc; simp [litNNNN] at hc
  refine ⟨u, h, hh', hu1, hu2, ?_⟩
  rw [runOps_append_snd, hout]
  generalize hS' : (runOps s (headerOps H g1 g2 g3 t1 t2 t3 t p1 p2 p3)).1 = S' at hL
  obtain ⟨ho0, hC⟩ := calm_polls q0 S' _ _ n1 (hL.calm.mono htn) hq0
  generalize hS : (runOps S' (q0.map .poll)).1 = S at hC
  have hp0 : ∀ q, (some (⟨.som h, u + HIST⟩ : Timed Msg)) = some q → q.data.text ≠ litNNNN := by
    intro q hq
    cases hq
    show h.text ≠ litNNNN
    rw [htext]; exact hHN
  suffices hsuf : (runOps S (.burst (litNNNN ++ e1) n1 :: (q1.map .poll ++ .burst (litNNNN ++ e2) n2 ::
      (q2.map .poll ++ .burst (litNNNN ++ e3) n3 :: q3.map .poll)))).2 = [(eomTick t3 n1 n2, .ok .eom)] by
    unfold trailerOps
    rw [runOps_append_snd, ho0, hS, hsuf]; rfl
  unfold eomTick
  by_cases hfar : n1 < t3 + HIST
  · -- the first trailer burst changes nothing that matters; a header burst stays stored
    simp only [hfar, ↓reduceIte]
    have hA3 : H ++ g3.take (MAXLEN - H.length)
        = 90 :: 67 :: ((90 :: 67 :: 45 :: hrest) ++ g3.take (MAXLEN - H.length)) := by
      rw [hHeq]; rfl
    have hfirst : ∃ p1', (∀ r, (stepOp S (.burst (litNNNN ++ e1) n1)).2 ≠ .message r)
        ∧ Calm (stepOp S (.burst (litNNNN ++ e1) n1)).1 p1'
            [⟨H ++ g3.take (MAXLEN - H.length), t3 + HIST⟩,
             ⟨78 :: 78 :: 78 :: 78 :: e1.take (MAXLEN - 4), n1 + HIST⟩] n1
        ∧ ∀ q, p1' = some q → q.data.text ≠ litNNNN := by
      by_cases hnear : n1 < t2 + HIST
      · -- near: voted with both header bursts, reads `H`, suppressed
        have hX : ((litNNNN ++ e1).take MAXLEN).drop H.length
            = ((litNNNN ++ e1).drop H.length).take (MAXLEN - H.length) := by
          rw [List.drop_take]
        have hdash : ∀ e ∈ estimateLoop (MAXLEN - H.length)
            [g2.take (MAXLEN - H.length), g3.take (MAXLEN - H.length),
             ((litNNNN ++ e1).take MAXLEN).drop H.length], 2 ≤ e.nbursts → e.byte ≠ 45 := by
          have := estimateLoop_take (MAXLEN - H.length) [g2, g3, (litNNNN ++ e1).drop H.length]
          simp only [List.map_cons, List.map_nil] at this
          rw [hX, this]; exact hdT hnear
        obtain ⟨pp, vv, hcomb⟩ := combine_two_tails_third MAXLEN H (g2.take (MAXLEN - H.length))
          (g3.take (MAXLEN - H.length)) ((litNNNN ++ e1).take MAXLEN) off hall hcan hfit hdash
        have hch : calmHist [⟨H ++ g2.take (MAXLEN - H.length), t2 + HIST⟩,
              ⟨H ++ g3.take (MAXLEN - H.length), t3 + HIST⟩] (litNNNN ++ e1) n1
            = [⟨H ++ g2.take (MAXLEN - H.length), t2 + HIST⟩,
               ⟨H ++ g3.take (MAXLEN - H.length), t3 + HIST⟩,
               ⟨(litNNNN ++ e1).take MAXLEN, n1 + HIST⟩] := by
          unfold calmHist
          rw [prune_two_fresh _ _ n1 (by simp only; omega) (by simp only; omega)]
          rfl
        have hpp : prunePrevious (some (⟨.som h, u + HIST⟩ : Timed Msg)) n1 = some ⟨.som h, u + HIST⟩ := by
          have : ¬ (u + HIST ≤ n1) := by omega
          simp [prunePrevious, Timed.expiredAt, this]
        have hest : dedup (prunePrevious (some (⟨.som h, u + HIST⟩ : Timed Msg)) n1)
            (combine MAXLEN ((calmHist [⟨H ++ g2.take (MAXLEN - H.length), t2 + HIST⟩,
              ⟨H ++ g3.take (MAXLEN - H.length), t3 + HIST⟩] (litNNNN ++ e1) n1).map (·.data))) = none := by
          rw [hch, hpp]
          simp only [List.map_cons, List.map_nil]
          rw [hcomb]
          have : (Msg.som h).text = (Msg.som ⟨H, off, pp, vv⟩).text := htext
          simp [dedup, this]
        obtain ⟨hq, hc⟩ := calm_burst_none S _ _ n1 hC (litNNNN ++ e1) n1 (trailer_nonempty e1) (Nat.le_refl _) hest
        rw [hch, hpp, prune_three_fresh _ _ _ n1 (by simp only; omega) (by simp only; omega)
          (by simp only; omega), trailer_take] at hc
        exact ⟨_, hq, hc, hp0⟩
      · -- mid: voted with one header burst, `Z` against `N`: no estimate at all
        have hch : calmHist [⟨H ++ g2.take (MAXLEN - H.length), t2 + HIST⟩,
              ⟨H ++ g3.take (MAXLEN - H.length), t3 + HIST⟩] (litNNNN ++ e1) n1
            = [⟨H ++ g3.take (MAXLEN - H.length), t3 + HIST⟩,
               ⟨78 :: 78 :: 78 :: 78 :: e1.take (MAXLEN - 4), n1 + HIST⟩] := by
          unfold calmHist
          rw [prune_two_second _ _ n1 (by simp only; omega) (by simp only; omega), trailer_take]
          rfl
        have hest : dedup (prunePrevious (some (⟨.som h, u + HIST⟩ : Timed Msg)) n1)
            (combine MAXLEN ((calmHist [⟨H ++ g2.take (MAXLEN - H.length), t2 + HIST⟩,
              ⟨H ++ g3.take (MAXLEN - H.length), t3 + HIST⟩] (litNNNN ++ e1) n1).map (·.data))) = none := by
          rw [hch]
          simp only [List.map_cons, List.map_nil]
          rw [hA3, combine_header_trailer]
          unfold dedup
          rfl
        obtain ⟨hq, hc⟩ := calm_burst_none S _ _ n1 hC (litNNNN ++ e1) n1 (trailer_nonempty e1) (Nat.le_refl _) hest
        rw [hch, prune_two_fresh _ _ n1 (by simp only; omega) (by simp only; omega)] at hc
        refine ⟨_, hq, hc, ?_⟩
        intro q hq'
        rcases prunePrevious_cases (some (⟨.som h, u + HIST⟩ : Timed Msg)) n1 with ⟨hn, _⟩ | ⟨hk, _⟩
        · rw [hn] at hq'; cases hq'
        · rw [hk] at hq'; exact hp0 q hq'
    obtain ⟨p1', hq, hc, hp1'⟩ := hfirst
    rw [hA3] at hc
    have := trailer_late _ _ (78 :: 78 :: e1.take (MAXLEN - 4)) e2 e3 67 (t3 + HIST) n1 n2 n3 p1'
      q1 q2 q3 hc hp1' hn12 hn23 hn31 hq1 hq2
    rw [runOps_cons_snd, outOf_quiet _ _ hq, List.nil_append]
    exact this
  · -- far: every header burst has expired
    simp only [hfar, ↓reduceIte]
    refine trailer_fast S e1 e2 e3 _ n1 n1 n2 n3 _ q1 q2 q3 hC (Nat.le_refl _) ?_ hp0 hn12 hn23 hn31 hq1 hq2
    intro e he
    simp only [List.mem_cons, List.not_mem_nil, or_false] at he
    rcases he with rfl | rfl <;> simp only <;> omega

/-! ### 3. what `Sorted` says about the schedule -/

theorem sorted_three (b1 b2 b3 : List Byte) (t1 t2 t3 : Nat) (p1 p2 : List Nat) (rest : List AOp)
    (h : Sorted (.burst b1 t1 :: (p1.map .poll ++ .burst b2 t2 :: (p2.map .poll ++ .burst b3 t3 :: rest)))) :
    t1 ≤ t2 ∧ t2 ≤ t3 ∧ (∀ u ∈ p1, u ≤ t2) ∧ (∀ u ∈ p2, u ≤ t3) ∧ Sorted rest := by
  unfold Sorted at h ⊢
  obtain ⟨ha, hrest⟩ := List.pairwise_cons.mp h
  obtain ⟨_, hr2, hx1⟩ := List.pairwise_append.mp hrest
  obtain ⟨hb, hrest2⟩ := List.pairwise_cons.mp hr2
  obtain ⟨_, hr3, hx2⟩ := List.pairwise_append.mp hrest2
  refine ⟨?_, ?_, ?_, ?_, (List.pairwise_cons.mp hr3).2⟩
  · exact ha (.burst b2 t2) (by simp)
  · exact hb (.burst b3 t3) (by simp)
  · intro u hu
    exact hx1 (.poll u) (List.mem_map.mpr ⟨u, hu, rfl⟩) (.burst b2 t2) (by simp)
  · intro u hu
    exact hx2 (.poll u) (List.mem_map.mpr ⟨u, hu, rfl⟩) (.burst b3 t3) (by simp)

theorem sorted_full (H g1 g2 g3 e1 e2 e3 : List Byte) (t1 t2 t3 t n1 n2 n3 : Nat)
    (p1 p2 p3 q0 q1 q2 q3 : List Nat)
    (h : Sorted (headerOps H g1 g2 g3 t1 t2 t3 t p1 p2 p3 ++ trailerOps e1 e2 e3 n1 n2 n3 q0 q1 q2 q3)) :
    t1 ≤ t2 ∧ t2 ≤ t3 ∧ (∀ u ∈ p1, u ≤ t2) ∧ (∀ u ∈ p2, u ≤ t3) ∧ (∀ u ∈ p3, u ≤ t) ∧ t ≤ n1
      ∧ n1 ≤ n2 ∧ n2 ≤ n3 ∧ (∀ u ∈ q0, u ≤ n1) ∧ (∀ u ∈ q1, u ≤ n2) ∧ (∀ u ∈ q2, u ≤ n3) := by
  obtain ⟨hsH, hsT, hx⟩ := C05seq.sorted_append _ _ h
  obtain ⟨a1, a2, a3, a4, a5⟩ := sorted_three _ _ _ _ _ _ _ _ _ hsH
  unfold trailerOps at hsT
  obtain ⟨_, hsT', hx0⟩ := C05seq.sorted_append _ _ hsT
  obtain ⟨b1, b2, b3, b4, _⟩ := sorted_three _ _ _ _ _ _ _ _ _ hsT'
  refine ⟨a1, a2, a3, a4, ?_, ?_, b1, b2, ?_, b3, b4⟩
  · intro u hu
    unfold Sorted at a5
    exact (List.pairwise_append.mp a5).2.2 (.poll u) (List.mem_map.mpr ⟨u, hu, rfl⟩) (.poll t) (by simp)
  · exact hx (.poll t) (by simp [headerOps]) (.burst (litNNNN ++ e1) n1) (by simp [trailerOps])
  · intro u hu
    exact hx0 (.poll u) (List.mem_map.mpr ⟨u, hu, rfl⟩) (.burst (litNNNN ++ e1) n1) (by simp)

/-! ### 4. the statement forms -/

/-- **The whole transmission at the transport** — any poll schedule in time order, any start state
    with an empty history, nothing pending and no previous report of the same text.
    Timing: `t3 < t1 + HIST` (the header bursts within one history window), `t3 + HOLD ≤ t` (the
    release poll; it precedes the first trailer burst by position in the schedule),
    `n3 < n1 + HIST` (the trailer bursts within one history window).  No condition relates the
    header times to the trailer times: all three zones are covered (`eomTick`). -/
theorem full_transmission (s : AState) (H g1 g2 g3 e1 e2 e3 : List Byte)
    (off t1 t2 t3 t n1 n2 n3 : Nat) (p1 p2 p3 q0 q1 q2 q3 : List Nat)
    (hall : ∀ b ∈ H, isAllowed b = true)
    (hcan : checkHeader H = some (off, H.length))
    (hfit : H.length ≤ MAXLEN)
    (hd2 : ∀ e ∈ estimateLoop (MAXLEN - H.length) [g1, g2], 2 ≤ e.nbursts → e.byte ≠ 45)
    (hd3 : ∀ e ∈ estimateLoop (MAXLEN - H.length) [g1, g2, g3], 2 ≤ e.nbursts → e.byte ≠ 45)
    (hdT : n1 < t2 + HIST → ∀ e ∈ estimateLoop (MAXLEN - H.length)
      [g2, g3, (litNNNN ++ e1).drop H.length], 2 ≤ e.nbursts → e.byte ≠ 45)
    (hh : s.history = []) (hp : s.pending = none)
    (hprev : ∀ p, s.previous = some p → p.data.text ≠ H)
    (hsort : Sorted (headerOps H g1 g2 g3 t1 t2 t3 t p1 p2 p3
      ++ trailerOps e1 e2 e3 n1 n2 n3 q0 q1 q2 q3))
    (h31 : t3 < t1 + HIST) (ht : t3 + HOLD ≤ t) (hn31 : n3 < n1 + HIST) :
    ∃ u v h, (runOps s (headerOps H g1 g2 g3 t1 t2 t3 t p1 p2 p3
            ++ trailerOps e1 e2 e3 n1 n2 n3 q0 q1 q2 q3)).2 = [(u, .ok (.som h)), (v, .ok .eom)]
      ∧ h.text = H ∧ h.offsetTime = off ∧ h.parity = 0 ∧ (h.voting = 0 ∨ h.voting = H.length)
      ∧ t2 + HOLD ≤ u ∧ u ≤ t ∧ t ≤ n1 ∧ n1 ≤ v ∧ v = eomTick t3 n1 n2 := by
  obtain ⟨h12, h23, hp1, hp2, hp3, htn, hn12, hn23, hq0, hq1, hq2⟩ := sorted_full _ _ _ _ _ _ _ _ _ _ _ _
    _ _ _ _ _ _ _ _ _ hsort
  obtain ⟨u, h, hh', hu1, hu2, hout⟩ := full_transmission_tails s H g1 g2 g3 e1 e2 e3 off t1 t2 t3 t
    n1 n2 n3 p1 p2 p3 q0 q1 q2 q3 hall hcan hfit hd2 hd3 hdT hh hp hprev h12 h23 h31 hp1 hp2 hp3 ht htn
    hn12 hn23 hn31 hq0 hq1 hq2
  have hv : n1 ≤ eomTick t3 n1 n2 := by unfold eomTick; split <;> omega
  rcases hh' with rfl | rfl
  · exact ⟨u, _, _, hout, rfl, rfl, rfl, Or.inl rfl, hu1, hu2, htn, hv, rfl⟩
  · exact ⟨u, _, _, hout, rfl, rfl, rfl, Or.inr rfl, hu1, hu2, htn, hv, rfl⟩

/-- when the first trailer burst (with its tail) is no longer than the header, the near-zone
    condition `hdT` follows from the header condition `hd3`: nothing of the trailer burst reaches
    the tail positions, and a two-burst "vote" only passes bytes that also win the three-burst vote -/
theorem trailer_tail_cond (H g1 g2 g3 e1 : List Byte) (hshort : e1.length + 4 ≤ H.length)
    (hd3 : ∀ e ∈ estimateLoop (MAXLEN - H.length) [g1, g2, g3], 2 ≤ e.nbursts → e.byte ≠ 45) :
    ∀ e ∈ estimateLoop (MAXLEN - H.length) [g2, g3, (litNNNN ++ e1).drop H.length],
      2 ≤ e.nbursts → e.byte ≠ 45 := by
  have hdrop : (litNNNN ++ e1).drop H.length = [] := by
    apply List.drop_eq_nil_of_le
    simp only [List.length_append, litNNNN, List.length_cons, List.length_nil]
    omega
  rw [hdrop, estimateLoop_pair_nil]
  exact pair_of_triple _ g1 g2 g3 hd3

/-- **The whole transmission, from the initial state, realistic trailer tail** (`NNNN` and its tail
    no longer than the header): the header-tail conditions `hd2`, `hd3` are all that is asked of
    the tails.  The StartOfMessage strictly precedes the EndOfMessage when the release poll
    strictly precedes the first trailer burst (`t < n1`; always so for ticks of one receiver). -/
theorem full_transmission_init (H g1 g2 g3 e1 e2 e3 : List Byte)
    (off t1 t2 t3 t n1 n2 n3 : Nat) (p1 p2 p3 q0 q1 q2 q3 : List Nat)
    (hall : ∀ b ∈ H, isAllowed b = true)
    (hcan : checkHeader H = some (off, H.length))
    (hfit : H.length ≤ MAXLEN)
    (hd2 : ∀ e ∈ estimateLoop (MAXLEN - H.length) [g1, g2], 2 ≤ e.nbursts → e.byte ≠ 45)
    (hd3 : ∀ e ∈ estimateLoop (MAXLEN - H.length) [g1, g2, g3], 2 ≤ e.nbursts → e.byte ≠ 45)
    (hshort : e1.length + 4 ≤ H.length)
    (hsort : Sorted (headerOps H g1 g2 g3 t1 t2 t3 t p1 p2 p3
      ++ trailerOps e1 e2 e3 n1 n2 n3 q0 q1 q2 q3))
    (h31 : t3 < t1 + HIST) (ht : t3 + HOLD ≤ t) (htn : t < n1) (hn31 : n3 < n1 + HIST) :
    ∃ u v h, (runOps {} (headerOps H g1 g2 g3 t1 t2 t3 t p1 p2 p3
            ++ trailerOps e1 e2 e3 n1 n2 n3 q0 q1 q2 q3)).2 = [(u, .ok (.som h)), (v, .ok .eom)]
      ∧ h.text = H ∧ h.offsetTime = off ∧ h.parity = 0 ∧ (h.voting = 0 ∨ h.voting = H.length)
      ∧ u < v ∧ t2 + HOLD ≤ u ∧ u ≤ t ∧ v = eomTick t3 n1 n2 := by
  obtain ⟨u, v, h, hout, a1, a2, a3, a4, a5, a6, _, a8, a9⟩ := full_transmission {} H g1 g2 g3 e1 e2 e3
    off t1 t2 t3 t n1 n2 n3 p1 p2 p3 q0 q1 q2 q3 hall hcan hfit hd2 hd3
    (fun _ => trailer_tail_cond H g1 g2 g3 e1 hshort hd3) rfl rfl (by intro p hp; cases hp) hsort h31 ht hn31
  exact ⟨u, v, h, hout, a1, a2, a3, a4, by omega, a5, a6, a9⟩

/-! ### 5. non-vacuity: the three zones, by the general theorem -/

section Examples
open SameVerif.C02

theorem example_conds :
    (∀ b ∈ shortCallHeader, isAllowed b = true)
    ∧ checkHeader shortCallHeader = some (19, shortCallHeader.length)
    ∧ shortCallHeader.length ≤ MAXLEN
    ∧ (∀ e ∈ estimateLoop (MAXLEN - shortCallHeader.length) [[0x35, 43], [0x0a, 0xff, 0xff]],
        2 ≤ e.nbursts → e.byte ≠ 45)
    ∧ (∀ e ∈ estimateLoop (MAXLEN - shortCallHeader.length) [[0x35, 43], [0x0a, 0xff, 0xff], [0xff, 0x80, 0x0a]],
        2 ≤ e.nbursts → e.byte ≠ 45) := by
  have hc := shortCallHeader_canonical
  refine ⟨fun b hb => List.all_eq_true.mp hc.2.1 b hb, hc.1, by rw [hc.2.2]; decide,
    by rw [hc.2.2]; decide +kernel, by rw [hc.2.2]; decide +kernel⟩

/-- the example schedule: header bursts (garbage tails) ending at 1000, 1950, 2900, polls, release
    poll at 3600, more polls; trailer bursts (tails `01 02`, `ff`, `NN-`) ending at `n1`, `n2`, `n3`, polls -/
def exampleOps (n1 n2 n3 : Nat) : List AOp :=
  headerOps shortCallHeader [0x35, 43] [0x0a, 0xff, 0xff] [0xff, 0x80, 0x0a] 1000 1950 2900 3600
      [1500] [2000, 2500] [3000]
    ++ trailerOps [1, 2] [0xff] [78, 78, 45] n1 n2 n3 [n1 - 1] [n1 + 1] [n2 + 1]
        [n3 + 1, n3 + 700, n3 + 6000]

theorem example_general (n1 n2 n3 : Nat) (h1 : 3600 < n1) (h12 : n1 < n2) (h23 : n2 < n3)
    (h31 : n3 < n1 + HIST) :
    ∃ u v h, (runOps {} (exampleOps n1 n2 n3)).2 = [(u, .ok (.som h)), (v, .ok .eom)]
      ∧ h.text = shortCallHeader ∧ h.offsetTime = 19 ∧ h.parity = 0
      ∧ (h.voting = 0 ∨ h.voting = shortCallHeader.length)
      ∧ u < v ∧ 1950 + HOLD ≤ u ∧ u ≤ 3600 ∧ v = eomTick 2900 n1 n2 := by
  obtain ⟨c1, c2, c3, c4, c5⟩ := example_conds
  refine full_transmission_init shortCallHeader _ _ _ _ _ _ 19 1000 1950 2900 3600 n1 n2 n3 _ _ _ _ _ _ _
    c1 c2 c3 c4 c5 (by decide) ?_ (by decide) (by decide) h1 h31
  unfold Sorted headerOps trailerOps
  simp only [List.map_cons, List.map_nil, List.cons_append, List.nil_append, List.pairwise_cons,
    List.mem_cons, List.not_mem_nil, or_false, forall_eq_or_imp, forall_eq, AOp.time,
    List.Pairwise.nil, and_true, false_imp_iff, implies_true]
  repeat' apply And.intro
  all_goals omega

/-- near zone (`n1 < t2 + HIST = 7602`): EndOfMessage by the second trailer burst -/
theorem example_near :
    ∃ u h, (runOps {} (exampleOps 5000 5950 6900)).2 = [(u, .ok (.som h)), (5950, .ok .eom)]
      ∧ h.text = shortCallHeader ∧ u < 5950 := by
  obtain ⟨u, v, h, ho, ht, _, _, _, huv, _, _, hv⟩ := example_general 5000 5950 6900 (by decide)
    (by decide) (by decide) (by decide)
  have : v = 5950 := by rw [hv]; decide
  subst this
  exact ⟨u, h, ho, ht, huv⟩

/-- mid zone (`7602 ≤ n1 < t3 + HIST = 8552`): still the second trailer burst, and no error output -/
theorem example_mid :
    ∃ u h, (runOps {} (exampleOps 8000 8950 9900)).2 = [(u, .ok (.som h)), (8950, .ok .eom)]
      ∧ h.text = shortCallHeader ∧ u < 8950 := by
  obtain ⟨u, v, h, ho, ht, _, _, _, huv, _, _, hv⟩ := example_general 8000 8950 9900 (by decide)
    (by decide) (by decide) (by decide)
  have : v = 8950 := by rw [hv]; decide
  subst this
  exact ⟨u, h, ho, ht, huv⟩

/-- far zone (`8552 ≤ n1`): the first trailer burst alone ("fast EOM") -/
theorem example_far :
    ∃ u h, (runOps {} (exampleOps 20000 20950 21900)).2 = [(u, .ok (.som h)), (20000, .ok .eom)]
      ∧ h.text = shortCallHeader ∧ u < 20000 := by
  obtain ⟨u, v, h, ho, ht, _, _, _, huv, _, _, hv⟩ := example_general 20000 20950 21900 (by decide)
    (by decide) (by decide) (by decide)
  have : v = 20000 := by rw [hv]; decide
  subst this
  exact ⟨u, h, ho, ht, huv⟩

/-- the same three runs, evaluated by the kernel (cross-check of the general theorem) -/
theorem examples_eval :
    (runOps {} (exampleOps 5000 5950 6900)).2
        = [(3600, .ok (.som ⟨shortCallHeader, 19, 0, 37⟩)), (5950, .ok .eom)]
    ∧ (runOps {} (exampleOps 8000 8950 9900)).2
        = [(3600, .ok (.som ⟨shortCallHeader, 19, 0, 37⟩)), (8950, .ok .eom)]
    ∧ (runOps {} (exampleOps 20000 20950 21900)).2
        = [(3600, .ok (.som ⟨shortCallHeader, 19, 0, 37⟩)), (20000, .ok .eom)] := by
  decide +kernel

/-! ### 6. what is false without the hypotheses -/

/-- **No release poll (F4 with three trailer bursts).**  Without a poll at or after `t3 + HOLD`
    before the trailer, the first trailer burst re-votes the pending header; here the
    StartOfMessage comes out only at the SECOND trailer burst's tick… and the EndOfMessage at the
    third — with two trailer bursts it is lost altogether (`C02.eom_lost_counterexample`). -/
theorem no_release_poll_witness :
    (runOps {} [.burst (shortCallHeader ++ [0x35, 43]) 1000, .poll 1500,
        .burst (shortCallHeader ++ [0x0a, 0xff, 0xff]) 1950, .poll 2000,
        .burst (shortCallHeader ++ [0xff, 0x80, 0x0a]) 2900, .poll 3000,
        .burst (litNNNN ++ [1, 2]) 3500, .poll 3501, .burst (litNNNN ++ [0xff]) 4450, .poll 4451,
        .burst (litNNNN ++ [78, 78, 45]) 5400, .poll 5401, .poll 12000]).2
      = [(4450, .ok (.som ⟨shortCallHeader, 19, 0, 37⟩)), (5400, .ok .eom)] := by
  decide +kernel

/-- **`n3 < n1 + HIST` matters (F5).**  A third trailer burst after the EndOfMessage record has
    expired (`n3 ≥ n2 + HIST`) is reported as a second EndOfMessage. -/
theorem third_burst_revives_eom :
    (runOps {} (exampleOps 5000 5950 11602)).2
      = [(3600, .ok (.som ⟨shortCallHeader, 19, 0, 37⟩)), (5950, .ok .eom), (11602, .ok .eom)]
    ∧ (runOps {} (exampleOps 5000 5950 11601)).2
      = [(3600, .ok (.som ⟨shortCallHeader, 19, 0, 37⟩)), (5950, .ok .eom)] := by
  decide +kernel

/-- **`hdT` matters (F7 again), though not for realistic tails.**  Header tails ``, `5-`,
    `LF ff ff` (conditions `hd2`, `hd3` hold); the first trailer burst drags a 36-byte tail whose last
    bytes `ff 80 LF` line up with the header tails: the near-zone vote reads `H ++ "?-"`, not a
    duplicate — a second StartOfMessage.  (`trailer_tail_cond`: impossible when the trailer burst
    with its tail is no longer than the header.) -/
theorem trailer_tail_second_som :
    (runOps {} (headerOps shortCallHeader [] [0x35, 45] [0x0a, 0xff, 0xff] 1000 1950 2900 3600
          [1500] [2000, 2500] [3000]
        ++ trailerOps (List.replicate 33 78 ++ [0xff, 0x80, 0x0a]) [] [] 5000 5950 6900
          [4000] [5001] [5951] [6901, 7600, 13000])).2
      = [(3600, .ok (.som ⟨shortCallHeader, 19, 0, 37⟩)),
         (5950, .ok (.som ⟨shortCallHeader ++ [63, 45], 19, 186, 39⟩)), (6900, .ok .eom)] := by
  decide +kernel

end Examples

end SameVerif.Full
