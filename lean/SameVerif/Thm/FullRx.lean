/-
  Theorems about the whole-receiver model (`Model/FullRx.lean`): `SameReceiver::process()` sample
  by sample, float front end included.

  G1  `lstep` looks at the equalizer's byte only at byte ticks.
  G2  one symbol of the whole-receiver model is exactly one `lstep` then one `rTick`, on the
      observation `obsOf` and byte `byteOf` the float part produced (refinement, symbol level).
  G3  a whole run's event list IS the event list of the discrete chain (`chain` of
      Model/Chain.lean: `lrun` then `rRun`) on the tick stream the float part produced
      (`FullRx.trace`); hence every theorem about `chain` applies to whole-receiver runs whose
      derived tick stream meets its hypotheses (`run_stream_decoded`: `Chain.stream_decoded`).
  G4  the whole receiver never panics (generic in `F` under `OrderLaws F`); `FullRx.new` panics
      exactly for `dcLen = 0`.
  G5  the input sample counter and the event timestamps.

  Helper definitions (`obsOf`, `byteOf`, `front`, `trace`, `stampedTicks`, `stampsOf`, `RxInv`) and
  lemmas are in Lemmas/FullRxFacts.lean.  Nothing here is about `Float32` rounding: the float
  part is generic in `F`, and G1–G3, G5 need no law about `F` at all.
-/
import SameVerif.Lemmas.FullRxFacts
import SameVerif.Thm.Dsp
import SameVerif.Thm.ChainR

namespace SameVerif.FullRxThm

open SameVerif SameVerif.Dsp Arith

/-! ## G1 `lstep` ignores the byte off byte ticks -/

/-- whether a tick is a byte tick, and its resync flag, do not depend on the byte -/
theorem lstep_bytetick_indep (c : LCfg) (s : LState) (o : Obs) (b b' : Byte) :
    (lstep c s o b).2.2 = (lstep c s o b').2.2 :=
  SameVerif.lstep_bytetick_indep c s o b b'

/-- off byte ticks the byte is not looked at, at all -/
theorem lstep_byte_irrelevant (c : LCfg) (s : LState) (o : Obs) (b b' : Byte) :
    (lstep c s o b).2.2 = none → lstep c s o b' = lstep c s o b :=
  SameVerif.lstep_byte_irrelevant c s o b b'

/-- `lstep` counts symbols: exactly one per tick -/
theorem lstep_nsym (c : LCfg) (s : LState) (o : Obs) (b : Byte) :
    (lstep c s o b).1.nsym = s.nsym + 1 :=
  SameVerif.lstep_nsym c s o b

section Generic
variable {F : Type} [Arith F]

/-! ## G2 symbol level: the whole-receiver model refines the discrete chain -/

/-- One symbol of the whole-receiver model is one `lstep` on `(obsOf, byteOf)` followed by one
    `rTick` on the input sample counter, the new symbol count and the reported link state; the
    configuration and the input sample counter are untouched. -/
theorem symbol_refines (r : FullRx F) (s : SymEst F) :
    (r.symbol s).1.link = (lstep r.cfg.lcfg r.link (r.obsOf s) (r.byteOf s)).1 ∧
    (r.symbol s).2 = (rTick r.cfg.rate r.rx r.inputCounter
      (lstep r.cfg.lcfg r.link (r.obsOf s) (r.byteOf s)).1.nsym
      (lstep r.cfg.lcfg r.link (r.obsOf s) (r.byteOf s)).2.1).2 ∧
    (r.symbol s).1.rx = (rTick r.cfg.rate r.rx r.inputCounter
      (lstep r.cfg.lcfg r.link (r.obsOf s) (r.byteOf s)).1.nsym
      (lstep r.cfg.lcfg r.link (r.obsOf s) (r.byteOf s)).2.1).1 ∧
    (r.symbol s).1.cfg = r.cfg ∧ (r.symbol s).1.inputCounter = r.inputCounter :=
  FullRx.symbol_refines r s

/-- `byteOf` is the equalizer's byte exactly at byte ticks -/
theorem byteOf_eq (r : FullRx F) (s : SymEst F) :
    r.byteOf s =
      match (lstep r.cfg.lcfg r.link (r.obsOf s) (r.byteOf s)).2.2 with
      | none => 0
      | some adjusted => ((r.eqAt adjusted).input ((r.histOf s).take 16)).2 := by
  rw [SameVerif.lstep_bytetick_indep r.cfg.lcfg r.link (r.obsOf s) (r.byteOf s) 0]
  rfl

end Generic

section Run
variable {F : Type} [Arith F] [Hypot F]

/-! ## G5 the input sample counter and the event timestamps -/

/-- every sample increments the input sample counter by one, and every event pushed while the
    sample is processed carries the new value (`Event.stamp`) -/
theorem sample_counter {r r' : FullRx F} {x : F} {evs : List Event}
    (h : r.sample x = some (r', evs)) :
    r'.inputCounter = r.inputCounter + 1 ∧ ∀ e ∈ evs, e.stamp = r.inputCounter + 1 :=
  FullRx.sample_counter h

/-- over a run: the counter advances by the number of samples, every timestamp is in
    `(counter before, counter after]`, and timestamps are non-decreasing -/
theorem run_timestamps {r r' : FullRx F} {xs : List F} {evs : List Event}
    (h : FullRx.run r xs = some (r', evs)) :
    r'.inputCounter = r.inputCounter + xs.length ∧
    (∀ e ∈ evs, r.inputCounter < e.stamp ∧ e.stamp ≤ r.inputCounter + xs.length) ∧
    evs.Pairwise (fun a b => a.stamp ≤ b.stamp) :=
  FullRx.run_timestamps xs r r' evs h

/-! ## G3 run level: the events of a whole run are the events of the discrete chain -/

/-- one sample: either nothing reaches the discrete part, or exactly one tick `tickAt` does -/
theorem sample_refines {r r' : FullRx F} {x : F} {evs : List Event}
    (h : r.sample x = some (r', evs)) :
    (r.tickAt x).length ≤ 1 ∧ r'.cfg = r.cfg ∧
    evs = (rRun r.cfg.rate r.rx (stampedTicks r.cfg.lcfg r.link (r.tickAt x))).2 ∧
    r'.rx = (rRun r.cfg.rate r.rx (stampedTicks r.cfg.lcfg r.link (r.tickAt x))).1 ∧
    r'.link = lrunState r.cfg.lcfg r.link ((r.tickAt x).map (·.2)) := by
  refine ⟨?_, FullRx.sample_refines h⟩
  unfold FullRx.tickAt
  split
  · exact Nat.le_refl 1
  · exact Nat.zero_le 1

/-- **The whole-receiver model refines the discrete chain.**  If a run over the samples `xs` does
    not panic, the trace `tr` of stamped ticks `(input sample counter, (obsOf, byteOf))` the float
    part produced exists, and the run's event list is `chain` (Model/Chain.lean: `lrun`, then
    `rRun` on `mkTicks`) applied to the tick stream `tr.map (·.2)`, started in the run's initial link
    and receiver states, with tick `i` carrying the stamp `stampsOf tr i` and the symbol count
    `r.link.nsym + 1 + i`.  The final link and receiver states are those of the chain. -/
theorem run_refines_chain {r r' : FullRx F} {xs : List F} {evs : List Event}
    (h : FullRx.run r xs = some (r', evs)) :
    ∃ tr, FullRx.trace r xs = some (r', tr) ∧
      evs = chain r.cfg.lcfg r.cfg.rate r.link r.rx r.link.nsym (stampsOf tr) (tr.map (·.2)) ∧
      r'.link = lrunState r.cfg.lcfg r.link (tr.map (·.2)) ∧
      r'.rx = (rRun r.cfg.rate r.rx
        (chainTicks r.cfg.lcfg r.link r.link.nsym (stampsOf tr) (tr.map (·.2)))).1 ∧
      r'.cfg = r.cfg := by
  obtain ⟨tr, t, c, e, x, l⟩ := FullRx.run_trace xs r r' evs h
  rw [stampedTicks_eq] at e x
  exact ⟨tr, t, e, l, x, c⟩

/-- the same, with the receiver ticks spelled out tick by tick (`stampedTicks`: the stamp, the
    symbol count after `lstep`, the link state `lstep` reported) instead of through `mkTicks` -/
theorem run_refines_chain' {r r' : FullRx F} {xs : List F} {evs : List Event}
    (h : FullRx.run r xs = some (r', evs)) :
    ∃ tr, FullRx.trace r xs = some (r', tr) ∧
      evs = (rRun r.cfg.rate r.rx (stampedTicks r.cfg.lcfg r.link tr)).2 ∧
      r'.rx = (rRun r.cfg.rate r.rx (stampedTicks r.cfg.lcfg r.link tr)).1 ∧
      r'.link = lrunState r.cfg.lcfg r.link (tr.map (·.2)) := by
  obtain ⟨tr, t, _, e, x, l⟩ := FullRx.run_trace xs r r' evs h
  exact ⟨tr, t, e, x, l⟩

/-- the trace exists exactly when the run does not panic, and ends in the same state -/
theorem trace_iff_run (r : FullRx F) (xs : List F) :
    (FullRx.trace r xs).map (·.1) = (FullRx.run r xs).map (·.1) := by
  induction xs generalizing r with
  | nil => rfl
  | cons x xs ih =>
    unfold FullRx.trace FullRx.run
    cases r.sample x with
    | none => rfl
    | some p =>
      obtain ⟨r1, ev⟩ := p
      dsimp only
      have := ih r1
      cases h1 : FullRx.trace r1 xs <;> cases h2 : FullRx.run r1 xs <;> rw [h1, h2] at this <;>
        first | rfl | cases this | (simp only [Option.map_some, Option.some.injEq] at this; simp [this])

/-- the stamps of the trace: strictly increasing sample counts within the run -/
theorem trace_stamps {r r' : FullRx F} {xs : List F} {tr : List (Nat × Tick)}
    (h : FullRx.trace r xs = some (r', tr)) :
    (∀ p ∈ tr, r.inputCounter < p.1 ∧ p.1 ≤ r.inputCounter + xs.length) ∧
    tr.Pairwise (fun a b => a.1 < b.1) ∧ tr.length ≤ xs.length :=
  FullRx.trace_stamps xs r r' tr h

/-- **Corollary.** The message events of a whole-receiver run are the message events of the
    discrete chain on the derived tick stream. -/
theorem run_message_events {r r' : FullRx F} {xs : List F} {evs : List Event}
    (h : FullRx.run r xs = some (r', evs)) :
    ∃ tr, FullRx.trace r xs = some (r', tr) ∧
      msgEvents evs
        = msgEvents (chain r.cfg.lcfg r.cfg.rate r.link r.rx r.link.nsym (stampsOf tr) (tr.map (·.2))) := by
  obtain ⟨tr, t, e, _⟩ := run_refines_chain h
  exact ⟨tr, t, by rw [e]⟩

end Run

/-! ## G3, composed: an existing chain theorem, about whole-receiver runs -/

section Composed
variable {F : Type} [Arith F] [Hypot F]
open SameVerif.Spec SameVerif.Asm SameVerif.Chain

/-- **`Chain.stream_decoded` for the whole receiver.**  A receiver built by `FullRx.new` runs over
    the samples `xs` without panic.  If the tick stream its float part produced (`FullRx.trace`)
    meets `Spec.StreamObserved` for three bursts of one canonical header `H` followed by the hold
    time, the bursts fit the assembler's window, the forced end-of-message timer cannot fire within
    the run, and the (unconstrained) tail bytes do not forge a dash, then the run's events contain
    exactly one message event: StartOfMessage with text exactly `H`, stamped with the input sample
    counter of one of the symbol ticks. -/
theorem run_stream_decoded {cfg : RxCfg F} {r0 r' : FullRx F} {xs : List F} {evs : List Event}
    (hnew : FullRx.new cfg = some r0) (hrun : FullRx.run r0 xs = some (r', evs))
    (hE : cfg.lcfg.maxErrors ≤ 6) (hP : cfg.lcfg.fc.maxPrefixErr ≤ 7)
    (smax : Nat) (H : List Byte) (off : Nat)
    (hcan : checkHeader H = some (off, H.length))
    (hall : ∀ b ∈ H, isAllowed b = true)
    (hfits : H.length ≤ Gen.MAX_BURST_LENGTH) :
    ∃ tr, FullRx.trace r0 xs = some (r', tr) ∧
      ∀ (g1 g2 g3 : BurstSpec),
        g1.payload = H → g2.payload = H → g3.payload = H →
        StreamObserved cfg.lcfg.maxErrors (tr.map (·.2)) [g1, g2, g3] →
        g3.stop + HOLD ≤ (tr.map (·.2)).length →
        g3.stop ≤ g1.e + HIST →
        (∀ t1 t2 t3, t1.length ≤ (g1.rel + 7) / 8 → t2.length ≤ (g2.rel + 7) / 8 →
          t3.length ≤ (g3.rel + 7) / 8 →
          lrunBursts cfg.lcfg {} (tr.map (·.2)) = [H ++ t1, H ++ t2, H ++ t3] → TailsNoDash H t1 t2 t3) →
        (∀ i, i < (tr.map (·.2)).length →
          stampsOf tr i ≤ smax ∧ smax ≤ stampsOf tr i + TIMEOUT cfg.rate) →
        DecodedOnce evs (stampsOf tr) (tr.map (·.2)).length H off := by
  obtain ⟨hc, hl, hr, _⟩ := FullRx.new_fields hnew
  obtain ⟨tr, t, e, _⟩ := run_refines_chain hrun
  refine ⟨tr, t, ?_⟩
  intro g1 g2 g3 hp1 hp2 hp3 hobs hqlen hspan htails hsamp
  rw [e, hc, hl, hr]
  exact stream_decoded cfg.lcfg hE hP cfg.rate _ smax (stampsOf tr) H off hcan hall hfits (tr.map (·.2))
    g1 g2 g3 hp1 hp2 hp3 hobs hqlen hspan htails hsamp

end Composed

/-! ## G4 the whole receiver never panics -/

section NeverPanics
variable {F : Type} [Arith F] [OrderLaws F]

/-- `SameReceiver::from(&builder)` panics exactly when the DC blocker's length is 0 (every other
    constructor is total: their `clamp` limits are `0 ≤ 1` and `0 ≤ 1/2`) -/
theorem fullrx_new_none_iff (cfg : RxCfg F) : FullRx.new cfg = none ↔ cfg.dcLen = 0 :=
  FullRx.new_none_iff cfg

/-- **C17/C10 at model level.**  A receiver that `new` built with `agc_min ≤ agc_max` and a timing
    loop whose nominal period is inside its limits never panics, whatever samples it is fed; the
    DC windows keep their length, the AGC and loop limits stay as built, the AGC gain and the
    loop's average period stay inside their limits. -/
theorem fullrx_never_panics' [Hypot F] {cfg : RxCfg F} {r0 : FullRx F}
    (hnew : FullRx.new cfg = some r0) (hle : le cfg.agcMin cfg.agcMax = true)
    (h1 : le r0.tl.periodMin r0.tl.samplesPerTed = true)
    (h2 : le r0.tl.samplesPerTed r0.tl.periodMax = true) (xs : List F) :
    ∃ r evs, FullRx.run r0 xs = some (r, evs) ∧
      RxInv cfg.dcLen cfg.agcMin cfg.agcMax r0.agc.bandwidth
        r0.tl.samplesPerTed r0.tl.periodMin r0.tl.periodMax r := by
  obtain ⟨hl, hinv, _⟩ := FullRx.new_inv hnew hle h1 h2
  exact FullRx.run_total hl hle h1 h2 xs r0 hinv

theorem fullrx_never_panics [Hypot F] {cfg : RxCfg F} {r0 : FullRx F}
    (hnew : FullRx.new cfg = some r0) (hle : le cfg.agcMin cfg.agcMax = true)
    (htl : le r0.tl.periodMin r0.tl.samplesPerTed = true ∧
      le r0.tl.samplesPerTed r0.tl.periodMax = true) (xs : List F) :
    FullRx.run r0 xs ≠ none := by
  obtain ⟨r, evs, e, _⟩ := fullrx_never_panics' hnew hle htl.1 htl.2 xs
  rw [e]; exact Option.some_ne_none _

/-- the AGC hypothesis cannot be dropped: built with `agc_min > agc_max`, the first sample panics -/
theorem fullrx_panics_when_agc_reversed [Hypot F] {cfg : RxCfg F} {r0 : FullRx F}
    (hnew : FullRx.new cfg = some r0) (hle : le cfg.agcMin cfg.agcMax = false) (x : F) (xs : List F) :
    FullRx.run r0 (x :: xs) = none := by
  obtain ⟨_, _, _, _, hdc, hagc, _⟩ := FullRx.new_fields hnew
  obtain ⟨_, _, e⟩ := agc_new_some cfg.agcBw cfg.agcMin cfg.agcMax
  rw [e] at hagc
  have hs : r0.sample x = none := by
    unfold FullRx.sample
    cases r0.dc.filter x with
    | none => rfl
    | some p =>
      obtain ⟨dc, y⟩ := p
      dsimp only
      have : r0.agc.input y = none := by
        rw [agc_input_none_iff']
        have h := Option.some.inj hagc
        rw [← h]
        exact hle
      rw [this]
  unfold FullRx.run
  rw [hs]

end NeverPanics

/-! ### over the rationals: `0 ≤ sps` and `agc_min ≤ agc_max` suffice -/

theorem fullrx_never_panics_rat [Hypot Rat] {cfg : RxCfg Rat} {r0 : FullRx Rat}
    (hnew : FullRx.new cfg = some r0) (hsps : 0 ≤ cfg.sps) (hagc : cfg.agcMin ≤ cfg.agcMax)
    (xs : List Rat) : FullRx.run r0 xs ≠ none := by
  obtain ⟨_, _, _, _, _, _, htl⟩ := FullRx.new_fields hnew
  obtain ⟨l, e, _, _, _, _, _, _, _, b1, b2, _⟩ :=
    DspThm.tl_new_bounds cfg.sps cfg.alphaU cfg.betaU cfg.maxDev hsps
  rw [e] at htl; cases htl
  exact fullrx_never_panics hnew ((rat_le_iff _ _).2 hagc)
    ⟨(rat_le_iff _ _).2 b1, (rat_le_iff _ _).2 b2⟩ xs

/-- for the rationals the construction fails only for `dcLen = 0` -/
theorem fullrx_new_rat {cfg : RxCfg Rat} (h : cfg.dcLen ≠ 0) : ∃ r0, FullRx.new cfg = some r0 := by
  cases hn : FullRx.new cfg with
  | none => exact absurd ((fullrx_new_none_iff cfg).1 hn) h
  | some r0 => exact ⟨r0, rfl⟩

/-! ## non-vacuity: a concrete small receiver over `Rat` -/

section Demo

/-- for the examples only: `|a| + |b|` in place of `hypot` (the theorems hold for ANY `Hypot Rat`) -/
local instance demoHypot : Hypot Rat := ⟨fun a b => a.abs + b.abs⟩

/-- 8000 Hz, two samples per symbol (so that a handful of samples reaches `symbol`), DC blocker of
    length 2, two-tap matched filters, the default AGC limits and link-layer budgets -/
def demoCfg : RxCfg Rat :=
  { rate := 8000, sps := 2, dcLen := 2, agcBw := 1 / 100, agcMin := 1 / 32767, agcMax := 1 / 200,
    mark := [(1, 0), (0, 1)], space := [(1, 0), (0, -1)],
    alphaU := 1 / 10, betaU := 1 / 100, alphaL := 1 / 20, betaL := 1 / 200, maxDev := 1 / 8,
    powerOpen := 1 / 10, powerClose := 1 / 20, squelchBw := 1 / 10,
    nff := 2, nfb := 2, relax := 1 / 5, reg := 1 / 100000, lcfg := ⟨2, ⟨2, 5⟩⟩ }

/-- the constructor succeeds -/
example : (FullRx.new demoCfg).isSome = true := by decide +kernel

/-- the hypotheses of the generic G4 hold for it, by evaluation -/
example : ∃ r0, FullRx.new demoCfg = some r0 ∧ le demoCfg.agcMin demoCfg.agcMax = true ∧
    le r0.tl.periodMin r0.tl.samplesPerTed = true ∧ le r0.tl.samplesPerTed r0.tl.periodMax = true := by
  obtain ⟨r0, h⟩ := fullrx_new_rat (cfg := demoCfg) (by decide)
  have e : ((FullRx.new demoCfg).map fun r0 =>
      le r0.tl.periodMin r0.tl.samplesPerTed && le r0.tl.samplesPerTed r0.tl.periodMax) = some true := by
    decide +kernel
  rw [h] at e
  simp only [Option.map_some, Option.some.injEq, Bool.and_eq_true] at e
  exact ⟨r0, h, by decide +kernel, e.1, e.2⟩

/-- so it never panics, whatever it is fed: by the general theorem -/
example (r0 : FullRx Rat) (h : FullRx.new demoCfg = some r0) (xs : List Rat) : FullRx.run r0 xs ≠ none :=
  fullrx_never_panics_rat h (by decide +kernel) (by decide +kernel) xs

/-- on four concrete samples, by the general theorem -/
example : ∃ r0, FullRx.new demoCfg = some r0 ∧ FullRx.run r0 [1000, -2000, 1500, 300] ≠ none := by
  obtain ⟨r0, h⟩ := fullrx_new_rat (cfg := demoCfg) (by decide)
  exact ⟨r0, h, fullrx_never_panics_rat h (by decide +kernel) (by decide +kernel) _⟩

/-- … and by evaluation: these four samples reach `symbol` twice (input samples 1 and 3), so the
    refinement theorems are about non-empty tick streams -/
example : ((FullRx.new demoCfg).bind fun r0 => FullRx.trace r0 [1000, -2000, 1500, 300]).map
    (fun p => p.2.map (·.1)) = some [1, 3] := by decide +kernel

/-- with the AGC limits reversed the first sample panics: by `fullrx_panics_when_agc_reversed` -/
example : ∃ r0, FullRx.new { demoCfg with agcMin := 1 / 200, agcMax := 1 / 32767 } = some r0 ∧
    FullRx.run r0 [1000, -2000] = none := by
  obtain ⟨r0, h⟩ := fullrx_new_rat (cfg := { demoCfg with agcMin := 1 / 200, agcMax := 1 / 32767 })
    (by decide)
  exact ⟨r0, h, fullrx_panics_when_agc_reversed h (by decide +kernel) _ _⟩

/-- a DC blocker of length 0 cannot be built -/
example : FullRx.new { demoCfg with dcLen := 0 } = none := (fullrx_new_none_iff _).2 rfl

/-! ### a run with a non-empty event list: 48 preamble bits, two samples per bit

  `demoCfg2`: DC blocker of length 1 (identity), loop gains 0 (the sample clock fires on every
  sample, the TED yields a symbol on every other one), matched filters "sum" and "difference" of
  two samples: a bit is sent as `(200, 200)` (one) or `(200, -200)` (zero), which the AGC (initial
  gain 1/200) scales to ±1.  After 32 symbols the correlator holds the sync word: the squelch
  synchronises at input sample 65, the equalizer — trained — decides the preamble byte at the byte
  ticks, and `process()` reports `Searching`. -/

def demoCfg2 : RxCfg Rat :=
  { demoCfg with dcLen := 1, alphaU := 0, betaU := 0, alphaL := 0, betaL := 0, mark := [(1, 0), (1, 0)], space := [(1, 0), (-1, 0)] }

def demoSig : List Rat :=
  0 :: ((List.range 48).map fun i => (0xABABABABABAB : Nat).testBit i).flatMap fun b =>
    if b then [200, 200] else [200, -200]

/-- by evaluation: 97 samples, 49 symbol ticks, byte ticks at input samples 65, 81, 97 with the
    equalizer's byte `0xAB`, and exactly one event, stamped 65 -/
theorem demo2_eval :
    (((FullRx.new demoCfg2).bind fun r0 => FullRx.run r0 demoSig).map fun p => p.2.map Event.stamp)
      = some [65] ∧
    (((FullRx.new demoCfg2).bind fun r0 => FullRx.trace r0 demoSig).map fun p =>
      (p.2.length, (p.2.filter fun t => t.2.2 != 0).map fun t => (t.1, t.2.2)))
      = some (49, [(65, 171), (81, 171), (97, 171)]) := by
  constructor <;> decide +kernel

/-- G4 and G3 on this run, by the general theorems: it does not panic, and its (non-empty) event
    list is the discrete chain's on the 49 ticks of the trace -/
example : ∃ r0 r' evs tr, FullRx.new demoCfg2 = some r0 ∧
    FullRx.run r0 demoSig = some (r', evs) ∧ FullRx.trace r0 demoSig = some (r', tr) ∧
    evs = chain demoCfg2.lcfg 8000 {} {} 0 (stampsOf tr) (tr.map (·.2)) ∧
    evs.map Event.stamp = [65] ∧ tr.length = 49 := by
  obtain ⟨r0, h⟩ := fullrx_new_rat (cfg := demoCfg2) (by decide)
  obtain ⟨hc, hl, hr, _⟩ := FullRx.new_fields h
  cases hrun : FullRx.run r0 demoSig with
  | none => exact absurd hrun (fullrx_never_panics_rat h (by decide +kernel) (by decide +kernel) _)
  | some p =>
    obtain ⟨r', evs⟩ := p
    obtain ⟨tr, t, e, _⟩ := run_refines_chain hrun
    rw [hc, hl, hr] at e
    obtain ⟨e1, e2⟩ := demo2_eval
    rw [h] at e1 e2
    simp only [Option.bind_some, hrun, t, Option.map_some, Option.some.injEq, Prod.mk.injEq] at e1 e2
    exact ⟨r0, r', evs, tr, h, hrun, t, e, e1, e2.1⟩

end Demo

end SameVerif.FullRxThm
