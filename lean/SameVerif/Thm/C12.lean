import SameVerif.Lemmas.AppFacts
import SameVerif.Thm.C06
import SameVerif.Model.Spawner
/-
  C12 — child processes get the exact message audio: one child per StartOfMessage, each fed the
  input samples from the point its header was returned up to the point the next message is
  returned, or to the end of input (live mode; model: Model/App.lean).

  The specification `expectedChildren` is defined in Lemmas/AppFacts.lean:

    expectedChildren n []                  = []
    expectedChildren n ((p, .som t) :: tl) = (.som t, p, nextPos n tl) :: expectedChildren n tl
    expectedChildren n ((_, .eom)   :: tl) = expectedChildren n tl
    nextPos n []            = n
    nextPos n ((q, _) :: _) = q
-/
namespace SameVerif.C12
open SameVerif

/-- **C12.4a** a child is configured and every spawn succeeds: the children are exactly the
    expected ones — one per StartOfMessage of `live ++ flushed`, in order, each with the
    half-open sample range [position of its header, position of the next message), where a
    flushed message (and "no next message") has position `n` = end of input. -/
theorem children_eq_expected (cfg : AppCfg) (spawnOk : Nat → Bool) (inp : AppInput)
    (hc : cfg.hasChild = true) (hok : ∀ k, spawnOk k = true) :
    (appRun cfg spawnOk inp).children
      = expectedChildren inp.n (inp.live ++ inp.flushed.map (fun m => (inp.n, m))) := by
  rw [appRun_eq_go, go_children_all_ok _ _ _ _ _ hc hok]
  simp [AppInput.all]

/-- the messages the children were spawned for are exactly the StartOfMessages, in order -/
theorem children_one_per_som (cfg : AppCfg) (spawnOk : Nat → Bool) (inp : AppInput)
    (hc : cfg.hasChild = true) (hok : ∀ k, spawnOk k = true) :
    (appRun cfg spawnOk inp).children.map (·.1)
      = (inp.live.map (·.2) ++ inp.flushed).filter AMsg.isSom := by
  rw [children_eq_expected cfg spawnOk inp hc hok, expectedChildren_msgs]
  exact congrArg _ (all_map_snd inp)

/-- whatever the configuration and whatever the OS does, the children that do get spawned are a
    subsequence of the expected ones: a failed spawn removes that child only and never changes
    the range any other child receives. -/
theorem children_sublist_expected (cfg : AppCfg) (spawnOk : Nat → Bool) (inp : AppInput) :
    (appRun cfg spawnOk inp).children.Sublist
      (expectedChildren inp.n (inp.live ++ inp.flushed.map (fun m => (inp.n, m)))) := by
  rw [appRun_eq_go]
  cases hc : cfg.hasChild with
  | false => rw [(go_no_child _ _ _ _ _ hc).1]; exact List.nil_sublist _
  | true =>
    rw [go_children _ _ _ _ _ hc]
    simpa [AppInput.all] using goChildren_sublist spawnOk inp.n inp.all 0

/-- **C12.4b** if the positions of the live messages are non-decreasing and within the input,
    then (for every configuration and OS behaviour) every child's range is well-formed,
    `from ≤ to ≤ n`, and the ranges do not overlap: an earlier child's range ends at or before
    the start of every later child's range — in particular for consecutive children. -/
theorem children_contiguous (cfg : AppCfg) (spawnOk : Nat → Bool) (inp : AppInput)
    (hs : inp.live.Pairwise (fun a b => a.1 ≤ b.1)) (hn : ∀ x ∈ inp.live, x.1 ≤ inp.n) :
    (∀ c ∈ (appRun cfg spawnOk inp).children, c.2.1 ≤ c.2.2 ∧ c.2.2 ≤ inp.n) ∧
    (appRun cfg spawnOk inp).children.Pairwise (fun a b => a.2.2 ≤ b.2.1) ∧
    (∀ (k : Nat) (hk : k + 1 < (appRun cfg spawnOk inp).children.length),
      ((appRun cfg spawnOk inp).children[k]'(by omega)).2.2
        ≤ ((appRun cfg spawnOk inp).children[k + 1]'hk).2.1) := by
  have hsub := children_sublist_expected cfg spawnOk inp
  have hpos := posOk_all inp hs hn
  have hpw : (appRun cfg spawnOk inp).children.Pairwise (fun a b => a.2.2 ≤ b.2.1) :=
    (expectedChildren_pairwise hpos).sublist hsub
  refine ⟨fun c hc => expectedChildren_range hpos (hsub.subset hc), hpw, fun k hk => ?_⟩
  exact pairwise_consecutive hpw k hk

/-- **C12.5a** no child configured: no child, no spawn attempt -/
theorem no_child_without_config (cfg : AppCfg) (spawnOk : Nat → Bool) (inp : AppInput)
    (hc : cfg.hasChild = false) :
    (appRun cfg spawnOk inp).children = [] ∧ (appRun cfg spawnOk inp).spawnAttempts = 0 := by
  rw [appRun_eq_go]
  exact go_no_child _ _ _ _ _ hc

/-- **C12.5b** child configured: every StartOfMessage gets exactly one spawn attempt whatever the
    OS answers, and the number of children is the number of attempts the OS let succeed. -/
theorem spawn_attempts_eq_soms (cfg : AppCfg) (spawnOk : Nat → Bool) (inp : AppInput)
    (hc : cfg.hasChild = true) :
    (appRun cfg spawnOk inp).spawnAttempts
      = (inp.live.map (·.2) ++ inp.flushed).countP AMsg.isSom ∧
    (appRun cfg spawnOk inp).children.length
      = ((List.range (appRun cfg spawnOk inp).spawnAttempts).filter (fun k => spawnOk k)).length := by
  have h1 : (appRun cfg spawnOk inp).spawnAttempts
      = (inp.live.map (·.2) ++ inp.flushed).countP AMsg.isSom := by
    rw [appRun_eq_go, go_spawnAttempts _ _ _ _ _ hc, all_map_snd]
    simp [somCount, AppInput.msgs]
  refine ⟨h1, ?_⟩
  rw [h1, appRun_eq_go, go_children_length _ _ _ _ _ hc, all_map_snd]
  simp [okCount, somCount, AppInput.msgs, List.range_eq_range', List.countP_eq_length_filter]

/-- non-vacuity: a concrete run.  The first child gets [10, 50) (up to the EOM), the second
    gets [60, 100): the next message comes from the flush, so its audio runs to the end of input. -/
example :
    (appRun ⟨false, true⟩ (fun _ => true)
      ⟨100, [(10, .som [90]), (50, .eom), (60, .som [91])], [.eom]⟩).children
      = [(.som [90], 10, 50), (.som [91], 60, 100)] := by decide

/-- the first spawn fails: only that child is missing -/
example :
    (appRun ⟨false, true⟩ (fun k => k != 0)
      ⟨100, [(10, .som [90]), (50, .eom), (60, .som [91])], [.eom]⟩).children
      = [(.som [91], 60, 100)] ∧
    (appRun ⟨false, true⟩ (fun k => k != 0)
      ⟨100, [(10, .som [90]), (50, .eom), (60, .som [91])], [.eom]⟩).spawnAttempts = 2 := by decide

/-- a StartOfMessage directly followed by another StartOfMessage: the first child gets the
    samples up to the point the second header is returned -/
example :
    (appRun ⟨true, true⟩ (fun _ => true) ⟨100, [(10, .som [90]), (40, .som [91])], []⟩).children
      = [(.som [90], 10, 40), (.som [91], 40, 100)] := by decide

end SameVerif.C12

/- C12 (environment): the SAMEDEC_* variables restate the header. -/
namespace SameVerif.C12
open SameVerif SameVerif.Gen SameVerif.C06

/-- **The child's environment restates the header.**  For every accepted header (fields `f` as
    matched by the parser) and every clock, `spawn` cannot panic and sets: MSG = the stored text,
    ORG / EVT = the originator and event fields, ORIGINATOR / EVENT / SIGNIFICANCE / SIG_NUM = their
    decodings, LOCATIONS = the location fields joined by spaces, IS_NATIONAL per `national_flag`,
    and ISSUETIME / PURGETIME either both empty (issue time not computable) or the epoch seconds
    of the inferred issue instant and of that instant plus the validity period. -/
theorem env_restates_header (s : List Byte) (h : Header) (hn : Header.new s = .ok h)
    (f : Fields) (hp : parseFields s = some f) (rateStr : Str) (y : Int) (d : Nat) :
    ∃ e, childEnv h rateStr y d = .ok e
      ∧ e.rate = rateStr
      ∧ e.msg = natStr h.text
      ∧ e.org = natStr f.org
      ∧ e.originator = (originatorOf (natStr f.org) (natStr f.call)).display
      ∧ e.evt = natStr f.evt
      ∧ e.event = eventDisplay (eventCode (natStr f.evt))
      ∧ e.significance = (eventCode (natStr f.evt)).2.code
      ∧ e.sigNum = decStr (eventCode (natStr f.evt)).2.num
      ∧ e.locations = joinSpace (f.locs.map natStr)
      ∧ e.isNational = boolEnv (decide (f.locs = [[48, 48, 48, 48, 48, 48]]) && (eventCode (natStr f.evt)).1.info.national)
      ∧ (let doy := digitsVal (f.issue.take 3)
         let hh := digitsVal ((f.issue.drop 3).take 2)
         let mm := digitsVal (f.issue.drop 5)
         let dh := digitsVal (f.purge.take 2)
         let dm := digitsVal (f.purge.drop 2)
         match calcIssue doy hh mm y d with
         | some t => e.issueTime = epochStr t.epochSecs ∧ e.purgeTime = epochStr (t.epochSecs + durationSecs dh dm)
         | none => e.issueTime = [] ∧ e.purgeTime = []) := by
  obtain ⟨a1, a2, a3, _, a5, a6, a7⟩ := accessors s h hn f hp
  have b1 := accessor_originator s h hn f hp
  have b2 := accessor_event s h hn f hp
  have b3 := accessor_national s h hn f hp
  simp only [childEnv, a1, a2, a5, a6, a7, b1, b2, b3]
  refine ⟨_, rfl, rfl, rfl, rfl, rfl, rfl, rfl, rfl, rfl, rfl, rfl, ?_⟩
  simp only
  cases calcIssue (digitsVal (f.issue.take 3)) (digitsVal ((f.issue.drop 3).take 2)) (digitsVal (f.issue.drop 5)) y d <;> simp

/-- `spawn` never panics on an accepted header -/
theorem env_total (s : List Byte) (h : Header) (hn : Header.new s = .ok h) (rateStr : Str) (y : Int) (d : Nat) :
    ∃ e, childEnv h rateStr y d = .ok e := by
  obtain ⟨f, _, hp, _⟩ := text_canonical s h hn
  obtain ⟨e, he, _⟩ := env_restates_header s h hn f hp rateStr y d
  exact ⟨e, he⟩

/-- when both times are set they differ by exactly the validity period (as integers, before
    rendering) -/
theorem purge_minus_issue (t : IssueTime) (dh dm : Nat) :
    (t.epochSecs + durationSecs dh dm) - t.epochSecs = 3600 * (dh : Int) + 60 * (dm : Int) := by
  simp only [durationSecs]; omega

/-- rendering is injective on naturals, so equal `SAMEDEC_*TIME` strings mean equal instants -/
theorem epochStr_nonempty (i : Int) : epochStr i ≠ [] := by
  cases i with
  | ofNat n =>
    simp only [epochStr, decStr, ne_eq, List.map_eq_nil_iff]
    intro h
    have := Nat.toDigits_ne_nil (b := 10) (n := n)
    exact this h
  | negSucc n => simp [epochStr]

-- non-vacuity: the example header of Thm/C06 (`ZCZC-WXR-RWT-012345-567890+0030-1231200-KLOX/NWS-`),
-- received on day 100 of 2021 at 22050 Hz
example : ∃ e, childEnv exHeader [50, 50, 48, 53, 48] 2021 100 = .ok e
    ∧ e.org = [87, 88, 82] ∧ e.evt = [82, 87, 84] ∧ e.sigNum = [48] ∧ e.isNational = []
    ∧ e.locations = [48, 49, 50, 51, 52, 53, 32, 53, 54, 55, 56, 57, 48]
    ∧ e.issueTime = [49, 54, 50, 48, 48, 52, 51, 50, 48, 48]      -- 1620043200 = 2021-05-03T12:00Z
    ∧ e.purgeTime = [49, 54, 50, 48, 48, 52, 53, 48, 48, 48] := by -- + 30 min
  refine ⟨_, rfl, ?_, ?_, ?_, ?_, ?_, ?_, ?_⟩ <;> decide +kernel

end SameVerif.C12
