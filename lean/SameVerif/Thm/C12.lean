import SameVerif.Lemmas.AppFacts
/-
  C12 — child processes get the exact message audio: one child per StartOfMessage, each fed the
  input samples from the point its header was returned up to the point the next message is
  returned, or to the end of input (live mode; model: Model/App.lean).

  The specification `expectedChildren` is defined in Lemmas/AppFacts.lean:

    expectedChildren n []                  = []
    expectedChildren n ((p, .som t) :: tl) = (.som t, p, nextPos n tl) :: expectedChildren n tl
    expectedChildren n ((_, .eom)   :: tl) = expectedChildren n tl
    nextPos n []            = n
    nextPos n ((q, _) :: _) = q
-/
namespace SameVerif.C12
open SameVerif

/-- **C12.4a** a child is configured and every spawn succeeds: the children are exactly the
    expected ones — one per StartOfMessage of `live ++ flushed`, in order, each with the
    half-open sample range [position of its header, position of the next message), where a
    flushed message (and "no next message") has position `n` = end of input. -/
theorem children_eq_expected (cfg : AppCfg) (spawnOk : Nat → Bool) (inp : AppInput)
    (hc : cfg.hasChild = true) (hok : ∀ k, spawnOk k = true) :
    (appRun cfg spawnOk inp).children
      = expectedChildren inp.n (inp.live ++ inp.flushed.map (fun m => (inp.n, m))) := by
  rw [appRun_eq_go, go_children_all_ok _ _ _ _ _ hc hok]
  simp [AppInput.all]

/-- the messages the children were spawned for are exactly the StartOfMessages, in order -/
theorem children_one_per_som (cfg : AppCfg) (spawnOk : Nat → Bool) (inp : AppInput)
    (hc : cfg.hasChild = true) (hok : ∀ k, spawnOk k = true) :
    (appRun cfg spawnOk inp).children.map (·.1)
      = (inp.live.map (·.2) ++ inp.flushed).filter AMsg.isSom := by
  rw [children_eq_expected cfg spawnOk inp hc hok, expectedChildren_msgs]
  exact congrArg _ (all_map_snd inp)

/-- whatever the configuration and whatever the OS does, the children that do get spawned are a
    subsequence of the expected ones: a failed spawn removes that child only and never changes
    the range any other child receives. -/
theorem children_sublist_expected (cfg : AppCfg) (spawnOk : Nat → Bool) (inp : AppInput) :
    (appRun cfg spawnOk inp).children.Sublist
      (expectedChildren inp.n (inp.live ++ inp.flushed.map (fun m => (inp.n, m)))) := by
  rw [appRun_eq_go]
  cases hc : cfg.hasChild with
  | false => rw [(go_no_child _ _ _ _ _ hc).1]; exact List.nil_sublist _
  | true =>
    rw [go_children _ _ _ _ _ hc]
    simpa [AppInput.all] using goChildren_sublist spawnOk inp.n inp.all 0

/-- **C12.4b** if the positions of the live messages are non-decreasing and within the input,
    then (for every configuration and OS behaviour) every child's range is well-formed,
    `from ≤ to ≤ n`, and the ranges do not overlap: an earlier child's range ends at or before
    the start of every later child's range — in particular for consecutive children. -/
theorem children_contiguous (cfg : AppCfg) (spawnOk : Nat → Bool) (inp : AppInput)
    (hs : inp.live.Pairwise (fun a b => a.1 ≤ b.1)) (hn : ∀ x ∈ inp.live, x.1 ≤ inp.n) :
    (∀ c ∈ (appRun cfg spawnOk inp).children, c.2.1 ≤ c.2.2 ∧ c.2.2 ≤ inp.n) ∧
    (appRun cfg spawnOk inp).children.Pairwise (fun a b => a.2.2 ≤ b.2.1) ∧
    (∀ (k : Nat) (hk : k + 1 < (appRun cfg spawnOk inp).children.length),
      ((appRun cfg spawnOk inp).children[k]'(by omega)).2.2
        ≤ ((appRun cfg spawnOk inp).children[k + 1]'hk).2.1) := by
  have hsub := children_sublist_expected cfg spawnOk inp
  have hpos := posOk_all inp hs hn
  have hpw : (appRun cfg spawnOk inp).children.Pairwise (fun a b => a.2.2 ≤ b.2.1) :=
    (expectedChildren_pairwise hpos).sublist hsub
  refine ⟨fun c hc => expectedChildren_range hpos (hsub.subset hc), hpw, fun k hk => ?_⟩
  exact pairwise_consecutive hpw k hk

/-- **C12.5a** no child configured: no child, no spawn attempt -/
theorem no_child_without_config (cfg : AppCfg) (spawnOk : Nat → Bool) (inp : AppInput)
    (hc : cfg.hasChild = false) :
    (appRun cfg spawnOk inp).children = [] ∧ (appRun cfg spawnOk inp).spawnAttempts = 0 := by
  rw [appRun_eq_go]
  exact go_no_child _ _ _ _ _ hc

/-- **C12.5b** child configured: every StartOfMessage gets exactly one spawn attempt whatever the
    OS answers, and the number of children is the number of attempts the OS let succeed. -/
theorem spawn_attempts_eq_soms (cfg : AppCfg) (spawnOk : Nat → Bool) (inp : AppInput)
    (hc : cfg.hasChild = true) :
    (appRun cfg spawnOk inp).spawnAttempts
      = (inp.live.map (·.2) ++ inp.flushed).countP AMsg.isSom ∧
    (appRun cfg spawnOk inp).children.length
      = ((List.range (appRun cfg spawnOk inp).spawnAttempts).filter (fun k => spawnOk k)).length := by
  have h1 : (appRun cfg spawnOk inp).spawnAttempts
      = (inp.live.map (·.2) ++ inp.flushed).countP AMsg.isSom := by
    rw [appRun_eq_go, go_spawnAttempts _ _ _ _ _ hc, all_map_snd]
    simp [somCount, AppInput.msgs]
  refine ⟨h1, ?_⟩
  rw [h1, appRun_eq_go, go_children_length _ _ _ _ _ hc, all_map_snd]
  simp [okCount, somCount, AppInput.msgs, List.range_eq_range', List.countP_eq_length_filter]

/-- non-vacuity: a concrete run.  The first child gets [10, 50) (up to the EOM), the second
    gets [60, 100): the next message comes from the flush, so its audio runs to the end of input. -/
example :
    (appRun ⟨false, true⟩ (fun _ => true)
      ⟨100, [(10, .som [90]), (50, .eom), (60, .som [91])], [.eom]⟩).children
      = [(.som [90], 10, 50), (.som [91], 60, 100)] := by decide

/-- the first spawn fails: only that child is missing -/
example :
    (appRun ⟨false, true⟩ (fun k => k != 0)
      ⟨100, [(10, .som [90]), (50, .eom), (60, .som [91])], [.eom]⟩).children
      = [(.som [91], 60, 100)] ∧
    (appRun ⟨false, true⟩ (fun k => k != 0)
      ⟨100, [(10, .som [90]), (50, .eom), (60, .som [91])], [.eom]⟩).spawnAttempts = 2 := by decide

/-- a StartOfMessage directly followed by another StartOfMessage: the first child gets the
    samples up to the point the second header is returned -/
example :
    (appRun ⟨true, true⟩ (fun _ => true) ⟨100, [(10, .som [90]), (40, .som [91])], []⟩).children
      = [(.som [90], 10, 40), (.som [91], 40, 100)] := by decide

end SameVerif.C12
