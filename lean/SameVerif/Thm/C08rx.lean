import SameVerif.Lemmas.RxProv
/-
  C08 at receiver level — the hold survives carrier activity: a pending result is reported at the
  FIRST NoCarrier tick at or after its deadline whatever Searching / Reading ticks intervene
  (no burst), nothing is reported before, and the deadline is acceptance + HOLD exactly.
  (Separate module: Lemmas/ReceiverFacts imports Thm/C08, so these cannot live in Thm/C08.)
-/
namespace SameVerif.RxProv
open SameVerif SameVerif.C08 SameVerif.C09 SameVerif.C14

/-! ## PART B — the hold survives carrier activity -/

/-! ### B1 — Searching / Reading ticks -/

/-- a Searching / Reading tick (any state) does not consult the assembler: assembler, timer and
    reported transport state are unchanged, and no transport event at all is emitted -/
theorem carrier_tick (rate : Nat) (s : RState) (sample sym : Nat) (ls : LinkSt)
    (hls : ls = .searching ∨ ls = .reading) :
    (rTick rate s sample sym ls).1.asm = s.asm
      ∧ (rTick rate s sample sym ls).1.forceEomAt = s.forceEomAt
      ∧ (rTick rate s sample sym ls).1.transportState = s.transportState
      ∧ (rTick rate s sample sym ls).2 = linkEv s sample ls
      ∧ NoMessage (rTick rate s sample sym ls).2 := by
  have hc := tlCore_carrier s sample sym ls hls
  have hev : (rTick rate s sample sym ls).2 = linkEv s sample ls := by
    rw [rTick_eq, hc]; simp [trEv]
  refine ⟨?_, ?_, ?_, hev, ?_⟩
  · rw [rTick_eq]; simp only [rNext, hc]
  · rw [rTick_eq]; simp only [rNext, hc, forceAfter]
  · rw [rTick_eq]; simp only [rNext, hc]
  · rw [hev]; exact noMessage_linkEv s sample ls

/-- **B1.**  While `t` is pending, a Searching / Reading tick leaves the assembler and the timer
    unchanged, emits no message event, and `t` is still pending afterwards. -/
theorem carrier_tick_holding (rate : Nat) (s : RState) (t : Timed MsgResult) (h : Holding s t)
    (sample sym : Nat) (ls : LinkSt) (hls : ls = .searching ∨ ls = .reading) :
    (rTick rate s sample sym ls).1.asm = s.asm
      ∧ (rTick rate s sample sym ls).1.forceEomAt = s.forceEomAt
      ∧ NoMessage (rTick rate s sample sym ls).2
      ∧ Holding (rTick rate s sample sym ls).1 t := by
  obtain ⟨h1, h2, h3, _, h5⟩ := carrier_tick rate s sample sym ls hls
  refine ⟨h1, h2, h5, ⟨by rw [h1]; exact h.pend, ?_, by rw [h1]; exact h.noeom⟩⟩
  unfold PendInv
  rw [h1, h3]
  exact h.pinv

/-! ### B2 — runs of Searching / Reading / early NoCarrier ticks -/

/-- `t` stays pending over any run of ticks that cannot release it (`Early`: Searching, Reading,
    or NoCarrier before the deadline) — whatever the timer does -/
theorem holding_early_run (rate : Nat) (s : RState) (t : Timed MsgResult) (h : Holding s t)
    (pre : List RTick) (hpre : ∀ tk ∈ pre, Early t tk) : Holding (rRun rate s pre).1 t := by
  induction pre generalizing s with
  | nil => exact h
  | cons x xs ih =>
    obtain ⟨smp, sy, ls⟩ := x
    rw [rRun_cons]
    refine ih _ ?_ (fun tk htk => hpre tk (List.mem_cons_of_mem _ htk))
    rcases hpre (smp, sy, ls) List.mem_cons_self with hls | ⟨hls, hsy⟩
    · exact (carrier_tick_holding rate s t h smp sy ls hls).2.2.2
    · simp only at hls hsy
      subst hls
      exact early_tick_holding rate s t h smp sy hsy

/-- … and if the timer does not fire on these ticks, it is left alone and no message event of any
    kind is emitted -/
theorem quiet_early_run (rate : Nat) (s : RState) (t : Timed MsgResult) (h : Holding s t)
    (pre : List RTick) (hpre : ∀ tk ∈ pre, Early t tk)
    (hforce : ∀ T, s.forceEomAt = some T → ∀ tk ∈ pre, tk.1 ≤ T) :
    Holding (rRun rate s pre).1 t
      ∧ (rRun rate s pre).1.forceEomAt = s.forceEomAt
      ∧ NoMessage (rRun rate s pre).2 := by
  induction pre generalizing s with
  | nil => exact ⟨h, rfl, fun e he => by cases he⟩
  | cons x xs ih =>
    obtain ⟨smp, sy, ls⟩ := x
    rw [rRun_cons]
    have hstep : Holding (rTick rate s smp sy ls).1 t
        ∧ (rTick rate s smp sy ls).1.forceEomAt = s.forceEomAt
        ∧ NoMessage (rTick rate s smp sy ls).2 := by
      rcases hpre (smp, sy, ls) List.mem_cons_self with hls | ⟨hls, hsy⟩
      · obtain ⟨_, h2, h3, h4⟩ := carrier_tick_holding rate s t h smp sy ls hls
        exact ⟨h4, h2, h3⟩
      · simp only at hls hsy
        subst hls
        have hnf := not_forced_of s smp .noCarrier
          (fun T hT => hforce T hT (smp, sy, .noCarrier) List.mem_cons_self)
        obtain ⟨h2, h3⟩ := early_tick rate s t h smp sy hsy hnf
        exact ⟨early_tick_holding rate s t h smp sy hsy, h2, h3⟩
    obtain ⟨s1, s2, s3⟩ := hstep
    obtain ⟨i1, i2, i3⟩ := ih _ s1 (fun tk htk => hpre tk (List.mem_cons_of_mem _ htk))
      (by rw [s2]; intro T hT tk htk; exact hforce T hT tk (List.mem_cons_of_mem _ htk))
    exact ⟨i1, by rw [i2, s2], noMessage_append _ _ s3 i3⟩

/-- **B2 (segments).**  `t` pending; `pre` are ticks that cannot release it; then a NoCarrier tick
    at or after the deadline; the timer, if armed, fires on none of these ticks.  No message event
    is emitted during `pre`; the tick emits `.message t.data` and empties the slot. -/
theorem hold_releases (rate : Nat) (s : RState) (t : Timed MsgResult) (h : Holding s t)
    (pre : List RTick) (sample sym : Nat) (hpre : ∀ tk ∈ pre, Early t tk)
    (hforce : ∀ T, s.forceEomAt = some T → (∀ tk ∈ pre, tk.1 ≤ T) ∧ sample ≤ T)
    (hdue : t.deadline ≤ sym) :
    NoMessage (rRun rate s pre).2
      ∧ (rRun rate s pre).1.forceEomAt = s.forceEomAt
      ∧ Event.transport sample (.message t.data)
          ∈ (rTick rate (rRun rate s pre).1 sample sym .noCarrier).2
      ∧ (rTick rate (rRun rate s pre).1 sample sym .noCarrier).1.asm.pending = none
      ∧ (rTick rate (rRun rate s pre).1 sample sym .noCarrier).1.transportState = .message t.data := by
  obtain ⟨h1, h2, h3⟩ := quiet_early_run rate s t h pre hpre (fun T hT => (hforce T hT).1)
  have hnf := not_forced_of (rRun rate s pre).1 sample .noCarrier
    (fun T hT => by rw [h2] at hT; exact (hforce T hT).2)
  obtain ⟨d1, d2, d3⟩ := due_tick rate _ t h1 sample sym hdue hnf
  exact ⟨h3, h2, d1, d2, d3⟩

/-- no-burst ticks that are not a due NoCarrier tick are `Early` -/
theorem early_of_not_due (t : Timed MsgResult) (tk : RTick) (hnb : ∀ b, tk.2.2 ≠ .burst b)
    (h : ¬ (tk.2.2 = .noCarrier ∧ t.deadline ≤ tk.2.1)) : Early t tk := by
  obtain ⟨smp, sy, ls⟩ := tk
  cases ls with
  | searching => exact Or.inl (Or.inl rfl)
  | reading => exact Or.inl (Or.inr rfl)
  | burst b => exact absurd rfl (hnb b)
  | noCarrier =>
    right
    refine ⟨rfl, ?_⟩
    simp only [true_and] at h
    simp only
    omega

/-- **B2 (run).**  `t` pending; no tick is a burst; the timer, if armed, does not fire; some
    NoCarrier tick has `sym ≥ t.deadline`.  Then `.message t.data` is reported exactly at the FIRST
    NoCarrier tick at or after the deadline, whatever Searching / Reading ticks intervene, and no
    message event is reported before. -/
theorem hold_releases_run (rate : Nat) (s : RState) (t : Timed MsgResult) (h : Holding s t)
    (ticks : List RTick) (hnb : ∀ tk ∈ ticks, ∀ b, tk.2.2 ≠ .burst b)
    (hforce : ∀ T, s.forceEomAt = some T → ∀ tk ∈ ticks, tk.1 ≤ T)
    (hex : ∃ tk ∈ ticks, tk.2.2 = .noCarrier ∧ t.deadline ≤ tk.2.1) :
    ∃ pre sample sym post, ticks = pre ++ (sample, sym, .noCarrier) :: post
      ∧ t.deadline ≤ sym
      ∧ (∀ x ∈ pre, x.2.2 ≠ .noCarrier ∨ x.2.1 < t.deadline)
      ∧ NoMessage (rRun rate s pre).2
      ∧ Event.transport sample (.message t.data)
          ∈ (rTick rate (rRun rate s pre).1 sample sym .noCarrier).2
      ∧ (rTick rate (rRun rate s pre).1 sample sym .noCarrier).1.asm.pending = none
      ∧ (rRun rate s ticks).2
          = (rRun rate s pre).2 ++ (rTick rate (rRun rate s pre).1 sample sym .noCarrier).2
              ++ (rRun rate (rTick rate (rRun rate s pre).1 sample sym .noCarrier).1 post).2
      ∧ Event.transport sample (.message t.data) ∈ (rRun rate s ticks).2 := by
  obtain ⟨pre, tk, post, rfl, h1, h2⟩ :=
    exists_first (fun tk => tk.2.2 = .noCarrier ∧ t.deadline ≤ tk.2.1) ticks hex
  obtain ⟨sample, sym, ls⟩ := tk
  simp only at h2
  obtain ⟨rfl, hdue⟩ := h2
  have hearly : ∀ tk ∈ pre, Early t tk := fun tk htk =>
    early_of_not_due t tk (hnb tk (by simp [htk])) (h1 tk htk)
  obtain ⟨r1, _, r3, r4, _⟩ := hold_releases rate s t h pre sample sym hearly
    (fun T hT => ⟨fun tk htk => hforce T hT tk (by simp [htk]),
      hforce T hT (sample, sym, .noCarrier) (by simp)⟩) hdue
  have hsplit : (rRun rate s (pre ++ (sample, sym, .noCarrier) :: post)).2
      = (rRun rate s pre).2 ++ (rTick rate (rRun rate s pre).1 sample sym .noCarrier).2
          ++ (rRun rate (rTick rate (rRun rate s pre).1 sample sym .noCarrier).1 post).2 := by
    rw [rRun_append, rRun_cons]; simp only [List.append_assoc]
  refine ⟨pre, sample, sym, post, rfl, hdue, ?_, r1, r3, r4, hsplit, ?_⟩
  · intro x hx
    have := h1 x hx
    by_cases hx' : x.2.2 = .noCarrier
    · right
      have : ¬ t.deadline ≤ x.2.1 := fun hd => this ⟨hx', hd⟩
      omega
    · exact Or.inl hx'
  · rw [hsplit]
    exact List.mem_append_left _ (List.mem_append_right _ r3)

/-- **B2 without any assumption on the timer.**  The timer can pre-empt the assembler on at most
    one NoCarrier tick (the forced EndOfMessage): of the first two NoCarrier ticks at or after the
    deadline — with only Searching / Reading / early NoCarrier ticks around them — one reports
    the pending result. -/
theorem hold_releases_unconditional (rate : Nat) (s : RState) (t : Timed MsgResult) (h : Holding s t)
    (pre mid : List RTick) (sample1 sym1 sample2 sym2 : Nat)
    (hpre : ∀ tk ∈ pre, Early t tk) (hmid : ∀ tk ∈ mid, Early t tk)
    (hdue1 : t.deadline ≤ sym1) (hdue2 : t.deadline ≤ sym2) :
    Event.transport sample1 (.message t.data)
        ∈ (rTick rate (rRun rate s pre).1 sample1 sym1 .noCarrier).2
    ∨ Event.transport sample2 (.message t.data)
        ∈ (rTick rate (rRun rate (rTick rate (rRun rate s pre).1 sample1 sym1 .noCarrier).1 mid).1
            sample2 sym2 .noCarrier).2 := by
  have h1 := holding_early_run rate s t h pre hpre
  by_cases hf : Forced (rRun rate s pre).1 sample1 .noCarrier
  · right
    obtain ⟨h2, hnone⟩ := forced_tick rate _ t h1 sample1 sym1 hf
    obtain ⟨h3, hfo, _⟩ := quiet_early_run rate _ t h2 mid hmid
      (fun T hT => by rw [hnone] at hT; cases hT)
    have hnf := not_forced_of
      (rRun rate (rTick rate (rRun rate s pre).1 sample1 sym1 .noCarrier).1 mid).1 sample2 .noCarrier
      (fun T hT => by rw [hfo, hnone] at hT; cases hT)
    exact (due_tick rate _ t h3 sample2 sym2 hdue2 hnf).1
  · left
    exact (due_tick rate _ t h1 sample1 sym1 hdue1 hf).1

/-- the same, as membership in the events of the whole run -/
theorem hold_releases_unconditional_run (rate : Nat) (s : RState) (t : Timed MsgResult) (h : Holding s t)
    (pre mid post : List RTick) (sample1 sym1 sample2 sym2 : Nat)
    (hpre : ∀ tk ∈ pre, Early t tk) (hmid : ∀ tk ∈ mid, Early t tk)
    (hdue1 : t.deadline ≤ sym1) (hdue2 : t.deadline ≤ sym2) :
    Event.transport sample1 (.message t.data)
        ∈ (rRun rate s (pre ++ (sample1, sym1, .noCarrier) :: (mid ++ (sample2, sym2, .noCarrier) :: post))).2
    ∨ Event.transport sample2 (.message t.data)
        ∈ (rRun rate s (pre ++ (sample1, sym1, .noCarrier) :: (mid ++ (sample2, sym2, .noCarrier) :: post))).2 := by
  rw [rRun_append, rRun_cons, rRun_append, rRun_cons]
  simp only [List.mem_append]
  rcases hold_releases_unconditional rate s t h pre mid sample1 sym1 sample2 sym2 hpre hmid hdue1 hdue2
    with h1 | h2
  · exact Or.inl (Or.inr (Or.inl h1))
  · exact Or.inr (Or.inr (Or.inr (Or.inr (Or.inl h2))))

/-! ### B3 — with the deadline bound: reported within `HOLD` symbols of acceptance -/

/-- a pending result that `accept` stored at symbol `now` and that is still pending under the
    invariant is not an EndOfMessage, so its deadline is exactly `now + HOLD` -/
theorem acceptNew_deadline_eq (r : MsgResult) (now : Nat) (hr : r ≠ .ok .eom) :
    (acceptNew r now).deadline = now + HOLD := by
  unfold acceptNew
  split
  · exact absurd rfl hr
  · rfl

theorem holding_acceptNew_deadline (s : RState) (r : MsgResult) (now : Nat)
    (h : Holding s (acceptNew r now)) : (acceptNew r now).deadline = now + HOLD := by
  apply acceptNew_deadline_eq
  intro hr
  exact h.noeom _ h.pend (by rw [acceptNew_data]; exact hr)

/-- where a pending result comes from: after a burst tick at symbol `now` the slot is empty, or
    holds what it held before, or holds a result accepted at `now` (due at `now + HOLD` exactly) -/
theorem burst_tick_pending (rate : Nat) (s : RState) (sample now : Nat) (b : List Byte)
    (hne : NoEomPending s.asm) :
    (rTick rate s sample now (.burst b)).1.asm.pending = none
      ∨ (rTick rate s sample now (.burst b)).1.asm.pending = s.asm.pending
      ∨ ∃ r, (rTick rate s sample now (.burst b)).1.asm.pending = some (acceptNew r now)
          ∧ (acceptNew r now).deadline = now + HOLD := by
  have hasm : (rTick rate s sample now (.burst b)).1.asm = (aAssemble s.asm b now).1 := by
    rw [rTick_eq]; rfl
  have hne' : NoEomPending (rTick rate s sample now (.burst b)).1.asm := by
    rw [hasm]; exact noEomPending_assemble s.asm b now hne
  rw [hasm] at hne' ⊢
  obtain ⟨a', ha, hp⟩ := aAssemble_as_idle s.asm b now
  rw [ha] at hne' ⊢
  rcases aIdle_cases a' now with ⟨_, _, _, _, h4⟩ | ⟨h1, _, _⟩
  · exact Or.inl h4
  · rcases hp with hp | ⟨r, hp⟩
    · right; left; rw [h1, hp]
    · right; right
      refine ⟨r, by rw [h1, hp], acceptNew_deadline_eq r now ?_⟩
      intro hr
      exact hne' _ (by rw [h1, hp]) (by rw [acceptNew_data]; exact hr)

/-- **B3 (bound form).**  `t` pending with `t.deadline ≤ D` (e.g. `D = now + HOLD` for a result
    accepted at `now`: `acceptNew_deadline_le`; or `D = T + HOLD` from `PendingDueBy`); no bursts;
    the timer does not fire; some NoCarrier tick has `sym ≥ D`.  Split the ticks at the FIRST
    NoCarrier tick with `sym ≥ D`: the message has been reported by the end of that tick — at a
    NoCarrier tick of the prefix or at that very tick. -/
theorem hold_released_by (rate : Nat) (s : RState) (t : Timed MsgResult) (h : Holding s t) (D : Nat)
    (hD : t.deadline ≤ D)
    (ticks : List RTick) (hnb : ∀ tk ∈ ticks, ∀ b, tk.2.2 ≠ .burst b)
    (hforce : ∀ T, s.forceEomAt = some T → ∀ tk ∈ ticks, tk.1 ≤ T)
    (hex : ∃ tk ∈ ticks, tk.2.2 = .noCarrier ∧ D ≤ tk.2.1) :
    ∃ pre sample sym post, ticks = pre ++ (sample, sym, .noCarrier) :: post
      ∧ D ≤ sym
      ∧ (∀ x ∈ pre, x.2.2 ≠ .noCarrier ∨ x.2.1 < D)
      ∧ ∃ tk ∈ pre ++ [(sample, sym, .noCarrier)], tk.2.2 = .noCarrier ∧ t.deadline ≤ tk.2.1
          ∧ Event.transport tk.1 (.message t.data) ∈ (rRun rate s (pre ++ [(sample, sym, .noCarrier)])).2 := by
  obtain ⟨pre, tk, post, rfl, h1, h2⟩ :=
    exists_first (fun tk => tk.2.2 = .noCarrier ∧ D ≤ tk.2.1) ticks hex
  obtain ⟨sample, sym, ls⟩ := tk
  simp only at h2
  obtain ⟨rfl, hdue⟩ := h2
  refine ⟨pre, sample, sym, post, rfl, hdue, ?_, ?_⟩
  · intro x hx
    have := h1 x hx
    by_cases hx' : x.2.2 = .noCarrier
    · right
      have : ¬ D ≤ x.2.1 := fun hd => this ⟨hx', hd⟩
      omega
    · exact Or.inl hx'
  · obtain ⟨p, smp, sy, q, hsplit, hdl, _, _, _, _, _, hmem⟩ :=
      hold_releases_run rate s t h (pre ++ [(sample, sym, .noCarrier)])
        (fun tk htk => hnb tk (by
          rcases List.mem_append.1 htk with h | h
          · simp [h]
          · simp only [List.mem_singleton] at h; simp [h]))
        (fun T hT tk htk => hforce T hT tk (by
          rcases List.mem_append.1 htk with h | h
          · simp [h]
          · simp only [List.mem_singleton] at h; simp [h]))
        ⟨(sample, sym, .noCarrier), by simp, rfl, by simp only; omega⟩
    refine ⟨(smp, sy, .noCarrier), ?_, rfl, hdl, hmem⟩
    rw [hsplit]; simp

/-- **B3 (exact form).**  A result accepted at symbol `now` and pending under the invariant is
    reported exactly at the first NoCarrier tick with `sym ≥ now + HOLD` (no bursts, timer not
    firing), and no message event precedes it. -/
theorem accepted_released (rate : Nat) (s : RState) (r : MsgResult) (now : Nat)
    (h : Holding s (acceptNew r now))
    (ticks : List RTick) (hnb : ∀ tk ∈ ticks, ∀ b, tk.2.2 ≠ .burst b)
    (hforce : ∀ T, s.forceEomAt = some T → ∀ tk ∈ ticks, tk.1 ≤ T)
    (hex : ∃ tk ∈ ticks, tk.2.2 = .noCarrier ∧ now + HOLD ≤ tk.2.1) :
    ∃ pre sample sym post, ticks = pre ++ (sample, sym, .noCarrier) :: post
      ∧ now + HOLD ≤ sym
      ∧ (∀ x ∈ pre, x.2.2 ≠ .noCarrier ∨ x.2.1 < now + HOLD)
      ∧ NoMessage (rRun rate s pre).2
      ∧ Event.transport sample (.message r)
          ∈ (rTick rate (rRun rate s pre).1 sample sym .noCarrier).2
      ∧ Event.transport sample (.message r) ∈ (rRun rate s ticks).2 := by
  have hd := holding_acceptNew_deadline s r now h
  obtain ⟨pre, sample, sym, post, h1, h2, h3, h4, h5, _, _, h8⟩ :=
    hold_releases_run rate s _ h ticks hnb hforce (by rw [hd]; exact hex)
  rw [hd] at h2 h3
  rw [acceptNew_data] at h5 h8
  exact ⟨pre, sample, sym, post, h1, h2, h3, h4, h5, h8⟩

/-- **B3 from a burst tick.**  Receiver invariant before a burst tick at symbol `now`; if the
    slot afterwards holds a result `t` that was not there before, then `t` is reported exactly at
    the first NoCarrier tick with `sym ≥ now + HOLD` of any burst-free continuation on which the
    timer does not fire. -/
theorem burst_then_released (rate : Nat) (s : RState) (hinv : RInv s) (sample0 now : Nat) (b : List Byte)
    (t : Timed MsgResult)
    (hp : (rTick rate s sample0 now (.burst b)).1.asm.pending = some t)
    (hnew : s.asm.pending ≠ some t)
    (ticks : List RTick) (hnb : ∀ tk ∈ ticks, ∀ b, tk.2.2 ≠ .burst b)
    (hforce : ∀ T, (rTick rate s sample0 now (.burst b)).1.forceEomAt = some T → ∀ tk ∈ ticks, tk.1 ≤ T)
    (hex : ∃ tk ∈ ticks, tk.2.2 = .noCarrier ∧ now + HOLD ≤ tk.2.1) :
    t.deadline = now + HOLD
      ∧ ∃ pre sample sym post, ticks = pre ++ (sample, sym, .noCarrier) :: post
        ∧ now + HOLD ≤ sym
        ∧ (∀ x ∈ pre, x.2.2 ≠ .noCarrier ∨ x.2.1 < now + HOLD)
        ∧ NoMessage (rRun rate (rTick rate s sample0 now (.burst b)).1 pre).2
        ∧ Event.transport sample (.message t.data)
            ∈ (rRun rate (rTick rate s sample0 now (.burst b)).1 ticks).2 := by
  have hinv' := rInv_tick rate s sample0 now (.burst b) hinv
  have hold := holding_of_rInv _ t hinv' hp
  have hd : t.deadline = now + HOLD := by
    rcases burst_tick_pending rate s sample0 now b hinv.2.2 with h | h | ⟨r, h, hdl⟩
    · rw [h] at hp; cases hp
    · rw [h] at hp; exact absurd hp hnew
    · rw [h] at hp; cases hp; exact hdl
  refine ⟨hd, ?_⟩
  obtain ⟨pre, sample, sym, post, h1, h2, h3, h4, _, _, _, h8⟩ :=
    hold_releases_run rate _ t hold ticks hnb hforce (by rw [hd]; exact hex)
  rw [hd] at h2 h3
  exact ⟨pre, sample, sym, post, h1, h2, h3, h4, h8⟩

/-! ### Non-vacuity of PART B: a header due at symbol 5; Searching / Reading ticks intervene -/

example : (rRun 8000 C09.st0 [(16, 3, .noCarrier), (32, 9, .searching), (48, 10, .reading),
      (64, 4, .noCarrier), (80, 5, .noCarrier)]).2
    = [Event.link 32 .searching, Event.link 48 .reading, Event.link 64 .noCarrier,
       Event.transport 80 (.message (.ok (.som C09.hdr0)))] := by
  rfl

/-- a burst may pre-empt: B2 needs "no burst" (here an empty burst at the deadline is itself a
    poll and releases the header — the report then happens at a burst tick, not a NoCarrier tick) -/
example : (rRun 8000 C09.st0 [(16, 5, .burst []), (32, 6, .noCarrier)]).2
    = [Event.link 16 (.burst []), Event.transport 16 (.message (.ok (.som C09.hdr0))),
       Event.link 32 .noCarrier, Event.transport 32 .idle] := by
  rfl

end SameVerif.RxProv
