import SameVerif.Lemmas.FramerRestarts
/-
  C09 (busy stretches) — the positive counterpart of finding F9 (`search_restart_unbounded`).

  The framer is fed `(byte, restart)` pairs (`feedR`, Thm/C09.lean).  An output is BUSY when it is
  `searching` or `reading`: the link reports neither `noCarrier` nor a finished burst, so the
  assembler is not polled.  F9 shows that restarts can keep the link busy for ever.  Here:

    T1  a busy stretch is bounded LINEARLY in the restarts it contains:
          length ≤ PREFIX_SEARCH_LEN · r + BUSY_MAX        (21·r + 270)
        `r` = restarts at the stretch's 2nd, 3rd, … input (the first input does not count),
        `BUSY_MAX = PREFIX_SEARCH_LEN + 1 + (MAX_BURST_LENGTH − 4)` = 270 = the busy time of one start
        (`C07.busy_bounded`).  For every configuration, start state and stream; attained for every `r`.
        `c.maxInvalid` does not enter: the invalid-byte budget can only END a read early.
    T2  hence bounded restart density bounds the busy time: at most `k` restarts in every window of
        `W > PREFIX_SEARCH_LEN · k` inputs  ⇒  every window of `21·k + 271` outputs holds a non-busy one.
        Restarts ≥ `PREFIX_SEARCH_LEN + 1` = 22 apart: 292 (270 for a stretch that begins with a restart).
        No restart after the first byte: 271.  No restart in the window: 272 outputs hold a `noCarrier`.
    T3  the density threshold and the linear shape are sharp: `slipping 21 n` (restarts exactly 21
        apart, `⌈n/21⌉` of them) is busy throughout, for every `n`.

  Remark (`burst_restart_never_noCarrier`): "non-busy" in T2 cannot be improved to `noCarrier` — a
  restart that interrupts a read reports `burst` and leaves the framer searching, so restarts 24
  apart can keep `noCarrier` away for ever although the link is never busy for more than 23 bytes.

  `restarts xs = xs.countP (·.2)`; `Windowed W k xs`, `Sparse G xs`, `Busy o` : Lemmas/FramerRestarts.lean.
-/
namespace SameVerif.C09
open SameVerif

/-! ### T1 — the linear bound -/

/-- **T1, run form.**  Whatever the configuration and the state the framer starts in: if every output
    of a run is busy, the run has at most `21 · r + 270` inputs, `r` the number of restarts among
    its inputs other than the first. -/
theorem busy_run_bounded (c : FCfg) (s : FState) (xs : List (Byte × Bool))
    (h : ∀ o ∈ feedR c s xs, o = .searching ∨ o = .reading) :
    xs.length ≤ Gen.PREFIX_SEARCH_LEN * (xs.tail.countP (fun x => x.2))
        + (Gen.PREFIX_SEARCH_LEN + 1 + (Gen.MAX_BURST_LENGTH - 4)) :=
  busy_run_le c s xs h

/-- **T1, index form.**  Every stretch `[i, j)` of the outputs of `feedR c s xs` in which every output
    is busy satisfies `j − i ≤ 21 · r + 270`, where `r` counts the restart flags at the input
    positions `i + 1, …, j − 1`. -/
theorem busy_stretch_bounded (c : FCfg) (s : FState) (xs : List (Byte × Bool)) (i j : Nat)
    (hj : j ≤ xs.length)
    (h : ∀ k, i ≤ k → k < j → ∀ o, (feedR c s xs)[k]? = some o → Busy o) :
    j - i ≤ Gen.PREFIX_SEARCH_LEN * restarts ((xs.take j).drop (i + 1)) + BUSY_MAX := by
  have := busy_run_le c _ _ (window_busy c s xs i j h)
  rwa [window_length xs i j hj, window_tail] at this

/-! ### T1 is attained: `r` full search periods, then a prefix completed by the last possible byte
    and a burst of maximal length -/

/-- a restart on a preamble byte and 20 more preamble bytes: 21 × `searching` -/
def slipSeg : List (Byte × Bool) := (0xAB, true) :: List.replicate 20 (0xAB, false)

/-- a restart, 17 more preamble bytes, `ZCZC` (completed by byte 22 of the search), 248 data bytes -/
def lastSeg : List (Byte × Bool) :=
  (0xAB, true) :: (List.replicate 17 (0xAB, false)
    ++ [(0x5A, false), (0x43, false), (0x5A, false), (0x43, false)] ++ List.replicate 248 (0x41, false))

def tightRun (r : Nat) : List (Byte × Bool) := (List.replicate r slipSeg).flatten ++ lastSeg

theorem feedR_restart_notRead (c : FCfg) (s : FState) (b : Byte) (rest : List (Byte × Bool))
    (hs : s = .idle ∨ ∃ w n, s = .search w n) :
    feedR c s ((b, true) :: rest) = feedR c .idle ((b, true) :: rest)
      ∧ runR c s ((b, true) :: rest) = runR c .idle ((b, true) :: rest) := by
  simp only [feedR, runR, finput_restart_notRead c s b hs, finput_restart_notRead c .idle b (Or.inl rfl)]
  exact ⟨trivial, trivial⟩

theorem slipSeg_run (s : FState) (hs : s = .idle ∨ ∃ w n, s = .search w n) :
    feedR ⟨0, 0⟩ s slipSeg = List.replicate 21 .searching
      ∧ runR ⟨0, 0⟩ s slipSeg = .search 0xABABABAB 21 := by
  obtain ⟨h1, h2⟩ := feedR_restart_notRead ⟨0, 0⟩ s 0xAB (List.replicate 20 (0xAB, false)) hs
  unfold slipSeg
  rw [h1, h2]
  exact ⟨by decide +kernel, by decide +kernel⟩

theorem lastSeg_run (s : FState) (hs : s = .idle ∨ ∃ w n, s = .search w n) :
    feedR ⟨0, 0⟩ s lastSeg = List.replicate 21 .searching ++ List.replicate 249 .reading := by
  unfold lastSeg
  rw [(feedR_restart_notRead ⟨0, 0⟩ s 0xAB _ hs).1]
  decide +kernel

theorem tightRun_busy (r : Nat) (s : FState) (hs : s = .idle ∨ ∃ w n, s = .search w n) :
    ∀ o ∈ feedR ⟨0, 0⟩ s (tightRun r), Busy o := by
  induction r generalizing s with
  | zero =>
    intro o ho
    simp only [tightRun, List.replicate_zero, List.flatten_nil, List.nil_append, lastSeg_run s hs,
      List.mem_append, List.mem_replicate] at ho
    rcases ho with ⟨_, rfl⟩ | ⟨_, rfl⟩
    · exact Or.inl rfl
    · exact Or.inr rfl
  | succ r ih =>
    intro o ho
    have hsplit : tightRun (r + 1) = slipSeg ++ tightRun r := by
      simp [tightRun, List.replicate_succ]
    obtain ⟨h1, h2⟩ := slipSeg_run s hs
    rw [hsplit, feedR_append, h1, h2, List.mem_append, List.mem_replicate] at ho
    rcases ho with ⟨_, rfl⟩ | ho
    · exact Or.inl rfl
    · exact ih _ (Or.inr ⟨_, _, rfl⟩) o ho

theorem tightRun_length (r : Nat) : (tightRun r).length = Gen.PREFIX_SEARCH_LEN * r + BUSY_MAX := by
  induction r with
  | zero => decide +kernel
  | succ r ih =>
    have hsplit : tightRun (r + 1) = slipSeg ++ tightRun r := by
      simp [tightRun, List.replicate_succ]
    have : slipSeg.length = 21 := by decide
    rw [hsplit, List.length_append, ih, this, psl_eq]; omega

theorem tightRun_restarts (r : Nat) : restarts (tightRun r).tail = r := by
  have hall : restarts (tightRun r) = r + 1 := by
    induction r with
    | zero => decide +kernel
    | succ r ih =>
      have hsplit : tightRun (r + 1) = slipSeg ++ tightRun r := by
        simp [tightRun, List.replicate_succ]
      have : restarts slipSeg = 1 := by decide +kernel
      rw [hsplit, restarts_append, ih, this]; omega
  have hhead : ∃ tl, tightRun r = (0xAB, true) :: tl := by
    cases r with
    | zero => exact ⟨_, rfl⟩
    | succ r => exact ⟨_, by simp [tightRun, List.replicate_succ, slipSeg]; rfl⟩
  obtain ⟨tl, htl⟩ := hhead
  rw [htl, restarts_cons] at hall
  rw [htl, List.tail_cons]
  simpa using hall

/-- **T1 is attained** for every number of restarts `r`, by a run that a real receiver can see (idle
    framer, first input a restart): `21 · r + 270` inputs, `r` restarts after the first input, every
    output busy.  So neither the slope 21 nor the constant 270 can be lowered. -/
theorem busy_bound_attained (r : Nat) :
    ∃ xs : List (Byte × Bool),
      xs.length = Gen.PREFIX_SEARCH_LEN * r + BUSY_MAX ∧ restarts xs.tail = r
        ∧ ∀ o ∈ feedR ⟨0, 0⟩ .idle xs, Busy o :=
  ⟨tightRun r, tightRun_length r, tightRun_restarts r, tightRun_busy r .idle (Or.inl rfl)⟩

/-- the instance `r = 2`, outputs written out: 312 = 21 · 2 + 270 busy outputs, and the 313th input
    (whatever it is, restart or not) reports the burst -/
example :
    feedR ⟨0, 0⟩ .idle (tightRun 2 ++ [(0x41, false)])
      = List.replicate 63 .searching ++ List.replicate 249 .reading
          ++ [.burst ([0x5A, 0x43, 0x5A, 0x43] ++ List.replicate 248 0x41)] := by
  decide +kernel

/-! ### T2 — bounded restart density bounds the busy time -/

/-- **T2, stretch form.**  If every window of `W` consecutive inputs holds at most `k` restarts and
    `W > 21 · k`, every busy stretch `[i, j)` has `j − i ≤ 21 · k + 270`. -/
theorem busy_stretch_windowed (c : FCfg) (s : FState) (xs : List (Byte × Bool)) (W k : Nat)
    (hW : Gen.PREFIX_SEARCH_LEN * k < W) (hwin : Windowed W k xs) (i j : Nat) (hj : j ≤ xs.length)
    (h : ∀ t, i ≤ t → t < j → ∀ o, (feedR c s xs)[t]? = some o → Busy o) :
    j - i ≤ Gen.PREFIX_SEARCH_LEN * k + BUSY_MAX := by
  have hb := window_busy c s xs i j h
  have h1 := busy_run_le c _ _ hb
  have h2 := busy_run_windowed c _ _ W k hW (windowed_sub hwin i (j - i)) hb
  rw [window_length xs i j hj] at h1
  rw [psl_eq] at *
  omega

/-- **T2, stretch that begins with a restart** (the way every busy stretch of a real run begins,
    apart from the one directly after an interrupted read): that restart counts against the window,
    so `j − i ≤ 21 · (k − 1) + 270`. -/
theorem busy_stretch_windowed_restart (c : FCfg) (s : FState) (xs : List (Byte × Bool)) (W k : Nat)
    (hW : Gen.PREFIX_SEARCH_LEN * k < W) (hwin : Windowed W k xs) (i j : Nat) (hij : i < j)
    (hj : j ≤ xs.length) (b : Byte) (hi : xs[i]? = some (b, true))
    (h : ∀ t, i ≤ t → t < j → ∀ o, (feedR c s xs)[t]? = some o → Busy o) :
    1 ≤ k ∧ j - i + Gen.PREFIX_SEARCH_LEN ≤ Gen.PREFIX_SEARCH_LEN * k + BUSY_MAX := by
  have hb := window_busy c s xs i j h
  have hsub := windowed_sub hwin i (j - i)
  have h1 := busy_run_le c _ _ hb
  rw [window_length xs i j hj] at h1
  have hcons : (xs.drop i).take (j - i) = (b, true) :: ((xs.drop i).take (j - i)).tail := by
    have hlen := window_length xs i j hj
    cases hseg : (xs.drop i).take (j - i) with
    | nil => rw [hseg] at hlen; simp at hlen; omega
    | cons x tl =>
      have h0 : ((xs.drop i).take (j - i))[0]? = some (b, true) := by
        rw [List.getElem?_take, if_pos (by omega), List.getElem?_drop]; simpa using hi
      rw [hseg] at h0
      simp at h0
      rw [h0, List.tail_cons]
  rw [hcons] at hb hsub
  have h2 := busy_run_windowed_restart c _ b _ W k hW hsub hb
  rw [psl_eq] at *
  omega

/-- **T2, window form.**  Under the same density hypothesis every `21 · k + 271` consecutive outputs
    hold a `noCarrier` or a burst. -/
theorem nonbusy_in_window (c : FCfg) (s : FState) (xs : List (Byte × Bool)) (W k : Nat)
    (hW : Gen.PREFIX_SEARCH_LEN * k < W) (hwin : Windowed W k xs) (i : Nat)
    (hi : i + (Gen.PREFIX_SEARCH_LEN * k + BUSY_MAX + 1) ≤ xs.length) :
    ∃ o ∈ ((feedR c s xs).drop i).take (Gen.PREFIX_SEARCH_LEN * k + BUSY_MAX + 1),
      o = .noCarrier ∨ ∃ b, o = .burst b := by
  apply Classical.byContradiction
  intro hno
  have hall : ∀ o ∈ ((feedR c s xs).drop i).take (Gen.PREFIX_SEARCH_LEN * k + BUSY_MAX + 1), Busy o := by
    intro o ho
    apply Classical.byContradiction
    intro hb
    exact hno ⟨o, ho, (not_busy_iff o).1 hb⟩
  rw [← feedR_window] at hall
  have h1 := busy_run_le c _ _ hall
  have h2 := busy_run_windowed c _ _ W k hW (windowed_sub hwin i _) hall
  rw [List.length_take, List.length_drop] at h1
  rw [psl_eq] at *
  omega

/-- **T2, restarts at least `PREFIX_SEARCH_LEN + 1` = 22 apart**: every 292 consecutive outputs hold a
    `noCarrier` or a burst (21 is not enough: T3). -/
theorem nonbusy_in_window_sparse (c : FCfg) (s : FState) (xs : List (Byte × Bool)) (G : Nat)
    (hG : Gen.PREFIX_SEARCH_LEN + 1 ≤ G) (hsp : Sparse G xs) (i : Nat)
    (hi : i + (Gen.PREFIX_SEARCH_LEN + BUSY_MAX + 1) ≤ xs.length) :
    ∃ o ∈ ((feedR c s xs).drop i).take (Gen.PREFIX_SEARCH_LEN + BUSY_MAX + 1),
      o = .noCarrier ∨ ∃ b, o = .burst b := by
  have := nonbusy_in_window c s xs G 1 (by omega) (sparse_windowed hsp) i (by omega)
  simpa using this

/-- … and a busy stretch that begins with a restart is then no longer than ONE start allows: 270,
    the bound of `C07.busy_bounded`. -/
theorem busy_stretch_sparse_restart (c : FCfg) (s : FState) (xs : List (Byte × Bool)) (G : Nat)
    (hG : Gen.PREFIX_SEARCH_LEN + 1 ≤ G) (hsp : Sparse G xs) (i j : Nat) (hij : i < j)
    (hj : j ≤ xs.length) (b : Byte) (hi : xs[i]? = some (b, true))
    (h : ∀ t, i ≤ t → t < j → ∀ o, (feedR c s xs)[t]? = some o → Busy o) :
    j - i ≤ BUSY_MAX := by
  have := (busy_stretch_windowed_restart c s xs G 1 (by omega) (sparse_windowed hsp) i j hij hj b hi h).2
  omega

/-- **T2, no restart after the first byte**: every busy stretch is at most 270 long, i.e. every 271
    consecutive outputs hold a `noCarrier` or a burst. -/
theorem busy_stretch_no_restart (c : FCfg) (s : FState) (xs : List (Byte × Bool))
    (h0 : restarts xs.tail = 0) (i j : Nat) (hj : j ≤ xs.length)
    (h : ∀ t, i ≤ t → t < j → ∀ o, (feedR c s xs)[t]? = some o → Busy o) :
    j - i ≤ BUSY_MAX := by
  have h1 := busy_stretch_bounded c s xs i j hj h
  have hsub : ((xs.take j).drop (i + 1)).Sublist xs.tail := by
    have h1i : i + 1 = 1 + i := by omega
    rw [← List.drop_one, h1i, ← List.drop_drop, List.drop_take]
    exact (List.drop_sublist _ _).trans (List.take_sublist _ _)
  have : restarts ((xs.take j).drop (i + 1)) ≤ restarts xs.tail := List.Sublist.countP_le hsub
  rw [h0] at this
  have : restarts ((xs.take j).drop (i + 1)) = 0 := by omega
  rw [this] at h1
  omega

/-- **T2 with `noCarrier`.**  Inputs `i, …, i + 271` without restart: one of the 272 outputs is
    `noCarrier` — what the forced end-of-message of C09 (`closed_by_timeout`) waits for.  (270 busy
    outputs, the burst, `noCarrier`: the same count as `C07.busy_bounded`, whose byte 0 is the restart.) -/
theorem noCarrier_without_restart (c : FCfg) (s : FState) (xs : List (Byte × Bool)) (i : Nat)
    (hfree : restarts ((xs.drop i).take (BUSY_MAX + 2)) = 0) (hi : i + (BUSY_MAX + 2) ≤ xs.length) :
    .noCarrier ∈ ((feedR c s xs).drop i).take (BUSY_MAX + 2) := by
  apply Classical.byContradiction
  intro hno
  rw [← feedR_window] at hno
  have h1 := nr_run_fuel c _ _ hfree hno
  have h2 := fuel_le (runR c s (xs.take i))
  rw [List.length_take, List.length_drop] at h1
  omega

/-! ### T3 — sharpness: restarts 21 apart keep the link busy for ever -/

theorem slipping_restarts (n : Nat) : restarts (slipping 21 n) = (n + 20) / 21 := by
  induction n with
  | zero => rfl
  | succ n ih =>
    have : slipping 21 (n + 1) = slipping 21 n ++ [(0xAB, n % 21 == 0)] := by
      simp [slipping, List.range_succ]
    rw [this, restarts_append, ih, restarts_cons, restarts_nil]
    by_cases h : n % 21 = 0
    · simp only [h, beq_self_eq_true, if_true]; omega
    · have : (n % 21 == 0) = false := by simp [h]
      simp only [this]; simp only [Bool.false_eq_true, if_false]; omega

theorem slipping_sparse (n : Nat) : Sparse 21 (slipping 21 n) := by
  have key : ∀ (p : Nat) (b : Byte), (slipping 21 n)[p]? = some (b, true) → p % 21 = 0 := by
    intro p b hp
    simp only [slipping, List.getElem?_map] at hp
    by_cases hpn : p < n
    · simp [hpn] at hp; exact hp.2
    · simp [hpn] at hp
  intro p q bp bq hpq hp hq
  have := key p bp hp
  have := key q bq hq
  omega

/-- **T3.**  For every `n` there is an input of length `n` with `⌈n / 21⌉` restarts, any two of them
    at least 21 apart (at most `k` in every window of `21 · k`), ALL of whose outputs are busy —
    `slipping 21 n`, finding F9.  So the bound of T1 cannot be replaced by a constant, and the density
    thresholds `W > 21 · k` / "22 apart" of T2 cannot be lowered to `21 · k` / 21. -/
theorem linear_bound_sharp (c : FCfg) (hP : c.maxPrefixErr ≤ 7) (n : Nat) :
    ∃ xs : List (Byte × Bool),
      xs.length = n ∧ restarts xs = (n + 20) / 21 ∧ Sparse Gen.PREFIX_SEARCH_LEN xs
        ∧ ∀ o ∈ feedR c (.search 0 0) xs, Busy o := by
  refine ⟨slipping 21 n, by simp [slipping], slipping_restarts n, slipping_sparse n, ?_⟩
  intro o ho
  exact Or.inl (search_restart_unbounded c hP 21 (by decide) (by decide) n o ho)

/-- no bound independent of the restarts holds -/
theorem no_constant_busy_bound (c : FCfg) (hP : c.maxPrefixErr ≤ 7) :
    ¬ ∃ K, ∀ xs : List (Byte × Bool), (∀ o ∈ feedR c (.search 0 0) xs, Busy o) → xs.length ≤ K := by
  rintro ⟨K, hK⟩
  obtain ⟨xs, hlen, _, _, hb⟩ := linear_bound_sharp c hP (K + 1)
  have := hK xs hb
  omega

/-! ### Remark — "non-busy" is not `noCarrier`: restarts that interrupt reads -/

/-- period 24: a restart on `Z`, then `CZC` (the prefix is complete at byte 4), then 20 data bytes -/
def pulseByte (i : Nat) : Byte :=
  if i % 24 = 0 ∨ i % 24 = 2 then 0x5A else if i % 24 = 1 ∨ i % 24 = 3 then 0x43 else 0x41

def pulsed (n : Nat) : List (Byte × Bool) := (List.range n).map (fun i => (pulseByte i, i % 24 == 0))

theorem pulsed_add (n : Nat) : pulsed (24 + n) = pulsed 24 ++ pulsed n := by
  unfold pulsed
  rw [List.range_add, List.map_append, List.map_map]
  congr 1
  apply List.map_congr_left
  intro i _
  simp only [Function.comp, pulseByte, Nat.add_mod_left]

theorem restart_not_noCarrier (c : FCfg) (s : FState) (b : Byte) : (finput c s b true).2 ≠ .noCarrier := by
  cases s <;> simp [finput, fend]

/-- one period, from ANY state: no `noCarrier`, and the framer is left reading the same 24 bytes -/
theorem pulse_period (s : FState) :
    .noCarrier ∉ feedR ⟨0, 0⟩ s (pulsed 24)
      ∧ runR ⟨0, 0⟩ s (pulsed 24) = .read ([0x5A, 0x43, 0x5A, 0x43] ++ List.replicate 20 0x41) 0 := by
  have hp : pulsed 24 = (0x5A, true) :: (pulsed 24).tail := by decide +kernel
  rw [hp]
  simp only [feedR, runR, finput_restart_state, List.mem_cons, not_or]
  exact ⟨⟨fun h => restart_not_noCarrier _ s _ h.symm, by decide +kernel⟩, by decide +kernel⟩

theorem pulsed_no_noCarrier (m : Nat) (s : FState) : .noCarrier ∉ feedR ⟨0, 0⟩ s (pulsed (24 * m)) := by
  induction m generalizing s with
  | zero => simp [pulsed, feedR]
  | succ m ih =>
    have : 24 * (m + 1) = 24 + 24 * m := by omega
    rw [this, pulsed_add, feedR_append, List.mem_append, not_or]
    exact ⟨(pulse_period s).1, ih _⟩

theorem pulsed_sparse (n : Nat) : Sparse 24 (pulsed n) := by
  have key : ∀ (p : Nat) (b : Byte), (pulsed n)[p]? = some (b, true) → p % 24 = 0 := by
    intro p b hp
    simp only [pulsed, List.getElem?_map] at hp
    by_cases hpn : p < n
    · simp [hpn] at hp; exact hp.2
    · simp [hpn] at hp
  intro p q bp bq hpq hp hq
  have := key p bp hp
  have := key q bq hq
  omega

/-- **Remark.**  For every `n` there is an input of length `n` whose restarts are 24 apart — so T2
    applies: the link is never busy for long — and which, from ANY state, never reports `noCarrier`:
    every restart interrupts a read, reports its burst and starts the next search, which succeeds.
    The `noCarrier` tick that `closed_by_timeout` waits for is then supplied neither by T2 nor by the
    framer; only `noCarrier_without_restart` (272 inputs without restart) guarantees one. -/
theorem burst_restart_never_noCarrier (n : Nat) (s : FState) :
    ∃ xs : List (Byte × Bool),
      xs.length = n ∧ Sparse (Gen.PREFIX_SEARCH_LEN + 3) xs ∧ .noCarrier ∉ feedR ⟨0, 0⟩ s xs := by
  refine ⟨pulsed n, by simp [pulsed], pulsed_sparse n, ?_⟩
  have htake : pulsed n = (pulsed (24 * n)).take n := by
    unfold pulsed
    rw [← List.map_take, List.take_range]
    congr 2
    omega
  rw [htake, ← feedR_take]
  exact fun h => pulsed_no_noCarrier n s (List.mem_of_mem_take h)

/-- two periods from idle, written out: after the first restart every period is one burst and 23
    busy outputs -/
example :
    feedR ⟨0, 0⟩ .idle (pulsed 48)
      = List.replicate 3 .searching ++ List.replicate 21 .reading
          ++ [.burst ([0x5A, 0x43, 0x5A, 0x43] ++ List.replicate 20 0x41)]
          ++ List.replicate 2 .searching ++ List.replicate 21 .reading := by
  decide +kernel

end SameVerif.C09
