import SameVerif.Model.Events
import SameVerif.Spec.Published
/-
  C16 — Event, significance and originator decoding is total and matches the code table.
  All statements are over the tables GENERATED from the compiled crate (Gen/Tables.lean).
-/
namespace SameVerif.C16
open SameVerif SameVerif.Gen SameVerif.Spec

/-- every one of the 61 published codes decodes to its documented phenomenon and significance -/
theorem published_codes :
    ∀ row ∈ publishedCodes, parseEvent row.1 = some (row.2.1, row.2.2) := by
  decide +kernel

theorem published_count : publishedCodes.length = 61 := by decide

/-- **Fallback, all strings.**  Any string that is not exactly three bytes decodes to
    (Unrecognized, Unknown); a three-byte string is looked up whole, then by its first two bytes
    plus the significance letter, then by the significance letter alone. -/
theorem fallback (code : Str) :
    eventCode code =
      match code with
      | [a, b, c] =>
        match lookup3 [a, b, c] with
        | some e => e
        | none =>
          if isCont c then (.Unrecognized, .Unknown)
          else ((lookup2 [a, b]).getD .Unrecognized, sigOfStr [c])
      | _ => (.Unrecognized, .Unknown) := by
  unfold eventCode parseEvent
  match code with
  | [a, b, c] =>
    simp only
    cases h3 : lookup3 [a, b, c] with
    | some e => simp
    | none =>
      by_cases hc : isCont c = true
      · simp [hc]
      · cases h2 : lookup2 [a, b] <;> simp [hc]
  | [] => rfl
  | [_] => rfl
  | [_, _] => rfl
  | _ :: _ :: _ :: _ :: _ => rfl

/-- a code outside both tables gets the significance implied by its last letter, or Unknown -/
theorem last_letter (a b c : Nat) (h3 : lookup3 [a, b, c] = none) (h2 : lookup2 [a, b] = none)
    (hc : isCont c = false) :
    eventCode [a, b, c] = (.Unrecognized,
      if c = 84 then .Test else if c = 83 then .Statement else if c = 69 then .Emergency
      else if c = 65 then .Watch else if c = 87 then .Warning else .Unknown) := by
  simp only [eventCode, parseEvent, h3, h2, hc, Bool.false_eq_true, ↓reduceIte, Option.getD_some]
  congr 1
  unfold sigOfStr
  split <;> simp_all

/-- no display string keeps an unexpanded placeholder — every phenomenon × significance -/
theorem display_no_percent :
    ∀ p ∈ Phenomenon.all, ∀ s ∈ Significance.all, ¬ (37 ∈ eventDisplay (p, s)) := by
  decide +kernel

theorem phenomenon_all_complete (p : Phenomenon) : p ∈ Phenomenon.all := by
  cases p <;> decide

theorem significance_all_complete (s : Significance) : s ∈ Significance.all := by
  cases s <;> decide

/-- the numeric form is 0..5 in the order Test < Statement < Emergency < Watch < Warning < Unknown
    (the derived `Ord` follows declaration order, which is the order of `Significance.all`) -/
theorem sig_order :
    Significance.all = [.Test, .Statement, .Emergency, .Watch, .Warning, .Unknown]
      ∧ Significance.all.map Significance.num = [0, 1, 2, 3, 4, 5] := by
  decide

/-- the one-letter code of every significance level decodes back to it -/
theorem sig_roundtrip : ∀ s ∈ Significance.all, sigOfStr s.code = s := by decide

/-- classifications are mutually consistent: test ⇒ non-weather, national ⇒ non-weather, every
    three-letter table entry for a test phenomenon has significance Test; two-letter table entries
    are never test or national phenomena -/
theorem classes_consistent :
    (∀ p ∈ Phenomenon.all, p.info.test = true → p.info.weather = false)
      ∧ (∀ p ∈ Phenomenon.all, p.info.national = true → p.info.weather = false)
      ∧ (∀ e ∈ codebook3, e.2.1.info.test = true → e.2.2 = .Test)
      ∧ (∀ e ∈ codebook2, e.2.info.test = false ∧ e.2.info.national = false) := by
  decide +kernel

/-- `is_test` law: an event is a test iff its significance is Test or its phenomenon is a test -/
theorem is_test_law (code : Str) :
    isTest (eventCode code) = ((eventCode code).2 == .Test || (eventCode code).1.info.test) := rfl

/-- table keys are well formed: three (two) bytes each, no duplicates — so `find?` is a map lookup -/
theorem tables_wellformed :
    (∀ e ∈ codebook3, e.1.length = 3) ∧ (∀ e ∈ codebook2, e.1.length = 2)
      ∧ (codebook3.map (·.1)).Nodup ∧ (codebook2.map (·.1)).Nodup := by
  decide +kernel

/-- originators: PEP, CIV, WXR, EAS; WXR with an `EC/` callsign is Environment Canada -/
theorem originator_codes (call : Str) :
    originatorOf [80, 69, 80] call = .PrimaryEntryPoint
      ∧ originatorOf [67, 73, 86] call = .CivilAuthority
      ∧ originatorOf [69, 65, 83] call = .BroadcastStation
      ∧ originatorOf [87, 88, 82] call
          = (if startsWithN call [69, 67, 47] then .EnvironmentCanada else .NationalWeatherService) := by
  refine ⟨?_, ?_, ?_, ?_⟩ <;> simp [originatorOf, originatorParse] <;> decide

/-- any other three-byte originator code is Unknown -/
theorem originator_unknown (org call : Str) (hlen : org.length = 3)
    (h : org ≠ [80, 69, 80] ∧ org ≠ [67, 73, 86] ∧ org ≠ [87, 88, 82] ∧ org ≠ [69, 65, 83]) :
    originatorOf org call = .Unknown := by
  obtain ⟨h1, h2, h3, h4⟩ := h
  have h0 : org ≠ [] := by intro h; simp [h] at hlen
  have h5 : org ≠ [69,110,118,105,114,111,110,109,101,110,116,67,97,110,97,100,97] := by
    intro h; simp [h] at hlen
  simp [originatorOf, originatorParse, h0, h1, h2, h3, h4, h5]

end SameVerif.C16
