import SameVerif.Thm.C01
/-
  C01, one burst, on REALISTIC front-end assumptions (state-based form).

  `Spec.BurstObserved` asks that the open threshold be closed over the whole lead-in, up to body
  tick `acq + 31`, and over the whole tail.  On tapped real runs this is false (the power threshold
  opens early in the preamble and stays open after the last bit); what excludes an early or late
  sync in reality is the correlator.  Here the chain `lead_quiet → first_sync → framer_sees →
  burst_delivered` of `Thm/C01.lean` is proved from

    `Spec.BurstObserved'`  (= `BurstObserved` minus `lead_closed`, `open_late`, `tail_closed`)
    `Spec.NoFalseHits`     (no sync hit possible — locked, or open threshold not met, or window
                            more than `maxErrors` from the sync word — at lead ticks, body ticks
                            `< acq + 31`, tail ticks; stated on the model's own state)

  and the start state need only be `Ready` (unsynchronised, idle) provided the lead-in fills the
  32-symbol sample history — so the theorems apply from the initial state `{}`.
  The old theorems are instances (`burstObserved_refines`, `burst_delivered_old`).
  The observational form (a decidable condition on the whole tick stream that implies these
  hypotheses for every burst) is in `Thm/C01s.lean`.
-/
namespace SameVerif.C01r
open SameVerif SameVerif.Spec

/-- the old assumptions imply the new ones -/
theorem burstObserved_refines {payload : List Byte} {lead body tail : List Tick} {acq rel : Nat}
    (H : BurstObserved payload lead body tail acq rel) (c : LCfg) (s : LState) :
    BurstObserved' payload body tail acq rel ∧ NoFalseHits c s lead body tail acq :=
  ⟨H.weaken, H.noFalseHits c s⟩

/-- a quiescent state is ready and warm -/
theorem quiescent_iff (s : LState) : Quiescent s ↔ Ready s ∧ 32 ≤ s.nsym :=
  ⟨fun h => ⟨h.ready, h.warm⟩, fun h => quiescent_of_ready h.1 h.2⟩

/-- (a) over a stretch without possible hits (lead-in, silence) an unsynchronised idle receiver
    reports only `noCarrier`, no burst, and stays unsynchronised and idle; it is quiescent at the
    end if the sample history has been filled -/
theorem lead_quiet (c : LCfg) (s : LState) (hs : Ready s) (lead : List Tick)
    (hl : QuietNoHit c s lead) :
    (∀ ls ∈ lrun c s lead, ls = .noCarrier) ∧ lrunBursts c s lead = []
      ∧ Ready (lrunState c s lead)
      ∧ (32 ≤ s.nsym + lead.length → Quiescent (lrunState c s lead)) := by
  obtain ⟨r1, r2, r3⟩ := quiet_run c lead s hs hl
  exact ⟨r1, r2, r3, fun hw => quiescent_of_ready r3 (by rw [nsym_run]; exact hw)⟩

/-- (b) the first synchronisation happens at body tick `syncTick acq` and not before
    (`C01.first_sync` on the new assumptions; `s1` is the state after the lead-in) -/
theorem first_sync (c : LCfg) (hE : c.maxErrors ≤ 6) (hP : c.fc.maxPrefixErr < 15)
    (s : LState) (hs : Ready s) (payload : List Byte) (hok : PayloadOk payload)
    (lead body tail : List Tick) (acq rel : Nat) (hw : 32 ≤ s.nsym + lead.length)
    (H : BurstObserved' payload body tail acq rel) (N : NoFalseHits c s lead body tail acq) :
    acq + 31 ≤ syncTick acq ∧ syncTick acq < acq + 39 ∧ syncTick acq % 8 = 7 ∧ syncTick acq ≤ 127
      ∧ (∀ t, t ≤ syncTick acq →
            (lrunState c (lrunState c s lead) ((body ++ tail).take t)).clock = none
            ∧ lrunBursts c (lrunState c s lead) ((body ++ tail).take t) = [])
      ∧ (lrunState c (lrunState c s lead) ((body ++ tail).take (syncTick acq + 1))).clock = some 1
      ∧ (lrunState c (lrunState c s lead) ((body ++ tail).take (syncTick acq + 1))).fr = .search 0xAB 1
      ∧ (lrunState c (lrunState c s lead) ((body ++ tail).take (syncTick acq + 1))).train = 3
      ∧ lrunBursts c (lrunState c s lead) ((body ++ tail).take (syncTick acq + 1)) = [] := by
  have hacq := H.acq_le
  have hq1 := (lead_quiet c s hs lead N.quiet).2.2.2 hw
  obtain ⟨f1, _, f3, f4, f5⟩ := first_sync_state H hok c hE hP _ hq1 N.bt
  refine ⟨by unfold syncTick; omega, by unfold syncTick; omega, by unfold syncTick; omega,
    by unfold syncTick; omega, ?_, f1, f3, f4, f5⟩
  intro t ht
  obtain ⟨q1, _, _, q4⟩ := phase_quiet H hok c hE _ hq1 N.bt (syncTick acq) (by unfold syncTick; omega)
    (by unfold syncTick; intro t h1 h2; omega) t ht
  exact ⟨q1, q4⟩

/-- (d) what the framer has seen when the last payload byte has been delivered
    (`C01.framer_sees` on the new assumptions) -/
theorem framer_sees (c : LCfg) (hE : c.maxErrors ≤ 6) (hP : c.fc.maxPrefixErr ≤ 7)
    (s : LState) (hs : Ready s) (payload : List Byte) (hok : PayloadOk payload)
    (hdash : ∀ h : 4 < payload.length, payload[4] = 45)
    (hP4 : payload.take 4 = [78, 78, 78, 78] → c.fc.maxPrefixErr ≤ 4)
    (lead body tail : List Tick) (acq rel : Nat) (hw : 32 ≤ s.nsym + lead.length)
    (H : BurstObserved' payload body tail acq rel) (N : NoFalseHits c s lead body tail acq) :
    (lrunState c (lrunState c s lead) ((body ++ tail).take (body.length + 31))).fr = .read payload 0
      ∧ (lrunState c (lrunState c s lead) ((body ++ tail).take (body.length + 31))).lock = true
      ∧ (lrunState c (lrunState c s lead) ((body ++ tail).take (body.length + 31))).clock = some 0
      ∧ (lrunState c (lrunState c s lead) ((body ++ tail).take (body.length + 31))).train = 0
      ∧ lrunBursts c (lrunState c s lead) ((body ++ tail).take (body.length + 31)) = [] := by
  have hq1 := (lead_quiet c s hs lead N.quiet).2.2.2 hw
  obtain ⟨e1, e2, e3, e4, e5⟩ :=
    synced_end H hok hdash c hE (prefixFacts_of c.fc payload hok hP hP4) _ hq1 N.bt
  exact ⟨e4, e2, e1, e3, e5⟩

/-- **C01, one burst, realistic assumptions.**  From any unsynchronised idle state (in particular
    the initial one) whose sample history the lead-in fills: under `BurstObserved'` and
    `NoFalseHits` the link model reports exactly one burst, the payload followed by at most
    `⌈rel / 8⌉` bytes, and is quiescent again. -/
theorem burst_delivered (c : LCfg) (hE : c.maxErrors ≤ 6) (hP : c.fc.maxPrefixErr ≤ 7)
    (s : LState) (hs : Ready s) (payload : List Byte) (hok : PayloadOk payload)
    (hdash : ∀ h : 4 < payload.length, payload[4] = 45)
    (hP4 : payload.take 4 = [78, 78, 78, 78] → c.fc.maxPrefixErr ≤ 4)
    (lead body tail : List Tick) (acq rel : Nat) (hw : 32 ≤ s.nsym + lead.length)
    (H : BurstObserved' payload body tail acq rel) (N : NoFalseHits c s lead body tail acq) :
    ∃ g, lrunBursts c s (lead ++ body ++ tail) = [payload ++ g] ∧ g.length ≤ (rel + 7) / 8
      ∧ Quiescent (lrunState c s (lead ++ body ++ tail)) :=
  burst_whole H hok hdash c hE (prefixFacts_of c.fc payload hok hP hP4) s hs hw N

/-- the old theorem is an instance -/
theorem burst_delivered_old (c : LCfg) (hE : c.maxErrors ≤ 6) (hP : c.fc.maxPrefixErr ≤ 7)
    (s : LState) (hs : Quiescent s) (payload : List Byte) (hok : PayloadOk payload)
    (hdash : ∀ h : 4 < payload.length, payload[4] = 45)
    (hP4 : payload.take 4 = [78, 78, 78, 78] → c.fc.maxPrefixErr ≤ 4)
    (lead body tail : List Tick) (acq rel : Nat) (H : BurstObserved payload lead body tail acq rel) :
    ∃ g, lrunBursts c s (lead ++ body ++ tail) = [payload ++ g] ∧ g.length ≤ (rel + 7) / 8
      ∧ Quiescent (lrunState c s (lead ++ body ++ tail)) :=
  burst_delivered c hE hP s hs.ready payload hok hdash hP4 lead body tail acq rel
    (by have := hs.warm; omega) H.weaken (H.noFalseHits c s)

/-- non-vacuity (old demo stream, but from the INITIAL state `{}`: the 40-tick lead-in warms up
    the sample history) -/
example : ∃ g, lrunBursts ⟨6, ⟨7, 5⟩⟩ {}
        (C01.demoLead 40 ++ C01.demoBody C01.demoHeader 5 0x41 ++ C01.demoTail C01.demoHeader 10 0x41)
      = [C01.demoHeader ++ g] ∧ g.length ≤ (10 + 7) / 8
      ∧ Quiescent (lrunState ⟨6, ⟨7, 5⟩⟩ {}
          (C01.demoLead 40 ++ C01.demoBody C01.demoHeader 5 0x41 ++ C01.demoTail C01.demoHeader 10 0x41)) :=
  burst_delivered ⟨6, ⟨7, 5⟩⟩ (by decide) (by decide) _ ready_init C01.demoHeader C01.demoHeader_ok.1
    C01.demoHeader_ok.2 (by decide) _ _ _ 5 10 (by decide) C01.demoHeader_observed.weaken
    (C01.demoHeader_observed.noFalseHits _ _)

end SameVerif.C01r
