import SameVerif.Thm.Chain
import SameVerif.Thm.C01s
/-
  The digital chain (link model → receiver glue → assembler) on the REALISTIC front-end
  assumptions.

  * `transmission_decoded_r` : `Chain.transmission_decoded` with `Spec.BurstObserved` replaced by
    `Spec.BurstObserved'` + `Spec.NoFalseHits` (state-based), the link started in any `Ready` state;
  * `stream_decoded`         : the observational form — one tick stream, processed from the initial
    link state `{}` and the initial receiver state `{}`, that meets the decidable condition
    `Spec.StreamObserved` for three bursts of one canonical header followed by at least the hold
    time of ticks: exactly one message event, `StartOfMessage` with text exactly `H`.
  Layer 1 (`receiver_*`) and Layer 3's `decoded_of_link_output` of `Thm/Chain.lean` are reused as
  they are; Layer 2 is `Lemmas/ChainLinkR.lean`.
-/
namespace SameVerif.Chain
open SameVerif SameVerif.Spec SameVerif.Asm

/-- **C01, digital chain, realistic assumptions (state-based).** -/
theorem transmission_decoded_r (c : LCfg) (hE : c.maxErrors ≤ 6) (hP : c.fc.maxPrefixErr ≤ 7)
    (rate sym0 smax : Nat) (samples : Nat → Nat) (H : List Byte) (off : Nat)
    (hcan : checkHeader H = some (off, H.length))
    (hall : ∀ b ∈ H, isAllowed b = true)
    (hfits : H.length ≤ Gen.MAX_BURST_LENGTH)
    (g1 g2 g3 : Seg) (quiet : List Tick) (ls0 : LState) (hls : Ready ls0)
    (h1 : Observed' H g1) (w1 : 32 ≤ ls0.nsym + g1.lead.length) (n1 : NoFalse c ls0 g1)
    (h2 : Observed' H g2) (n2 : NoFalse c (lrunState c ls0 g1.ticks) g2)
    (h3 : Observed' H g3) (n3 : NoFalse c (lrunState c (lrunState c ls0 g1.ticks) g2.ticks) g3)
    (hq : QuietNoHit c (lrunState c (lrunState c (lrunState c ls0 g1.ticks) g2.ticks) g3.ticks) quiet)
    (hqlen : HOLD ≤ quiet.length)
    (hspan : g1.tail.length + g2.ticks.length + g3.ticks.length ≤ HIST)
    (htails : ∀ t1 t2 t3, t1.length ≤ (g1.rel + 7) / 8 → t2.length ≤ (g2.rel + 7) / 8 →
      t3.length ≤ (g3.rel + 7) / 8 →
      lrunBursts c ls0 (transmission g1 g2 g3 quiet) = [H ++ t1, H ++ t2, H ++ t3] →
      TailsNoDash H t1 t2 t3)
    (hsamp : ∀ i, i < (transmission g1 g2 g3 quiet).length →
      samples i ≤ smax ∧ smax ≤ samples i + TIMEOUT rate) :
    DecodedOnce (chain c rate ls0 {} sym0 samples (transmission g1 g2 g3 quiet))
      samples (transmission g1 g2 g3 quiet).length H off := by
  have hc := payloadCond_of_header c H _ hcan hall hfits
  obtain ⟨t1, t2, t3, L1, L2, L3, hrun, o1, o2, o3, hb, _⟩ :=
    three_segments_r c hE hP H hc g1 g2 g3 quiet ls0 hls h1 w1 n1 h2 n2 h3 n3 hq
  have htd := htails t1 t2 t3 o1.tail_len o2.tail_len o3.tail_len hb
  have hlen : (transmission g1 g2 g3 quiet).length
      = (L1 ++ L2 ++ L3 ++ List.replicate quiet.length LinkSt.noCarrier).length := by
    rw [← hrun, lrun_length]; rfl
  have hfit : H.length ≤ MAXLEN := by
    have : Gen.MAX_BURST_LENGTH ≤ MAXLEN := by decide
    omega
  have := decoded_of_link_output rate sym0 smax samples H off hcan hall hfit g1 g2 g3 t1 t2 t3 L1 L2 L3
    quiet.length o1 o2 o3 hqlen hspan htd (fun i hi => hsamp i (by rw [hlen]; exact hi))
  unfold chain chainTicks
  rw [hlen]
  exact hrun ▸ this

/-- the old theorem's hypotheses are an instance -/
theorem transmission_decoded_old (c : LCfg) (hE : c.maxErrors ≤ 6) (hP : c.fc.maxPrefixErr ≤ 7)
    (rate sym0 smax : Nat) (samples : Nat → Nat) (H : List Byte) (off : Nat)
    (hcan : checkHeader H = some (off, H.length))
    (hall : ∀ b ∈ H, isAllowed b = true)
    (hfits : H.length ≤ Gen.MAX_BURST_LENGTH)
    (g1 g2 g3 : Seg) (h1 : Observed H g1) (h2 : Observed H g2) (h3 : Observed H g3)
    (quiet : List Tick) (hq : ∀ x ∈ quiet, x.1.openOk = false) (hqlen : HOLD ≤ quiet.length)
    (hspan : g1.tail.length + g2.ticks.length + g3.ticks.length ≤ HIST)
    (ls0 : LState) (hls : Quiescent ls0)
    (htails : ∀ t1 t2 t3, t1.length ≤ (g1.rel + 7) / 8 → t2.length ≤ (g2.rel + 7) / 8 →
      t3.length ≤ (g3.rel + 7) / 8 →
      lrunBursts c ls0 (transmission g1 g2 g3 quiet) = [H ++ t1, H ++ t2, H ++ t3] →
      TailsNoDash H t1 t2 t3)
    (hsamp : ∀ i, i < (transmission g1 g2 g3 quiet).length →
      samples i ≤ smax ∧ smax ≤ samples i + TIMEOUT rate) :
    DecodedOnce (chain c rate ls0 {} sym0 samples (transmission g1 g2 g3 quiet))
      samples (transmission g1 g2 g3 quiet).length H off :=
  transmission_decoded_r c hE hP rate sym0 smax samples H off hcan hall hfits g1 g2 g3 quiet ls0
    hls.ready h1.weaken (by have := hls.warm; omega) (h1.noFalseHits c _) h2.weaken (h2.noFalseHits c _)
    h3.weaken (h3.noFalseHits c _)
    (fun t _ => noHitAt_of_closed c _ quiet t (fun x h => hq x (List.mem_of_getElem? h)))
    hqlen hspan htails hsamp

/-- **C01, digital chain, realistic assumptions, observational form.**
    `stream`: everything the front end delivered, from the first symbol tick on.  `g1 g2 g3`: the
    positions (`o`, `acq`, `rel`) of three bursts of the canonical header `H`.  If the stream meets
    `Spec.StreamObserved` (with the link model's sync budget) — a decidable condition on the stream
    alone, the one `Spec.streamObservedB` evaluates on tapped real runs —, the third minimal tail is
    followed by at least `HOLD` ticks, and the three bursts fit the assembler's history window,
    then the composed run of link model, receiver glue and assembler, all from their initial
    states, yields exactly one message event: StartOfMessage, text exactly `H`. -/
theorem stream_decoded (c : LCfg) (hE : c.maxErrors ≤ 6) (hP : c.fc.maxPrefixErr ≤ 7)
    (rate sym0 smax : Nat) (samples : Nat → Nat) (H : List Byte) (off : Nat)
    (hcan : checkHeader H = some (off, H.length))
    (hall : ∀ b ∈ H, isAllowed b = true)
    (hfits : H.length ≤ Gen.MAX_BURST_LENGTH)
    (stream : List Tick) (g1 g2 g3 : BurstSpec)
    (hp1 : g1.payload = H) (hp2 : g2.payload = H) (hp3 : g3.payload = H)
    (hobs : StreamObserved c.maxErrors stream [g1, g2, g3])
    (hqlen : g3.stop + HOLD ≤ stream.length)
    (hspan : g3.stop ≤ g1.e + HIST)
    (htails : ∀ t1 t2 t3, t1.length ≤ (g1.rel + 7) / 8 → t2.length ≤ (g2.rel + 7) / 8 →
      t3.length ≤ (g3.rel + 7) / 8 →
      lrunBursts c {} stream = [H ++ t1, H ++ t2, H ++ t3] → TailsNoDash H t1 t2 t3)
    (hsamp : ∀ i, i < stream.length → samples i ≤ smax ∧ smax ≤ samples i + TIMEOUT rate) :
    DecodedOnce (chain c rate {} {} sym0 samples stream) samples stream.length H off := by
  have hc := payloadCond_of_header c H _ hcan hall hfits
  have hpc : ∀ g ∈ [g1, g2, g3], PayloadCond c g.payload := by
    intro g hg
    simp only [List.mem_cons, List.not_mem_nil, or_false] at hg
    rcases hg with rfl | rfl | rfl
    · rw [hp1]; exact hc
    · rw [hp2]; exact hc
    · rw [hp3]; exact hc
  obtain ⟨s1, s2, s3, s4⟩ := C01s.stream_segments c stream [g1, g2, g3] hobs hpc
  -- the three segments and the quiet rest
  have hL : lastStop 0 [g1, g2, g3] = g3.stop := rfl
  rw [hL] at s2 s3 s4
  obtain ⟨_, k1, w1, n1, _, k2, _, n2, _, k3, _, n3, _⟩ := s1
  simp only [segsOf, List.flatMap_cons, List.flatMap_nil, List.append_nil] at s2
  rw [hp1] at k1; rw [hp2] at k2; rw [hp3] at k3
  have hstream : transmission (segOf stream 0 g1) (segOf stream g1.stop g2) (segOf stream g2.stop g3)
      (stream.drop g3.stop) = stream := by
    unfold transmission
    rw [List.append_assoc (segOf stream 0 g1).ticks, ← s2, List.take_append_drop]
  -- ordering facts for the lengths
  obtain ⟨_, hord, _⟩ := hobs
  obtain ⟨ho1, ho2, ho3, _⟩ := hord
  have hs1 : g1.stop ≤ stream.length := by
    have := g2.e_le_stop; have := g3.e_le_stop
    have : g2.e = g2.o + g2.n := rfl
    have : g3.e = g3.o + g3.n := rfl
    omega
  have hs2 : g2.stop ≤ stream.length := by
    have := g3.e_le_stop
    have : g3.e = g3.o + g3.n := rfl
    omega
  have hle2 : g2.o ≤ g2.stop := by have := g2.e_le_stop; have : g2.e = g2.o + g2.n := rfl; omega
  have hle3 : g3.o ≤ g3.stop := by have := g3.e_le_stop; have : g3.e = g3.o + g3.n := rfl; omega
  have hq' : QuietNoHit c (lrunState c (lrunState c (lrunState c {} (segOf stream 0 g1).ticks)
      (segOf stream g1.stop g2).ticks) (segOf stream g2.stop g3).ticks) (stream.drop g3.stop) := by
    rw [← lrunState_append, ← lrunState_append, ← s2]
    exact s4
  have hlq : (stream.drop g3.stop).length = stream.length - g3.stop := List.length_drop
  have := transmission_decoded_r c hE hP rate sym0 smax samples H off hcan hall hfits
    (segOf stream 0 g1) (segOf stream g1.stop g2) (segOf stream g2.stop g3) (stream.drop g3.stop)
    {} ready_init k1 w1 n1 k2 n2 k3 n3 hq' (by rw [hlq]; omega)
    (by
      rw [segOf_ticks _ _ _ ho2, segOf_ticks _ _ _ ho3, slice_length _ _ _ hs2, slice_length _ _ _ s3]
      show (slice stream g1.e g1.stop).length + _ + _ ≤ _
      rw [slice_length _ _ _ hs1]
      have := g1.e_le_stop
      omega)
    (by rw [hstream]; exact htails)
    (by rw [hstream]; exact hsamp)
  rw [hstream] at this
  exact this

section Demo
open SameVerif.C01

/-! ## non-vacuity

  (1) the demo stream of `Thm/Chain.lean`, now processed from the INITIAL link state `{}`;
  (2) a stream that violates every one of the old clauses `lead_closed`, `open_late`, `tail_closed`
      (and the old silence condition): the open threshold is met at EVERY tick, the lead-ins, tails
      and the final stretch carry a noise bit pattern — and still meets `StreamObserved`, so the
      chain theorem applies to it. -/

set_option maxRecDepth 1000000 in
theorem demo_bursts_init :
    lrunBursts ⟨2, ⟨2, 5⟩⟩ {} (transmission demoSeg demoSeg demoSeg (demoLead 700))
      = [demoHeader ++ [0x41, 0x41], demoHeader ++ [0x41, 0x41], demoHeader ++ [0x41, 0x41]] := by
  decide +kernel

/-- (1) by `transmission_decoded_r`, link model started in `{}` -/
theorem demo_decoded_init :
    DecodedOnce (chain ⟨2, ⟨2, 5⟩⟩ 22050 {} {} 0 (fun i => 42 * i)
        (transmission demoSeg demoSeg demoSeg (demoLead 700)))
      (fun i => 42 * i) 2362 demoHeader 19 := by
  have hc := demoHeader_canonical
  have hl := demoSeg_lengths
  have hT : TIMEOUT 22050 = 2976750 := by decide
  have ho := demoSeg_observed
  have := transmission_decoded_r ⟨2, ⟨2, 5⟩⟩ (by decide) (by decide) 22050 0 (42 * 2362) (fun i => 42 * i)
    demoHeader 19 hc.1 hc.2.1 hc.2.2 demoSeg demoSeg demoSeg (demoLead 700) {} ready_init
    ho.weaken (by decide) (ho.noFalseHits _ _) ho.weaken (ho.noFalseHits _ _) ho.weaken (ho.noFalseHits _ _)
    (fun t _ => noHitAt_of_closed _ _ _ t (fun x h => demoQuiet_closed x (List.mem_of_getElem? h)))
    (by rw [show (demoLead 700).length = 700 from List.length_replicate]; decide)
    (by rw [hl.1, hl.2.1]; decide)
    (by
      intro t1 t2 t3 _ _ _ hb
      rw [demo_bursts_init] at hb
      simp only [List.cons.injEq, List.append_cancel_left_eq, and_true] at hb
      obtain ⟨e1, e2, e3⟩ := hb
      rw [← e1, ← e2, ← e3]
      exact demo_tails)
    (by
      intro i hi
      rw [hl.2.2] at hi
      rw [hT]
      omega)
  rwa [hl.2.2] at this

/-- (2) tick `i` of the realistic demo stream: three periods of `L` lead-in ticks, `n` body ticks,
    `rel + 40` tail ticks, then noise.  The open threshold is met at EVERY tick; lead-in, tail and
    the final stretch carry the bit pattern `100100…`; the bits are right from the first
    transmitted bit (`acq = 0`, as on most real bursts); the close threshold is arbitrary outside
    body and tail. -/
def demo2Tk (H : List Byte) (L n rel : Nat) (garb : Byte) (i : Nat) : Tick :=
  let P := L + n + (rel + 40)
  let k := i % P
  if i / P < 3 then
    if k < L then (⟨k % 3 = 0, true, k % 2 = 0⟩, garb)
    else if k < L + n then
      let j := k - L
      (⟨frameBit (frameOf H) j, true, true⟩,
        if j % 8 = 7 ∧ 3 ≤ j / 8 then (frameOf H).getD (j / 8 - 3) 0 else garb)
    else
      let t := k - L - n
      (⟨t % 3 = 0, true, decide (t < rel)⟩,
        if t % 8 = 7 ∧ t / 8 < 3 then (frameOf H).getD ((frameOf H).length - 3 + t / 8) 0 else garb)
  else (⟨i % 3 = 0, true, i % 5 = 0⟩, garb)

def demo2Stream : List Tick := (List.range (3 * 574 + 700)).map (demo2Tk demoHeader 60 464 10 0x41)

def demo2Segs : List BurstSpec :=
  [⟨60, demoHeader, 0, 10⟩, ⟨574 + 60, demoHeader, 0, 10⟩, ⟨2 * 574 + 60, demoHeader, 0, 10⟩]

theorem streamObserved_map_range (m : Nat) (f : Nat → Tick) (N : Nat) (segs : List BurstSpec) :
    StreamObserved m ((List.range N).map f) segs
      ↔ StreamObservedF m (fun i => if i < N then f i else dfltTick) N segs := by
  have hf : (fun i => ((List.range N).map f).getD i dfltTick)
      = (fun i => if i < N then f i else dfltTick) := by
    funext i
    rw [List.getD_eq_getElem?_getD]
    by_cases h : i < N
    · simp [h]
    · simp [h]
  unfold StreamObserved
  rw [hf, List.length_map, List.length_range]

/-- the old clauses all fail on this stream: the open threshold is met at every tick -/
theorem demo2_open_everywhere : ∀ x ∈ demo2Stream, x.1.openOk = true := by
  intro x hx
  obtain ⟨i, _, rfl⟩ := List.mem_map.1 hx
  unfold demo2Tk
  simp only
  split
  · split
    · rfl
    · split <;> rfl
  · rfl

/-- so no segmentation of it with a non-empty lead-in satisfies `Spec.BurstObserved` -/
theorem demo2_not_old (pl : List Byte) (lead body tail : List Tick) (acq rel : Nat) (x : Tick)
    (hx : x ∈ lead) (hsub : ∀ y ∈ lead, y ∈ demo2Stream) :
    ¬ BurstObserved pl lead body tail acq rel := by
  intro H
  have := H.lead_closed x hx
  rw [demo2_open_everywhere x (hsub x hx)] at this
  cases this

set_option maxRecDepth 1000000 in
/-- … and it meets the realistic assumptions (default sync budget 2), decided by evaluation of
    the very proposition -/
theorem demo2_observed : StreamObserved 2 demo2Stream demo2Segs := by
  unfold demo2Stream
  rw [streamObserved_map_range]
  decide +kernel

/-- the link layer on the realistic demo stream, by the general theorem -/
theorem demo2_link :
    Forall₂ (fun g b => ∃ t, b = g.payload ++ t ∧ t.length ≤ (g.rel + 7) / 8) demo2Segs
      (lrunBursts ⟨2, ⟨2, 5⟩⟩ {} demo2Stream) := by
  have hc := demoHeader_canonical
  have hpc := payloadCond_of_header ⟨2, ⟨2, 5⟩⟩ demoHeader _ hc.1 hc.2.1 hc.2.2
  refine (C01s.stream_bursts ⟨2, ⟨2, 5⟩⟩ (by decide) (by decide) demo2Stream demo2Segs demo2_observed ?_).1
  intro g hg
  simp only [demo2Segs, List.mem_cons, List.not_mem_nil, or_false] at hg
  rcases hg with rfl | rfl | rfl <;> exact hpc

set_option maxRecDepth 1000000 in
theorem demo2_bursts :
    lrunBursts ⟨2, ⟨2, 5⟩⟩ {} demo2Stream
      = [demoHeader ++ [0x41, 0x41], demoHeader ++ [0x41, 0x41], demoHeader ++ [0x41, 0x41]] := by
  decide +kernel

/-- **The chain on the realistic demo stream**, by `stream_decoded`: everything from the initial
    states; only the bursts' tails are evaluated, to discharge `htails`. -/
theorem demo2_decoded :
    DecodedOnce (chain ⟨2, ⟨2, 5⟩⟩ 22050 {} {} 0 (fun i => 42 * i) demo2Stream)
      (fun i => 42 * i) 2422 demoHeader 19 := by
  have hc := demoHeader_canonical
  have hT : TIMEOUT 22050 = 2976750 := by decide
  have hlen : demo2Stream.length = 2422 := by
    unfold demo2Stream; rw [List.length_map, List.length_range]
  have := stream_decoded ⟨2, ⟨2, 5⟩⟩ (by decide) (by decide) 22050 0 (42 * 2422) (fun i => 42 * i)
    demoHeader 19 hc.1 hc.2.1 hc.2.2 demo2Stream ⟨60, demoHeader, 0, 10⟩ ⟨574 + 60, demoHeader, 0, 10⟩
    ⟨2 * 574 + 60, demoHeader, 0, 10⟩ rfl rfl rfl demo2_observed
    (by rw [hlen]; decide) (by decide)
    (by
      intro t1 t2 t3 _ _ _ hb
      rw [demo2_bursts] at hb
      simp only [List.cons.injEq, List.append_cancel_left_eq, and_true] at hb
      obtain ⟨e1, e2, e3⟩ := hb
      rw [← e1, ← e2, ← e3]
      exact demo_tails)
    (by
      intro i hi
      rw [hlen] at hi
      rw [hT]
      omega)
  rwa [hlen] at this

end Demo

end SameVerif.Chain
