import SameVerif.Lemmas.AppFacts
/-
  C11 — samedec prints exactly the decoded messages, one per line (live mode; model: Model/App.lean).
-/
namespace SameVerif.C11
open SameVerif

/-- generalised lemma about the Alerting loop: with any fuel ≥ remaining messages + 1, and not
    quiet, it appends to what was already printed the current message, then all remaining live
    messages, then all flushed ones — in that order, each once. -/
theorem alerting_printed (cfg : AppCfg) (spawnOk : Nat → Bool) (inp : AppInput)
    (fuel : Nat) (m : AMsg) (pos : Nat) (rest : List (Nat × AMsg)) (fl : List AMsg) (out : AppOut)
    (hq : cfg.quiet = false) (hfuel : rest.length + fl.length + 1 ≤ fuel) :
    (alerting cfg spawnOk inp fuel m pos rest fl out).printed
      = out.printed ++ m :: rest.map (·.2) ++ fl := by
  rw [alerting_eq_go _ _ _ _ _ _ _ _ _ hfuel, go_printed]
  simp [hq, List.map_map, Function.comp_def]

/-- **C11.1** not quiet: the printed lines are exactly the messages the receiver returned while
    input lasted, followed by the messages returned by the flush, in order, each exactly once —
    whatever the child configuration and whatever the OS does with spawn attempts. -/
theorem printed_eq_reference (cfg : AppCfg) (spawnOk : Nat → Bool) (inp : AppInput)
    (hq : cfg.quiet = false) :
    (appRun cfg spawnOk inp).printed = inp.live.map (·.2) ++ inp.flushed := by
  rw [appRun_eq_go, go_printed]
  simpa [hq, AppInput.msgs] using all_map_snd inp

/-- **C11.2** quiet: nothing is printed -/
theorem quiet_prints_nothing (cfg : AppCfg) (spawnOk : Nat → Bool) (inp : AppInput)
    (hq : cfg.quiet = true) :
    (appRun cfg spawnOk inp).printed = [] := by
  rw [appRun_eq_go, go_printed]
  simp [hq]

/-- **C11.3** what is printed does not depend on whether a child is configured (nor on the OS) -/
theorem printed_independent_of_child (q : Bool) (spawnOk spawnOk' : Nat → Bool) (inp : AppInput) :
    (appRun ⟨q, true⟩ spawnOk inp).printed = (appRun ⟨q, false⟩ spawnOk' inp).printed := by
  rw [appRun_eq_go, appRun_eq_go, go_printed, go_printed]

/-- non-vacuity: a concrete run -/
example :
    (appRun ⟨false, true⟩ (fun k => k != 0)
      ⟨100, [(10, .som [90]), (50, .eom), (60, .som [91])], [.eom]⟩).printed
      = [.som [90], .eom, .som [91], .eom] := by decide

example :
    (appRun ⟨true, true⟩ (fun _ => true)
      ⟨100, [(10, .som [90]), (50, .eom), (60, .som [91])], [.eom]⟩).printed = [] := by decide

end SameVerif.C11
