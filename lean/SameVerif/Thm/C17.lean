import SameVerif.Model.Builder
/-
  C17 — Every documented configuration builds and runs.
-/
namespace SameVerif.C17
open SameVerif

/-- **Every guard holds** for every sample rate ≥ 8 kHz, every DC-blocker length (including the
    documented 0.0 = disabled), the equalizer disabled or with any requested orders. -/
theorem guards_hold (c : BCfg) (hrate : 8000 ≤ c.rate) : guardsHold c = true := by
  have hb : Gen.BAUD_CENTIHZ = 52083 := rfl
  have htaps : demodTaps c > 0 := by
    unfold demodTaps
    rw [hb]
    have : 52083 ≤ c.rate * 100 := by omega
    exact Nat.div_pos this (by decide)
  have hdc : dcLen c > 0 := by unfold dcLen; omega
  have heq : (eqOrders c).1 > 0 ∧ (eqOrders c).2 > 0 ∧ (eqOrders c).2 ≤ (eqOrders c).1 := by
    unfold eqOrders
    split
    · simp only
      refine ⟨by omega, ?_, by omega⟩
      omega
    · simp
  simp [guardsHold, htaps, hdc, heq.1, heq.2.1, heq.2.2]

/-- a DC-blocker length of 0.0 (or anything shorter than one input sample) gives the one-sample
    window that `DCBlocker::filter` treats as "disabled" -/
theorem dc_zero_is_disabled (c : BCfg) (h : c.dcMicro * c.rate * 100 < Gen.BAUD_CENTIHZ * 1000000) :
    dcLen c = 1 := by
  unfold dcLen
  rw [Nat.div_eq_of_lt h]
  rfl

/-- the derived lengths for the defaults at 22.05 kHz: 16 samples of DC window, 42 taps, (6, 4) -/
theorem defaults_22050 :
    dcLen ⟨22050, 380000, true, 6, 4⟩ = 16 ∧ demodTaps ⟨22050, 380000, true, 6, 4⟩ = 42
      ∧ eqOrders ⟨22050, 380000, true, 6, 4⟩ = (6, 4) := by
  decide

/-- the equalizer order clamps: feedback never exceeds feed-forward, both at least one -/
theorem eq_orders_clamped (c : BCfg) :
    1 ≤ (eqOrders c).2 ∧ (eqOrders c).2 ≤ (eqOrders c).1 := by
  unfold eqOrders
  split
  · simp only; omega
  · simp

/-- before the fix the guard was the unprotected product: it fails exactly for lengths below one
    sample (the witness that was repaired: length 0.0 at any rate) -/
theorem dc_zero_counterexample_before_fix :
    (0 * 22050 * 100 / (Gen.BAUD_CENTIHZ * 1000000) > 0) = False := by
  decide

end SameVerif.C17
