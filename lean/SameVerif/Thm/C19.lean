import SameVerif.Lemmas.AppFacts
/-
  C19 — a misbehaving child never costs a message (live mode; model: Model/App.lean).
  The operating system / child is the oracle `spawnOk`.
-/
namespace SameVerif.C19
open SameVerif

/-- **C19.6a** what is printed does not depend on the OS/child oracle at all; when not quiet it is
    the reference list of decoded messages. -/
theorem printed_independent_of_oracle (cfg : AppCfg) (spawnOk spawnOk' : Nat → Bool)
    (inp : AppInput) :
    (appRun cfg spawnOk inp).printed = (appRun cfg spawnOk' inp).printed ∧
    (cfg.quiet = false →
      (appRun cfg spawnOk inp).printed = inp.live.map (·.2) ++ inp.flushed) := by
  refine ⟨?_, fun hq => ?_⟩
  · rw [appRun_eq_go, appRun_eq_go, go_printed, go_printed]
  · rw [appRun_eq_go, go_printed]
    simpa [hq, AppInput.msgs] using all_map_snd inp

/-- **C19.6b** with a child configured and an arbitrary oracle, every decoded message is printed:
    the printed list IS the list of decoded messages (same order), so each message occurs in the
    output exactly as often as it was decoded. -/
theorem messages_never_lost (q : Bool) (spawnOk : Nat → Bool) (inp : AppInput) (hq : q = false) :
    (appRun ⟨q, true⟩ spawnOk inp).printed = inp.live.map (·.2) ++ inp.flushed ∧
    ∀ m, (appRun ⟨q, true⟩ spawnOk inp).printed.count m
          = (inp.live.map (·.2) ++ inp.flushed).count m := by
  have h := (printed_independent_of_oracle ⟨q, true⟩ spawnOk spawnOk inp).2 hq
  exact ⟨h, fun m => by rw [h]⟩

/-- **C19.7a** model-level termination (measure: remaining messages): once the fuel is at least
    the number of remaining messages + 1, the result of the Alerting loop does not depend on it —
    the fuel-exhausted branch is not what produces the result. -/
theorem alerting_fuel_irrelevant (cfg : AppCfg) (spawnOk : Nat → Bool) (inp : AppInput)
    (fuel fuel' : Nat) (m : AMsg) (pos : Nat) (rest : List (Nat × AMsg)) (fl : List AMsg)
    (out : AppOut)
    (h : rest.length + fl.length + 1 ≤ fuel) (h' : rest.length + fl.length + 1 ≤ fuel') :
    alerting cfg spawnOk inp fuel m pos rest fl out
      = alerting cfg spawnOk inp fuel' m pos rest fl out := by
  rw [alerting_eq_go _ _ _ _ _ _ _ _ _ h, alerting_eq_go _ _ _ _ _ _ _ _ _ h']

/-- **C19.7b** the fuel `appRun` uses is never exhausted prematurely: `appRun` equals the
    fuel-free structurally recursive walk `appGo` over all messages (live, then flushed at
    position `n`), and giving the loop any larger amount of fuel changes nothing. -/
theorem terminates (cfg : AppCfg) (spawnOk : Nat → Bool) (inp : AppInput) :
    appRun cfg spawnOk inp
      = appGo cfg spawnOk inp.n (inp.live ++ inp.flushed.map (fun m => (inp.n, m))) {} ∧
    ∀ fuel, inp.live.length + inp.flushed.length + 1 ≤ fuel →
      appRun cfg spawnOk inp =
        (match inp.live with
         | (p, m) :: rest => alerting cfg spawnOk inp fuel m p rest inp.flushed {}
         | [] =>
           match inp.flushed with
           | m :: fl => alerting cfg spawnOk inp fuel m inp.n [] fl {}
           | [] => {}) := by
  refine ⟨appRun_eq_go cfg spawnOk inp, fun fuel hf => ?_⟩
  unfold appRun
  cases hl : inp.live with
  | cons x rest =>
    obtain ⟨p, m⟩ := x
    simp only
    apply alerting_fuel_irrelevant <;> simp [hl] at hf ⊢ <;> omega
  | nil =>
    cases hfl : inp.flushed with
    | cons m fl =>
      simp only
      apply alerting_fuel_irrelevant <;> simp [hl, hfl] at hf ⊢ <;> omega
    | nil => rfl

/-- non-vacuity: a concrete run in which every spawn fails, one in which the first fails, and
    one in which all succeed print the same four lines -/
example :
    (appRun ⟨false, true⟩ (fun _ => false)
      ⟨100, [(10, .som [90]), (50, .eom), (60, .som [91])], [.eom]⟩).printed
      = [.som [90], .eom, .som [91], .eom] ∧
    (appRun ⟨false, true⟩ (fun k => k != 0)
      ⟨100, [(10, .som [90]), (50, .eom), (60, .som [91])], [.eom]⟩).printed
      = [.som [90], .eom, .som [91], .eom] ∧
    (appRun ⟨false, true⟩ (fun _ => true)
      ⟨100, [(10, .som [90]), (50, .eom), (60, .som [91])], [.eom]⟩).printed
      = [.som [90], .eom, .som [91], .eom] := by decide

end SameVerif.C19
