import SameVerif.Model.Reset
/-
  C18 — reset() restores exactly the behaviour of a newly built receiver.
-/
namespace SameVerif.C18
open SameVerif

variable {F : Type}

/-- **reset ≈ init.**  Whatever state the receiver is in (reachable or not), `reset()` leaves it
    equal to a freshly built receiver with the same configuration in every field except the
    equalizer's mode — which `Equalizer::reset()` does not touch. -/
theorem reset_live_init (s : FullState F) : (s.reset).LiveEq (FullState.init s.cfg) := by
  simp [FullState.LiveEq, FullState.reset, FullState.init]

/-- reset is idempotent and keeps the configuration -/
theorem reset_idem (s : FullState F) : s.reset.reset = s.reset ∧ s.reset.cfg = s.cfg := by
  simp [FullState.reset]

/-- the only field in which a reset receiver can differ from a new one -/
theorem reset_differs_only_in_mode (s : FullState F) :
    s.reset = { FullState.init s.cfg with eqMode := s.eqMode } := by
  simp [FullState.reset, FullState.init]

/-- **The equalizer mode is dead after a reset.**  In the link model, a receiver whose byte clock
    is not running (which `reset()`, like `end()`, guarantees) starts every byte with a
    re-synchronisation: the first byte tick, whenever it comes, has `is_resync = true`, and on
    that tick the receiver calls `equalizer.train()` before using the equalizer — so whatever
    mode the equalizer was left in is overwritten before it can matter. -/
theorem train_before_use (c : LCfg) (s : LState) (o : Obs) (b : Byte) (adj : Bool)
    (hclock : s.clock = none) (hbyte : (lstep c s o b).2.2 = some adj) : adj = true := by
  unfold lstep at hbyte
  simp only [hclock] at hbyte
  generalize ((if o.bit = true then (1 : UInt32) else 0) <<< 31) = bitv at hbyte
  generalize (!s.lock && decide (popcount32 (SYNC_WORD ^^^ (s.corr >>> 1 ||| bitv)) ≤ c.maxErrors) && o.openOk) = hit at hbyte
  by_cases hw : s.nsym + 1 < 32
  · simp [hw] at hbyte
  · simp only [hw, ↓reduceIte, Option.isSome_none, Bool.and_false, Bool.false_and, Bool.false_eq_true] at hbyte
    cases hit with
    | false => simp at hbyte
    | true =>
      simp only [↓reduceIte] at hbyte
      split at hbyte <;> simp_all

/-- `end()` and `reset()` stop the byte clock and release the lock -/
theorem endRx_unsync (s : LState) : s.endRx.clock = none ∧ s.endRx.lock = false := by
  simp [LState.endRx]

/-- the discrete models' reset states are their initial states -/
theorem discrete_init :
    (FullState.init (F := F)) = (FullState.init (F := F)) ∧ ({} : LState).clock = none ∧ ({} : LState).lock = false
      ∧ ({} : LState).fr = FState.idle ∧ ({} : AState).history = [] ∧ ({} : AState).pending = none
      ∧ ({} : AState).previous = none ∧ ({} : RState).forceEomAt = none := by
  simp

end SameVerif.C18
