/-
  Theorems about the whole-program model (`Model/Program.lean`): `samedec` from the bytes of its
  input to the lines it prints and the sample ranges it hands to child processes.

  P1  input conversion: `pcmOfBytes` (length, trailing odd byte, range, chunking at even offsets).
  P3  program level: C11 / C12 restated for `samedec`.
  P2  the `iter_messages` bindings lose nothing and read nothing ahead, for THIS receiver:
      `liveMsgs` = the message events of one uninterrupted run, with their timestamps, and it
      leaves the receiver in that run's final state — without any hypothesis on the run.  (The
      first version of the model gave `nextMsg` the fuel `src.length + queue.length + 1`, which is too
      little because one sample can generate two events: `old_fuel_insufficient`.)
  P4  `samedec` fails exactly when `appInputOf` does, and never does under the hypotheses of
      `FullRxThm.fullrx_never_panics`.
  P5  non-vacuity.

  Everything is generic in the number type; no arithmetic law is used except in P4 (`OrderLaws`).
  Helper definitions (`nextMsgG`, `liveMsgsK`, `foldPos`, `owedPos`, `msgsOf`) and
  lemmas are in Lemmas/ProgramFacts.lean.
-/
import SameVerif.Lemmas.ProgramFacts
import SameVerif.Thm.C11
import SameVerif.Thm.C12
import SameVerif.Thm.FullRx

namespace SameVerif.ProgramThm

open SameVerif SameVerif.Dsp Arith

/-! ## P1 input conversion -/

/-- two bytes per sample; what is left over is not a sample -/
theorem pcmOfBytes_length (bs : List UInt8) : (pcmOfBytes bs).length = bs.length / 2 :=
  pcmOfBytes_length_aux bs.length bs (Nat.le_refl _)

/-- reading in chunks cut at even offsets changes nothing -/
theorem pcmOfBytes_append (bs cs : List UInt8) (h : bs.length % 2 = 0) :
    pcmOfBytes (bs ++ cs) = pcmOfBytes bs ++ pcmOfBytes cs :=
  pcmOfBytes_append_aux cs bs.length bs (Nat.le_refl _) h

/-- a trailing odd byte is dropped -/
theorem pcmOfBytes_odd (bs : List UInt8) (b : UInt8) (h : bs.length % 2 = 0) :
    pcmOfBytes (bs ++ [b]) = pcmOfBytes bs := by
  rw [pcmOfBytes_append bs [b] h, pcmOfBytes_single, List.append_nil]

/-- every sample is an `i16` -/
theorem pcmOfBytes_range (bs : List UInt8) : ∀ v ∈ pcmOfBytes bs, -32768 ≤ v ∧ v ≤ 32767 :=
  pcmOfBytes_range_aux bs.length bs (Nat.le_refl _)

example : pcmOfBytes [0x34, 0x12, 0xFF, 0xFF, 0x00, 0x80, 0x07] = [0x1234, -1, -32768] := by decide

section Prog
variable {F : Type} [Arith F] [Hypot F]

/-! ## P3 program level: C11 and C12 for `samedec` -/

/-- `samedec` is `appRun` on what `appInputOf` extracts -/
theorem samedec_eq {cfg : RxCfg F} {app : AppCfg} {spawnOk : Nat → Bool} {bytes : List UInt8}
    {out : AppOut} {inp : AppInput}
    (h : samedec cfg app spawnOk bytes = some out) (hi : appInputOf cfg bytes = some inp) :
    out = appRun app spawnOk inp := by
  simp only [samedec, hi, Option.map_some, Option.some.injEq] at h
  exact h.symm

/-- the number of samples: half the number of bytes -/
theorem samedec_n {cfg : RxCfg F} {bytes : List UInt8} {inp : AppInput}
    (hi : appInputOf cfg bytes = some inp) : inp.n = bytes.length / 2 := by
  obtain ⟨_, _, hn, _⟩ := appInputOf_some hi
  rw [hn, List.length_map, pcmOfBytes_length]

/-- not quiet: the printed lines are the messages returned while input lasted, then those of
    the flush, in order, each once -/
theorem samedec_prints {cfg : RxCfg F} {app : AppCfg} {spawnOk : Nat → Bool} {bytes : List UInt8}
    {out : AppOut} {inp : AppInput}
    (h : samedec cfg app spawnOk bytes = some out) (hi : appInputOf cfg bytes = some inp)
    (hq : app.quiet = false) : out.printed = inp.live.map (·.2) ++ inp.flushed := by
  rw [samedec_eq h hi]; exact C11.printed_eq_reference app spawnOk inp hq

/-- quiet: nothing is printed -/
theorem samedec_quiet {cfg : RxCfg F} {app : AppCfg} {spawnOk : Nat → Bool} {bytes : List UInt8}
    {out : AppOut} (h : samedec cfg app spawnOk bytes = some out) (hq : app.quiet = true) :
    out.printed = [] := by
  simp only [samedec, Option.map_eq_some_iff] at h
  obtain ⟨inp, _, rfl⟩ := h
  exact C11.quiet_prints_nothing app spawnOk inp hq

/-- what is printed depends neither on whether a child is configured nor on what the OS does with
    the spawn attempts -/
theorem samedec_child_independent (cfg : RxCfg F) (q hc hc' : Bool) (spawnOk spawnOk' : Nat → Bool)
    (bytes : List UInt8) :
    (samedec cfg ⟨q, hc⟩ spawnOk bytes).map (·.printed)
      = (samedec cfg ⟨q, hc'⟩ spawnOk' bytes).map (·.printed) := by
  have key : ∀ (inp : AppInput) (c : Bool) (s : Nat → Bool),
      (appRun ⟨q, c⟩ s inp).printed = (appRun ⟨q, false⟩ (fun _ => true) inp).printed := by
    intro inp c s
    cases c with
    | true => exact C11.printed_independent_of_child q s _ inp
    | false =>
      rw [← C11.printed_independent_of_child q (fun _ => true) s inp]
      exact C11.printed_independent_of_child q _ _ inp
  simp only [samedec]
  cases appInputOf cfg bytes with
  | none => rfl
  | some inp => simp only [Option.map_some, key inp hc spawnOk, key inp hc' spawnOk']

/-- the positions of the live messages: non-decreasing, within the input (no hypothesis) -/
theorem samedec_positions {cfg : RxCfg F} {bytes : List UInt8} {inp : AppInput}
    (hi : appInputOf cfg bytes = some inp) :
    inp.live.Pairwise (fun a b => a.1 ≤ b.1) ∧ ∀ x ∈ inp.live, x.1 ≤ inp.n := by
  obtain ⟨r0, _, hn, hl, _⟩ := appInputOf_some hi
  rw [hl, hn, liveMsgs_eq_K]
  obtain ⟨h1, h2⟩ := liveMsgsK_pos progStep amsgOfEvent 2
    (((pcmOfBytes bytes).map (ofI16 (F := F))).length + 1) ⟨some r0, [], 0⟩ ((pcmOfBytes bytes).map ofI16)
  refine ⟨h2, fun x hx => ?_⟩
  have := (h1 x hx).2
  simpa using this

/-- C12 for `samedec`: whatever the configuration and the OS, every child's range is well-formed
    and inside the input, `from ≤ to ≤ n`; the ranges do not overlap; and the children are a
    subsequence of the expected ones -/
theorem samedec_children {cfg : RxCfg F} {app : AppCfg} {spawnOk : Nat → Bool} {bytes : List UInt8}
    {out : AppOut} {inp : AppInput}
    (h : samedec cfg app spawnOk bytes = some out) (hi : appInputOf cfg bytes = some inp) :
    (∀ c ∈ out.children, c.2.1 ≤ c.2.2 ∧ c.2.2 ≤ bytes.length / 2) ∧
    out.children.Pairwise (fun a b => a.2.2 ≤ b.2.1) ∧
    out.children.Sublist (expectedChildren inp.n (inp.live ++ inp.flushed.map (fun m => (inp.n, m)))) := by
  obtain ⟨hs, hn⟩ := samedec_positions hi
  obtain ⟨c1, c2, _⟩ := C12.children_contiguous app spawnOk inp hs hn
  rw [samedec_eq h hi, ← samedec_n hi]
  exact ⟨c1, c2, C12.children_sublist_expected app spawnOk inp⟩

/-- a child is configured and every spawn succeeds: exactly one child per StartOfMessage, in
    order, with exactly the expected ranges -/
theorem samedec_children_all {cfg : RxCfg F} {app : AppCfg} {spawnOk : Nat → Bool} {bytes : List UInt8}
    {out : AppOut} {inp : AppInput}
    (h : samedec cfg app spawnOk bytes = some out) (hi : appInputOf cfg bytes = some inp)
    (hc : app.hasChild = true) (hok : ∀ k, spawnOk k = true) :
    out.children = expectedChildren inp.n (inp.live ++ inp.flushed.map (fun m => (inp.n, m))) ∧
    out.children.map (·.1) = (inp.live.map (·.2) ++ inp.flushed).filter AMsg.isSom := by
  rw [samedec_eq h hi]
  exact ⟨C12.children_eq_expected app spawnOk inp hc hok, C12.children_one_per_som app spawnOk inp hc hok⟩

/-- no child configured: no child, no spawn attempt; configured: one attempt per StartOfMessage -/
theorem samedec_spawn_attempts {cfg : RxCfg F} {app : AppCfg} {spawnOk : Nat → Bool} {bytes : List UInt8}
    {out : AppOut} {inp : AppInput}
    (h : samedec cfg app spawnOk bytes = some out) (hi : appInputOf cfg bytes = some inp) :
    (app.hasChild = false → out.children = [] ∧ out.spawnAttempts = 0) ∧
    (app.hasChild = true →
      out.spawnAttempts = (inp.live.map (·.2) ++ inp.flushed).countP AMsg.isSom) := by
  rw [samedec_eq h hi]
  exact ⟨C12.no_child_without_config app spawnOk inp, fun hc => (C12.spawn_attempts_eq_soms app spawnOk inp hc).1⟩

/-! ## P2 the bindings lose nothing and read nothing ahead -/

/-- the events of one uninterrupted run (up to a panic, if there is one) -/
def runEvents (r0 : FullRx F) (xs : List F) : List Event := (foldEvents progStep (some r0) xs).1

/-- without a panic, `runEvents` is the event list of `FullRx.run` -/
theorem runEvents_eq_run {r0 r' : FullRx F} {xs : List F} {evs : List Event}
    (h : FullRx.run r0 xs = some (r', evs)) : runEvents r0 xs = evs := by
  rw [runEvents, foldEvents_progStep_run xs r0 r' evs h]

/-- … and the fold's final state is the run's -/
theorem fold_state_eq_run (r0 : FullRx F) (xs : List F) :
    (foldEvents progStep (some r0) xs).2 = (FullRx.run r0 xs).map (·.1) := by
  cases h : FullRx.run r0 xs with
  | none => rw [foldEvents_progStep_panic xs r0 h]; rfl
  | some p => obtain ⟨r', evs⟩ := p; rw [foldEvents_progStep_run xs r0 r' evs h]; rfl

/-- at most one message per sample (`progStep_msgs_le_one`): a binding that starts with an empty
    queue owes at most as many messages as there are samples -/
theorem live_msgs_le (r0 : FullRx F) (c : Nat) (xs : List F) :
    (msgsOf amsgOfEvent (owedPos progStep (⟨some r0, [], c⟩ : PRx F) xs)).length ≤ xs.length := by
  have := msgsOf_foldPos_le progStep amsgOfEvent progStep_msgs_le_one xs (some r0) c
  simpa only [owedPos, List.map_nil, List.nil_append] using this

/-- **P2.**  The messages `samedec` sees while input lasts, each with the consumed-sample count at
    which the binding returns it, are exactly the message events of one uninterrupted run over the
    same samples, in order, each with its timestamp — however many bindings were created and
    dropped in between, and whether or not the receiver panics on the way.  No hypothesis on the
    run: a sample generates at most two events (`progStep_length_le_two`), which the fuel
    `2 * src.length + queue.length + 1` of `nextMsg` covers, and at most one message
    (`progStep_msgs_le_one`), so an outer fuel of `xs.length` is enough.  (The binding's counter
    starts where the receiver's does.) -/
theorem liveMsgs_eq_fold (r0 : FullRx F) (xs : List F) (fuel : Nat) (hf : xs.length ≤ fuel) :
    (liveMsgs fuel ⟨some r0, [], r0.inputCounter⟩ xs).1
      = (runEvents r0 xs).filterMap (fun e => (amsgOfEvent e).map (fun m => (Event.stamp e, m))) := by
  have ho : owedPos progStep (⟨some r0, [], r0.inputCounter⟩ : PRx F) xs
      = (runEvents r0 xs).map (fun e => (e.stamp, e)) := by
    simp only [owedPos, List.map_nil, List.nil_append, foldPos_progStep, runEvents]
  have hm := live_msgs_le r0 r0.inputCounter xs
  rw [liveMsgs_eq_K, (liveMsgsK_spec progStep amsgOfEvent 2 progStep_length_le_two fuel
    ⟨some r0, [], r0.inputCounter⟩ xs (by omega)).1, ho, msgsOf_stamped]

/-- for a receiver as `FullRx.new` builds it (or after `reset`): the counter starts at 0 -/
theorem liveMsgs_eq_fold_new (r0 : FullRx F) (xs : List F) (fuel : Nat) (h0 : r0.inputCounter = 0)
    (hf : xs.length ≤ fuel) :
    (liveMsgs fuel ⟨some r0, [], 0⟩ xs).1
      = (runEvents r0 xs).filterMap (fun e => (amsgOfEvent e).map (fun m => (Event.stamp e, m))) := by
  rw [← h0]; exact liveMsgs_eq_fold r0 xs fuel hf

/-- without the positions -/
theorem liveMsgs_msgs (r0 : FullRx F) (xs : List F) (fuel : Nat) (hf : xs.length ≤ fuel) :
    (liveMsgs fuel ⟨some r0, [], r0.inputCounter⟩ xs).1.map (·.2)
      = (runEvents r0 xs).filterMap amsgOfEvent := by
  rw [liveMsgs_eq_fold r0 xs fuel hf, List.map_filterMap]
  congr 1
  funext e
  cases amsgOfEvent e <;> rfl

/-- **the bindings read the input to its end.**  With an outer fuel of more than `xs.length` (as
    `appInputOf` supplies it) the live loop of `samedec` leaves the receiver in the state one
    uninterrupted run leaves it in (`none` if that run panics), with nothing queued and every sample
    counted — so the flush starts from exactly the state the real program flushes from.  No
    hypothesis on the run; the queue is always empty at the end. -/
theorem liveMsgs_final (r0 : FullRx F) (xs : List F) (c : Nat) (fuel : Nat) (hf : xs.length < fuel) :
    (liveMsgs fuel ⟨some r0, [], c⟩ xs).2
      = { st := (FullRx.run r0 xs).map (·.1), queue := [], consumed := c + xs.length } := by
  have hm := live_msgs_le r0 c xs
  rw [liveMsgs_eq_K, (liveMsgsK_spec progStep amsgOfEvent 2 progStep_length_le_two fuel
    ⟨some r0, [], c⟩ xs (by omega)).2 (by omega), fold_state_eq_run]

/-- **witness of the defect this file found in the first version of Model/Program.lean**, which
    gave `nextMsg` the fuel `src.length + queue.length + 1` (`liveMsgsK` with `k = 1`): every sample
    generates two events, the fifth event is the first message; four calls of `next()` do not reach
    it, and the loop ends without having returned it.  The receiver does generate two events on one
    sample (a link-state change and a transport-state change), so P2 could only be proved under a
    pacing hypothesis; Model/Program.lean was corrected because of this (fuel
    `2 * src.length + queue.length + 1`, in `liveMsgs` and in `flushOnce`), and with the corrected
    fuel (`k = 2`) the same input is handled correctly and P2 needs no hypothesis. -/
theorem old_fuel_insufficient :
    (liveMsgsK (fun (s x : Nat) => (s, [x, x])) (fun e => if e = 1 then some e else none) 1
        ([0, 0, 1].length + 1) { st := 0 } [0, 0, 1]).1 = []
    ∧ msgsOf (fun e => if e = 1 then some e else none)
        (owedPos (fun (s x : Nat) => (s, [x, x])) { st := 0 } [0, 0, 1]) = [(3, 1), (3, 1)]
    ∧ (liveMsgsK (fun (s x : Nat) => (s, [x, x])) (fun e => if e = 1 then some e else none) 2
        ([0, 0, 1].length + 1) { st := 0 } [0, 0, 1]).1 = [(3, 1), (3, 1)] := by
  decide

/-- the old fuel could also stop short of the end of the input (two adjacent samples with two
    events each, then a silent one: `3 + 0 + 1` calls are used up by the four events, the third
    sample is never read); the corrected one reads all three -/
example :
    (liveMsgsK (fun (s x : Nat) => (s + 1, if x = 0 then [] else [x, x])) (fun _ => (none : Option Nat)) 1
        4 { st := 0 } [2, 2, 0]).2.consumed = 2
    ∧ (liveMsgsK (fun (s x : Nat) => (s + 1, if x = 0 then [] else [x, x])) (fun _ => (none : Option Nat)) 2
        4 { st := 0 } [2, 2, 0]).2.consumed = 3 := by decide

/-- **`flush()`**: one call returns the first message among what is owed on four seconds of zeros
    (queued events first), or nothing if there is none — and then the zeros have been read to
    their end -/
theorem flushOnce_spec (rate : Nat) (r : PRx F) :
    (flushOnce rate r).1
        = ((msgsOf amsgOfEvent (owedPos progStep r (List.replicate (4 * rate) zero))).head?).map (·.2)
    ∧ ((flushOnce rate r).1 = none →
        (flushOnce rate r).2
          = { st := (foldEvents progStep r.st (List.replicate (4 * rate) zero)).2, queue := [],
              consumed := r.consumed + 4 * rate }) := by
  have hlt := owed_lt_fuel progStep 2 progStep_length_le_two r (List.replicate (4 * rate) (zero : F))
  simp only [flushOnce, nextMsg_eq_G]
  rcases msgsOf_split amsgOfEvent (owedPos progStep r (List.replicate (4 * rate) (zero : F))) with
    ⟨h1, h2⟩ | ⟨pre, p, e, rest, m, h1, h2, h3, h4⟩
  · rw [nextMsgG_none_exact progStep amsgOfEvent _ r _ h1 hlt, h2]
    simp
  · have hlen : pre.length < 2 * (List.replicate (4 * rate) (zero : F)).length + r.queue.length + 1 := by
      rw [h1] at hlt
      simp only [List.length_append, List.length_cons] at hlt
      omega
    obtain ⟨r', src', g1, _⟩ := nextMsgG_found progStep amsgOfEvent _ r _ pre p e rest m h1 h2 h3 hlen
    rw [g1, h4]
    simp

/-- **`samedec` prints exactly the messages the library decodes from those samples, in order**:
    the live part of what is printed is the message events of one uninterrupted run of the
    receiver over the samples (each returned at its timestamp); the rest is what the flush returned. -/
theorem samedec_prints_run {cfg : RxCfg F} {app : AppCfg} {spawnOk : Nat → Bool} {bytes : List UInt8}
    {out : AppOut} {inp : AppInput} {r0 : FullRx F}
    (h : samedec cfg app spawnOk bytes = some out) (hi : appInputOf cfg bytes = some inp)
    (hnew : FullRx.new cfg = some r0) (hq : app.quiet = false) :
    inp.live = (runEvents r0 ((pcmOfBytes bytes).map ofI16)).filterMap
        (fun e => (amsgOfEvent e).map (fun m => (Event.stamp e, m))) ∧
    out.printed = (runEvents r0 ((pcmOfBytes bytes).map ofI16)).filterMap amsgOfEvent ++ inp.flushed := by
  obtain ⟨r0', hn', _, hl, _⟩ := appInputOf_some hi
  rw [hnew] at hn'; cases hn'
  have h0 : r0.inputCounter = 0 := (FullRx.new_fields hnew).2.2.2.1
  have hlive := liveMsgs_eq_fold_new r0 ((pcmOfBytes bytes).map ofI16) _ h0 (Nat.le_succ _)
  refine ⟨by rw [hl, hlive], ?_⟩
  rw [samedec_prints h hi hq, hl, hlive, List.map_filterMap]
  congr 2
  funext e
  cases amsgOfEvent e <;> rfl

/-- … and the flushed part is what repeated `flush()` calls return starting from the state that
    uninterrupted run ends in (nothing queued, all samples counted) -/
theorem samedec_flushed_run {cfg : RxCfg F} {bytes : List UInt8} {inp : AppInput} {r0 : FullRx F}
    (hi : appInputOf cfg bytes = some inp) (hnew : FullRx.new cfg = some r0) :
    inp.flushed = (flushAll cfg.rate 64
      { st := (FullRx.run r0 ((pcmOfBytes bytes).map ofI16)).map (·.1), queue := [],
        consumed := bytes.length / 2 }).1 := by
  obtain ⟨r0', hn', _, _, hf⟩ := appInputOf_some hi
  rw [hnew] at hn'; cases hn'
  rw [hf, liveMsgs_final r0 _ 0 _ (Nat.lt_succ_self _), Nat.zero_add, List.length_map, pcmOfBytes_length]

/-! ## P4 `samedec` fails exactly when the receiver panics -/

theorem samedec_none_iff (cfg : RxCfg F) (app : AppCfg) (spawnOk : Nat → Bool) (bytes : List UInt8) :
    samedec cfg app spawnOk bytes = none ↔ appInputOf cfg bytes = none := by
  simp only [samedec, Option.map_eq_none_iff]

end Prog

section NeverPanics
variable {F : Type} [Arith F] [OrderLaws F] [Hypot F]

/-- under the hypotheses of `FullRxThm.fullrx_never_panics` the receiver state survives every
    sample — the live input and the zeros of every flush alike — so `appInputOf` never fails -/
theorem appInputOf_ne_none {cfg : RxCfg F} {r0 : FullRx F}
    (hnew : FullRx.new cfg = some r0) (hle : le cfg.agcMin cfg.agcMax = true)
    (htl : le r0.tl.periodMin r0.tl.samplesPerTed = true ∧
      le r0.tl.samplesPerTed r0.tl.periodMax = true) (bytes : List UInt8) :
    appInputOf cfg bytes ≠ none := by
  obtain ⟨hl, hinv, _⟩ := FullRx.new_inv hnew hle htl.1 htl.2
  let P : Option (FullRx F) → Prop := fun s => ∃ rx, s = some rx ∧
    RxInv cfg.dcLen cfg.agcMin cfg.agcMax r0.agc.bandwidth r0.tl.samplesPerTed r0.tl.periodMin r0.tl.periodMax rx
  have hstep : ∀ s x, P s → P (progStep s x).1 := by
    rintro s x ⟨rx, rfl, hrx⟩
    obtain ⟨r', evs, e, hr'⟩ := FullRx.sample_total hrx hl hle htl.1 htl.2 x
    exact ⟨r', by rw [progStep_some_some e], hr'⟩
  intro hnone
  rcases (appInputOf_none_iff cfg bytes).1 hnone with h | ⟨r0', h1, h2⟩
  · rw [hnew] at h; cases h
  · rw [hnew] at h1; cases h1
    have hP := flushAll_pres P hstep cfg.rate 64 _
      (liveMsgs_pres P hstep (((pcmOfBytes bytes).map (ofI16 (F := F))).length + 1) ⟨some r0, [], 0⟩
        ((pcmOfBytes bytes).map ofI16) ⟨r0, rfl, hinv⟩)
    obtain ⟨rx, e, _⟩ := hP
    rw [h2] at e; cases e

/-- **the program model never crashes**, whatever bytes it is fed, whatever the child
    configuration and whatever the OS does -/
theorem samedec_never_panics {cfg : RxCfg F} {r0 : FullRx F}
    (hnew : FullRx.new cfg = some r0) (hle : le cfg.agcMin cfg.agcMax = true)
    (htl : le r0.tl.periodMin r0.tl.samplesPerTed = true ∧
      le r0.tl.samplesPerTed r0.tl.periodMax = true)
    (app : AppCfg) (spawnOk : Nat → Bool) (bytes : List UInt8) :
    samedec cfg app spawnOk bytes ≠ none := by
  rw [ne_eq, samedec_none_iff]; exact appInputOf_ne_none hnew hle htl bytes

end NeverPanics

/-! ### over the rationals: `dcLen ≠ 0`, `0 ≤ sps` and `agc_min ≤ agc_max` suffice -/

theorem samedec_never_panics_rat [Hypot Rat] {cfg : RxCfg Rat} (hdc : cfg.dcLen ≠ 0)
    (hsps : 0 ≤ cfg.sps) (hagc : cfg.agcMin ≤ cfg.agcMax)
    (app : AppCfg) (spawnOk : Nat → Bool) (bytes : List UInt8) :
    samedec cfg app spawnOk bytes ≠ none := by
  obtain ⟨r0, hnew⟩ := FullRxThm.fullrx_new_rat hdc
  obtain ⟨_, _, _, _, _, _, htl⟩ := FullRx.new_fields hnew
  obtain ⟨l, e, _, _, _, _, _, _, _, b1, b2, _⟩ :=
    DspThm.tl_new_bounds cfg.sps cfg.alphaU cfg.betaU cfg.maxDev hsps
  rw [e] at htl; cases htl
  exact samedec_never_panics hnew ((rat_le_iff _ _).2 hagc)
    ⟨(rat_le_iff _ _).2 b1, (rat_le_iff _ _).2 b2⟩ app spawnOk bytes

/-! ## P5 non-vacuity -/

section Demo

/-- for the examples only (as in Thm/FullRx.lean; the theorems hold for ANY `Hypot Rat`) -/
local instance : Hypot Rat := FullRxThm.demoHypot

/-- `demoCfg2` of Thm/FullRx.lean with a "sampling rate" of 2 Hz, so that a flush is 8 zeros -/
def demoCfg3 : RxCfg Rat := { FullRxThm.demoCfg2 with rate := 2 }

/-- by evaluation: nine bytes are four samples (1000, -2000, 1500, 300) and a dropped odd byte;
    nothing is decoded, nothing printed, no child -/
theorem demo3_eval :
    (samedec demoCfg3 ⟨false, true⟩ (fun _ => true) [0xE8, 0x03, 0x30, 0xF8, 0xDC, 0x05, 0x2C, 0x01, 0x07]).map
      (fun o => (o.printed, o.children, o.spawnAttempts)) = some ([], [], 0) ∧
    (appInputOf demoCfg3 [0xE8, 0x03, 0x30, 0xF8, 0xDC, 0x05, 0x2C, 0x01, 0x07]).map
      (fun i => (i.n, i.live, i.flushed)) = some (4, [], []) := by
  constructor <;> decide +kernel

/-- … and by the general theorem, for every byte string -/
example (app : AppCfg) (spawnOk : Nat → Bool) (bytes : List UInt8) :
    samedec demoCfg3 app spawnOk bytes ≠ none :=
  samedec_never_panics_rat (by decide) (by decide +kernel) (by decide +kernel) app spawnOk bytes

/-- P2 on the 97 samples of `demoSig` (Thm/FullRx.lean: 48 preamble bits; the receiver reports
    `Searching` at input sample 65).  By evaluation: one event, which is not a message — the loop
    consumes and drops it, returns no message and has counted all 97 samples. -/
theorem demo2_live :
    ((FullRx.new FullRxThm.demoCfg2).map fun r0 =>
      ((runEvents r0 FullRxThm.demoSig).map Event.stamp,
       (liveMsgs 98 ⟨some r0, [], 0⟩ FullRxThm.demoSig).1,
       (liveMsgs 98 ⟨some r0, [], 0⟩ FullRxThm.demoSig).2.consumed)) = some ([65], [], 97) := by
  decide +kernel

/-- … and by the general theorems, which need nothing about the run -/
example : ∃ r0, FullRx.new FullRxThm.demoCfg2 = some r0 ∧
    (runEvents r0 FullRxThm.demoSig).length = 1 ∧
    (liveMsgs 98 ⟨some r0, [], 0⟩ FullRxThm.demoSig).1
      = (runEvents r0 FullRxThm.demoSig).filterMap
          (fun e => (amsgOfEvent e).map (fun m => (Event.stamp e, m))) ∧
    (liveMsgs 98 ⟨some r0, [], 0⟩ FullRxThm.demoSig).2
      = { st := (FullRx.run r0 FullRxThm.demoSig).map (·.1), queue := [], consumed := 0 + 97 } := by
  obtain ⟨r0, h⟩ := FullRxThm.fullrx_new_rat (cfg := FullRxThm.demoCfg2) (by decide)
  have e := demo2_live
  rw [h] at e
  simp only [Option.map_some, Option.some.injEq, Prod.mk.injEq] at e
  have hlen : (runEvents r0 FullRxThm.demoSig).length = 1 := by
    have := congrArg List.length e.1
    simpa using this
  have hl : FullRxThm.demoSig.length = 97 := by decide +kernel
  refine ⟨r0, h, hlen,
    liveMsgs_eq_fold_new r0 _ 98 (FullRx.new_fields h).2.2.2.1 (by rw [hl]; decide), ?_⟩
  rw [liveMsgs_final r0 _ 0 98 (by rw [hl]; decide), hl]

/-- the hypotheses of the P3 theorems can be met: `samedec` and `appInputOf` do return something -/
example : ∃ out inp, samedec demoCfg3 ⟨false, true⟩ (fun _ => true) [1, 2, 3, 4, 5] = some out
    ∧ appInputOf demoCfg3 [1, 2, 3, 4, 5] = some inp ∧ inp.n = 2 := by
  cases hi : appInputOf demoCfg3 [1, 2, 3, 4, 5] with
  | none =>
    exact absurd ((samedec_none_iff demoCfg3 ⟨false, true⟩ (fun _ => true) _).2 hi)
      (samedec_never_panics_rat (by decide) (by decide +kernel) (by decide +kernel) _ _ _)
  | some inp =>
    exact ⟨appRun ⟨false, true⟩ (fun _ => true) inp, inp, by simp [samedec, hi], rfl, samedec_n hi⟩

/-- the conclusions of P3 are not vacuous: an `AppInput` with two live messages and a flushed one,
    through `appRun` — printed in order; one child per StartOfMessage with the expected ranges -/
example :
    let inp : AppInput := ⟨100, [(10, .som [90, 67]), (50, .eom)], [.som [91]]⟩
    (appRun ⟨false, true⟩ (fun _ => true) inp).printed = inp.live.map (·.2) ++ inp.flushed
    ∧ (appRun ⟨false, true⟩ (fun _ => true) inp).printed = [.som [90, 67], .eom, .som [91]]
    ∧ (appRun ⟨false, true⟩ (fun _ => true) inp).children = [(.som [90, 67], 10, 50), (.som [91], 100, 100)]
    ∧ (appRun ⟨true, false⟩ (fun _ => false) inp).printed = [] := by
  decide

/-- the message loop does return messages with their positions, and drops the events that are not
    messages: an abstract step function (sample `x` generates the events `x` and `x + 1`; even events
    are messages) through `liveMsgsK … 2`, which `liveMsgs` is an instance of (`liveMsgs_eq_K`) -/
example :
    (liveMsgsK (fun (s x : Nat) => (s + x, if x = 0 then [] else [x, x + 1]))
        (fun e => if e % 2 = 0 then some e else none) 2 6 { st := 0 } [0, 3, 0, 6, 0]).1
      = [(2, 4), (4, 6)]
    ∧ msgsOf (fun e => if e % 2 = 0 then some e else none)
        (owedPos (fun (s x : Nat) => (s + x, if x = 0 then [] else [x, x + 1])) { st := 0 } [0, 3, 0, 6, 0])
      = [(2, 4), (4, 6)] := by
  decide

end Demo

end SameVerif.ProgramThm
