import SameVerif.Thm.ChainT
import SameVerif.Thm.TransportFull
import SameVerif.Lemmas.ChainFull
/-
  The digital chain for the WHOLE transmission: header ×3, then `NNNN` ×3, on one tick stream, link
  model → receiver glue → assembler, all from their initial states.

  LAYER A (transport) is `Thm/TransportFull.lean`.
  LAYER B (`receiver_events_eom`): the receiver bridge of `Thm/Chain.lean` with EndOfMessage
          outputs allowed — at most one, the reported transport state not EndOfMessage at the start.
  LAYER C (`full_of_link_output`, `transmission_full_g`, `stream_full2`): the composition;
          conclusion `DecodedFull`: exactly two message events, StartOfMessage with text exactly
          `H` at tick `i`, EndOfMessage at tick `j`, `i < j`.
-/
namespace SameVerif.Chain
open SameVerif SameVerif.Spec SameVerif.Asm SameVerif.Full

/-! ## LAYER B — receiver run = assembler operations, EndOfMessage included -/

/-- **Bridge, events, with EndOfMessage.**  `RInv s`; the timer does not fire (`NoFire`,
    `SamplesWithin`: the whole run within one timeout — a StartOfMessage output arms the timer, an
    EndOfMessage output clears it, neither matters within one timeout); the reported transport
    state is not EndOfMessage at the start; the assembler run over `opsOfTicks ticks` outputs at
    most one EndOfMessage.  Then the message events of the receiver run are, in order and one for
    one, the outputs of the assembler run. -/
theorem receiver_events_eom (rate smax : Nat) (s : RState) (ticks : List RTick) (hinv : RInv s)
    (hnf : NoFire smax s) (hsw : SamplesWithin rate smax ticks)
    (hts : s.transportState ≠ .message (.ok .eom))
    (hone : eomCount (runOps s.asm (opsOfTicks ticks)).2 ≤ 1) :
    Forall₂ (Matches ticks) (msgEvents (rRun rate s ticks).2) (runOps s.asm (opsOfTicks ticks)).2 :=
  run_events_eom rate smax ticks s hinv hnf hsw hts hone

/-- the results alone: the same list, in the same order -/
theorem receiver_results_eom (rate smax : Nat) (s : RState) (ticks : List RTick) (hinv : RInv s)
    (hnf : NoFire smax s) (hsw : SamplesWithin rate smax ticks)
    (hts : s.transportState ≠ .message (.ok .eom))
    (hone : eomCount (runOps s.asm (opsOfTicks ticks)).2 ≤ 1) :
    (msgEvents (rRun rate s ticks).2).map (·.2) = ((runOps s.asm (opsOfTicks ticks)).2).map (·.2) :=
  forall2_matches_results ticks _ _ (run_events_eom rate smax ticks s hinv hnf hsw hts hone)

/-- **"At most one" matters.**  Two trailer bursts a history time apart with only carrier ticks
    (no poll) between them: the assembler outputs EndOfMessage twice (F5), the receiver reports
    one event — the second answer equals the reported transport state. -/
theorem eom_twice_one_event :
    (runOps {} (opsOfTicks [(10, 1, .burst litNNNN), (20, 2, .reading), (30, 2 + HIST, .burst litNNNN)])).2
        = [(1, .ok .eom), (2 + HIST, .ok .eom)]
    ∧ msgEvents (rRun 22050 {} [(10, 1, .burst litNNNN), (20, 2, .reading), (30, 2 + HIST, .burst litNNNN)]).2
        = [(10, .ok .eom)] := by
  decide +kernel

/-! ## LAYER C — the chain -/

/-- the conclusion: among the events there are exactly two message events, a StartOfMessage with
    text exactly `H` carrying the sample of tick `i ≥ loI`, then an EndOfMessage carrying the sample
    of tick `j`, `i < j`, `loJ ≤ j < hiJ` -/
def DecodedFull (evs : List Event) (samples : Nat → Nat) (H : List Byte) (off loI loJ hiJ : Nat) : Prop :=
  ∃ i j h, loI ≤ i ∧ i < j ∧ loJ ≤ j ∧ j < hiJ
    ∧ msgEvents evs = [(samples i, .ok (.som h)), (samples j, .ok .eom)]
    ∧ h.text = H ∧ h.offsetTime = off ∧ h.parity = 0 ∧ (h.voting = 0 ∨ h.voting = H.length)

theorem eomCount_som_eom (u v : Nat) (h : Header) :
    eomCount [(u, .ok (.som h)), (v, .ok .eom)] ≤ 1 := by
  have : List.filter isEomOut [(u, .ok (.som h)), (v, .ok .eom)] = [(v, .ok .eom)] := rfl
  unfold eomCount
  rw [this]
  exact Nat.le_refl _

/-- **The chain, from the link model's per-tick output.**  Six stretches, each with exactly one
    `.burst` after the end of its body (`SegOut`): three of `H`, three of `NNNN`, then `n`
    `.noCarrier` ticks.  Tick `r` of the fourth stretch — in its lead-in, at least `HOLD - 1` ticks
    in — is `.noCarrier`: the poll that releases the StartOfMessage before the trailer arrives.
    The receiver starts in `{}`. -/
theorem full_of_link_output (rate sym0 smax : Nat) (samples : Nat → Nat) (H : List Byte) (off : Nat)
    (hcan : checkHeader H = some (off, H.length))
    (hall : ∀ b ∈ H, isAllowed b = true)
    (hfit : H.length ≤ MAXLEN)
    (g1 g2 g3 g4 g5 g6 : Seg) (t1 t2 t3 e1 e2 e3 : List Byte) (L1 L2 L3 L4 L5 L6 : List LinkSt)
    (n r : Nat)
    (o1 : SegOut g1 H t1 L1) (o2 : SegOut g2 H t2 L2) (o3 : SegOut g3 H t3 L3)
    (o4 : SegOut g4 litNNNN e1 L4) (o5 : SegOut g5 litNNNN e2 L5) (o6 : SegOut g6 litNNNN e3 L6)
    (hr : HOLD ≤ r + 1) (hrl : r < g4.lead.length) (hnc : L4[r]? = some .noCarrier)
    (hspanH : g1.tail.length + g2.ticks.length + g3.ticks.length ≤ HIST)
    (hspanT : g4.tail.length + g5.ticks.length + g6.ticks.length ≤ HIST)
    (htd : TailsNoDash H t1 t2 t3) (hshort : e1.length + 4 ≤ H.length)
    (hsamp : ∀ i, i < (L1 ++ L2 ++ L3 ++ L4 ++ L5 ++ L6 ++ List.replicate n LinkSt.noCarrier).length →
      samples i ≤ smax ∧ smax ≤ samples i + TIMEOUT rate) :
    DecodedFull (rRun rate {} (mkTicks samples sym0 0
        (L1 ++ L2 ++ L3 ++ L4 ++ L5 ++ L6 ++ List.replicate n LinkSt.noCarrier))).2 samples H off
      (L1.length + g2.lead.length + g2.body.length + 31 + HOLD)
      ((L1 ++ L2 ++ L3).length + g4.lead.length + g4.body.length + 31)
      (L1 ++ L2 ++ L3 ++ L4 ++ L5).length := by
  have hHOLD := HOLD_pos
  obtain ⟨pa1, pb1, k1, q1, hk1, hk1'⟩ := opsAt_segOut samples sym0 0 g1 H t1 L1 o1
  obtain ⟨pa2, pb2, k2, q2, hk2, hk2'⟩ := opsAt_segOut samples sym0 (0 + L1.length) g2 H t2 L2 o2
  obtain ⟨pa3, pb3, k3, q3, hk3, hk3'⟩ := opsAt_segOut samples sym0 (0 + (L1 ++ L2).length) g3 H t3 L3 o3
  obtain ⟨pa4, pb4, k4, q4, hk4, hk4', hlt4, hmem4⟩ :=
    opsAt_segOut_polls samples sym0 (0 + (L1 ++ L2 ++ L3).length) g4 litNNNN e1 L4 o4
  obtain ⟨pa5, pb5, k5, q5, hk5, hk5'⟩ :=
    opsAt_segOut samples sym0 (0 + (L1 ++ L2 ++ L3 ++ L4).length) g5 litNNNN e2 L5 o5
  obtain ⟨pa6, pb6, k6, q6, hk6, hk6'⟩ :=
    opsAt_segOut samples sym0 (0 + (L1 ++ L2 ++ L3 ++ L4 ++ L5).length) g6 litNNNN e3 L6 o6
  obtain ⟨pq, q7⟩ := opsAt_noBurst samples sym0 (List.replicate n LinkSt.noCarrier) (noBurst_replicate n)
    (0 + (L1 ++ L2 ++ L3 ++ L4 ++ L5 ++ L6).length)
  -- the release poll
  have htg := hmem4 r (by omega) hnc
  obtain ⟨A, B, hAB⟩ := List.append_of_mem htg
  have htgN := hlt4 _ htg
  generalize hT1 : sym0 + 1 + 0 + k1 = T1 at q1
  generalize hT2 : sym0 + 1 + (0 + L1.length) + k2 = T2 at q2
  generalize hT3 : sym0 + 1 + (0 + (L1 ++ L2).length) + k3 = T3 at q3
  generalize hN1 : sym0 + 1 + (0 + (L1 ++ L2 ++ L3).length) + k4 = N1 at q4 htgN
  generalize hN2 : sym0 + 1 + (0 + (L1 ++ L2 ++ L3 ++ L4).length) + k5 = N2 at q5
  generalize hN3 : sym0 + 1 + (0 + (L1 ++ L2 ++ L3 ++ L4 ++ L5).length) + k6 = N3 at q6
  generalize hTG : sym0 + 1 + (0 + (L1 ++ L2 ++ L3).length + r) = TG at hAB htgN
  generalize hL : L1 ++ L2 ++ L3 ++ L4 ++ L5 ++ L6 ++ List.replicate n LinkSt.noCarrier = L at hsamp ⊢
  -- the operation list
  have hops : opsAt samples sym0 0 L
      = pa1.map .poll ++ (headerOps H t1 t2 t3 T1 T2 T3 TG (pb1 ++ pa2) (pb2 ++ pa3) (pb3 ++ A)
          ++ trailerOps e1 e2 e3 N1 N2 N3 B (pb4 ++ pa5) (pb5 ++ pa6) (pb6 ++ pq)) := by
    rw [← hL, opsAt_append, opsAt_append, opsAt_append, opsAt_append, opsAt_append, opsAt_append,
      q1, q2, q3, q4, q5, q6, q7, hAB]
    unfold headerOps trailerOps
    simp only [List.map_append, List.map_cons, List.append_assoc, List.cons_append, List.nil_append]
  have hsorted := opsAt_sorted samples sym0 L 0
  rw [hops] at hsorted
  have hsorted' := (C05seq.sorted_append _ _ hsorted).2.1
  obtain ⟨z1, z2, z3, z4⟩ := run_polls_init pa1
  -- lengths
  have hl1 := o1.len
  have hl2 := o2.len
  have hl3 := o3.len
  have hl4 := o4.len
  have hl5 := o5.len
  have hl6 := o6.len
  have ht1 : g1.ticks.length = g1.lead.length + g1.body.length + g1.tail.length := by
    simp only [Seg.ticks, List.length_append]
  have ht4 : g4.ticks.length = g4.lead.length + g4.body.length + g4.tail.length := by
    simp only [Seg.ticks, List.length_append]
  have hl12 : (L1 ++ L2).length = L1.length + L2.length := List.length_append
  have hl123 : (L1 ++ L2 ++ L3).length = L1.length + L2.length + L3.length := by
    simp only [List.length_append]
  have hl1234 : (L1 ++ L2 ++ L3 ++ L4).length = L1.length + L2.length + L3.length + L4.length := by
    simp only [List.length_append]
  have hl12345 : (L1 ++ L2 ++ L3 ++ L4 ++ L5).length
      = L1.length + L2.length + L3.length + L4.length + L5.length := by
    simp only [List.length_append]
  have hlL : L.length = L1.length + L2.length + L3.length + L4.length + L5.length + L6.length + n := by
    rw [← hL]; simp only [List.length_append, List.length_replicate]
  -- the transport
  obtain ⟨u, v, h, hres, hx1, hx2, hx3, hx4, hu1, hu2, _, hv1, hv2⟩ :=
    full_transmission (runOps {} (pa1.map .poll)).1 H t1 t2 t3 e1 e2 e3 off T1 T2 T3 TG N1 N2 N3
      (pb1 ++ pa2) (pb2 ++ pa3) (pb3 ++ A) B (pb4 ++ pa5) (pb5 ++ pa6) (pb6 ++ pq)
      hall hcan hfit htd.1 htd.2 (fun _ => trailer_tail_cond H t1 t2 t3 e1 hshort htd.2)
      z2 z3 (by intro p hp; rw [z4] at hp; cases hp) hsorted' (by omega) (by omega) (by omega)
  have hrun : (runOps ({} : RState).asm (opsOfTicks (mkTicks samples sym0 0 L))).2
      = [(u, .ok (.som h)), (v, .ok .eom)] := by
    show (runOps {} (opsAt samples sym0 0 L)).2 = _
    rw [hops, runOps_append_snd, z1, List.nil_append]
    exact hres
  have hvhi : v < sym0 + 1 + (L1 ++ L2 ++ L3 ++ L4 ++ L5).length := by
    rw [hv2]; unfold eomTick; split <;> omega
  -- the receiver run
  have hsw : SamplesWithin rate smax (mkTicks samples sym0 0 L) :=
    samplesWithin_mkTicks rate smax samples sym0 0 L (fun j _ hj => hsamp j (by omega))
  have hev := run_events_eom rate smax (mkTicks samples sym0 0 L) {} rInv_init (noFire_init smax) hsw
    (by intro hc; cases hc) (by rw [hrun]; exact eomCount_som_eom u v h)
  rw [hrun] at hev
  obtain ⟨ev1, ev2, he, ⟨hm1, ls1, hm1'⟩, ⟨hm2, ls2, hm2'⟩⟩ := forall2_pair hev
  obtain ⟨i, _, hi2, hi3, hi4⟩ := mem_mkTicks samples sym0 L 0 _ hm1'
  obtain ⟨j, _, hj2, hj3, hj4⟩ := mem_mkTicks samples sym0 L 0 _ hm2'
  simp only at hm1 hm2 hi3 hi4 hj3 hj4
  refine ⟨i, j, h, by omega, by omega, by omega, by omega, ?_, hx1, hx2, hx3, hx4⟩
  rw [he, ← hi3, ← hj3, ← hm1, ← hm2]

/-- the bounds of `DecodedFull` may be replaced by equal (or weaker) ones -/
theorem DecodedFull.mono {evs : List Event} {samples : Nat → Nat} {H : List Byte}
    {off a b c a' b' c' : Nat} (h : DecodedFull evs samples H off a b c)
    (ha : a' ≤ a) (hb : b' ≤ b) (hc : c ≤ c') : DecodedFull evs samples H off a' b' c' := by
  obtain ⟨i, j, hh, h1, h2, h3, h4, rest⟩ := h
  exact ⟨i, j, hh, by omega, h2, by omega, by omega, rest⟩

/-- **The chain from six delivered bursts.**  `Delivers` facts for three segments of `H` and three
    of `NNNN` (however obtained), each entered in the state the previous one left; the first `HOLD`
    ticks of the fourth segment — part of its lead-in — hold no possible sync hit (`hgap`); a quiet
    rest.  Timing: the three header bursts within one history time, likewise the three trailer
    bursts (`hspanH`, `hspanT`).  Tails: the header tails do not vote to a `-` (`htails`, as in
    `transmission_decoded_g`); the first trailer burst with its tail is no longer than the header
    (`hshort`). -/
theorem transmission_full_g (c : LCfg)
    (rate sym0 smax : Nat) (samples : Nat → Nat) (H : List Byte) (off : Nat)
    (hcan : checkHeader H = some (off, H.length))
    (hall : ∀ b ∈ H, isAllowed b = true)
    (hfits : H.length ≤ Gen.MAX_BURST_LENGTH)
    (g1 g2 g3 g4 g5 g6 : Seg) (quiet : List Tick) (ls0 : LState)
    (hd : DeliversAll c ls0 [(H, g1), (H, g2), (H, g3), (litNNNN, g4), (litNNNN, g5), (litNNNN, g6)])
    (hq : QuietNoHit c (lrunState c ls0 (g1.ticks ++ g2.ticks ++ g3.ticks ++ g4.ticks ++ g5.ticks
      ++ g6.ticks)) quiet)
    (hlead : HOLD ≤ g4.lead.length)
    (hgap : QuietNoHit c (lrunState c ls0 (g1.ticks ++ g2.ticks ++ g3.ticks)) (g4.ticks.take HOLD))
    (hspanH : g1.tail.length + g2.ticks.length + g3.ticks.length ≤ HIST)
    (hspanT : g4.tail.length + g5.ticks.length + g6.ticks.length ≤ HIST)
    (hshort : (g4.rel + 7) / 8 + 4 ≤ H.length)
    (htails : ∀ t1 t2 t3 x1 x2 x3, t1.length ≤ (g1.rel + 7) / 8 → t2.length ≤ (g2.rel + 7) / 8 →
      t3.length ≤ (g3.rel + 7) / 8 →
      lrunBursts c ls0 (g1.ticks ++ g2.ticks ++ g3.ticks ++ g4.ticks ++ g5.ticks ++ g6.ticks ++ quiet)
        = [H ++ t1, H ++ t2, H ++ t3, litNNNN ++ x1, litNNNN ++ x2, litNNNN ++ x3] →
      TailsNoDash H t1 t2 t3)
    (hsamp : ∀ i, i < (g1.ticks ++ g2.ticks ++ g3.ticks ++ g4.ticks ++ g5.ticks ++ g6.ticks
      ++ quiet).length → samples i ≤ smax ∧ smax ≤ samples i + TIMEOUT rate) :
    DecodedFull (chain c rate ls0 {} sym0 samples
        (g1.ticks ++ g2.ticks ++ g3.ticks ++ g4.ticks ++ g5.ticks ++ g6.ticks ++ quiet)) samples H off
      (g1.ticks.length + g2.lead.length + g2.body.length + 31 + HOLD)
      ((g1.ticks ++ g2.ticks ++ g3.ticks).length + g4.lead.length + g4.body.length + 31)
      (g1.ticks ++ g2.ticks ++ g3.ticks ++ g4.ticks ++ g5.ticks).length := by
  have hHOLD := HOLD_pos
  have hH1 : HOLD - 1 + 1 = HOLD := by omega
  have ht4 : g4.ticks.length = g4.lead.length + g4.body.length + g4.tail.length := by
    simp only [Seg.ticks, List.length_append]
  obtain ⟨t1, t2, t3, x1, x2, x3, L1, L2, L3, L4, L5, L6, hrun, o1, o2, o3, o4, o5, o6, hnc, hb⟩ :=
    six_delivered c H g1 g2 g3 g4 g5 g6 quiet ls0 hd hq (HOLD - 1) (by omega) (by rw [hH1]; exact hgap)
  have htd := htails t1 t2 t3 x1 x2 x3 o1.tail_len o2.tail_len o3.tail_len hb
  have hlen : (g1.ticks ++ g2.ticks ++ g3.ticks ++ g4.ticks ++ g5.ticks ++ g6.ticks ++ quiet).length
      = (L1 ++ L2 ++ L3 ++ L4 ++ L5 ++ L6 ++ List.replicate quiet.length LinkSt.noCarrier).length := by
    rw [← hrun, lrun_length]
  have hfit : H.length ≤ MAXLEN := by
    have : Gen.MAX_BURST_LENGTH ≤ MAXLEN := by decide
    omega
  have hx1 := o4.tail_len
  have := full_of_link_output rate sym0 smax samples H off hcan hall hfit g1 g2 g3 g4 g5 g6
    t1 t2 t3 x1 x2 x3 L1 L2 L3 L4 L5 L6 quiet.length (HOLD - 1) o1 o2 o3 o4 o5 o6 (by omega) (by omega)
    hnc hspanH hspanT htd (by omega) (fun i hi => hsamp i (by rw [hlen]; exact hi))
  unfold chain chainTicks
  rw [hrun]
  refine this.mono ?_ ?_ ?_
  · rw [o1.len]; omega
  · simp only [List.length_append, o1.len, o2.len, o3.len]; omega
  · simp only [List.length_append, o1.len, o2.len, o3.len, o4.len, o5.len]; omega

/-- a trailer burst meets the link layer's payload conditions when the prefix budget is at most 4
    (`C01.nnnn_prefix_budget5`: with budget 5 it would not; the shipped budget is 2) -/
theorem payloadCond_trailer (c : LCfg) (hP4 : c.fc.maxPrefixErr ≤ 4) : PayloadCond c litNNNN :=
  ⟨⟨Or.inr rfl, by decide, by decide⟩, fun h => absurd h (by decide), fun _ => hP4⟩

/-- **C01, the whole transmission, digital chain, generalised realistic assumptions, observational
    form.**  `stream`: everything the front end delivered, from the first symbol tick on.  Six bursts
    at the positions `g1 g2 g3` (payload `H`, canonical) and `e1 e2 e3` (payload `NNNN`); the stream
    meets the decidable condition `Spec.StreamObserved2` for them.
    * gap: the `HOLD` ticks after the third header burst's minimal tail hold no potential sync hit
      (`hgapq`) and end before the first trailer burst begins (`hgaplen`): the receiver polls the
      assembler there, the StartOfMessage is out before the trailer arrives (without it: F4);
    * timing: each group of three bursts within one history time (`hspanH`, `hspanT`); nothing
      relates the two groups — near, mid and far zone are all covered;
    * tails: the header tails do not vote to a `-` (`htails`, as in `stream_decoded2`); the first
      trailer burst with its tail is no longer than the header (`hshort`);
    * prefix budget at most 4 (`hP4`), samples within one forced-EOM timeout (`hsamp`).
    No quiet stretch is needed after the trailer: EndOfMessage is not held.

    Then the events of the composed run, all from the initial states, contain exactly two message
    events: StartOfMessage with text exactly `H` at a tick `i ≥ g2.e + 31 + HOLD`, then EndOfMessage
    at a tick `j > i`, after the first trailer burst's body and before the end of the second trailer
    burst's minimal tail (`e1.e + 31 ≤ j < e2.stop`). -/
theorem stream_full2 (c : LCfg) (hE : c.maxErrors ≤ 6) (hP4 : c.fc.maxPrefixErr ≤ 4)
    (rate sym0 smax : Nat) (samples : Nat → Nat) (H : List Byte) (off : Nat)
    (hcan : checkHeader H = some (off, H.length))
    (hall : ∀ b ∈ H, isAllowed b = true)
    (hfits : H.length ≤ Gen.MAX_BURST_LENGTH)
    (stream : List Tick) (g1 g2 g3 e1 e2 e3 : BurstSpec2)
    (hp1 : g1.payload = H) (hp2 : g2.payload = H) (hp3 : g3.payload = H)
    (hp4 : e1.payload = litNNNN) (hp5 : e2.payload = litNNNN) (hp6 : e3.payload = litNNNN)
    (hobs : StreamObserved2 c.maxErrors stream [g1, g2, g3, e1, e2, e3])
    (hgapq : ∀ t, g3.stop ≤ t → t < g3.stop + HOLD →
      potHit c.maxErrors (fun i => stream.getD i dfltTick) t = false)
    (hgaplen : g3.stop + HOLD ≤ e1.o)
    (hspanH : g3.stop ≤ g1.e + HIST) (hspanT : e3.stop ≤ e1.e + HIST)
    (hshort : (e1.rel + 7) / 8 + 4 ≤ H.length)
    (htails : ∀ t1 t2 t3 x1 x2 x3, t1.length ≤ (g1.rel + 7) / 8 → t2.length ≤ (g2.rel + 7) / 8 →
      t3.length ≤ (g3.rel + 7) / 8 →
      lrunBursts c {} stream
        = [H ++ t1, H ++ t2, H ++ t3, litNNNN ++ x1, litNNNN ++ x2, litNNNN ++ x3] →
      TailsNoDash H t1 t2 t3)
    (hsamp : ∀ i, i < stream.length → samples i ≤ smax ∧ smax ≤ samples i + TIMEOUT rate) :
    DecodedFull (chain c rate {} {} sym0 samples stream) samples H off
      (g2.e + 31 + HOLD) (e1.e + 31) e2.stop := by
  have hP : c.fc.maxPrefixErr ≤ 7 := by omega
  have hc := payloadCond_of_header c H _ hcan hall hfits
  have hcN := payloadCond_trailer c hP4
  have hpc : ∀ g ∈ [g1, g2, g3, e1, e2, e3], PayloadCond c g.payload := by
    intro g hg
    simp only [List.mem_cons, List.not_mem_nil, or_false] at hg
    rcases hg with rfl | rfl | rfl | rfl | rfl | rfl
    · rw [hp1]; exact hc
    · rw [hp2]; exact hc
    · rw [hp3]; exact hc
    · rw [hp4]; exact hcN
    · rw [hp5]; exact hcN
    · rw [hp6]; exact hcN
  obtain ⟨s1, s2, s3, s4⟩ := C01t.stream_segments2 c hE hP stream [g1, g2, g3, e1, e2, e3] hobs hpc
  have hLs : lastStop2 0 [g1, g2, g3, e1, e2, e3] = e3.stop := rfl
  rw [hLs] at s2 s3 s4
  simp only [segsOf2, List.flatMap_cons, List.flatMap_nil, List.append_nil] at s2
  simp only [segsOf2, hp1, hp2, hp3, hp4, hp5, hp6] at s1
  -- ordering facts
  obtain ⟨_, tr1, _, _, ⟨ho2, _⟩, tr2, _, _, ⟨ho3, _⟩, tr3, _, _, ⟨ho4, _⟩, tr4, _, _, ⟨ho5, _⟩, tr5,
    _, _, ⟨ho6, _⟩, tr6, _, _, _⟩ := hobs
  have hs1 : g1.stop ≤ stream.length := tr1.1
  have hs2 : g2.stop ≤ stream.length := tr2.1
  have hs3 : g3.stop ≤ stream.length := tr3.1
  have hs4 : e1.stop ≤ stream.length := tr4.1
  have hs5 : e2.stop ≤ stream.length := tr5.1
  have hle1 : g1.o ≤ g1.e ∧ g1.e ≤ g1.stop := by unfold BurstSpec2.e BurstSpec2.stop; omega
  have hle2 : g2.o ≤ g2.e ∧ g2.e ≤ g2.stop := by unfold BurstSpec2.e BurstSpec2.stop; omega
  have hle3 : g3.o ≤ g3.e ∧ g3.e ≤ g3.stop := by unfold BurstSpec2.e BurstSpec2.stop; omega
  have hle4 : e1.o ≤ e1.e ∧ e1.e ≤ e1.stop := by unfold BurstSpec2.e BurstSpec2.stop; omega
  have hle5 : e2.o ≤ e2.e ∧ e2.e ≤ e2.stop := by unfold BurstSpec2.e BurstSpec2.stop; omega
  have hle6 : e3.o ≤ e3.e ∧ e3.e ≤ e3.stop := by unfold BurstSpec2.e BurstSpec2.stop; omega
  -- the segments tile the stream
  have hk1 := segOf2_ticks stream 0 g1 (Nat.zero_le _)
  have hk2 := segOf2_ticks stream g1.stop g2 ho2
  have hk3 := segOf2_ticks stream g2.stop g3 ho3
  have hk4 := segOf2_ticks stream g3.stop e1 ho4
  have hk5 := segOf2_ticks stream e1.stop e2 ho5
  have hk6 := segOf2_ticks stream e2.stop e3 ho6
  have hstream : (segOf2 stream 0 g1).ticks ++ (segOf2 stream g1.stop g2).ticks
      ++ (segOf2 stream g2.stop g3).ticks ++ (segOf2 stream g3.stop e1).ticks
      ++ (segOf2 stream e1.stop e2).ticks ++ (segOf2 stream e2.stop e3).ticks
      ++ stream.drop e3.stop = stream := by
    rw [show (segOf2 stream 0 g1).ticks ++ (segOf2 stream g1.stop g2).ticks
        ++ (segOf2 stream g2.stop g3).ticks ++ (segOf2 stream g3.stop e1).ticks
        ++ (segOf2 stream e1.stop e2).ticks ++ (segOf2 stream e2.stop e3).ticks
      = (segOf2 stream 0 g1).ticks ++ ((segOf2 stream g1.stop g2).ticks ++
        ((segOf2 stream g2.stop g3).ticks ++ ((segOf2 stream g3.stop e1).ticks ++
        ((segOf2 stream e1.stop e2).ticks ++ (segOf2 stream e2.stop e3).ticks))))
      by simp only [List.append_assoc], ← s2, List.take_append_drop]
  -- the first three segments are the first `g3.stop` ticks
  have htake3 : (segOf2 stream 0 g1).ticks ++ (segOf2 stream g1.stop g2).ticks
      ++ (segOf2 stream g2.stop g3).ticks = stream.take g3.stop := by
    rw [hk1, hk2, hk3]
    have h0 := take_append_slice stream 0 g1.stop (Nat.zero_le _)
    rw [List.take_zero, List.nil_append] at h0
    rw [h0, take_append_slice _ _ _ (by omega), take_append_slice _ _ _ (by omega)]
  have hq' : QuietNoHit c (lrunState c {} ((segOf2 stream 0 g1).ticks ++ (segOf2 stream g1.stop g2).ticks
      ++ (segOf2 stream g2.stop g3).ticks ++ (segOf2 stream g3.stop e1).ticks
      ++ (segOf2 stream e1.stop e2).ticks ++ (segOf2 stream e2.stop e3).ticks)) (stream.drop e3.stop) := by
    have : (segOf2 stream 0 g1).ticks ++ (segOf2 stream g1.stop g2).ticks
        ++ (segOf2 stream g2.stop g3).ticks ++ (segOf2 stream g3.stop e1).ticks
        ++ (segOf2 stream e1.stop e2).ticks ++ (segOf2 stream e2.stop e3).ticks = stream.take e3.stop := by
      rw [s2]; simp only [List.append_assoc]
    rw [this]; exact s4
  have hgap : QuietNoHit c (lrunState c {} ((segOf2 stream 0 g1).ticks ++ (segOf2 stream g1.stop g2).ticks
      ++ (segOf2 stream g2.stop g3).ticks)) ((segOf2 stream g3.stop e1).ticks.take HOLD) := by
    rw [htake3, hk4]
    have : (slice stream g3.stop e1.stop).take HOLD = (stream.drop g3.stop).take HOLD := by
      unfold slice
      rw [List.take_take, show min HOLD (e1.stop - g3.stop) = HOLD by omega]
    rw [this]
    exact quiet_gap c stream g3.stop HOLD (by omega) (by omega) hgapq
  have hlq : (stream.drop e3.stop).length = stream.length - e3.stop := List.length_drop
  have := transmission_full_g c rate sym0 smax samples H off hcan hall hfits
    (segOf2 stream 0 g1) (segOf2 stream g1.stop g2) (segOf2 stream g2.stop g3)
    (segOf2 stream g3.stop e1) (segOf2 stream e1.stop e2) (segOf2 stream e2.stop e3)
    (stream.drop e3.stop) {} s1 hq'
    (by
      show HOLD ≤ (slice stream g3.stop e1.o).length
      rw [slice_length _ _ _ (by omega)]; omega)
    hgap
    (by
      rw [hk2, hk3, slice_length _ _ _ hs2, slice_length _ _ _ hs3]
      show (slice stream g1.e g1.stop).length + _ + _ ≤ _
      rw [slice_length _ _ _ hs1]
      omega)
    (by
      rw [hk5, hk6, slice_length _ _ _ hs5, slice_length _ _ _ s3]
      show (slice stream e1.e e1.stop).length + _ + _ ≤ _
      rw [slice_length _ _ _ hs4]
      omega)
    hshort
    (by rw [hstream]; exact htails)
    (by rw [hstream]; exact hsamp)
  rw [hstream] at this
  refine this.mono ?_ ?_ ?_
  · rw [hk1, slice_length _ _ _ hs1]
    show _ ≤ _ + (slice stream g1.stop g2.o).length + (slice stream g2.o g2.e).length + 31 + HOLD
    rw [slice_length _ _ _ (by omega), slice_length _ _ _ (by omega)]
    omega
  · rw [htake3, List.length_take]
    show _ ≤ _ + (slice stream g3.stop e1.o).length + (slice stream e1.o e1.e).length + 31
    rw [slice_length _ _ _ (by omega), slice_length _ _ _ (by omega)]
    omega
  · simp only [List.length_append, hk1, hk2, hk3, hk4, hk5]
    rw [slice_length _ _ _ hs1, slice_length _ _ _ hs2, slice_length _ _ _ hs3,
      slice_length _ _ _ hs4, slice_length _ _ _ hs5]
    omega

end SameVerif.Chain
