/-
  Transfer of the receiver-glue theorems (stated about `rRun` over ARBITRARY tick lists) to every
  run of the whole-receiver model `FullRx` (Model/FullRx.lean) — the model that is compared,
  bit-exactly, with the code.  Each theorem here is "existing theorem ∘ refinement"
  (`FullRxThm.run_refines_chain'`): the events of a whole-receiver run are `rRun` on the receiver
  ticks `stampedTicks cfg.lcfg link tr` that the float part produced (`FullRx.trace`).
  Generic in the number type `F`: no arithmetic law is used.
-/
import SameVerif.Lemmas.FullRxTransferFacts
import SameVerif.Thm.FullRx
import SameVerif.Thm.C04rx
import SameVerif.Thm.C08rx
import SameVerif.Thm.Program

namespace SameVerif.FullRxTransferThm

open SameVerif SameVerif.Dsp Arith SameVerif.C08 SameVerif.C09 SameVerif.C14 SameVerif.RxProv

section Transfer
variable {F : Type} [Arith F] [Hypot F]

/-! ## T0 the refinement, in the form the transfers use -/

/-- `FullRxThm.run_refines_chain'` for a receiver as `FullRx.new` builds it: link and receiver
    states initial, configuration `cfg` -/
theorem run_new_refines {cfg : RxCfg F} {r0 r' : FullRx F} {xs : List F} {evs : List Event}
    (hnew : FullRx.new cfg = some r0) (hrun : FullRx.run r0 xs = some (r', evs)) :
    ∃ tr, FullRx.trace r0 xs = some (r', tr) ∧
      evs = (rRun cfg.rate {} (stampedTicks cfg.lcfg {} tr)).2 ∧
      r'.rx = (rRun cfg.rate {} (stampedTicks cfg.lcfg {} tr)).1 ∧
      r'.link = lrunState cfg.lcfg {} (tr.map (·.2)) := by
  obtain ⟨hc, hl, hr, _⟩ := FullRx.new_fields hnew
  obtain ⟨tr, t, e, x, l⟩ := FullRxThm.run_refines_chain' hrun
  rw [hc, hl, hr] at e x
  rw [hc, hl] at l
  exact ⟨tr, t, e, x, l⟩

/-! ## T1 (C04) provenance of every EndOfMessage event of a whole-receiver run -/

/-- Transfers `RxProv.eom_event_decoded_or_forced` (Thm/C04rx.lean).  A receiver built by
    `FullRx.new` runs over `xs` without panic.  Every EndOfMessage event of the run (at sample `smp`,
    between `pre` and `post`) EITHER was produced at an entry `(smp, t)` of the trace on which the
    link layer (`lstep`, from the link state after the earlier entries) reported a burst `b`, and
    the assembler answered EndOfMessage for that burst (a decoded trailer), OR is the forced one:
    `pre` contains a StartOfMessage event at `smp0` with no EndOfMessage event after it, and
    `smp0 + 135·rate < smp`. -/
theorem run_eom_decoded_or_forced {cfg : RxCfg F} {r0 r' : FullRx F} {xs : List F} {evs : List Event}
    (hnew : FullRx.new cfg = some r0) (hrun : FullRx.run r0 xs = some (r', evs))
    (pre post : List Event) (smp : Nat)
    (hev : evs = pre ++ Event.transport smp (.message (.ok .eom)) :: post) :
    ∃ tr, FullRx.trace r0 xs = some (r', tr) ∧
      ((∃ trpre t trpost b, tr = trpre ++ (smp, t) :: trpost
          ∧ (lstep cfg.lcfg (lrunState cfg.lcfg {} (trpre.map (·.2))) t.1 t.2).2.1 = .burst b
          ∧ (aAssemble (rRun cfg.rate {} (stampedTicks cfg.lcfg {} trpre)).1.asm b
                (lstep cfg.lcfg (lrunState cfg.lcfg {} (trpre.map (·.2))) t.1 t.2).1.nsym).2
              = .message (.ok .eom))
       ∨ (∃ pre1 smp0 h pre2,
          pre = pre1 ++ Event.transport smp0 (.message (.ok (.som h))) :: pre2
          ∧ (∀ e ∈ pre2, ∀ smp', e ≠ Event.transport smp' (.message (.ok .eom)))
          ∧ smp0 + Gen.MAX_MESSAGE_DURATION_SECS * cfg.rate < smp)) := by
  obtain ⟨tr, t, e, _⟩ := run_new_refines hnew hrun
  refine ⟨tr, t, ?_⟩
  rcases eom_event_decoded_or_forced cfg.rate _ pre post smp (e.symm.trans hev) with
    ⟨tpre, sym, b, tpost, hsplit, hb⟩ | h
  · left
    obtain ⟨trpre, p, trpost, rfl, rfl, hx, _⟩ := stampedTicks_split _ _ _ _ _ _ hsplit
    obtain ⟨n, tk⟩ := p
    simp only [rtickOf, Prod.mk.injEq] at hx
    obtain ⟨rfl, rfl, hls⟩ := hx
    exact ⟨trpre, tk, trpost, b, rfl, hls.symm, hb⟩
  · exact Or.inr h

/-- Transfers `RxProv.no_som_event_no_forced` (Thm/C04rx.lean).  A whole-receiver run (from
    `FullRx.new`) whose events contain no StartOfMessage contains no forced EndOfMessage: every
    EndOfMessage event is a decoded trailer (a `.burst` entry of the trace at that very sample). -/
theorem run_no_som_no_forced {cfg : RxCfg F} {r0 r' : FullRx F} {xs : List F} {evs : List Event}
    (hnew : FullRx.new cfg = some r0) (hrun : FullRx.run r0 xs = some (r', evs))
    (hno : ∀ e ∈ evs, ∀ smp0 h, e ≠ Event.transport smp0 (.message (.ok (.som h))))
    (pre post : List Event) (smp : Nat)
    (hev : evs = pre ++ Event.transport smp (.message (.ok .eom)) :: post) :
    ∃ tr, FullRx.trace r0 xs = some (r', tr) ∧
      ∃ trpre t trpost b, tr = trpre ++ (smp, t) :: trpost
        ∧ (lstep cfg.lcfg (lrunState cfg.lcfg {} (trpre.map (·.2))) t.1 t.2).2.1 = .burst b
        ∧ (aAssemble (rRun cfg.rate {} (stampedTicks cfg.lcfg {} trpre)).1.asm b
              (lstep cfg.lcfg (lrunState cfg.lcfg {} (trpre.map (·.2))) t.1 t.2).1.nsym).2
            = .message (.ok .eom) := by
  obtain ⟨tr, t, h⟩ := run_eom_decoded_or_forced hnew hrun pre post smp hev
  refine ⟨tr, t, ?_⟩
  rcases h with h | ⟨pre1, smp0, h, pre2, hp, _, _⟩
  · exact h
  · exact absurd rfl (hno _ (by rw [hev, hp]; simp) smp0 h)

/-- Transfers `RxProv.no_som_output_timer_off` / `RxProv.timer_provenance` (Thm/C04rx.lean): after
    a whole-receiver run (from `FullRx.new`) the forced end-of-message timer, if armed, reads
    `smp0 + 135·rate` for a StartOfMessage EVENT at `smp0` of this run after which the run reports
    neither an EndOfMessage nor another StartOfMessage. -/
theorem run_timer_provenance {cfg : RxCfg F} {r0 r' : FullRx F} {xs : List F} {evs : List Event}
    (hnew : FullRx.new cfg = some r0) (hrun : FullRx.run r0 xs = some (r', evs)) (T : Nat)
    (hT : r'.rx.forceEomAt = some T) :
    ∃ E1 smp0 h E2, evs = E1 ++ Event.transport smp0 (.message (.ok (.som h))) :: E2
      ∧ T = smp0 + Gen.MAX_MESSAGE_DURATION_SECS * cfg.rate ∧ ∀ e ∈ E2, ¬ Closes e := by
  obtain ⟨tr, _, e, x, _⟩ := run_new_refines hnew hrun
  rw [x] at hT
  obtain ⟨p1, smp0, sym0, ls0, p2, h, hsplit, hTeq, hout, _, hq⟩ :=
    timer_provenance cfg.rate {} _ T rfl hT
  have hinv : RInv (rRun cfg.rate {} p1).1 := rInv_run cfg.rate {} p1 rInv_init
  have hsom := som_out_event cfg.rate _ smp0 sym0 ls0 h hinv.2.1 hout
  refine ⟨(rRun cfg.rate {} p1).2 ++ linkEv (rRun cfg.rate {} p1).1 smp0 ls0, smp0, h,
    (rRun cfg.rate (rTick cfg.rate (rRun cfg.rate {} p1).1 smp0 sym0 ls0).1 p2).2, ?_, hTeq, ?_⟩
  · rw [e, hsplit, rRun_append, rRun_cons]
    simp only
    rw [hsom]
    simp only [List.append_assoc, List.cons_append, List.nil_append]
  · intro ev hev hc
    obtain ⟨sm, rfl | ⟨hh, rfl⟩⟩ := hc
    · exact (hq _ (event_mem_outs cfg.rate p2 _ sm _ hev)).1 rfl
    · exact (hq _ (event_mem_outs cfg.rate p2 _ sm _ hev)).2 hh rfl

/-! ## T3 (C09) every StartOfMessage event of a whole-receiver run is closed -/

/-- the receiver ticks of a whole-receiver run have strictly increasing stamps (input sample
    counters), all within the run -/
theorem run_ticks_stamps {r r' : FullRx F} {xs : List F} {tr : List (Nat × Tick)}
    (h : FullRx.trace r xs = some (r', tr)) :
    (stampedTicks r.cfg.lcfg r.link tr).Pairwise (fun a b => a.1 < b.1) ∧
    ∀ tk ∈ stampedTicks r.cfg.lcfg r.link tr,
      r.inputCounter < tk.1 ∧ tk.1 ≤ r.inputCounter + xs.length := by
  obtain ⟨hb, hpw, _⟩ := FullRxThm.trace_stamps h
  have hm := stampedTicks_stamps r.cfg.lcfg tr r.link
  constructor
  · have : ((stampedTicks r.cfg.lcfg r.link tr).map (·.1)).Pairwise (· < ·) := by
      rw [hm, List.pairwise_map]; exact hpw
    rwa [List.pairwise_map] at this
  · intro tk htk
    have : tk.1 ∈ tr.map (·.1) := by rw [← hm]; exact List.mem_map_of_mem htk
    obtain ⟨p, hp, hpe⟩ := List.mem_map.1 this
    rw [← hpe]; exact hb p hp

/-- Transfers `C09.closed_within` / `C09.closed_within_run` (Thm/C09.lean), for a run from ANY
    receiver state.  If the run reports a StartOfMessage event at sample `p` (followed by the
    events `E2`), then for EVERY receiver tick of the run that reports `NoCarrier` at an input
    sample later than `p + 135·rate`, a closing event (EndOfMessage or a newer StartOfMessage) is
    among `E2`, stamped no later than that tick.  (That the tick comes after the StartOfMessage
    need not be assumed: the stamps of a whole-receiver run increase strictly.) -/
theorem run_closed_within {r r' : FullRx F} {xs : List F} {evs : List Event}
    (hrun : FullRx.run r xs = some (r', evs))
    (E1 E2 : List Event) (p : Nat) (h : Header)
    (hev : evs = E1 ++ Event.transport p (.message (.ok (.som h))) :: E2) :
    ∃ tr, FullRx.trace r xs = some (r', tr) ∧
      ∀ tk ∈ stampedTicks r.cfg.lcfg r.link tr, tk.2.2 = .noCarrier →
        p + Gen.MAX_MESSAGE_DURATION_SECS * r.cfg.rate < tk.1 →
        ∃ e ∈ E2, Closes e ∧ e.stamp ≤ tk.1 := by
  obtain ⟨tr, t, e, _⟩ := FullRxThm.run_refines_chain' hrun
  refine ⟨tr, t, ?_⟩
  obtain ⟨hpw, _⟩ := run_ticks_stamps t
  obtain ⟨tpre, sample, sym, ls, tpost, epre, epost, hsplit, htick, _, hE2⟩ :=
    run_event_split r.cfg.rate _ r.rx E1 _ E2 (e.symm.trans hev)
  have hsom : Event.transport p (.message (.ok (.som h)))
      ∈ (rTick r.cfg.rate (rRun r.cfg.rate r.rx tpre).1 sample sym ls).2 := by rw [htick]; simp
  obtain ⟨hp, _⟩ := (mem_tick_transport _ _ _ _ _ _ _).1 hsom
  subst hp
  rw [hsplit, List.pairwise_append, List.pairwise_cons] at hpw
  obtain ⟨_, ⟨hafter, hpost⟩, hbefore⟩ := hpw
  intro tk htk hnc hlate
  rw [hsplit] at htk
  rcases List.mem_append.1 htk with hin | hin
  · have := hbefore tk hin (p, sym, ls) List.mem_cons_self
    simp only at this; omega
  · rcases List.mem_cons.1 hin with rfl | hin
    · simp only at hlate; omega
    · obtain ⟨mid, post, rfl⟩ := List.append_of_mem hin
      obtain ⟨sample, sy, l⟩ := tk
      simp only at hnc hlate
      subst hnc
      obtain ⟨ev, hmem, hc⟩ := closed_within r.cfg.rate r.rx tpre mid p sym ls h sample sy hsom hlate
      refine ⟨ev, ?_, hc, ?_⟩
      · rw [hE2]
        apply List.mem_append_right
        rw [show mid ++ (sample, sy, LinkSt.noCarrier) :: post
          = (mid ++ [(sample, sy, LinkSt.noCarrier)]) ++ post by simp, rRun_append]
        exact List.mem_append_left _ hmem
      · obtain ⟨tk', htk', hst⟩ := rRun_stamp _ _ _ ev hmem
        rw [hst]
        rcases List.mem_append.1 htk' with hm | hm
        · rw [List.pairwise_append] at hpost
          exact Nat.le_of_lt (hpost.2.2 tk' hm _ List.mem_cons_self)
        · simp only [List.mem_singleton] at hm; subst hm; exact Nat.le_refl _

/-! ## T5 (C13) iterator bindings over the whole-receiver step function `progStep` -/

/-- Transfers `C13.schedule_independent_partition` (Thm/C13.lean) to the whole-receiver step
    function `progStep` (Model/Program.lean: `FullRx.sample`, a panic absorbing): consuming the
    samples through ANY partition into iterator bindings yields the same events, final receiver,
    queue and counter as one binding over the whole input. -/
theorem run_schedule_independent (r : PRx F) (src : List F) (chunks : List (List F))
    (hsrc : chunks.flatten = src) (h : chunks ≠ [] ∨ r.queue = []) :
    drainChunks progStep r chunks = drain progStep r src :=
  C13.schedule_independent_partition progStep r src chunks hsrc h

/-- `C13.schedule_independent_partition` ∘ `C13.drain_eq` ∘ `foldEvents_progStep_run`
    (= `ProgramThm.runEvents_eq_run`): if the whole-receiver run does not panic, the events
    delivered through any partition of the samples into bindings ARE the run's event list, the
    receiver ends in the run's final state, and every sample is counted. -/
theorem run_bindings_eq_run {r0 r' : FullRx F} {xs : List F} {evs : List Event}
    (hrun : FullRx.run r0 xs = some (r', evs)) (chunks : List (List F)) (hsrc : chunks.flatten = xs)
    (c : Nat) :
    drainChunks progStep (⟨some r0, [], c⟩ : PRx F) chunks = (evs, ⟨some r', [], c + xs.length⟩) := by
  rw [C13.schedule_independent_partition progStep _ xs chunks hsrc (Or.inr rfl), C13.drain_eq,
    foldEvents_progStep_run xs r0 r' evs hrun]
  rfl

/-- the same, for `ProgramThm.runEvents` (defined also across a panic): whatever the partition,
    the bindings deliver exactly the events of one uninterrupted run -/
theorem run_bindings_eq_runEvents (r0 : FullRx F) (xs : List F) (chunks : List (List F))
    (hsrc : chunks.flatten = xs) (c : Nat) :
    (drainChunks progStep (⟨some r0, [], c⟩ : PRx F) chunks).1 = ProgramThm.runEvents r0 xs := by
  rw [C13.schedule_independent_partition progStep _ xs chunks hsrc (Or.inr rfl), C13.drain_eq]
  rfl

/-- Transfers `C13.drop_binding_loses_nothing` (Thm/C13.lean): call `next()` any number `k` of
    times, drop the binding, drain the rest of the samples in a fresh binding — the events of the
    two phases together are the whole-receiver run's event list. -/
theorem run_drop_binding_loses_nothing {r0 r' : FullRx F} {xs : List F} {evs : List Event}
    (hrun : FullRx.run r0 xs = some (r', evs)) (k c : Nat) :
    (nextN progStep k (⟨some r0, [], c⟩ : PRx F) xs).1
      ++ (drain progStep (nextN progStep k (⟨some r0, [], c⟩ : PRx F) xs).2.1
            (nextN progStep k (⟨some r0, [], c⟩ : PRx F) xs).2.2).1 = evs := by
  rw [(C13.drop_binding_loses_nothing progStep k _ xs).1, C13.drain_eq,
    foldEvents_progStep_run xs r0 r' evs hrun]
  rfl

/-- Transfers `C13.no_read_ahead` (Thm/C13.lean): an event returned by `next()` on an empty queue
    was generated by the LAST sample read; every sample read before it generated nothing. -/
theorem run_no_read_ahead (r r' : PRx F) (src src' : List F) (e : Event) (hq : r.queue = [])
    (h : next progStep r src = (some e, r', src')) :
    ∃ pre x q, src = pre ++ x :: src' ∧ Silent progStep r.st pre
      ∧ progStep (foldEvents progStep r.st pre).2 x = (r'.st, e :: q)
      ∧ r'.queue = q ∧ r'.consumed = r.consumed + pre.length + 1 := by
  rcases C13.no_read_ahead progStep r r' src src' e h with ⟨q, h1, _⟩ | ⟨_, h2⟩
  · rw [hq] at h1; cases h1
  · exact h2

/-- `run_bindings_eq_run` ∘ `FullRxThm.run_timestamps` (the whole-receiver counterpart of
    `C13.timestamps_monotone`, whose `stamp` combinator is not how `progStep` stamps: the events of
    `FullRx` carry the receiver's own input sample counter): whatever the partition into bindings,
    the delivered events carry non-decreasing timestamps, each the 1-based index (counted from the
    receiver's counter) of a sample of the input. -/
theorem run_timestamps_monotone {r0 r' : FullRx F} {xs : List F} {evs : List Event}
    (hrun : FullRx.run r0 xs = some (r', evs)) (chunks : List (List F)) (hsrc : chunks.flatten = xs)
    (c : Nat) :
    (drainChunks progStep (⟨some r0, [], c⟩ : PRx F) chunks).1.Pairwise (fun a b => a.stamp ≤ b.stamp)
      ∧ ∀ e ∈ (drainChunks progStep (⟨some r0, [], c⟩ : PRx F) chunks).1,
          r0.inputCounter < e.stamp ∧ e.stamp ≤ r0.inputCounter + xs.length := by
  rw [run_bindings_eq_run hrun chunks hsrc c]
  obtain ⟨_, h2, h3⟩ := FullRxThm.run_timestamps hrun
  exact ⟨h3, h2⟩

/-! ## T4 (C08) the hold: a pending result is released at the first NoCarrier tick at/after its deadline -/

/-- the receiver-glue state reached by a whole-receiver run from `FullRx.new` satisfies the
    receiver invariant `RInv` (`rInv_run` ∘ refinement), and the configuration is unchanged -/
theorem run_rInv {cfg : RxCfg F} {r0 r' : FullRx F} {xs : List F} {evs : List Event}
    (hnew : FullRx.new cfg = some r0) (hrun : FullRx.run r0 xs = some (r', evs)) :
    RInv r'.rx ∧ r'.cfg = cfg := by
  obtain ⟨_, _, _, x, _⟩ := run_new_refines hnew hrun
  obtain ⟨_, _, _, _, _, hc⟩ := FullRxThm.run_refines_chain hrun
  rw [x, hc, (FullRx.new_fields hnew).1]
  exact ⟨rInv_run cfg.rate {} _ rInv_init, rfl⟩

/-- Transfers `RxProv.hold_releases_run` (Thm/C08rx.lean), for a run from ANY receiver state `r`
    whose receiver-glue part holds the pending result `t` (`Holding r.rx t`).  If no receiver tick
    of the run is a burst, the forced end-of-message timer (if armed) fires on none of them, and
    some tick reports `NoCarrier` with symbol count `≥ t.deadline`, then `.message t.data` is
    reported exactly at the FIRST such tick — whatever Searching / Reading ticks come before —
    and no message event of the run precedes it. -/
theorem run_hold_released_gen {r r' : FullRx F} {xs : List F} {evs : List Event}
    (hrun : FullRx.run r xs = some (r', evs)) (t : Timed MsgResult) (hold : Holding r.rx t) :
    ∃ tr, FullRx.trace r xs = some (r', tr) ∧
      ((∀ tk ∈ stampedTicks r.cfg.lcfg r.link tr, ∀ b, tk.2.2 ≠ .burst b) →
       (∀ T, r.rx.forceEomAt = some T → ∀ tk ∈ stampedTicks r.cfg.lcfg r.link tr, tk.1 ≤ T) →
       (∃ tk ∈ stampedTicks r.cfg.lcfg r.link tr, tk.2.2 = .noCarrier ∧ t.deadline ≤ tk.2.1) →
       ∃ pre sample sym post E1 E2,
         stampedTicks r.cfg.lcfg r.link tr = pre ++ (sample, sym, .noCarrier) :: post
         ∧ t.deadline ≤ sym
         ∧ (∀ x ∈ pre, x.2.2 ≠ .noCarrier ∨ x.2.1 < t.deadline)
         ∧ evs = E1 ++ Event.transport sample (.message t.data) :: E2
         ∧ NoMessage E1) := by
  obtain ⟨tr, tt, e, _⟩ := FullRxThm.run_refines_chain' hrun
  refine ⟨tr, tt, ?_⟩
  intro hnb hforce hex
  obtain ⟨pre, sample, sym, post, h1, h2, h3, h4, h5, _, h7, _⟩ :=
    hold_releases_run r.cfg.rate r.rx t hold _ hnb hforce hex
  obtain ⟨b1, b2, hb⟩ := List.append_of_mem h5
  have hb' := hb
  rw [rTick_events] at hb'
  obtain ⟨rfl, rfl⟩ := tick_transport_split _ _ _ _ _ _ _ _ hb'
  refine ⟨pre, sample, sym, post,
    (rRun r.cfg.rate r.rx pre).2 ++ linkEv (rRun r.cfg.rate r.rx pre).1 sample .noCarrier,
    (rRun r.cfg.rate (rTick r.cfg.rate (rRun r.cfg.rate r.rx pre).1 sample sym .noCarrier).1 post).2,
    h1, h2, h3, ?_, ?_⟩
  · rw [e, h7, hb]
    simp only [List.append_assoc, List.cons_append, List.nil_append]
  · exact noMessage_append _ _ h4 (noMessage_linkEv _ _ _)

/-- Transfers `RxProv.hold_releases_run` (Thm/C08rx.lean) to a receiver built by `FullRx.new`:
    after ANY prefix `xs1` of the input, if the assembler holds a pending result `t`, then over the
    rest `xs2` of the input (no burst tick, timer not firing) `.message t.data` is reported at the
    first `NoCarrier` tick whose symbol count is `≥ t.deadline`, and no message event of the rest
    precedes it.  (`Holding` follows from the invariant `RInv`, which every run from `FullRx.new`
    maintains.) -/
theorem run_hold_released {cfg : RxCfg F} {r0 r1 r2 : FullRx F} {xs1 xs2 : List F}
    {evs1 evs2 : List Event}
    (hnew : FullRx.new cfg = some r0) (hrun1 : FullRx.run r0 xs1 = some (r1, evs1))
    (hrun2 : FullRx.run r1 xs2 = some (r2, evs2))
    (t : Timed MsgResult) (hp : r1.rx.asm.pending = some t) :
    ∃ tr, FullRx.trace r1 xs2 = some (r2, tr) ∧
      ((∀ tk ∈ stampedTicks cfg.lcfg r1.link tr, ∀ b, tk.2.2 ≠ .burst b) →
       (∀ T, r1.rx.forceEomAt = some T → ∀ tk ∈ stampedTicks cfg.lcfg r1.link tr, tk.1 ≤ T) →
       (∃ tk ∈ stampedTicks cfg.lcfg r1.link tr, tk.2.2 = .noCarrier ∧ t.deadline ≤ tk.2.1) →
       ∃ pre sample sym post E1 E2,
         stampedTicks cfg.lcfg r1.link tr = pre ++ (sample, sym, .noCarrier) :: post
         ∧ t.deadline ≤ sym
         ∧ (∀ x ∈ pre, x.2.2 ≠ .noCarrier ∨ x.2.1 < t.deadline)
         ∧ evs2 = E1 ++ Event.transport sample (.message t.data) :: E2
         ∧ NoMessage E1) := by
  obtain ⟨hinv, hc⟩ := run_rInv hnew hrun1
  have := run_hold_released_gen hrun2 t (holding_of_rInv _ t hinv hp)
  rw [hc] at this
  exact this

/-- the two runs of `run_hold_released` are one run over `xs1 ++ xs2` -/
theorem run_append {r0 r1 r2 : FullRx F} {xs1 xs2 : List F} {evs1 evs2 : List Event}
    (hrun1 : FullRx.run r0 xs1 = some (r1, evs1)) (hrun2 : FullRx.run r1 xs2 = some (r2, evs2)) :
    FullRx.run r0 (xs1 ++ xs2) = some (r2, evs1 ++ evs2) := by
  induction xs1 generalizing r0 evs1 with
  | nil =>
    simp only [FullRx.run, Option.some.injEq, Prod.mk.injEq] at hrun1
    obtain ⟨rfl, rfl⟩ := hrun1
    exact hrun2
  | cons x xs ih =>
    unfold FullRx.run at hrun1
    rw [List.cons_append]
    unfold FullRx.run
    cases hs : r0.sample x with
    | none => rw [hs] at hrun1; cases hrun1
    | some p =>
      obtain ⟨ra, ev⟩ := p
      rw [hs] at hrun1
      dsimp only at hrun1 ⊢
      cases hr : FullRx.run ra xs with
      | none => rw [hr] at hrun1; cases hrun1
      | some q =>
        obtain ⟨rb, evs'⟩ := q
        rw [hr] at hrun1
        simp only [Option.some.injEq, Prod.mk.injEq] at hrun1
        obtain ⟨rfl, rfl⟩ := hrun1
        rw [ih hr]
        simp only [List.append_assoc]

/-! ## T2 (C04) a StartOfMessage needs two bursts; burst ticks and Link(Burst) events

  No `rRun`-level source existed for "fewer than two bursts ⇒ no StartOfMessage": the C04 evidence
  theorems (`C04.som_has_evidence`, `C04.som_has_evidence_idle`) are about assembler states reachable
  by calls with NON-DECREASING tick counts (`C04.Reach`).  `rRun` over arbitrary ticks does not
  guarantee that; a whole-receiver run does (symbol counts `nsym + 1, nsym + 2, …`:
  `stampedTicks_syms`).  The bridge `som_event_has_evidence` (Lemmas/FullRxTransferFacts.lean) is
  new; with it the C04 theorem becomes a theorem about whole-receiver runs. -/

/-- Transfers `C04.som_has_evidence` / `C04.som_has_evidence_idle` (Thm/C04.lean) through
    `som_event_has_evidence`.  Every StartOfMessage event of a whole-receiver run from `FullRx.new`
    was emitted by a receiver tick `(smp, sym, ls)` of the run, and its header is `combine` of a run
    `r` of two or three consecutive non-empty bursts among the `.burst` link states reported up to
    and including that tick (`burstLog`), which supports every byte of the header; in particular at
    least two ticks up to that one reported a non-empty `.burst`. -/
theorem run_som_needs_two_bursts {cfg : RxCfg F} {r0 r' : FullRx F} {xs : List F} {evs : List Event}
    (hnew : FullRx.new cfg = some r0) (hrun : FullRx.run r0 xs = some (r', evs))
    (smp : Nat) (h : Header) (hev : Event.transport smp (.message (.ok (.som h))) ∈ evs) :
    ∃ tr, FullRx.trace r0 xs = some (r', tr) ∧
      ∃ tpre sym ls tpost r, stampedTicks cfg.lcfg {} tr = tpre ++ (smp, sym, ls) :: tpost
        ∧ Spec.IsRun r (burstLog (tpre ++ [(smp, sym, ls)])) ∧ 2 ≤ r.length
        ∧ combine MAXLEN r = some (.ok (.som h))
        ∧ (∀ (i : Nat) (hi : i < h.text.length), Spec.SupportsByte r i h.text[i])
        ∧ 2 ≤ (burstLog (tpre ++ [(smp, sym, ls)])).length := by
  obtain ⟨tr, t, e, _⟩ := run_new_refines hnew hrun
  refine ⟨tr, t, ?_⟩
  have hpw : (stampedTicks cfg.lcfg {} tr).Pairwise (fun a b => a.2.1 ≤ b.2.1) :=
    (stampedTicks_syms cfg.lcfg tr {}).1.imp (fun h => Nat.le_of_lt h)
  rw [e] at hev
  obtain ⟨tpre, sym, ls, tpost, r, h1, h2, h3, h4, h5⟩ :=
    som_event_has_evidence cfg.rate _ hpw smp h hev
  exact ⟨tpre, sym, ls, tpost, r, h1, h2, h3, h4, h5, Nat.le_trans h3 h2.1.length_le⟩

/-- … hence: a whole-receiver run whose ticks report fewer than two non-empty bursts reports no
    StartOfMessage event -/
theorem run_no_two_bursts_no_som {cfg : RxCfg F} {r0 r' : FullRx F} {xs : List F} {evs : List Event}
    {tr : List (Nat × Tick)}
    (hnew : FullRx.new cfg = some r0) (hrun : FullRx.run r0 xs = some (r', evs))
    (htr : FullRx.trace r0 xs = some (r', tr))
    (hfew : (burstLog (stampedTicks cfg.lcfg {} tr)).length < 2) :
    ∀ e ∈ evs, ∀ smp h, e ≠ Event.transport smp (.message (.ok (.som h))) := by
  intro e he smp h heq
  subst heq
  obtain ⟨tr', t', tpre, sym, ls, tpost, r, h1, _, _, _, _, h6⟩ :=
    run_som_needs_two_bursts hnew hrun smp h he
  rw [htr] at t'
  cases t'
  rw [h1, show tpre ++ (smp, sym, ls) :: tpost = (tpre ++ [(smp, sym, ls)]) ++ tpost by simp,
    burstLog_append, List.length_append] at hfew
  omega

/-- What is true of one tick (from `rTick`'s definition, `link_event_tick`): a tick reporting
    `.burst b` emits the link event `Link(Burst b)` exactly when the link state remembered from the
    previous tick is not that very burst; the remembered link state is always the last one reported
    (`rTick_linkState`).  Two consecutive ticks reporting the identical burst would emit ONE link
    event. -/
theorem burst_tick_emits_link_event (rate : Nat) (s : RState) (sample sym : Nat) (b : List Byte) :
    Event.link sample (.burst b) ∈ (rTick rate s sample sym (.burst b)).2 ↔ s.linkState ≠ .burst b := by
  rw [link_event_tick]
  exact ⟨fun h => fun h' => h.2.2 h'.symm, fun h => ⟨rfl, rfl, fun h' => h h'.symm⟩⟩

/-- Transfers `link_event_is_tick`: every `Link(Burst b)` event of a whole-receiver run (from any
    state) is a receiver tick of the run that reported `.burst b`, at that very sample. -/
theorem run_link_burst_event_is_tick {r r' : FullRx F} {xs : List F} {evs : List Event}
    (hrun : FullRx.run r xs = some (r', evs)) (smp : Nat) (b : List Byte)
    (hev : Event.link smp (.burst b) ∈ evs) :
    ∃ tr, FullRx.trace r xs = some (r', tr) ∧
      ∃ sym, (smp, sym, LinkSt.burst b) ∈ stampedTicks r.cfg.lcfg r.link tr := by
  obtain ⟨tr, t, e, _⟩ := FullRxThm.run_refines_chain' hrun
  rw [e] at hev
  exact ⟨tr, t, link_event_is_tick _ _ _ _ _ hev⟩

/-- Conversely (`burst_tick_emits_link_event` ∘ `rRun_linkState` ∘ refinement): a receiver tick of
    a whole-receiver run that reports `.burst b` emits `Link(Burst b)` unless the tick immediately
    before it (the initial remembered link state, for the first tick) reported the identical burst.
    So the `.burst` ticks and the `Link(Burst)` events of a run correspond one to one except for
    immediate repetitions of an identical burst, which are reported once. -/
theorem run_burst_tick_emits_link_event {r r' : FullRx F} {xs : List F} {evs : List Event}
    {tr : List (Nat × Tick)}
    (hrun : FullRx.run r xs = some (r', evs)) (htr : FullRx.trace r xs = some (r', tr))
    (tpre tpost : List RTick) (smp sym : Nat) (b : List Byte)
    (hsplit : stampedTicks r.cfg.lcfg r.link tr = tpre ++ (smp, sym, .burst b) :: tpost)
    (hprev : (tpre.getLast?.map (·.2.2)).getD r.rx.linkState ≠ .burst b) :
    Event.link smp (.burst b) ∈ evs := by
  obtain ⟨tr', t', e, _⟩ := FullRxThm.run_refines_chain' hrun
  rw [htr] at t'
  cases t'
  rw [e, hsplit, rRun_append, rRun_cons]
  apply List.mem_append_right
  apply List.mem_append_left
  rw [burst_tick_emits_link_event, rRun_linkState]
  exact hprev

/-! ## T6 (C05 / C02 clause) the "report changes only" filter drops no StartOfMessage and no decode error -/

/-- Transfers `Chain.msg_out_ne_state` (Lemmas/ChainBridge.lean; with `C09.mem_tick_transport` and the
    invariant `RInv`, `rInv_run`).  In a whole-receiver run from `FullRx.new`, whenever the transport
    layer answers a message `m` other than EndOfMessage at a receiver tick (a StartOfMessage or a
    decode error), the change filter of `process()` lets it through: the event is in the run's event
    list, at that tick's sample.  (Only an EndOfMessage answered while EndOfMessage already is the
    reported state can be dropped; the forced one never is: `C09.forced_eom_event`.) -/
theorem run_change_filter_lossless {cfg : RxCfg F} {r0 r' : FullRx F} {xs : List F} {evs : List Event}
    (hnew : FullRx.new cfg = some r0) (hrun : FullRx.run r0 xs = some (r', evs)) :
    ∃ tr, FullRx.trace r0 xs = some (r', tr) ∧
      ∀ (tpre tpost : List RTick) (smp sym : Nat) (ls : LinkSt) (m : MsgResult),
        stampedTicks cfg.lcfg {} tr = tpre ++ (smp, sym, ls) :: tpost → m ≠ .ok .eom →
        (transportLayer cfg.rate (rRun cfg.rate {} tpre).1 smp sym ls).2 = some (.message m) →
        Event.transport smp (.message m) ∈ evs := by
  obtain ⟨tr, t, e, _⟩ := run_new_refines hnew hrun
  refine ⟨tr, t, ?_⟩
  intro tpre tpost smp sym ls m hsplit hm hout
  have hinv : RInv (rRun cfg.rate {} tpre).1 := rInv_run cfg.rate {} tpre rInv_init
  rw [e, hsplit, rRun_append, rRun_cons]
  apply List.mem_append_right
  apply List.mem_append_left
  rw [mem_tick_transport]
  refine ⟨rfl, hout, ?_⟩
  rw [tl_out_eq] at hout
  exact Chain.msg_out_ne_state _ hinv smp sym ls m hm hout

end Transfer

/-! ## non-vacuity: the kernel-evaluable run `demoCfg2` / `demoSig` of Thm/FullRx.lean -/

section Demo
open SameVerif.FullRxThm

/-- for the examples only (as in Thm/FullRx.lean; the theorems hold for ANY `Hypot Rat`) -/
local instance : Hypot Rat := FullRxThm.demoHypot

/-- is this event a StartOfMessage? -/
def isSomEvent : Event → Bool
  | .transport _ (.message (.ok (.som _))) => true
  | _ => false

theorem isSomEvent_false {e : Event} (h : isSomEvent e = false) (smp0 : Nat) (hd : Header) :
    e ≠ Event.transport smp0 (.message (.ok (.som hd))) := by
  intro he; subst he; cases h

/-- by evaluation: the run over the 97 samples of `demoSig` reports one event (the link event
    `Searching` at input sample 65, `FullRxThm.demo2_eval`) and no StartOfMessage -/
theorem demo2_no_som :
    (((FullRx.new demoCfg2).bind fun r0 => FullRx.run r0 demoSig).map fun p =>
      (p.2.length, p.2.any isSomEvent)) = some (1, false) := by decide +kernel

/-- T1 (`run_no_som_no_forced`), T1 (`run_timer_provenance`) and T5 (`run_bindings_eq_run`) on this
    run, by the general theorems: the hypothesis "no StartOfMessage event" holds by evaluation;
    hence every EndOfMessage event of the run would be a decoded trailer, the forced
    end-of-message timer is NOT armed at the end of the run (concluded, not evaluated), and the
    run's single event is what ANY partition of the 97 samples into iterator bindings delivers. -/
example : ∃ r0 r' evs, FullRx.new demoCfg2 = some r0 ∧ FullRx.run r0 demoSig = some (r', evs) ∧
    evs.length = 1 ∧
    (∀ e ∈ evs, ∀ smp0 h, e ≠ Event.transport smp0 (.message (.ok (.som h)))) ∧
    (∀ pre post smp, evs = pre ++ Event.transport smp (.message (.ok .eom)) :: post →
      ∃ tr, FullRx.trace r0 demoSig = some (r', tr) ∧
        ∃ trpre t trpost b, tr = trpre ++ (smp, t) :: trpost
          ∧ (lstep demoCfg2.lcfg (lrunState demoCfg2.lcfg {} (trpre.map (·.2))) t.1 t.2).2.1 = .burst b
          ∧ (aAssemble (rRun demoCfg2.rate {} (stampedTicks demoCfg2.lcfg {} trpre)).1.asm b
                (lstep demoCfg2.lcfg (lrunState demoCfg2.lcfg {} (trpre.map (·.2))) t.1 t.2).1.nsym).2
              = .message (.ok .eom)) ∧
    r'.rx.forceEomAt = none ∧
    (∀ chunks : List (List Rat), chunks.flatten = demoSig →
      (drainChunks progStep (⟨some r0, [], 0⟩ : PRx Rat) chunks).1 = evs) := by
  obtain ⟨r0, h⟩ := fullrx_new_rat (cfg := demoCfg2) (by decide)
  cases hrun : FullRx.run r0 demoSig with
  | none => exact absurd hrun (fullrx_never_panics_rat h (by decide +kernel) (by decide +kernel) _)
  | some p =>
    obtain ⟨r', evs⟩ := p
    have e := demo2_no_som
    rw [h] at e
    simp only [Option.bind_some, hrun, Option.map_some, Option.some.injEq, Prod.mk.injEq] at e
    obtain ⟨hlen, hany⟩ := e
    have hno : ∀ e ∈ evs, ∀ smp0 hd, e ≠ Event.transport smp0 (.message (.ok (.som hd))) := by
      intro e he
      have : isSomEvent e = false := by
        cases hb : isSomEvent e with
        | false => rfl
        | true =>
          have : evs.any isSomEvent = true := List.any_eq_true.2 ⟨e, he, hb⟩
          rw [hany] at this; cases this
      exact isSomEvent_false this
    refine ⟨r0, r', evs, h, hrun, hlen, hno,
      fun pre post smp hev => run_no_som_no_forced h hrun hno pre post smp hev, ?_, ?_⟩
    · cases hT : r'.rx.forceEomAt with
      | none => rfl
      | some T =>
        obtain ⟨E1, smp0, hd, E2, hsplit, _, _⟩ := run_timer_provenance h hrun T hT
        exact absurd rfl (hno _ (by rw [hsplit]; simp) smp0 hd)
    · intro chunks hc
      rw [run_bindings_eq_run hrun chunks hc 0]

end Demo

end SameVerif.FullRxTransferThm
