import SameVerif.Lemmas.RxProv
/-
  C04 at receiver level — provenance of every EndOfMessage event: it is reported for a decoded
  trailer (the assembler returned it for a burst) or it is the forced one, strictly later than
  135 s after a StartOfMessage EVENT that no EndOfMessage has closed.  In particular the forced
  timer is armed by StartOfMessage outputs only (a decode error never arms it).
  (Separate module because Lemmas/ReceiverFacts imports Thm/C08 … Thm/C14: appending to Thm/C04
  is possible but the receiver theorems share Lemmas/RxProv with Thm/C08rx.)
-/
namespace SameVerif.RxProv
open SameVerif SameVerif.C08 SameVerif.C09 SameVerif.C14

/-! ## PART A — provenance of EndOfMessage events -/

/-! ### A1 / A2 — one tick -/

/-- **A1.**  For ANY state: a tick emits an EndOfMessage event exactly when the reported transport
    state is not already EndOfMessage and the tick is (decoded) a burst for which the assembler
    answers EndOfMessage, (polled) a NoCarrier tick, timer not firing, on which the poll answers
    EndOfMessage, or (forced) a NoCarrier tick with the timer armed at some `T < sample`. -/
theorem eom_event_tick (rate : Nat) (s : RState) (sample sym : Nat) (ls : LinkSt) (smp : Nat) :
    Event.transport smp (.message (.ok .eom)) ∈ (rTick rate s sample sym ls).2
      ↔ smp = sample ∧ s.transportState ≠ .message (.ok .eom) ∧
        ((∃ b, ls = .burst b ∧ (aAssemble s.asm b sym).2 = .message (.ok .eom))
         ∨ (ls = .noCarrier ∧ ¬ Forced s sample ls ∧ (aIdle s.asm sym).2 = .message (.ok .eom))
         ∨ (ls = .noCarrier ∧ ∃ T, s.forceEomAt = some T ∧ T < sample)) := by
  rw [mem_tick_transport, tl_out_eq]
  constructor
  · rintro ⟨h1, h2, h3⟩
    refine ⟨h1, fun h => h3 h.symm, ?_⟩
    rcases tlCore_cases s sample sym ls with ⟨hc, _⟩ | ⟨hf, _⟩ | ⟨hnf, ⟨hl, hc⟩ | ⟨b, hl, hc⟩⟩
    · rw [hc] at h2; cases h2
    · right; right; exact ⟨hf.1, hf.2⟩
    · right; left
      rw [hc] at h2
      simp only [Option.some.injEq] at h2
      exact ⟨hl, hnf, h2⟩
    · left
      rw [hc] at h2
      simp only [Option.some.injEq] at h2
      exact ⟨b, hl, h2⟩
  · rintro ⟨h1, h2, h3⟩
    refine ⟨h1, ?_, fun h => h2 h.symm⟩
    rcases h3 with ⟨b, rfl, hb⟩ | ⟨rfl, hnf, hp⟩ | ⟨rfl, T, hT, hlt⟩
    · simp only [tlCore]; rw [hb]
    · rcases tlCore_cases s sample sym .noCarrier with ⟨_, hc⟩ | ⟨hf, _⟩ | ⟨_, ⟨_, hc⟩ | ⟨b, hl, _⟩⟩
      · exact absurd rfl hc
      · exact absurd hf hnf
      · rw [hc]; simp only [hp]
      · cases hl
    · simp [tlCore, hT, hlt]

/-- **A2.**  Under `NoEomPending` (part of `RInv`; holds along every run from `{}`) the polled case
    cannot occur: an EndOfMessage event is decoded from a burst, or forced by the timer. -/
theorem eom_event_tick_inv (rate : Nat) (s : RState) (sample sym : Nat) (ls : LinkSt) (smp : Nat)
    (hne : NoEomPending s.asm)
    (hev : Event.transport smp (.message (.ok .eom)) ∈ (rTick rate s sample sym ls).2) :
    smp = sample ∧ s.transportState ≠ .message (.ok .eom) ∧
      ((∃ b, ls = .burst b ∧ (aAssemble s.asm b sym).2 = .message (.ok .eom))
       ∨ (ls = .noCarrier ∧ ∃ T, s.forceEomAt = some T ∧ T < sample)) := by
  obtain ⟨h1, h2, h3⟩ := (eom_event_tick rate s sample sym ls smp).1 hev
  refine ⟨h1, h2, ?_⟩
  rcases h3 with h | ⟨_, _, hp⟩ | h
  · exact Or.inl h
  · exact absurd hp (C05.poll_never_eom s.asm sym hne)
  · exact Or.inr h

/-- **A2, "decoded" spelled out.**  Under `NoEomPending`, an assembler call on a burst answers
    EndOfMessage only if the burst is non-empty and the (de-duplicated) combiner estimate over the
    history including this burst is EndOfMessage: the trailer was decoded by this very call. -/
theorem decoded_is_estimate (a : AState) (b : List Byte) (now : Nat) (hne : NoEomPending a)
    (hout : (aAssemble a b now).2 = .message (.ok .eom)) :
    b.isEmpty = false ∧ estimateOf a b now = some (.ok .eom) := by
  have hstep : aAssemble a b now = aIdle (Asm.preIdle a (.burst b now)) now :=
    Asm.stepOp_eq a (.burst b now)
  rw [hstep] at hout
  obtain ⟨t, hp, _, hdat, _⟩ := Asm.idle_out_ok _ _ _ hout
  obtain ⟨b', now', hop, hb, hest, _⟩ := Asm.preIdle_eom_pending a _ hne t hp hdat
  cases hop
  exact ⟨hb, hest⟩

/-! ### A3 — the timer is armed only by a StartOfMessage output -/

/-- **A3 (any start state).**  If the timer reads `some T` after a run, then either it read
    `some T` at the start and no output of the run was a StartOfMessage or an EndOfMessage, or
    some tick, at sample `smp0` with `T = smp0 + 135·rate`, had a StartOfMessage output and no
    later output was a StartOfMessage or an EndOfMessage. -/
theorem timer_provenance_gen (rate : Nat) (ticks : List RTick) : ∀ (s : RState) (T : Nat),
    (rRun rate s ticks).1.forceEomAt = some T →
    (s.forceEomAt = some T ∧ ∀ o ∈ outs rate s ticks, TimerQuiet o.2)
    ∨ ∃ pre smp0 sym0 ls0 post h,
        ticks = pre ++ (smp0, sym0, ls0) :: post
        ∧ T = smp0 + Gen.MAX_MESSAGE_DURATION_SECS * rate
        ∧ (transportLayer rate (rRun rate s pre).1 smp0 sym0 ls0).2 = some (.message (.ok (.som h)))
        ∧ ∀ o ∈ outs rate (rTick rate (rRun rate s pre).1 smp0 sym0 ls0).1 post, TimerQuiet o.2 := by
  induction ticks with
  | nil => intro s T h; left; exact ⟨h, fun o ho => by cases ho⟩
  | cons x xs ih =>
    obtain ⟨smp, sy, ls⟩ := x
    intro s T hT
    rw [rRun_cons] at hT
    rcases ih _ T hT with ⟨h1, h2⟩ | ⟨pre, smp0, sym0, ls0, post, h, rfl, hTeq, hout, hq⟩
    · rw [tick_force] at h1
      rcases forceAfter_cases rate smp s.forceEomAt (transportLayer rate s smp sy ls).2
        with ⟨h, ho, hf⟩ | ⟨ho, hf⟩ | ⟨hq, hf⟩
      · right
        rw [hf] at h1
        cases h1
        exact ⟨[], smp, sy, ls, xs, h, rfl, rfl, ho, h2⟩
      · rw [hf] at h1; cases h1
      · left
        rw [hf] at h1
        refine ⟨h1, ?_⟩
        intro o ho
        rw [outs_cons] at ho
        rcases List.mem_cons.1 ho with rfl | ho
        · exact hq
        · exact h2 o ho
    · right
      exact ⟨(smp, sy, ls) :: pre, smp0, sym0, ls0, post, h, rfl, hTeq, hout, hq⟩

/-- **A3.**  From a state with the timer off (e.g. `{}`): if the timer reads `some T` after the
    run then some tick, at sample `smp0` with `T = smp0 + 135·rate`, had output StartOfMessage,
    and no later tick had output EndOfMessage (nor another StartOfMessage). -/
theorem timer_provenance (rate : Nat) (s : RState) (ticks : List RTick) (T : Nat)
    (h0 : s.forceEomAt = none) (hT : (rRun rate s ticks).1.forceEomAt = some T) :
    ∃ pre smp0 sym0 ls0 post h,
      ticks = pre ++ (smp0, sym0, ls0) :: post
      ∧ T = smp0 + Gen.MAX_MESSAGE_DURATION_SECS * rate
      ∧ (transportLayer rate (rRun rate s pre).1 smp0 sym0 ls0).2 = some (.message (.ok (.som h)))
      ∧ outs rate s ticks
          = outs rate s pre ++ (smp0, some (.message (.ok (.som h))))
              :: outs rate (rTick rate (rRun rate s pre).1 smp0 sym0 ls0).1 post
      ∧ ∀ o ∈ outs rate (rTick rate (rRun rate s pre).1 smp0 sym0 ls0).1 post, TimerQuiet o.2 := by
  rcases timer_provenance_gen rate ticks s T hT with ⟨h1, _⟩ | ⟨pre, smp0, sym0, ls0, post, h, rfl, h2, h3, h4⟩
  · rw [h0] at h1; cases h1
  · refine ⟨pre, smp0, sym0, ls0, post, h, rfl, h2, h3, ?_, h4⟩
    rw [outs_append, outs_cons, h3]

/-- **A3, converse.**  A StartOfMessage output at sample `smp0`, followed only by outputs that are
    neither StartOfMessage nor EndOfMessage, leaves the timer at `smp0 + 135·rate`. -/
theorem timer_armed_run (rate : Nat) (s : RState) (pre post : List RTick) (smp0 sym0 : Nat) (ls0 : LinkSt)
    (h : Header)
    (hout : (transportLayer rate (rRun rate s pre).1 smp0 sym0 ls0).2 = some (.message (.ok (.som h))))
    (hq : ∀ o ∈ outs rate (rTick rate (rRun rate s pre).1 smp0 sym0 ls0).1 post, TimerQuiet o.2) :
    (rRun rate s (pre ++ (smp0, sym0, ls0) :: post)).1.forceEomAt
      = some (smp0 + Gen.MAX_MESSAGE_DURATION_SECS * rate) := by
  rw [rRun_append, rRun_cons]
  simp only
  rw [quiet_run_timer rate post _ hq, tick_force, hout]
  rfl

/-! ### A4 — every EndOfMessage event is a decoded trailer or closes an open StartOfMessage event -/

/-- **A4 (any start state satisfying the invariant).**  The EndOfMessage event at a given position
    of the event list was emitted by a definite tick `(smp, sym, ls)`; it is the last event of
    that tick, preceded by the tick's link event.  That tick is a burst decoded as a trailer, or a
    NoCarrier tick forced by the timer — armed by a StartOfMessage EVENT more than 135 s earlier
    that no later StartOfMessage / EndOfMessage event has closed, or armed in the start state
    with no such event since the start. -/
theorem eom_event_provenance_gen (rate : Nat) (s : RState) (hinv : RInv s) (ticks : List RTick)
    (pre post : List Event) (smp : Nat)
    (hev : (rRun rate s ticks).2 = pre ++ Event.transport smp (.message (.ok .eom)) :: post) :
    ∃ tpre sym ls tpost,
      ticks = tpre ++ (smp, sym, ls) :: tpost
      ∧ pre = (rRun rate s tpre).2 ++ linkEv (rRun rate s tpre).1 smp ls
      ∧ post = (rRun rate (rTick rate (rRun rate s tpre).1 smp sym ls).1 tpost).2
      ∧ ((∃ b, ls = .burst b ∧ (aAssemble (rRun rate s tpre).1.asm b sym).2 = .message (.ok .eom))
         ∨ (ls = .noCarrier ∧ ∃ pre1 smp0 h pre2,
              pre = pre1 ++ Event.transport smp0 (.message (.ok (.som h))) :: pre2
              ∧ (∀ e ∈ pre2, ¬ Closes e)
              ∧ smp0 + Gen.MAX_MESSAGE_DURATION_SECS * rate < smp
              ∧ (rRun rate s tpre).1.forceEomAt = some (smp0 + Gen.MAX_MESSAGE_DURATION_SECS * rate))
         ∨ (ls = .noCarrier ∧ ∃ T, s.forceEomAt = some T ∧ T < smp
              ∧ (rRun rate s tpre).1.forceEomAt = some T ∧ ∀ e ∈ pre, ¬ Closes e)) := by
  obtain ⟨tpre, sample, sym, ls, tpost, epre, epost, rfl, h2, h3, h4⟩ :=
    run_event_split rate ticks s pre _ post hev
  have hinv1 : RInv (rRun rate s tpre).1 := rInv_run rate s tpre hinv
  have hmem : Event.transport smp (.message (.ok .eom))
      ∈ (rTick rate (rRun rate s tpre).1 sample sym ls).2 := by rw [h2]; simp
  obtain ⟨rfl, _, hkind⟩ := eom_event_tick_inv rate _ sample sym ls smp hinv1.2.2 hmem
  rw [rTick_events] at h2
  obtain ⟨rfl, rfl⟩ := tick_transport_split _ _ _ _ _ _ _ _ h2
  rw [List.nil_append] at h4
  refine ⟨tpre, sym, ls, tpost, rfl, h3, h4, ?_⟩
  rcases hkind with hdec | ⟨hls, T, hT, hlt⟩
  · exact Or.inl hdec
  · right
    -- quiet outputs give no closing events
    have hquiet : ∀ (s' : RState) (ts : List RTick), (∀ o ∈ outs rate s' ts, TimerQuiet o.2) →
        ∀ e ∈ (rRun rate s' ts).2, ¬ Closes e := by
      intro s' ts hq e he hc
      obtain ⟨sm, rfl | ⟨hh, rfl⟩⟩ := hc
      · exact (hq _ (event_mem_outs rate ts s' sm _ he)).1 rfl
      · exact (hq _ (event_mem_outs rate ts s' sm _ he)).2 hh rfl
    rcases timer_provenance_gen rate tpre s T hT with ⟨h1, hq⟩ | ⟨p1, smp0, sym0, ls0, p2, h, rfl, hTeq, hout, hq⟩
    · right
      refine ⟨hls, T, h1, hlt, hT, ?_⟩
      intro e he
      rw [h3] at he
      rcases List.mem_append.1 he with he | he
      · exact hquiet s tpre hq e he
      · exact not_closes_linkEv _ _ _ e he
    · left
      subst hTeq
      have hinv2 : RInv (rRun rate s p1).1 := rInv_run rate s p1 hinv
      have hsom := som_out_event rate _ smp0 sym0 ls0 h hinv2.2.1 hout
      refine ⟨hls, (rRun rate s p1).2 ++ linkEv (rRun rate s p1).1 smp0 ls0, smp0, h,
        (rRun rate (rTick rate (rRun rate s p1).1 smp0 sym0 ls0).1 p2).2
          ++ linkEv (rRun rate s (p1 ++ (smp0, sym0, ls0) :: p2)).1 smp ls, ?_, ?_, hlt, hT⟩
      · rw [h3, rRun_append, rRun_cons]
        simp only
        rw [hsom]
        simp only [List.append_assoc, List.cons_append, List.nil_append]
      · intro e he
        rcases List.mem_append.1 he with he | he
        · exact hquiet _ p2 hq e he
        · exact not_closes_linkEv _ _ _ e he

/-- **A4 (headline).**  Every run from the initial state.  If the events are
    `pre ++ EndOfMessage@smp :: post`, this event was emitted by a tick `(smp, sym, ls)` of the run
    (as the last event of that tick) and EITHER `ls = .burst b` and the assembler answered
    EndOfMessage for that burst (decoded trailer), OR `ls = .noCarrier` and
    `pre = pre1 ++ StartOfMessage@smp0 :: pre2` where `pre2` holds no EndOfMessage event (and no
    newer StartOfMessage event either) and `smp0 + 135·rate < smp`. -/
theorem eom_event_provenance (rate : Nat) (ticks : List RTick) (pre post : List Event) (smp : Nat)
    (hev : (rRun rate {} ticks).2 = pre ++ Event.transport smp (.message (.ok .eom)) :: post) :
    ∃ tpre sym ls tpost,
      ticks = tpre ++ (smp, sym, ls) :: tpost
      ∧ pre = (rRun rate {} tpre).2 ++ linkEv (rRun rate {} tpre).1 smp ls
      ∧ post = (rRun rate (rTick rate (rRun rate {} tpre).1 smp sym ls).1 tpost).2
      ∧ ((∃ b, ls = .burst b ∧ (aAssemble (rRun rate {} tpre).1.asm b sym).2 = .message (.ok .eom))
         ∨ (ls = .noCarrier ∧ ∃ pre1 smp0 h pre2,
              pre = pre1 ++ Event.transport smp0 (.message (.ok (.som h))) :: pre2
              ∧ (∀ e ∈ pre2, ∀ smp', e ≠ Event.transport smp' (.message (.ok .eom)))
              ∧ (∀ e ∈ pre2, ∀ smp' h', e ≠ Event.transport smp' (.message (.ok (.som h'))))
              ∧ smp0 + Gen.MAX_MESSAGE_DURATION_SECS * rate < smp
              ∧ (rRun rate {} tpre).1.forceEomAt = some (smp0 + Gen.MAX_MESSAGE_DURATION_SECS * rate))) := by
  obtain ⟨tpre, sym, ls, tpost, h1, h2, h3, h4⟩ :=
    eom_event_provenance_gen rate {} rInv_init ticks pre post smp hev
  refine ⟨tpre, sym, ls, tpost, h1, h2, h3, ?_⟩
  rcases h4 with h | ⟨hls, pre1, smp0, h, pre2, hp, hc, hlt, hf⟩ | ⟨_, T, hT, _⟩
  · exact Or.inl h
  · right
    refine ⟨hls, pre1, smp0, h, pre2, hp, ?_, ?_, hlt, hf⟩
    · intro e he smp' heq; exact hc e he ⟨smp', Or.inl heq⟩
    · intro e he smp' h' heq; exact hc e he ⟨smp', Or.inr ⟨h', heq⟩⟩
  · cases hT

/-- **A4, exactly as asked** (without the tick bookkeeping). -/
theorem eom_event_decoded_or_forced (rate : Nat) (ticks : List RTick) (pre post : List Event) (smp : Nat)
    (hev : (rRun rate {} ticks).2 = pre ++ Event.transport smp (.message (.ok .eom)) :: post) :
    (∃ tpre sym b tpost, ticks = tpre ++ (smp, sym, .burst b) :: tpost
        ∧ (aAssemble (rRun rate {} tpre).1.asm b sym).2 = .message (.ok .eom))
    ∨ (∃ pre1 smp0 h pre2,
        pre = pre1 ++ Event.transport smp0 (.message (.ok (.som h))) :: pre2
        ∧ (∀ e ∈ pre2, ∀ smp', e ≠ Event.transport smp' (.message (.ok .eom)))
        ∧ smp0 + Gen.MAX_MESSAGE_DURATION_SECS * rate < smp) := by
  obtain ⟨tpre, sym, ls, tpost, h1, _, _, h4⟩ := eom_event_provenance rate ticks pre post smp hev
  rcases h4 with ⟨b, rfl, hb⟩ | ⟨_, pre1, smp0, h, pre2, hp, hc, _, hlt, _⟩
  · exact Or.inl ⟨tpre, sym, b, tpost, h1, hb⟩
  · exact Or.inr ⟨pre1, smp0, h, pre2, hp, hc, hlt⟩

/-! ### A5 — no StartOfMessage, no forced EndOfMessage -/

/-- **A5.**  A run (from `{}`) in which no tick's `transportLayer` output is a StartOfMessage never
    emits a forced EndOfMessage: every EndOfMessage event is a decoded trailer. -/
theorem no_som_output_no_forced (rate : Nat) (ticks : List RTick)
    (hno : ∀ o ∈ outs rate {} ticks, ∀ h, o.2 ≠ some (.message (.ok (.som h))))
    (pre post : List Event) (smp : Nat)
    (hev : (rRun rate {} ticks).2 = pre ++ Event.transport smp (.message (.ok .eom)) :: post) :
    ∃ tpre sym b tpost, ticks = tpre ++ (smp, sym, .burst b) :: tpost
      ∧ (aAssemble (rRun rate {} tpre).1.asm b sym).2 = .message (.ok .eom) := by
  rcases eom_event_decoded_or_forced rate ticks pre post smp hev with h | ⟨pre1, smp0, h, pre2, hp, _, _⟩
  · exact h
  · exfalso
    have hmem : Event.transport smp0 (.message (.ok (.som h))) ∈ (rRun rate {} ticks).2 := by
      rw [hev, hp]; simp
    exact hno _ (event_mem_outs rate ticks {} smp0 _ hmem) h rfl

/-- **A5, event form.**  If the run reports no StartOfMessage event, every EndOfMessage event is a
    decoded trailer. -/
theorem no_som_event_no_forced (rate : Nat) (ticks : List RTick)
    (hno : ∀ e ∈ (rRun rate {} ticks).2, ∀ smp0 h, e ≠ Event.transport smp0 (.message (.ok (.som h))))
    (pre post : List Event) (smp : Nat)
    (hev : (rRun rate {} ticks).2 = pre ++ Event.transport smp (.message (.ok .eom)) :: post) :
    ∃ tpre sym b tpost, ticks = tpre ++ (smp, sym, .burst b) :: tpost
      ∧ (aAssemble (rRun rate {} tpre).1.asm b sym).2 = .message (.ok .eom) := by
  rcases eom_event_decoded_or_forced rate ticks pre post smp hev with h | ⟨pre1, smp0, h, pre2, hp, _, _⟩
  · exact h
  · exfalso
    exact hno _ (by rw [hev, hp]; simp) smp0 h rfl

/-- the timer is never armed in a run without a StartOfMessage output -/
theorem no_som_output_timer_off (rate : Nat) (ticks : List RTick)
    (hno : ∀ o ∈ outs rate {} ticks, ∀ h, o.2 ≠ some (.message (.ok (.som h)))) :
    (rRun rate {} ticks).1.forceEomAt = none := by
  cases hT : (rRun rate {} ticks).1.forceEomAt with
  | none => rfl
  | some T =>
    obtain ⟨pre, smp0, sym0, ls0, post, h, _, _, _, houts, _⟩ := timer_provenance rate {} ticks T rfl hT
    exact absurd rfl (hno (smp0, some (.message (.ok (.som h)))) (by rw [houts]; simp) h)

/-! ### Non-vacuity of PART A -/

/-- decoded case: one burst `NNNN` from the initial state is reported as EndOfMessage at once -/
example : (rRun 8000 {} [(100, 50, .burst litNNNN)]).2
    = [Event.link 100 (.burst litNNNN), Event.transport 100 (.message (.ok .eom))] := by
  rfl

example : (aAssemble ({} : RState).asm litNNNN 50).2 = .message (.ok .eom) := by rfl

/-- `ZCZC-WXR-RWT-012345+0030-1231200-KLOX-` -/
def hdrBytes : List Byte :=
  [90, 67, 90, 67, 45, 87, 88, 82, 45, 82, 87, 84, 45, 48, 49, 50, 51, 52, 53, 43, 48, 48, 51, 48, 45,
   49, 50, 51, 49, 50, 48, 48, 45, 75, 76, 79, 88, 45]

/-- forced case, from the initial state (rate 1 sample/s): two header bursts, the StartOfMessage is
    released at sample 30 (timer: 165), the NoCarrier tick at sample 166 is the forced EndOfMessage -/
example : (rRun 1 {} [(10, 1000, .burst hdrBytes), (20, 2900, .burst hdrBytes),
      (30, 3600, .noCarrier), (166, 3601, .noCarrier)]).2
    = [Event.link 10 (.burst hdrBytes), Event.transport 10 .assembling,
       Event.link 30 .noCarrier, Event.transport 30 (.message (.ok (.som ⟨hdrBytes, 19, 0, 0⟩))),
       Event.transport 166 (.message (.ok .eom))] := by
  rfl

/-- … and one sample earlier nothing is forced (the bound `smp0 + 135·rate < smp` is strict) -/
example : (rRun 1 {} [(10, 1000, .burst hdrBytes), (20, 2900, .burst hdrBytes),
      (30, 3600, .noCarrier), (165, 3601, .noCarrier)]).2
    = [Event.link 10 (.burst hdrBytes), Event.transport 10 .assembling,
       Event.link 30 .noCarrier, Event.transport 30 (.message (.ok (.som ⟨hdrBytes, 19, 0, 0⟩))),
       Event.transport 165 .assembling] := by
  rfl

/-- `NoEomPending` is needed in A2: with an EndOfMessage sitting in the slot (unreachable), a
    plain poll reports it -/
example : (rTick 1 { asm := { pending := some ⟨.ok .eom, 0⟩ } } 7 0 .noCarrier).2
    = [Event.transport 7 (.message (.ok .eom))] := by
  rfl

end SameVerif.RxProv
