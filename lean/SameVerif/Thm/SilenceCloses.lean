/-
  C09, first sentence — "Every StartOfMessage is eventually closed" — for the WHOLE-receiver model
  over the rationals (`Model/FullRx.lean`, DSP inside the model), once the channel goes quiet.

  Thm/C09.lean proves the property for the receiver glue (`rRun`): after a StartOfMessage at sample
  `p`, the first `NoCarrier` tick stamped beyond `p + 135 * rate` forces an EndOfMessage, unless the
  message was closed (or superseded by a newer StartOfMessage) before.  It ASSUMES such a tick comes.
  Finding F9 (Thm/C09.lean `search_restart_unbounded`, Thm/C09busy.lean) shows that a carrier that
  keeps the link busy postpones it for ever: the assumption cannot be dropped, it can only be
  discharged for inputs that go quiet.  Thm/Silence.lean proves what silence does to the whole
  receiver: symbol ticks keep coming (`tick_spacing`, ANY input), `N0 + (K + 32) * G` zero samples
  leave the receiver idle (`zeros_link_idle`), and from then on every tick reports `NoCarrier`
  (`idle_stays_idle`).  Here the two are composed.

  S1  `noCarrier_tick_after`     from any reachable state, enough zeros contain a `NoCarrier` tick
                                 stamped beyond any given deadline `T`
  S2  `som_closed_once_silent`   THE THEOREM: ANY audio `xs` whose events contain a StartOfMessage
                                 stamped `p`, then ANY further audio `ys`, then `n` zeros with
                                   (a) `n ≥ N0 + (K + 32) * G + G`   (the receiver drains, one more tick)
                                   (b) `counter before xs + |xs| + |ys| + n ≥ p + 135 * rate + G`
                                 : the events after that StartOfMessage (rest of the first run, the
                                 second run, the silence) contain an EndOfMessage or a newer
                                 StartOfMessage.  `som_closed_once_silent_mem`: membership form.
  S3  `som_closed_from_new`      the same from `FullRx.new cfg`, hypotheses on the configuration only
      `som_closed_from_new'`     … with the sharper `period_max` / built bandwidth instead
  S4  non-vacuity                `demoCfg2` meets the hypotheses (`demo_closes`); at the `rRun` level
                                 the conclusion is witnessed by C09's concrete run (forced EndOfMessage),
                                 and without the late `NoCarrier` tick there is no closing event.

  `N0 = 2 * dcLen + max 1 mark.length`; `K` with `(1 - squelch bandwidth) ^ K < power_close ≤ power_open`;
  `G ≥ 2 * period_max + 2 * A + 5/2` samples (`A` bounds both proportional loop gains): every `G`
  samples contain a symbol tick.  Exact real-number semantics (`Rat`), arbitrary `hypot`; nothing is
  claimed about `Float32` rounding.
-/
import SameVerif.Lemmas.SilenceClosesFacts

namespace SameVerif.SilenceClosesThm

open SameVerif SameVerif.Dsp Arith SameVerif.SilenceThm

/-- the timeout constant of `closed_within` -/
example : Gen.MAX_MESSAGE_DURATION_SECS = 135 := rfl

/-! ## receiver-glue level (`rRun`): an event comes from a tick; C09 with the tick located -/

/-- an event of a run of the receiver glue is an event of one of its ticks -/
theorem event_from_tick (rate : Nat) (T : List RTick) (s : RState) (x : Event) (h : x ∈ (rRun rate s T).2) :
    ∃ pre post smp sym ls, T = pre ++ (smp, sym, ls) :: post ∧
      x ∈ (rTick rate (rRun rate s pre).1 smp sym ls).2 :=
  SilenceClosesAux.event_from_tick rate T s x h

/-- `C09.closed_within` with the StartOfMessage located by its POSITION in the event list: from ANY
    state, if the events of the ticks `T1` are `a ++ StartOfMessage(p) :: b`, then for any further
    ticks `mid` followed by a `NoCarrier` tick stamped `> p + 135 * rate`, the events after that
    StartOfMessage contain a closing event -/
theorem closed_after_event (rate : Nat) (s0 : RState) (T1 mid : List RTick) (a b : List Event)
    (p : Nat) (h : Header) (sample sym : Nat)
    (he : (rRun rate s0 T1).2 = a ++ Event.transport p (.message (.ok (.som h))) :: b)
    (hlate : sample > p + Gen.MAX_MESSAGE_DURATION_SECS * rate) :
    ∃ e ∈ b ++ (rRun rate (rRun rate s0 T1).1 (mid ++ [(sample, sym, .noCarrier)])).2, C09.Closes e :=
  SilenceClosesAux.closed_after_event rate s0 T1 mid a b p h sample sym he hlate

section Whole
variable [Hypot Rat]

/-! ## S1 a `NoCarrier` tick beyond any deadline -/

/-- **S1.**  From any state satisfying the invariant and for any deadline `T` (a sample count): `n`
    zero samples with `n ≥ N0 + (K + 32) * G + G` and `counter + n ≥ T + G` never panic, leave the
    receiver idle, and the receiver ticks of the run (`stampedTicks` of the trace: stamp = input
    sample counter, symbol count, reported link state) contain a tick reporting `NoCarrier` whose
    stamp exceeds `T`. -/
theorem noCarrier_tick_after {c : RxCfg Rat} {spt pmin pmax A : Rat} {r : FullRx Rat}
    (hc : SilCfg c spt pmin pmax A) (h : SilInv c spt pmin pmax A r) (hco : c.powerClose ≤ c.powerOpen)
    {G K : Nat} (hG : 2 * pmax + 2 * A + 5 / 2 ≤ (G : Rat)) (hK : (1 - r.pt.bandwidth) ^ K < c.powerClose)
    (T : Nat) {n : Nat} (hn1 : 2 * c.dcLen + max 1 c.mark.length + (K + 32) * G + G ≤ n)
    (hn2 : T + G ≤ r.inputCounter + n) :
    ∃ r' tr, FullRx.trace r (List.replicate n 0) = some (r', tr) ∧ SilInv c spt pmin pmax A r' ∧ Idle c r' ∧
      ∃ stamp sym, (stamp, sym, LinkSt.noCarrier) ∈ stampedTicks c.lcfg r.link tr ∧ T < stamp := by
  obtain ⟨r', tr, e, h', i', tk, hm, hnc, hT⟩ := noCarrier_tick_after_aux hc h hco hG hK T hn1 hn2
  obtain ⟨stamp, sym, st⟩ := tk
  dsimp only at hnc hT
  subst hnc
  exact ⟨r', tr, e, h', i', stamp, sym, hm, hT⟩

/-! ## S2 every StartOfMessage is closed once the channel has gone quiet -/

/-- **S2, THE THEOREM.**  `r0` satisfies the invariant (e.g. freshly built: `inv_new`).  ANY audio `xs`
    is processed, and its event list `e1` is `a ++ StartOfMessage(h) at sample p :: b`.  ANY further
    audio `ys` (the voice message, noise, more bursts) is processed, events `e2`.  Then `n` zero samples
    with

      (a) `n ≥ N0 + (K + 32) * G + G`,
      (b) `r0.inputCounter + |xs| + |ys| + n ≥ p + 135 * rate + G`

    (the silence lasts until `G` samples beyond 135 s after the StartOfMessage) never panic, leave the
    receiver idle, and the events AFTER that StartOfMessage — `b`, `e2`, and the events `e3` of the
    silence — contain an EndOfMessage or a newer StartOfMessage. -/
theorem som_closed_once_silent {c : RxCfg Rat} {spt pmin pmax A : Rat} {r0 r1 r2 : FullRx Rat}
    (hc : SilCfg c spt pmin pmax A) (h0 : SilInv c spt pmin pmax A r0) (hco : c.powerClose ≤ c.powerOpen)
    {G K : Nat} (hG : 2 * pmax + 2 * A + 5 / 2 ≤ (G : Rat)) (hK : (1 - r0.pt.bandwidth) ^ K < c.powerClose)
    {xs ys : List Rat} {e1 e2 : List Event}
    (hx : FullRx.run r0 xs = some (r1, e1)) (hy : FullRx.run r1 ys = some (r2, e2))
    {p : Nat} {h : Header} {a b : List Event}
    (hsom : e1 = a ++ Event.transport p (.message (.ok (.som h))) :: b)
    {n : Nat} (hn1 : 2 * c.dcLen + max 1 c.mark.length + (K + 32) * G + G ≤ n)
    (hn2 : p + Gen.MAX_MESSAGE_DURATION_SECS * c.rate + G ≤ r0.inputCounter + xs.length + ys.length + n) :
    ∃ r3 e3, FullRx.run r2 (List.replicate n 0) = some (r3, e3) ∧ SilInv c spt pmin pmax A r3 ∧ Idle c r3 ∧
      ∃ e ∈ b ++ e2 ++ e3, C09.Closes e := by
  -- the invariant along the way
  obtain ⟨r1', _, hx', h1⟩ := run_keeps_inv hc h0 xs
  rw [hx] at hx'; cases hx'
  obtain ⟨r2', _, hy', h2⟩ := run_keeps_inv hc h1 ys
  rw [hy] at hy'; cases hy'
  -- the three runs as runs of the receiver glue
  obtain ⟨tr1, t1, ev1, x1, _⟩ := FullRxThm.run_refines_chain' hx
  obtain ⟨tr2, t2, ev2, x2, _⟩ := FullRxThm.run_refines_chain' hy
  rw [h0.cfg] at ev1 x1
  rw [h1.cfg] at ev2 x2
  -- squelch bandwidth and sample counter at the start of the silence
  have b1 := trace_bw hc xs r0 h0 r1 tr1 t1
  have b2 := trace_bw hc ys r1 h1 r2 tr2 t2
  have c1 := (FullRxThm.run_timestamps hx).1
  have c2 := (FullRxThm.run_timestamps hy).1
  -- S1: a late `NoCarrier` tick in the silence
  obtain ⟨r3, tr3, t3, h3, i3, stamp, sym, hm, hT⟩ :=
    noCarrier_tick_after hc h2 hco hG (by rw [b2, b1]; exact hK)
      (p + Gen.MAX_MESSAGE_DURATION_SECS * c.rate) hn1 (by rw [c2, c1]; exact hn2)
  obtain ⟨e3, er3, _, ev3, _, _⟩ := trace_run t3
  rw [h2.cfg] at ev3
  obtain ⟨T3a, T3b, hsplit⟩ := List.append_of_mem hm
  refine ⟨r3, e3, er3, h3, i3, ?_⟩
  have key := SilenceClosesAux.closed_three_runs c.rate r0.rx (stampedTicks c.lcfg r0.link tr1)
    (stampedTicks c.lcfg r1.link tr2) T3a T3b a b p h stamp sym (by rw [← ev1]; exact hsom) hT
  rw [← x1, ← ev2, ← x2, ← hsplit, ← ev3] at key
  exact key

/-- **S2, membership form**: for ANY StartOfMessage event of the first run there is a position of it
    in the event list after which a closing event follows -/
theorem som_closed_once_silent_mem {c : RxCfg Rat} {spt pmin pmax A : Rat} {r0 r1 r2 : FullRx Rat}
    (hc : SilCfg c spt pmin pmax A) (h0 : SilInv c spt pmin pmax A r0) (hco : c.powerClose ≤ c.powerOpen)
    {G K : Nat} (hG : 2 * pmax + 2 * A + 5 / 2 ≤ (G : Rat)) (hK : (1 - r0.pt.bandwidth) ^ K < c.powerClose)
    {xs ys : List Rat} {e1 e2 : List Event}
    (hx : FullRx.run r0 xs = some (r1, e1)) (hy : FullRx.run r1 ys = some (r2, e2))
    {p : Nat} {h : Header} (hsom : Event.transport p (.message (.ok (.som h))) ∈ e1)
    {n : Nat} (hn1 : 2 * c.dcLen + max 1 c.mark.length + (K + 32) * G + G ≤ n)
    (hn2 : p + Gen.MAX_MESSAGE_DURATION_SECS * c.rate + G ≤ r0.inputCounter + xs.length + ys.length + n) :
    ∃ r3 e3 a b, FullRx.run r2 (List.replicate n 0) = some (r3, e3) ∧ Idle c r3 ∧
      e1 = a ++ Event.transport p (.message (.ok (.som h))) :: b ∧
      ∃ e ∈ b ++ e2 ++ e3, C09.Closes e := by
  obtain ⟨a, b, hab⟩ := List.append_of_mem hsom
  obtain ⟨r3, e3, er, _, i3, hcl⟩ := som_closed_once_silent hc h0 hco hG hK hx hy hab hn1 hn2
  exact ⟨r3, e3, a, b, er, i3, hab, hcl⟩

/-- the special case `ys = []`: silence directly after the audio that contained the StartOfMessage -/
theorem som_closed_silence_follows {c : RxCfg Rat} {spt pmin pmax A : Rat} {r0 r1 : FullRx Rat}
    (hc : SilCfg c spt pmin pmax A) (h0 : SilInv c spt pmin pmax A r0) (hco : c.powerClose ≤ c.powerOpen)
    {G K : Nat} (hG : 2 * pmax + 2 * A + 5 / 2 ≤ (G : Rat)) (hK : (1 - r0.pt.bandwidth) ^ K < c.powerClose)
    {xs : List Rat} {e1 : List Event} (hx : FullRx.run r0 xs = some (r1, e1))
    {p : Nat} {h : Header} {a b : List Event}
    (hsom : e1 = a ++ Event.transport p (.message (.ok (.som h))) :: b)
    {n : Nat} (hn1 : 2 * c.dcLen + max 1 c.mark.length + (K + 32) * G + G ≤ n)
    (hn2 : p + Gen.MAX_MESSAGE_DURATION_SECS * c.rate + G ≤ r0.inputCounter + xs.length + n) :
    ∃ r3 e3, FullRx.run r1 (List.replicate n 0) = some (r3, e3) ∧ Idle c r3 ∧
      ∃ e ∈ b ++ e3, C09.Closes e := by
  obtain ⟨r3, e3, er, _, i3, hcl⟩ := som_closed_once_silent (ys := []) (e2 := []) hc h0 hco hG hK hx rfl hsom hn1
    (by simpa using hn2)
  exact ⟨r3, e3, er, i3, by simpa using hcl⟩

/-- the whole input as ONE run: `xs ++ ys ++ zeros`; its event list is `e1 ++ e2 ++ e3` -/
theorem som_closed_one_run {c : RxCfg Rat} {spt pmin pmax A : Rat} {r0 r1 r2 : FullRx Rat}
    (hc : SilCfg c spt pmin pmax A) (h0 : SilInv c spt pmin pmax A r0) (hco : c.powerClose ≤ c.powerOpen)
    {G K : Nat} (hG : 2 * pmax + 2 * A + 5 / 2 ≤ (G : Rat)) (hK : (1 - r0.pt.bandwidth) ^ K < c.powerClose)
    {xs ys : List Rat} {e1 e2 : List Event}
    (hx : FullRx.run r0 xs = some (r1, e1)) (hy : FullRx.run r1 ys = some (r2, e2))
    {p : Nat} {h : Header} {a b : List Event}
    (hsom : e1 = a ++ Event.transport p (.message (.ok (.som h))) :: b)
    {n : Nat} (hn1 : 2 * c.dcLen + max 1 c.mark.length + (K + 32) * G + G ≤ n)
    (hn2 : p + Gen.MAX_MESSAGE_DURATION_SECS * c.rate + G ≤ r0.inputCounter + xs.length + ys.length + n) :
    ∃ r3 rest, FullRx.run r0 (xs ++ ys ++ List.replicate n 0)
        = some (r3, a ++ Event.transport p (.message (.ok (.som h))) :: rest) ∧ Idle c r3 ∧
      ∃ e ∈ rest, C09.Closes e := by
  obtain ⟨r3, e3, er, _, i3, hcl⟩ := som_closed_once_silent hc h0 hco hG hK hx hy hsom hn1 hn2
  refine ⟨r3, b ++ e2 ++ e3, ?_, i3, hcl⟩
  rw [List.append_assoc, run_append, hx]; dsimp only
  rw [run_append, hy]; dsimp only
  rw [er, hsom]
  simp

/-! ## S3 from a freshly built receiver -/

/-- **S3, sharp form.**  A receiver built by `FullRx.new` with `0 ≤ sps`, `agc_min ≤ agc_max`, both
    proportional loop gains bounded by `A`; `G` and `K` in terms of the period limit and squelch
    bandwidth `new` computed.  The sample counter starts at `0`, so (b) reads
    `|xs| + |ys| + n ≥ p + 135 * rate + G`. -/
theorem som_closed_from_new' {cfg : RxCfg Rat} {r0 r1 r2 : FullRx Rat} {A : Rat}
    (hnew : FullRx.new cfg = some r0) (hsps : 0 ≤ cfg.sps) (hagc : cfg.agcMin ≤ cfg.agcMax)
    (hU : cfg.alphaU.abs ≤ A) (hL : cfg.alphaL.abs ≤ A) (hco : cfg.powerClose ≤ cfg.powerOpen)
    {G K : Nat} (hG : 2 * r0.tl.periodMax + 2 * A + 5 / 2 ≤ (G : Rat))
    (hK : (1 - r0.pt.bandwidth) ^ K < cfg.powerClose)
    {xs ys : List Rat} {e1 e2 : List Event}
    (hx : FullRx.run r0 xs = some (r1, e1)) (hy : FullRx.run r1 ys = some (r2, e2))
    {p : Nat} {h : Header} {a b : List Event}
    (hsom : e1 = a ++ Event.transport p (.message (.ok (.som h))) :: b)
    {n : Nat} (hn1 : 2 * cfg.dcLen + max 1 cfg.mark.length + (K + 32) * G + G ≤ n)
    (hn2 : p + Gen.MAX_MESSAGE_DURATION_SECS * cfg.rate + G ≤ xs.length + ys.length + n) :
    ∃ r3 e3, FullRx.run r2 (List.replicate n 0) = some (r3, e3) ∧ Idle cfg r3 ∧
      ∃ e ∈ b ++ e2 ++ e3, C09.Closes e := by
  obtain ⟨hc, hi, _⟩ := inv_new hnew hsps hagc hU hL
  obtain ⟨_, _, _, hcnt, _⟩ := FullRx.new_fields hnew
  obtain ⟨r3, e3, er, _, i3, hcl⟩ := som_closed_once_silent hc hi hco hG hK hx hy hsom hn1
    (by rw [hcnt, Nat.zero_add]; exact hn2)
  exact ⟨r3, e3, er, i3, hcl⟩

omit [Hypot Rat] in
/-- the squelch bandwidth `new` stores is the configured one when that is in `[0, 1]` -/
theorem new_bandwidth {cfg : RxCfg Rat} {r0 : FullRx Rat} (hnew : FullRx.new cfg = some r0)
    (hb0 : 0 ≤ cfg.squelchBw) (hb1 : cfg.squelchBw ≤ 1) : r0.pt.bandwidth = cfg.squelchBw := by
  have hl : 0 < cfg.dcLen := by
    cases hn : cfg.dcLen with
    | zero => rw [(FullRx.new_none_iff cfg).2 hn] at hnew; cases hnew
    | succ n => omega
  obtain ⟨dc, agc, tl, pt, _, _, _, e4, e⟩ := FullRx.new_some (c := cfg) hl
  rw [e] at hnew; cases hnew
  obtain ⟨y, ey, _, _, hy⟩ := clamp_rat (x := cfg.squelchBw) (lo := 0) (hi := 1) (by decide +kernel)
  simp only [PowerTracker.new, rat_zero, rat_one, ey, Option.map_some, Option.some.injEq] at e4
  subst e4
  exact hy hb0 hb1

/-- **S3.**  Hypotheses on the configuration only: `0 ≤ sps`, `agc_min ≤ agc_max`, `|alpha| ≤ A` for
    both loop bandwidths, squelch bandwidth in `[0, 1]` with `(1 - bw) ^ K < power_close ≤ power_open`,
    `G ≥ 2 * sps + 2 * A + 5/2` (`period_max ≤ sps`).  (`0 < dcLen` follows from `new` succeeding.) -/
theorem som_closed_from_new {cfg : RxCfg Rat} {r0 r1 r2 : FullRx Rat} {A : Rat}
    (hnew : FullRx.new cfg = some r0) (hsps : 0 ≤ cfg.sps) (hagc : cfg.agcMin ≤ cfg.agcMax)
    (hU : cfg.alphaU.abs ≤ A) (hL : cfg.alphaL.abs ≤ A)
    (hb0 : 0 ≤ cfg.squelchBw) (hb1 : cfg.squelchBw ≤ 1) (hco : cfg.powerClose ≤ cfg.powerOpen)
    {G K : Nat} (hG : 2 * cfg.sps + 2 * A + 5 / 2 ≤ (G : Rat))
    (hK : (1 - cfg.squelchBw) ^ K < cfg.powerClose)
    {xs ys : List Rat} {e1 e2 : List Event}
    (hx : FullRx.run r0 xs = some (r1, e1)) (hy : FullRx.run r1 ys = some (r2, e2))
    {p : Nat} {h : Header} {a b : List Event}
    (hsom : e1 = a ++ Event.transport p (.message (.ok (.som h))) :: b)
    {n : Nat} (hn1 : 2 * cfg.dcLen + max 1 cfg.mark.length + (K + 32) * G + G ≤ n)
    (hn2 : p + Gen.MAX_MESSAGE_DURATION_SECS * cfg.rate + G ≤ xs.length + ys.length + n) :
    ∃ r3 e3, FullRx.run r2 (List.replicate n 0) = some (r3, e3) ∧ Idle cfg r3 ∧
      ∃ e ∈ b ++ e2 ++ e3, C09.Closes e := by
  obtain ⟨_, _, hpm⟩ := inv_new hnew hsps hagc hU hL
  exact som_closed_from_new' hnew hsps hagc hU hL hco (G := G) (K := K) (by grind)
    (by rw [new_bandwidth hnew hb0 hb1]; exact hK) hx hy hsom hn1 hn2

end Whole

/-! ## S4 non-vacuity -/

section Demo
open SameVerif.FullRxThm

/-- for the examples only: `|a| + |b|` in place of `hypot` (the theorems hold for ANY `Hypot Rat`) -/
local instance demoHypot'' : Hypot Rat := ⟨fun a b => a.abs + b.abs⟩

/-- `demoCfg2` (Thm/FullRx.lean: 8000 Hz, 2 samples per symbol) meets every hypothesis of
    `som_closed_from_new'` with `A = 0`, `G = 5`, `K = 29`: `N0 + (K + 32) * G + G = 314`, the timeout is
    `135 * 8000 = 1080000` samples.  So for ANY audio `xs`, `ys` and ANY StartOfMessage at `p` in the
    events of `xs`: `n ≥ 314` zeros reaching sample `p + 1080005` close it. -/
theorem demo_closes {r0 r1 r2 : FullRx Rat} (hnew : FullRx.new demoCfg2 = some r0)
    {xs ys : List Rat} {e1 e2 : List Event}
    (hx : FullRx.run r0 xs = some (r1, e1)) (hy : FullRx.run r1 ys = some (r2, e2))
    {p : Nat} {h : Header} {a b : List Event}
    (hsom : e1 = a ++ Event.transport p (.message (.ok (.som h))) :: b)
    {n : Nat} (hn1 : 314 ≤ n) (hn2 : p + 1080005 ≤ xs.length + ys.length + n) :
    ∃ r3 e3, FullRx.run r2 (List.replicate n 0) = some (r3, e3) ∧ Idle demoCfg2 r3 ∧
      ∃ e ∈ b ++ e2 ++ e3, C09.Closes e := by
  obtain ⟨r0', h0', _, _, hG, hb⟩ := demo_hyps
  rw [hnew] at h0'; cases h0'
  exact som_closed_from_new' (A := 0) (G := 5) (K := 29) hnew (by decide +kernel) (by decide +kernel)
    (by decide +kernel) (by decide +kernel) (by decide +kernel) hG (by rw [hb]; decide +kernel)
    hx hy hsom hn1 hn2

/-- the hypotheses on the runs are satisfiable too: the receiver exists and NO audio makes it panic
    (`run_keeps_inv`), so `hx`, `hy` hold for every `xs`, `ys` with the events the runs produce -/
example (xs ys : List Rat) : ∃ r0 r1 r2 e1 e2, FullRx.new demoCfg2 = some r0 ∧
    FullRx.run r0 xs = some (r1, e1) ∧ FullRx.run r1 ys = some (r2, e2) := by
  obtain ⟨r0, h0, hc, hi, _, _⟩ := demo_hyps
  obtain ⟨r1, e1, hx, h1⟩ := run_keeps_inv hc hi xs
  obtain ⟨r2, e2, hy, _⟩ := run_keeps_inv hc h1 ys
  exact ⟨r0, r1, r2, e1, e2, h0, hx, hy⟩

/-- S1 on the demo receiver, by the general theorem: after the demo signal (97 samples, the link
    synchronised), 1000 zeros contain a `NoCarrier` tick stamped beyond sample 900 -/
example : ∃ r0 r1 ev r2 tr stamp sym, FullRx.new demoCfg2 = some r0 ∧ FullRx.run r0 demoSig = some (r1, ev) ∧
    FullRx.trace r1 (List.replicate 1000 0) = some (r2, tr) ∧
    (stamp, sym, LinkSt.noCarrier) ∈ stampedTicks demoCfg2.lcfg r1.link tr ∧ 900 < stamp := by
  obtain ⟨r0, h0, hc, hi, hG, hb⟩ := demo_hyps
  obtain ⟨r1, tr1, e1, h1⟩ := trace_total hc demoSig r0 hi
  obtain ⟨ev, er, _⟩ := trace_run e1
  have hb1 := trace_bw hc _ r0 hi r1 tr1 e1
  have hcnt := (FullRxThm.run_timestamps er).1
  obtain ⟨r2, tr, e2, _, _, stamp, sym, hm, hT⟩ := noCarrier_tick_after (K := 29) (n := 1000) hc h1
    (by decide +kernel) hG (by rw [hb1, hb]; decide +kernel) 900 (by decide) (by omega)
  exact ⟨r0, r1, ev, r2, tr, stamp, sym, h0, er, e2, hm, hT⟩

/-- the conclusion is not vacuous: `closed_after_event` on C09's concrete run (rate 1 sample/s, timeout
    135 samples).  The StartOfMessage is released at sample 10; one `NoCarrier` tick at 100 (`mid`) and
    the late one at 146 > 10 + 135: the events after the StartOfMessage are `idle` at 100 — which closes
    nothing — and the forced EndOfMessage at 146, which is the closing event. -/
example :
    (rRun 1 C09.st0 [(10, 5, .noCarrier)]).2 = [] ++ Event.transport 10 (.message (.ok (.som C09.hdr0))) :: [] ∧
    [] ++ (rRun 1 (rRun 1 C09.st0 [(10, 5, .noCarrier)]).1 ([(100, 6, .noCarrier)] ++ [(146, 7, .noCarrier)])).2
      = [Event.transport 100 .idle, Event.transport 146 (.message (.ok .eom))] ∧
    (∃ e ∈ [] ++ (rRun 1 (rRun 1 C09.st0 [(10, 5, .noCarrier)]).1
        ([(100, 6, .noCarrier)] ++ [(146, 7, .noCarrier)])).2, C09.Closes e) ∧
    ¬ C09.Closes (Event.transport 100 .idle) := by
  refine ⟨rfl, rfl, ?_, ?_⟩
  · exact closed_after_event 1 C09.st0 [(10, 5, .noCarrier)] [(100, 6, .noCarrier)] [] [] 10 C09.hdr0 146 7 rfl
      (by decide)
  · rintro ⟨smp, h | ⟨h, h'⟩⟩ <;> cases h <;> try cases h'

/-- … and the late `NoCarrier` tick is needed: the same run cut before it (ticks up to sample 135, the
    last instant at which the timer does not fire) has no closing event after the StartOfMessage -/
example : ∀ e ∈ (rRun 1 (rRun 1 C09.st0 [(10, 5, .noCarrier)]).1 [(100, 6, .noCarrier), (145, 7, .noCarrier)]).2,
    ¬ C09.Closes e := by
  intro e he
  have : (rRun 1 (rRun 1 C09.st0 [(10, 5, .noCarrier)]).1 [(100, 6, .noCarrier), (145, 7, .noCarrier)]).2
      = [Event.transport 100 .idle] := rfl
  rw [this, List.mem_singleton] at he
  subst he
  rintro ⟨smp, h | ⟨h, h'⟩⟩ <;> cases h <;> try cases h'

end Demo

end SameVerif.SilenceClosesThm
