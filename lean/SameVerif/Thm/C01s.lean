import SameVerif.Lemmas.StreamLink
import SameVerif.Spec.FrontEndCheck
/-
  C01 at the link layer, on the realistic front-end assumptions in OBSERVATIONAL form:
  a whole tick stream, processed from the initial link state `{}`.

  `Spec.StreamObserved maxErr stream segs` is a decidable condition on the tick stream alone (no
  model state in it): per burst the clauses of `Spec.BurstObserved'` at global indices, bursts in
  order, and — outside the synchronised stretches — every tick has the open threshold not met or
  its 32-bit correlator window more than `maxErr` from the sync word.  It is exactly what
  `Spec.streamObservedB` (`Spec/FrontEndCheck.lean`) evaluates on a tapped real run.

  * `stream_segments` : it implies the state-based hypotheses (`BurstObserved'`, `NoFalseHits`) of
    `C01r.burst_delivered` for every burst, each entered in the state the model is really in;
  * `stream_bursts`   : hence the link model reports exactly the bursts `payload_k ++ t_k`, in
    order, `|t_k| ≤ ⌈rel_k / 8⌉`, and nothing else over the whole stream.
-/
namespace SameVerif.C01s
open SameVerif SameVerif.Spec SameVerif.Chain

/-- **From the stream to the model's hypotheses.**  The bursts cut out of the stream as segments
    (`segsOf`: lead-in from tick 0 resp. from the end of the previous minimal tail) satisfy the
    state-based assumptions one after the other from the initial state; they tile the stream up to
    `lastStop`; what follows is a stretch without possible hits. -/
theorem stream_segments (c : LCfg) (stream : List Tick) (segs : List BurstSpec)
    (hobs : StreamObserved c.maxErrors stream segs) (hpc : ∀ g ∈ segs, PayloadCond c g.payload) :
    SegsOk c {} (segsOf stream 0 segs)
      ∧ stream.take (lastStop 0 segs) = (segsOf stream 0 segs).flatMap (fun p => p.2.ticks)
      ∧ lastStop 0 segs ≤ stream.length
      ∧ QuietNoHit c (lrunState c {} (stream.take (lastStop 0 segs))) (stream.drop (lastStop 0 segs)) := by
  obtain ⟨h1, h2, h3⟩ := hobs
  have hq := quietOutside_of_global c.maxErrors _ _ segs h1 h3 segs [] 0 rfl
    (by intro g hg; cases hg) (ordered_mono segs 32 0 (by omega) h2)
  have hlb := ordered_lb segs 32 h2
  obtain ⟨s1, s2, _, s4, s5⟩ := segsOk_of_stream c stream segs 0
    (fun g hg => ⟨h1 g hg, hpc g hg, hlb g hg⟩) (ordered_mono segs 32 0 (by omega) h2) (by omega) hq
  refine ⟨s1, ?_, s4, quiet_rest c stream _ s4 s5⟩
  rw [s2]; rfl

theorem forall2_segsOf {R : BurstSpec → List Byte → Prop} {R' : List Byte × Seg → List Byte → Prop}
    (stream : List Tick) (hR : ∀ a g b, R' (g.payload, segOf stream a g) b → R g b) :
    ∀ (segs : List BurstSpec) (a : Nat) (bs : List (List Byte)),
      Forall₂ R' (segsOf stream a segs) bs → Forall₂ R segs bs := by
  intro segs
  induction segs with
  | nil => intro a bs h; cases h; exact .nil
  | cons g gs ih =>
    intro a bs h
    cases h with
    | cons hr ht => exact .cons (hR a g _ hr) (ih _ _ ht)

/-- **C01, link layer, whole stream.**  If the tick stream meets `StreamObserved` for the bursts
    `segs` (with the model's own sync budget), then the link model, started in its initial state,
    reports over the whole stream exactly one burst per element of `segs`, in order: the payload
    followed by at most `⌈rel / 8⌉` bytes; at the end it is unsynchronised and idle. -/
theorem stream_bursts (c : LCfg) (hE : c.maxErrors ≤ 6) (hP : c.fc.maxPrefixErr ≤ 7)
    (stream : List Tick) (segs : List BurstSpec)
    (hobs : StreamObserved c.maxErrors stream segs) (hpc : ∀ g ∈ segs, PayloadCond c g.payload) :
    Forall₂ (fun g b => ∃ t, b = g.payload ++ t ∧ t.length ≤ (g.rel + 7) / 8) segs
        (lrunBursts c {} stream)
      ∧ Ready (lrunState c {} stream) := by
  obtain ⟨s1, s2, _, s4⟩ := stream_segments c stream segs hobs hpc
  obtain ⟨d1, d2⟩ := segments_delivered_r c hE hP _ {} ready_init s1
  rw [s2] at s4
  obtain ⟨_, q2, q3⟩ := quiet_run c _ _ d2 s4
  have hsplit : stream = (segsOf stream 0 segs).flatMap (fun p => p.2.ticks)
      ++ stream.drop (lastStop 0 segs) := by
    rw [← s2, List.take_append_drop]
  constructor
  · rw [hsplit, lrunBursts_append, q2, List.append_nil]
    exact forall2_segsOf stream (fun a g b h => h) segs 0 _ d1
  · rw [hsplit, lrunState_append]
    exact q3

/-- the number of bursts reported is the number of bursts observed -/
theorem stream_burst_count (c : LCfg) (hE : c.maxErrors ≤ 6) (hP : c.fc.maxPrefixErr ≤ 7)
    (stream : List Tick) (segs : List BurstSpec)
    (hobs : StreamObserved c.maxErrors stream segs) (hpc : ∀ g ∈ segs, PayloadCond c g.payload) :
    (lrunBursts c {} stream).length = segs.length := by
  have h := (stream_bursts c hE hP stream segs hobs hpc).1
  generalize lrunBursts c {} stream = bs at h
  clear hobs hpc
  induction h with
  | nil => rfl
  | cons _ _ ih => simp [ih]

/-- **a `sat` verdict of the driver's check is the hypothesis**: if `Spec.streamObservedB` — what
    the driver evaluates on the tapped tick array for its verdict `fe_all=sat` — returns `true`
    for the positions `segs`, the link model delivers exactly those bursts over that very stream -/
theorem checked_stream_bursts (c : LCfg) (hE : c.maxErrors ≤ 6) (hP : c.fc.maxPrefixErr ≤ 7)
    (ticks : Array Tick) (segs : List BurstSpec)
    (hchk : streamObservedB c.maxErrors ticks segs = true)
    (hpc : ∀ g ∈ segs, PayloadCond c g.payload) :
    Forall₂ (fun g b => ∃ t, b = g.payload ++ t ∧ t.length ≤ (g.rel + 7) / 8) segs
        (lrunBursts c {} ticks.toList)
      ∧ Ready (lrunState c {} ticks.toList) :=
  stream_bursts c hE hP ticks.toList segs (streamObservedB_sound _ _ _ hchk) hpc

end SameVerif.C01s
