import SameVerif.Lemmas.AssemblerInv
/-
  C05 — Duplicate suppression: an identical message is reported once per window.
  Property theorems about the assembler model (ticks = symbol-synchronizer outputs);
  helper lemmas live in Lemmas/AssemblerSteps.lean and Lemmas/AssemblerInv.lean.
-/
namespace SameVerif.C05
open SameVerif SameVerif.C08 SameVerif.Asm

/-! ### 1. the burst history is bounded -/

/-- every history entry is due no later than `T + HIST` -/
def HistBound (s : AState) (T : Nat) : Prop := ∀ e ∈ s.history, e.deadline ≤ T + HIST

theorem histBound_init (T : Nat) : HistBound {} T := by
  intro e he; simp at he

/-- **History bounded.**  After any operation the history holds at most two bursts, none of them
    expired, and (if this was so at an earlier time `T`) none due later than `now + HIST`. -/
theorem history_bounded (s : AState) (op : AOp) :
    (stepOp s op).1.history.length ≤ 2
      ∧ (∀ e ∈ (stepOp s op).1.history, op.time < e.deadline)
      ∧ (∀ T, T ≤ op.time → HistBound s T → HistBound (stepOp s op).1 op.time) := by
  simp only [stepOp_eq, idle_history]
  refine ⟨pruneHistory_length_le _ _, fun e he => (mem_pruneHistory _ _ _ he).2, ?_⟩
  intro T hT hs e he
  rw [idle_history] at he
  have he' := (mem_pruneHistory _ _ _ he).1
  have hold : e ∈ s.history → e.deadline ≤ op.time + HIST := fun h => by
    have := hs e h; omega
  cases op with
  | poll t => exact hold he'
  | burst b now =>
    by_cases hb : b.isEmpty = true
    · rw [preIdle_burst_empty _ _ _ hb] at he'; exact hold he'
    · rw [preIdle_burst _ _ _ (by simpa using hb)] at he'
      simp only [historyAfter, List.mem_append, List.mem_singleton] at he'
      rcases he' with h | h
      · exact hold (mem_pruneHistory _ _ _ h).1
      · subst h; simp [AOp.time]

/-- over a whole run: the final history holds at most two bursts -/
theorem history_bounded_run (ops : List AOp) :
    ∀ s : AState, s.history.length ≤ 2 → (runOps s ops).1.history.length ≤ 2 := by
  induction ops with
  | nil => intro s h; exact h
  | cons op ops ih =>
    intro s _
    exact ih _ (history_bounded s op).1

/-- the time of the last operation (`T` if there is none) -/
def endTime (T : Nat) : List AOp → Nat
  | [] => T
  | op :: ops => endTime op.time ops

/-- over a whole run with non-decreasing times: at the end every stored burst is due within
    `HIST` ticks of the last operation -/
theorem history_window_run (ops : List AOp) :
    ∀ (s : AState) (T : Nat), Sorted ops → (∀ op ∈ ops, T ≤ op.time) → HistBound s T →
      HistBound (runOps s ops).1 (endTime T ops) := by
  induction ops with
  | nil => intro s T _ _ h; exact h
  | cons op ops ih =>
    intro s T hsort hT h
    have hp := List.pairwise_cons.mp hsort
    exact ih (stepOp s op).1 op.time hp.2 hp.1
      ((history_bounded s op).2.2 T (hT op (by simp)) h)

/-! ### 2. the duplicate-suppression invariant and the window -/

theorem dedupInv_init : DedupInv {} := by
  intro t h p hp; simp at hp

theorem dedupInv_aIdle (s : AState) (now : Nat) (h : DedupInv s) : DedupInv (aIdle s now).1 :=
  dedupInv_idle s now h

theorem dedupInv_step (s : AState) (op : AOp) (h : DedupInv s) : DedupInv (stepOp s op).1 := by
  rw [stepOp_eq]
  exact dedupInv_idle _ _ (dedupInv_preIdle s op h)

theorem dedupInv_aAssemble (s : AState) (burst : List Byte) (now : Nat) (h : DedupInv s) :
    DedupInv (aAssemble s burst now).1 :=
  dedupInv_step s (.burst burst now) h

theorem noEomPending_step (s : AState) (op : AOp) (h : NoEomPending s) :
    NoEomPending (stepOp s op).1 := by
  cases op with
  | poll t => exact noEomPending_idle s t h
  | burst b t => exact noEomPending_assemble s b t h

/-- **The window is respected.**  In a state satisfying the invariants, an operation at time `now`
    that outputs a decoded message with the same text as the previously reported one does so only
    when that entry's deadline has passed. -/
theorem dedup_window (s : AState) (op : AOp) (m : Msg) (p : Timed Msg)
    (hinv : DedupInv s) (hne : NoEomPending s)
    (hout : (stepOp s op).2 = .message (.ok m))
    (hprev : s.previous = some p) (htext : p.data.text = m.text) :
    p.deadline ≤ op.time := by
  rw [stepOp_eq] at hout
  obtain ⟨t, hp, hd, hdat, _⟩ := idle_out_ok _ _ _ hout
  cases m with
  | eom =>
    obtain ⟨b, now, rfl, _, hest, _⟩ := preIdle_eom_pending s op hne t hp hdat
    simp only [AOp.time]
    unfold estimateOf at hest
    rcases prunePrevious_cases s.previous now with ⟨_, hx⟩ | ⟨hk, _⟩
    · exact hx p hprev
    · rw [hk] at hest
      exact absurd htext (dedup_ok_text _ _ _ hest p hprev)
  | som h =>
    -- the invariant travels through `preIdle`; `previous` there is `s.previous` or pruned
    have hinv' := dedupInv_preIdle s op hinv
    have hpre : (preIdle s op).previous = some p ∨ p.deadline ≤ op.time := by
      cases op with
      | poll u => left; exact hprev
      | burst b now =>
        by_cases hb : b.isEmpty = true
        · left; rw [preIdle_burst_empty _ _ _ hb]; exact hprev
        · rw [preIdle_burst _ _ _ (by simpa using hb)]
          simp only [AOp.time]
          rcases prunePrevious_cases s.previous now with ⟨_, hx⟩ | ⟨hk, _⟩
          · right; exact hx p hprev
          · left; rw [hk]; exact hprev
    rcases hpre with hpre | hpre
    · have := hinv' t h p hp hdat hpre htext
      omega
    · exact hpre

/-- **The window is measured from the report and is exactly `HIST` ticks.** -/
theorem previous_deadline (s : AState) (op : AOp) (m : Msg)
    (hout : (stepOp s op).2 = .message (.ok m)) :
    (stepOp s op).1.previous = some ⟨m, op.time + HIST⟩ := by
  rw [stepOp_eq] at hout ⊢
  obtain ⟨_, _, _, _, he⟩ := idle_out_ok _ _ _ hout
  rw [he]

/-- what a run remembers about its latest decoded report `(t1, m1)`: either it is still in
    `previous` with deadline `t1 + HIST`, or that deadline has passed -/
def LastInv (s : AState) (last : Option (Nat × Msg)) (T : Nat) : Prop :=
  ∀ a, last = some a → s.previous = some ⟨a.2, a.1 + HIST⟩ ∨ a.1 + HIST ≤ T

/-- the run theorem, for any start state satisfying the invariants -/
theorem run_spaced (ops : List AOp) :
    ∀ (s : AState) (T : Nat) (last : Option (Nat × Msg)), Sorted ops → (∀ op ∈ ops, T ≤ op.time) →
      DedupInv s → NoEomPending s → LastInv s last T →
      Spaced (last.toList ++ okOutputs (runOps s ops).2) := by
  induction ops with
  | nil =>
    intro s T last _ _ _ _ _
    cases last <;> simp [runOps, okOutputs, Spaced]
  | cons op ops ih =>
    intro s T last hsort hT hinv hne hlast
    have hsort' : Sorted ops := (List.pairwise_cons.mp hsort).2
    have hle : ∀ op' ∈ ops, op.time ≤ op'.time := (List.pairwise_cons.mp hsort).1
    have hTop : T ≤ op.time := hT op (by simp)
    have hinv' := dedupInv_step s op hinv
    have hne' := noEomPending_step s op hne
    simp only [runOps]
    cases htr : (stepOp s op).2 with
    | message r =>
      cases r with
      | ok m =>
        have hprev' := previous_deadline s op m htr
        have hlast' : LastInv (stepOp s op).1 (some (op.time, m)) op.time := by
          intro a ha; cases ha; left; exact hprev'
        have hrest := ih (stepOp s op).1 op.time (some (op.time, m)) hsort' hle hinv' hne' hlast'
        simp only [outOf, List.cons_append, List.nil_append, okOutputs]
        cases last with
        | none => exact hrest
        | some a =>
          refine ⟨?_, hrest⟩
          intro b hb htext
          have hb : (op.time, m) = b := by simpa using hb
          subst hb
          rcases hlast a rfl with hp | hp
          · exact dedup_window s op m _ hinv hne htr hp htext
          · simp only; omega
      | error e =>
        have hq : ∀ m, (stepOp s op).2 ≠ .message (.ok m) := by intro m; rw [htr]; simp
        have hlast' : LastInv (stepOp s op).1 last op.time := by
          intro a ha
          rcases hlast a ha with hp | hp
          · exact previous_step_quiet s op hq _ hp
          · right; omega
        have hrest := ih (stepOp s op).1 op.time last hsort' hle hinv' hne' hlast'
        simpa [outOf, okOutputs] using hrest
    | idle =>
      have hq : ∀ m, (stepOp s op).2 ≠ .message (.ok m) := by intro m; rw [htr]; simp
      have hlast' : LastInv (stepOp s op).1 last op.time := by
        intro a ha
        rcases hlast a ha with hp | hp
        · exact previous_step_quiet s op hq _ hp
        · right; omega
      have hrest := ih (stepOp s op).1 op.time last hsort' hle hinv' hne' hlast'
      simpa [outOf, okOutputs] using hrest
    | assembling =>
      have hq : ∀ m, (stepOp s op).2 ≠ .message (.ok m) := by intro m; rw [htr]; simp
      have hlast' : LastInv (stepOp s op).1 last op.time := by
        intro a ha
        rcases hlast a ha with hp | hp
        · exact previous_step_quiet s op hq _ hp
        · right; omega
      have hrest := ih (stepOp s op).1 op.time last hsort' hle hinv' hne' hlast'
      simpa [outOf, okOutputs] using hrest

/-- **Once per window, over whole runs.**  Run any operations with non-decreasing times from the
    initial state.  If two consecutive decoded reports (no other decoded message between them)
    carry the same text, the second comes at least `HIST` ticks after the first. -/
theorem dedup_window_run (ops : List AOp) (hsort : Sorted ops)
    (pre post : List (Nat × Msg)) (t1 t2 : Nat) (m1 m2 : Msg)
    (hout : okOutputs (runOps {} ops).2 = pre ++ (t1, m1) :: (t2, m2) :: post)
    (htext : m1.text = m2.text) : t1 + HIST ≤ t2 := by
  have h : Spaced (okOutputs (runOps {} ops).2) := by
    simpa using run_spaced ops {} 0 none hsort (fun _ _ => Nat.zero_le _) dedupInv_init
      noEomPending_init (by intro a ha; cases ha)
  rw [hout] at h
  exact spaced_append pre post (t1, m1) (t2, m2) h htext

/-! ### 3. after the window the same message is accepted again -/

/-- **Re-report.**  Nothing pending, the previous report absent or expired, and the bursts in the
    history (with the new one) combine to a message: an EndOfMessage is output by this very call,
    a StartOfMessage is pending with deadline `now + HOLD`. -/
theorem rereport (s : AState) (burst : List Byte) (now : Nat) (m : Msg)
    (hb : burst.isEmpty = false) (hp : s.pending = none)
    (hprev : ∀ p, s.previous = some p → p.deadline ≤ now)
    (hc : combine MAXLEN ((historyAfter s burst now).map (·.data)) = some (.ok m)) :
    (m = .eom ∧ (aAssemble s burst now).2 = .message (.ok .eom)
        ∧ (aAssemble s burst now).1.previous = some ⟨.eom, now + HIST⟩)
      ∨ ((∃ h, m = .som h) ∧ (aAssemble s burst now).1.pending = some ⟨.ok m, now + HOLD⟩
        ∧ ∀ r, (aAssemble s burst now).2 ≠ .message r) := by
  have hpp : prunePrevious s.previous now = none := by
    rcases prunePrevious_cases s.previous now with ⟨h, _⟩ | ⟨_, q, hq, hlt⟩
    · exact h
    · have := hprev q hq; omega
  have hest : estimateOf s burst now = some (.ok m) := by
    unfold estimateOf; rw [hpp, hc, dedup_none_prev]
  have hpa : pendingAfter s burst now = some (acceptNew (.ok m) now) := by
    unfold pendingAfter; rw [hest]; simp only [hp, accept]
  have hstep : aAssemble s burst now = aIdle (preIdle s (.burst burst now)) now :=
    stepOp_eq s (.burst burst now)
  rw [hstep, preIdle_burst _ _ _ hb, hpa]
  cases m with
  | eom =>
    left
    refine ⟨rfl, ?_⟩
    rw [idle_of_due_ok _ ⟨.ok .eom, now⟩ .eom now rfl rfl (Nat.le_refl _)]
    exact ⟨rfl, rfl⟩
  | som h =>
    right
    refine ⟨⟨h, rfl⟩, ?_⟩
    have := idle_of_not_due
      { history := historyAfter s burst now, pending := some (acceptNew (.ok (.som h)) now),
        previous := prunePrevious s.previous now }
      ⟨.ok (.som h), now + HOLD⟩ now rfl (by have := HOLD_pos; simp only; omega)
    rw [this.1]
    exact ⟨rfl, this.2⟩

/-! ### 4. F5: one trailer can be reported twice -/

/-- **Counterexample (F5).**  Three identical trailer bursts 705 ticks apart, then any burst
    `HIST + 5` ticks after the second one: EndOfMessage is output twice, at 100 and at 6215.
    The duplicate filter is timed from the report (burst 1), yet bursts 2 and 3 stay in the
    history until `805 + HIST` and `1510 + HIST`. -/
theorem eom_twice_counterexample :
    (runOps {} [.burst litNNNN 100, .burst litNNNN 805, .burst litNNNN 1510, .burst [90, 67] 6215]).2
      = [(100, .ok .eom), (6215, .ok .eom)] := by
  decide +kernel

/-- the operations of the counterexample are in time order (and only 6115 ticks ≈ 11.7 s long) -/
theorem eom_twice_counterexample_sorted :
    Sorted [.burst litNNNN 100, .burst litNNNN 805, .burst litNNNN 1510, .burst [90, 67] 6215] := by
  unfold Sorted
  decide

/-- **What does hold.**  Let the previous report be an EndOfMessage with deadline `d`, and let every
    burst in the history be due by `D`.  A burst that ends outside `[d, D)` makes the assembler
    output EndOfMessage only if `D ≤ now` and that burst *alone* reads as an EndOfMessage — it
    belongs to a new transmission. -/
theorem eom_once_partial (s : AState) (burst : List Byte) (now d D : Nat)
    (hne : NoEomPending s)
    (hprev : s.previous = some ⟨.eom, d⟩) (hhist : ∀ e ∈ s.history, e.deadline ≤ D)
    (hgap : now < d ∨ D ≤ now)
    (hout : (aAssemble s burst now).2 = .message (.ok .eom)) :
    D ≤ now ∧ combine MAXLEN [burst.take MAXLEN] = some (.ok .eom) := by
  have hstep : aAssemble s burst now = aIdle (preIdle s (.burst burst now)) now :=
    stepOp_eq s (.burst burst now)
  rw [hstep] at hout
  obtain ⟨t, hp, _, hdat, _⟩ := idle_out_ok _ _ _ hout
  obtain ⟨b, now', hop, _, hest, _⟩ := preIdle_eom_pending s _ hne t hp hdat
  cases hop
  unfold estimateOf at hest
  rcases prunePrevious_cases s.previous now with ⟨_, hx⟩ | ⟨hk, _⟩
  · have hd : d ≤ now := hx _ hprev
    have hD : D ≤ now := by omega
    refine ⟨hD, ?_⟩
    have := dedup_some _ _ _ hest
    rw [historyAfter, pruneHistory_expired _ _ (fun e he => by have := hhist e he; omega)] at this
    simpa using this
  · rw [hk] at hest
    exact absurd rfl (dedup_ok_text _ _ _ hest _ hprev)

/-- a poll never outputs an EndOfMessage (trailers are output by the call that accepts them) -/
theorem poll_never_eom (s : AState) (now : Nat) (hne : NoEomPending s) :
    (aIdle s now).2 ≠ .message (.ok .eom) := by
  intro h
  obtain ⟨t, hp, _, hdat, _⟩ := idle_out_ok _ _ _ h
  exact hne t hp hdat

end SameVerif.C05
