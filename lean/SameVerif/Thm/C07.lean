import SameVerif.Model.FramerRun
/-
  C07 — Bursts are byte-aligned to the transmission start and end where data ends.
  (first instalment; the refinement theorem against Spec/Frame.lean follows)
-/
namespace SameVerif.C07
open SameVerif

/-- an idle framer ignores everything until the next start: no burst without a start -/
theorem idle_absorbs (c : FCfg) (bs : List Byte) : ∀ ls ∈ feed c .idle bs, ls = .noCarrier := by
  induction bs with
  | nil => intro ls h; simp [feed] at h
  | cons b bs ih =>
    intro ls h
    simp only [feed, finputNR, List.mem_cons] at h
    rcases h with h | h
    · exact h
    · exact ih ls h

/-- a burst interrupted by a re-synchronisation is emitted, not lost, and the framer restarts cleanly -/
theorem restart_from_read (c : FCfg) (msg : List Byte) (inv : Nat) (b : Byte) :
    (finput c (.read msg inv) b true).2 = .burst msg
      ∧ (finput c (.read msg inv) b true).1 = (finput c .idle b true).1 := by
  simp [finput, fend]

/-- while reading, received bytes are appended unchanged and in order -/
theorem read_appends (c : FCfg) (msg : List Byte) (inv : Nat) (b : Byte) (msg' : List Byte) (inv' : Nat)
    (h : (finputNR c (.read msg inv) b).1 = .read msg' inv') : msg' = msg ++ [b] := by
  simp only [finputNR] at h
  split at h <;> split at h <;> simp_all

/-- a burst emitted while reading is exactly what was accumulated: nothing rewritten at the end -/
theorem burst_is_accumulated (c : FCfg) (msg : List Byte) (inv : Nat) (b : Byte) (out : List Byte)
    (h : (finputNR c (.read msg inv) b).2 = .burst out) : out = msg := by
  simp only [finputNR] at h
  split at h <;> split at h <;> simp_all

end SameVerif.C07
