import SameVerif.Lemmas.FrameSpecFacts
/-
  C07 — Framing of one start: after a (re)start the framer searches at most
  `PREFIX_SEARCH_LEN + 1` bytes for a `ZCZC`/`NNNN` window within the prefix error budget, then
  reads data bytes verbatim until the invalid-byte budget is exceeded or the burst holds
  `MAX_BURST_LENGTH` bytes, reports the burst exactly once, and drops the carrier.

  The model (`Model/Framer.lean`, run by `Model/FramerRun.lean`) is shown equal, byte for byte and
  for every stream, to the index-based specification `Spec/Frame.lean`; the remaining theorems
  are readable consequences.  "Not a `.read` state" is written out as
  `s0 = .idle ∨ ∃ w n, s0 = .search w n`.
-/
namespace SameVerif.C07
open SameVerif SameVerif.Spec

/-- **Refinement.**  A framer restarted (from any state that is not `.read`) at the first byte of
    `bs` and then fed the rest reports exactly the specified link state for every byte. -/
theorem framer_refines_spec (c : FCfg) (s0 : FState) (bs : List Byte)
    (h0 : s0 = .idle ∨ ∃ w n, s0 = .search w n) :
    feedStart c s0 bs = Spec.specStates c.maxPrefixErr c.maxInvalid bs := by
  apply List.ext_getElem
  · rw [feedStart_length, specStates_length]
  · intro i h1 h2
    have hi : i < bs.length := by rw [feedStart_length] at h1; exact h1
    rw [specStates_getElem _ _ _ _ hi]
    cases i with
    | zero => rw [feedStart_getElem_zero c s0 bs h0 hi, linkAt_one]
    | succ i => exact feedStart_getElem_pos c s0 bs (i + 1) hi (by omega)

/-- **A restart forgets.**  Whatever state the framer was in (including `.read`), everything it
    reports after the restart byte itself is the same. -/
theorem restart_forgets (c : FCfg) (s0 s0' : FState) (bs : List Byte) :
    (feedStart c s0 bs).tail = (feedStart c s0' bs).tail := by
  cases bs with
  | nil => rfl
  | cons b bs => simp only [feedStart, List.tail_cons, finput_restart_state]

/-- **Bytes in order.**  A reported burst is the matched 4-byte window exactly as received,
    followed by the `j` bytes that followed it in the stream (all of them present), in order:
    nothing dropped, inserted or rewritten.  `k0` is the spec's start index. -/
theorem bytes_in_order (c : FCfg) (s0 : FState) (bs : List Byte)
    (h0 : s0 = .idle ∨ ∃ w n, s0 = .search w n) (b : List Byte)
    (hb : .burst b ∈ feedStart c s0 bs) :
    ∃ k0 j, Spec.startIndex c.maxPrefixErr bs = some k0 ∧ k0 + j < bs.length
      ∧ b = Spec.windowAt bs k0 ++ (bs.drop k0).take j := by
  obtain ⟨i, hi, hl⟩ := burst_mem c s0 bs h0 b hb
  obtain ⟨k0, je, hs, he, hije, rfl⟩ := linkAt_burst hl
  have e1 := (endIndex_some he).1
  exact ⟨k0, je - 1, hs, by omega, rfl⟩

/-- **One burst per start.**  At most one burst is reported, and every byte after the one that
    reported it reports `noCarrier`. -/
theorem one_burst_per_start (c : FCfg) (s0 : FState) (bs : List Byte)
    (h0 : s0 = .idle ∨ ∃ w n, s0 = .search w n) :
    ((feedStart c s0 bs).filter LinkSt.isBurst).length ≤ 1
      ∧ ∀ i j b, (feedStart c s0 bs)[i]? = some (.burst b) → i < j → j < bs.length →
          (feedStart c s0 bs)[j]? = some .noCarrier := by
  constructor
  · apply filter_length_le_one
    intro i j hi hj hij hp
    cases hb : (feedStart c s0 bs)[i] with
    | burst b => rw [after_burst c s0 bs h0 i j b hi hj hij hb]; rfl
    | noCarrier => rw [hb] at hp; cases hp
    | searching => rw [hb] at hp; cases hp
    | reading => rw [hb] at hp; cases hp
  · intro i j b hb hij hj
    obtain ⟨hi, hb⟩ := List.getElem?_eq_some_iff.mp hb
    have hj' : j < (feedStart c s0 bs).length := by rw [feedStart_length]; exact hj
    rw [List.getElem?_eq_getElem hj', after_burst c s0 bs h0 i j b hi hj' hij hb]

/-- **Give up.**  If no window within the prefix budget occurs in the first
    `PREFIX_SEARCH_LEN + 1` bytes, no burst is ever reported and the carrier is dropped from
    byte number `PREFIX_SEARCH_LEN + 1` (0-based index `PREFIX_SEARCH_LEN`) on. -/
theorem give_up (c : FCfg) (s0 : FState) (bs : List Byte)
    (h0 : s0 = .idle ∨ ∃ w n, s0 = .search w n)
    (hnone : Spec.startIndex c.maxPrefixErr bs = none) :
    (∀ b, .burst b ∉ feedStart c s0 bs)
      ∧ ∀ i, Gen.PREFIX_SEARCH_LEN ≤ i → i < bs.length →
          (feedStart c s0 bs)[i]? = some .noCarrier := by
  constructor
  · intro b hb
    obtain ⟨i, hi, hl⟩ := burst_mem c s0 bs h0 b hb
    obtain ⟨k0, je, hs, _⟩ := linkAt_burst hl
    rw [hnone] at hs; cases hs
  · intro i h1 h2
    have hp := prefix_search_pos
    have h2' : i < (feedStart c s0 bs).length := by rw [feedStart_length]; exact h2
    rw [List.getElem?_eq_getElem h2', feedStart_getElem_pos c s0 bs i h2 (by omega),
      linkAt_none hnone, if_neg (by omega)]

/-- **Burst length.**  Every burst reported by a start holds at most `MAX_BURST_LENGTH` bytes —
    for every previous state `s0`, provided a burst already open in `s0` respects the bound
    (which `read_length_invariant` below shows every reachable state does). -/
theorem burst_length_bounded (c : FCfg) (s0 : FState) (bs : List Byte)
    (h0 : ∀ msg inv, s0 = .read msg inv → msg.length ≤ Gen.MAX_BURST_LENGTH) (b : List Byte)
    (hb : .burst b ∈ feedStart c s0 bs) : b.length ≤ Gen.MAX_BURST_LENGTH := by
  obtain ⟨i, hi, hib⟩ := List.getElem_of_mem hb
  have hi' : i < bs.length := by rw [feedStart_length] at hi; exact hi
  cases i with
  | zero =>
    cases bs with
    | nil => simp at hi'
    | cons x xs =>
      cases s0 with
      | idle => simp [feedStart, finput, fend] at hib
      | search w n => simp [feedStart, finput, fend] at hib
      | read msg inv =>
        simp [feedStart, finput, fend] at hib
        subst hib
        exact h0 _ _ rfl
  | succ i =>
    rw [feedStart_getElem_pos c s0 bs (i + 1) hi' (by omega)] at hib
    obtain ⟨k0, je, hs, he, hije, rfl⟩ := linkAt_burst hib
    have := endIndex_bound he
    rw [List.length_append, windowAt_length, List.length_take]
    omega

/-- the length bound on an open burst is an invariant of every framer step -/
theorem read_length_invariant (c : FCfg) (s : FState) (data : Byte) (restart : Bool)
    (hs : ∀ msg inv, s = .read msg inv → msg.length ≤ Gen.MAX_BURST_LENGTH) :
    (∀ msg inv, (finput c s data restart).1 = .read msg inv → msg.length ≤ Gen.MAX_BURST_LENGTH)
      ∧ ∀ b, (finput c s data restart).2 = .burst b → b.length ≤ Gen.MAX_BURST_LENGTH := by
  have h4 := max_burst_ge_four
  have hsearch : ∀ w n msg inv, (finputNR c (.search w n) data).1 = .read msg inv →
      msg.length ≤ Gen.MAX_BURST_LENGTH := by
    intro w n msg inv h
    simp only [finputNR] at h
    split at h
    · injection h with h _; subst h; simpa [beBytes] using h4
    · split at h <;> cases h
  cases restart with
  | true =>
    constructor
    · intro msg inv h
      rw [finput_restart_state] at h
      exact hsearch _ _ _ _ h
    · intro b h
      cases s with
      | idle => simp [finput, fend] at h
      | search w n => simp [finput, fend] at h
      | read msg inv =>
        simp [finput, fend] at h
        subst h
        exact hs _ _ rfl
  | false =>
    cases s with
    | idle => constructor <;> intro _ <;> simp [finput, finputNR]
    | search w n =>
      constructor
      · intro msg inv h
        exact hsearch w n msg inv (by simpa [finput] using h)
      · intro b h
        simp only [finput, finputNR] at h
        by_cases hp : prefixErrors (w <<< 8 ||| data.toUInt32) ≤ c.maxPrefixErr
        · simp [hp] at h
        · by_cases hq : n + 1 > Gen.PREFIX_SEARCH_LEN <;> simp [hp, hq] at h
    | read m iv =>
      have hm := hs m iv rfl
      have hstep : finput c (.read m iv) data false
          = if (decide (iv + (if isAllowed data then 0 else 1) > c.maxInvalid)
                || decide (m.length ≥ Gen.MAX_BURST_LENGTH)) = true then (.idle, .burst m)
            else (.read (m ++ [data]) (iv + (if isAllowed data then 0 else 1)), .reading) := by
        simp [finput, finputNR]
      rw [hstep]
      generalize iv + (if isAllowed data then 0 else 1) = iv'
      by_cases hc : (decide (iv' > c.maxInvalid) || decide (m.length ≥ Gen.MAX_BURST_LENGTH)) = true
      · rw [if_pos hc]
        constructor
        · intro msg inv h; cases h
        · intro b h; injection h with h; subst h; exact hm
      · rw [if_neg hc]
        constructor
        · intro msg inv h
          injection h with h _; subst h
          simp only [Bool.or_eq_true, decide_eq_true_eq, not_or] at hc
          rw [List.length_append, List.length_singleton]; omega
        · intro b h; cases h

/-- **Busy time.**  Whatever the stream, `PREFIX_SEARCH_LEN + 1` search bytes,
    `MAX_BURST_LENGTH - 4` data bytes and the byte that reports the burst are the longest a
    single start can keep the link away from `noCarrier` (any previous state `s0`). -/
theorem busy_bounded (c : FCfg) (s0 : FState) (bs : List Byte) (i : Nat)
    (hi : Gen.PREFIX_SEARCH_LEN + 1 + (Gen.MAX_BURST_LENGTH - 4) + 1 ≤ i) (hlen : i < bs.length) :
    (feedStart c s0 bs)[i]? = some .noCarrier := by
  have h' : i < (feedStart c s0 bs).length := by rw [feedStart_length]; exact hlen
  rw [List.getElem?_eq_getElem h', feedStart_getElem_pos c s0 bs i hlen (by omega),
    linkAt_busy_bounded _ _ bs (i + 1) (by omega) (by omega)]

/-- **Restart while reading.**  The interrupted burst is reported, not lost, and the framer
    continues exactly as if it had been restarted from idle. -/
theorem restart_from_read (c : FCfg) (msg : List Byte) (inv : Nat) (b : Byte) :
    (finput c (.read msg inv) b true).2 = .burst msg
      ∧ (finput c (.read msg inv) b true).1 = (finput c .idle b true).1 := by
  constructor
  · simp [finput, fend]
  · rw [finput_restart_state, finput_restart_state]

/-! ### single-step facts (first instalment, kept) -/

/-- an idle framer ignores everything until the next start: no burst without a start -/
theorem idle_absorbs (c : FCfg) (bs : List Byte) : ∀ ls ∈ feed c .idle bs, ls = .noCarrier := by
  induction bs with
  | nil => intro ls h; simp [feed] at h
  | cons b bs ih =>
    intro ls h
    simp only [feed, finputNR, List.mem_cons] at h
    rcases h with h | h
    · exact h
    · exact ih ls h

/-- while reading, received bytes are appended unchanged and in order -/
theorem read_appends (c : FCfg) (msg : List Byte) (inv : Nat) (b : Byte) (msg' : List Byte) (inv' : Nat)
    (h : (finputNR c (.read msg inv) b).1 = .read msg' inv') : msg' = msg ++ [b] := by
  simp only [finputNR] at h
  split at h <;> split at h <;> simp_all

/-- a burst emitted while reading is exactly what was accumulated: nothing rewritten at the end -/
theorem burst_is_accumulated (c : FCfg) (msg : List Byte) (inv : Nat) (b : Byte) (out : List Byte)
    (h : (finputNR c (.read msg inv) b).2 = .burst out) : out = msg := by
  simp only [finputNR] at h
  split at h <;> split at h <;> simp_all

/-! ### non-vacuity -/

/-- non-vacuity: preamble byte, `ZCZC`, `-`, then two invalid bytes with an invalid budget of 1 -/
example :
    feedStart ⟨0, 1⟩ .idle [0xAB, 0x5A, 0x43, 0x5A, 0x43, 0x2D, 0x00, 0x00, 0x41]
      = [.searching, .searching, .searching, .searching, .reading, .reading, .reading,
         .burst [0x5A, 0x43, 0x5A, 0x43, 0x2D, 0x00], .noCarrier] := by
  decide +kernel

/-- non-vacuity: 18 preamble bytes, so that `ZCZC` completes exactly at byte 22, the last chance -/
example :
    feedStart ⟨0, 0⟩ .idle (List.replicate 18 0xAB ++ [0x5A, 0x43, 0x5A, 0x43, 0x2D, 0x00, 0x41])
      = List.replicate 21 .searching
          ++ [.reading, .reading, .burst [0x5A, 0x43, 0x5A, 0x43, 0x2D], .noCarrier] := by
  decide +kernel

/-- non-vacuity: one byte later is too late — the framer has given up at byte 22 -/
example :
    feedStart ⟨0, 0⟩ .idle (List.replicate 19 0xAB ++ [0x5A, 0x43, 0x5A, 0x43, 0x2D, 0x00, 0x41])
      = List.replicate 21 .searching ++ List.replicate 5 .noCarrier := by
  decide +kernel

/-- non-vacuity: the length cap — 300 valid data bytes after `ZCZC` give one burst of exactly
    `MAX_BURST_LENGTH` bytes, reported on data byte 249 -/
example :
    feedStart ⟨0, 0⟩ .idle ([0x5A, 0x43, 0x5A, 0x43] ++ List.replicate 300 0x41)
      = List.replicate 3 .searching ++ List.replicate 249 .reading
          ++ [.burst ([0x5A, 0x43, 0x5A, 0x43] ++ List.replicate 248 0x41)]
          ++ List.replicate 51 .noCarrier := by
  decide +kernel

end SameVerif.C07
