/-
  Theorems about the front-end DSP control structure (`Model/Dsp.lean`).

  Tier A: order-only facts, generic in the number type `F` under `OrderLaws F`
          (a total strict weak order with `0 ≤ 1`, `0 ≤ 1/2`, `-1/2 ≤ 1/2`, `-1 ≤ 1`; no ring laws).
  Tier B: real-number semantics over core `Rat` (`instance : Arith Rat` in Lemmas/DspLaws.lean).

  Helper lemmas, the law class, run functions and invariants are in Lemmas/DspLaws.lean.
-/
import SameVerif.Lemmas.DspLaws

namespace SameVerif.DspThm

open SameVerif.Dsp Arith

/-! ## Tier A: order-only, generic in `F` -/

section TierA
variable {F : Type} [Arith F] [OrderLaws F]

/-! ### A1 `clamp` -/

omit [OrderLaws F] in
/-- `clamp` panics exactly when `min > max` -/
theorem clamp_none_iff (x lo hi : F) : clamp x lo hi = none ↔ le lo hi = false :=
  Dsp.clamp_none_iff x lo hi

theorem clamp_some_iff (x lo hi : F) : (∃ y, clamp x lo hi = some y) ↔ le lo hi = true := by
  constructor
  · rintro ⟨y, h⟩; exact (clamp_bounds' h).1
  · exact clamp_isSome_of_le

/-- what `clamp` returns lies between the limits -/
theorem clamp_bounds {x lo hi y : F} (h : clamp x lo hi = some y) : le lo y = true ∧ le y hi = true :=
  (clamp_bounds' h).2

/-! ### A2 the AGC panics exactly when `min_gain > max_gain` -/

omit [OrderLaws F] in
theorem agc_input_none_iff (a : Agc F) (x : F) :
    a.input x = none ↔ le a.minGain a.maxGain = false :=
  agc_input_none_iff' a x

/-! ### A3 `Agc::new` -/

theorem agc_new_total (bw lo hi : F) : ∃ a0, Agc.new bw lo hi = some a0 := by
  obtain ⟨bw', _, h⟩ := agc_new_some bw lo hi
  exact ⟨_, h⟩

theorem agc_initialGain_in_range {lo hi : F} (h : le lo hi = true) :
    le lo (Agc.initialGain lo hi) = true ∧ le (Agc.initialGain lo hi) hi = true :=
  initialGain_bounds h

/-! ### A4 the gain never leaves `[min_gain, max_gain]` and the AGC never panics -/

theorem agc_gain_in_range {bw lo hi : F} {a0 : Agc F}
    (hnew : Agc.new bw lo hi = some a0) (hle : le lo hi = true) (ops : List (AgcOp F)) :
    ∃ a outs, agcRun a0 ops = some (a, outs) ∧
      le lo a.gain = true ∧ le a.gain hi = true ∧
      a.minGain = lo ∧ a.maxGain = hi ∧ a.bandwidth = a0.bandwidth := by
  obtain ⟨a, outs, h, hinv⟩ := agcInv_run hle ops a0 (agcInv_new hnew hle).1
  exact ⟨a, outs, h, hinv.lo_le, hinv.le_hi, hinv.minGain, hinv.maxGain, hinv.bandwidth⟩

/-- the converse: an AGC built with `min_gain > max_gain` panics on its first input -/
theorem agc_panics_when_min_gt_max {bw lo hi : F} {a0 : Agc F}
    (hnew : Agc.new bw lo hi = some a0) (hle : le lo hi = false) (x : F) (ops : List (AgcOp F)) :
    agcRun a0 (.input x :: ops) = none := by
  obtain ⟨bw', _, h⟩ := agc_new_some bw lo hi
  rw [h] at hnew; cases hnew
  have : Agc.input (⟨bw', lo, hi, false, Agc.initialGain lo hi⟩ : Agc F) x = none :=
    (agc_input_none_iff _ x).2 hle
  simp [agcRun, this]

/-! ### A5 `reset` restores exactly the newly built AGC -/

theorem agc_reset_eq_new {bw lo hi : F} {a0 a : Agc F} {outs : List F}
    (hnew : Agc.new bw lo hi = some a0) (hle : le lo hi = true) (ops : List (AgcOp F))
    (hrun : agcRun a0 ops = some (a, outs)) : a.reset = a0 := by
  obtain ⟨h0, hl, hg⟩ := agcInv_new hnew hle
  obtain ⟨a', outs', h, hinv⟩ := agcInv_run hle ops a0 h0
  rw [h] at hrun; cases hrun
  exact agcInv_reset_eq h0 hl hg hinv

/-! ### A6 the timing loop never panics; `period_avg` stays in `[period_min, period_max]` -/

/-- `TimingLoop::new` cannot panic (needs `0 ≤ 1/2`) -/
theorem tl_new_total (sps alpha beta maxDev : F) : ∃ l, TimingLoop.new sps alpha beta maxDev = some l := by
  obtain ⟨_, _, h⟩ := tl_new_some sps alpha beta maxDev
  exact ⟨_, h⟩

/-- `advance_loop` cannot panic when `period_min ≤ period_max`; the configuration is untouched -/
theorem tl_advance_total (l : TimingLoop F) (h : le l.periodMin l.periodMax = true) (o : F)
    (sym : Option (SymEst F)) :
    ∃ l', l.advance o sym = some l' ∧ l'.periodMin = l.periodMin ∧ l'.periodMax = l.periodMax ∧
      l'.samplesPerTed = l.samplesPerTed ∧ l'.alpha = l.alpha ∧ l'.beta = l.beta ∧ l'.ted = l.ted := by
  cases sym with
  | none =>
    obtain ⟨_, _, e⟩ := tl_advance_nosym l o
    exact ⟨_, e, rfl, rfl, rfl, rfl, rfl, rfl⟩
  | some s =>
    obtain ⟨_, _, _, _, _, _, e⟩ := tl_advance_sym l o s h
    exact ⟨_, e, rfl, rfl, rfl, rfl, rfl, rfl⟩

/-- `advance_loop` panics exactly when a symbol is ready and `period_min > period_max` -/
theorem tl_advance_none_iff (l : TimingLoop F) (o : F) (sym : Option (SymEst F)) :
    l.advance o sym = none ↔ (sym.isSome = true ∧ le l.periodMin l.periodMax = false) := by
  cases sym with
  | none =>
    obtain ⟨_, _, e⟩ := tl_advance_nosym l o
    simp [e]
  | some s =>
    cases h : le l.periodMin l.periodMax with
    | true =>
      obtain ⟨_, _, _, _, _, _, e⟩ := tl_advance_sym l o s h
      simp [e]
    | false =>
      obtain ⟨o', h1⟩ := clamp_isSome_of_le (x := o) (OrderLaws.neg_half_le_half (F := F))
      obtain ⟨err, h2⟩ := clamp_isSome_of_le (x := sub s.err (div o' l.samplesPerTed))
        (OrderLaws.neg_one_le_one (F := F))
      have h3 := (Dsp.clamp_none_iff (add l.periodAvg (mul l.beta err)) l.periodMin l.periodMax).2 h
      simp [TimingLoop.advance, h1, h2, h3]

/-- `TimingLoop::input` cannot panic when `period_min ≤ period_max`; the configuration is untouched -/
theorem tl_input_total (l : TimingLoop F) (h : le l.periodMin l.periodMax = true) (x o : F) :
    ∃ l' u sym, l.input x o = some (l', u, sym) ∧ u = l'.periodInst ∧ sym = (l.ted.input x).2 ∧
      l'.periodMin = l.periodMin ∧ l'.periodMax = l.periodMax ∧ l'.samplesPerTed = l.samplesPerTed := by
  obtain ⟨l', e, h1, h2, h3, _⟩ :=
    tl_advance_total { l with ted := (l.ted.input x).1 } h o (l.ted.input x).2
  refine ⟨l', l'.periodInst, (l.ted.input x).2, ?_, rfl, rfl, h1, h2, h3⟩
  unfold TimingLoop.input
  simp only [e, Option.map_some]

/-- whenever a symbol is processed the new `period_avg` is inside `[period_min, period_max]` -/
theorem tl_period_avg_in_range {l l' : TimingLoop F} {o : F} {s : SymEst F}
    (h : l.advance o (some s) = some l') :
    le l.periodMin l'.periodAvg = true ∧ le l'.periodAvg l.periodMax = true := by
  have hle : le l.periodMin l.periodMax = true := by
    cases hle : le l.periodMin l.periodMax with
    | true => rfl
    | false => rw [(tl_advance_none_iff l o (some s)).2 ⟨rfl, hle⟩] at h; cases h
  obtain ⟨_, _, avg, _, _, h3, e⟩ := tl_advance_sym l o s hle
  rw [e] at h; cases h
  exact (clamp_bounds' h3).2

/-- the invariant over arbitrary operation lists: from any state whose nominal period and running
    average are inside the limits, no operation ever panics, the configuration is constant and
    `period_avg` stays inside the limits -/
theorem tl_run_total {l : TimingLoop F}
    (h1 : le l.periodMin l.samplesPerTed = true) (h2 : le l.samplesPerTed l.periodMax = true)
    (h3 : le l.periodMin l.periodAvg = true) (h4 : le l.periodAvg l.periodMax = true)
    (ops : List (TlOp F)) :
    ∃ l' outs, tlRun l ops = some (l', outs) ∧
      l'.periodMin = l.periodMin ∧ l'.periodMax = l.periodMax ∧ l'.samplesPerTed = l.samplesPerTed ∧
      le l.periodMin l'.periodAvg = true ∧ le l'.periodAvg l.periodMax = true := by
  obtain ⟨l', outs, e, hinv⟩ := tl_run_inv h1 h2 ops l ⟨rfl, rfl, rfl, h3, h4⟩
  exact ⟨l', outs, e, hinv.periodMin, hinv.periodMax, hinv.samplesPerTed, hinv.min_le_avg, hinv.avg_le_max⟩

end TierA

/-! ### A7 / A8 moving average and DC blocker: structure only (no laws at all) -/

section TierA'
variable {F : Type} [Arith F]

/-- `DCBlocker::new` panics exactly for length 0 -/
theorem dc_new_none_iff (len : Nat) : (DcBlock.new len : Option (DcBlock F)) = none ↔ len = 0 :=
  dc_new_none_iff' len

theorem movavg_new_none_iff (len : Nat) : (MovAvg.new len : Option (MovAvg F)) = none ↔ len = 0 :=
  Dsp.movavg_new_none_iff len

/-- `filter` and `reset` preserve the window length -/
theorem movavg_window_length (m : MovAvg F) :
    m.reset.window.length = m.window.length ∧
    ∀ x m' y, m.filter x = some (m', y) → m'.window.length = m.window.length :=
  ⟨(movavg_reset_length m).1, fun _ _ _ h => (movavg_filter_length h).1⟩

/-- the `pop_front().unwrap()` panics exactly on an empty window -/
theorem movavg_filter_none_iff (m : MovAvg F) (x : F) : m.filter x = none ↔ m.window = [] :=
  Dsp.movavg_filter_none_iff m x

/-- a moving average built by `new` never panics, whatever it is fed -/
theorem movavg_never_panics {len : Nat} {m0 : MovAvg F} (h : MovAvg.new len = some m0) (xs : List F) :
    ∃ m outs, movavgRun m0 xs = some (m, outs) ∧ m.window.length = len ∧ outs.length = xs.length := by
  have hl : 0 < len := by
    cases len with
    | zero => rw [(Dsp.movavg_new_none_iff 0).2 rfl] at h; cases h
    | succ n => omega
  rw [movavg_new_some hl] at h; cases h
  obtain ⟨m, outs, e, h1, _, h3⟩ := movavg_run_some xs
    (⟨List.replicate len zero, div one (ofNat len), zero⟩ : MovAvg F) (by simpa using hl)
  exact ⟨m, outs, e, by simpa using h1, h3⟩

/-- a DC blocker built by `new` never panics, whatever it is fed and whenever it is reset -/
theorem dc_never_panics {len : Nat} {d0 : DcBlock F} (h : DcBlock.new len = some d0)
    (xs : List (Option F)) :
    ∃ d outs, dcRun d0 xs = some (d, outs) ∧ d.ff.window.length = len ∧ d.fb.window.length = len := by
  obtain ⟨hl, hinv⟩ := dcInv_new h
  obtain ⟨d, outs, e, hd⟩ := dcInv_run hl xs d0 hinv
  exact ⟨d, outs, e, hd.ff_len, hd.fb_len⟩

/-- `reset` restores exactly the newly built DC blocker -/
theorem dc_reset_eq_new {len : Nat} {d0 d : DcBlock F} {outs : List F}
    (h : DcBlock.new len = some d0) (xs : List (Option F)) (hrun : dcRun d0 xs = some (d, outs)) :
    d.reset = d0 := by
  obtain ⟨hl, hinv⟩ := dcInv_new h
  obtain ⟨d', outs', e, hd⟩ := dcInv_run hl xs d0 hinv
  rw [e] at hrun; cases hrun
  rw [dcInv_reset_eq hd]
  rw [dc_new_some hl] at h; cases h; rfl

end TierA'

/-! ## Tier B: real-number semantics (`F = Rat`) -/

section TierB

/-! ### B3 the sample clock always fires: no wedge -/

/-- For every value `u` returned by the timing loop the clock fires after a first `n ≥ 1` samples,
    `n < max 1 (u + 1/2) + 1`, and the remainder carried into the next interval is `< 1/2`
    (and `≥ -1/2` when `u ≥ 3/2`). -/
theorem clock_fires (u : Rat) :
    ∃ n : Nat, 1 ≤ n ∧
      (∀ fuel, n ≤ fuel → clockNext u fuel 1 = some n) ∧
      clockFires u n = true ∧
      (∀ m, 1 ≤ m → m < n → clockFires u m = false) ∧
      (n : Rat) < max 1 (u + 1 / 2) + 1 ∧
      clockRemaining u n < 1 / 2 ∧
      (3 / 2 ≤ u → -(1 / 2) ≤ clockRemaining u n) := by
  -- some `K ≥ 1` at which the clock fires
  have hK : clockFires u (u.ceil.toNat + 1) = true := by
    rw [clockFires_rat, natCast_succ_rat]
    have := le_natCast_ceil_toNat u
    grind
  obtain ⟨n, _, h1, _, hf, hmin⟩ :=
    clockNext_spec u (u.ceil.toNat + 1) 1 (u.ceil.toNat + 1) (by omega) (by omega) hK
  refine ⟨n, h1, ?_, hf, hmin, ?_, ?_, ?_⟩
  · intro fuel hfuel
    obtain ⟨m, e, b1, b2, b3, _⟩ := clockNext_spec u fuel 1 n h1 (by omega) hf
    have : m = n := by
      by_cases hlt : m < n
      · rw [hmin m b1 hlt] at b3; cases b3
      · omega
    rw [e, this]
  · by_cases h1' : n = 1
    · subst h1'; have : (1 : Rat) ≤ max 1 (u + 1 / 2) := by grind
      grind
    · have hp := (clockFires_rat_false u (n - 1)).1 (hmin (n - 1) (by omega) (by omega))
      have hc : ((n - 1 + 1 : Nat) : Rat) = ((n - 1 : Nat) : Rat) + 1 := natCast_succ_rat _
      rw [show n - 1 + 1 = n by omega] at hc
      have : u + 1 / 2 ≤ max 1 (u + 1 / 2) := by grind
      grind
  · rw [clockRemaining_rat]; exact (clockFires_rat u n).1 hf
  · intro hu
    rw [clockRemaining_rat]
    have hn1 : n ≠ 1 := by
      intro e; subst e
      have := (clockFires_rat u 1).1 hf
      grind
    have hp := (clockFires_rat_false u (n - 1)).1 (hmin (n - 1) (by omega) (by omega))
    have hc : ((n - 1 + 1 : Nat) : Rat) = ((n - 1 : Nat) : Rat) + 1 := natCast_succ_rat _
    rw [show n - 1 + 1 = n by omega] at hc
    grind

/-- `clock_fires` with an upper bound `B ≥ 3/2` on `u`: the low-rate processing runs again after at
    most `B + 3/2` high-rate samples -/
theorem clock_no_wedge' (u B : Rat) (hu : u ≤ B) (hB : 1 / 2 ≤ B) :
    ∃ n : Nat, 1 ≤ n ∧ (∀ fuel, n ≤ fuel → clockNext u fuel 1 = some n) ∧ (n : Rat) < B + 3 / 2 := by
  obtain ⟨n, h1, h2, _, _, h3, _⟩ := clock_fires u
  refine ⟨n, h1, h2, ?_⟩
  have : max 1 (u + 1 / 2) ≤ B + 1 / 2 := by grind
  grind

example : clockNext (42 : Rat) 100 1 = some 42 := by decide +kernel
example : clockNext (42336269 / 1000000 : Rat) 100 1 = some 42 := by decide +kernel
example : clockNext (-3 : Rat) 100 1 = some 1 := by decide +kernel

/-! ### B1 every timing loop that `new` builds has ordered, non-negative period limits -/

theorem tl_new_bounds (sps alpha beta maxDev : Rat) (h : 0 ≤ sps) :
    ∃ l, TimingLoop.new sps alpha beta maxDev = some l ∧
      l.samplesPerTed = sps / 2 ∧ l.periodAvg = sps / 2 ∧ l.periodInst = sps / 2 ∧
      l.alpha = alpha ∧ l.beta = beta ∧ l.ted = Ted.init ∧
      0 ≤ l.periodMin ∧ l.periodMin ≤ l.samplesPerTed ∧ l.samplesPerTed ≤ l.periodMax ∧
      l.periodMax ≤ sps ∧
      (0 ≤ maxDev → maxDev ≤ 1 / 2 →
        l.periodMin = sps / 2 - sps * maxDev ∧ l.periodMax = sps / 2 + sps * maxDev) := by
  obtain ⟨l, dev, e, d1, d2, d3, rfl, p1, p2⟩ := tl_new_rat sps alpha beta maxDev h
  refine ⟨_, e, rfl, rfl, rfl, rfl, rfl, rfl, ?_, ?_, ?_, ?_, ?_⟩ <;> dsimp only
  · grind
  · grind
  · grind
  · grind
  · intro a b; rw [d3 a b]; exact ⟨rfl, rfl⟩

/-- a timing loop built by `new` (non-negative samples per symbol) never panics, whatever the
    inputs, resets and bandwidth changes -/
theorem tl_never_panics {sps alpha beta maxDev : Rat} {l0 : TimingLoop Rat} (h : 0 ≤ sps)
    (hnew : TimingLoop.new sps alpha beta maxDev = some l0) (ops : List (TlOp Rat)) :
    ∃ l outs, tlRun l0 ops = some (l, outs) ∧
      l.periodMin = l0.periodMin ∧ l.periodMax = l0.periodMax ∧ l.samplesPerTed = l0.samplesPerTed ∧
      l0.periodMin ≤ l.periodAvg ∧ l.periodAvg ≤ l0.periodMax := by
  obtain ⟨l, e, h1, h2, _, _, _, _, _, h3, h4, _⟩ := tl_new_bounds sps alpha beta maxDev h
  rw [e] at hnew; cases hnew
  obtain ⟨l', outs, e', a, b, c, d1, d2⟩ := tl_run_total (l := l0)
    ((rat_le_iff _ _).2 h3) ((rat_le_iff _ _).2 h4)
    ((rat_le_iff _ _).2 (h2 ▸ h1 ▸ h3)) ((rat_le_iff _ _).2 (h2 ▸ h1 ▸ h4)) ops
  exact ⟨l', outs, e', a, b, c, (rat_le_iff _ _).1 d1, (rat_le_iff _ _).1 d2⟩

/-- without `0 ≤ sps` the limits are reversed and the first symbol panics -/
example : (TimingLoop.new (-4 : Rat) 0 0 (1 / 4)).isSome = true ∧
    ((TimingLoop.new (-4 : Rat) 0 0 (1 / 4)).bind fun l0 => tlRun l0 [.input 1 0]).isNone = true := by
  decide +kernel

/-! ### B2 the value handed to the sample clock is bounded: per step -/

/-- the TED yields a symbol exactly when its new counter is 1, and the counter alternates -/
theorem ted_alternates {F : Type} [Arith F] (t : Ted F) (x : F) :
    (t.input x).1.counter = (t.counter + 1) % 2 ∧
    ((t.input x).2.isSome = true ↔ (t.input x).1.counter = 1) ∧
    (Ted.init : Ted F).counter = 0 :=
  ⟨ted_input_counter t x, ted_input_isSome t x, rfl⟩

/-- from the reset state the TED yields a symbol on the 1st, 3rd, 5th … sample and nothing in
    between (`samples_per_ted` is half a symbol: two TED inputs per symbol) -/
theorem ted_run_alternates {F : Type} [Arith F] (xs : List F) :
    (tedRun (Ted.init : Ted F) xs).1.counter = xs.length % 2 ∧
    (tedRun (Ted.init : Ted F) xs).2.length = xs.length ∧
    ∀ k, k < xs.length → ∃ o, (tedRun (Ted.init : Ted F) xs).2[k]? = some o ∧
      (o.isSome = true ↔ k % 2 = 0) := by
  obtain ⟨h1, h2, h3⟩ := ted_run_spec xs (Ted.init : Ted F) (by simp [Ted.init])
  refine ⟨by simpa [Ted.init] using h1, h2, ?_⟩
  intro k hk
  obtain ⟨o, e, ho⟩ := h3 k hk
  exact ⟨o, e, by simpa [Ted.init] using ho⟩

/-- when a symbol was processed, `input` returns a value in `[0, period_max + |alpha| + 1/2]` -/
theorem tl_period_inst_bounds {l l' : TimingLoop Rat} {x o u : Rat} {s : SymEst Rat}
    (h0 : 0 ≤ l.periodMin) (hle : l.periodMin ≤ l.periodMax)
    (h : l.input x o = some (l', u, some s)) :
    u = l'.periodInst ∧ 0 ≤ u ∧ u ≤ l.periodMax + l.alpha.abs + 1 / 2 := by
  unfold TimingLoop.input at h
  cases hs : (l.ted.input x).2 with
  | none =>
    obtain ⟨o', _, _, _, e⟩ := tl_advance_nosym_rat { l with ted := (l.ted.input x).1 } o
    simp only [hs, e, Option.map_some, Option.some.injEq, Prod.mk.injEq] at h
    exact absurd h.2.2 (by simp)
  | some s' =>
    obtain ⟨avg, inst, e, _, _, a3, a4⟩ :=
      tl_advance_sym_rat { l with ted := (l.ted.input x).1 } o s' h0 hle
    simp only [hs, e, Option.map_some, Option.some.injEq, Prod.mk.injEq] at h
    obtain ⟨rfl, rfl, _⟩ := h
    exact ⟨rfl, a3, a4⟩

/-- when no symbol was processed, `input` returns the previous value plus the offset limited to ±1/2 -/
theorem tl_period_inst_step {l l' : TimingLoop Rat} {x o u : Rat}
    (h : l.input x o = some (l', u, none)) :
    u = l'.periodInst ∧ ∃ o', -(1 / 2) ≤ o' ∧ o' ≤ 1 / 2 ∧ (-(1 / 2) ≤ o → o ≤ 1 / 2 → o' = o) ∧
      u = l.periodInst + o' := by
  unfold TimingLoop.input at h
  cases hs : (l.ted.input x).2 with
  | none =>
    obtain ⟨o', a1, a2, a3, e⟩ := tl_advance_nosym_rat { l with ted := (l.ted.input x).1 } o
    simp only [hs, e, Option.map_some, Option.some.injEq, Prod.mk.injEq] at h
    obtain ⟨rfl, rfl, _⟩ := h
    exact ⟨rfl, o', a1, a2, a3, rfl⟩
  | some s' =>
    cases hadv : TimingLoop.advance { l with ted := (l.ted.input x).1 } o (some s') with
    | none => simp [hs, hadv] at h
    | some l2 => simp [hs, hadv] at h

/-! ### B2 combined with the alternation: every value ever returned by `input` is bounded -/

/-- Along any list of inputs, resets and bandwidth changes from a newly built loop (`sps ≥ 0`), with
    `A` a bound on `|alpha|` of all gains in force: the loop never panics and every value returned by
    `input` lies in `[-1/2, period_max + A + 1]` (in `[0, period_max + A + 1/2]` when a symbol was
    produced). -/
theorem tl_input_bounds {sps alpha beta maxDev A : Rat} {l0 : TimingLoop Rat} (h : 0 ≤ sps)
    (hnew : TimingLoop.new sps alpha beta maxDev = some l0) (hA : alpha.abs ≤ A)
    (ops : List (TlOp Rat)) (hops : ∀ op ∈ ops, TlOp.gainBounded A op) :
    ∃ l outs, tlRun l0 ops = some (l, outs) ∧
      ∀ p ∈ outs, -(1 / 2) ≤ p.1 ∧ p.1 ≤ l0.periodMax + A + 1 ∧
        (p.2.isSome = true → 0 ≤ p.1 ∧ p.1 ≤ l0.periodMax + A + 1 / 2) := by
  obtain ⟨l, e, h1, h2, _, h5, _, h6, h7, h3, h4, _⟩ := tl_new_bounds sps alpha beta maxDev h
  rw [e] at hnew; cases hnew
  have hinv : TlRInv l0.samplesPerTed l0.periodMin l0.periodMax A l0 :=
    ⟨⟨rfl, rfl, rfl, (rat_le_iff _ _).2 (h2 ▸ h1 ▸ h3), (rat_le_iff _ _).2 (h2 ▸ h1 ▸ h4)⟩,
      h5 ▸ hA, by rw [h6]; decide, by rw [h6]; intro hc; cases hc⟩
  obtain ⟨l', outs, e', _, hout⟩ := tlR_run h7 h3 h4 ops l0 hinv hops
  exact ⟨l', outs, e', hout⟩

/-- **No wedge of the sample clock**: after every call of `input` the low-rate processing runs again
    after a first `n ≥ 1` high-rate samples with `n < period_max + A + 5/2`. -/
theorem clock_no_wedge {sps alpha beta maxDev A : Rat} {l0 l : TimingLoop Rat}
    {outs : List (Rat × Option (SymEst Rat))} (h : 0 ≤ sps)
    (hnew : TimingLoop.new sps alpha beta maxDev = some l0) (hA : alpha.abs ≤ A)
    (ops : List (TlOp Rat)) (hops : ∀ op ∈ ops, TlOp.gainBounded A op)
    (hrun : tlRun l0 ops = some (l, outs)) :
    ∀ p ∈ outs, ∃ n : Nat, 1 ≤ n ∧ (∀ fuel, n ≤ fuel → clockNext p.1 fuel 1 = some n) ∧
      (n : Rat) < l0.periodMax + A + 5 / 2 := by
  obtain ⟨l', outs', e, hout⟩ := tl_input_bounds h hnew hA ops hops
  rw [e] at hrun; cases hrun
  obtain ⟨_, e0, _, _, _, _, _, _, h7, h3, h4, _⟩ := tl_new_bounds sps alpha beta maxDev h
  rw [e0] at hnew; cases hnew
  have hA0 : 0 ≤ A := Rat.le_trans Rat.abs_nonneg hA
  intro p hp
  obtain ⟨_, b, _⟩ := hout p hp
  obtain ⟨n, n1, n2, n3⟩ := clock_no_wedge' p.1 (l0.periodMax + A + 1) b (by grind)
  exact ⟨n, n1, n2, by grind⟩

/-! ### B4 the AGC output and the locked AGC -/

/-- the output sample is always the input times the gain *before* the update (any number type) -/
theorem agc_output_eq {F : Type} [Arith F] {a a' : Agc F} {x y : F} (h : a.input x = some (a', y)) :
    y = mul x a.gain ∧ a'.minGain = a.minGain ∧ a'.maxGain = a.maxGain ∧
      a'.bandwidth = a.bandwidth ∧ a'.locked = a.locked := by
  unfold Agc.input at h
  simp only [Option.map_eq_some_iff] at h
  obtain ⟨g, _, h⟩ := h
  cases h
  exact ⟨rfl, rfl, rfl, rfl, rfl⟩

/-- a locked AGC whose gain is inside its limits is frozen: the state does not change at all -/
theorem agc_locked_gain_frozen {a : Agc Rat} (hl : a.locked = true)
    (h1 : a.minGain ≤ a.gain) (h2 : a.gain ≤ a.maxGain) (x : Rat) :
    a.input x = some (a, x * a.gain) := by
  obtain ⟨y, e, _, _, hy⟩ := clamp_rat (x := a.gain) (Rat.le_trans h1 h2)
  have hy := hy h1 h2; subst hy
  have hg : add a.gain (mul (mul (ofBool (!a.locked)) (sub one (abs (mul x a.gain)))) a.bandwidth)
      = a.gain := by
    simp only [hl, ofBool, rat_add, rat_mul, rat_zero]
    grind
  unfold Agc.input
  dsimp only
  rw [hg, e]
  rfl

/-! ### B5 the moving average is exact -/

/-- After feeding `xs` to a new moving average of length `len`: the window holds the last `len`
    inputs (zero-padded), `sum` is exactly the window's sum, the `k`-th returned average is the sum of
    the `len` inputs up to `xs[k]` times `1/len`, and the second output is the input delayed by
    `len - 1` samples (zero-padded). -/
theorem movavg_exact {len : Nat} {m0 : MovAvg Rat} (h : MovAvg.new len = some m0) (xs : List Rat) :
    ∃ m outs, movavgRun m0 xs = some (m, outs) ∧
      m.window = (List.replicate len 0 ++ xs).drop xs.length ∧
      m.sum = m.window.sum ∧
      outs.length = xs.length ∧
      ∀ k, k < xs.length → outs[k]? =
        some ((((List.replicate len 0 ++ xs).drop (k + 1)).take len).sum * (1 / (len : Rat)),
              ((List.replicate (len - 1) 0 ++ xs)[k]?).getD 0) := by
  have hl : 0 < len := by
    cases len with
    | zero => rw [(Dsp.movavg_new_none_iff 0).2 rfl] at h; cases h
    | succ n => omega
  rw [movavg_new_some hl] at h; cases h
  obtain ⟨m, outs, e, w, s', _, l, o⟩ := movavg_run_exact xs
    (⟨List.replicate len zero, div one (ofNat len), zero⟩ : MovAvg Rat) (by simpa using hl)
    (by simp [sum_replicate_rat, Rat.mul_zero])
  refine ⟨m, outs, e, w, s', l, ?_⟩
  intro k hk
  rw [o k hk]
  obtain ⟨n, rfl⟩ : ∃ n, len = n + 1 := ⟨len - 1, by omega⟩
  simp [List.replicate_succ]

example : ∃ m0 : MovAvg Rat, MovAvg.new 3 = some m0 ∧
    (movavgRun m0 [3, 6, 9, 12]).map (·.2) = some [(1, 0), (3, 0), (6, 3), (9, 6)] :=
  ⟨_, rfl, by decide +kernel⟩

/-! ### B6 the DC blocker -/

/-- a DC blocker of length 1 is a no-op: the outputs are the inputs (resets, `none`, change nothing) -/
theorem dc_len1_identity {d0 : DcBlock Rat} (h : DcBlock.new 1 = some d0) (xs : List (Option Rat)) :
    ∃ d, dcRun d0 xs = some (d, xs.filterMap id) := by
  obtain ⟨_, hinv⟩ := dcInv_new h
  obtain ⟨d, e, _⟩ := dc_len1_run xs d0 hinv
  exact ⟨d, e⟩

/-- a DC blocker of length `len > 1` removes a constant exactly: from the initial state every output
    from the `(2*len - 1)`-th on is `0` -/
theorem dc_removes_constant {len : Nat} {d0 : DcBlock Rat} (h : DcBlock.new len = some d0)
    (hl : 1 < len) (c : Rat) (k : Nat) :
    ∃ d outs, dcRun d0 (List.replicate k (some c)) = some (d, outs) ∧ outs.length = k ∧
      (∀ i, 2 * len - 2 ≤ i → i < k → outs[i]? = some 0) ∧
      (2 * len - 1 ≤ k → outs.getLast? = some 0) := by
  rw [dc_new_some (by omega)] at h; cases h
  have hg : MovGood len (⟨List.replicate len zero, div one (ofNat len), zero⟩ : MovAvg Rat) :=
    ⟨by simp, by simp [sum_replicate_rat, Rat.mul_zero], rfl⟩
  obtain ⟨d, outs, e, _, l, o⟩ := dcConst_run (c := c) hl k 0
    (⟨⟨List.replicate len zero, div one (ofNat len), zero⟩,
      ⟨List.replicate len zero, div one (ofNat len), zero⟩⟩ : DcBlock Rat)
    ⟨hg, hg, by simpa using movTail_zero hg c, by simpa using movTail_zero hg c⟩
  refine ⟨d, outs, e, l, fun i h1 h2 => o i h2 (by omega), ?_⟩
  intro hk
  rw [List.getLast?_eq_getElem?, l]
  exact o (k - 1) (by omega) (by omega)

example : ∃ d0 : DcBlock Rat, DcBlock.new 3 = some d0 ∧
    (dcRun d0 (List.replicate 6 (some 7))).map (·.2) = some [-7 / 9, -7 / 3, 7 / 3, 7 / 9, 0, 0] :=
  ⟨_, rfl, by decide +kernel⟩

/-! ### non-vacuity: the general theorems at the values the receiver uses -/

/-- A4 at the default AGC limits `[1/32767, 1/200]` (bandwidth 1/100) and a concrete op list -/
example : ∃ a0 a outs, Agc.new (1 / 100 : Rat) (1 / 32767) (1 / 200) = some a0 ∧
    agcRun a0 [.input 20000, .lock true, .input (-3), .reset, .lock false, .input 0] = some (a, outs) ∧
    1 / 32767 ≤ a.gain ∧ a.gain ≤ 1 / 200 := by
  obtain ⟨a0, h0⟩ := agc_new_total (1 / 100 : Rat) (1 / 32767) (1 / 200)
  obtain ⟨a, outs, e, h1, h2, _⟩ := agc_gain_in_range h0 (by decide +kernel)
    [.input 20000, .lock true, .input (-3), .reset, .lock false, .input 0]
  exact ⟨a0, a, outs, h0, e, (rat_le_iff _ _).1 h1, (rat_le_iff _ _).1 h2⟩

/-- the converse at swapped limits: the first input panics -/
example : ∃ a0, Agc.new (1 / 100 : Rat) (1 / 200) (1 / 32767) = some a0 ∧
    agcRun a0 [.input 1] = none := by
  obtain ⟨a0, h0⟩ := agc_new_total (1 / 100 : Rat) (1 / 200) (1 / 32767)
  exact ⟨a0, h0, agc_panics_when_min_gt_max h0 (by decide +kernel) 1 []⟩

/-- B1/B2/B3 at 22050 Hz: `sps = 22050 / 520.83`, `max_deviation = 0.125`, with `|alpha| ≤ 1` -/
example (alpha beta : Rat) (hA : alpha.abs ≤ 1) (ops : List (TlOp Rat))
    (hops : ∀ op ∈ ops, TlOp.gainBounded 1 op) :
    ∃ l0 l outs, TimingLoop.new (2205000 / 52083) alpha beta (1 / 8) = some l0 ∧
      l0.periodMax = 2205000 / 52083 / 2 + 2205000 / 52083 * (1 / 8) ∧
      tlRun l0 ops = some (l, outs) ∧
      ∀ p ∈ outs, -(1 / 2) ≤ p.1 ∧ p.1 ≤ l0.periodMax + 1 + 1 ∧
        ∃ n : Nat, 1 ≤ n ∧ (∀ fuel, n ≤ fuel → clockNext p.1 fuel 1 = some n) ∧ n ≤ 29 := by
  have hs : (0 : Rat) ≤ 2205000 / 52083 := by decide +kernel
  obtain ⟨l0, e0, _, _, _, _, _, _, _, _, _, _, hd⟩ := tl_new_bounds (2205000 / 52083) alpha beta (1 / 8) hs
  obtain ⟨_, hmax⟩ := hd (by decide +kernel) (by decide +kernel)
  obtain ⟨l, outs, e, hb⟩ := tl_input_bounds hs e0 hA ops hops
  refine ⟨l0, l, outs, e0, hmax, e, ?_⟩
  intro p hp
  obtain ⟨b1, b2, _⟩ := hb p hp
  obtain ⟨n, n1, n2, n3⟩ := clock_no_wedge hs e0 hA ops hops e p hp
  refine ⟨b1, b2, n, n1, n2, ?_⟩
  rw [hmax] at n3
  have : (n : Rat) < ((30 : Nat) : Rat) := by
    have : (2205000 / 52083 / 2 + 2205000 / 52083 * (1 / 8) + 1 + 5 / 2 : Rat) ≤ ((30 : Nat) : Rat) := by
      decide +kernel
    grind
  have := Rat.natCast_lt_natCast.1 this
  omega

end TierB

end SameVerif.DspThm
