import SameVerif.Spec.StreamObserved
import SameVerif.Spec.PreSync
/-
  `Spec.StreamObserved`, generalised to what the squelch really does on real bursts (STEP 4):
  the FIRST correlator hits may come early — while the window, still containing lead-in ticks or
  wrong bits, is within `maxErr` of the sync word — and at a WRONG byte phase, and an early hit may
  be dropped at once because the power history is not yet above the close threshold.  The
  receiver then synchronises again.  What matters is that the LAST adjusting hit before the framer
  locks is at the correct phase.

  Per burst there is one more parameter, `sync`: the body tick (`sync % 8 = 7`, `15 ≤ sync ≤ 127`)
  of that last adjusting hit; `c = o + sync`.  With `potHit t` = open threshold met and window
  within `maxErr` at tick `t`, `headAt t` = close threshold met at tick `t - 31`:
  * over the lead-in `[a, c)` (`a` = end of the previous minimal tail, or 31) the abstract squelch
    `preRun` (`Spec/PreSync.lean`), driven by `potHit` and `headAt`, does not fail and ends in a
    state from which a hit adjusts the byte clock (`adjustable`), and `potHit c`;
  * after `c` and before `o + acq + 31`: no potential hit at a wrong phase, no carrier drop (from
    `acq + 31` on the window is all-correct: the theorems about the frame's windows take over);
  * over the minimal tails and after the last burst: no potential hit, as in `StreamObserved`.
  The clause `open_ok` of `StreamObserved` is gone: the open threshold matters only where hits are.
  All of it is a decidable condition on the observations alone.
-/
namespace SameVerif.Spec
open SameVerif

structure BurstSpec2 where
  o : Nat
  payload : List Byte
  acq : Nat
  sync : Nat
  rel : Nat
deriving Repr

def BurstSpec2.n (g : BurstSpec2) : Nat := 8 * (frameOf g.payload).length
def BurstSpec2.e (g : BurstSpec2) : Nat := g.o + g.n
def BurstSpec2.stop (g : BurstSpec2) : Nat := g.o + g.n + (g.rel + 40)
/-- global index of the sync tick -/
def BurstSpec2.c (g : BurstSpec2) : Nat := g.o + g.sync

/-- open threshold met and window within `maxErr` of the sync word: a hit, unless locked -/
def potHit (maxErr : Nat) (tk : Nat → Tick) (t : Nat) : Bool :=
  (tk t).1.openOk && decide (windowErrF tk t ≤ maxErr)

/-- what the squelch looks at in its power history at tick `t`: the close threshold 31 ticks back -/
def headAt (tk : Nat → Tick) (t : Nat) : Bool := (tk (t - 31)).1.closeOk

/-- tracking, equalizer bytes and release: the clauses of `BurstObserved'` except `open_ok` -/
def TrackAt2F (tk : Nat → Tick) (len : Nat) (g : BurstSpec2) : Prop :=
  g.stop ≤ len
  ∧ g.acq ≤ 89
  ∧ (∀ j, j < g.n → g.acq ≤ j → (tk (g.o + j)).1.bit = frameBit (frameOf g.payload) j)
  ∧ (∀ j, j < g.n → g.acq ≤ j → (tk (g.o + j)).1.closeOk = true)
  ∧ (∀ m, m < (frameOf g.payload).length - 3 →
      (tk (g.o + (8 * (m + 3) + 7))).2 = (frameOf g.payload).getD m 0)
  ∧ (∀ m, m < 3 →
      (tk (g.e + (8 * m + 7))).2 = (frameOf g.payload).getD ((frameOf g.payload).length - 3 + m) 0)
  ∧ (∀ k, k < g.rel → (tk (g.e + k)).1.closeOk = true)
  ∧ (tk (g.e + g.rel)).1.closeOk = false

/-- synchronisation: the last adjusting hit is at `c = o + sync`; the abstract squelch is started
    unsynchronised at tick `a` -/
def SyncAt2F (maxErr : Nat) (tk : Nat → Tick) (a : Nat) (g : BurstSpec2) : Prop :=
  (g.sync % 8 = 7 ∧ 15 ≤ g.sync ∧ g.sync ≤ 127 ∧ a ≤ g.c)
  ∧ adjustable (preRun (potHit maxErr tk) (headAt tk) a (g.c - a)) = true
  ∧ potHit maxErr tk g.c = true
  ∧ (∀ j, j < g.acq + 31 → g.sync < j → headAt tk (g.o + j) = true)
  ∧ (∀ j, j < g.acq + 31 → g.sync < j → j % 8 ≠ 7 → potHit maxErr tk (g.o + j) = false)

/-- the bursts one after the other, the first lead-in starting at tick `a` -/
def chainOk2 (maxErr : Nat) (tk : Nat → Tick) (len : Nat) : Nat → List BurstSpec2 → Prop
  | a, [] => ∀ t, t < len → a ≤ t → 31 ≤ t → potHit maxErr tk t = false
  | a, g :: gs => (a ≤ g.o ∧ 32 ≤ g.o)
      ∧ TrackAt2F tk len g
      ∧ SyncAt2F maxErr tk (max a 31) g
      ∧ (∀ t, t < g.stop → g.e ≤ t → potHit maxErr tk t = false)
      ∧ chainOk2 maxErr tk len g.stop gs

/-- **the realistic front-end assumptions, generalised**, over an index function -/
def StreamObserved2F (maxErr : Nat) (tk : Nat → Tick) (len : Nat) (segs : List BurstSpec2) : Prop :=
  chainOk2 maxErr tk len 0 segs

def StreamObserved2 (maxErr : Nat) (stream : List Tick) (segs : List BurstSpec2) : Prop :=
  StreamObserved2F maxErr (fun i => stream.getD i dfltTick) stream.length segs

instance (tk : Nat → Tick) (len : Nat) (g : BurstSpec2) : Decidable (TrackAt2F tk len g) := by
  unfold TrackAt2F; infer_instance

instance (maxErr : Nat) (tk : Nat → Tick) (a : Nat) (g : BurstSpec2) : Decidable (SyncAt2F maxErr tk a g) := by
  unfold SyncAt2F; infer_instance

instance decChainOk2 (maxErr : Nat) (tk : Nat → Tick) (len : Nat) :
    ∀ (a : Nat) (gs : List BurstSpec2), Decidable (chainOk2 maxErr tk len a gs)
  | a, [] => by unfold chainOk2; infer_instance
  | a, g :: gs =>
    have := decChainOk2 maxErr tk len g.stop gs
    by unfold chainOk2; infer_instance

instance (maxErr : Nat) (tk : Nat → Tick) (len : Nat) (segs : List BurstSpec2) :
    Decidable (StreamObserved2F maxErr tk len segs) := by
  unfold StreamObserved2F; infer_instance

instance (maxErr : Nat) (stream : List Tick) (segs : List BurstSpec2) :
    Decidable (StreamObserved2 maxErr stream segs) := by
  unfold StreamObserved2; infer_instance

end SameVerif.Spec
