import SameVerif.Lemmas.LinkStep
import SameVerif.Spec.FrontEnd
/-
  Refined front-end assumptions for ONE burst.

  Measured on tapped real runs, three clauses of `Spec.BurstObserved` are (almost) never true of the
  DSP: `open_late`, `tail_closed` (power threshold closed before `acq + 31` / on the whole tail) and
  `lead_closed`.  Their only use is to exclude a sync hit.  What excludes an early sync in reality
  is the correlator.  So here the assumptions are split:

  * `BurstObserved'`  — `BurstObserved` without those three clauses (tracking, thresholds while
    synchronised, equalizer bytes, release);
  * `NoFalseHits`     — run from the start state over `lead ++ body ++ tail`, the link model cannot
    hit (`NoHit`: squelch locked, or open threshold not met, or correlator window more than
    `maxErrors` away from the sync word) at any lead tick, at any body tick `t < acq + 31`, at any
    tail tick.

  `BurstObserved` implies both (`BurstObserved.weaken`, `BurstObserved.noFalseHits`).
-/
namespace SameVerif.Spec
open SameVerif

/-- `BurstObserved` without `lead_closed`, `open_late`, `tail_closed` (and hence without `lead`) -/
structure BurstObserved' (payload : List Byte) (body tail : List Tick) (acq rel : Nat) : Prop where
  body_len : body.length = 8 * (frameOf payload).length
  /-- acquisition within the first 90 bits of the 128 preamble bits -/
  acq_le : acq ≤ 89
  /-- tracking: from `acq` on the correlator sees the transmitted bits -/
  bits_ok : ∀ j (hj : j < body.length), acq ≤ j → body[j].1.bit = (bitsOf (frameOf payload)).getD j false
  /-- once the 32-bit window is entirely correct the open threshold is met -/
  open_ok : ∀ j (hj : j < body.length), acq + 31 ≤ j → body[j].1.openOk = true
  /-- the power stays above the close threshold from acquisition to the last bit -/
  close_ok : ∀ j (hj : j < body.length), acq ≤ j → body[j].1.closeOk = true
  /-- the equalizer's byte decision at the tick that completes transmitted byte `m + 3` is
      transmitted byte `m` -/
  eq_ok : ∀ m, m + 3 < (frameOf payload).length → ∀ (hj : 8 * (m + 3) + 7 < body.length),
    body[8 * (m + 3) + 7].2 = (frameOf payload).getD m 0
  /-- the last three bytes reach the framer during the first 24 ticks of the tail -/
  eq_tail : ∀ m, m < 3 → ∀ (hk : 8 * m + 7 < tail.length),
    tail[8 * m + 7].2 = (frameOf payload).getD ((frameOf payload).length - 3 + m) 0
  /-- release: the close threshold holds for `rel` more ticks and then fails for good -/
  rel_hold : ∀ k (hk : k < tail.length), k < rel → tail[k].1.closeOk = true
  rel_drop : ∀ k (hk : k < tail.length), rel ≤ k → tail[k].1.closeOk = false
  /-- the tail is long enough for the 32-tick power history to empty -/
  tail_len : rel + 40 ≤ tail.length

/-- `BurstObserved'` without `open_ok`: tracking, close threshold, equalizer bytes, release.
    (The open threshold matters only where sync hits are; see `Spec/StreamObserved2.lean`.) -/
structure BurstTracked (payload : List Byte) (body tail : List Tick) (acq rel : Nat) : Prop where
  body_len : body.length = 8 * (frameOf payload).length
  acq_le : acq ≤ 89
  bits_ok : ∀ j (hj : j < body.length), acq ≤ j → body[j].1.bit = (bitsOf (frameOf payload)).getD j false
  close_ok : ∀ j (hj : j < body.length), acq ≤ j → body[j].1.closeOk = true
  eq_ok : ∀ m, m + 3 < (frameOf payload).length → ∀ (hj : 8 * (m + 3) + 7 < body.length),
    body[8 * (m + 3) + 7].2 = (frameOf payload).getD m 0
  eq_tail : ∀ m, m < 3 → ∀ (hk : 8 * m + 7 < tail.length),
    tail[8 * m + 7].2 = (frameOf payload).getD ((frameOf payload).length - 3 + m) 0
  rel_hold : ∀ k (hk : k < tail.length), k < rel → tail[k].1.closeOk = true
  /-- release: at tail tick `rel` the close threshold fails (what it does afterwards is immaterial:
      31 ticks later the carrier is dropped) -/
  rel_drop : ∀ (hk : rel < tail.length), tail[rel].1.closeOk = false
  tail_len : rel + 40 ≤ tail.length

theorem BurstObserved'.tracked {pl : List Byte} {body tail : List Tick} {acq rel : Nat}
    (H : BurstObserved' pl body tail acq rel) : BurstTracked pl body tail acq rel :=
  ⟨H.body_len, H.acq_le, H.bits_ok, H.close_ok, H.eq_ok, H.eq_tail, H.rel_hold, fun hk => H.rel_drop rel hk (Nat.le_refl _), H.tail_len⟩

theorem BurstObserved.weaken {pl : List Byte} {lead body tail : List Tick} {acq rel : Nat}
    (H : BurstObserved pl lead body tail acq rel) : BurstObserved' pl body tail acq rel :=
  ⟨H.body_len, H.acq_le, H.bits_ok, H.open_ok, H.close_ok, H.eq_ok, H.eq_tail, H.rel_hold,
    H.rel_drop, H.tail_len⟩

/-- running the link model from `s` over `xs`, a sync hit is impossible at tick `t`
    (vacuous beyond the end of `xs`) -/
def NoHitAt (c : LCfg) (s : LState) (xs : List Tick) (t : Nat) : Prop :=
  ∀ x, xs[t]? = some x → NoHit c (lrunState c s (xs.take t)) x.1

/-- a link state that is unsynchronised and idle; the 32-symbol sample history need not be full -/
structure Ready (s : LState) : Prop where
  clock : s.clock = none
  lock : s.lock = false
  fr : s.fr = .idle

theorem Quiescent.ready {s : LState} (h : Quiescent s) : Ready s := ⟨h.clock, h.lock, h.fr⟩

theorem ready_init : Ready {} := ⟨rfl, rfl, rfl⟩

/-- **No false hits**, in terms of the link model's own state: run from `s` over
    `lead ++ body ++ tail`, no sync hit is possible at a lead tick (once the sample history is full:
    before that the model cannot hit anyway), at a body tick before `acq + 31`, at a tail tick. -/
structure NoFalseHits (c : LCfg) (s : LState) (lead body tail : List Tick) (acq : Nat) : Prop where
  in_lead : ∀ t, t < lead.length → 31 ≤ s.nsym + t → NoHitAt c s (lead ++ body ++ tail) t
  in_early : ∀ t, t < acq + 31 → NoHitAt c s (lead ++ body ++ tail) (lead.length + t)
  in_tail : ∀ t, t < tail.length → NoHitAt c s (lead ++ body ++ tail) (lead.length + body.length + t)

/-- the same for `body ++ tail` alone, from the state after the lead-in -/
structure BTNoHit (c : LCfg) (s1 : LState) (body tail : List Tick) (acq : Nat) : Prop where
  early : ∀ t, t < acq + 31 → NoHitAt c s1 (body ++ tail) t
  late : ∀ t, body.length ≤ t → NoHitAt c s1 (body ++ tail) t

/-- no hit over a whole stretch (lead-in, silence) -/
def QuietNoHit (c : LCfg) (s : LState) (xs : List Tick) : Prop :=
  ∀ t, 31 ≤ s.nsym + t → NoHitAt c s xs t

theorem noHitAt_of_closed (c : LCfg) (s : LState) (xs : List Tick) (t : Nat)
    (h : ∀ x, xs[t]? = some x → x.1.openOk = false) : NoHitAt c s xs t :=
  fun x hx => Or.inr (Or.inl (h x hx))

theorem noHitAt_append_right (c : LCfg) (s : LState) (pre xs : List Tick) (t : Nat) :
    NoHitAt c s (pre ++ xs) (pre.length + t) ↔ NoHitAt c (lrunState c s pre) xs t := by
  unfold NoHitAt
  rw [List.getElem?_append_right (by omega), List.take_append,
    List.take_of_length_le (by omega), lrunState_append,
    show pre.length + t - pre.length = t by omega]

theorem noHitAt_append_left (c : LCfg) (s : LState) (xs post : List Tick) (t : Nat)
    (ht : t < xs.length) : NoHitAt c s (xs ++ post) t ↔ NoHitAt c s xs t := by
  unfold NoHitAt
  rw [List.getElem?_append_left ht, List.take_append_of_le_length (by omega)]

theorem NoFalseHits.bt {c : LCfg} {s : LState} {lead body tail : List Tick} {acq : Nat}
    (N : NoFalseHits c s lead body tail acq) : BTNoHit c (lrunState c s lead) body tail acq := by
  constructor
  · intro t ht
    have := N.in_early t ht
    rwa [List.append_assoc, noHitAt_append_right] at this
  · intro t ht
    by_cases hl : t - body.length < tail.length
    · have := N.in_tail (t - body.length) hl
      rwa [List.append_assoc, show lead.length + body.length + (t - body.length) = lead.length + t by omega,
        noHitAt_append_right] at this
    · intro x hx
      have := (List.getElem?_eq_some_iff.1 hx).1
      rw [List.length_append] at this
      omega

theorem NoFalseHits.quiet {c : LCfg} {s : LState} {lead body tail : List Tick} {acq : Nat}
    (N : NoFalseHits c s lead body tail acq) : QuietNoHit c s lead := by
  intro t h31
  by_cases ht : t < lead.length
  · have := N.in_lead t ht h31
    rwa [List.append_assoc, noHitAt_append_left _ _ _ _ _ ht] at this
  · intro x hx
    have := (List.getElem?_eq_some_iff.1 hx).1
    omega

/-- the old assumptions imply the new ones, whatever the start state and the sync budget -/
theorem BurstObserved.noFalseHits {pl : List Byte} {lead body tail : List Tick} {acq rel : Nat}
    (H : BurstObserved pl lead body tail acq rel) (c : LCfg) (s : LState) :
    NoFalseHits c s lead body tail acq := by
  constructor
  · intro t ht _
    apply noHitAt_of_closed
    intro x hx
    rw [List.append_assoc, List.getElem?_append_left ht] at hx
    exact H.lead_closed x (List.mem_of_getElem? hx)
  · intro t ht
    apply noHitAt_of_closed
    intro x hx
    rw [List.append_assoc, List.getElem?_append_right (by omega),
      show lead.length + t - lead.length = t by omega] at hx
    have hlen := H.body_len
    have hacq := H.acq_le
    have hfl : 16 ≤ (frameOf pl).length := by simp [frameOf]
    have htb : t < body.length := by omega
    rw [List.getElem?_append_left htb, List.getElem?_eq_getElem htb] at hx
    cases hx
    exact H.open_late t htb ht
  · intro t ht
    apply noHitAt_of_closed
    intro x hx
    rw [List.getElem?_append_right (by rw [List.length_append]; omega), List.length_append,
      show lead.length + body.length + t - (lead.length + body.length) = t by omega] at hx
    exact H.tail_closed x (List.mem_of_getElem? hx)

theorem BurstObserved.btNoHit {pl : List Byte} {lead body tail : List Tick} {acq rel : Nat}
    (H : BurstObserved pl lead body tail acq rel) (c : LCfg) (s1 : LState) :
    BTNoHit c s1 body tail acq := by
  have hlen := H.body_len
  have hacq := H.acq_le
  have hfl : 16 ≤ (frameOf pl).length := by simp [frameOf]
  constructor
  · intro t ht
    apply noHitAt_of_closed
    intro x hx
    have htb : t < body.length := by omega
    rw [List.getElem?_append_left htb, List.getElem?_eq_getElem htb] at hx
    cases hx
    exact H.open_late t htb ht
  · intro t ht
    apply noHitAt_of_closed
    intro x hx
    rw [List.getElem?_append_right ht] at hx
    exact H.tail_closed x (List.mem_of_getElem? hx)

end SameVerif.Spec
