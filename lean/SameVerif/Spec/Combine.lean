import SameVerif.Spec.Vote
/- What the counters of a header decoded from (H, H, X) must be, stated from the property's wording. -/
namespace SameVerif.Spec
open SameVerif

/-- bit positions on which X (MSb cleared) disagrees with H, plus one per byte of X that had its
    eighth bit set, over the positions where both exist -/
def specParity (H X : List Byte) : Nat :=
  ((H.zip X).map (fun p => disputes2 p.1 (p.2 &&& ~~~(0x80 : Byte)) + (if (p.2 &&& 0x80) != 0 then 1 else 0))).sum

/-- positions of H at which all three bursts were available -/
def specVoting (H X : List Byte) : Nat := min H.length X.length

end SameVerif.Spec
