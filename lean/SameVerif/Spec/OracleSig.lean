import SameVerif.Spec.OracleAsm
/-
  Oracles on complete event traces of the real receiver (signal level): C01, C04, C08, C13 lifecycle.
-/
namespace SameVerif.Spec
open SameVerif

inductive SigEv where
  | link (t : Nat) (kind : Char) (bytes : List Byte)     -- kind: N S R B
  | msg (t : Nat) (m : OutMsg)
  | other (t : Nat)
deriving Repr

def SigEv.time : SigEv → Nat
  | .link t _ _ => t
  | .msg t _ => t
  | .other t => t

/-- C01: the message events are exactly [StartOfMessage H, EndOfMessage] -/
def oracleSigC01 (h : List Byte) (msgs : List Out) : Option String :=
  match msgs.filter (fun o => o.msg != .err) with
  | [s, e] =>
    match s.msg, e.msg with
    | .som t _ _, .eom => if t == h then none else some "StartOfMessage text differs from the transmitted header"
    | _, _ => some "messages are not [StartOfMessage, EndOfMessage]"
  | ms => some s!"expected exactly [StartOfMessage, EndOfMessage], got {ms.length} messages"

/-- C04 on a full trace: bursts are the Link(Burst) events; a forced EndOfMessage is justified by
    an unclosed StartOfMessage more than 135 s earlier -/
def oracleSigC04 (rate : Nat) (evs : List SigEv) : Option String :=
  let bursts : List SBurst := evs.filterMap (fun e => match e with
    | .link t 'B' b => some ⟨"b0", b, t, 0⟩
    | _ => none)
  let outs : List Out := evs.filterMap (fun e => match e with
    | .msg t m => some ⟨t, m⟩
    | _ => none)
  outs.findSome? (fun o =>
    match o.msg with
    | .som text _ _ =>
      if (runsBefore bursts o.t).any (fun r => supportsText r text) then none
      else some s!"StartOfMessage at sample {o.t} is not supported by any run of at most three consecutive bursts"
    | .eom =>
      if (runsBefore bursts o.t).any supportsEom then none
      else
        -- forced by the timer?
        let earlier := outs.filter (fun p => p.t < o.t && p.msg != .err)
        match earlier.getLast? with
        | some p =>
          (match p.msg with
          | .som .. => if o.t > p.t + Gen.MAX_MESSAGE_DURATION_SECS * rate then none
              else some s!"EndOfMessage at sample {o.t} is neither supported by bursts nor by the 135 s timeout"
          | _ => some s!"EndOfMessage at sample {o.t} is neither supported by bursts nor preceded by an unclosed StartOfMessage")
        | none => some s!"EndOfMessage at sample {o.t} without bursts and without a StartOfMessage"
    | .err => none)

/-- C13 lifecycle: link events follow no carrier → searching → {no carrier, reading},
    reading → burst, burst → {no carrier, searching}; timestamps never decrease -/
def oracleLifecycle (evs : List SigEv) : Option String :=
  let links := evs.filterMap (fun e => match e with | .link t k _ => some (t, k) | _ => none)
  let okStep (a b : Char) : Bool :=
    (a == 'N' && b == 'S') || (a == 'S' && (b == 'N' || b == 'R')) || (a == 'R' && b == 'B')
      || (a == 'B' && (b == 'N' || b == 'S'))
  let rec go (prev : Char) : List (Nat × Char) → Option String
    | [] => none
    | (t, k) :: rest => if okStep prev k then go k rest else some s!"link event {prev}→{k} at sample {t} is outside the carrier lifecycle"
  let times := evs.map SigEv.time
  let rec mono : List Nat → Bool
    | a :: b :: r => a ≤ b && mono (b :: r)
    | _ => true
  if !mono times then some "event timestamps decrease" else go 'N' links

/-- C08 at signal level.  `spans`: (first sample, one-past-last sample) of each burst's audio, in
    order: three header bursts then three trailer bursts.
    * an EndOfMessage is reported by the very call that assembles a burst (same sample as a Burst
      link event), unless it is the forced one;
    * a StartOfMessage comes no later than 1.5 s after the end of the last header burst's audio
      when the channel is then quiet (trailer starts later than that). -/
def oracleSigC08With (somRule : Bool) (rate : Nat) (spans : List (Nat × Nat)) (evs : List SigEv) : Option String :=
  let burstTimes := evs.filterMap (fun e => match e with | .link t 'B' _ => some t | _ => none)
  -- (a per-burst "reported within 250 ms of the end of its audio" rule used to be here; the statement bounds
  --  only the StartOfMessage delay — under 20 dB noise a burst can legitimately take 340 ms to terminate,
  --  seen once in 4000 thorough cases — so it was removed: it demanded more than the property)
  let lateBurst : Option String := none
  match lateBurst with
  | some e => some e
  | none =>
    evs.findSome? (fun e =>
      match e with
      | .msg t .eom =>
        if burstTimes.contains t then none
        else
          let earlierSom := evs.any (fun p => match p with
            | .msg tp (.som ..) => tp + Gen.MAX_MESSAGE_DURATION_SECS * rate < t | _ => false)
          if earlierSom then none
          else some s!"EndOfMessage at sample {t} was not reported by the call that assembled a burst"
      | .msg t (.som ..) =>
        match somRule, spans with
        | true, [_, _, h3, e1, _, _] =>
          if e1.1 > h3.2 + (3 * rate) / 2 ∧ t > h3.2 + (3 * rate) / 2 then
            some s!"StartOfMessage {((t - h3.2) * 1000) / rate} ms after the end of its last burst on a quiet channel (bound 1500 ms)"
          else none
        | _, _ => none
      | _ => none)

def oracleSigC08 (rate : Nat) (spans : List (Nat × Nat)) (evs : List SigEv) : Option String :=
  oracleSigC08With true rate spans evs

/-- the intervals `[a, b)` (in samples) during which the link layer reports NoCarrier: from every
    `N` link event to the next link event (`none` = to the end of the stream) -/
def idleIntervals : List SigEv → List (Nat × Option Nat)
  | [] => []
  | .link a 'N' _ :: rest =>
    let nxt := rest.findSome? (fun e => match e with | .link t _ _ => some t | _ => none)
    (a, nxt) :: idleIntervals rest
  | _ :: rest => idleIntervals rest

/-- C08, "a pending result is never held": judged on the event trace alone, for any audio.
    A StartOfMessage is anchored at the last Burst event before it (every burst re-arms the hold, so
    that is the latest possible start of its hold).  It is on time if it comes within 1.5 s of that
    burst.  Later than that is only acceptable if the link layer was never idle (NoCarrier) between
    the expiry of the hold (1.311 s, taken as 1.35 s for clock slack) and 150 ms before the report:
    an idle moment after the deadline must release the message.
    `expect`: when given, exactly one StartOfMessage with this text must have been reported by the
    end of the stream (which ends with 4 s of silence). -/
def oracleSigC08Hold (rate : Nat) (expect : Option (List Byte)) (evs : List SigEv) : Option String :=
  let idle := idleIntervals evs
  let late := evs.findSome? (fun e =>
    match e with
    | .msg t (.som ..) =>
      let tb := (evs.filterMap (fun p => match p with
        | .link tp 'B' _ => if tp ≤ t then some tp else none | _ => none)).getLast?
      match tb with
      | none => some s!"StartOfMessage at sample {t} with no burst before it"
      | some tb =>
        if t ≤ tb + (3 * rate) / 2 then none
        else
          let lo := tb + (135 * rate) / 100
          let hi := t - (15 * rate) / 100
          match idle.find? (fun iv => max iv.1 lo < (match iv.2 with | some b => min b hi | none => hi)) with
          | some iv => some s!"StartOfMessage {((t - tb) * 1000) / rate} ms after the last burst before it, although the hold had expired and the link was idle from sample {max iv.1 lo} (bound 1500 ms, or the first idle moment after the hold)"
          | none =>
            none
    | _ => none)
  -- "never held indefinitely": a StartOfMessage whose text was already carried by two bursts must not
  -- wait for the end of a Reading interval longer than a legal frame (268 bytes = 2144 symbols ≈ 4.12 s,
  -- + 10 % slack): a legal frame ends by itself and the next idle moment releases the pending result
  let maxRead := (2144 * 110 * rate) / (100 * 521)
  let rec readIntervals : List SigEv → List (Nat × Nat)
    | [] => []
    | .link a 'R' _ :: rest =>
      match rest.findSome? (fun e => match e with | .link t2 _ _ => some t2 | _ => none) with
      | some b => (a, b) :: readIntervals rest
      | none => readIntervals rest
    | _ :: rest => readIntervals rest
  let held := evs.findSome? (fun e =>
    match e with
    | .msg t (.som text _ _) =>
      (readIntervals evs).findSome? (fun (a, b) =>
        let carried := (evs.filter (fun p => match p with
          | .link tp 'B' bytes => tp ≤ a ∧ bytes.take text.length == text | _ => false)).length
        if b - a > maxRead ∧ b ≤ t + rate / 10 ∧ carried ≥ 2 then
          some s!"StartOfMessage at sample {t} was carried by {carried} bursts before sample {a} but was held while the link layer read one burst for {((b - a) * 1000) / rate} ms (a maximum-length frame lasts about 4120 ms)"
        else none)
    | _ => none)
  -- the same for a Searching interval: an honest prefix search lasts 21 bytes ≈ 0.32 s; 60 byte times without a
  -- break means every re-synchronisation restarted the search (F9)
  let stuck := (60 * 8 * rate * 100) / Gen.BAUD_CENTIHZ
  let rec searchIntervals : List SigEv → List (Nat × Nat)
    | [] => []
    | .link a 'S' _ :: rest =>
      match rest.findSome? (fun e => match e with | .link t2 _ _ => some t2 | _ => none) with
      | some b => (a, b) :: searchIntervals rest
      | none => searchIntervals rest
    | _ :: rest => searchIntervals rest
  let heldS := evs.findSome? (fun e =>
    match e with
    | .msg t (.som text _ _) =>
      (searchIntervals evs).findSome? (fun (a, b) =>
        let carried := (evs.filter (fun p => match p with
          | .link tp 'B' bytes => tp ≤ a ∧ bytes.take text.length == text | _ => false)).length
        if b - a > stuck ∧ b ≤ t + rate / 10 ∧ a < t ∧ carried ≥ 2 then
          some s!"StartOfMessage at sample {t} was carried by {carried} bursts before sample {a} but was held while the link layer stayed in Searching for {((b - a) * 1000) / rate} ms [cause: every re-synchronisation restarts the 21-byte prefix search]"
        else none)
    | _ => none)
  match (late.orElse (fun _ => held)).orElse (fun _ => heldS) with
  | some e => some e
  | none =>
    match expect with
    | none => none
    | some h =>
      let soms := evs.filterMap (fun e => match e with | .msg _ (.som t _ _) => some t | _ => none)
      if soms == [h] then none
      else if soms.isEmpty then some "the header was sent in two or more bursts and 4 s of silence followed, but no StartOfMessage was ever reported (held indefinitely or lost)"
      else some s!"expected exactly one StartOfMessage with the transmitted text, got {soms.length}"

/-- C02 at signal level: one transmission with header presence mask `hm`, trailer mask `tm`
    (bit 4 = first burst); `lone`: no other burst is heard in the history window before the
    trailer. -/
def oracleSigC02 (h : List Byte) (hm tm : Nat) (lone : Bool) (msgs : List Out) : Option String :=
  let pop (m : Nat) : Nat := m % 2 + m / 2 % 2 + m / 4 % 2
  let soms := msgs.filter (fun o => match o.msg with | .som .. => true | _ => false)
  let eoms := msgs.filter (fun o => o.msg == .eom)
  if pop hm ≥ 2 ∧ soms.length != 1 then
    some s!"two header bursts were sent but {soms.length} StartOfMessage were reported"
  else if pop hm ≥ 2 ∧ !(soms.all (fun o => match o.msg with | .som t _ _ => t == h | _ => false)) then
    some "StartOfMessage text differs from the transmitted header"
  else if pop hm ≤ 1 ∧ soms.length != 0 then some "a header sent in only one burst was reported"
  else if pop tm ≥ 2 ∧ eoms.length != 1 then
    let diag := if eoms.length == 0 ∧ soms.length == 1 ∧ pop hm == 2 ∧ tm == 6
      then " [cause: StartOfMessage still pending at the second trailer burst; its deadline was re-armed by the first trailer burst]" else ""
    some s!"two trailer bursts were sent but {eoms.length} EndOfMessage were reported{diag}"
  else if pop tm == 1 ∧ lone ∧ eoms.length != 1 then
    some s!"a single trailer burst with nothing heard before it must give one EndOfMessage, got {eoms.length}"
  else if pop tm == 0 ∧ eoms.length != 0 then some "EndOfMessage reported although no trailer burst was sent"
  else
    match soms, eoms with
    | [s], [e] => if s.t ≤ e.t then none else some "EndOfMessage reported before StartOfMessage"
    | _, _ => none

/-- C08 on a sequence of transmissions.  `txs`: payload of every transmission; `spans`: (transmission
    index, first sample, one-past-last sample) of every burst actually sent.  A header sent in at
    least two bursts and followed by 1.5 s without any further burst audio must be reported no later
    than 1.5 s after the end of its last burst; every EndOfMessage coincides with a burst event or
    is the forced one. -/
def oracleSigC08Seq (rate : Nat) (txs : List (List Byte)) (spans : List (Nat × Nat × Nat)) (evs : List SigEv) : Option String :=
  match oracleSigC08With false rate (spans.map (fun s => (s.2.1, s.2.2))) evs with
  | some e => some e
  | none =>
    (List.range txs.length).findSome? (fun i =>
      let payload := txs.getD i []
      let mine := spans.filter (fun s => s.1 == i)
      if payload.take 4 == [78, 78, 78, 78] ∨ mine.length < 2 then none
      else
        match mine.getLast? with
        | none => none
        | some last =>
          let endT := last.2.2
          let quiet := spans.all (fun s => s.2.1 ≤ endT ∨ s.2.1 > endT + (3 * rate) / 2)
          let reported := evs.any (fun e => match e with
            | .msg t (.som text _ _) => text == payload ∧ t ≤ endT + (3 * rate) / 2
            | _ => false)
          -- a repeat of a text already reported within the dedup window is legitimately suppressed
          let repeatOfEarlier := (List.range i).any (fun j => txs.getD j [] == payload)
          -- the one known way this happens (F8): the single pending slot was held by ANOTHER header
          -- (ranked by voting count) while this one was assembled, so this one was dropped
          let otherSom := evs.any (fun e => match e with
            | .msg t (.som text _ _) => text != payload ∧ t + rate ≥ (mine.headD (0, 0, 0)).2.1 ∧ t ≤ endT + (3 * rate) / 2
            | _ => false)
          if quiet ∧ !reported ∧ !repeatOfEarlier then
            some s!"the header of transmission {i + 1} ({mine.length} bursts, channel then quiet) was not reported within 1.5 s of the end of its last burst{if otherSom then " [cause: the single pending slot was held by another header while this one was assembled]" else ""}"
          else none)

/-- C05 on a sequence: the reported messages whose text is one of the transmitted payloads form an
    in-order subsequence of the transmissions (nothing twice, nothing out of order) -/
def oracleSigC05Seq (rate nSamples : Nat) (txs : List (List Byte)) (evs : List SigEv) : Option String :=
  let outs : List Out := evs.filterMap (fun e => match e with | .msg t m => some ⟨t, m⟩ | _ => none)
  let bursts : List SBurst := evs.filterMap (fun e => match e with
    | .link t 'B' b => some ⟨"b0", b, t, 0⟩
    | _ => none)
  -- window and hold converted from symbol ticks to input samples
  let histS := HIST * rate * 100 / Gen.BAUD_CENTIHZ
  match oracleC05With histS (HOLD * rate * 100 / Gen.BAUD_CENTIHZ) txs bursts outs with
  | some e => some e
  | none =>
    -- "the same message transmitted again after that window is reported again": a text reported at `u` and then
    -- carried again by at least two bursts that all end later than `u + window + 0.5 s`, with no burst of any OTHER
    -- text within 2 s of them (the single pending slot, F8) and the stream going on for 2 s after the last of them,
    -- must be reported a second time
    let lastT := max nSamples ((evs.map SigEv.time).foldl max 0)   -- the end of the audio, not of the events
    outs.findSome? (fun o =>
      match o.msg with
      | .som text _ _ =>
        let again := bursts.filter (fun b => b.t > o.t + histS + rate / 2 ∧ b.bytes.take text.length == text)
        match again.head?, again.getLast? with
        | some b1, some b2 =>
          let others := bursts.any (fun b => b.bytes.take text.length != text ∧ b.t + 2 * rate > b1.t ∧ b.t < b2.t + 2 * rate)
          let reportedAgain := outs.any (fun p => decide (p.t > o.t) && (match p.msg with | .som t2 _ _ => t2 == text | _ => false))
          -- the one known way this happens (F8): before the repeat was released, the burst of ANOTHER header arrived
          -- and took the single pending slot (ranked by voting count); that header is then reported instead
          let otherSom := outs.any (fun p => decide (p.t > b2.t) && decide (p.t < b2.t + 8 * rate)
            && (match p.msg with | .som t2 _ _ => t2 != text | _ => false))
          if again.length ≥ 2 ∧ !others ∧ b2.t + 2 * rate ≤ lastT ∧ !reportedAgain then
            some s!"the message reported at sample {o.t} was carried again by {again.length} bursts after the suppression window (first at sample {b1.t}) but was not reported again{if otherSom then " [cause: the single pending slot was taken by another header before the repeat was released]" else ""}"
          else none
        | _, _ => none
      | _ => none)

/-- C05 for a single transmission: at most one StartOfMessage and at most one EndOfMessage -/
def oracleSigC05One (msgs : List Out) : Option String :=
  let soms := msgs.filter (fun o => match o.msg with | .som .. => true | _ => false)
  let eoms := msgs.filter (fun o => o.msg == .eom)
  if soms.length > 1 then some s!"one transmission produced {soms.length} StartOfMessage"
  else if eoms.length > 1 then some s!"one transmission produced {eoms.length} EndOfMessage"
  else none

/-- C09 on a full trace: every StartOfMessage (at sample p) is followed by an EndOfMessage — or a
    newer StartOfMessage, which re-arms the timer — no later than p + (135 + 6) s; and no burst is
    longer than the maximum frame's data (252 bytes). -/
def oracleSigC09 (rate nSamples : Nat) (evs : List SigEv) : Option String :=
  let msgs := evs.filterMap (fun e => match e with | .msg t m => some (t, m) | _ => none)
  let tooLong := evs.findSome? (fun e => match e with
    | .link t 'B' b => if b.length > Gen.MAX_BURST_LENGTH then some s!"burst of {b.length} bytes at sample {t} exceeds the maximum frame length" else none
    | _ => none)
  -- the end of the audio: the number of input samples (a first version took the time of the LAST EVENT, so a
  -- StartOfMessage after which nothing at all happened for 141 s was taken for "the audio ended": seed C09d)
  let lastT := max nSamples ((evs.map SigEv.time).foldl max 0)
  -- diagnosis of the one known way this happens (F9): the link layer stayed in Searching without a break
  -- across the timeout (an honest prefix search lasts 21 bytes ≈ 0.32 s; 60 byte times are taken as "stuck")
  let stuck := (60 * 8 * rate * 100) / Gen.BAUD_CENTIHZ
  let rec searchSpans : List SigEv → List (Nat × Nat)
    | [] => []
    | .link a 'S' _ :: rest =>
      let b := (rest.findSome? (fun e => match e with | .link t2 _ _ => some t2 | _ => none)).getD lastT
      (a, b) :: searchSpans rest
    | _ :: rest => searchSpans rest
  let cause (p : Nat) : String :=
    let deadline := p + Gen.MAX_MESSAGE_DURATION_SECS * rate
    match (searchSpans evs).find? (fun (a, b) => a ≤ deadline ∧ deadline + 2 * rate ≤ b ∧ b - a > stuck) with
    | some (a, b) => s!" [cause: link layer in Searching without a break for {(b - a) / rate} s across the timeout: every re-synchronisation restarts the 21-byte prefix search]"
    | none => ""
  let rec go : List (Nat × OutMsg) → Option String
    | [] => none
    | (p, .som ..) :: rest =>
      let closing := rest.find? (fun q => match q.2 with | .eom => true | .som .. => true | .err => false)
      match closing with
      | some q => if q.1 > p + (Gen.MAX_MESSAGE_DURATION_SECS + 6) * rate then
            some s!"StartOfMessage at sample {p} was closed only after {(q.1 - p) / rate} s{cause p}"
          else go rest
      | none =>
        -- only a violation if the audio went on long enough for the timeout
        if lastT > p + (Gen.MAX_MESSAGE_DURATION_SECS + 6) * rate then
          some s!"StartOfMessage at sample {p} was never followed by an EndOfMessage although the audio continued for {(lastT - p) / rate} s{cause p}"
        else go rest
    | _ :: rest => go rest
  match tooLong with
  | some e => some e
  | none => go msgs

/-- C14: what was delivered before the cut plus what repeated flush() calls return is exactly the
    transmission's messages, in order, and flush() then returns None (and keeps returning None) -/
def oracleSigC14 (hs : List (List Byte)) (full : Bool) (before flushed : List OutMsg) (endsNone : Bool) : Option String :=
  let all := before ++ flushed
  -- `hs`: the headers transmitted (each in at least two bursts), in order; `full`: the last one's trailer too
  let expected : List OutMsg := hs.map (fun h => OutMsg.som h 0 0) ++ (if full then [.eom] else [])
  let same := all.length == expected.length && (all.zip expected).all (fun (a, e) =>
    match a, e with
    | .som t _ _, .som t' _ _ => t == t'
    | .eom, .eom => true
    | _, _ => false)
  if !endsNone then some "flush() did not end with None"
  else if !same then some s!"messages before the cut + from flush() are not the transmission's messages (got {all.length}, expected {expected.length})"
  else none

end SameVerif.Spec
