import SameVerif.Spec.Published
import SameVerif.Gen.Tables
/- Executable oracle for C16, from the property's wording and the published table only. -/
namespace SameVerif.Spec
open SameVerif.Gen

def impliedSig (last : Nat) : String :=
  if last == 84 then "Test" else if last == 83 then "Statement" else if last == 69 then "Emergency"
  else if last == 65 then "Watch" else if last == 87 then "Warning" else "Unknown"

def sigNumOf (name : String) : Option Nat :=
  ["Test", "Statement", "Emergency", "Watch", "Warning", "Unknown"].idxOf? name

/-- `code`: the UTF-8 bytes of the event string; the rest: the implementation's answer -/
def oracleEvt (code : List Nat) (phen sig : String) (num : Nat) (disp : List Nat)
    (test unrec : Bool) : Option String :=
  -- the phenomena that are tests whatever their significance
  let testPhen := ["NationalAudibleTest", "NationalPeriodicTest", "NationalSilentTest", "RequiredMonthlyTest", "RequiredWeeklyTest"]
  if disp.contains 37 then some "display string keeps an unexpanded '%'"
  else if test != (sig == "Test" || testPhen.contains phen) then
    some "is_test() is inconsistent: it must be true exactly when the significance is Test or the phenomenon is a test"
  else if unrec != (phen == "Unrecognized" || sig == "Unknown") then
    some "is_unrecognized() is inconsistent with the decoded phenomenon/significance"
  else if sigNumOf sig != some num then some "numeric significance is not the index in Test<Statement<Emergency<Watch<Warning<Unknown"
  else
    match publishedCodes.find? (fun r => r.1 == code) with
    | some r =>
      if phen == r.2.1.info.name && sig == r.2.2.name then none
      else some "published code decoded to something else than its documented phenomenon/significance"
    | none =>
      match code with
      | [_, _, c] => if sig == impliedSig c then none else some "fallback significance is not the one implied by the last letter"
      | _ =>
        -- not three bytes: nothing is implied (a trailing multi-byte character is not a letter)
        if code.length == 3 then none
        else if sig == "Unknown" && phen == "Unrecognized" then none
        else some "a string that is not a three-character code must decode to Unrecognized/Unknown"

def oracleOrg (org call : List Nat) (name : String) : Option String :=
  let ec := call.take 3 == [69, 67, 47]
  let exp : Option String :=
    if org == [80, 69, 80] then some "PrimaryEntryPoint"
    else if org == [67, 73, 86] then some "CivilAuthority"
    else if org == [69, 65, 83] then some "BroadcastStation"
    else if org == [87, 88, 82] then some (if ec then "EnvironmentCanada" else "NationalWeatherService")
    else if org.length == 3 then some "Unknown"
    else none
  match exp with
  | some e => if e == name then none else some s!"originator should be {e}"
  | none => none

end SameVerif.Spec
