import SameVerif.Spec.Vote
import SameVerif.Gen.Constants
/-
  Executable oracles on transport-level scenarios (C02, C04, C05, C08): judge the messages an
  implementation reported for a scripted burst history.  Written from the property statements;
  independent of Model/Assembler and Model/Combiner.
-/
namespace SameVerif.Spec
open SameVerif

/-- scripted burst: role (`h<i>` intact header of transmission i, `e<i>` intact trailer,
    `x<i>` corrupted/foreign burst sent in transmission i's slot), bytes, event tick, busy window -/
structure SBurst where
  role : String
  bytes : List Byte
  t : Nat
  busy : Nat

inductive OutMsg where
  | som (text : List Byte) (par vot : Nat)
  | eom
  | err
deriving Repr, DecidableEq

structure Out where
  t : Nat
  msg : OutMsg

def HOLD : Nat := Gen.MAX_INTERBURST_SYMBOLS
def HIST : Nat := Gen.MAX_HISTORY_DURATION

def roleKind (b : SBurst) : Char := b.role.front
def roleTx (b : SBurst) : Nat := (b.role.drop 1).toString.toNat?.getD 0

def msk (b : Byte) : Byte := b &&& 0x7f

-- ---------------------------------------------------------------- C04: evidence

/-- does the run (≤ 3 bursts) support byte `c` at position `i`? equal (after MSb masking) in at
    least two bursts, or the bitwise majority of three -/
def supportsByte (run : List (List Byte)) (i : Nat) (c : Byte) : Bool :=
  let avail := run.filterMap (fun b => (b[i]?).map msk)
  let agree := (avail.filter (· == c)).length ≥ 2
  let maj := match avail with
    | [a, b, d] => (List.range 8).all (fun k => bitOf c k == maj (bitOf a k) (bitOf b k) (bitOf d k))
    | _ => false
  agree || maj

def supportsText (run : List (List Byte)) (text : List Byte) : Bool :=
  run.length ≥ 2 && (List.range text.length).all (fun i => supportsByte run i (text.getD i 0))

/-- weak support (what `combine`'s trailer rule rests on, C04.eom_supported): at position `i` the
    byte `c` is the lone byte of the only burst that reaches it, the common byte of the two that do,
    or the bitwise majority of three -/
def weaklySupportsByte (run : List (List Byte)) (i : Nat) (c : Byte) : Bool :=
  match run.filterMap (fun b => (b[i]?).map msk) with
  | [a] => a == c
  | [a, b] => a == c && b == c
  | [a, b, d] => (List.range 8).all (fun k => bitOf c k == maj (bitOf a k) (bitOf b k) (bitOf d k))
  | _ => false

/-- a run supports an end-of-message if it combines to an `NN`-prefixed estimate: its per-position
    vote begins `NN`.  (The property says "a run combining to an NN-prefixed trailer"; positions that only one
    burst of the run reaches count with that burst's byte, exactly as in `combine` — a first version of this
    rule demanded two agreeing bursts at both positions and alarmed on `["N", "N", "MNNN"]`, which the code
    rightly reports: false alarm of the oracle, found by the thorough tier after the damaged-prefix family
    was added.) -/
def supportsEom (run : List (List Byte)) : Bool :=
  weaklySupportsByte run 0 78 && weaklySupportsByte run 1 78

/-- all runs of 1..3 consecutive bursts among those that ended at or before `t` -/
def runsBefore (bursts : List SBurst) (t : Nat) : List (List (List Byte)) :=
  let past := (bursts.filter (fun b => b.t ≤ t)).map (·.bytes)
  let n := past.length
  (List.range n).flatMap (fun i =>
    [1, 2, 3].filterMap (fun len => if i + len ≤ n then some ((past.drop i).take len) else none))

def oracleC04 (bursts : List SBurst) (outs : List Out) : Option String :=
  outs.findSome? (fun o =>
    match o.msg with
    | .som text _ _ =>
      if (runsBefore bursts o.t).any (fun r => supportsText r text) then none
      else some s!"StartOfMessage at tick {o.t} is not supported by any run of at most three consecutive bursts"
    | .eom =>
      if (runsBefore bursts o.t).any supportsEom then none
      else some s!"EndOfMessage at tick {o.t} is not supported by any run of bursts"
    | .err => none)

-- ---------------------------------------------------------------- C02: two of three / single never / EOM rules
-- one header transmission (tx 1) optionally followed by one trailer transmission (tx 2)

def oracleC02 (txs : List (List Byte)) (bursts : List SBurst) (outs : List Out) : Option String :=
  let hs := bursts.filter (fun b => roleKind b == 'h')
  let tx1 := bursts.filter (fun b => roleTx b == 1)
  let es := bursts.filter (fun b => roleKind b == 'e')
  let soms := outs.filter (fun o => match o.msg with | .som .. => true | _ => false)
  let eoms := outs.filter (fun o => o.msg == .eom)
  let hText : List Byte := txs.headD []
  -- the one known way the text can differ (F7): bytes voted AFTER the end of the header (link-layer
  -- garbage of the intact bursts against the corrupted burst) read `x…-` and the greedy callsign
  -- match `.{3,8}-` swallows them
  let extended := soms.any (fun o => match o.msg with
    | .som t _ _ => t.length > hText.length ∧ t.take hText.length == hText ∧ t.getLast? == some 45
    | _ => false)
  let diagExt := if extended then " [cause: voted bytes after the end of the header extended the greedy callsign match]" else ""
  if hs.length ≥ 2 ∧ soms.length != 1 then
    some s!"two header bursts arrived intact but {soms.length} StartOfMessage were reported{diagExt}"
  else if hs.length ≥ 2 ∧ !(soms.all (fun o => match o.msg with | .som t _ _ => t == hText | _ => false)) then
    some s!"two header bursts arrived intact but the reported text is not the transmitted header{diagExt}"
  else if tx1.length ≤ 1 ∧ soms.length != 0 then
    some "a header heard in only one burst was reported"
  else if es.length ≥ 2 ∧ eoms.length != 1 then
    -- diagnose the one known way this happens (F4): a StartOfMessage was still pending when the
    -- second trailer burst was assembled, because the first trailer burst re-voted it
    let diag := match es, soms with
      | e1 :: e2 :: _, [s] =>
        if eoms.length == 0 ∧ e1.t < s.t ∧ s.t ≤ max (e1.t + HOLD) e2.t ∧ e2.t ≤ s.t ∧ es.length == 2
        then " [cause: StartOfMessage still pending at the second trailer burst; its deadline was re-armed by the first trailer burst]"
        else ""
      | _, _ => ""
    some s!"two trailer bursts arrived but {eoms.length} EndOfMessage were reported{diag}"
  else if es.length == 1 && eoms.length != 1
      && (match es with
          | [e] => bursts.all (fun b => b.t == e.t || b.t + HIST ≤ e.t || b.t > e.t)
          | _ => false) then
    some s!"a single trailer burst with nothing heard in the preceding history window must give one EndOfMessage, got {eoms.length}"
  else if es.length == 0 ∧ eoms.length != 0 then
    some "EndOfMessage reported although no trailer burst arrived"
  else
    match soms, eoms with
    | [s], [e] => if s.t ≤ e.t then none else some "EndOfMessage reported before StartOfMessage"
    | _, _ => none

-- ---------------------------------------------------------------- C05: once, in order, dedup window

def outText (o : Out) : Option (List Byte) :=
  match o.msg with
  | .som t _ _ => some t
  | .eom => some [78, 78, 78, 78]
  | .err => none

/-- is `xs` a subsequence of `ys`? -/
def isSubseq : List (List Byte) → List (List Byte) → Bool
  | [], _ => true
  | _ :: _, [] => false
  | x :: xs, y :: ys => if x == y then isSubseq xs ys else isSubseq (x :: xs) ys

/-- `txs`: the payload of every transmission, in order.  Reports whose text is none of the
    transmitted payloads (garbled by corruption) are C04's business, not this oracle's. -/
def oracleC05With (HIST HOLD : Nat) (txs : List (List Byte)) (bursts : List SBurst) (outs : List Out) : Option String :=
  let reported := (outs.filterMap (fun o => (outText o).map (fun t => (o.t, t)))).filter (fun p => txs.contains p.2)
  if isSubseq (reported.map (·.2)) txs then none
  else
    -- diagnose the one known way this happens (F5 family): a message is reported again when its
    -- duplicate-suppression entry (report tick + HIST) has expired while bursts that carry it are
    -- still in the history, and any further burst arrives
    let diag := reported.findSome? (fun (t2, txt) =>
      reported.findSome? (fun (t1, txt1) =>
        if txt1 == txt ∧ t1 < t2 ∧ t1 + HIST ≤ t2
            ∧ bursts.any (fun b => b.t ≤ t2 ∧ t2 < b.t + HIST + HOLD + 1 ∧ t1 ≤ b.t + HOLD
                ∧ (b.bytes.take txt.length).map msk == txt)
        then some " [cause: stale history outlived the duplicate-suppression entry]" else none))
    some s!"reported messages are not an in-order subsequence of the transmissions (a transmission reported twice, or out of order){diag.getD ""}"

def oracleC05 (txs : List (List Byte)) (bursts : List SBurst) (outs : List Out) : Option String :=
  oracleC05With HIST HOLD txs bursts outs

/-- dedup window clauses, for scenarios that repeat one message: every repeat whose bursts all end
    before `report + HIST` must be suppressed; a repeat that lies entirely after the window must be
    reported again -/
def oracleC05Window (bursts : List SBurst) (outs : List Out) : Option String :=
  let reported := outs.filterMap (fun o => (outText o).map (fun t => (o.t, t)))
  match reported with
  | (t1, txt) :: rest =>
    let sameLater := rest.filter (fun p => p.2 == txt)
    let tx2 := bursts.filter (fun b => roleTx b == 2 && (roleKind b == 'h' || roleKind b == 'e'))
    if tx2.length < 2 then none
    else if tx2.all (fun b => b.t < t1 + HIST) ∧ bursts.all (fun b => roleTx b ≤ 2) ∧ sameLater.length != 0 then
      some "an identical message heard again inside the window was reported again"
    else if tx2.all (fun b => b.t ≥ t1 + HIST + (b.busy + 64)) ∧ bursts.all (fun b => roleTx b ≤ 2) ∧ sameLater.length != 1 then
      some s!"the same message transmitted again after the window must be reported again (got {sameLater.length} further reports)"
    else none
  | [] => none

/-- C05, suppression window, on ANY history: "an identical message heard again within the window of the previous
    report is suppressed".  For two CONSECUTIVE message reports (decode errors do not count and must not reset
    anything) of the same header text at `t1 < t2`: the last burst carrying that text at or before `t2` must have
    ended at or after `t1 + HIST` — otherwise everything that was heard of the repeat lay inside the window.
    The one known way around it (F5, second form): a burst of something ELSE arriving after the suppression entry
    has expired re-votes the remembered repeat; diagnosed. -/
def oracleC05Gap (bursts : List SBurst) (outs : List Out) : Option String :=
  let reported := outs.filterMap (fun o => match o.msg with
    | .som t _ _ => some (o.t, some t) | .eom => some (o.t, none) | .err => none)
  let rec go : List (Nat × Option (List Byte)) → Option String
    | (t1, some a) :: (t2, some b) :: rest =>
      let carriers := bursts.filter (fun x => x.t ≤ t2 ∧ x.t > t1 ∧ (x.bytes.map msk).take a.length == a)
      match carriers.getLast? with
      | some lastC =>
        if a == b ∧ lastC.t < t1 + HIST then
          let revived := bursts.any (fun x => x.t ≥ t1 + HIST ∧ x.t ≤ t2 ∧ (x.bytes.map msk).take a.length != a)
          some s!"the header reported at tick {t1} was reported again at tick {t2} although the last burst carrying it ended at tick {lastC.t}, inside the suppression window (until {t1 + HIST}), with no other message in between{if revived then " [cause: revived by a later burst of another text after the suppression entry had expired]" else ""}"
        else go ((t2, some b) :: rest)
      | none => go ((t2, some b) :: rest)
    | _ :: rest => go rest
    | [] => none
  go reported

-- ---------------------------------------------------------------- C08: delay bounds

/-- "An end-of-message is reported as soon as the burst that establishes it has ended": a burst beginning `NN`
    that arrives when every earlier burst ended more than the history time before it (so it stands alone: the
    documented fast EOM) must be reported as EndOfMessage by that very call — unless an EndOfMessage was already
    reported inside the suppression window before it. -/
def loneTrailerRule (bursts : List SBurst) (outs : List Out) : Option String :=
  bursts.findSome? (fun b =>
    let isNN := (b.bytes.take 2).map msk == [78, 78]
    let alone := bursts.all (fun x => x.t ≥ b.t ∨ x.t + HIST + 2 ≤ b.t)
    let recentEom := outs.any (fun o => o.msg == .eom ∧ o.t < b.t ∧ b.t < o.t + HIST + 2)
    if isNN ∧ alone ∧ !recentEom ∧ !(outs.any (fun o => o.msg == .eom ∧ o.t == b.t)) then
      some s!"the trailer burst at tick {b.t} stands alone (every earlier burst ended more than {HIST} ticks before it) but no EndOfMessage was reported by the call that assembled it"
    else none)

def oracleC08 (bursts : List SBurst) (outs : List Out) : Option String :=
  (loneTrailerRule bursts outs).orElse fun _ =>
  outs.findSome? (fun o =>
    match o.msg with
    | .eom =>
      if bursts.any (fun b => b.t == o.t) then none
      else some s!"EndOfMessage at tick {o.t} was not reported by the call that assembled a burst"
    | .som _ _ _ =>
      -- the estimate that is reported was accepted by the call that assembled some burst: the
      -- last burst at or before the report (any burst can complete a vote)
      match (bursts.filter (fun b => b.t ≤ o.t)).getLast? with
      | none => some s!"StartOfMessage at tick {o.t} without any burst before it"
      | some last =>
        -- quiet channel: no busy window and no burst in (last.t, last.t + HOLD]
        let quiet := bursts.all (fun b => b.t ≤ last.t || b.t - b.busy ≥ last.t + HOLD + 1)
        if quiet ∧ o.t > last.t + HOLD then
          some s!"StartOfMessage reported {o.t - last.t} ticks after the last burst on a quiet channel (hold is {HOLD})"
        else none
    | .err => none)

end SameVerif.Spec
