/- Executable oracle for C15 with its own calendar (year-by-year counting), independent of Model/Time. -/
namespace SameVerif.Spec

def leapYear (y : Int) : Bool := (y % 4 == 0 && y % 100 != 0) || y % 400 == 0

/-- days from 1970-01-01 to `y`-01-01 by counting year lengths (|y - 1970| steps) -/
def daysFrom1970 (y : Int) : Int :=
  if y ≥ 1970 then
    (List.range (y - 1970).toNat).foldl (fun (acc : Int) (k : Nat) => acc + (if leapYear (1970 + (k : Int)) then 366 else 365)) 0
  else
    (List.range (1970 - y).toNat).foldl (fun (acc : Int) (k : Nat) => acc - (if leapYear (1969 - (k : Int)) then 366 else 365)) 0

/-- seconds since the epoch of (y, day of year, h, m) -/
def trueEpoch (y : Int) (d h m : Nat) : Int := (daysFrom1970 y + d - 1) * 86400 + h * 3600 + m * 60

end SameVerif.Spec
