import SameVerif.Model.Header
import SameVerif.Model.Events
import SameVerif.Model.App
/-
  Oracles for the samedec program (C11, C12, C19), from the property statements.
-/
namespace SameVerif.Spec
open SameVerif

/-- C11: what samedec printed is exactly the library's messages (those decoded while input lasts,
    then those completed at end of input), one per line, in order; nothing with --quiet -/
def oracleC11 (inp : AppInput) (quiet : Bool) (printed : List AMsg) (garbage : Bool) : Option String :=
  let expected := if quiet then [] else inp.live.map (·.2) ++ inp.flushed
  if garbage then some "standard output contains a line that is not a message"
  else if printed == expected then none
  else some s!"printed {printed.length} messages, the library decodes {expected.length} (or they differ in text/order)"

def envLookup (env : List (String × List Nat)) (k : String) : Option (List Nat) :=
  (env.find? (fun p => p.1 == k)).map (·.2)

def asciiNat (s : List Nat) : Option Nat :=
  if s.isEmpty then none
  else if s.all (fun c => 48 ≤ c ∧ c ≤ 57) then some (s.foldl (fun n c => 10 * n + (c - 48)) 0) else none

def joinSp (xs : List (List Nat)) : List Nat := [32].intercalate xs

/-- C12, environment: the SAMEDEC_* variables restate the header consistently -/
def oracleEnv (rate : Nat) (text : List Nat) (env : List (String × List Nat)) : Option String :=
  let bytes := text.map UInt8.ofNat
  match Header.new bytes with
  | .error _ => some "child spawned for a text that is not a header"
  | .ok h =>
    let get := envLookup env
    let org := (h.originatorStr.toOption.getD []).map (·.toNat)
    let evt := (h.eventStr.toOption.getD []).map (·.toNat)
    let call := (h.callsign.toOption.getD []).map (·.toNat)
    let locs := (h.locations.toOption.getD []).map (fun l => l.map (·.toNat))
    let ev := eventCode evt
    let dur := h.validDurationFields.toOption.getD (0, 0)
    if get "SAMEDEC_MSG" != some text then some "SAMEDEC_MSG is not the header text"
    else if get "SAMEDEC_RATE" != some ((toString rate).toUTF8.toList.map (·.toNat)) then some "SAMEDEC_RATE"
    else if get "SAMEDEC_ORG" != some org then some "SAMEDEC_ORG is not the originator field"
    else if get "SAMEDEC_ORIGINATOR" != some (originatorOf org call).display then some "SAMEDEC_ORIGINATOR"
    else if get "SAMEDEC_EVT" != some evt then some "SAMEDEC_EVT is not the event field"
    else if get "SAMEDEC_EVENT" != some (eventDisplay ev) then some "SAMEDEC_EVENT"
    else if get "SAMEDEC_SIGNIFICANCE" != some ev.2.code then some "SAMEDEC_SIGNIFICANCE"
    else if get "SAMEDEC_SIG_NUM" != some ((toString ev.2.num).toUTF8.toList.map (·.toNat)) then some "SAMEDEC_SIG_NUM"
    else if get "SAMEDEC_LOCATIONS" != some (joinSp locs) then some "SAMEDEC_LOCATIONS is not the space-separated location list"
    else if get "SAMEDEC_IS_NATIONAL" != some (if locs == [[48, 48, 48, 48, 48, 48]] ∧ ev.1.info.national then [89] else []) then some "SAMEDEC_IS_NATIONAL"
    else
      match get "SAMEDEC_ISSUETIME", get "SAMEDEC_PURGETIME" with
      | some [], some [] => none        -- issue time not computable for the receive time: both empty
      | some i, some p =>
        match asciiNat i, asciiNat p with
        | some i, some p => if p = i + 3600 * dur.1 + 60 * dur.2 then none else some "PURGETIME - ISSUETIME is not the validity duration"
        | _, _ => some "ISSUETIME/PURGETIME are not both numbers or both empty"
      | _, _ => some "ISSUETIME/PURGETIME missing"

/-- C12, audio: exactly one child per StartOfMessage; the k-th child's stdin is the input from the
    sample after its header was returned up to and including the sample that completes the next
    message (or the end of input), byte for byte -/
def oracleChildren (inp : AppInput) (kids : List (AMsg × Nat × Nat × Bool)) : Option String :=
  let all : List (Nat × AMsg) := inp.live ++ inp.flushed.map (fun m => (inp.n, m))
  let rec expected : List (Nat × AMsg) → List (AMsg × Nat × Nat)
    | [] => []
    | (p, .som t) :: rest =>
      let stop := match rest with | (q, _) :: _ => q | [] => inp.n
      (.som t, p, stop) :: expected rest
    | _ :: rest => expected rest
  let exp := expected all
  if kids.any (fun k => k.2.2.2) then some "a child's stdin is not the exact bytes of that stretch of the input"
  else if kids.map (fun k => (k.1, k.2.1, k.2.2.1)) == exp then none
  else some s!"{kids.length} children ran for {exp.length} StartOfMessage, or a child's audio does not span from its header to the next message"

end SameVerif.Spec
