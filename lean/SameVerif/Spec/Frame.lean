import SameVerif.Model.Framer
/-
  Declarative specification of framing for one start (C07): what the link layer must report,
  byte by byte, for a stream fed to a framer that is (re)started at the first byte and then
  left alone (no further restart, no `end()`).

  Written with "least index such that" and cumulative counts, not as a state machine.
-/
namespace SameVerif.Spec
open SameVerif

/-- the 32-bit window ending after `k` bytes of the stream (zero-padded on the left) -/
def windowAt (bs : List Byte) (k : Nat) : List Byte :=
  let padded := [0, 0, 0, 0] ++ bs.take k
  padded.drop (padded.length - 4)

def wordOf (w : List Byte) : UInt32 :=
  w.foldl (fun acc b => (acc <<< 8) ||| b.toUInt32) 0

/-- least `k` in 1..=22 (and within the stream) whose window is within the prefix budget -/
def startIndex (pb : Nat) (bs : List Byte) : Option Nat :=
  ((List.range (min bs.length (Gen.PREFIX_SEARCH_LEN + 1))).map (· + 1)).find?
    (fun k => prefixErrors (wordOf (windowAt bs k)) ≤ pb)

/-- number of disallowed bytes among the first `j` data bytes -/
def invalidUpTo (ds : List Byte) (j : Nat) : Nat := ((ds.take j).filter (fun b => !isAllowed b)).length

/-- least `j ≥ 1` at which the burst ends: the `j`-th data byte makes the invalid count exceed the
    budget, or the burst already holds the maximum length -/
def endIndex (ib : Nat) (ds : List Byte) : Option Nat :=
  ((List.range ds.length).map (· + 1)).find?
    (fun j => invalidUpTo ds j > ib || 4 + (j - 1) ≥ Gen.MAX_BURST_LENGTH)

/-- the link state reported for byte number `i` (1-based) of the stream -/
def linkAt (pb ib : Nat) (bs : List Byte) (i : Nat) : LinkSt :=
  match startIndex pb bs with
  | none => if i ≤ Gen.PREFIX_SEARCH_LEN then .searching else .noCarrier
  | some k0 =>
    if i < k0 then .searching
    else if i == k0 then (if i == 1 then .searching else .reading)   -- a restart call itself reports Searching
    else
      let ds := bs.drop k0
      let j := i - k0
      match endIndex ib ds with
      | none => .reading
      | some je =>
        if j < je then .reading
        else if j == je then .burst (windowAt bs k0 ++ ds.take (je - 1))
        else .noCarrier

def specStates (pb ib : Nat) (bs : List Byte) : List LinkSt :=
  (List.range bs.length).map (fun i => linkAt pb ib bs (i + 1))

end SameVerif.Spec
