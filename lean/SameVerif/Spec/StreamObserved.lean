import SameVerif.Spec.FrontEnd2
import SameVerif.Lemmas.LinkBits
/-
  The realistic front-end assumptions in OBSERVATIONAL form, for a whole tick stream processed from
  the initial link state `{}`: a decidable condition on the stream and a list of burst positions.

  `StreamObserved maxErr stream segs`, `segs = [(o, payload, acq, rel), …]`:
  * per burst, the clauses of `Spec.BurstObserved'` at global indices: body = `stream[o, o + 8F)`,
    tail = the next `rel + 40` ticks;
  * the bursts are in order and do not overlap (the next body starts at or after the end of the
    previous minimal tail), the first body starts at tick 32 or later;
  * **no false hits, globally**: every tick `t ≥ 31` of the stream that is not in a synchronised
    stretch `[o_k + acq_k + 31, o_k + 8F_k)` has the open threshold not met or a correlator window
    (the last 32 hard decisions) more than `maxErr` bits from the sync word.  Ticks `t < 31` are
    free: the model's sample history is not yet full, it cannot hit.

  The condition is stated over an index function `tk : Nat → Tick` and a length (`StreamObservedF`)
  so that the very same proposition is evaluated on an `Array` (`Spec/FrontEndCheck.lean`,
  `streamObservedB := decide …`) and reasoned about on a `List` (`Thm/C01s.lean`).
-/
namespace SameVerif.Spec
open SameVerif

/-- one burst of a stream: global index `o` of the first transmitted bit, the transmitted payload,
    acquisition index (relative to `o`) and release time of `Spec.BurstObserved'` -/
structure BurstSpec where
  o : Nat
  payload : List Byte
  acq : Nat
  rel : Nat
deriving Repr

/-- number of transmitted bits -/
def BurstSpec.n (g : BurstSpec) : Nat := 8 * (frameOf g.payload).length
/-- global index of the first tick after the last transmitted bit -/
def BurstSpec.e (g : BurstSpec) : Nat := g.o + g.n
/-- global index of the first tick after the minimal tail (`rel + 40` ticks) -/
def BurstSpec.stop (g : BurstSpec) : Nat := g.o + g.n + (g.rel + 40)

/-- the tick read beyond the end of a stream (never relevant: all indices are bounded) -/
def dfltTick : Tick := (⟨false, false, false⟩, 0)

/-- correlator window error at stream index `t` (`31 ≤ t`): differences between the sync word and
    the last 32 hard decisions -/
def windowErrF (tk : Nat → Tick) (t : Nat) : Nat :=
  (List.range 32).countP (fun i => SYNC_WORD.toBitVec.getLsbD i != (tk (t - 31 + i)).1.bit)

/-- observationally, no sync hit is possible at tick `t`: the open threshold is not met or the
    window is more than `maxErr` bits from the sync word -/
def QuietAtF (maxErr : Nat) (tk : Nat → Tick) (t : Nat) : Prop :=
  (tk t).1.openOk = false ∨ maxErr < windowErrF tk t

/-- the clauses of `BurstObserved'` for burst `g`, at global indices -/
def BurstAtF (tk : Nat → Tick) (len : Nat) (g : BurstSpec) : Prop :=
  g.stop ≤ len
  ∧ g.acq ≤ 89
  ∧ (∀ j, j < g.n → g.acq ≤ j → (tk (g.o + j)).1.bit = frameBit (frameOf g.payload) j)
  ∧ (∀ j, j < g.n → g.acq + 31 ≤ j → (tk (g.o + j)).1.openOk = true)
  ∧ (∀ j, j < g.n → g.acq ≤ j → (tk (g.o + j)).1.closeOk = true)
  ∧ (∀ m, m < (frameOf g.payload).length - 3 →
      (tk (g.o + (8 * (m + 3) + 7))).2 = (frameOf g.payload).getD m 0)
  ∧ (∀ m, m < 3 →
      (tk (g.e + (8 * m + 7))).2 = (frameOf g.payload).getD ((frameOf g.payload).length - 3 + m) 0)
  ∧ (∀ k, k < g.rel → (tk (g.e + k)).1.closeOk = true)
  ∧ (∀ k, k < g.rel + 40 → g.rel ≤ k → (tk (g.e + k)).1.closeOk = false)

/-- bursts in order, not overlapping, the first body starting at `lo` or later -/
def orderedFrom : Nat → List BurstSpec → Prop
  | _, [] => True
  | lo, g :: gs => lo ≤ g.o ∧ orderedFrom g.stop gs

/-- tick `t` lies in the synchronised stretch of one of the bursts -/
def InSynced (segs : List BurstSpec) (t : Nat) : Prop :=
  ∃ g ∈ segs, g.o + g.acq + 31 ≤ t ∧ t < g.o + g.n

/-- **the realistic front-end assumptions on a whole stream**, over an index function -/
def StreamObservedF (maxErr : Nat) (tk : Nat → Tick) (len : Nat) (segs : List BurstSpec) : Prop :=
  (∀ g ∈ segs, BurstAtF tk len g)
  ∧ orderedFrom 32 segs
  ∧ (∀ t, t < len → 31 ≤ t → InSynced segs t ∨ QuietAtF maxErr tk t)

/-- … on a list of ticks -/
def StreamObserved (maxErr : Nat) (stream : List Tick) (segs : List BurstSpec) : Prop :=
  StreamObservedF maxErr (fun i => stream.getD i dfltTick) stream.length segs

/-! ### decidability: the proposition itself is the executable check -/

instance (maxErr : Nat) (tk : Nat → Tick) (t : Nat) : Decidable (QuietAtF maxErr tk t) := by
  unfold QuietAtF; infer_instance

instance (tk : Nat → Tick) (len : Nat) (g : BurstSpec) : Decidable (BurstAtF tk len g) := by
  unfold BurstAtF; infer_instance

instance decOrderedFrom : ∀ (lo : Nat) (gs : List BurstSpec), Decidable (orderedFrom lo gs)
  | _, [] => isTrue trivial
  | lo, g :: gs =>
    have := decOrderedFrom g.stop gs
    inferInstanceAs (Decidable (lo ≤ g.o ∧ orderedFrom g.stop gs))

instance (segs : List BurstSpec) (t : Nat) : Decidable (InSynced segs t) := by
  unfold InSynced; infer_instance

instance (maxErr : Nat) (tk : Nat → Tick) (len : Nat) (segs : List BurstSpec) :
    Decidable (StreamObservedF maxErr tk len segs) := by
  unfold StreamObservedF; infer_instance

instance (maxErr : Nat) (stream : List Tick) (segs : List BurstSpec) :
    Decidable (StreamObserved maxErr stream segs) := by
  unfold StreamObserved; infer_instance

end SameVerif.Spec
