import SameVerif.Spec.Combine
import SameVerif.Model.Message
/-
  Executable oracles for C03: judge an *implementation* answer against the property's wording.
  Independent of the model functions (no use of voteCorrect / estimateLoop / combine).
-/
namespace SameVerif.Spec
open SameVerif

def byteOfBits (f : Nat → Bool) : Byte :=
  (List.range 8).foldl (fun acc i => acc ||| (if f i then (1 : Byte) <<< (UInt8.ofNat i) else 0)) 0

def oracleVote3 (b0 b1 b2 : Byte) (x : Byte) (e : Nat) : Bool :=
  x == byteOfBits (majorityBit b0 b1 b2) && e == disputes3 b0 b1 b2

def oracleVote2 (b0 b1 : Byte) (x : Byte) (e : Nat) : Bool :=
  x == (if b0 == b1 then b0 else 0) && e == disputes2 b0 b1

def m7 (b : Byte) : Byte := b &&& 0x7f

/-- error count the property's wording charges at position `i` -/
def disputesAt (bursts : List (List Byte)) (i : Nat) : Nat :=
  let avail := bursts.filterMap (fun b => b[i]?)
  let msb := if avail.any (fun b => b ≥ 0x80) then 1 else 0
  let d := match avail.map m7 with
    | [a, b] => disputes2 a b
    | [a, b, c] => disputes3 a b c
    | _ => 0
  d + msb

/-- counters of a reported header against the bursts it was decoded from -/
def oracleCounts (bursts : List (List Byte)) (text : List Byte) (par vot : Nat) : Bool :=
  let bs := bursts.take 3
  let n := text.length
  let expVot := ((List.range n).filter (fun i => bs.length == 3 && bs.all (fun b => i < b.length))).length
  let expPar := ((List.range n).map (disputesAt bs)).sum
  par == expPar && vot == expVot

/-- two bursts only: every reported byte is the (masked) byte of both bursts -/
def oraclePair (a b : List Byte) (text : List Byte) : Bool :=
  (List.range text.length).all (fun i =>
    match a[i]?, b[i]?, text[i]? with
    | some x, some y, some t => m7 x == t && m7 y == t
    | _, _, _ => false)

end SameVerif.Spec
