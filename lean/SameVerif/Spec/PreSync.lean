/-
  The squelch before the framer locks, as an automaton on two Booleans per tick (definitions only;
  `Lemmas/LinkPre.lean` proves that the link model follows it, `Spec/StreamObserved2.lean` uses it
  to say where the last adjusting sync hit is).

  `ph` — a sync hit is possible: open threshold met and correlator window within the budget;
  `hd` — the oldest entry of the 32-tick power history is above the close threshold.
  State `none`: unsynchronised, idle.  State `some k`: `k` ticks after the last ADJUSTING hit (one
  that (re)started the byte clock: framer restarted, four training bytes pending).  Up to `k = 32`
  the framer has been fed training bytes only, so everything is determined by `ph`, `hd`; the
  automaton FAILS (outer `none`) where an equalizer byte would be consumed.
-/
namespace SameVerif

/-- one tick of the abstract squelch; outer `none` = outside what is modelled -/
def preStep (ph hd : Bool) : Option Nat → Option (Option Nat)
  | none => some (if ph then some 1 else none)
  | some k =>
    if ph then (if k % 8 ≠ 0 then some (some 1) else if k < 32 then some (some (k + 1)) else none)
    else if !hd then some none
    else if k < 32 then some (some (k + 1)) else none

/-- abstract state before tick `a + m`, started unsynchronised at tick `a` -/
def preRun (ph hd : Nat → Bool) (a : Nat) : Nat → Option (Option Nat)
  | 0 => some none
  | m + 1 => (preRun ph hd a m).bind (preStep (ph (a + m)) (hd (a + m)))

/-- may a hit at the next tick be the (last) adjusting one?  Yes from the unsynchronised state and
    from any clock phase other than the byte tick -/
def adjustable : Option (Option Nat) → Bool
  | some none => true
  | some (some k) => k % 8 != 0
  | none => false

end SameVerif
