import SameVerif.Spec.HeaderShape
import SameVerif.Model.Bytes
/- Executable oracle for C06: judges an implementation answer for `MessageHeader::new(s)`. -/
namespace SameVerif.Spec
open SameVerif

/-- an implementation answer for a header, parsed by the driver -/
structure HdrAns where
  text : List Byte
  off : Nat
  par : Nat
  vot : Nat
  org : List Byte
  evt : List Byte
  locs : List (List Byte)
  dur : Nat × Nat
  iss : Nat × Nat × Nat
  call : List Byte

inductive HdrVerdictIn where
  | errNotAscii | errMalformed | errOther (s : String) | ok (a : HdrAns)

def oracleHdrWith (s : List Byte) (expPar expVot : List Byte → Nat) (ans : HdrVerdictIn) : Option String :=
  if !s.all (· < 128) then
    match ans with
    | .errNotAscii => none
    | _ => some "non-ASCII text must be rejected as NotAscii"
  else
    match longestShapedPrefix s, ans with
    | none, .errMalformed => none
    | none, _ => some "no prefix has the header shape: must be rejected as Malformed"
    | some _, .errNotAscii => some "ASCII text rejected as NotAscii"
    | some _, .errMalformed => some "a prefix has the header shape but the text was rejected"
    | some _, .errOther e => some s!"unexpected error {e}"
    | some (t, f), .ok a =>
      if a.text != t then some "stored text is not the longest header-shaped prefix"
      else if a.off != f.plus then some "time offset is not the position of '+'"
      else if a.par != expPar t || a.vot != expVot t then some "counters"
      else if a.org != f.org then some "originator accessor"
      else if a.evt != f.evt then some "event accessor"
      else if a.locs != f.locs then some "locations accessor"
      else if a.dur != (digitsVal (seg f.purge 0 2), digitsVal (seg f.purge 2 4)) then some "valid duration accessor"
      else if a.iss != (digitsVal (seg f.issue 0 3), digitsVal (seg f.issue 3 5), digitsVal (seg f.issue 5 7)) then some "issue time accessor"
      else if a.call != f.call then some "callsign accessor"
      else none

def oracleHdr (s : List Byte) (ans : HdrVerdictIn) : Option String :=
  oracleHdrWith s (fun _ => 0) (fun _ => 0) ans

end SameVerif.Spec
