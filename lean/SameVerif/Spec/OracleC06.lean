import SameVerif.Spec.HeaderShape
import SameVerif.Model.Bytes
/- Executable oracle for C06: judges an implementation answer for `MessageHeader::new(s)`. -/
namespace SameVerif.Spec
open SameVerif

/-- an implementation answer for a header, parsed by the driver -/
structure HdrAns where
  text : List Byte
  off : Nat
  par : Nat
  vot : Nat
  org : List Byte
  evt : List Byte
  locs : List (List Byte)
  dur : Nat × Nat
  iss : Nat × Nat × Nat
  call : List Byte
  orgk : String
  natl : Bool

/-- the originator class the text implies: the four assigned codes, `WXR` from a station whose
    callsign *begins* `EC/` is Environment Canada, anything else is unknown -/
def specOriginator (org call : List Byte) : String :=
  if org == [80, 69, 80] then "PrimaryEntryPoint"
  else if org == [67, 73, 86] then "CivilAuthority"
  else if org == [69, 65, 83] then "BroadcastStation"
  else if org == [87, 88, 82] then (if call.take 3 == [69, 67, 47] then "EnvironmentCanada" else "NationalWeatherService")
  else "Unknown"

/-- the national flag the text implies: the only location is `000000` and the event is one of the
    national activation codes EAN, NIC, NAT, NPT, NST -/
def specNational (evt : List Byte) (locs : List (List Byte)) : Bool :=
  locs == [[48, 48, 48, 48, 48, 48]]
    && [[69, 65, 78], [78, 73, 67], [78, 65, 84], [78, 80, 84], [78, 83, 84]].contains evt

inductive HdrVerdictIn where
  | errNotAscii | errMalformed | errOther (s : String) | ok (a : HdrAns)

def oracleHdrWith (s : List Byte) (expPar expVot : List Byte → Nat) (ans : HdrVerdictIn) : Option String :=
  if !s.all (· < 128) then
    match ans with
    | .errNotAscii => none
    | _ => some "non-ASCII text must be rejected as NotAscii"
  else
    match longestShapedPrefix s, ans with
    | none, .errMalformed => none
    | none, _ => some "no prefix has the header shape: must be rejected as Malformed"
    | some _, .errNotAscii => some "ASCII text rejected as NotAscii"
    | some _, .errMalformed => some "a prefix has the header shape but the text was rejected"
    | some _, .errOther e => some s!"unexpected error {e}"
    | some (t, f), .ok a =>
      if a.text != t then some "stored text is not the longest header-shaped prefix"
      else if a.off != f.plus then some "time offset is not the position of '+'"
      else if a.par != expPar t || a.vot != expVot t then some "counters"
      else if a.org != f.org then some "originator accessor"
      else if a.evt != f.evt then some "event accessor"
      else if a.locs != f.locs then some "locations accessor"
      else if a.dur != (digitsVal (seg f.purge 0 2), digitsVal (seg f.purge 2 4)) then some "valid duration accessor"
      else if a.iss != (digitsVal (seg f.issue 0 3), digitsVal (seg f.issue 3 5), digitsVal (seg f.issue 5 7)) then some "issue time accessor"
      else if a.call != f.call then some "callsign accessor"
      else if a.orgk != specOriginator f.org f.call then some "originator() does not classify the ORG field (WXR + callsign beginning EC/ = Environment Canada)"
      else if a.natl != specNational f.evt f.locs then some "is_national() is not (sole location 000000 and a national event code)"
      else none

def oracleHdr (s : List Byte) (ans : HdrVerdictIn) : Option String :=
  oracleHdrWith s (fun _ => 0) (fun _ => 0) ans

end SameVerif.Spec
