import SameVerif.Spec.FrontEnd
import SameVerif.Spec.StreamObserved
import SameVerif.Spec.StreamObserved2
/-
  Are the front-end assumptions of the C01 theorems met by what the DSP front end actually
  delivered on a tapped real run?  (Evidence about the assumptions, not a verdict on the property.)

  Three layers:
  * SEARCH (`alignBurst`, `checkBurstAt`, `checkTransmission`; `findBurst2`, `findTransmission2`):
    locates every burst in the tick stream and finds its parameters (`acq`, `rel`, `sync`); names
    the first clause that fails (diagnostics).  Unverified.
  * VERDICT (`streamObservedB`, `streamObserved2B`): `decide` of the very propositions
    `Spec.StreamObservedF` / `Spec.StreamObserved2F` that the theorems take as hypotheses, on the
    positions the search found.  `streamObservedB_iff`, `streamObserved2B_iff`: a `true` verdict is
    a proof of `StreamObserved` / `StreamObserved2` for `ticks.toList`; `C01s.checked_stream_bursts`
    and `C01t.checked_stream_bursts2` draw the conclusion.
  * the driver prints `fe_all=sat` iff `streamObservedB` (realistic assumptions, STEP 2) and
    `fe2_all=sat` iff `streamObserved2B` (generalised synchronisation, STEP 4) returned `true`.

  The tick stream is rebuilt exactly as the link-model request does it: one observation per symbol
  tick, and the equalizer byte attached to the tick at which the model's byte clock consumes it.
-/
namespace SameVerif.Spec
open SameVerif

/-- the link model's input stream for a tapped run -/
def ticksOf (c : LCfg) (obs : List Obs) (bytes : List Byte) : Array Tick := Id.run do
  let mut st : LState := {}
  let mut rest := bytes
  let mut out : Array Tick := Array.mkEmpty obs.length
  for o in obs do
    let eb := rest.headD 0
    let (st', _, bt) := lstep c st o eb
    st := st'
    out := out.push (o, eb)
    if bt.isSome then rest := rest.tail
  return out

structure FEOk where
  o : Nat
  acq : Nat
  rel : Nat
  next : Nat      -- first tick after the minimal tail (`rel + 40` ticks)

/-- first index `k < n` with `p k`, if any -/
def firstIdx (n : Nat) (p : Nat → Bool) : Option Nat := (List.range n).find? p

/-- correlator window error at stream index `t` (`31 ≤ t`): differences between the sync word and
    the last 32 hard decisions -/
def windowErr (ticks : Array Tick) (t : Nat) : Nat :=
  (List.range 32).countP (fun i =>
    SYNC_WORD.toBitVec.getLsbD i != (ticks.getD (t - 31 + i) (⟨false, false, false⟩, 0)).1.bit)

/-- last index `j < n` with `p j`, if any -/
def lastIdx (n : Nat) (p : Nat → Bool) : Option Nat := (List.range n).reverse.find? p

/-- decide the (refined) `BurstObserved` for `body = ticks[o, o + 8F)`, `lead = ticks[leadFrom, o)`,
    `tail = ticks[o + 8F, o + 8F + rel + 40)`: `acq` is the least index from which bits, close
    threshold and (31 ticks later) open threshold are all right; `no_early`: before `acq + 31` no tick
    has both the open threshold met and a correlator window within `maxErr` of the sync word -/
def checkBurstAt (maxErr : Nat) (ticks : Array Tick) (payload : List Byte) (leadFrom o : Nat) : Except String FEOk :=
  let frame := (frameOf payload).toArray
  let bits := (bitsOf (frameOf payload)).toArray
  let n := bits.size
  let tk (i : Nat) : Tick := ticks.getD i (⟨false, false, false⟩, 0)
  if o + n > ticks.size then .error "stream_too_short"
  else if o < 31 then .error "lead_shorter_than_31"
  else
    let a1 := match lastIdx n (fun j => (tk (o + j)).1.bit != bits.getD j false) with | some j => j + 1 | none => 0
    let a2 := match lastIdx n (fun j => !(tk (o + j)).1.closeOk) with | some j => j + 1 | none => 0
    let a3 := match lastIdx n (fun j => !(tk (o + j)).1.openOk) with | some j => j + 1 - 31 | none => 0
    let acq := max a1 (max a2 a3)
    if acq > 89 then .error s!"acq_le:{acq}:bits={a1}:close={a2}:open={a3}"
    else
    match firstIdx (acq + 31) (fun j => (tk (o + j)).1.openOk && decide (windowErr ticks (o + j) ≤ maxErr)) with
    | some j => .error s!"no_early:hit_at_bit_{j}:phase_{j % 8}:err_{windowErr ticks (o + j)}"
    | none =>
      match firstIdx (frame.size - 3) (fun m => (tk (o + 8 * (m + 3) + 7)).2 != frame.getD m 0) with
      | some m => .error s!"eq_ok:byte_{m}"
      | none =>
        let e := o + n
        match firstIdx 3 (fun m => (tk (e + 8 * m + 7)).2 != frame.getD (frame.size - 3 + m) 0) with
        | some m => .error s!"eq_tail:byte_{m}"
        | none =>
          match firstIdx (ticks.size - e) (fun k => !(tk (e + k)).1.closeOk) with
          | none => .error "rel_drop:never_released"
          | some rel =>
            if e + rel + 40 > ticks.size then .error "tail_len"
            else
            match firstIdx (rel + 40) (fun k => decide (rel ≤ k) && (tk (e + k)).1.closeOk) with
            | some k => .error s!"rel_drop:reopened_at_{k}"
            | none =>
            match firstIdx (rel + 40) (fun k => (tk (e + k)).1.openOk && decide (windowErr ticks (e + k) ≤ maxErr)) with
            | some k => .error s!"tail_no_hit:hit_at_{k}"
            | none =>
            match firstIdx (o - leadFrom) (fun k => (tk (leadFrom + k)).1.openOk && decide (31 ≤ leadFrom + k) && decide (windowErr ticks (leadFrom + k) ≤ maxErr)) with
            | some k => .error s!"lead_no_hit:hit_at_{leadFrom + k}"
            | none => .ok ⟨o, acq, rel, e + rel + 40⟩

/-- find the body start near `hint`: the offset at which every transmitted bit from index 96 on is
    what the correlator decided -/
def alignBurst (ticks : Array Tick) (payload : List Byte) (hint : Nat) : Option Nat :=
  let bits := (bitsOf (frameOf payload)).toArray
  let n := bits.size
  let lo := hint - 24
  (List.range 96).findSome? (fun d =>
    let o := lo + d
    if o + n ≤ ticks.size ∧ (List.range (n - 96)).all (fun j => (ticks.getD (o + 96 + j) (⟨false, false, false⟩, 0)).1.bit == bits.getD (96 + j) false)
    then some o else none)

/-- the bursts of one transmission in order: `(payload, hint)`; result: per burst `FEOk` or the failing clause -/
def checkTransmission (maxErr : Nat) (ticks : Array Tick) (bursts : List (List Byte × Nat)) : List (Except String FEOk) := Id.run do
  let mut leadFrom := 0
  let mut out : List (Except String FEOk) := []
  for (p, hint) in bursts do
    match alignBurst ticks p hint with
    | none => out := .error "no_alignment" :: out
    | some o =>
      let r := checkBurstAt maxErr ticks p leadFrom o
      match r with
      | .ok ok => leadFrom := ok.next
      | .error _ => leadFrom := o + 8 * (frameOf p).length
      out := r :: out
  return out.reverse

/-! ### the verified check

  `checkTransmission` above SEARCHES: it aligns every burst and finds `acq` and `rel`, and names the
  first clause that fails (diagnostics).  The verdict `fe_all=sat` is not taken from it: the
  positions it found are handed to `streamObservedB`, which is `decide` of the very proposition
  `Spec.StreamObservedF` that the theorems `C01s.stream_bursts` / `ChainR.stream_decoded` take as
  hypothesis (`streamObservedB_iff`). -/

/-- the bursts found by `checkTransmission`, as the `segs` of `StreamObserved`
    (`none` unless every burst was found and passed the search's own checks) -/
def segsOfResults : List (List Byte × Nat) → List (Except String FEOk) → Option (List BurstSpec)
  | [], [] => some []
  | (p, _) :: bs, .ok k :: rs => (segsOfResults bs rs).map (fun l => ⟨k.o, p, k.acq, k.rel⟩ :: l)
  | _, _ => none

/-- **the executable check is the theorems' hypothesis**, evaluated on the tapped tick array -/
def streamObservedB (maxErr : Nat) (ticks : Array Tick) (segs : List BurstSpec) : Bool :=
  decide (StreamObservedF maxErr (fun i => ticks.getD i dfltTick) ticks.size segs)

theorem streamObservedB_iff (maxErr : Nat) (ticks : Array Tick) (segs : List BurstSpec) :
    streamObservedB maxErr ticks segs = true ↔ StreamObserved maxErr ticks.toList segs := by
  have hf : (fun i => ticks.getD i dfltTick) = (fun i => ticks.toList.getD i dfltTick) := by
    funext i
    rw [Array.getD_eq_getD_getElem?, List.getD_eq_getElem?_getD, Array.getElem?_toList]
  unfold streamObservedB StreamObserved
  rw [decide_eq_true_iff, hf, Array.length_toList]

/-- soundness: a `sat` verdict is a proof of `StreamObserved` for the tapped stream -/
theorem streamObservedB_sound (maxErr : Nat) (ticks : Array Tick) (segs : List BurstSpec)
    (h : streamObservedB maxErr ticks segs = true) : StreamObserved maxErr ticks.toList segs :=
  (streamObservedB_iff maxErr ticks segs).1 h

/-- which part of `StreamObservedF` fails (diagnostics only) -/
def streamObservedWhy (maxErr : Nat) (ticks : Array Tick) (segs : List BurstSpec) : String :=
  let tk := fun i => ticks.getD i dfltTick
  if ¬ (∀ g ∈ segs, BurstAtF tk ticks.size g) then "burst_clauses"
  else if ¬ orderedFrom 32 segs then "order"
  else match (List.range ticks.size).find? (fun t => decide (31 ≤ t) && !decide (InSynced segs t ∨ QuietAtF maxErr tk t)) with
    | some t => s!"hit_possible_at_{t}"
    | none => "none"

/-! ### the generalised check (`Spec.StreamObserved2`: early, wrong-phase, dropped first hits allowed) -/

/-- SEARCH (unverified): position parameters of one burst for `StreamObserved2` — `acq` from bits and
    close threshold, `rel` from the close threshold, `sync` = the first byte-aligned body tick for which
    the synchronisation clauses `SyncAt2F` hold (lead-in from tick `a`) -/
def findBurst2 (maxErr : Nat) (ticks : Array Tick) (payload : List Byte) (a o : Nat) : Except String BurstSpec2 :=
  let bits := (bitsOf (frameOf payload)).toArray
  let n := bits.size
  let tk (i : Nat) : Tick := ticks.getD i dfltTick
  if o + n > ticks.size then .error "stream_too_short"
  else if o < 32 then .error "lead_shorter_than_32"
  else if o < a then .error "overlaps_previous_tail"
  else
    let a1 := match lastIdx n (fun j => (tk (o + j)).1.bit != bits.getD j false) with | some j => j + 1 | none => 0
    let a2 := match lastIdx n (fun j => !(tk (o + j)).1.closeOk) with | some j => j + 1 | none => 0
    let acq := max a1 a2
    if acq > 89 then .error s!"acq_le:{acq}:bits={a1}:close={a2}"
    else
      let e := o + n
      match firstIdx (ticks.size - e) (fun k => !(tk (e + k)).1.closeOk) with
      | none => .error "rel_drop:never_released"
      | some rel =>
        match firstIdx 15 (fun q => decide (SyncAt2F maxErr tk (max a 31) ⟨o, payload, acq, 8 * (q + 1) + 7, rel⟩)) with
        | none =>
          let hits := (List.range 144).filter (fun r => potHit maxErr tk (o - 16 + r))
          .error s!"no_sync:acq={acq}:hits_rel={hits.map (fun r => Int.ofNat r - 16)}"
        | some q => .ok ⟨o, payload, acq, 8 * (q + 1) + 7, rel⟩

def findTransmission2 (maxErr : Nat) (ticks : Array Tick) (bursts : List (List Byte × Nat)) : List (Except String BurstSpec2) := Id.run do
  let mut a := 0
  let mut out : List (Except String BurstSpec2) := []
  for (p, hint) in bursts do
    match alignBurst ticks p hint with
    | none => out := .error "no_alignment" :: out
    | some o =>
      let r := findBurst2 maxErr ticks p a o
      match r with
      | .ok g => a := g.stop
      | .error _ => a := o + 8 * (frameOf p).length
      out := r :: out
  return out.reverse

def allFound2 : List (Except String BurstSpec2) → Option (List BurstSpec2)
  | [] => some []
  | .ok g :: rs => (allFound2 rs).map (g :: ·)
  | .error _ :: _ => none

/-- **the executable check is the hypothesis** of `C01t.stream_bursts2` / `Chain.stream_decoded2` -/
def streamObserved2B (maxErr : Nat) (ticks : Array Tick) (segs : List BurstSpec2) : Bool :=
  decide (StreamObserved2F maxErr (fun i => ticks.getD i dfltTick) ticks.size segs)

theorem streamObserved2B_iff (maxErr : Nat) (ticks : Array Tick) (segs : List BurstSpec2) :
    streamObserved2B maxErr ticks segs = true ↔ StreamObserved2 maxErr ticks.toList segs := by
  have hf : (fun i => ticks.getD i dfltTick) = (fun i => ticks.toList.getD i dfltTick) := by
    funext i
    rw [Array.getD_eq_getD_getElem?, List.getD_eq_getElem?_getD, Array.getElem?_toList]
  unfold streamObserved2B StreamObserved2
  rw [decide_eq_true_iff, hf, Array.length_toList]

theorem streamObserved2B_sound (maxErr : Nat) (ticks : Array Tick) (segs : List BurstSpec2)
    (h : streamObserved2B maxErr ticks segs = true) : StreamObserved2 maxErr ticks.toList segs :=
  (streamObserved2B_iff maxErr ticks segs).1 h

/-- which clause fails first for burst `g` with lead-in from `a` (diagnostics only) -/
def burstAt2Why (maxErr : Nat) (ticks : Array Tick) (a : Nat) (g : BurstSpec2) : String :=
  let tk := fun i => ticks.getD i dfltTick
  let F := (frameOf g.payload).length
  if ¬ g.stop ≤ ticks.size then "tail_len"
  else if ¬ (∀ m, m < F - 3 → (tk (g.o + (8 * (m + 3) + 7))).2 = (frameOf g.payload).getD m 0) then "eq_ok"
  else if ¬ TrackAt2F tk ticks.size g then "track_other"
  else if ¬ SyncAt2F maxErr tk (max a 31) g then "sync"
  else if ¬ (∀ t, t < g.stop → g.e ≤ t → potHit maxErr tk t = false) then "tail_hit"
  else "none"

/-- per burst verdicts along the chain (diagnostics only; the verdict is `streamObserved2B`) -/
def chainWhy2 (maxErr : Nat) (ticks : Array Tick) : Nat → List BurstSpec2 → List String
  | a, [] =>
    match (List.range ticks.size).find? (fun t => decide (a ≤ t) && decide (31 ≤ t) && potHit maxErr (fun i => ticks.getD i dfltTick) t) with
    | some t => [s!"final_hit_possible_at_{t}"]
    | none => []
  | a, g :: gs => burstAt2Why maxErr ticks a g :: chainWhy2 maxErr ticks g.stop gs

end SameVerif.Spec
