import SameVerif.Spec.FrontEnd
/-
  Executable decision of `Spec.BurstObserved` on a tapped real run: are the hypotheses of
  `C01.burst_delivered` / `Chain.transmission_decoded` met by what the DSP front end actually
  delivered for this transmission?  (Evidence about the assumptions, not a verdict on the property.)

  The tick stream is rebuilt exactly as the link-model request does it: one observation per symbol
  tick, and the equalizer byte attached to the tick at which the model's byte clock consumes it.
-/
namespace SameVerif.Spec
open SameVerif

/-- the link model's input stream for a tapped run -/
def ticksOf (c : LCfg) (obs : List Obs) (bytes : List Byte) : Array Tick := Id.run do
  let mut st : LState := {}
  let mut rest := bytes
  let mut out : Array Tick := Array.mkEmpty obs.length
  for o in obs do
    let eb := rest.headD 0
    let (st', _, bt) := lstep c st o eb
    st := st'
    out := out.push (o, eb)
    if bt.isSome then rest := rest.tail
  return out

structure FEOk where
  o : Nat
  acq : Nat
  rel : Nat
  next : Nat      -- first tick after the minimal tail (`rel + 40` ticks)

/-- first index `k < n` with `p k`, if any -/
def firstIdx (n : Nat) (p : Nat → Bool) : Option Nat := (List.range n).find? p

/-- decide `BurstObserved payload lead body tail acq rel` for `body = ticks[o, o + 8F)`,
    `lead = ticks[leadFrom, o)`, `tail = ticks[o + 8F, o + 8F + rel + 40)` with the `acq`, `rel`
    the clauses determine; on failure: the first clause that does not hold -/
def checkBurstAt (ticks : Array Tick) (payload : List Byte) (leadFrom o : Nat) : Except String FEOk :=
  let frame := (frameOf payload).toArray
  let bits := (bitsOf (frameOf payload)).toArray
  let n := bits.size
  let tk (i : Nat) : Tick := ticks.getD i (⟨false, false, false⟩, 0)
  if o + n > ticks.size then .error "stream_too_short"
  else
  match firstIdx n (fun j => (tk (o + j)).1.openOk) with
  | none => .error "open_ok:never"
  | some fo =>
    if fo < 31 then .error s!"open_late:open_at_bit_{fo}"
    else
      let acq := fo - 31
      if acq > 89 then .error s!"acq_le:{acq}"
      else
      match firstIdx n (fun j => decide (fo ≤ j) && !(tk (o + j)).1.openOk) with
      | some j => .error s!"open_ok:closed_at_bit_{j}"
      | none =>
      match firstIdx n (fun j => decide (acq ≤ j) && (tk (o + j)).1.bit != bits.getD j false) with
      | some j => .error s!"bits_ok:bit_{j}"
      | none =>
      match firstIdx n (fun j => decide (acq ≤ j) && !(tk (o + j)).1.closeOk) with
      | some j => .error s!"close_ok:bit_{j}"
      | none =>
      match firstIdx (frame.size - 3) (fun m => (tk (o + 8 * (m + 3) + 7)).2 != frame.getD m 0) with
      | some m => .error s!"eq_ok:byte_{m}"
      | none =>
        let e := o + n
        match firstIdx 3 (fun m => (tk (e + 8 * m + 7)).2 != frame.getD (frame.size - 3 + m) 0) with
        | some m => .error s!"eq_tail:byte_{m}"
        | none =>
          match firstIdx (ticks.size - e) (fun k => !(tk (e + k)).1.closeOk) with
          | none => .error "rel_drop:never_released"
          | some rel =>
            if e + rel + 40 > ticks.size then .error "tail_len"
            else
            match firstIdx (rel + 40) (fun k => decide (rel ≤ k) && (tk (e + k)).1.closeOk) with
            | some k => .error s!"rel_drop:reopened_at_{k}"
            | none =>
            match firstIdx (rel + 40) (fun k => (tk (e + k)).1.openOk) with
            | some k => .error s!"tail_closed:open_at_{k}"
            | none =>
            match firstIdx (o - leadFrom) (fun k => (tk (leadFrom + k)).1.openOk) with
            | some k => .error s!"lead_closed:open_at_{leadFrom + k}"
            | none => .ok ⟨o, acq, rel, e + rel + 40⟩

/-- find the body start near `hint`: the offset at which every transmitted bit from index 96 on is
    what the correlator decided -/
def alignBurst (ticks : Array Tick) (payload : List Byte) (hint : Nat) : Option Nat :=
  let bits := (bitsOf (frameOf payload)).toArray
  let n := bits.size
  let lo := hint - 24
  (List.range 96).findSome? (fun d =>
    let o := lo + d
    if o + n ≤ ticks.size ∧ (List.range (n - 96)).all (fun j => (ticks.getD (o + 96 + j) (⟨false, false, false⟩, 0)).1.bit == bits.getD (96 + j) false)
    then some o else none)

/-- the bursts of one transmission in order: `(payload, hint)`; result: per burst `FEOk` or the failing clause -/
def checkTransmission (ticks : Array Tick) (bursts : List (List Byte × Nat)) : List (Except String FEOk) := Id.run do
  let mut leadFrom := 0
  let mut out : List (Except String FEOk) := []
  for (p, hint) in bursts do
    match alignBurst ticks p hint with
    | none => out := .error "no_alignment" :: out
    | some o =>
      let r := checkBurstAt ticks p leadFrom o
      match r with
      | .ok ok => leadFrom := ok.next
      | .error _ => leadFrom := o + 8 * (frameOf p).length
      out := r :: out
  return out.reverse

end SameVerif.Spec
