import SameVerif.Model.Bytes
/-
  Declarative description of the SAME header shape, written by fixed offsets (independently of the
  recursive-descent model in Model/Header.lean):

    ZCZC-ORG-EEE(-PSSCCC)+ +TTTT-JJJHHMM-CALLSIGN-     CALLSIGN = 3..8 characters other than LF
-/
namespace SameVerif.Spec
open SameVerif

def seg (t : List Byte) (a b : Nat) : List Byte := (t.drop a).take (b - a)

def at? (t : List Byte) (i : Nat) : Option Byte := t[i]?

structure ShapeFields where
  org : List Byte
  evt : List Byte
  locs : List (List Byte)
  purge : List Byte
  issue : List Byte
  call : List Byte
  plus : Nat            -- index of '+'
deriving Repr, DecidableEq

/-- does the whole of `t` have the header shape?  If so, its fields. -/
def shapeOf (t : List Byte) : Option ShapeFields :=
  let n := t.length
  let p := t.findIdx (· == 43)                         -- first '+'
  let nloc := (p - 12) / 7
  let okFixed :=
    seg t 0 5 == [90, 67, 90, 67, 45]
      && (seg t 5 8).length == 3 && (seg t 5 8).all isAlpha && at? t 8 == some 45
      && (seg t 9 12).length == 3 && (seg t 9 12).all isAlpha
  let okLocs :=
    p < n && 19 ≤ p && (p - 12) % 7 == 0
      && (List.range nloc).all (fun k =>
            at? t (12 + 7 * k) == some 45
              && (seg t (13 + 7 * k) (19 + 7 * k)).length == 6 && (seg t (13 + 7 * k) (19 + 7 * k)).all isDigit)
  let okTime :=
    (seg t (p + 1) (p + 5)).length == 4 && (seg t (p + 1) (p + 5)).all isDigit && at? t (p + 5) == some 45
      && (seg t (p + 6) (p + 13)).length == 7 && (seg t (p + 6) (p + 13)).all isDigit && at? t (p + 13) == some 45
  let call := seg t (p + 14) (n - 1)
  let okCall :=
    p + 14 + 3 + 1 ≤ n && 3 ≤ call.length && call.length ≤ 8 && call.all (· != 10) && at? t (n - 1) == some 45
  if okFixed && okLocs && okTime && okCall then
    some { org := seg t 5 8, evt := seg t 9 12,
           locs := (List.range nloc).map (fun k => seg t (13 + 7 * k) (19 + 7 * k)),
           purge := seg t (p + 1) (p + 5), issue := seg t (p + 6) (p + 13), call := call, plus := p }
  else none

/-- the longest prefix of `s` that has the header shape -/
def longestShapedPrefix (s : List Byte) : Option (List Byte × ShapeFields) :=
  ((List.range (s.length + 1)).reverse).findSome? (fun n =>
    match shapeOf (s.take n) with
    | some f => some (s.take n, f)
    | none => none)

def digitsVal (s : List Byte) : Nat := s.foldl (fun n c => 10 * n + (c.toNat - 48)) 0

end SameVerif.Spec
