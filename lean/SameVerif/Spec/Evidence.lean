import SameVerif.Spec.Vote
/-
  Declarative notion of "the bursts justify this byte" (C04), written without reference to the
  vote functions of the combiner.
-/
namespace SameVerif.Spec
open SameVerif

/-- a received byte with its eighth (most significant) bit cleared -/
def m7 (b : Byte) : Byte := b &&& ~~~(0x80 : Byte)

/-- the (MSb-cleared) bytes which the bursts of `run` hold at position `i`, in burst order;
    bursts shorter than `i + 1` contribute nothing -/
def column (run : List (List Byte)) (i : Nat) : List Byte :=
  run.filterMap (fun b => (b[i]?).map m7)

/-- `run` justifies byte `c` at position `i`: exactly two bursts reach position `i` and both hold
    `c` there, or exactly three do and every bit of `c` is the majority of their three bits -/
def SupportsByte (run : List (List Byte)) (i : Nat) (c : Byte) : Prop :=
  (∃ a b, column run i = [a, b] ∧ a = c ∧ b = c) ∨
  (∃ a b d, column run i = [a, b, d] ∧
      ∀ k, k < 8 → bitOf c k = maj (bitOf a k) (bitOf b k) (bitOf d k))

/-- as `SupportsByte`, but a single burst holding `c` is also accepted (enough for a trailer) -/
def WeaklySupportsByte (run : List (List Byte)) (i : Nat) (c : Byte) : Prop :=
  column run i = [c] ∨ SupportsByte run i c

/-- `r` is a run of at most three consecutive bursts of the burst log -/
def IsRun (r log : List (List Byte)) : Prop := r <:+: log ∧ r.length ≤ 3

end SameVerif.Spec
