import SameVerif.Model.Bytes
/- Declarative specification of the per-byte votes (written without reference to the code). -/
namespace SameVerif.Spec
open SameVerif

/-- majority of three bits -/
def maj (a b c : Bool) : Bool := (a && b) || (b && c) || (a && c)

/-- the three bits are not all equal -/
def disputed3 (a b c : Bool) : Bool := !(a == b && b == c)

/-- byte whose bit `i` is the majority of the three input bits -/
def majorityBit (b0 b1 b2 : Byte) (i : Nat) : Bool := maj (bitOf b0 i) (bitOf b1 i) (bitOf b2 i)

/-- number of bit positions on which three bytes are not unanimous -/
def disputes3 (b0 b1 b2 : Byte) : Nat :=
  (List.range 8).countP (fun i => disputed3 (bitOf b0 i) (bitOf b1 i) (bitOf b2 i))

/-- number of bit positions on which two bytes differ -/
def disputes2 (b0 b1 : Byte) : Nat :=
  (List.range 8).countP (fun i => bitOf b0 i != bitOf b1 i)

end SameVerif.Spec
