import SameVerif.Model.LinkRun
/-
  Front-end assumptions FE1–FE3 for ONE burst, as a predicate on the per-tick input stream of the
  link model, relative to the transmitted bytes.  This is the (relational, nondeterministic) model
  of the DSP: any front end whose observations satisfy it.  Everything it leaves open — the
  lead-in, the bits before acquisition, the garbage after the carrier stops — is universally
  quantified in the theorems.
-/
namespace SameVerif.Spec
open SameVerif

/-- bits of a byte string in transmission order (LSb of each byte first) -/
def bitsOf (bs : List Byte) : List Bool := bs.flatMap (fun b => (List.range 8).map (bitOf b))

/-- the transmitted frame: 16 preamble bytes, then the payload -/
def frameOf (payload : List Byte) : List Byte := List.replicate 16 0xAB ++ payload

/-- One burst as observed.  `lead`: ticks before the transmission; `body`: one tick per
    transmitted bit; `tail`: ticks after the last bit.  `acq` is the index of the first
    transmitted bit from which the correlator's hard decisions are right; `rel` is the number of
    ticks after the last bit for which the smoothed power stays above the close threshold. -/
structure BurstObserved (payload : List Byte) (lead body tail : List Tick) (acq rel : Nat) : Prop where
  /-- FE1 (no early sync): before the transmission the power is below the open threshold -/
  lead_closed : ∀ x ∈ lead, x.1.openOk = false
  body_len : body.length = 8 * (frameOf payload).length
  /-- FE1 (acquisition within the first 90 bits of the 128 preamble bits) -/
  acq_le : acq ≤ 89
  /-- FE2 (tracking): from `acq` on the correlator sees the transmitted bits -/
  bits_ok : ∀ j (hj : j < body.length), acq ≤ j → body[j].1.bit = (bitsOf (frameOf payload)).getD j false
  /-- FE1: the open threshold is crossed exactly when the 32-bit window is entirely correct -/
  open_late : ∀ j (hj : j < body.length), j < acq + 31 → body[j].1.openOk = false
  open_ok : ∀ j (hj : j < body.length), acq + 31 ≤ j → body[j].1.openOk = true
  /-- FE2: the power stays above the close threshold from acquisition to the last bit -/
  close_ok : ∀ j (hj : j < body.length), acq ≤ j → body[j].1.closeOk = true
  /-- FE2: the equalizer's byte decision at the tick that completes transmitted byte `m + 3`
      is transmitted byte `m` (the equalizer is fed the oldest 8 of the last 32 symbols) -/
  eq_ok : ∀ m, m + 3 < (frameOf payload).length → ∀ (hj : 8 * (m + 3) + 7 < body.length),
    body[8 * (m + 3) + 7].2 = (frameOf payload).getD m 0
  /-- FE2, for the last three bytes, which reach the framer during the first 24 ticks of the tail -/
  eq_tail : ∀ m, m < 3 → ∀ (hk : 8 * m + 7 < tail.length),
    tail[8 * m + 7].2 = (frameOf payload).getD ((frameOf payload).length - 3 + m) 0
  /-- FE3 (release): after the last bit the open threshold is not met any more (no new sync),
      the close threshold holds for `rel` more ticks and then fails for good -/
  tail_closed : ∀ x ∈ tail, x.1.openOk = false
  rel_hold : ∀ k (hk : k < tail.length), k < rel → tail[k].1.closeOk = true
  rel_drop : ∀ k (hk : k < tail.length), rel ≤ k → tail[k].1.closeOk = false
  /-- the tail is long enough for the 32-tick power history to empty -/
  tail_len : rel + 40 ≤ tail.length

/-- payloads the theorem speaks about: a SAME header text or a trailer — begins `ZCZC` or `NNNN`
    exactly, consists of SAME characters, and fits a burst -/
structure PayloadOk (payload : List Byte) : Prop where
  starts : payload.take 4 = [90, 67, 90, 67] ∨ payload.take 4 = [78, 78, 78, 78]
  allowed : ∀ b ∈ payload, isAllowed b = true
  fits : payload.length ≤ Gen.MAX_BURST_LENGTH

/-- a link state from which a burst can be received: sample history full, unsynchronised, idle -/
structure Quiescent (s : LState) : Prop where
  warm : 32 ≤ s.nsym
  clock : s.clock = none
  lock : s.lock = false
  fr : s.fr = .idle

end SameVerif.Spec
