import SameVerif.Model.Bytes
import SameVerif.Model.Combiner
import SameVerif.Model.Header
import SameVerif.Model.HeaderSem
import SameVerif.Model.Spawner
import SameVerif.Model.Message
