import SameVerif.Model.Bytes
/- Text helpers for the line protocol (not part of the model). -/
namespace SameVerif.Driver
open SameVerif

def hexDigit (n : Nat) : Char := if n < 10 then Char.ofNat (48 + n) else Char.ofNat (87 + n)

def hexByte (b : Byte) : String := String.ofList [hexDigit (b.toNat / 16), hexDigit (b.toNat % 16)]

/-- bytes as hex, `-` for the empty list -/
def hexOf (bs : List Byte) : String :=
  if bs.isEmpty then "-" else String.join (bs.map hexByte)

def hexVal (c : Char) : Option Nat :=
  if '0' ≤ c ∧ c ≤ '9' then some (c.toNat - 48)
  else if 'a' ≤ c ∧ c ≤ 'f' then some (c.toNat - 87)
  else if 'A' ≤ c ∧ c ≤ 'F' then some (c.toNat - 55)
  else none

def unhexAux : List Char → List Byte → Option (List Byte)
  | [], acc => some acc.reverse
  | [_], _ => none
  | a :: b :: r, acc =>
    match hexVal a, hexVal b with
    | some x, some y => unhexAux r (UInt8.ofNat (16 * x + y) :: acc)
    | _, _ => none

def unhex (s : String) : Option (List Byte) :=
  if s == "-" then some [] else unhexAux s.toList []

/-- comma separated naturals, `-` for the empty list -/
def natsOf (ns : List Nat) : String :=
  if ns.isEmpty then "-" else ",".intercalate (ns.map toString)

def parseNats (s : String) : Option (List Nat) :=
  if s == "-" then some [] else (s.splitOn ",").mapM String.toNat?

/-- FNV-1a, 64 bit -/
def fnvInit : UInt64 := 0xcbf29ce484222325
def fnvByte (h : UInt64) (b : UInt8) : UInt64 := (h ^^^ b.toUInt64) * 0x100000001b3
def fnvStr (h : UInt64) (s : String) : UInt64 := s.toUTF8.foldl fnvByte h

def kv (s key : String) : Option Nat :=
  if s.startsWith (key ++ "=") then (s.drop (key.length + 1)).toString.toNat? else none

def kvs (s key : String) : Option String :=
  if s.startsWith (key ++ "=") then some (s.drop (key.length + 1)).toString else none

end SameVerif.Driver
