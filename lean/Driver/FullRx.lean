import SameVerif.Model.FullRx
import SameVerif.Model.Program
import SameVerif.Model.BuilderCfg
import Driver.Dsp
/-
  `rx.full`: the whole-receiver model (Model/FullRx.lean, `Float32`) run on a raw audio file
  (little-endian f32 samples).  The only request of the driver that does I/O: the audio of one case is
  megabytes long, so it travels as a file, not on the request line.
-/
namespace SameVerif.Driver
open SameVerif SameVerif.Dsp

def tapsOf (s : String) : Option (List (Float32 × Float32)) :=
  (s.splitOn ",").mapM fun t =>
    match (t.splitOn "/").map f32Of with
    | [some a, some b] => some (a, b)
    | _ => none

def f32sOfBytes (b : ByteArray) : Array Float32 := Id.run do
  let n := b.size / 4
  let mut out : Array Float32 := Array.mkEmpty n
  for i in [0:n] do
    let w : UInt32 := (b.get! (4*i)).toUInt32 ||| ((b.get! (4*i+1)).toUInt32 <<< 8)
      ||| ((b.get! (4*i+2)).toUInt32 <<< 16) ||| ((b.get! (4*i+3)).toUInt32 <<< 24)
    out := out.push (Float32.ofBits w)
  return out

def parseRxCfg (args : List String) : Option (RxCfg Float32) :=
  match args with
  | [rate, sps, dcLen, agcBw, agcMin, agcMax, aU, bU, aL, bL, maxDev, pO, pC, sqBw, nff, nfb, relax, reg, me, pe, mi, mark, space] =>
    match rate.toNat?, f32Of sps, dcLen.toNat?, f32Of agcBw, f32Of agcMin, f32Of agcMax, f32Of aU, f32Of bU, f32Of aL, f32Of bL with
    | some rate, some sps, some dcLen, some agcBw, some agcMin, some agcMax, some aU, some bU, some aL, some bL =>
      match f32Of maxDev, f32Of pO, f32Of pC, f32Of sqBw, nff.toNat?, nfb.toNat?, f32Of relax, f32Of reg with
      | some maxDev, some pO, some pC, some sqBw, some nff, some nfb, some relax, some reg =>
        match me.toNat?, pe.toNat?, mi.toNat?, tapsOf mark, tapsOf space with
        | some me, some pe, some mi, some mark, some space =>
          some { rate, sps, dcLen, agcBw, agcMin, agcMax, mark, space, alphaU := aU, betaU := bU, alphaL := aL, betaL := bL,
                 maxDev, powerOpen := pO, powerClose := pC, squelchBw := sqBw, nff, nfb, relax, reg, lcfg := ⟨me, ⟨pe, mi⟩⟩ }
        | _, _, _, _, _ => none
      | _, _, _, _, _, _, _, _ => none
    | _, _, _, _, _, _, _, _, _, _ => none
  | _ => none

def showEventF : Event → String
  | .link t ls => s!"{t}:L:{match ls with | .noCarrier => "N" | .searching => "S" | .reading => "R" | .burst b => s!"B:{hexOf b}"}"
  | .transport t ts =>
    s!"{t}:T:{match ts with
      | .idle => "idle"
      | .assembling => "assembling"
      | .message r => "msg_" ++ (showResF r)}"
where
  showResF : MsgResult → String
    | .ok (.som h) => s!"som_{hexOf h.text}_off={h.offsetTime}_par={h.parity}_vot={h.voting}"
    | .ok .eom => "eom"
    | .error .unrecognizedPrefix => "err:UnrecognizedPrefix"
    | .error .notAscii => "err:NotAscii"
    | .error .malformed => "err:Malformed"

/-- run the model over the samples; `none` = the model panics -/
def runFull (r0 : FullRx Float32) (xs : Array Float32) : Option (List Event) := Id.run do
  let mut r := r0
  let mut evs : Array Event := #[]
  for x in xs do
    match r.sample x with
    | none => return none
    | some (r', ev) =>
      r := r'
      for e in ev do evs := evs.push e
  return some evs.toList

/-- run the model over the samples from a given state; final state and events; `none` = the model panics -/
def runFullFrom (r0 : FullRx Float32) (xs : Array Float32) (lo hi : Nat) : Option (FullRx Float32 × List Event) := Id.run do
  let mut r := r0
  let mut evs : Array Event := #[]
  for i in [lo:hi] do
    match r.sample xs[i]! with
    | none => return none
    | some (r', ev) =>
      r := r'
      for e in ev do evs := evs.push e
  return some (r, evs.toList)

def showEvs (evs : List Event) : String := if evs.isEmpty then "-" else ",".intercalate (evs.map showEventF)

/-- `rx.fullreset <cfg…> <k> <file>`: the first `k` samples, `reset()`, the rest -/
def fullRxResetOp (args : List String) : IO String := do
  match args.getLast?, args.dropLast.getLast?.bind String.toNat?, parseRxCfg args.dropLast.dropLast with
  | some path, some k, some cfg =>
    let xs := f32sOfBytes (← IO.FS.readBinFile path)
    match FullRx.new cfg with
    | none => return "PANIC"
    | some r0 =>
      match runFullFrom r0 xs 0 (min k xs.size) with
      | none => return "PANIC"
      | some (r1, e1) =>
        match runFullFrom r1.reset xs (min k xs.size) xs.size with
        | none => return "PANIC"
        | some (_, e2) => return s!"{showEvs e1} || {showEvs e2}"
  | _, _, _ => return "bad-op"

/-- `cfg.build rate dc agcbw gmin gmax tbu tbl dev sqo sqc sqbw pme <eq|none> fpe fmi aU bU aL bL defaultReg`:
    the setters and `From<&SameReceiverBuilder>` derivations; answer = the constructor arguments (as `cfg_tokens`
    of the harness renders them, without the taps) -/
def cfgBuildOp (args : List String) : Option String :=
  match args with
  | [rate, dc, agcbw, gmin, gmax, tbu, tbl, dev, sqo, sqc, sqbw, pme, eq, fpe, fmi, aU, bU, aL, bL, dreg] =>
    match rate.toNat?, f32Of dc, f32Of agcbw, f32Of gmin, f32Of gmax, f32Of tbu, f32Of tbl, f32Of dev with
    | some rate, some dc, some agcbw, some gmin, some gmax, some tbu, some tbl, some dev =>
      match f32Of sqo, f32Of sqc, f32Of sqbw, pme.toNat?, fpe.toNat?, fmi.toNat?, f32Of aU, f32Of bU with
      | some sqo, some sqc, some sqbw, some pme, some fpe, some fmi, some aU, some bU =>
        match f32Of aL, f32Of bL, f32Of dreg with
        | some aL, some bL, some dreg =>
          let eqArg : Option (Option (Nat × Nat × Float32 × Float32)) :=
            if eq == "none" then some none
            else match eq.splitOn "," with
              | [a, b, c, d] =>
                match a.toNat?, b.toNat?, f32Of c, f32Of d with
                | some a, some b, some c, some d => some (some (a, b, c, d))
                | _, _, _, _ => none
              | _ => none
          match eqArg with
          | none => some "bad-op"
          | some eqArg =>
            let a : BuilderArgs Float32 :=
              ⟨rate, dc, agcbw, gmin, gmax, tbu, tbl, dev, sqo, sqc, sqbw, pme, eqArg, fpe, fmi⟩
            match applySetters (Float32.ofBits 0x7f7fffff) a with
            | none => some "PANIC"
            | some b =>
              let d : Derive Float32 :=
                ⟨Float32.ofBits 0x4402351f, fun x => x.toUInt64.toNat,
                 fun bw => if bw.toBits == b.timingBwUnlocked.toBits then (aU, bU) else (aL, bL),
                 fun _ => ([], []), dreg⟩
              let c := rxCfgOf d b
              some (" ".intercalate [toString c.rate, f32Hex c.sps, toString c.dcLen, f32Hex c.agcBw, f32Hex c.agcMin, f32Hex c.agcMax,
                f32Hex c.alphaU, f32Hex c.betaU, f32Hex c.alphaL, f32Hex c.betaL, f32Hex c.maxDev, f32Hex c.powerOpen,
                f32Hex c.powerClose, f32Hex c.squelchBw, toString c.nff, toString c.nfb, f32Hex c.relax, f32Hex c.reg,
                toString c.lcfg.maxErrors, toString c.lcfg.fc.maxPrefixErr, toString c.lcfg.fc.maxInvalid])
        | _, _, _ => some "bad-op"
      | _, _, _, _, _, _, _, _ => some "bad-op"
    | _, _, _, _, _, _, _, _ => some "bad-op"
  | _ => none

def showAMsgF (m : AMsg) : String :=
  match m with
  | .som t => "S" ++ hexOf (t.map UInt8.ofNat)
  | .eom => "E"

def showListF (xs : List String) : String := if xs.isEmpty then "-" else ",".intercalate xs

/-- `app.full quiet=<0|1> child=<0|1> <cfg…> <file.s16>`: the whole-program model on the bytes of a recording -/
def appFullOp (args : List String) : IO String := do
  match args with
  | quiet :: child :: rest =>
    match rest.getLast?, parseRxCfg rest.dropLast with
    | some path, some cfg =>
      let bytes ← IO.FS.readBinFile path
      match samedec cfg ⟨quiet == "quiet=1", child == "child=1"⟩ (fun _ => true) bytes.toList with
      | none => return "PANIC"
      | some out =>
        return s!"printed={showListF (out.printed.map showAMsgF)} children={showListF (out.children.map (fun (m, a, b) => s!"{showAMsgF m}:{a}:{b}"))} exit=0"
    | _, _ => return "bad-op"
  | _ => return "bad-op"

def fullRxOp (args : List String) : IO String := do
  match args.getLast?, parseRxCfg args.dropLast with
  | some path, some cfg =>
    let bytes ← IO.FS.readBinFile path
    match FullRx.new cfg with
    | none => return "PANIC"
    | some r0 =>
      match runFull r0 (f32sOfBytes bytes) with
      | none => return "PANIC"
      | some evs => return (if evs.isEmpty then "-" else ",".intercalate (evs.map showEventF))
  | _, _ => return "bad-op"

end SameVerif.Driver
