import SameVerif.Model.Dsp
import Driver.Util
/-
  Line-protocol front end of Model/Dsp.lean, instantiated with IEEE binary32 (`Float32`).
  Every number travels as its 32-bit pattern in hex; answers must match the real code bit for bit.
-/
namespace SameVerif.Driver
open SameVerif SameVerif.Dsp

def hexNat (s : String) : Option Nat :=
  s.toList.foldl (fun acc c => match acc, hexVal c with
    | some a, some d => some (16 * a + d)
    | _, _ => none) (some 0)

def f32Of (s : String) : Option Float32 :=
  if s.length != 8 then none else (hexNat s).map (fun n => Float32.ofBits (UInt32.ofNat n))

def hex8 (n : Nat) : String :=
  String.ofList ((List.range 8).reverse.map (fun i => hexDigit ((n / 16 ^ i) % 16)))

def f32Hex (x : Float32) : String := hex8 x.toBits.toNat

/-- `dsp.agc`: run the operations; `none` = the model panics -/
def agcRun (a : Agc Float32) : List String → List String → Option (List String)
  | [], acc => some acc.reverse
  | op :: ops, acc =>
    if op == "L" then agcRun (a.lock true) ops acc
    else if op == "U" then agcRun (a.lock false) ops acc
    else if op == "R" then
      let a' := a.reset
      agcRun a' ops (s!"r:{f32Hex a'.gain}" :: acc)
    else
      match f32Of op with
      | none => none
      | some x =>
        match a.input x with
        | none => none
        | some (a', y) => agcRun a' ops (s!"{f32Hex y}:{f32Hex a'.gain}" :: acc)

def dcRun (d : DcBlock Float32) : List String → List String → Option (List String)
  | [], acc => some acc.reverse
  | op :: ops, acc =>
    if op == "R" then dcRun d.reset ops acc
    else
      match f32Of op with
      | none => none
      | some x =>
        match d.filter x with
        | none => none
        | some (d', y) => dcRun d' ops (f32Hex y :: acc)

def showTl (untilNext : Float32) : Option (SymEst Float32) → String
  | none => f32Hex untilNext
  | some s => s!"{f32Hex untilNext}={f32Hex s.zero}/{f32Hex s.sym}/{f32Hex s.err}"

def tlRun (l : TimingLoop Float32) : List String → List String → Option (List String)
  | [], acc => some acc.reverse
  | op :: ops, acc =>
    if op == "R" then tlRun l.reset ops acc
    else if op.startsWith "B" then
      match ((op.drop 1).toString.splitOn "/").map f32Of with
      | [some _, some a, some b] => tlRun (l.setGains a b) ops acc
      | _ => none
    else
      match (op.splitOn "/").map f32Of with
      | [some s, some o] =>
        match l.input s o with
        | none => none
        | some (l', u, sym) => tlRun l' ops (showTl u sym :: acc)
      | _ => none

def okList : Option (List String) → String
  | none => "PANIC"
  | some xs => " ".intercalate ("ok" :: xs)

/-- the clock: for each commanded period the number of input samples to the next low-rate sample and the remainder -/
def clockRun (untils : List Float32) : String :=
  let outs := untils.map fun u =>
    match clockNext u 100000 1 with
    | some n => s!"{n}:{f32Hex (clockRemaining u n)}"
    | none => "never"
  " ".intercalate ("ok" :: outs)

/-- `dsp.laws`: the eight `OrderLaws` (Lemmas/DspLaws.lean) evaluated for the `Float32` instance on a grid of
    special and ordinary values without NaN (a sampled sanity check of the statement "the order-only theorems'
    hypotheses are true of IEEE numbers"; nothing is proved about `Float32`) -/
def lawsGrid : List Float32 :=
  let specials : List UInt32 := [0x00000000, 0x80000000, 0x00000001, 0x80000001, 0x007fffff, 0x00800000, 0x80800000,
    0x3f000000, 0xbf000000, 0x3f7fffff, 0x3f800000, 0x3f800001, 0xbf800000, 0x40000000, 0x4b000000, 0x4b800000,
    0x7f7fffff, 0xff7fffff, 0x7f800000, 0xff800000, 0x3eaaaaab, 0x3dcccccd, 0x41a95857, 0x3727c5ac]
  let gen : List UInt32 := (List.range 96).map (fun i => (UInt32.ofNat i) * 2654435761 + 12345)
  (specials ++ gen).map Float32.ofBits |>.filter (fun x => !x.isNaN)

def lawsCheck : String := Id.run do
  let g := lawsGrid.toArray
  let lt := fun (a b : Float32) => Arith.lt a b
  let le := fun (a b : Float32) => Arith.le a b
  for a in g do
    if lt a a then return s!"FAIL lt_irrefl at {f32Hex a}"
    for b in g do
      if le a b != !(lt b a) then return s!"FAIL le_iff_not_lt at {f32Hex a} {f32Hex b}"
      for c in g do
        if lt a b && lt b c && !(lt a c) then return s!"FAIL lt_trans at {f32Hex a} {f32Hex b} {f32Hex c}"
        if !(lt a b) && !(lt b c) && lt a c then return s!"FAIL lt_neg_trans at {f32Hex a} {f32Hex b} {f32Hex c}"
  let one : Float32 := Arith.one
  let zero : Float32 := Arith.zero
  let h : Float32 := half
  if !(le zero one) then return "FAIL zero_le_one"
  if !(le zero h) then return "FAIL zero_le_half"
  if !(le (Arith.neg h) h) then return "FAIL neg_half_le_half"
  if !(le (Arith.neg one) one) then return "FAIL neg_one_le_one"
  return s!"ok {g.size}"

def handleDspOp (args : List String) : Option String :=
  if args == ["dsp.laws"] then some lawsCheck else
  match args with
  | ["dsp.agc", bw, lo, hi, ops] =>
    match f32Of bw, f32Of lo, f32Of hi with
    | some bw, some lo, some hi =>
      match Agc.new bw lo hi with
      | none => some "PANIC"
      | some a => some (okList ((agcRun a (ops.splitOn ",") []).map (fun xs => s!"g:{f32Hex a.gain}" :: xs)))
    | _, _, _ => some "bad-op"
  | ["dsp.dc", len, ops] =>
    match len.toNat? with
    | some len =>
      match DcBlock.new (F := Float32) len with
      | none => some "PANIC"
      | some d => some (okList (dcRun d (ops.splitOn ",") []))
    | none => some "bad-op"
  | ["dsp.tl", sps, _bw, alpha, beta, maxdev, ops] =>
    match f32Of sps, f32Of alpha, f32Of beta, f32Of maxdev with
    | some sps, some alpha, some beta, some maxdev =>
      match TimingLoop.new sps alpha beta maxdev with
      | none => some "PANIC"
      | some l => some (okList (tlRun l (ops.splitOn ",") []))
    | _, _, _, _ => some "bad-op"
  | ["dsp.clock", untils] =>
    match (untils.splitOn ",").mapM f32Of with
    | some us => some (clockRun us)
    | none => some "bad-op"
  | _ => none

/-! ### oracles: the statements of the theorems of Thm/Dsp.lean, decided on the implementation's answers -/

def leF (a b : Float32) : Bool := decide (a ≤ b)

/-- every reported gain lies within `[lo, hi]` (answers of `dsp.agc`); a panic is right exactly when `lo > hi` -/
def oracleAgc (lo hi : Float32) (ans : List String) : Option String :=
  match ans with
  | ["PANIC"] => if leF lo hi then some "panic although min <= max" else none
  | "ok" :: items =>
    if !leF lo hi then
      -- min > max: the first sample must have panicked
      if items.any (fun it => !(it.startsWith "g:") && !(it.startsWith "r:")) then some "no panic although min > max and a sample was processed" else none
    else
      items.findSome? fun it =>
        match f32Of ((it.splitOn ":").getD 1 "") with
        | none => some s!"unparsable {it}"
        | some g => if leF lo g && leF g hi then none else some s!"gain {it} outside the configured limits"
  | _ => some "unparsable"

/-- `DCBlocker::new(1)` is the identity -/
def oracleDc1 (ops : List String) (ans : List String) : Option String :=
  match ans with
  | "ok" :: outs =>
    let ins := ops.filter (· != "R")
    if ins == outs then none else some "a DC blocker of length 1 changed its input"
  | _ => some "panic or unparsable"

/-- the period handed back stays within `[-0.5, periodMax + |alpha| + 1]` and is never NaN: no wedge of the sample clock
    (after a symbol: `0 ≤ period ≤ periodMax + |alpha| + 0.5`; the step in between adds an offset in `[-0.5, 0.5]`) -/
def oracleTl (sps alpha maxdev : Float32) (ans : List String) : Option String :=
  match ans with
  | "ok" :: items =>
    let dev := if maxdev < 0 then 0 else if maxdev > 0.5 then 0.5 else maxdev
    let pmax := sps / 2 + sps * dev
    let hiB := pmax + alpha.abs + 1.0 + 0.001 * pmax
    items.findSome? fun it =>
      match f32Of ((it.splitOn "=").getD 0 "") with
      | none => some s!"unparsable {it}"
      | some p => if leF (-0.5) p && leF p hiB then none else some s!"commanded period {it} outside [-0.5, period_max + |alpha| + 1]"
  | ["PANIC"] => some "the timing loop panicked"
  | _ => some "unparsable"

/-- consecutive low-rate samples are at most `max(1, ceil(period + 0.5))` input samples apart and at least one -/
def oracleClock (untils : List Float32) (ans : List String) : Option String :=
  match ans with
  | "ok" :: items =>
    if items.length != untils.length then some "length mismatch" else
    (untils.zip items).findSome? fun (u, it) =>
      match ((it.splitOn ":").getD 0 "").toNat? with
      | none => some s!"unparsable {it}"
      | some n =>
        let bound := if u < 0.5 then 1 else (u + 0.5).ceil.toUInt64.toNat
        if 1 ≤ n && n ≤ bound then none else some s!"low-rate sample {n} input samples after the previous one for a commanded period {f32Hex u}"
  | _ => some "unparsable"

def handleDspSpec (name : String) (ins ans : List String) : Option String :=
  let v : Option String → String := fun o => match o with | none => "ok" | some w => s!"FAIL {w}"
  match name, ins with
  | "spec.dsp.agc", [lo, hi] =>
    match f32Of lo, f32Of hi with
    | some lo, some hi => some (v (oracleAgc lo hi ans))
    | _, _ => some "bad-op"
  | "spec.dsp.dc1", [ops] => some (v (oracleDc1 (ops.splitOn ",") ans))
  | "spec.dsp.tl", [sps, alpha, maxdev] =>
    match f32Of sps, f32Of alpha, f32Of maxdev with
    | some s, some a, some m => some (v (oracleTl s a m ans))
    | _, _, _ => some "bad-op"
  | "spec.dsp.clock", [untils] =>
    match (untils.splitOn ",").mapM f32Of with
    | some us => some (v (oracleClock us ans))
    | none => some "bad-op"
  | _, _ => none

end SameVerif.Driver
