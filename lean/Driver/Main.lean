import SameVerif
import SameVerif.Spec.OracleC03
import SameVerif.Spec.OracleC06
import Driver.Util
/-
  samemodel: the executable side of the correspondence check.
  One request per input line, one answer per output line.
-/
open SameVerif SameVerif.Driver

def MAXLEN : Nat := 268   -- replaced by Gen.Constants once generated

def errName : DecodeErr → String
  | .unrecognizedPrefix => "UnrecognizedPrefix"
  | .notAscii => "NotAscii"
  | .malformed => "Malformed"

def showHeader (h : Header) : String :=
  s!"som {hexOf h.text} off={h.offsetTime} par={h.parity} vot={h.voting}"

def showMsg : Msg → String
  | .som h => showHeader h
  | .eom => "eom"

def showRes : MsgResult → String
  | .ok m => showMsg m
  | .error e => s!"err:{errName e}"

def showOptRes : Option MsgResult → String
  | none => "none"
  | some r => showRes r

def showP {α} (f : α → String) : Except Panic α → String
  | .ok a => f a
  | .error _ => "PANIC"

def showAccessors (h : Header) : String :=
  let locs := showP (fun (l : List (List Byte)) => "/".intercalate (l.map hexOf)) h.locations
  let dur := showP (fun (p : Nat × Nat) => s!"{p.1}:{p.2}") h.validDurationFields
  let iss := showP (fun (p : Nat × Nat × Nat) => s!"{p.1}:{p.2.1}:{p.2.2}") h.issueDaytimeFields
  s!"org={showP hexOf h.originatorStr} evt={showP hexOf h.eventStr} locs={locs} dur={dur} iss={iss} call={showP hexOf h.callsign}"

/-- the answer to `hdr <bytes>`: `MessageHeader::new` and every accessor -/
def hdrOut (b : List Byte) : String :=
  if !validUtf8 b then "not-utf8"
  else match Header.new b with
    | .ok h => s!"{showHeader h} {showAccessors h}"
    | .error e => s!"err:{errName e}"

def nbhdAlphabet : List (List Byte) :=
  (List.range 128).map (fun c => [UInt8.ofNat c]) ++ [[0xC3, 0xA9], [0xE2, 0x82, 0xAC], [0xF0, 0x9F, 0x98, 0x80]]

/-- the complete 1-edit neighbourhood at one position, in the harness's order -/
def variants (seed : List Byte) (pos : Nat) : List (List Byte) :=
  let pre := seed.take pos
  let del := if pos < seed.length then
      [pre ++ seed.drop (pos + 1)] ++ nbhdAlphabet.map (fun a => pre ++ a ++ seed.drop (pos + 1))
    else []
  del ++ nbhdAlphabet.map (fun a => pre ++ a ++ seed.drop pos)

def hdrnbhd (seed : List Byte) (pos : Nat) : UInt64 :=
  (variants seed pos).foldl (fun h v => fnvByte (fnvStr h (hdrOut v)) 10) fnvInit

def vote3hash (lo hi : Nat) : UInt64 := Id.run do
  let mut h := fnvInit
  for i in [lo:hi] do
    let b0 := UInt8.ofNat (i / 65536)
    let b1 := UInt8.ofNat (i / 256 % 256)
    let b2 := UInt8.ofNat (i % 256)
    let (b, e) := voteCorrect b0 b1 b2
    h := fnvByte (fnvByte h b) (UInt8.ofNat e)
  return h

def vote2hash (lo hi : Nat) : UInt64 := Id.run do
  let mut h := fnvInit
  for i in [lo:hi] do
    let b0 := UInt8.ofNat (i / 256)
    let b1 := UInt8.ofNat (i % 256)
    let (b, e) := voteDetect b0 b1
    h := fnvByte (fnvByte h b) (UInt8.ofNat e)
  return h

/-- an implementation answer, parsed back -/
inductive Ans where
  | none | eom | err (k : String) | som (text : List Byte) (off par vot : Nat) | other (s : String)

def kv (s key : String) : Option Nat :=
  if s.startsWith (key ++ "=") then (s.drop (key.length + 1)).toString.toNat? else none

def parseAns (ws : List String) : Ans :=
  match ws with
  | ["none"] => .none
  | ["eom"] => .eom
  | ["som", t, o, p, v] =>
    match unhex t, kv o "off", kv p "par", kv v "vot" with
    | some t, some o, some p, some v => .som t o p v
    | _, _, _, _ => .other (" ".intercalate ws)
  | [w] => if w.startsWith "err:" then .err (w.drop 4).toString else .other w
  | ws => .other (" ".intercalate ws)

def kvs (s key : String) : Option String :=
  if s.startsWith (key ++ "=") then some (s.drop (key.length + 1)).toString else none

def parseHdrAns (ws : List String) : Spec.HdrVerdictIn :=
  match ws with
  | ["err:NotAscii"] => .errNotAscii
  | ["err:Malformed"] => .errMalformed
  | ["som", t, o, p, v, org, evt, locs, dur, iss, call] =>
    let r : Option Spec.HdrAns := do
      let t ← unhex t
      let o ← kv o "off"
      let p ← kv p "par"
      let v ← kv v "vot"
      let org ← (kvs org "org").bind unhex
      let evt ← (kvs evt "evt").bind unhex
      let locs ← (kvs locs "locs").bind (fun l => (l.splitOn "/").mapM unhex)
      let dur ← (kvs dur "dur").bind (fun d => match (d.splitOn ":").mapM String.toNat? with
        | some [a, b] => some (a, b) | _ => none)
      let iss ← (kvs iss "iss").bind (fun d => match (d.splitOn ":").mapM String.toNat? with
        | some [a, b, c] => some (a, b, c) | _ => none)
      let call ← (kvs call "call").bind unhex
      pure { text := t, off := o, par := p, vot := v, org, evt, locs, dur, iss, call }
    match r with
    | some a => .ok a
    | none => .errOther (" ".intercalate ws)
  | ws => .errOther (" ".intercalate ws)

def optVerdict : Option String → String
  | none => "ok"
  | some why => s!"FAIL {why}"

def verdict (b : Bool) (why : String) : String := if b then "ok" else s!"FAIL {why}"

/-- specification queries: `spec.<name> <inputs> => <implementation answer>` -/
def handleSpec (name : String) (ins ans : List String) : String :=
  match name, ins with
  | "spec.c03.vote3", [a, b, c] =>
    match a.toNat?, b.toNat?, c.toNat?, ans with
    | some a, some b, some c, [x, e] =>
      match x.toNat?, e.toNat? with
      | some x, some e => verdict (Spec.oracleVote3 (UInt8.ofNat a) (UInt8.ofNat b) (UInt8.ofNat c) (UInt8.ofNat x) e) "not the bitwise majority / dispute count"
      | _, _ => "FAIL unparsable answer"
    | _, _, _, _ => "FAIL unparsable answer"
  | "spec.c03.vote2", [a, b] =>
    match a.toNat?, b.toNat?, ans with
    | some a, some b, [x, e] =>
      match x.toNat?, e.toNat? with
      | some x, some e => verdict (Spec.oracleVote2 (UInt8.ofNat a) (UInt8.ofNat b) (UInt8.ofNat x) e) "not equality-or-zero / differing-bit count"
      | _, _ => "FAIL unparsable answer"
    | _, _, _ => "FAIL unparsable answer"
  | "spec.c03.counts", bursts =>
    match bursts.mapM unhex with
    | some bs =>
      match parseAns ans with
      | .som t _ p v => verdict (Spec.oracleCounts bs t p v) "parity/voting counters do not match the bursts"
      | .other s => s!"FAIL unparsable answer {s}"
      | _ => "ok"
    | none => "bad-op"
  | "spec.c03.two_of_three", [h, x, _pos] =>
    match unhex h, unhex x with
    | some h, some x =>
      match parseAns ans with
      | .som t _ p v =>
        verdict (t == h && p == Spec.specParity h x && v == Spec.specVoting h x)
          "two intact bursts did not yield exactly the header with the specified counters"
      | _ => "FAIL two intact bursts did not yield a StartOfMessage"
    | _, _ => "bad-op"
  | "spec.c03.pair", [a, b] =>
    match unhex a, unhex b with
    | some a, some b =>
      match parseAns ans with
      | .som t _ _ _ => verdict (Spec.oraclePair a b t) "header byte not backed by both bursts"
      | .other s => s!"FAIL unparsable answer {s}"
      | _ => "ok"
    | _, _ => "bad-op"
  | "spec.c06.hdr", [b] =>
    match unhex b with
    | some b => optVerdict (Spec.oracleHdr b (parseHdrAns ans))
    | none => "bad-op"
  | "spec.c06.reparse", first =>
    -- the answer for the stored text must equal the answer for the original input
    verdict (first == ans) "re-parsing the stored text gave a different header"
  | "spec.c06.msg3", [b, e, c] =>
    match unhex b, parseNats e, parseNats c with
    | some b, some e, some c =>
      -- dispatch rule of the byte-slice constructor
      if !validUtf8 b then verdict (ans == ["err:NotAscii"]) "invalid UTF-8 must be NotAscii"
      else if startsWith b litZCZC then
        let expPar := fun (t : List Byte) => ((e.zip t).map (·.1)).sum
        let expVot := fun (t : List Byte) => ((c.zip t).filter (fun p => p.1 ≥ 3)).length
        match parseAns ans with
        | .som t o p v =>
          -- accessors are not part of this answer; judge text, offset and counters
          match Spec.longestShapedPrefix b with
          | some (t', f) => verdict (b.all (· < 128) && t == t' && o == f.plus && p == expPar t && v == expVot t) "byte-slice constructor: text/offset/counters"
          | none => "FAIL accepted although no prefix has the header shape"
        | .err k =>
          if !b.all (· < 128) then verdict (k == "NotAscii") "non-ASCII must be NotAscii"
          else verdict (k == "Malformed" && (Spec.longestShapedPrefix b).isNone) "rejected although a prefix has the header shape"
        | _ => "FAIL ZCZC- prefix must dispatch to the header parser"
      else if startsWith b litNN then verdict (ans == ["eom"]) "NN prefix must be EndOfMessage"
      else verdict (ans == ["err:UnrecognizedPrefix"]) "other prefixes must be UnrecognizedPrefix"
    | _, _, _ => "bad-op"
  | _, _ => "bad-op"

def handleOp (args : List String) : String :=
  match args with
  | ["vote2", a, b] =>
    match a.toNat?, b.toNat? with
    | some a, some b => let (x, e) := voteDetect (UInt8.ofNat a) (UInt8.ofNat b); s!"{x.toNat} {e}"
    | _, _ => "bad-op"
  | ["vote3", a, b, c] =>
    match a.toNat?, b.toNat?, c.toNat? with
    | some a, some b, some c =>
      let (x, e) := voteCorrect (UInt8.ofNat a) (UInt8.ofNat b) (UInt8.ofNat c); s!"{x.toNat} {e}"
    | _, _, _ => "bad-op"
  | ["vote3hash", lo, hi] =>
    match lo.toNat?, hi.toNat? with
    | some lo, some hi => s!"{(vote3hash lo hi).toNat}"
    | _, _ => "bad-op"
  | ["vote2hash", lo, hi] =>
    match lo.toNat?, hi.toNat? with
    | some lo, some hi => s!"{(vote2hash lo hi).toNat}"
    | _, _ => "bad-op"
  | ["allowed"] =>
    String.ofList ((List.range 256).map (fun i => if isAllowed (UInt8.ofNat i) then '1' else '0'))
  | "estimate" :: bursts =>
    match bursts.mapM unhex with
    | some bs =>
      let est := estimateMessage MAXLEN bs
      s!"{hexOf (est.map (·.byte))} {natsOf (est.map (·.nbursts))} {natsOf (est.map (·.errs))}"
    | none => "bad-op"
  | "combine" :: bursts =>
    match bursts.mapM unhex with
    | some bs => showOptRes (combine MAXLEN bs)
    | none => "bad-op"
  | ["msg3", b, e, c] =>
    match unhex b, parseNats e, parseNats c with
    | some b, some e, some c => showRes (Msg.tryFromBytes b e c)
    | _, _, _ => "bad-op"
  | ["msgstr", b] =>
    match unhex b with
    | some b => if validUtf8 b then showRes (Msg.tryFromString b) else "not-utf8"
    | none => "bad-op"
  | ["hdr", b] =>
    match unhex b with
    | some b => hdrOut b
    | none => "bad-op"
  | ["hdrnbhd", seed, pos] =>
    match unhex seed, pos.toNat? with
    | some seed, some pos => s!"{(hdrnbhd seed pos).toNat}"
    | _, _ => "bad-op"
  | _ => "bad-op"

def handle (args : List String) : String :=
  match args with
  | name :: rest =>
    if name.startsWith "spec." then
      let ins := rest.takeWhile (· != "=>")
      let ans := (rest.dropWhile (· != "=>")).drop 1
      handleSpec name ins ans
    else handleOp args
  | [] => "bad-op"

partial def loop (h : IO.FS.Stream) (out : IO.FS.Stream) : IO Unit := do
  let line ← h.getLine
  if line.isEmpty then return ()
  let args := (line.trimAscii.toString.splitOn " ").filter (· != "")
  out.putStrLn (handle args)
  loop h out

def main : IO Unit := do
  let stdin ← IO.getStdin
  let stdout ← IO.getStdout
  loop stdin stdout
