import SameVerif
import SameVerif.Spec.OracleC03
import Driver.Util
/-
  samemodel: the executable side of the correspondence check.
  One request per input line, one answer per output line.
-/
open SameVerif SameVerif.Driver

def MAXLEN : Nat := 268   -- replaced by Gen.Constants once generated

def errName : DecodeErr → String
  | .unrecognizedPrefix => "UnrecognizedPrefix"
  | .notAscii => "NotAscii"
  | .malformed => "Malformed"

def showHeader (h : Header) : String :=
  s!"som {hexOf h.text} off={h.offsetTime} par={h.parity} vot={h.voting}"

def showMsg : Msg → String
  | .som h => showHeader h
  | .eom => "eom"

def showRes : MsgResult → String
  | .ok m => showMsg m
  | .error e => s!"err:{errName e}"

def showOptRes : Option MsgResult → String
  | none => "none"
  | some r => showRes r

def showP {α} (f : α → String) : Except Panic α → String
  | .ok a => f a
  | .error _ => "PANIC"

def showAccessors (h : Header) : String :=
  let locs := showP (fun (l : List (List Byte)) => "/".intercalate (l.map hexOf)) h.locations
  let dur := showP (fun (p : Nat × Nat) => s!"{p.1}:{p.2}") h.validDurationFields
  let iss := showP (fun (p : Nat × Nat × Nat) => s!"{p.1}:{p.2.1}:{p.2.2}") h.issueDaytimeFields
  s!"org={showP hexOf h.originatorStr} evt={showP hexOf h.eventStr} locs={locs} dur={dur} iss={iss} call={showP hexOf h.callsign}"

def vote3hash (lo hi : Nat) : UInt64 := Id.run do
  let mut h := fnvInit
  for i in [lo:hi] do
    let b0 := UInt8.ofNat (i / 65536)
    let b1 := UInt8.ofNat (i / 256 % 256)
    let b2 := UInt8.ofNat (i % 256)
    let (b, e) := voteCorrect b0 b1 b2
    h := fnvByte (fnvByte h b) (UInt8.ofNat e)
  return h

def vote2hash (lo hi : Nat) : UInt64 := Id.run do
  let mut h := fnvInit
  for i in [lo:hi] do
    let b0 := UInt8.ofNat (i / 256)
    let b1 := UInt8.ofNat (i % 256)
    let (b, e) := voteDetect b0 b1
    h := fnvByte (fnvByte h b) (UInt8.ofNat e)
  return h

/-- an implementation answer, parsed back -/
inductive Ans where
  | none | eom | err (k : String) | som (text : List Byte) (off par vot : Nat) | other (s : String)

def kv (s key : String) : Option Nat :=
  if s.startsWith (key ++ "=") then (s.drop (key.length + 1)).toString.toNat? else none

def parseAns (ws : List String) : Ans :=
  match ws with
  | ["none"] => .none
  | ["eom"] => .eom
  | ["som", t, o, p, v] =>
    match unhex t, kv o "off", kv p "par", kv v "vot" with
    | some t, some o, some p, some v => .som t o p v
    | _, _, _, _ => .other (" ".intercalate ws)
  | [w] => if w.startsWith "err:" then .err (w.drop 4).toString else .other w
  | ws => .other (" ".intercalate ws)

def verdict (b : Bool) (why : String) : String := if b then "ok" else s!"FAIL {why}"

/-- specification queries: `spec.<name> <inputs> => <implementation answer>` -/
def handleSpec (name : String) (ins ans : List String) : String :=
  match name, ins with
  | "spec.c03.vote3", [a, b, c] =>
    match a.toNat?, b.toNat?, c.toNat?, ans with
    | some a, some b, some c, [x, e] =>
      match x.toNat?, e.toNat? with
      | some x, some e => verdict (Spec.oracleVote3 (UInt8.ofNat a) (UInt8.ofNat b) (UInt8.ofNat c) (UInt8.ofNat x) e) "not the bitwise majority / dispute count"
      | _, _ => "FAIL unparsable answer"
    | _, _, _, _ => "FAIL unparsable answer"
  | "spec.c03.vote2", [a, b] =>
    match a.toNat?, b.toNat?, ans with
    | some a, some b, [x, e] =>
      match x.toNat?, e.toNat? with
      | some x, some e => verdict (Spec.oracleVote2 (UInt8.ofNat a) (UInt8.ofNat b) (UInt8.ofNat x) e) "not equality-or-zero / differing-bit count"
      | _, _ => "FAIL unparsable answer"
    | _, _, _ => "FAIL unparsable answer"
  | "spec.c03.counts", bursts =>
    match bursts.mapM unhex with
    | some bs =>
      match parseAns ans with
      | .som t _ p v => verdict (Spec.oracleCounts bs t p v) "parity/voting counters do not match the bursts"
      | .other s => s!"FAIL unparsable answer {s}"
      | _ => "ok"
    | none => "bad-op"
  | "spec.c03.two_of_three", [h, x, _pos] =>
    match unhex h, unhex x with
    | some h, some x =>
      match parseAns ans with
      | .som t _ p v =>
        verdict (t == h && p == Spec.specParity h x && v == Spec.specVoting h x)
          "two intact bursts did not yield exactly the header with the specified counters"
      | _ => "FAIL two intact bursts did not yield a StartOfMessage"
    | _, _ => "bad-op"
  | "spec.c03.pair", [a, b] =>
    match unhex a, unhex b with
    | some a, some b =>
      match parseAns ans with
      | .som t _ _ _ => verdict (Spec.oraclePair a b t) "header byte not backed by both bursts"
      | .other s => s!"FAIL unparsable answer {s}"
      | _ => "ok"
    | _, _ => "bad-op"
  | _, _ => "bad-op"

def handleOp (args : List String) : String :=
  match args with
  | ["vote2", a, b] =>
    match a.toNat?, b.toNat? with
    | some a, some b => let (x, e) := voteDetect (UInt8.ofNat a) (UInt8.ofNat b); s!"{x.toNat} {e}"
    | _, _ => "bad-op"
  | ["vote3", a, b, c] =>
    match a.toNat?, b.toNat?, c.toNat? with
    | some a, some b, some c =>
      let (x, e) := voteCorrect (UInt8.ofNat a) (UInt8.ofNat b) (UInt8.ofNat c); s!"{x.toNat} {e}"
    | _, _, _ => "bad-op"
  | ["vote3hash", lo, hi] =>
    match lo.toNat?, hi.toNat? with
    | some lo, some hi => s!"{(vote3hash lo hi).toNat}"
    | _, _ => "bad-op"
  | ["vote2hash", lo, hi] =>
    match lo.toNat?, hi.toNat? with
    | some lo, some hi => s!"{(vote2hash lo hi).toNat}"
    | _, _ => "bad-op"
  | ["allowed"] =>
    String.ofList ((List.range 256).map (fun i => if isAllowed (UInt8.ofNat i) then '1' else '0'))
  | "estimate" :: bursts =>
    match bursts.mapM unhex with
    | some bs =>
      let est := estimateMessage MAXLEN bs
      s!"{hexOf (est.map (·.byte))} {natsOf (est.map (·.nbursts))} {natsOf (est.map (·.errs))}"
    | none => "bad-op"
  | "combine" :: bursts =>
    match bursts.mapM unhex with
    | some bs => showOptRes (combine MAXLEN bs)
    | none => "bad-op"
  | ["msg3", b, e, c] =>
    match unhex b, parseNats e, parseNats c with
    | some b, some e, some c => showRes (Msg.tryFromBytes b e c)
    | _, _, _ => "bad-op"
  | ["msgstr", b] =>
    match unhex b with
    | some b => showRes (Msg.tryFromString b)
    | none => "bad-op"
  | ["hdr", b] =>
    match unhex b with
    | some b =>
      match Header.new b with
      | .ok h => s!"{showHeader h} {showAccessors h}"
      | .error e => s!"err:{errName e}"
    | none => "bad-op"
  | _ => "bad-op"

def handle (args : List String) : String :=
  match args with
  | name :: rest =>
    if name.startsWith "spec." then
      let ins := rest.takeWhile (· != "=>")
      let ans := (rest.dropWhile (· != "=>")).drop 1
      handleSpec name ins ans
    else handleOp args
  | [] => "bad-op"

partial def loop (h : IO.FS.Stream) (out : IO.FS.Stream) : IO Unit := do
  let line ← h.getLine
  if line.isEmpty then return ()
  let args := (line.trimAscii.toString.splitOn " ").filter (· != "")
  out.putStrLn (handle args)
  loop h out

def main : IO Unit := do
  let stdin ← IO.getStdin
  let stdout ← IO.getStdout
  loop stdin stdout
