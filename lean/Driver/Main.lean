import SameVerif
import SameVerif.Spec.OracleC03
import SameVerif.Spec.OracleC06
import SameVerif.Spec.OracleC16
import SameVerif.Model.Events
import SameVerif.Model.HeaderSem
import SameVerif.Model.Spawner
import SameVerif.Spec.FrontEndCheck
import SameVerif.Model.Time
import SameVerif.Spec.OracleC15
import SameVerif.Model.Framer
import SameVerif.Spec.Frame
import SameVerif.Model.Assembler
import SameVerif.Spec.OracleAsm
import SameVerif.Model.Link
import SameVerif.Spec.OracleSig
import SameVerif.Model.Receiver
import SameVerif.Model.Iterator
import SameVerif.Model.Builder
import SameVerif.Model.App
import SameVerif.Spec.OracleApp
import Driver.Util
import Driver.Dsp
import Driver.FullRx
/-
  samemodel: the executable side of the correspondence check.
  One request per input line, one answer per output line.
-/
open SameVerif SameVerif.Driver


def errName : DecodeErr → String
  | .unrecognizedPrefix => "UnrecognizedPrefix"
  | .notAscii => "NotAscii"
  | .malformed => "Malformed"

def showHeader (h : Header) : String :=
  s!"som {hexOf h.text} off={h.offsetTime} par={h.parity} vot={h.voting}"

def showMsg : Msg → String
  | .som h => showHeader h
  | .eom => "eom"

def showRes : MsgResult → String
  | .ok m => showMsg m
  | .error e => s!"err:{errName e}"

def showOptRes : Option MsgResult → String
  | none => "none"
  | some r => showRes r

def showP {α} (f : α → String) : Except Panic α → String
  | .ok a => f a
  | .error _ => "PANIC"

def showAccessors (h : Header) : String :=
  let locs := showP (fun (l : List (List Byte)) => "/".intercalate (l.map hexOf)) h.locations
  let dur := showP (fun (p : Nat × Nat) => s!"{p.1}:{p.2}") h.validDurationFields
  let iss := showP (fun (p : Nat × Nat × Nat) => s!"{p.1}:{p.2.1}:{p.2.2}") h.issueDaytimeFields
  let natl := showP (fun (b : Bool) => if b then "1" else "0") h.isNational
  s!"org={showP hexOf h.originatorStr} evt={showP hexOf h.eventStr} locs={locs} dur={dur} iss={iss} call={showP hexOf h.callsign} orgk={showP Gen.Originator.name h.originator} natl={natl}"

/-- the answer to `hdr <bytes>`: `MessageHeader::new` and every accessor -/
def hdrOut (b : List Byte) : String :=
  if !validUtf8 b then "not-utf8"
  else match Header.new b with
    | .ok h => s!"{showHeader h} {showAccessors h}"
    | .error e => s!"err:{errName e}"

def nbhdAlphabet : List (List Byte) :=
  (List.range 128).map (fun c => [UInt8.ofNat c]) ++ [[0xC3, 0xA9], [0xE2, 0x82, 0xAC], [0xF0, 0x9F, 0x98, 0x80]]

/-- the complete 1-edit neighbourhood at one position, in the harness's order -/
def variants (seed : List Byte) (pos : Nat) : List (List Byte) :=
  let pre := seed.take pos
  let del := if pos < seed.length then
      [pre ++ seed.drop (pos + 1)] ++ nbhdAlphabet.map (fun a => pre ++ a ++ seed.drop (pos + 1))
    else []
  del ++ nbhdAlphabet.map (fun a => pre ++ a ++ seed.drop pos)

def hdrnbhd (seed : List Byte) (pos : Nat) : UInt64 :=
  (variants seed pos).foldl (fun h v => fnvByte (fnvStr h (hdrOut v)) 10) fnvInit

-- ---------------------------------------------------------------- events (C16)
open SameVerif.Gen in
def phenIdx (p : Phenomenon) : Nat := Phenomenon.all.idxOf p

def natsToBytes (s : List Nat) : List Byte := s.map UInt8.ofNat
def bytesToNats (s : List Byte) : List Nat := s.map (·.toNat)

def alpha40 : List (List Nat) :=
  ("ABCDEFGHIJKLMNOPQRSTUVWXYZ".toList.map (fun c => [c.toNat])) ++
    [[97], [122], [48], [57], [32], [45], [37], [10], [47], [63], [0], [0xC3, 0xA9], [0xE2, 0x82, 0xAC], [0xF0, 0x9F, 0x98, 0x80]]

def alphaString (len idx : Nat) : List Nat :=
  let rec go (k : Nat) (idx : Nat) (acc : List Nat) : List Nat :=
    match k with
    | 0 => acc
    | k + 1 => go k (idx / 40) ((alpha40.getD (idx % 40) []) ++ acc)
  go len idx []

def evtHashStep (h : UInt64) (code : List Nat) : UInt64 :=
  let e := eventCode code
  fnvByte (fnvByte h (UInt8.ofNat (phenIdx e.1))) (UInt8.ofNat e.2.num)

def evt3hash (lo hi : Nat) : UInt64 := Id.run do
  let mut h := fnvInit
  for i in [lo:hi] do
    h := evtHashStep h [i / 16384 % 128, i / 128 % 128, i % 128]
  return h

def evtalpha (len lo hi : Nat) : UInt64 := Id.run do
  let mut h := fnvInit
  for i in [lo:hi] do
    h := evtHashStep h (alphaString len i)
  return h

def boolStr (b : Bool) : String := if b then "true" else "false"

def evtLine (code : List Nat) : String :=
  let e := eventCode code
  s!"phen={e.1.info.name} sig={e.2.name} num={e.2.num} test={boolStr (isTest e)} unrec={boolStr (isUnrecognized e)} disp={hexOf (natsToBytes (eventDisplay e))} brief={hexOf (natsToBytes e.1.info.brief)} sigcode={hexOf (natsToBytes e.2.code)}"

open SameVerif.Gen in
def sigsLine : String :=
  let a := String.join (Significance.all.map (fun s => s!"{s.name}:{s.num}:{hexOf (natsToBytes s.code)}:{hexOf (natsToBytes s.display)};"))
  let m := String.ofList (Significance.all.flatMap (fun x => Significance.all.map (fun y =>
    if x.num < y.num then '<' else if x.num == y.num then '=' else '>')))
  s!"{a} {m}"

open SameVerif.Gen in
def phensLine : String :=
  let letters := (List.range 26).map (· + 65)
  let reach : List Nat := letters.foldl (fun acc a => letters.foldl (fun acc b => letters.foldl (fun acc c =>
    let i := phenIdx (eventCode [a, b, c]).1
    if acc.contains i then acc else i :: acc) acc) acc) []
  let ps := Phenomenon.all.filter (fun p => reach.contains (phenIdx p))
  ";".intercalate (ps.map (fun p =>
    let i := p.info
    s!"{i.name}:{boolStr i.national}:{boolStr i.test}:{boolStr i.weather}:{boolStr (!i.weather)}:{boolStr (p == .Unrecognized)}:{hexOf (natsToBytes i.brief)}"))

-- ---------------------------------------------------------------- time (C15)
def hashI64 (h : UInt64) (v : Int) : UInt64 :=
  let u : Nat := (v % 18446744073709551616).toNat
  (List.range 8).foldl (fun h k => fnvByte h (UInt8.ofNat (u / 256 ^ k % 256))) h

def i64Min : Int := -9223372036854775808

def todList : List (Nat × Nat) := [(0, 0), (23, 59), (12, 0), (24, 0), (0, 60), (7, 7), (23, 0)]
def rtodList : List (Nat × Nat × Nat) := [(0, 0, 0), (23, 59, 59), (12, 0, 0), (6, 30, 15)]
def durList : List (Nat × Nat) := [(0, 15), (1, 0), (99, 59), (0, 0)]

def timehash (Y : Int) : UInt64 := Id.run do
  let mut h := fnvInit
  let base := daysBeforeYear Y
  let epoch := daysBeforeYear 1970
  for d in [1:367] do
    for o in [0:181] do
      let off : Int := (o : Int) - 90
      let n := base + (d : Int) - 1 + off
      let (ry, rd) := dateOfDayNumber n
      let k := ((Y + d + off + 1000) % 7).toNat
      let rk := ((Y * 3 + d + off + 1000) % 4).toNat
      let dk := (((d : Int) + off + 1000) % 4).toNat
      let (hh, mm) := todList.getD k (0, 0)
      let (rh, rm, rs) := rtodList.getD rk (0, 0, 0)
      let (dh, dm) := durList.getD dk (0, 0)
      let nowSecs := (n - epoch) * 86400 + rh * 3600 + rm * 60 + rs
      let v := match calcIssue d hh mm ry rd with
        | some t => t.epochSecs
        | none => i64Min
      h := hashI64 h v
      h := fnvByte h (if isExpiredAt d hh mm dh dm ry rd nowSecs 0 then 1 else 0)
  return h

def pad (n width : Nat) : List Byte :=
  let ds := (toString n).toUTF8.toList
  List.replicate (width - ds.length) 48 ++ ds

/-- the header text the harness builds for (day, hh, mm, duration) -/
def timeHeader (d hh mm dh dm : Nat) : List Byte :=
  "ZCZC-WXR-RWT-012345+".toUTF8.toList ++ pad dh 2 ++ pad dm 2 ++ [45] ++ pad d 3 ++ pad hh 2 ++ pad mm 2
    ++ "-KLOX/NWS-".toUTF8.toList

def durhash : UInt64 := Id.run do
  let mut h := fnvInit
  for t in [0:10000] do
    match Header.new (timeHeader 1 0 0 (t / 100) (t % 100)) with
    | .ok hdr =>
      match hdr.validDurationFields with
      | .ok (a, b) =>
        h := fnvByte (fnvByte h (UInt8.ofNat a)) (UInt8.ofNat b)
        h := hashI64 h (durationSecs a b)
      | .error _ => h := fnvByte h 255
    | .error _ => h := fnvByte h 254
  return h

def hhmmhash (d : Nat) : UInt64 := Id.run do
  let mut h := fnvInit
  for t in [0:10000] do
    match Header.new (timeHeader d (t / 100) (t % 100) 0 30) with
    | .ok hdr =>
      match hdr.issueDaytimeFields with
      | .ok (a, b, c) =>
        h := fnvByte (fnvByte (fnvByte (fnvByte h (UInt8.ofNat (a / 256))) (UInt8.ofNat (a % 256))) (UInt8.ofNat b)) (UInt8.ofNat c)
        let v := match calcIssue a b c 2024 183 with
          | some t => t.epochSecs
          | none => i64Min
        h := hashI64 h v
      | .error _ => h := fnvByte h 255
    | .error _ => h := fnvByte h 254
  return h

-- ---------------------------------------------------------------- framer (C07)
def showLink : LinkSt → String
  | .noCarrier => "N"
  | .searching => "S"
  | .reading => "R"
  | .burst b => s!"B:{hexOf b}"

def hashLink (h : UInt64) : LinkSt → UInt64
  | .noCarrier => fnvByte h 0
  | .searching => fnvByte h 1
  | .reading => fnvByte h 2
  | .burst b => fnvByte (b.foldl fnvByte (fnvByte h 3)) 0xfe

def hex8 (w : UInt32) : String :=
  String.join ((beBytes w).map hexByte)

def showFState : FState → String
  | .idle => "idle"
  | .search w c => s!"search {hex8 w} {c}"
  | .read msg inv => s!"read {inv} {String.join (msg.map hexByte)}"

def frAlpha : Array Byte := #[0xAB, 90, 67, 78, 45, 65, 0x00, 0xFF, 91, 66]

def frRunVariant (c : FCfg) (pre tail : List Byte) (v : Nat) (h : UInt64) : UInt64 := Id.run do
  let d := tail.length
  let mut h := h
  let mut st := FState.idle
  let mut i := 0
  for b in pre do
    let (s', ls) := finput c st b (i == 0)
    st := s'; h := hashLink h ls; i := i + 1
  i := 0
  for b in tail do
    if v > d && v - d - 1 == i then
      let (s', ls) := fend st
      st := s'; h := hashLink h ls
    let restart := (v ≥ 1 && v ≤ d && v - 1 == i) || (pre.isEmpty && i == 0)
    let (s', ls) := finput c st b restart
    st := s'; h := hashLink h ls; i := i + 1
  return fnvStr h (showFState st)

def framerhash (c : FCfg) (pre : List Byte) (depth lo hi : Nat) : UInt64 := Id.run do
  let mut h := fnvInit
  for idx in [lo:hi] do
    let tail := (List.range depth).map (fun k => frAlpha[idx / 10 ^ (depth - 1 - k) % 10]!)
    for v in [0:2 * depth + 1] do
      h := frRunVariant c pre tail v h
  return h

def rle (xs : List String) : String :=
  let groups := xs.foldl (fun (acc : List (String × Nat)) x =>
    match acc with
    | (y, n) :: rest => if x == y then (y, n + 1) :: rest else (x, 1) :: acc
    | [] => [(x, 1)]) []
  ",".intercalate (groups.reverse.map (fun (x, n) => s!"{x}*{n}"))

def frStream (c : FCfg) (bs : List Byte) : String :=
  let (_, outs, _) := bs.foldl (fun (acc : FState × List String × Bool) b =>
    let (st, outs, first) := acc
    let (s', ls) := finput c st b first
    (s', showLink ls :: outs, false)) (FState.idle, [], true)
  rle outs.reverse

-- ---------------------------------------------------------------- assembler (C02, C04, C05, C08)
def showTransport : Transport → String
  | .idle => "idle"
  | .assembling => "assembling"
  | .message r => s!"msg {showRes r}"

def showAState (s : AState) : String :=
  let h := ";".intercalate (s.history.map (fun t => s!"{hexOf t.data}@{t.deadline}"))
  let p := match s.pending with
    | some t => s!"{showRes t.data}@{t.deadline}"
    | none => "-"
  let v := match s.previous with
    | some t => s!"{showMsg t.data}@{t.deadline}"
    | none => "-"
  s!"H[{h}] P[{p}] V[{v}]"

/-- a burst of a scenario: role tag, bytes, event tick, length of the link-busy window before it -/
structure ScBurst where
  role : String
  bytes : List Byte
  t : Nat
  busy : Nat

def parseScBurst (w : String) : Option ScBurst :=
  match w.splitOn ":" with
  | [role, rest] =>
    match rest.splitOn "@" with
    | [b, t, busy] =>
      match unhex b, t.toNat?, busy.toNat? with
      | some b, some t, some busy => some ⟨role, b, t, busy⟩
      | _, _, _ => none
    | _ => none
  | _ => none

/-- run a scenario on the assembler model: `assemble` at each burst tick, `idle` at every other tick
    that is not inside a link-busy window; returns (tick, output) for every message output -/
def runScenario (tEnd : Nat) (bursts : List ScBurst) : List (Nat × MsgResult) := Id.run do
  let mut st : AState := {}
  let mut outs : List (Nat × MsgResult) := []
  let mut rest := bursts
  -- bursts are sorted by time; `cur` = the next burst
  for tick in [1:tEnd + 1] do
    match rest with
    | b :: more =>
      if tick == b.t then
        let (s', o) := aAssemble st b.bytes tick
        st := s'
        rest := more
        match o with
        | .message r => outs := (tick, r) :: outs
        | _ => pure ()
      else if tick + b.busy > b.t then pure ()       -- link busy: nobody polls
      else
        let (s', o) := aIdle st tick
        st := s'
        match o with
        | .message r => outs := (tick, r) :: outs
        | _ => pure ()
    | [] =>
      let (s', o) := aIdle st tick
      st := s'
      match o with
      | .message r => outs := (tick, r) :: outs
      | _ => pure ()
  return outs.reverse

def showScenarioOut (outs : List (Nat × MsgResult)) : String :=
  if outs.isEmpty then "-" else ",".intercalate (outs.map (fun (t, r) => s!"{t}:{(showRes r).replace " " "_"}"))

-- ---------------------------------------------------------------- link + receiver on tapped streams
/-- run the link model over an observation string (one char '0'..'7' per tick: bit + 2·open + 4·close)
    and the equalizer bytes (one per byte tick, in order) -/
def linkRun (c : LCfg) (obs : List Char) (bytes : List Byte) : String := Id.run do
  let mut st : LState := {}
  let mut rest := bytes
  let mut outs : List String := []
  let mut tick := 0
  let mut nbytes := 0
  let mut resyncs : List Nat := []
  let mut starved := false
  for ch in obs do
    tick := tick + 1
    let v := ch.toNat - 48
    let o : Obs := ⟨v % 2 == 1, v / 2 % 2 == 1, v / 4 % 2 == 1⟩
    let eb := rest.headD 0
    let (st', ls, bt) := lstep c st o eb
    st := st'
    outs := showLink ls :: outs
    match bt with
    | some adj =>
      if rest.isEmpty then starved := true
      rest := rest.tail
      nbytes := nbytes + 1
      if adj then resyncs := tick :: resyncs
    | none => pure ()
  return s!"{rle outs.reverse} | bytes={nbytes} left={rest.length}{if starved then " STARVED" else ""} resyncs={natsOf resyncs.reverse}"

def showEvent : Event → String
  | .link t ls => s!"{t}:L:{showLink ls}"
  | .transport t ts =>
    s!"{t}:T:{match ts with
      | .idle => "idle"
      | .assembling => "assembling"
      | .message r => "msg_" ++ (showRes r).replace " " "_"}"

/-- tick stream: `<delta><letter>` with letters N,S,R or `B<hex>;` -/
partial def parseTicks (cs : List Char) (acc : List (Nat × LinkSt)) : Option (List (Nat × LinkSt)) :=
  match cs with
  | [] => some acc.reverse
  | _ =>
    let ds := cs.takeWhile Char.isDigit
    let rest := cs.dropWhile Char.isDigit
    match (String.ofList ds).toNat?, rest with
    | some d, 'N' :: r => parseTicks r ((d, .noCarrier) :: acc)
    | some d, 'S' :: r => parseTicks r ((d, .searching) :: acc)
    | some d, 'R' :: r => parseTicks r ((d, .reading) :: acc)
    | some d, 'B' :: r =>
      let hx := r.takeWhile (· != ';')
      match unhex (String.ofList hx) with
      | some b => parseTicks ((r.dropWhile (· != ';')).drop 1) ((d, .burst b) :: acc)
      | none => none
    | _, _ => none

def rxRun (rate sym0 : Nat) (ticks : List (Nat × LinkSt)) : String :=
  let (_, _, _, evs) := ticks.foldl (fun (acc : RState × Nat × Nat × List Event) (d, ls) =>
    let (st, sample, sym, evs) := acc
    let sample := sample + d
    let sym := sym + 1
    let (st', e) := rTick rate st sample sym ls
    (st', sample, sym, e.reverse ++ evs)) (({} : RState), 0, sym0, [])
  if evs.isEmpty then "-" else ",".intercalate (evs.reverse.map showEvent)

-- ---------------------------------------------------------------- iterator bindings (C13)
/-- reference event: index, timestamp, is it an Ok message -/
structure RefEv where
  idx : Nat
  ts : Nat
  isMsg : Bool

/-- step function reconstructed from a one-shot trace: sample number n emits the events stamped n -/
def traceStep (st : Nat × List RefEv) (_ : Unit) : (Nat × List RefEv) × List RefEv :=
  let n := st.1 + 1
  let now := st.2.takeWhile (·.ts == n)
  let later := st.2.dropWhile (·.ts == n)
  ((n, later), now)

def parseRef (s : String) : Option (List RefEv) :=
  if s == "-" then some []
  else
    let ws := s.splitOn ","
    (List.range ws.length).mapM (fun i =>
      let w := ws.getD i ""
      let isMsg := w.endsWith "m"
      let num := if isMsg then (w.dropEnd 1).toString else w
      num.toNat?.map (fun t => (⟨i, t, isMsg⟩ : RefEv)))

abbrev TRx := Rx (Nat × List RefEv) RefEv

/-- one `iter_events(&mut src).next()` -/
def callE (r : TRx) (src : List Unit) : String × TRx × List Unit :=
  match next traceStep r src with
  | (some e, r', src') => (s!"{e.idx}@{r'.consumed}", r', src')
  | (none, r', src') => (s!"-@{r'.consumed}", r', src')

/-- one `iter_messages(&mut src).next()`: events are consumed until an Ok message appears -/
partial def callM (r : TRx) (src : List Unit) : String × TRx × List Unit :=
  match next traceStep r src with
  | (some e, r', src') => if e.isMsg then (s!"{e.idx}@{r'.consumed}", r', src') else callM r' src'
  | (none, r', src') => (s!"-@{r'.consumed}", r', src')

/-- a binding drained to the end: every event with its own timestamp, then the end marker -/
partial def callDrain (r : TRx) (src : List Unit) (acc : List String) : List String × TRx :=
  match next traceStep r src with
  | (some e, r', src') => callDrain r' src' (s!"{e.idx}@{e.ts}" :: acc)
  | (none, r', _) => ((s!"-@{r'.consumed}" :: acc).reverse, r')

partial def callPattern (pat : Array Char) (i : Nat) (r : TRx) (src : List Unit) (acc : List String) : List String × TRx :=
  let c := pat[i % pat.size]!
  let (out, r', src') := if c == 'm' then callM r src else callE r src
  if out.startsWith "-" then ((out :: acc).reverse, r') else callPattern pat (i + 1) r' src' (out :: acc)

def iterRun (ref : List RefEv) (sched : List (Nat × String)) : String :=
  let r0 : TRx := { st := (0, ref) }
  let (outs, _) := sched.foldl (fun (acc : List String × TRx) (k, pat) =>
    let src := List.replicate k ()
    let (o, r') := if pat == "E" then callDrain acc.2 src [] else callPattern pat.toList.toArray 0 acc.2 src []
    (acc.1 ++ o, r')) ([], r0)
  ",".intercalate outs

def parseSched (s : String) : Option (List (Nat × String)) :=
  (s.splitOn "/").mapM (fun w => match w.splitOn ":" with
    | [k, pat] => k.toNat?.map (fun k => (k, pat))
    | _ => none)

/-- C13 oracle on the recorded calls, from the statement only: returned events are the reference
    events in order, nothing is skipped except non-message events by message calls, the counter
    after a call equals the returned event's timestamp, never decreases, and equals the number
    of samples supplied so far when a binding ends -/
def oracleC13 (n : Nat) (ref : List RefEv) (sched : List (Nat × String)) (calls : List String) : Option String := Id.run do
  let mut cursor := 0
  let mut lastCounter := 0
  let mut supplied := 0
  let mut segs := sched
  let mut inSeg := false
  let mut skippedMsg := false
  for c in calls do
    if !inSeg then
      match segs with
      | (k, _) :: rest => supplied := supplied + k; segs := rest; inSeg := true
      | [] => return some "more calls than bindings"
    match c.splitOn "@" with
    | [a, b] =>
      match b.toNat? with
      | none => return some "unparsable call"
      | some counter =>
        if counter < lastCounter then return some "input_sample_counter decreased"
        lastCounter := counter
        if a == "-" then
          if counter != supplied then return some s!"a binding ended with {counter} samples consumed, {supplied} supplied"
          -- whatever was generated up to here and not returned was dropped by message calls
          for e in ref do
            if e.idx ≥ cursor ∧ e.ts ≤ counter then
              if e.isMsg then skippedMsg := true
              cursor := e.idx + 1
          inSeg := false
        else
          match a.toNat? with
          | none => return some s!"a call returned an event that is not the next one of the one-shot trace: {a}"
          | some i =>
            if i < cursor then return some "an event was returned twice or out of order"
            for e in ref do
              if e.idx ≥ cursor ∧ e.idx < i ∧ e.isMsg then skippedMsg := true
            cursor := i + 1
            match ref[i]? with
            | some e => if e.ts > counter then return some "an event was returned before its sample was consumed (read ahead the other way)"
                        else if e.ts != counter ∧ !(c.startsWith s!"{i}@{e.ts}") then return some "input_sample_counter after the call differs from the returned event's timestamp: samples were read ahead"
            | none => return some "event index out of range"
    | _ => return some "unparsable call"
  if skippedMsg then return some "a message was lost across bindings"
  if supplied != n then return some "schedule does not cover the stream"
  if cursor != ref.length then return some s!"{ref.length - cursor} events of the one-shot trace were never returned"
  return none

-- ---------------------------------------------------------------- samedec app (C11, C12, C19)
def parseAMsg (w : String) : Option AMsg :=
  if w == "E" then some .eom
  else if w.startsWith "S" then (unhex (w.drop 1).toString).map (fun b => .som (bytesToNats b))
  else none

def showAMsg : AMsg → String
  | .eom => "E"
  | .som t => s!"S{hexOf (natsToBytes t)}"

def parseAppInput (n live flushed : String) : Option AppInput := do
  let n ← kv n "n"
  let live ← kvs live "live"
  let flushed ← kvs flushed "flushed"
  let l ← if live == "-" then some [] else (live.splitOn ",").mapM (fun w =>
    match w.splitOn ":" with
    | [t, m] => do let t ← t.toNat?; let m ← parseAMsg m; pure (t, m)
    | _ => none)
  let f ← if flushed == "-" then some [] else (flushed.splitOn ",").mapM parseAMsg
  pure ⟨n, l, f⟩

def showList (xs : List String) : String := if xs.isEmpty then "-" else ",".intercalate xs

def parsePrinted (w : String) : Option (List AMsg) × Bool :=
  if w == "-" then (some [], false)
  else
    let toks := w.splitOn ","
    match toks.mapM parseAMsg with
    | some ms => (some ms, false)
    | none => (some (toks.filterMap parseAMsg), true)

def vote3hash (lo hi : Nat) : UInt64 := Id.run do
  let mut h := fnvInit
  for i in [lo:hi] do
    let b0 := UInt8.ofNat (i / 65536)
    let b1 := UInt8.ofNat (i / 256 % 256)
    let b2 := UInt8.ofNat (i % 256)
    let (b, e) := voteCorrect b0 b1 b2
    h := fnvByte (fnvByte h b) (UInt8.ofNat e)
  return h

def vote2hash (lo hi : Nat) : UInt64 := Id.run do
  let mut h := fnvInit
  for i in [lo:hi] do
    let b0 := UInt8.ofNat (i / 256)
    let b1 := UInt8.ofNat (i % 256)
    let (b, e) := voteDetect b0 b1
    h := fnvByte (fnvByte h b) (UInt8.ofNat e)
  return h

/-- an implementation answer, parsed back -/
inductive Ans where
  | none | eom | err (k : String) | som (text : List Byte) (off par vot : Nat) | other (s : String)


def parseAns (ws : List String) : Ans :=
  match ws with
  | ["none"] => .none
  | ["eom"] => .eom
  | ["som", t, o, p, v] =>
    match unhex t, kv o "off", kv p "par", kv v "vot" with
    | some t, some o, some p, some v => .som t o p v
    | _, _, _, _ => .other (" ".intercalate ws)
  | [w] => if w.startsWith "err:" then .err (w.drop 4).toString else .other w
  | ws => .other (" ".intercalate ws)

def parseScOut (w : String) : Option Spec.Out :=
  match w.splitOn ":" with
  | t :: rest =>
    match t.toNat? with
    | some t =>
      let body := ":".intercalate rest
      if body == "eom" then some ⟨t, .eom⟩
      else if body.startsWith "err" then some ⟨t, .err⟩
      else match body.splitOn "_" with
        | ["som", text, _off, par, vot] =>
          match unhex text, kv par "par", kv vot "vot" with
          | some text, some par, some vot => some ⟨t, .som text par vot⟩
          | _, _, _ => none
        | _ => none
    | none => none
  | [] => none

def parseScOuts (ans : List String) : Option (List Spec.Out) :=
  match ans with
  | ["-"] => some []
  | [w] => (w.splitOn ",").mapM parseScOut
  | _ => none

/-- `sample:L:<N|S|R|B:hex>` or `sample:T:<idle|assembling|msg_...>` -/
def parseSigEv (w : String) : Option Spec.SigEv :=
  match w.splitOn ":" with
  | t :: "L" :: rest =>
    match t.toNat?, rest with
    | some t, ["N"] => some (.link t 'N' [])
    | some t, ["S"] => some (.link t 'S' [])
    | some t, ["R"] => some (.link t 'R' [])
    | some t, ["B", hx] => (unhex hx).map (fun b => .link t 'B' b)
    | _, _ => none
  | t :: "T" :: rest =>
    match t.toNat? with
    | some t =>
      let body := ":".intercalate rest
      if body.startsWith "msg_" then
        (parseScOut s!"{t}:{body.drop 4}").map (fun o => .msg t o.msg)
      else some (.other t)
    | none => none
  | _ => none

def parseSigEvs (ans : List String) : Option (List Spec.SigEv) :=
  match ans with
  | ["-"] => some []
  | [w] => (w.splitOn ",").mapM parseSigEv
  | _ => none

def toSBurst (b : ScBurst) : Spec.SBurst := ⟨b.role, b.bytes, b.t, b.busy⟩


def parseHdrAns (ws : List String) : Spec.HdrVerdictIn :=
  match ws with
  | ["err:NotAscii"] => .errNotAscii
  | ["err:Malformed"] => .errMalformed
  | ["som", t, o, p, v, org, evt, locs, dur, iss, call, orgk, natl] =>
    let r : Option Spec.HdrAns := do
      let t ← unhex t
      let o ← kv o "off"
      let p ← kv p "par"
      let v ← kv v "vot"
      let org ← (kvs org "org").bind unhex
      let evt ← (kvs evt "evt").bind unhex
      let locs ← (kvs locs "locs").bind (fun l => (l.splitOn "/").mapM unhex)
      let dur ← (kvs dur "dur").bind (fun d => match (d.splitOn ":").mapM String.toNat? with
        | some [a, b] => some (a, b) | _ => none)
      let iss ← (kvs iss "iss").bind (fun d => match (d.splitOn ":").mapM String.toNat? with
        | some [a, b, c] => some (a, b, c) | _ => none)
      let call ← (kvs call "call").bind unhex
      let orgk ← kvs orgk "orgk"
      let natl ← kv natl "natl"
      pure { text := t, off := o, par := p, vot := v, org, evt, locs, dur, iss, call, orgk, natl := natl == 1 }
    match r with
    | some a => .ok a
    | none => .errOther (" ".intercalate ws)
  | ws => .errOther (" ".intercalate ws)

def optVerdict : Option String → String
  | none => "ok"
  | some why => s!"FAIL {why}"

def verdict (b : Bool) (why : String) : String := if b then "ok" else s!"FAIL {why}"

/-- specification queries: `spec.<name> <inputs> => <implementation answer>` -/
def handleSpec (name : String) (ins ans : List String) : String :=
  match name, ins with
  | "spec.c03.vote3", [a, b, c] =>
    match a.toNat?, b.toNat?, c.toNat?, ans with
    | some a, some b, some c, [x, e] =>
      match x.toNat?, e.toNat? with
      | some x, some e => verdict (Spec.oracleVote3 (UInt8.ofNat a) (UInt8.ofNat b) (UInt8.ofNat c) (UInt8.ofNat x) e) "not the bitwise majority / dispute count"
      | _, _ => "FAIL unparsable answer"
    | _, _, _, _ => "FAIL unparsable answer"
  | "spec.c03.vote2", [a, b] =>
    match a.toNat?, b.toNat?, ans with
    | some a, some b, [x, e] =>
      match x.toNat?, e.toNat? with
      | some x, some e => verdict (Spec.oracleVote2 (UInt8.ofNat a) (UInt8.ofNat b) (UInt8.ofNat x) e) "not equality-or-zero / differing-bit count"
      | _, _ => "FAIL unparsable answer"
    | _, _, _ => "FAIL unparsable answer"
  | "spec.c03.counts", bursts =>
    match bursts.mapM unhex with
    | some bs =>
      match parseAns ans with
      | .som t _ p v => verdict (Spec.oracleCounts bs t p v) "parity/voting counters do not match the bursts"
      | .other s => s!"FAIL unparsable answer {s}"
      | _ => "ok"
    | none => "bad-op"
  | "spec.c03.two_of_three", [h, x, _pos] =>
    match unhex h, unhex x with
    | some h, some x =>
      match parseAns ans with
      | .som t _ p v =>
        verdict (t == h && p == Spec.specParity h x && v == Spec.specVoting h x)
          "two intact bursts did not yield exactly the header with the specified counters"
      | _ => "FAIL two intact bursts did not yield a StartOfMessage"
    | _, _ => "bad-op"
  | "spec.c03.pair", [a, b] =>
    match unhex a, unhex b with
    | some a, some b =>
      match parseAns ans with
      | .som t _ _ _ => verdict (Spec.oraclePair a b t) "header byte not backed by both bursts"
      | .other s => s!"FAIL unparsable answer {s}"
      | _ => "ok"
    | _, _ => "bad-op"
  | "spec.c06.hdr", [b] =>
    match unhex b with
    | some b => optVerdict (Spec.oracleHdr b (parseHdrAns ans))
    | none => "bad-op"
  | "spec.c06.reparse", first =>
    -- the answer for the stored text must equal the answer for the original input
    verdict (first == ans) "re-parsing the stored text gave a different header"
  | "spec.c06.msg3", [b, e, c] =>
    match unhex b, parseNats e, parseNats c with
    | some b, some e, some c =>
      -- dispatch rule of the byte-slice constructor
      if !validUtf8 b then verdict (ans == ["err:NotAscii"]) "invalid UTF-8 must be NotAscii"
      else if startsWith b litZCZC then
        let expPar := fun (t : List Byte) => ((e.zip t).map (·.1)).sum
        let expVot := fun (t : List Byte) => ((c.zip t).filter (fun p => p.1 ≥ 3)).length
        match parseAns ans with
        | .som t o p v =>
          -- accessors are not part of this answer; judge text, offset and counters
          match Spec.longestShapedPrefix b with
          | some (t', f) => verdict (b.all (· < 128) && t == t' && o == f.plus && p == expPar t && v == expVot t) "byte-slice constructor: text/offset/counters"
          | none => "FAIL accepted although no prefix has the header shape"
        | .err k =>
          if !b.all (· < 128) then verdict (k == "NotAscii") "non-ASCII must be NotAscii"
          else verdict (k == "Malformed" && (Spec.longestShapedPrefix b).isNone) "rejected although a prefix has the header shape"
        | _ => "FAIL ZCZC- prefix must dispatch to the header parser"
      else if startsWith b litNN then verdict (ans == ["eom"]) "NN prefix must be EndOfMessage"
      else verdict (ans == ["err:UnrecognizedPrefix"]) "other prefixes must be UnrecognizedPrefix"
    | _, _, _ => "bad-op"
  | "spec.c16.sigs", [_] =>
    -- answer: `Name:num:code:display;` x 6, then the 6 x 6 comparison matrix (row-major, '<' '=' '>')
    match ans with
    | [table, matrix] =>
      let rows := (table.splitOn ";").filter (· != "")
      let names := rows.map (fun r => (r.splitOn ":").getD 0 "")
      let nums := rows.map (fun r => ((r.splitOn ":").getD 1 "").toNat?)
      if names != ["Test", "Statement", "Emergency", "Watch", "Warning", "Unknown"] then "FAIL significance levels are not the six documented ones in the stated order"
      else if nums != [some 0, some 1, some 2, some 3, some 4, some 5] then "FAIL numeric forms are not 0..5 in the stated order"
      else
        let expected := String.ofList ((List.range 6).flatMap (fun i => (List.range 6).map (fun j =>
          if i < j then '<' else if i == j then '=' else '>')))
        verdict (matrix == expected) s!"comparing significance levels disagrees with comparing their numeric forms: {matrix} (expected {expected})"
    | _ => "FAIL unparsable"
  | "spec.c16.evt", [b] =>
    match unhex b, ans with
    | some b, [phen, sig, num, test, unrec, disp, _brief, _sc] =>
      match kvs phen "phen", kvs sig "sig", kv num "num", (kvs disp "disp").bind unhex, kvs test "test", kvs unrec "unrec" with
      | some phen, some sig, some num, some disp, some test, some unrec =>
        optVerdict (Spec.oracleEvt (bytesToNats b) phen sig num (bytesToNats disp) (test == "true") (unrec == "true"))
      | _, _, _, _, _, _ => "FAIL unparsable answer"
    | some _, ["not-utf8"] => "ok"
    | _, _ => "FAIL unparsable answer"
  | "spec.c16.sigfrom", [b] =>
    match unhex b, ans with
    | some b, [name] =>
      let exp := match bytesToNats b with
        | [c] => Spec.impliedSig c
        | _ => "Unknown"
      verdict (name == exp) "SignificanceLevel::from: not the level of the one-letter code"
    | _, _ => "FAIL unparsable answer"
  | "spec.c16.org", [o, c] =>
    match unhex o, unhex c, ans with
    | some o, some c, name :: _ => optVerdict (Spec.oracleOrg (bytesToNats o) (bytesToNats c) name)
    | _, _, _ => "FAIL unparsable answer"
  | "spec.c15.roundtrip", [y, d, h, m, _off] =>
    match y.toInt?, d.toNat?, h.toNat?, m.toNat?, ans with
    | some y, some d, some h, some m, ["ok", ry, rd, ts] =>
      verdict (ry.toInt? == some y && rd.toNat? == some d && ts.toInt? == some (Spec.trueEpoch y d h m))
        "reconstructed issue time is not the true instant"
    | some _, some _, some _, some _, _ => "FAIL a valid issue instant within ±90 days of the receive date was rejected"
    | _, _, _, _, _ => "bad-op"
  | "spec.c15.invalid", [d, h, m, _ry, _rd] =>
    match d.toNat?, h.toNat?, m.toNat?, ans with
    | some d, some h, some m, ["ok", ry, rd, ts] =>
      -- a result may only exist for a possible date/time, and must carry the message's own fields
      match ry.toInt?, rd.toNat?, ts.toInt? with
      | some ry, some rd, some ts =>
        verdict (1 ≤ d && d ≤ (if Spec.leapYear ry then 366 else 365) && h < 24 && m < 60 && rd == d
                  && ts == Spec.trueEpoch ry d h m) "an impossible date/time produced a time, or the result does not carry the message's own fields"
      | _, _, _ => "FAIL unparsable answer"
    | some d, some h, some m, ["err"] =>
      -- an error needs a reason: impossible field, or (checked elsewhere) out-of-range year
      verdict (d == 0 || d ≥ 366 || h ≥ 24 || m ≥ 60 || true) "-"
    | _, _, _, _ => "FAIL unparsable answer"
  | "spec.c15.expired", [exp] =>
    verdict (ans == [exp]) "expiry must hold exactly when now is strictly later than issue + duration"
  | "spec.asm", which :: _tag :: tx :: _tEnd :: bursts =>
    match bursts.mapM parseScBurst, parseScOuts ans, ((tx.drop 3).toString.splitOn "/").mapM unhex with
    | some bs, some outs, some txs =>
      let bs := bs.map toSBurst
      match which with
      | "c02" => optVerdict (Spec.oracleC02 txs bs outs)
      | "c04" => optVerdict (Spec.oracleC04 bs outs)
      | "c05" => optVerdict (Spec.oracleC05 txs bs outs)
      | "c05w" => optVerdict (Spec.oracleC05Window bs outs)
      | "c05g" => optVerdict (Spec.oracleC05Gap bs outs)
      | "c08" => optVerdict (Spec.oracleC08 bs outs)
      | _ => "bad-op"
    | _, _, _ => "FAIL unparsable scenario or answer"
  | "spec.sig", [which, arg, _label] =>
    match which with
    | "c01" =>
      match unhex arg, parseScOuts ans with
      | some h, some msgs => optVerdict (Spec.oracleSigC01 h msgs)
      | _, _ => "FAIL unparsable"
    | "c04" =>
      match arg.toNat?, parseSigEvs ans with
      | some rate, some evs => optVerdict (Spec.oracleSigC04 rate evs)
      | _, _ => "FAIL unparsable"
    | "c02" =>
      match arg.splitOn ",", parseScOuts ans with
      | [h, hm, tm, lone], some msgs =>
        match unhex h, hm.toNat?, tm.toNat? with
        | some h, some hm, some tm => optVerdict (Spec.oracleSigC02 h hm tm (lone == "1") msgs)
        | _, _, _ => "FAIL unparsable"
      | _, _ => "FAIL unparsable"
    | "fe" =>
      -- arg: me;pb;ib;obs;bytes;payload@hint,payload@hint,…   (front-end assumptions on a tapped run)
      match arg.splitOn ";" with
      | [me, pb, ib, obs, bytes, bursts] =>
        let bl := (bursts.splitOn ",").mapM (fun w => match w.splitOn "@" with
          | [p, h] => (match unhex p, h.toNat? with | some p, some h => some (p, h) | _, _ => none)
          | _ => none)
        match me.toNat?, pb.toNat?, ib.toNat?, unhex bytes, bl with
        | some me, some pb, some ib, some bytes, some bl =>
          let os : List Obs := obs.toList.map (fun ch => let v := ch.toNat - 48; ⟨v % 2 == 1, v / 2 % 2 == 1, v / 4 % 2 == 1⟩)
          let ticks := Spec.ticksOf ⟨me, ⟨pb, ib⟩⟩ os bytes
          let rs := Spec.checkTransmission me ticks bl
          -- the verdict is `decide` of the theorems' hypothesis `Spec.StreamObserved` on the positions found
          let (allOk, why) := match Spec.segsOfResults bl rs with
            | some segs =>
              if Spec.streamObservedB me ticks segs then (true, "sat")
              else (false, s!"unsat:{Spec.streamObservedWhy me ticks segs}")
            | none => (false, "n/a")
          let parts := rs.map (fun r => match r with
            | .ok k => s!"sat:acq={k.acq}:rel={k.rel}"
            | .error e => s!"unsat:{e}")
          -- generalised assumptions (`Spec.StreamObserved2`): early / wrong-phase first hits allowed
          let rs2 := Spec.findTransmission2 me ticks bl
          let (all2, why2, parts2) := match Spec.allFound2 rs2 with
            | some segs =>
              -- every burst located: the verdict is `decide` of `Spec.StreamObserved2`; per burst, the first failing clause
              let whys := Spec.chainWhy2 me ticks 0 segs
              let ps := (segs.zip whys).map (fun ((g : Spec.BurstSpec2), (w : String)) =>
                if w == "none" then s!"sat:acq={g.acq}:sync={g.sync}:rel={g.rel}" else s!"unsat:{w}:acq={g.acq}:sync={g.sync}:rel={g.rel}")
              if Spec.streamObserved2B me ticks segs then (true, "sat", ps)
              else (false, s!"unsat:{(whys.drop segs.length).headD "burst_clauses"}", ps)
            | none => (false, "n/a", rs2.map (fun (r : Except String Spec.BurstSpec2) => match r with
                | Except.ok g => s!"found:acq={g.acq}:sync={g.sync}:rel={g.rel}"
                | Except.error e => s!"unsat:{e}"))
          s!"ok fe_all={if allOk then "sat" else "unsat"} " ++ " ".intercalate (parts.map (fun p => s!"fe_burst={p}")) ++ s!" fe_stream={why}"
            ++ s!" fe2_all={if all2 then "sat" else "unsat"} " ++ " ".intercalate (parts2.map (fun p => s!"fe2_burst={p}")) ++ s!" fe2_stream={why2}"
        | _, _, _, _, _ => "FAIL unparsable"
      | _ => "FAIL unparsable"
    | "c08hold" =>
      match arg.splitOn ";", parseSigEvs ans with
      | [rate, h], some evs =>
        let exp : Option (Option (List Byte)) := if h == "-" then some none else (unhex h).map some
        match rate.toNat?, exp with
        | some rate, some exp => optVerdict (Spec.oracleSigC08Hold rate exp evs)
        | _, _ => "FAIL unparsable"
      | _, _ => "FAIL unparsable"
    | "c08seq" =>
      match arg.splitOn ";", parseSigEvs ans with
      | [rate, txs, spans], some evs =>
        let sp := if spans == "" then some [] else (spans.splitOn ",").mapM (fun w => match w.splitOn ":" with
          | [i, r] => (match i.toNat?, (r.splitOn "-").mapM String.toNat? with
            | some i, some [a, b] => some (i, a, b) | _, _ => none)
          | _ => none)
        match rate.toNat?, (txs.splitOn ",").mapM unhex, sp with
        | some rate, some txs, some sp => optVerdict (Spec.oracleSigC08Seq rate txs sp evs)
        | _, _, _ => "FAIL unparsable"
      | _, _ => "FAIL unparsable"
    | "c05seq" =>
      match arg.splitOn ";", parseSigEvs ans with
      | [rate, n, txs], some evs =>
        match rate.toNat?, n.toNat?, (txs.splitOn ",").mapM unhex with
        | some rate, some n, some txs => optVerdict (Spec.oracleSigC05Seq rate n txs evs)
        | _, _, _ => "FAIL unparsable"
      | _, _ => "FAIL unparsable"
    | "c05one" =>
      match parseScOuts ans with
      | some msgs => optVerdict (Spec.oracleSigC05One msgs)
      | none => "FAIL unparsable"
    | "c10" =>
      match arg.splitOn ",", ans with
      | _, ["PANIC"] => "FAIL processing panicked"
      | [h, pend], [msgs, fin] =>
        match unhex h, pend.toNat?, parseScOuts [msgs] with
        | some h, some pend, some ms =>
          let after := ms.filter (fun o => o.t > pend)
          let soms := after.filter (fun o => match o.msg with | .som t _ _ => t == h | _ => false)
          if fin != "finite=1" then "FAIL a non-finite number appeared in the receiver state"
          else match soms with
            | [s] => if after.any (fun o => o.msg == .eom ∧ o.t ≥ s.t) then "ok"
                     else "FAIL the transmission after the hostile prefix was decoded without its EndOfMessage"
            | _ => s!"FAIL the clean transmission after the hostile prefix produced {soms.length} StartOfMessage with its text (receiver left deaf or confused)"
        | _, _, _ => "FAIL unparsable"
      | _, _ => "FAIL unparsable"
    | "c10cold" =>
      -- answer: messages after the prefix (times relative to its end) || messages of a cold-started receiver
      match arg.toNat? with
      | some rate =>
        let a := ans.takeWhile (· != "||")
        let b := (ans.dropWhile (· != "||")).drop 1
        match parseScOuts a, parseScOuts b with
        | some ma, some mb =>
          if ma.length != mb.length then s!"FAIL after the hostile prefix {ma.length} messages were reported, from a cold start {mb.length}"
          else optVerdict ((ma.zip mb).findSome? (fun (x, y) =>
            -- texts only: the vote counters of a header may differ when one run hears a burst the other loses
            let same := match x.msg, y.msg with
              | .som a _ _, .som b _ _ => a == b
              | .eom, .eom => true
              | .err, .err => true
              | _, _ => false
            if !same then some "after the hostile prefix a different message was reported than from a cold start"
            else if x.t + rate < y.t || y.t + rate < x.t then some s!"a message was reported at {x.t} samples after the prefix, from a cold start at {y.t} (more than a second apart)"
            else none))
        | _, _ => "FAIL unparsable"
      | none => "FAIL unparsable"
    | "c07" =>
      match unhex arg, parseSigEvs ans with
      | some payload, some evs =>
        let bursts := evs.filterMap (fun e => match e with | .link _ 'B' b => some b | _ => none)
        match bursts with
        | [b] =>
          if b.take payload.length != payload then "FAIL the burst does not start at the first byte after the preamble with the transmitted bytes in order"
          else if b.length > payload.length + 8 then s!"FAIL the burst runs {b.length - payload.length} bytes past the end of the data"
          else "ok"
        | bs => s!"FAIL one transmission produced {bs.length} bursts (expected exactly one)"
      | _, _ => "FAIL unparsable"
    | "c09" =>
      -- arg: rate;number_of_input_samples
      match (arg.splitOn ";").mapM String.toNat?, parseSigEvs ans with
      | some [rate, n], some evs => optVerdict (Spec.oracleSigC09 rate n evs)
      | _, _ => "FAIL unparsable"
    | "c14ref" =>
      match ans with
      | [b, "|", f, "|", e, "||", r] =>
        let toks (w : String) : List String := if w == "-" then [] else (w.splitOn ",").map (fun m => ((m.splitOn "_off=").headD m))
        if e != "none" then "FAIL flush() did not end with None"
        else if toks b ++ toks f == toks r then "ok"
        else s!"FAIL messages delivered before the cut plus those from repeated flush() ({(toks b ++ toks f).length}) are not what continued silence delivers ({(toks r).length}), in order"
      | _ => "FAIL unparsable"
    | "c14" =>
      match arg.splitOn ",", ans with
      | [h, full], [b, "|", f, "|", e] =>
        let parseMsgs (w : String) : Option (List Spec.OutMsg) :=
          if w == "-" then some [] else (w.splitOn ",").mapM (fun m => (parseScOut s!"0:{m}").map (·.msg))
        match (h.splitOn "+").mapM unhex, parseMsgs b, parseMsgs f with
        | some hs, some b, some f => optVerdict (Spec.oracleSigC14 hs (full == "1") b f (e == "none"))
        | _, _, _ => "FAIL unparsable"
      | _, _ => "FAIL unparsable"
    | "nosom" =>
      match parseSigEvs ans with
      | some evs => verdict (!evs.any (fun e => match e with | .msg _ (.som ..) => true | _ => false))
          "a StartOfMessage was reported for audio that carries no header in two bursts"
      | none => "FAIL unparsable"
    | "c13stamp" =>
      verdict (ans == ["ok"]) s!"an event timestamp is not the number of samples consumed when it was produced: {" ".intercalate ans}"
    | "c13life" =>
      match parseSigEvs ans with
      | some evs => optVerdict (Spec.oracleLifecycle evs)
      | none => "FAIL unparsable"
    | "c08" =>
      match arg.splitOn ",", parseSigEvs ans with
      | rate :: spans, some msgs =>
        let sp := spans.mapM (fun w => match (w.splitOn "-").mapM String.toNat? with
          | some [a, b] => some (a, b) | _ => none)
        match rate.toNat?, sp with
        | some rate, some sp => optVerdict (Spec.oracleSigC08 rate sp msgs)
        | _, _ => "FAIL unparsable"
      | _, _ => "FAIL unparsable"
    | _ => "bad-op"
  | "spec.c11", [_label, n, live, flushed, quiet] =>
    match parseAppInput n live flushed, ans with
    | some inp, [printed] =>
      match parsePrinted printed with
      | (some ms, garbage) => optVerdict (Spec.oracleC11 inp (quiet == "quiet=1") ms garbage)
      | _ => "FAIL unparsable"
    | _, _ => "FAIL unparsable"
  | "spec.c12", [_label, n, live, flushed, rate] =>
    match parseAppInput n live flushed, kv rate "rate", ans with
    | some inp, some rate, [kids, envs] =>
      let kidsP : Option (List (AMsg × Nat × Nat × Bool)) :=
        if kids == "-" then some [] else (kids.splitOn ",").mapM (fun w =>
          match w.splitOn ":" with
          | [m, a, b] => do let m ← parseAMsg m; let a ← a.toNat?; let b ← b.toNat?; pure (m, a, b, false)
          | [m, a, b, _bad] => do let m ← parseAMsg m; let a ← a.toNat?; let b ← b.toNat?; pure (m, a, b, true)
          | _ => none)
      let envsP : Option (List (List (String × List Nat))) :=
        match kvs envs "env" with
        | some "-" => some []
        | some e => (e.splitOn ",").mapM (fun one => (one.splitOn "/").mapM (fun kvh =>
            (unhex kvh).map (fun b =>
              let line := bytesToNats b
              let k := line.takeWhile (· != 61)
              (String.ofList (k.map Char.ofNat), (line.dropWhile (· != 61)).drop 1))))
        | none => none
      match kidsP, envsP with
      | some kidsP, some envsP =>
        match Spec.oracleChildren inp kidsP with
        | some e => s!"FAIL {e}"
        | none =>
          if envsP.length != kidsP.length then "FAIL environment dumps and children differ in number"
          else
            optVerdict ((kidsP.zip envsP).findSome? (fun (k, env) => match k.1 with
              | .som t => Spec.oracleEnv rate t env
              | .eom => some "child spawned for an EndOfMessage"))
      | _, _ => "FAIL unparsable"
    | _, _, _ => "FAIL unparsable"
  | "spec.c14.last", [_label, expect] =>
    match ans with
    | [printed] =>
      verdict (((printed.splitOn ",").getLast?).getD "" == expect)
        s!"the last line samedec printed is not the message the end of the recording carries (expected {expect.take 9}…, printed {printed})"
    | _ => "FAIL unparsable"
  | "spec.c12.wait", [_label] =>
    verdict (ans == ["ok"]) s!"samedec did not wait for the child before continuing: {" ".intercalate ans}"
  | "spec.c17.opts", [_opts] =>
    match ans with
    | [exit, printed, expected] =>
      if exit != "exit=0" then s!"FAIL samedec aborted with a documented option value: {exit}"
      else if (kvs printed "printed").isNone || (kvs expected "expected_default").isNone then "FAIL unparsable"
      else "ok"
    | _ => "FAIL unparsable"
  | "spec.c19", [_label] =>
    match ans with
    | [exit, wall, printed, ncExit, nochild] =>
      if exit != "exit=0" then s!"FAIL samedec did not exit normally with a misbehaving child: {exit}"
      else if ncExit != "nochild_exit=0" then "FAIL the run without a child failed"
      else if (kvs printed "printed") != (kvs nochild "nochild") then "FAIL printed messages differ from the run without a child"
      else match kv wall "wall_ms" with
        | some ms => if ms > 30000 then "FAIL samedec took more than 30 s (hang)" else "ok"
        | none => "FAIL unparsable"
    | _ => "FAIL unparsable"
  | "spec.c17.run", _label :: _op =>
    match ans with
    | "ok" :: _ => "ok"
    | _ => s!"FAIL a configuration inside the documented ranges did not build and run: {" ".intercalate ans}"
  | "spec.c18.state", [_label] =>
    verdict (ans == ["-"]) s!"state after reset() differs from a freshly built receiver in a live field: {" ".intercalate ans}"
  | "spec.c18.events", [_label] =>
    let a := ans.takeWhile (· != "||")
    let b := (ans.dropWhile (· != "||")).drop 1
    if a == b then "ok"
    else
      -- first differing event
      let ea := (" ".intercalate a).splitOn ","
      let eb := (" ".intercalate b).splitOn ","
      let k := ((ea.zip eb).takeWhile (fun p => p.1 == p.2)).length
      s!"FAIL events after reset() differ from a fresh receiver's at event {k}: {ea.getD k "(none)"} vs {eb.getD k "(none)"}"
  | "spec.c13.calls", [n, ref, sched] =>
    match n.toNat?, parseRef ref, parseSched sched, ans with
    | some n, some ref, some sched, [calls] => optVerdict (oracleC13 n ref sched (calls.splitOn ","))
    | _, _, _, _ => "FAIL unparsable"
  | "spec.c07.stream", [pb, ib, bs] =>
    match pb.toNat?, ib.toNat?, unhex bs with
    | some pb, some ib, some bs =>
      verdict ((if ans.isEmpty then [""] else ans) == [rle ((Spec.specStates pb ib bs).map showLink)])
        "link states are not those of the framing specification (burst must start at the first in-budget prefix window, keep bytes in order, end at the first over-budget invalid byte or the length cap; no prefix within 22 bytes: no burst)"
    | _, _, _ => "bad-op"
  | _, _ => (handleDspSpec name ins ans).getD "bad-op"

def handleOp (args : List String) : String :=
  match args with
  | ["vote2", a, b] =>
    match a.toNat?, b.toNat? with
    | some a, some b => let (x, e) := voteDetect (UInt8.ofNat a) (UInt8.ofNat b); s!"{x.toNat} {e}"
    | _, _ => "bad-op"
  | ["vote3", a, b, c] =>
    match a.toNat?, b.toNat?, c.toNat? with
    | some a, some b, some c =>
      let (x, e) := voteCorrect (UInt8.ofNat a) (UInt8.ofNat b) (UInt8.ofNat c); s!"{x.toNat} {e}"
    | _, _, _ => "bad-op"
  | ["vote3hash", lo, hi] =>
    match lo.toNat?, hi.toNat? with
    | some lo, some hi => s!"{(vote3hash lo hi).toNat}"
    | _, _ => "bad-op"
  | ["vote2hash", lo, hi] =>
    match lo.toNat?, hi.toNat? with
    | some lo, some hi => s!"{(vote2hash lo hi).toNat}"
    | _, _ => "bad-op"
  | ["allowed"] =>
    String.ofList ((List.range 256).map (fun i => if isAllowed (UInt8.ofNat i) then '1' else '0'))
  | "estimate" :: bursts =>
    match bursts.mapM unhex with
    | some bs =>
      let est := estimateMessage MAXLEN bs
      s!"{hexOf (est.map (·.byte))} {natsOf (est.map (·.nbursts))} {natsOf (est.map (·.errs))}"
    | none => "bad-op"
  | "combine" :: bursts =>
    match bursts.mapM unhex with
    | some bs => showOptRes (combine MAXLEN bs)
    | none => "bad-op"
  | ["msg3", b, e, c] =>
    match unhex b, parseNats e, parseNats c with
    | some b, some e, some c => showRes (Msg.tryFromBytes b e c)
    | _, _, _ => "bad-op"
  | ["msgstr", b] =>
    match unhex b with
    | some b => if validUtf8 b then showRes (Msg.tryFromString b) else "not-utf8"
    | none => "bad-op"
  | ["hdr", b] =>
    match unhex b with
    | some b => hdrOut b
    | none => "bad-op"
  | ["hdrnbhd", seed, pos] =>
    match unhex seed, pos.toNat? with
    | some seed, some pos => s!"{(hdrnbhd seed pos).toNat}"
    | _, _ => "bad-op"
  | ["app.env", hdr, rate, year, doy] =>
    match unhex hdr, unhex rate, year.toInt?, doy.toNat? with
    | some hdr, some rate, some year, some doy =>
      match Header.new hdr with
      | .error _ => "not-a-header"
      | .ok h =>
        match childEnv h (bytesToNats rate) year doy with
        | .error _ => "PANIC"
        | .ok e => ",".intercalate (e.sorted.map (fun (k, v) => s!"{k}={hexOf (natsToBytes v)}"))
    | _, _, _, _ => "bad-op"
  | ["app.run", n, live, flushed, quiet, child, _spawn] =>
    match parseAppInput n live flushed with
    | some inp =>
      let out := appRun ⟨quiet == "quiet=1", child == "child=1"⟩ (fun _ => true) inp
      s!"printed={showList (out.printed.map showAMsg)} children={showList (out.children.map (fun (m, a, b) => s!"{showAMsg m}:{a}:{b}"))} exit=0"
    | none => "bad-op"
  | ["cfg.derive", rate, micro, en, ff, fb] =>
    match rate.toNat?, micro.toNat?, ff.toNat?, fb.toNat? with
    | some rate, some micro, some ff, some fb =>
      let c : BCfg := ⟨rate, micro, en == "1", ff, fb⟩
      if guardsHold c then s!"dc={dcLen c} taps={demodTaps c} ff={(eqOrders c).1} fb={(eqOrders c).2}"
      else "PANIC: guard"
    | _, _, _, _ => "bad-op"
  | ["iter.run", _n, ref, sched] =>
    match parseRef ref, parseSched sched with
    | some ref, some sched => iterRun ref sched
    | _, _ => "bad-op"
  | ["link.run", me, pb, ib, obs, bytes] =>
    match me.toNat?, pb.toNat?, ib.toNat?, unhex bytes with
    | some me, some pb, some ib, some bytes => linkRun ⟨me, ⟨pb, ib⟩⟩ obs.toList bytes
    | _, _, _, _ => "bad-op"
  | ["rx.run", rate, sym0, ticks] =>
    match rate.toNat?, sym0.toNat?, parseTicks ticks.toList [] with
    | some rate, some sym0, some ticks => rxRun rate sym0 ticks
    | _, _, _ => "bad-op"
  | "asm.scenario" :: tEnd :: bursts =>
    match tEnd.toNat?, bursts.mapM parseScBurst with
    | some tEnd, some bs => showScenarioOut (runScenario tEnd bs)
    | _, _ => "bad-op"
  | ["framerhash", pb, ib, pre, depth, lo, hi] =>
    match pb.toNat?, ib.toNat?, unhex pre, depth.toNat?, lo.toNat?, hi.toNat? with
    | some pb, some ib, some pre, some depth, some lo, some hi => s!"{(framerhash ⟨pb, ib⟩ pre depth lo hi).toNat}"
    | _, _, _, _, _, _ => "bad-op"
  | ["prefixerr", w] =>
    match w.toNat? with
    | some w => s!"{prefixErrors (UInt32.ofNat w)}"
    | none => "bad-op"
  | ["fr.stream", pb, ib, bs] =>
    match pb.toNat?, ib.toNat?, unhex bs with
    | some pb, some ib, some bs => frStream ⟨pb, ib⟩ bs
    | _, _, _ => "bad-op"
  | ["timehash", y] =>
    match y.toInt? with
    | some y => s!"{(timehash y).toNat}"
    | none => "bad-op"
  | ["durhash"] => s!"{durhash.toNat}"
  | ["hhmmhash", d] =>
    match d.toNat? with
    | some d => s!"{(hhmmhash d).toNat}"
    | none => "bad-op"
  | ["issue", d, h, m, ry, rd] =>
    match d.toNat?, h.toNat?, m.toNat?, ry.toInt?, rd.toNat? with
    | some d, some h, some m, some ry, some rd =>
      match calcIssue d h m ry rd with
      | some t => s!"ok {t.year} {t.doy} {t.epochSecs}"
      | none => "err"
    | _, _, _, _, _ => "bad-op"
  | ["expired", d, hh, mm, dh, dm, ny, nd, sod, nanos] =>
    match d.toNat?, hh.toNat?, mm.toNat?, dh.toNat?, dm.toNat?, ny.toInt?, nd.toNat?, sod.toNat?, nanos.toNat? with
    | some d, some hh, some mm, some dh, some dm, some ny, some nd, some sod, some nanos =>
      let nowSecs := (daysBeforeYear ny - daysBeforeYear 1970 + nd - 1) * 86400 + sod
      boolStr (isExpiredAt d hh mm dh dm ny nd nowSecs nanos)
    | _, _, _, _, _, _, _, _, _ => "bad-op"
  | ["evt3hash", lo, hi] =>
    match lo.toNat?, hi.toNat? with
    | some lo, some hi => s!"{(evt3hash lo hi).toNat}"
    | _, _ => "bad-op"
  | ["evtalpha", len, lo, hi] =>
    match len.toNat?, lo.toNat?, hi.toNat? with
    | some len, some lo, some hi => s!"{(evtalpha len lo hi).toNat}"
    | _, _, _ => "bad-op"
  | ["evt", b] =>
    match unhex b with
    | some b => if validUtf8 b then evtLine (bytesToNats b) else "not-utf8"
    | none => "bad-op"
  | ["sigfrom", b] =>
    match unhex b with
    | some b => if validUtf8 b then (sigOfStr (bytesToNats b)).name else "not-utf8"
    | none => "bad-op"
  | ["sigs"] => sigsLine
  | ["phens"] => phensLine
  | ["org", o, c] =>
    match unhex o, unhex c with
    | some o, some c =>
      if validUtf8 o && validUtf8 c then
        let x := originatorOf (bytesToNats o) (bytesToNats c)
        s!"{x.name} code={hexOf (natsToBytes x.code)} disp={hexOf (natsToBytes x.display)}"
      else "not-utf8"
    | _, _ => "bad-op"
  | "cfg.build" :: rest => (cfgBuildOp rest).getD "bad-op"
  | _ => (handleDspOp args).getD "bad-op"

def handle (args : List String) : String :=
  match args with
  | name :: rest =>
    if name.startsWith "spec." then
      let ins := rest.takeWhile (· != "=>")
      let ans := (rest.dropWhile (· != "=>")).drop 1
      handleSpec name ins ans
    else handleOp args
  | [] => "bad-op"

/-- driver state for the stateful suites -/
structure DState where
  fr : Option (FCfg × FState) := none
  asm : AState := {}

def handleSt (st : DState) (args : List String) : DState × String :=
  match args with
  | ["fr.new", pb, ib] =>
    match pb.toNat?, ib.toNat? with
    | some pb, some ib => ({ st with fr := some (⟨pb, ib⟩, .idle) }, "ok")
    | _, _ => (st, "bad-op")
  | ["fr.in", b, restart] =>
    match st.fr, b.toNat? with
    | some (c, fs), some b =>
      let (fs', ls) := finput c fs (UInt8.ofNat b) (restart == "1")
      ({ st with fr := some (c, fs') }, s!"{showLink ls} | {showFState fs'}")
    | _, _ => (st, "bad-op")
  | ["fr.end"] =>
    match st.fr with
    | some (c, fs) =>
      let (fs', ls) := fend fs
      ({ st with fr := some (c, fs') }, s!"{showLink ls} | {showFState fs'}")
    | none => (st, "bad-op")
  | ["asm.new"] => ({ st with asm := {} }, "ok")
  | ["asm.burst", b, t] =>
    match unhex b, t.toNat? with
    | some b, some t =>
      let (a', o) := aAssemble st.asm b t
      ({ st with asm := a' }, s!"{showTransport o} | {showAState a'}")
    | _, _ => (st, "bad-op")
  | ["asm.idle", t] =>
    match t.toNat? with
    | some t =>
      let (a', o) := aIdle st.asm t
      ({ st with asm := a' }, s!"{showTransport o} | {showAState a'}")
    | none => (st, "bad-op")
  | ["asm.pollrange", t1, t2] =>
    match t1.toNat?, t2.toNat? with
    | some t1, some t2 =>
      let (a', outs) := (List.range (t2 - t1)).foldl (fun (acc : AState × List String) k =>
        let (a', o) := aIdle acc.1 (t1 + k)
        (a', showTransport o :: acc.2)) (st.asm, [])
      ({ st with asm := a' }, s!"{rle outs.reverse} | {showAState a'}")
    | _, _ => (st, "bad-op")
  | _ => (st, handle args)

partial def loop (h : IO.FS.Stream) (out : IO.FS.Stream) (st : DState) : IO Unit := do
  let line ← h.getLine
  if line.isEmpty then return ()
  let args := (line.trimAscii.toString.splitOn " ").filter (· != "")
  if args.head? == some "rx.full" then
    -- the one request that reads a file (the audio of a whole case)
    let ans ← (fullRxOp args.tail).toBaseIO
    out.putStrLn (match ans with | .ok a => a | .error e => s!"io-error {e}")
    loop h out st
  else if args.head? == some "app.full" then
    let ans ← (appFullOp args.tail).toBaseIO
    out.putStrLn (match ans with | .ok a => a | .error e => s!"io-error {e}")
    loop h out st
  else if args.head? == some "rx.fullreset" then
    let ans ← (fullRxResetOp args.tail).toBaseIO
    out.putStrLn (match ans with | .ok a => a | .error e => s!"io-error {e}")
    loop h out st
  else
  let (st', ans) := handleSt st args
  out.putStrLn ans
  loop h out st'

def main : IO Unit := do
  let stdin ← IO.getStdin
  let stdout ← IO.getStdout
  loop stdin stdout {}
