import Driver.Util
